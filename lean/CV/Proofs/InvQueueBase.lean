import CV.Proofs.CoreStep
import CV.Proofs.CoreReach
import CV.Proofs.CoreQueue
/-
C02, machine level: the link between the small-step core machine and the `_EventQueue` layer.

The layer theorems of CV/Props/C02.lean talk about `EQ` under the op language `QOp`
(`app` = `EQ.append`, `flushBegin` = `EQ.begin`, `pop` = `EQ.pop`).  This file proves that the
machine touches a component's queue only through these operations (plus `EQ.drainFrom` in the
`register` step):

  * `QRel x s t` ("quiet for the queue of x"): `(t.comp x).eq` is obtained from `(s.comp x).eq`
    by a finite sequence of `QOp.app` ops.  Every primitive / helper / arm of `step` except the
    three arms `.flush`, `.dispatchLoop`, `.register` satisfies it (4-layer pattern of
    CoreStep.lean, committed-choice tactic `q2t`);
  * (CV/Proofs/InvQueue.lean) the three special arms are analysed explicitly (`q2_flush`, `q2_dispatchLoop`, `q2_register`);
  * `q2_step_class` : the classification of one step;
  * `QBatch` / `QInvAll` invariants over `Reach` / guarded reachability `ReachND`;
  * `fire` acts (`q2_acts_fire`, `q2_stepGen_fire`), the handler choice (`q2_chooseHandler`), the
    handler list built on a cache miss (`q2_computeHandlers`).

Every top-level name carries the prefix `q2` / `QRel` / `Q2`.
-/
namespace CV.Core

/-! ## table access after `modComp` -/

theorem St.q2_comp_modComp (s : St) (i : Nat) (f : Comp → Comp) (c : Nat) :
    (s.modComp i f).comp c = if i = c ∧ c < s.comps.length then f (s.comp c) else s.comp c := by
  unfold St.comp St.modComp
  simp only [List.getD_eq_getElem?_getD, List.getElem?_modify]
  by_cases hi : c < s.comps.length
  · rw [List.getElem?_eq_getElem hi]
    by_cases he : i = c <;> simp [he, hi]
  · rw [List.getElem?_eq_none (by omega)]
    simp [hi]

theorem St.q2_comp_oor (s : St) (c : Nat) (h : ¬ c < s.comps.length) : s.comp c = dfltComp := by
  unfold St.comp
  rw [List.getD_eq_getElem?_getD, List.getElem?_eq_none (by omega)]
  rfl

/-! ## the op language: runs of appends -/

/-- every op of the list is an append (`fire`) -/
def q2AllApp (ops : List QOp) : Prop := ∀ o ∈ ops, ∃ e p, o = QOp.app e p

theorem q2AllApp_nil : q2AllApp [] := fun _ h => absurd h (by simp)

theorem q2AllApp_append {a b : List QOp} (ha : q2AllApp a) (hb : q2AllApp b) : q2AllApp (a ++ b) := by
  intro o ho
  rcases List.mem_append.mp ho with h | h
  · exact ha o h
  · exact hb o h

theorem q2AllApp_single (e : Nat) (p : Int) : q2AllApp [QOp.app e p] := by
  intro o ho
  exact ⟨e, p, List.mem_singleton.mp ho⟩

theorem q2_runOps_append (q : EQ) (a b : List QOp) :
    (runOps q (a ++ b)).1 = (runOps (runOps q a).1 b).1 := by
  induction a generalizing q with
  | nil => rfl
  | cons o a ih => simp only [List.cons_append, runOps]; exact ih _

/-- appends never dispatch, never touch heap / batch, only extend the deque and the counter -/
theorem q2_runOps_apps (q : EQ) (ops : List QOp) (h : q2AllApp ops) :
    (runOps q ops).2 = [] ∧ (runOps q ops).1.heap = q.heap ∧ (runOps q ops).1.batch = q.batch ∧
    (runOps q ops).1.queue = q.queue ++ appItems q.counter ops ∧
    (runOps q ops).1.counter = q.counter + ops.length := by
  induction ops generalizing q with
  | nil => simp [runOps, appItems]
  | cons o ops ih =>
    obtain ⟨e, p, rfl⟩ := h _ List.mem_cons_self
    have ih' := ih (q.append e p) (fun o ho => h o (List.mem_cons_of_mem _ ho))
    simp only [runOps, QOp.apply, List.nil_append, appItems]
    refine ⟨ih'.1, ih'.2.1, ih'.2.2.1, ?_, ?_⟩
    · rw [ih'.2.2.2.1]; simp [EQ.append]
    · rw [ih'.2.2.2.2]; simp [EQ.append]; omega

/-! ## the relation -/

/-- between `s` and `t` the queue of component `x` was only appended to -/
def QRel (x : Nat) (s t : St) : Prop :=
  ∃ ops : List QOp, q2AllApp ops ∧ (t.comp x).eq = (runOps (s.comp x).eq ops).1

namespace QRel
variable {qx : Nat}

theorem of_eq {s t : St} (h : (t.comp qx).eq = (s.comp qx).eq) : QRel qx s t := ⟨[], q2AllApp_nil, h⟩

theorem refl (s : St) : QRel qx s s := of_eq rfl

theorem trans {a b c : St} (h1 : QRel qx a b) (h2 : QRel qx b c) : QRel qx a c := by
  obtain ⟨o1, a1, e1⟩ := h1
  obtain ⟨o2, a2, e2⟩ := h2
  exact ⟨o1 ++ o2, q2AllApp_append a1 a2, by rw [q2_runOps_append, e2, e1]⟩

/-- a change of the state that leaves the component table alone -/
theorem of_comps {s t t' : St} (h : QRel qx s t) (hc : t'.comps = t.comps) : QRel qx s t' := by
  obtain ⟨o, a, e⟩ := h
  exact ⟨o, a, by rw [← e]; unfold St.comp; rw [hc]⟩

variable {s t : St}

theorem modEv (h : QRel qx s t) (e : Nat) (f : Ev → Ev) : QRel qx s (t.modEv e f) := h.of_comps rfl
theorem modWait (h : QRel qx s t) (w : Nat) (f : WaitSt → WaitSt) : QRel qx s (t.modWait w f) := h.of_comps rfl
theorem modTimer (h : QRel qx s t) (i : Nat) (f : TimerSt → TimerSt) : QRel qx s (t.modTimer i f) := h.of_comps rfl
theorem setGen (h : QRel qx s t) (g : Nat) (y : GenRec) : QRel qx s (t.setGen g y) := h.of_comps rfl
theorem logE (h : QRel qx s t) (y : Entry) : QRel qx s (t.logE y) := h.of_comps rfl
theorem addEv (h : QRel qx s t) (e : Ev) : QRel qx s (t.addEv e) := h.of_comps rfl
theorem addH (h : QRel qx s t) (y : Handler) : QRel qx s (t.addH y) := h.of_comps rfl
theorem addGen (h : QRel qx s t) (g : GenRec) : QRel qx s (t.addGen g) := h.of_comps rfl
theorem addWait (h : QRel qx s t) (w : WaitSt) : QRel qx s (t.addWait w) := h.of_comps rfl
theorem tick1 (h : QRel qx s t) (d : Int) : QRel qx s (t.tick1 d) := h.of_comps rfl

/-- `modComp` with a function that keeps the `eq` field -/
theorem modComp (h : QRel qx s t) (c : Nat) (f : Comp → Comp) (hf : ∀ y : Comp, (f y).eq = y.eq) :
    QRel qx s (t.modComp c f) := by
  refine h.trans (of_eq ?_)
  rw [St.q2_comp_modComp]
  split
  · exact hf _
  · rfl

/-- the one place where the queue grows: `root._queue.append(…)` in `_fire` -/
theorem modCompAppend (h : QRel qx s t) (r e : Nat) (prio : Int) :
    QRel qx s (t.modComp r fun y => { y with eq := y.eq.append e prio }) := by
  refine h.trans ?_
  by_cases hc : r = qx ∧ qx < t.comps.length
  · refine ⟨[.app e prio], q2AllApp_single e prio, ?_⟩
    rw [St.q2_comp_modComp, if_pos hc]
    rfl
  · refine of_eq ?_
    rw [St.q2_comp_modComp, if_neg hc]

end QRel

/-! ## the tactic -/

/-- one step of `q2t`; extended by `macro_rules` (later rules are tried first) -/
syntax "q2t1" : tactic
macro_rules | `(tactic| q2t1) => `(tactic| split)
macro_rules | `(tactic| q2t1) => `(tactic| with_reducible apply QRel.tick1)
macro_rules | `(tactic| q2t1) => `(tactic| with_reducible apply QRel.addWait)
macro_rules | `(tactic| q2t1) => `(tactic| with_reducible apply QRel.addGen)
macro_rules | `(tactic| q2t1) => `(tactic| with_reducible apply QRel.addH)
macro_rules | `(tactic| q2t1) => `(tactic| with_reducible apply QRel.addEv)
macro_rules | `(tactic| q2t1) => `(tactic| with_reducible apply QRel.logE)
macro_rules | `(tactic| q2t1) => `(tactic| with_reducible apply QRel.setGen)
macro_rules | `(tactic| q2t1) => `(tactic| with_reducible apply QRel.modTimer)
macro_rules | `(tactic| q2t1) => `(tactic| with_reducible apply QRel.modWait)
macro_rules | `(tactic| q2t1) => `(tactic| with_reducible apply QRel.modEv)
macro_rules | `(tactic| q2t1) => `(tactic| ((with_reducible apply QRel.modComp); case hf => exact fun _ => rfl))
macro_rules | `(tactic| q2t1) => `(tactic| with_reducible assumption)
macro_rules | `(tactic| q2t1) => `(tactic| with_reducible exact QRel.refl _)

/-- apply `q2t1` as long as it applies (committed choice: no backtracking) -/
macro "q2t" : tactic => `(tactic| repeat' q2t1)

/-- unfold a helper, inline its `let`s, then `q2t` -/
macro "q2t_unfold" ids:ident+ : tactic => `(tactic| (unfold $[$ids]*; (try dsimp only); q2t))

variable {qx : Nat}

/-! ## helpers of `Pure.lean` -/

/-- a `foldl` of steps that each respect `QRel` respects `QRel` -/
theorem QRel.foldl {s t : St} {α} (g : St → α → St) (hg : ∀ a y, QRel qx s a → QRel qx s (g a y)) (l : List α)
    (h : QRel qx s t) : QRel qx s (l.foldl g t) := by
  induction l generalizing t with
  | nil => exact h
  | cons y l ih => exact ih (hg _ _ h)

theorem QRel.addHandler {s t : St} (h : QRel qx s t) (y : Nat) : QRel qx s (t.addHandler y) := by
  unfold St.addHandler
  dsimp only
  q2t1
  split
  · q2t
  · split
    · q2t
    · exact QRel.foldl _ (fun a n ha => by q2t) _ h
macro_rules | `(tactic| q2t1) => `(tactic| with_reducible apply QRel.addHandler)

theorem QRel.removeHandler {s t : St} (h : QRel qx s t) (y : Nat) (n : Option Name) :
    QRel qx s ((t.removeHandler y n).2) := by
  q2t_unfold St.removeHandler
macro_rules | `(tactic| q2t1) => `(tactic| with_reducible apply QRel.removeHandler)

theorem QRel.fireContext {s t : St} (h : QRel qx s t) (r e : Nat) :
    QRel qx s (t.fireContext r e) := by
  q2t_unfold St.fireContext
macro_rules | `(tactic| q2t1) => `(tactic| with_reducible apply QRel.fireContext)

theorem QRel.fireRaw {s t : St} (h : QRel qx s t) (self e : Nat) (chans : List Chan) (prio : Int) :
    QRel qx s (t.fireRaw self e chans prio) := by
  unfold St.fireRaw
  dsimp only
  apply QRel.logE
  apply QRel.modCompAppend
  q2t
macro_rules | `(tactic| q2t1) => `(tactic| with_reducible apply QRel.fireRaw)

theorem QRel.childEv {s t : St} (h : QRel qx s t) (p sfx : Nat) :
    QRel qx s (t.childEv p sfx) := by
  q2t_unfold St.childEv
macro_rules | `(tactic| q2t1) => `(tactic| with_reducible apply QRel.childEv)

theorem QRel.fireChild {s t : St} (h : QRel qx s t) (self p sfx : Nat) (chans : List Chan) :
    QRel qx s (t.fireChild self p sfx chans) := by
  q2t_unfold St.fireChild
macro_rules | `(tactic| q2t1) => `(tactic| with_reducible apply QRel.fireChild)

theorem QRel.inform {s t : St} (h : QRel qx s t) (e : Nat) (force : Bool) :
    QRel qx s (t.inform e force) := by
  q2t_unfold St.inform
macro_rules | `(tactic| q2t1) => `(tactic| with_reducible apply QRel.inform)

theorem QRel.setValue {s t : St} (h : QRel qx s t) (e : Nat) (x : VItem) :
    QRel qx s (t.setValue e x) := by
  q2t_unfold St.setValue
macro_rules | `(tactic| q2t1) => `(tactic| with_reducible apply QRel.setValue)

theorem QRel.fireTmplEv {s t : St} (h : QRel qx s t) (self : Nat) (ev : Ev) (target : Option Chan) (prio : Int) :
    QRel qx s (t.fireTmplEv self ev target prio) := by
  q2t_unfold St.fireTmplEv
macro_rules | `(tactic| q2t1) => `(tactic| with_reducible apply QRel.fireTmplEv)

theorem QRel.effectDone1 {s t : St} (h : QRel qx s t) (r e : Nat) (announce : Bool) :
    QRel qx s ((t.effectDone1 r e announce).2) := by
  q2t_unfold St.effectDone1
macro_rules | `(tactic| q2t1) => `(tactic| with_reducible apply QRel.effectDone1)

theorem QRel.eventDonePre {s t : St} (h : QRel qx s t) (r e : Nat) (err : Bool) :
    QRel qx s ((t.eventDonePre r e err).2) := by
  q2t_unfold St.eventDonePre
macro_rules | `(tactic| q2t1) => `(tactic| with_reducible apply QRel.eventDonePre)

theorem QRel.registerTask {s t : St} (h : QRel qx s t) (c : Nat) (x : Task) :
    QRel qx s (t.registerTask c x) := by
  q2t_unfold St.registerTask
macro_rules | `(tactic| q2t1) => `(tactic| with_reducible apply QRel.registerTask)

theorem QRel.unregisterTask {s t : St} (h : QRel qx s t) (c : Nat) (x : Task) :
    QRel qx s (t.unregisterTask c x) := by
  q2t_unfold St.unregisterTask
macro_rules | `(tactic| q2t1) => `(tactic| with_reducible apply QRel.unregisterTask)

theorem QRel.reduceTimeLeft {s t : St} (h : QRel qx s t) (e : Nat) (d : Int) :
    QRel qx s (t.reduceTimeLeft e d) := by
  q2t_unfold St.reduceTimeLeft
macro_rules | `(tactic| q2t1) => `(tactic| with_reducible apply QRel.reduceTimeLeft)

theorem QRel.registerFin {s t : St} (h : QRel qx s t) (c : Nat) :
    QRel qx s (t.registerFin c) := by
  q2t_unfold St.registerFin
macro_rules | `(tactic| q2t1) => `(tactic| with_reducible apply QRel.registerFin)

theorem QRel.unregister {s t : St} (h : QRel qx s t) (c : Nat) :
    QRel qx s (t.unregister c) := by
  q2t_unfold St.unregister
macro_rules | `(tactic| q2t1) => `(tactic| with_reducible apply QRel.unregister)

theorem QRel.prepUnregPre {s t : St} (h : QRel qx s t) (c : Nat) :
    QRel qx s (t.prepUnregPre c) := by
  q2t_unfold St.prepUnregPre
macro_rules | `(tactic| q2t1) => `(tactic| with_reducible apply QRel.prepUnregPre)

theorem QRel.prepUnregFin {s t : St} (h : QRel qx s t) (c : Nat) :
    QRel qx s (t.prepUnregFin c) := by
  q2t_unfold St.prepUnregFin
macro_rules | `(tactic| q2t1) => `(tactic| with_reducible apply QRel.prepUnregFin)

theorem QRel.actFire {s t : St} (h : QRel qx s t) (self i : Nat) (target : Option Chan) (prio : Int) (cancel : Bool) :
    QRel qx s (t.actFire self i target prio cancel) := by
  q2t_unfold St.actFire
macro_rules | `(tactic| q2t1) => `(tactic| with_reducible apply QRel.actFire)

theorem QRel.actStopEv {s t : St} (h : QRel qx s t) (ev : Option Nat) :
    QRel qx s (t.actStopEv ev) := by
  q2t_unfold St.actStopEv
macro_rules | `(tactic| q2t1) => `(tactic| with_reducible apply QRel.actStopEv)

theorem QRel.timerReset {s t : St} (h : QRel qx s t) (i : Nat) :
    QRel qx s (t.timerReset i) := by
  q2t_unfold St.timerReset
macro_rules | `(tactic| q2t1) => `(tactic| with_reducible apply QRel.timerReset)

theorem QRel.timerCreate {s t : St} (h : QRel qx s t) (i : Nat) :
    QRel qx s (t.timerCreate i) := by
  q2t_unfold St.timerCreate
macro_rules | `(tactic| q2t1) => `(tactic| with_reducible apply QRel.timerCreate)

theorem QRel.timerTick {s t : St} (h : QRel qx s t) (i e : Nat) :
    QRel qx s (t.timerTick i e) := by
  q2t_unfold St.timerTick
macro_rules | `(tactic| q2t1) => `(tactic| with_reducible apply QRel.timerTick)

theorem QRel.startWait {s t : St} (h : QRel qx s t) (w : Nat) :
    QRel qx s (t.startWait w) := by
  q2t_unfold St.startWait
macro_rules | `(tactic| q2t1) => `(tactic| with_reducible apply QRel.startWait)

/-! ## pure pieces of `Step.lean` -/

theorem QRel.stopBegin {s t : St} (h : QRel qx s t) (c : Nat) :
    QRel qx s (t.stopBegin c) := by
  q2t_unfold St.stopBegin
macro_rules | `(tactic| q2t1) => `(tactic| with_reducible apply QRel.stopBegin)

theorem QRel.stopSetCode {s t : St} (h : QRel qx s t) (r : Nat) (code : Code) :
    QRel qx s (t.stopSetCode r code) := by
  q2t_unfold St.stopSetCode
macro_rules | `(tactic| q2t1) => `(tactic| with_reducible apply QRel.stopSetCode)

theorem QRel.genCall {s t : St} (h : QRel qx s t) (owner i : Nat) (target : Option Chan) (timeout : Option Nat) :
    QRel qx s (t.genCall owner i target timeout) := by
  q2t_unfold St.genCall
macro_rules | `(tactic| q2t1) => `(tactic| with_reducible apply QRel.genCall)

theorem QRel.genWait {s t : St} (h : QRel qx s t) (owner : Nat) (name : Name) (target : Option Chan) (timeout : Option Nat) :
    QRel qx s (t.genWait owner name target timeout) := by
  q2t_unfold St.genWait
macro_rules | `(tactic| q2t1) => `(tactic| with_reducible apply QRel.genWait)

theorem QRel.resumeGenPre {s t : St} (h : QRel qx s t) (g : Nat) (silent : Bool) :
    QRel qx s (t.resumeGenPre g silent) := by
  q2t_unfold St.resumeGenPre
macro_rules | `(tactic| q2t1) => `(tactic| with_reducible apply QRel.resumeGenPre)

theorem QRel.stopIteration {s t : St} (h : QRel qx s t) (r : Nat) (x : Task) :
    QRel qx s ((t.stopIteration r x).2) := by
  q2t_unfold St.stopIteration
macro_rules | `(tactic| q2t1) => `(tactic| with_reducible apply QRel.stopIteration)

theorem QRel.fireException {s t : St} (h : QRel qx s t) (r e : Nat) :
    QRel qx s (t.fireException r e) := by
  q2t_unfold St.fireException
macro_rules | `(tactic| q2t1) => `(tactic| with_reducible apply QRel.fireException)

theorem QRel.errorBranch {s t : St} (h : QRel qx s t) (r : Nat) (x : Task) (resumed : Bool) :
    QRel qx s ((t.errorBranch r x resumed).2) := by
  q2t_unfold St.errorBranch
macro_rules | `(tactic| q2t1) => `(tactic| with_reducible apply QRel.errorBranch)

theorem QRel.ownSub {s t : St} (h : QRel qx s t) (r : Nat) (x : Task) (w : Nat) :
    QRel qx s (t.ownSub r x w) := by
  q2t_unfold St.ownSub
macro_rules | `(tactic| q2t1) => `(tactic| with_reducible apply QRel.ownSub)

theorem QRel.setValueOpt {s t : St} (h : QRel qx s t) (e : Nat) (v : Option Nat) :
    QRel qx s (t.setValueOpt e v) := by
  q2t_unfold St.setValueOpt
macro_rules | `(tactic| q2t1) => `(tactic| with_reducible apply QRel.setValueOpt)

theorem QRel.parentSub {s t : St} (h : QRel qx s t) (r : Nat) (x : Task) (p w2 : Nat) (viaThrow : Bool) :
    QRel qx s (t.parentSub r x p w2 viaThrow) := by
  q2t_unfold St.parentSub
macro_rules | `(tactic| q2t1) => `(tactic| with_reducible apply QRel.parentSub)

theorem QRel.parentPlain {s t : St} (h : QRel qx s t) (r : Nat) (x : Task) (p : Nat) (v : Option Nat) (viaThrow : Bool) :
    QRel qx s (t.parentPlain r x p v viaThrow) := by
  q2t_unfold St.parentPlain
macro_rules | `(tactic| q2t1) => `(tactic| with_reducible apply QRel.parentPlain)

theorem QRel.onWaitEvent {s t : St} (h : QRel qx s t) (w e : Nat) :
    QRel qx s ((t.onWaitEvent w e).2) := by
  q2t_unfold St.onWaitEvent
macro_rules | `(tactic| q2t1) => `(tactic| with_reducible apply QRel.onWaitEvent)

theorem QRel.onWaitDone {s t : St} (h : QRel qx s t) (w e : Nat) :
    QRel qx s ((t.onWaitDone w e).2) := by
  q2t_unfold St.onWaitDone
macro_rules | `(tactic| q2t1) => `(tactic| with_reducible apply QRel.onWaitDone)

theorem QRel.onWaitTick {s t : St} (h : QRel qx s t) (w : Nat) :
    QRel qx s ((t.onWaitTick w).2) := by
  q2t_unfold St.onWaitTick
macro_rules | `(tactic| q2t1) => `(tactic| with_reducible apply QRel.onWaitTick)

theorem QRel.onFallbackGE {s t : St} (h : QRel qx s t) (e : Nat) :
    QRel qx s ((t.onFallbackGE e).2) := by
  q2t_unfold St.onFallbackGE
macro_rules | `(tactic| q2t1) => `(tactic| with_reducible apply QRel.onFallbackGE)

theorem QRel.computeHandlers {s t : St} (h : QRel qx s t) (r : Nat) (name : Name) (chans : List Chan) :
    QRel qx s ((t.computeHandlers r name chans).2) := by
  q2t_unfold St.computeHandlers
macro_rules | `(tactic| q2t1) => `(tactic| with_reducible apply QRel.computeHandlers)

theorem QRel.dispComplete {s t : St} (h : QRel qx s t) (e : Nat) (ev : Ev) :
    QRel qx s (t.dispComplete e ev) := by
  q2t_unfold St.dispComplete
macro_rules | `(tactic| q2t1) => `(tactic| with_reducible apply QRel.dispComplete)

theorem QRel.cacheRefresh {s t : St} (h : QRel qx s t) (r : Nat) :
    QRel qx s (t.cacheRefresh r) := by
  q2t_unfold St.cacheRefresh
macro_rules | `(tactic| q2t1) => `(tactic| with_reducible apply QRel.cacheRefresh)

theorem QRel.lookupHandlers {s t : St} (h : QRel qx s t) (r : Nat) (name : Name) (chans : List Chan) :
    QRel qx s ((t.lookupHandlers r name chans).2) := by
  q2t_unfold St.lookupHandlers
macro_rules | `(tactic| q2t1) => `(tactic| with_reducible apply QRel.lookupHandlers)

theorem QRel.dispGE {s t : St} (h : QRel qx s t) (r e remaining : Nat) (name : Name) :
    QRel qx s (t.dispGE r e remaining name) := by
  q2t_unfold St.dispGE
macro_rules | `(tactic| q2t1) => `(tactic| with_reducible apply QRel.dispGE)

theorem QRel.dispatchPre {s t : St} (h : QRel qx s t) (r e remaining : Nat) :
    QRel qx s ((t.dispatchPre r e remaining).2) := by
  q2t_unfold St.dispatchPre
macro_rules | `(tactic| q2t1) => `(tactic| with_reducible apply QRel.dispatchPre)

theorem QRel.handlerRaised {s t : St} (h : QRel qx s t) (r e : Nat) :
    QRel qx s (t.handlerRaised r e) := by
  q2t_unfold St.handlerRaised
macro_rules | `(tactic| q2t1) => `(tactic| with_reducible apply QRel.handlerRaised)

theorem QRel.applyValue {s t : St} (h : QRel qx s t) (r e : Nat) (value : Outcome) :
    QRel qx s (t.applyValue r e value) := by
  q2t_unfold St.applyValue
macro_rules | `(tactic| q2t1) => `(tactic| with_reducible apply QRel.applyValue)

theorem QRel.geTasksCheck {s t : St} (h : QRel qx s t) (r e : Nat) :
    QRel qx s (t.geTasksCheck r e) := by
  q2t_unfold St.geTasksCheck
macro_rules | `(tactic| q2t1) => `(tactic| with_reducible apply QRel.geTasksCheck)

theorem QRel.tickGenerate {s t : St} (h : QRel qx s t) (c : Nat) :
    QRel qx s (t.tickGenerate c) := by
  q2t_unfold St.tickGenerate
macro_rules | `(tactic| q2t1) => `(tactic| with_reducible apply QRel.tickGenerate)

theorem QRel.runBegin {s t : St} (h : QRel qx s t) (c : Nat) :
    QRel qx s (t.runBegin c) := by
  q2t_unfold St.runBegin
macro_rules | `(tactic| q2t1) => `(tactic| with_reducible apply QRel.runBegin)

theorem QRel.runEnd {s t : St} (h : QRel qx s t) (c : Nat) :
    QRel qx s ((t.runEnd c).2) := by
  q2t_unfold St.runEnd
macro_rules | `(tactic| q2t1) => `(tactic| with_reducible apply QRel.runEnd)

theorem QRel.actStep {s t : St} (h : QRel qx s t) (ctx : HCtx) (a : Act) : QRel qx s (actStep t ctx a).st := by
  cases a <;> (unfold CV.Core.actStep; (try dsimp only); q2t)
macro_rules | `(tactic| q2t1) => `(tactic| with_reducible apply QRel.actStep)

/-! ## the arms of `step` -/

macro_rules
  | `(tactic| q2t1) => `(tactic| simp only [Cfg.pop_st, Cfg.popRet_st, Cfg.raise_st, Cfg.goto_st])

theorem Cfg.effectDone_q2 (c : Cfg) (k : List Frame) (r e : Nat) (announce : Bool) :
    QRel qx c.st (c.effectDone k r e announce).st := by
  unfold Cfg.effectDone; (try dsimp only); q2t
macro_rules | `(tactic| q2t1) => `(tactic| with_reducible exact Cfg.effectDone_q2 ..)

theorem Cfg.eventDone_q2 (c : Cfg) (k : List Frame) (r e : Nat) (err : Bool) :
    QRel qx c.st (c.eventDone k r e err).st := by
  unfold Cfg.eventDone; (try dsimp only); q2t
macro_rules | `(tactic| q2t1) => `(tactic| with_reducible exact Cfg.eventDone_q2 ..)

theorem QRel.updateRootAll (s : St) : ∀ (fuel : Nat) (todo : List Nat) (root : Nat) (t : St),
    QRel qx s t → QRel qx s (St.updateRootAll fuel todo root t) := by
  intro fuel
  induction fuel with
  | zero => intro todo root t h; simpa [St.updateRootAll] using h
  | succ n ih =>
    intro todo root t h
    cases todo with
    | nil => simpa [St.updateRootAll] using h
    | cons x rest =>
      simp only [St.updateRootAll]
      apply ih
      q2t

macro_rules | `(tactic| q2t1) => `(tactic| with_reducible apply QRel.updateRootAll)

theorem Cfg.updateRoot_q2 (c : Cfg) (k : List Frame) (todo : List Nat) (root : Nat) :
    QRel qx c.st (c.updateRoot k todo root).st := by
  unfold Cfg.updateRoot; (try dsimp only)
  simp only [Cfg.pop_st]
  exact QRel.updateRootAll _ _ _ _ _ (QRel.refl _)
macro_rules | `(tactic| q2t1) => `(tactic| with_reducible exact Cfg.updateRoot_q2 ..)

theorem Cfg.registerFin_q2 (c : Cfg) (k : List Frame) (x : Nat) :
    QRel qx c.st (c.registerFin k x).st := by
  unfold Cfg.registerFin; (try dsimp only); q2t
macro_rules | `(tactic| q2t1) => `(tactic| with_reducible exact Cfg.registerFin_q2 ..)

theorem Cfg.prepUnregFin_q2 (c : Cfg) (k : List Frame) (x : Nat) :
    QRel qx c.st (c.prepUnregFin k x).st := by
  unfold Cfg.prepUnregFin; (try dsimp only); q2t
macro_rules | `(tactic| q2t1) => `(tactic| with_reducible exact Cfg.prepUnregFin_q2 ..)

theorem Cfg.stopMgr_q2 (c : Cfg) (k : List Frame) (x : Nat) (code : Code) :
    QRel qx c.st (c.stopMgr k x code).st := by
  unfold Cfg.stopMgr; (try dsimp only); q2t
macro_rules | `(tactic| q2t1) => `(tactic| with_reducible exact Cfg.stopMgr_q2 ..)

theorem Cfg.ticks_q2 (c : Cfg) (k : List Frame) (x n : Nat) :
    QRel qx c.st (c.ticks k x n).st := by
  unfold Cfg.ticks; (try dsimp only); q2t
macro_rules | `(tactic| q2t1) => `(tactic| with_reducible exact Cfg.ticks_q2 ..)

theorem Cfg.stopFin_q2 (c : Cfg) (k : List Frame) (code : Code) :
    QRel qx c.st (c.stopFin k code).st := by
  unfold Cfg.stopFin; (try dsimp only); q2t
macro_rules | `(tactic| q2t1) => `(tactic| with_reducible exact Cfg.stopFin_q2 ..)

theorem Cfg.timerNew_q2 (c : Cfg) (k : List Frame) (i : Nat) :
    QRel qx c.st (c.timerNew k i).st := by
  unfold Cfg.timerNew; (try dsimp only); q2t
macro_rules | `(tactic| q2t1) => `(tactic| with_reducible exact Cfg.timerNew_q2 ..)

theorem Cfg.acts_q2 (c : Cfg) (k : List Frame) (ctx : HCtx) (prog : Prog) :
    QRel qx c.st (c.acts k ctx prog).st := by
  unfold Cfg.acts; (try dsimp only); q2t
macro_rules | `(tactic| q2t1) => `(tactic| with_reducible exact Cfg.acts_q2 ..)

theorem Cfg.doFin_q2 (c : Cfg) (k : List Frame) (x : Nat) :
    QRel qx c.st (c.doFin k x).st := by
  unfold Cfg.doFin; (try dsimp only); q2t
macro_rules | `(tactic| q2t1) => `(tactic| with_reducible exact Cfg.doFin_q2 ..)

theorem Cfg.drainQ_q2 (c : Cfg) (k : List Frame) (x : Nat) :
    QRel qx c.st (c.drainQ k x).st := by
  unfold Cfg.drainQ; (try dsimp only); q2t
macro_rules | `(tactic| q2t1) => `(tactic| with_reducible exact Cfg.drainQ_q2 ..)

theorem Cfg.stepGen_q2 (c : Cfg) (k : List Frame) (g : Nat) :
    QRel qx c.st (c.stepGen k g).st := by
  unfold Cfg.stepGen; (try dsimp only); q2t
macro_rules | `(tactic| q2t1) => `(tactic| with_reducible exact Cfg.stepGen_q2 ..)

theorem Cfg.processTask_q2 (c : Cfg) (k : List Frame) (r : Nat) (x : Task) :
    QRel qx c.st (c.processTask k r x).st := by
  unfold Cfg.processTask; (try dsimp only); q2t
macro_rules | `(tactic| q2t1) => `(tactic| with_reducible exact Cfg.processTask_q2 ..)

theorem Cfg.contStop_q2 {s0 : St} (c : Cfg) (k : List Frame) (s : St) (r : Nat) (x : Task) (hle : QRel qx s0 s) :
    QRel qx s0 (c.contStop k s r x).st := by
  unfold Cfg.contStop; (try dsimp only); q2t
macro_rules | `(tactic| q2t1) => `(tactic| with_reducible apply Cfg.contStop_q2)

theorem Cfg.contError_q2 {s0 : St} (c : Cfg) (k : List Frame) (s : St) (r : Nat) (x : Task) (resumed : Bool) (hle : QRel qx s0 s) :
    QRel qx s0 (c.contError k s r x resumed).st := by
  unfold Cfg.contError; (try dsimp only); q2t
macro_rules | `(tactic| q2t1) => `(tactic| with_reducible apply Cfg.contError_q2)

theorem Cfg.ptBodyWait_q2 (c : Cfg) (k : List Frame) (r : Nat) (x : Task) (w : Nat) :
    QRel qx c.st (c.ptBodyWait k r x w).st := by
  unfold Cfg.ptBodyWait; (try dsimp only); q2t
macro_rules | `(tactic| q2t1) => `(tactic| with_reducible exact Cfg.ptBodyWait_q2 ..)

theorem Cfg.ptBodyExc_q2 (c : Cfg) (k : List Frame) (r : Nat) (x : Task) (w : Nat) (fired : Bool) :
    QRel qx c.st (c.ptBodyExc k r x w fired).st := by
  unfold Cfg.ptBodyExc; (try dsimp only); q2t
macro_rules | `(tactic| q2t1) => `(tactic| with_reducible exact Cfg.ptBodyExc_q2 ..)

theorem Cfg.ptBody_q2 (c : Cfg) (k : List Frame) (r : Nat) (x : Task) :
    QRel qx c.st (c.ptBody k r x).st := by
  unfold Cfg.ptBody; (try dsimp only); q2t
macro_rules | `(tactic| q2t1) => `(tactic| with_reducible exact Cfg.ptBody_q2 ..)

theorem Cfg.ptOwn_q2 (c : Cfg) (k : List Frame) (r : Nat) (x : Task) :
    QRel qx c.st (c.ptOwn k r x).st := by
  unfold Cfg.ptOwn; (try dsimp only); q2t
macro_rules | `(tactic| q2t1) => `(tactic| with_reducible exact Cfg.ptOwn_q2 ..)

theorem Cfg.ptParent_q2 (c : Cfg) (k : List Frame) (r : Nat) (x : Task) (p : Nat) (viaThrow : Bool) :
    QRel qx c.st (c.ptParent k r x p viaThrow).st := by
  unfold Cfg.ptParent; (try dsimp only); q2t
macro_rules | `(tactic| q2t1) => `(tactic| with_reducible exact Cfg.ptParent_q2 ..)

theorem Cfg.ptFin_q2 (c : Cfg) (k : List Frame) (r : Nat) (handling : Option Nat) :
    QRel qx c.st (c.ptFin k r handling).st := by
  unfold Cfg.ptFin; (try dsimp only); q2t
macro_rules | `(tactic| q2t1) => `(tactic| with_reducible exact Cfg.ptFin_q2 ..)

theorem Cfg.dispatcher_q2 (c : Cfg) (k : List Frame) (r e remaining : Nat) :
    QRel qx c.st (c.dispatcher k r e remaining).st := by
  unfold Cfg.dispatcher; (try dsimp only); q2t
macro_rules | `(tactic| q2t1) => `(tactic| with_reducible exact Cfg.dispatcher_q2 ..)

theorem Cfg.hLoop_q2 (c : Cfg) (k : List Frame) (r e : Nat) (hs : List Nat) (err : Bool) (stale : Outcome) :
    QRel qx c.st (c.hLoop k r e hs err stale).st := by
  unfold Cfg.hLoop; (try dsimp only); q2t
macro_rules | `(tactic| q2t1) => `(tactic| with_reducible exact Cfg.hLoop_q2 ..)

theorem Cfg.invokeUser_q2 {s0 : St} (c : Cfg) (k : List Frame) (s : St) (h e owner p : Nat) (hle : QRel qx s0 s) :
    QRel qx s0 (c.invokeUser k s h e owner p).st := by
  unfold Cfg.invokeUser; (try dsimp only); q2t
macro_rules | `(tactic| q2t1) => `(tactic| with_reducible apply Cfg.invokeUser_q2)

theorem Cfg.invoke_q2 (c : Cfg) (k : List Frame) (r h e : Nat) :
    QRel qx c.st (c.invoke k r h e).st := by
  unfold Cfg.invoke; (try dsimp only); q2t
macro_rules | `(tactic| q2t1) => `(tactic| with_reducible exact Cfg.invoke_q2 ..)

theorem Cfg.invokeFin_q2 (c : Cfg) (k : List Frame) (e h : Nat) :
    QRel qx c.st (c.invokeFin k e h).st := by
  unfold Cfg.invokeFin; (try dsimp only); q2t
macro_rules | `(tactic| q2t1) => `(tactic| with_reducible exact Cfg.invokeFin_q2 ..)

theorem Cfg.hAfter_q2 (c : Cfg) (k : List Frame) (r e : Nat) (rest : List Nat) (err : Bool) (stale : Outcome) :
    QRel qx c.st (c.hAfter k r e rest err stale).st := by
  unfold Cfg.hAfter; (try dsimp only); q2t
macro_rules | `(tactic| q2t1) => `(tactic| with_reducible exact Cfg.hAfter_q2 ..)

theorem Cfg.hApply_q2 (c : Cfg) (k : List Frame) (r e : Nat) (rest : List Nat) (err : Bool) (value : Outcome) :
    QRel qx c.st (c.hApply k r e rest err value).st := by
  unfold Cfg.hApply; (try dsimp only); q2t
macro_rules | `(tactic| q2t1) => `(tactic| with_reducible exact Cfg.hApply_q2 ..)

theorem Cfg.dispFin_q2 (c : Cfg) (k : List Frame) (r e : Nat) (err : Bool) :
    QRel qx c.st (c.dispFin k r e err).st := by
  unfold Cfg.dispFin; (try dsimp only); q2t
macro_rules | `(tactic| q2t1) => `(tactic| with_reducible exact Cfg.dispFin_q2 ..)

theorem Cfg.flushFin_q2 (c : Cfg) (k : List Frame) (r : Nat) (old : Bool) :
    QRel qx c.st (c.flushFin k r old).st := by
  unfold Cfg.flushFin; (try dsimp only); q2t
macro_rules | `(tactic| q2t1) => `(tactic| with_reducible exact Cfg.flushFin_q2 ..)

theorem Cfg.tick_q2 (c : Cfg) (k : List Frame) (x : Nat) :
    QRel qx c.st (c.tick k x).st := by
  unfold Cfg.tick; (try dsimp only); q2t
macro_rules | `(tactic| q2t1) => `(tactic| with_reducible exact Cfg.tick_q2 ..)

theorem Cfg.taskLoop_q2 (c : Cfg) (k : List Frame) (x : Nat) (ts : List Task) :
    QRel qx c.st (c.taskLoop k x ts).st := by
  unfold Cfg.taskLoop; (try dsimp only); q2t
macro_rules | `(tactic| q2t1) => `(tactic| with_reducible exact Cfg.taskLoop_q2 ..)

theorem Cfg.tickFin_q2 (c : Cfg) (k : List Frame) (x : Nat) (old : Bool) :
    QRel qx c.st (c.tickFin k x old).st := by
  unfold Cfg.tickFin; (try dsimp only); q2t
macro_rules | `(tactic| q2t1) => `(tactic| with_reducible exact Cfg.tickFin_q2 ..)

theorem Cfg.tickGen_q2 (c : Cfg) (k : List Frame) (x : Nat) :
    QRel qx c.st (c.tickGen k x).st := by
  unfold Cfg.tickGen; (try dsimp only); q2t
macro_rules | `(tactic| q2t1) => `(tactic| with_reducible exact Cfg.tickGen_q2 ..)

theorem Cfg.run_q2 (c : Cfg) (k : List Frame) (x : Nat) :
    QRel qx c.st (c.run k x).st := by
  unfold Cfg.run; (try dsimp only); q2t
macro_rules | `(tactic| q2t1) => `(tactic| with_reducible exact Cfg.run_q2 ..)

theorem Cfg.runLoop_q2 (c : Cfg) (k : List Frame) (x : Nat) :
    QRel qx c.st (c.runLoop k x).st := by
  unfold Cfg.runLoop; (try dsimp only); q2t
macro_rules | `(tactic| q2t1) => `(tactic| with_reducible exact Cfg.runLoop_q2 ..)

theorem Cfg.runFin_q2 (c : Cfg) (k : List Frame) (x : Nat) :
    QRel qx c.st (c.runFin k x).st := by
  unfold Cfg.runFin; (try dsimp only); q2t
macro_rules | `(tactic| q2t1) => `(tactic| with_reducible exact Cfg.runFin_q2 ..)

theorem Cfg.runCatchExn_q2 (c : Cfg) (k : List Frame) (x : Nat) (ex : Exn) :
    QRel qx c.st (c.runCatchExn k x ex).st := by
  unfold Cfg.runCatchExn; (try dsimp only); q2t
macro_rules | `(tactic| q2t1) => `(tactic| with_reducible exact Cfg.runCatchExn_q2 ..)

theorem Cfg.runRethrow_q2 (c : Cfg) (k : List Frame) (ex : Exn) :
    QRel qx c.st (c.runRethrow k ex).st := by
  unfold Cfg.runRethrow; (try dsimp only); q2t
macro_rules | `(tactic| q2t1) => `(tactic| with_reducible exact Cfg.runRethrow_q2 ..)


/-! ## the transition function, quiet part -/

theorem unwind_q2 (c : Cfg) (k : List Frame) (ex : Exn) (f : Frame) : QRel qx c.st (unwind c k ex f).st := by
  cases f <;> (dsimp only [unwind]; q2t)

/-- the three frames whose arm is not append-only for every queue -/
def Frame.q2special : Frame → Bool
  | .flush _ => true
  | .dispatchLoop _ => true
  | .register _ _ => true
  | _ => false

theorem stepFrame_q2 (c : Cfg) (k : List Frame) (f : Frame) (hf : f.q2special = false) :
    QRel qx c.st (stepFrame c k f).st := by
  cases f
  all_goals first
    | (simp [Frame.q2special] at hf; done)
    | (dsimp only [stepFrame]; q2t)

end CV.Core

import CV.Proofs.CoreStep
/-
How the arms of `step` change the STACK (no state reasoning): every frame other than the six
frames of `run()` itself replaces itself by frames of that kind (`stepFrame_ext`), and is
simply popped while an exception unwinds (`unwind_inner`).  Used by CV/Proofs/InvRun.lean for
the stack-shape invariant of `run()`.
-/
namespace CV.Core

/-- frames that do not belong to the body of `run()` itself -/
def Frame.inner : Frame → Bool
  | .run _ => false
  | .runLoop _ => false
  | .drainQ _ => false
  | .runCatch _ => false
  | .runRethrow _ => false
  | .runFin _ => false
  | _ => true

/-- `c'` has the stack `k` with some inner frames on top -/
def Cfg.Ext (k : List Frame) (c' : Cfg) : Prop := ∃ fs, c'.stack = fs ++ k ∧ ∀ g ∈ fs, g.inner = true

namespace Cfg.Ext
variable {c : Cfg} {k : List Frame} {s : St}
theorem pop : Cfg.Ext k (c.pop k s) := ⟨[], rfl, by simp⟩
theorem popRet {v : Ret} : Cfg.Ext k (c.popRet k s v) := ⟨[], rfl, by simp⟩
theorem raise {ex : Exn} : Cfg.Ext k (c.raise k s ex) := ⟨[], rfl, by simp⟩
theorem goto {fs : List Frame} (h : ∀ g ∈ fs, g.inner = true) : Cfg.Ext k (c.goto k s fs) := ⟨fs, rfl, h⟩
end Cfg.Ext

theorem actStep_call_inner {s : St} {ctx : HCtx} {a : Act} {f : Frame}
    (h : (actStep s ctx a).kind = .call f) : f.inner = true := by
  cases a <;> simp [actStep] at h <;> (try split at h) <;> (try cases h) <;> (try subst h) <;> rfl

syntax "stk1" : tactic
macro_rules | `(tactic| stk1) => `(tactic| split)
macro_rules | `(tactic| stk1) => `(tactic|
  (with_reducible apply Cfg.Ext.goto; (first | (simp [Frame.inner]; done) | fail "stk: goto")))
macro_rules | `(tactic| stk1) => `(tactic| with_reducible exact Cfg.Ext.raise)
macro_rules | `(tactic| stk1) => `(tactic| with_reducible exact Cfg.Ext.popRet)
macro_rules | `(tactic| stk1) => `(tactic| with_reducible exact Cfg.Ext.pop)
macro "stk" : tactic => `(tactic| repeat' stk1)

theorem Cfg.contStop_ext (c : Cfg) (k : List Frame) (s : St) (r : Nat) (t : Task) :
    Cfg.Ext k (c.contStop k s r t) := by
  unfold Cfg.contStop; (try dsimp only); stk
macro_rules | `(tactic| stk1) => `(tactic| with_reducible exact Cfg.contStop_ext ..)

theorem Cfg.contError_ext (c : Cfg) (k : List Frame) (s : St) (r : Nat) (t : Task) (b : Bool) :
    Cfg.Ext k (c.contError k s r t b) := by
  unfold Cfg.contError; (try dsimp only); stk
macro_rules | `(tactic| stk1) => `(tactic| with_reducible exact Cfg.contError_ext ..)

theorem Cfg.ptBodyWait_ext (c : Cfg) (k : List Frame) (r : Nat) (t : Task) (w : Nat) :
    Cfg.Ext k (c.ptBodyWait k r t w) := by
  unfold Cfg.ptBodyWait; (try dsimp only); stk
macro_rules | `(tactic| stk1) => `(tactic| with_reducible exact Cfg.ptBodyWait_ext ..)

theorem Cfg.ptBodyExc_ext (c : Cfg) (k : List Frame) (r : Nat) (t : Task) (w : Nat) (b : Bool) :
    Cfg.Ext k (c.ptBodyExc k r t w b) := by
  unfold Cfg.ptBodyExc; (try dsimp only); stk
macro_rules | `(tactic| stk1) => `(tactic| with_reducible exact Cfg.ptBodyExc_ext ..)

theorem Cfg.invokeUser_ext (c : Cfg) (k : List Frame) (s : St) (h e owner p : Nat) :
    Cfg.Ext k (c.invokeUser k s h e owner p) := by
  unfold Cfg.invokeUser; (try dsimp only); stk
macro_rules | `(tactic| stk1) => `(tactic| with_reducible exact Cfg.invokeUser_ext ..)

theorem Cfg.acts_ext (c : Cfg) (k : List Frame) (ctx : HCtx) (prog : Prog) :
    Cfg.Ext k (c.acts k ctx prog) := by
  unfold Cfg.acts
  split
  · stk
  · split
    · stk
    · stk
    · rename_i f hf
      apply Cfg.Ext.goto
      intro g hg
      simp only [List.mem_cons, List.mem_nil_iff, or_false] at hg
      rcases hg with rfl | rfl
      · exact actStep_call_inner hf
      · rfl

theorem Cfg.stepGen_ext (c : Cfg) (k : List Frame) (g : Nat) :
    Cfg.Ext k (c.stepGen k g) := by
  unfold Cfg.stepGen
  dsimp only
  split
  · split
    · stk
    · split
      · stk
      · stk
      · stk
      · stk
      · split
        · stk
        · stk
        · rename_i f hf
          apply Cfg.Ext.goto
          intro g' hg
          simp only [List.mem_cons, List.mem_nil_iff, or_false] at hg
          rcases hg with rfl | rfl
          · exact actStep_call_inner hf
          · rfl
  · stk

/-- normal execution of an inner frame pushes only inner frames -/
theorem stepFrame_ext (c : Cfg) (k : List Frame) (f : Frame) (hf : f.inner = true) :
    Cfg.Ext k (stepFrame c k f) := by
  cases f <;> first
    | (cases hf; done)
    | (dsimp only [stepFrame]; exact Cfg.acts_ext ..)
    | (dsimp only [stepFrame]; exact Cfg.stepGen_ext ..)
    | (dsimp only [stepFrame]
       first
         | unfold Cfg.effectDone | unfold Cfg.eventDone | unfold Cfg.updateRoot | unfold Cfg.register
         | unfold Cfg.registerFin | unfold Cfg.prepUnregFin | unfold Cfg.stopMgr | unfold Cfg.ticks
         | unfold Cfg.stopFin | unfold Cfg.timerNew | unfold Cfg.doFin | unfold Cfg.processTask
         | unfold Cfg.ptBody | unfold Cfg.ptOwn | unfold Cfg.ptParent | unfold Cfg.ptFin
         | unfold Cfg.dispatcher | unfold Cfg.hLoop | unfold Cfg.invoke | unfold Cfg.invokeFin
         | unfold Cfg.hAfter | unfold Cfg.hApply | unfold Cfg.dispFin | unfold Cfg.dispatchLoop
         | unfold Cfg.flush | unfold Cfg.flushFin | unfold Cfg.tick | unfold Cfg.taskLoop
         | unfold Cfg.tickFin | unfold Cfg.tickGen
       (try dsimp only)
       stk)

/-- while an exception unwinds, an inner frame is popped and the exception stays pending -/
theorem unwind_inner (c : Cfg) (k : List Frame) (ex : Exn) (f : Frame) (hf : f.inner = true)
    (hx : c.exn = some ex) : (unwind c k ex f).stack = k ∧ (unwind c k ex f).exn = some ex := by
  cases f <;> first
    | (cases hf; done)
    | exact ⟨rfl, hx⟩

end CV.Core

import CV.Proofs.InvForest
/-
C07, "announced once": apart from the steps `.registerFin` and the detaching `invoke`, no step of
the machine logs the `fire` of an event named `registered` / `unregistered` - provided no user
template carries one of these names (and, for now, there are no timers: a timer re-fires a stored
event object, whose name would need one more invariant).  Same proof pattern as CoreStep.lean.
-/
set_option linter.unusedSimpArgs false
namespace CV.Core

/-- the two names the tree protocol announces with -/
def RegName (n : Name) : Prop := n = Name.registered ∨ n = Name.unregistered

instance : DecidablePred RegName := fun n => inferInstanceAs (Decidable (_ ∨ _))

/-- a log entry that announces a registration / unregistration -/
def RegFire : Entry → Prop
  | .fire _ n _ _ => RegName n
  | _ => False

/-- no user template uses the names `registered` / `unregistered` -/
def TmplOk (ts : List Tmpl) : Prop := ∀ t, t ∈ ts → ¬ RegName t.name

theorem not_regName_child (n : Name) (sfx : Nat) : ¬ RegName (n.child sfx) := by
  intro h
  rcases h with h | h <;>
  · have := congrArg Name.sfx h
    simp [Name.child, Name.registered, Name.unregistered] at this

theorem TmplOk.getD {ts : List Tmpl} (h : TmplOk ts) (i : Nat) :
    ¬ RegName (ts.getD i { name := ⟨0, []⟩ }).name := by
  rw [List.getD_eq_getElem?_getD]
  cases hi : ts[i]? with
  | none => decide
  | some t => exact h t (List.mem_of_getElem? hi)

/-- one quiet piece of code: templates untouched, no timers appear, the log grows by entries that
    are not announcements -/
structure QStep (t u : St) : Prop where
  tmpls : u.tmpls = t.tmpls
  timers : t.timers = [] → u.timers = []
  log : ∃ es, u.log = es ++ t.log ∧ ∀ x, x ∈ es → ¬ RegFire x

/-- `t` is reached from `s` by quiet code, provided `s` has good templates and no timers -/
def Quiet (s t : St) : Prop := TmplOk s.tmpls → s.timers = [] → QStep s t

namespace Quiet

theorem refl (s : St) : Quiet s s := fun _ _ => ⟨rfl, fun e => e, [], rfl, fun _ h => by cases h⟩

variable {s t : St}

theorem step_of (h : Quiet s t) {u : St} (h1 : TmplOk t.tmpls → t.timers = [] → QStep t u) : Quiet s u := by
  intro hT h0
  obtain ⟨a1, a2, es1, a3, a4⟩ := h hT h0
  obtain ⟨b1, b2, es2, b3, b4⟩ := h1 (a1 ▸ hT) (a2 h0)
  refine ⟨b1.trans a1, fun _ => b2 (a2 h0), es2 ++ es1, by rw [b3, a3, List.append_assoc], ?_⟩
  intro x hx
  rcases List.mem_append.mp hx with hx | hx
  · exact b4 x hx
  · exact a4 x hx

theorem same (h : Quiet s t) {u : St} (ht : u.tmpls = t.tmpls) (hm : t.timers = [] → u.timers = [])
    (hl : u.log = t.log) : Quiet s u :=
  h.step_of fun _ _ => ⟨ht, hm, [], hl, fun _ hx => by cases hx⟩

theorem modComp (h : Quiet s t) (c : Nat) (f : Comp → Comp) : Quiet s (t.modComp c f) := h.same rfl (fun e => e) rfl
theorem modEv (h : Quiet s t) (e : Nat) (f : Ev → Ev) : Quiet s (t.modEv e f) := h.same rfl (fun e => e) rfl
theorem modWait (h : Quiet s t) (w : Nat) (f : WaitSt → WaitSt) : Quiet s (t.modWait w f) := h.same rfl (fun e => e) rfl
theorem modTimer (h : Quiet s t) (i : Nat) (f : TimerSt → TimerSt) : Quiet s (t.modTimer i f) :=
  h.same rfl (fun e => by simp [St.modTimer, e]) rfl
theorem setGen (h : Quiet s t) (g : Nat) (x : GenRec) : Quiet s (t.setGen g x) := h.same rfl (fun e => e) rfl
theorem addEv (h : Quiet s t) (e : Ev) : Quiet s (t.addEv e) := h.same rfl (fun e => e) rfl
theorem addH (h : Quiet s t) (x : Handler) : Quiet s (t.addH x) := h.same rfl (fun e => e) rfl
theorem addGen (h : Quiet s t) (g : GenRec) : Quiet s (t.addGen g) := h.same rfl (fun e => e) rfl
theorem addWait (h : Quiet s t) (w : WaitSt) : Quiet s (t.addWait w) := h.same rfl (fun e => e) rfl
theorem tick1 (h : Quiet s t) (d : Int) : Quiet s (t.tick1 d) := h.same rfl (fun e => e) rfl

theorem logE (h : Quiet s t) (x : Entry) (hx : ¬ RegFire x) : Quiet s (t.logE x) :=
  h.step_of fun _ _ => ⟨rfl, fun e => e, [x], rfl, fun y hy => by
    have : y = x := by simpa using hy
    rw [this]; exact hx⟩

end Quiet

theorem St.fireContext_tmpls (s : St) (r e : Nat) : (s.fireContext r e).tmpls = s.tmpls := by
  unfold St.fireContext; dsimp only; repeat' split
  all_goals rfl

theorem St.fireContext_timers (s : St) (r e : Nat) : (s.fireContext r e).timers = s.timers := by
  unfold St.fireContext; dsimp only; repeat' split
  all_goals rfl

/-- firing an existing event object whose name is not an announcement -/
theorem Quiet.fireRaw {s t : St} (h : Quiet s t) (self e : Nat) (chans : List Chan) (prio : Int)
    (hn : ¬ RegName (t.ev e).name) : Quiet s (t.fireRaw self e chans prio) := by
  refine h.step_of fun _ _ => ⟨?_, ?_, [Entry.fire e (t.ev e).name chans prio], St.fireRaw_log t self e chans prio, ?_⟩
  · unfold St.fireRaw; dsimp only
    show (St.fireContext _ _ _).tmpls = _
    rw [St.fireContext_tmpls]; rfl
  · intro h0
    unfold St.fireRaw; dsimp only
    show (St.fireContext _ _ _).timers = _
    rw [St.fireContext_timers]; exact h0
  · intro y hy
    have : y = Entry.fire e (t.ev e).name chans prio := by simpa using hy
    rw [this]; exact hn

theorem Quiet.fireChild {s t : St} (h : Quiet s t) (self p sfx : Nat) (chans : List Chan) :
    Quiet s (t.fireChild self p sfx chans) := by
  unfold St.fireChild St.childEv
  refine Quiet.fireRaw (h.addEv _) _ _ _ _ ?_
  rw [St.f7ev_addEv_new]
  exact not_regName_child _ _

theorem Quiet.fireTmplEv {s t : St} (h : Quiet s t) (self : Nat) (ev : Ev) (target : Option Chan) (prio : Int)
    (hn : ¬ RegName ev.name) : Quiet s (t.fireTmplEv self ev target prio) := by
  unfold St.fireTmplEv
  dsimp only
  refine Quiet.fireRaw (h.addEv _) _ _ _ _ ?_
  rw [St.f7ev_addEv_new]
  exact hn

/-- firing an instance of a user template -/
theorem Quiet.fireTmplEv_tmpl {s t : St} (h : Quiet s t) (self i : Nat) (target : Option Chan) (prio : Int) :
    Quiet s (t.fireTmplEv self (mkEvOfTmpl t i) target prio) := by
  intro hT h0
  have hTt : TmplOk t.tmpls := (h hT h0).tmpls ▸ hT
  exact Quiet.fireTmplEv h self _ target prio (by unfold mkEvOfTmpl; exact hTt.getD i) hT h0

theorem Quiet.tickGenerate {s t : St} (h : Quiet s t) (c : Nat) : Quiet s (t.tickGenerate c) := by
  unfold St.tickGenerate
  dsimp only
  split
  · refine Quiet.fireRaw ((h.tick1 1).addEv _) _ _ _ _ ?_
    have : (t.tick1 1).evs.length = ((t.tick1 1)).evs.length := rfl
    rw [St.f7ev_addEv_new]
    decide
  · exact h

/-- without timers `Timer._on_generate_events` is never reached with a valid timer id -/
theorem Quiet.timerTick {s t : St} (h : Quiet s t) (i e : Nat) : Quiet s (t.timerTick i e) := by
  refine h.step_of fun _ h0 => ?_
  have : t.timerTick i e = t := by
    unfold St.timerTick
    rw [h0]; rfl
  rw [this]
  exact ⟨rfl, fun e => e, [], rfl, fun _ hx => by cases hx⟩

/-! ## the tactic -/

syntax "quiet1" : tactic
macro_rules | `(tactic| quiet1) => `(tactic| split)
macro_rules | `(tactic| quiet1) => `(tactic| with_reducible apply Quiet.tick1)
macro_rules | `(tactic| quiet1) => `(tactic| with_reducible apply Quiet.addWait)
macro_rules | `(tactic| quiet1) => `(tactic| with_reducible apply Quiet.addGen)
macro_rules | `(tactic| quiet1) => `(tactic| with_reducible apply Quiet.addH)
macro_rules | `(tactic| quiet1) => `(tactic| with_reducible apply Quiet.addEv)
macro_rules | `(tactic| quiet1) => `(tactic| ((with_reducible refine Quiet.logE ?_ _ ?_); rotate_left; exact id))
macro_rules | `(tactic| quiet1) => `(tactic| with_reducible apply Quiet.setGen)
macro_rules | `(tactic| quiet1) => `(tactic| with_reducible apply Quiet.modTimer)
macro_rules | `(tactic| quiet1) => `(tactic| with_reducible apply Quiet.modWait)
macro_rules | `(tactic| quiet1) => `(tactic| with_reducible apply Quiet.modEv)
macro_rules | `(tactic| quiet1) => `(tactic| with_reducible apply Quiet.modComp)
macro_rules | `(tactic| quiet1) => `(tactic| ((with_reducible refine Quiet.fireTmplEv ?_ _ _ _ _ ?_); rotate_left; (try dsimp only); decide))
macro_rules | `(tactic| quiet1) => `(tactic| with_reducible apply Quiet.fireTmplEv_tmpl)
macro_rules | `(tactic| quiet1) => `(tactic| with_reducible apply Quiet.fireChild)
macro_rules | `(tactic| quiet1) => `(tactic| with_reducible apply Quiet.tickGenerate)
macro_rules | `(tactic| quiet1) => `(tactic| with_reducible apply Quiet.timerTick)
macro_rules | `(tactic| quiet1) => `(tactic| with_reducible assumption)
macro_rules | `(tactic| quiet1) => `(tactic| with_reducible exact Quiet.refl _)

macro "quiet" : tactic => `(tactic| repeat' quiet1)
macro "quiet_unfold" ids:ident+ : tactic => `(tactic| (unfold $[$ids]*; (try dsimp only); quiet))


/-- a `foldl` of steps that each respect `Le` respects `Le` -/
theorem Quiet.foldl {s t : St} {α} (g : St → α → St) (hg : ∀ a x, Quiet s a → Quiet s (g a x)) (l : List α)
    (h : Quiet s t) : Quiet s (l.foldl g t) := by
  induction l generalizing t with
  | nil => exact h
  | cons x l ih => exact ih (hg _ _ h)

theorem Quiet.addHandler {s t : St} (h : Quiet s t) (x : Nat) : Quiet s (t.addHandler x) := by
  unfold St.addHandler
  dsimp only
  apply Quiet.modComp
  split
  · quiet
  · split
    · quiet
    · exact Quiet.foldl _ (fun a n ha => ha.modComp _ _) _ h
macro_rules | `(tactic| quiet1) => `(tactic| with_reducible apply Quiet.addHandler)

theorem Quiet.removeHandler {s t : St} (h : Quiet s t) (x : Nat) (n : Option Name) :
    Quiet s ((t.removeHandler x n).2) := by
  quiet_unfold St.removeHandler
macro_rules | `(tactic| quiet1) => `(tactic| with_reducible apply Quiet.removeHandler)

theorem Quiet.inform {s t : St} (h : Quiet s t) (e : Nat) (force : Bool) :
    Quiet s (t.inform e force) := by
  quiet_unfold St.inform
macro_rules | `(tactic| quiet1) => `(tactic| with_reducible apply Quiet.inform)

theorem Quiet.setValue {s t : St} (h : Quiet s t) (e : Nat) (x : VItem) :
    Quiet s (t.setValue e x) := by
  quiet_unfold St.setValue
macro_rules | `(tactic| quiet1) => `(tactic| with_reducible apply Quiet.setValue)

theorem Quiet.effectDone1 {s t : St} (h : Quiet s t) (r e : Nat) (announce : Bool) :
    Quiet s ((t.effectDone1 r e announce).2) := by
  quiet_unfold St.effectDone1
macro_rules | `(tactic| quiet1) => `(tactic| with_reducible apply Quiet.effectDone1)

theorem Quiet.eventDonePre {s t : St} (h : Quiet s t) (r e : Nat) (err : Bool) :
    Quiet s ((t.eventDonePre r e err).2) := by
  quiet_unfold St.eventDonePre
macro_rules | `(tactic| quiet1) => `(tactic| with_reducible apply Quiet.eventDonePre)

theorem Quiet.registerTask {s t : St} (h : Quiet s t) (c : Nat) (x : Task) :
    Quiet s (t.registerTask c x) := by
  quiet_unfold St.registerTask
macro_rules | `(tactic| quiet1) => `(tactic| with_reducible apply Quiet.registerTask)

theorem Quiet.unregisterTask {s t : St} (h : Quiet s t) (c : Nat) (x : Task) :
    Quiet s (t.unregisterTask c x) := by
  quiet_unfold St.unregisterTask
macro_rules | `(tactic| quiet1) => `(tactic| with_reducible apply Quiet.unregisterTask)

theorem Quiet.reduceTimeLeft {s t : St} (h : Quiet s t) (e : Nat) (d : Int) :
    Quiet s (t.reduceTimeLeft e d) := by
  quiet_unfold St.reduceTimeLeft
macro_rules | `(tactic| quiet1) => `(tactic| with_reducible apply Quiet.reduceTimeLeft)

theorem Quiet.registerPre {s t : St} (h : Quiet s t) (c p : Nat) :
    Quiet s ((t.registerPre c p).2) := by
  quiet_unfold St.registerPre
macro_rules | `(tactic| quiet1) => `(tactic| with_reducible apply Quiet.registerPre)

theorem Quiet.unregister {s t : St} (h : Quiet s t) (c : Nat) :
    Quiet s (t.unregister c) := by
  quiet_unfold St.unregister
macro_rules | `(tactic| quiet1) => `(tactic| with_reducible apply Quiet.unregister)

theorem Quiet.prepUnregFin {s t : St} (h : Quiet s t) (c : Nat) :
    Quiet s (t.prepUnregFin c) := by
  quiet_unfold St.prepUnregFin
macro_rules | `(tactic| quiet1) => `(tactic| with_reducible apply Quiet.prepUnregFin)

theorem Quiet.actFire {s t : St} (h : Quiet s t) (self i : Nat) (target : Option Chan) (prio : Int) (cancel : Bool) :
    Quiet s (t.actFire self i target prio cancel) := by
  quiet_unfold St.actFire
macro_rules | `(tactic| quiet1) => `(tactic| with_reducible apply Quiet.actFire)

theorem Quiet.actStopEv {s t : St} (h : Quiet s t) (ev : Option Nat) :
    Quiet s (t.actStopEv ev) := by
  quiet_unfold St.actStopEv
macro_rules | `(tactic| quiet1) => `(tactic| with_reducible apply Quiet.actStopEv)

theorem Quiet.timerReset {s t : St} (h : Quiet s t) (i : Nat) :
    Quiet s (t.timerReset i) := by
  quiet_unfold St.timerReset
macro_rules | `(tactic| quiet1) => `(tactic| with_reducible apply Quiet.timerReset)

theorem Quiet.timerCreate {s t : St} (h : Quiet s t) (i : Nat) :
    Quiet s (t.timerCreate i) := by
  quiet_unfold St.timerCreate
macro_rules | `(tactic| quiet1) => `(tactic| with_reducible apply Quiet.timerCreate)

theorem Quiet.startWait {s t : St} (h : Quiet s t) (w : Nat) :
    Quiet s (t.startWait w) := by
  quiet_unfold St.startWait
macro_rules | `(tactic| quiet1) => `(tactic| with_reducible apply Quiet.startWait)

/-! ## pure pieces of `Step.lean` -/

theorem Quiet.stopBegin {s t : St} (h : Quiet s t) (c : Nat) :
    Quiet s (t.stopBegin c) := by
  quiet_unfold St.stopBegin
macro_rules | `(tactic| quiet1) => `(tactic| with_reducible apply Quiet.stopBegin)

theorem Quiet.stopSetCode {s t : St} (h : Quiet s t) (r : Nat) (code : Code) :
    Quiet s (t.stopSetCode r code) := by
  quiet_unfold St.stopSetCode
macro_rules | `(tactic| quiet1) => `(tactic| with_reducible apply Quiet.stopSetCode)

theorem Quiet.genCall {s t : St} (h : Quiet s t) (owner i : Nat) (target : Option Chan) (timeout : Option Nat) :
    Quiet s (t.genCall owner i target timeout) := by
  quiet_unfold St.genCall
macro_rules | `(tactic| quiet1) => `(tactic| with_reducible apply Quiet.genCall)

theorem Quiet.genWait {s t : St} (h : Quiet s t) (owner : Nat) (name : Name) (target : Option Chan) (timeout : Option Nat) :
    Quiet s (t.genWait owner name target timeout) := by
  quiet_unfold St.genWait
macro_rules | `(tactic| quiet1) => `(tactic| with_reducible apply Quiet.genWait)

theorem Quiet.resumeGenPre {s t : St} (h : Quiet s t) (g : Nat) (silent : Bool) :
    Quiet s (t.resumeGenPre g silent) := by
  quiet_unfold St.resumeGenPre
macro_rules | `(tactic| quiet1) => `(tactic| with_reducible apply Quiet.resumeGenPre)

theorem Quiet.stopIteration {s t : St} (h : Quiet s t) (r : Nat) (x : Task) :
    Quiet s ((t.stopIteration r x).2) := by
  quiet_unfold St.stopIteration
macro_rules | `(tactic| quiet1) => `(tactic| with_reducible apply Quiet.stopIteration)

theorem Quiet.fireException {s t : St} (h : Quiet s t) (r e : Nat) :
    Quiet s (t.fireException r e) := by
  quiet_unfold St.fireException
macro_rules | `(tactic| quiet1) => `(tactic| with_reducible apply Quiet.fireException)

theorem Quiet.errorBranch {s t : St} (h : Quiet s t) (r : Nat) (x : Task) (resumed : Bool) :
    Quiet s ((t.errorBranch r x resumed).2) := by
  quiet_unfold St.errorBranch
macro_rules | `(tactic| quiet1) => `(tactic| with_reducible apply Quiet.errorBranch)

theorem Quiet.ownSub {s t : St} (h : Quiet s t) (r : Nat) (x : Task) (w : Nat) :
    Quiet s (t.ownSub r x w) := by
  quiet_unfold St.ownSub
macro_rules | `(tactic| quiet1) => `(tactic| with_reducible apply Quiet.ownSub)

theorem Quiet.setValueOpt {s t : St} (h : Quiet s t) (e : Nat) (v : Option Nat) :
    Quiet s (t.setValueOpt e v) := by
  quiet_unfold St.setValueOpt
macro_rules | `(tactic| quiet1) => `(tactic| with_reducible apply Quiet.setValueOpt)

theorem Quiet.parentSub {s t : St} (h : Quiet s t) (r : Nat) (x : Task) (p w2 : Nat) (viaThrow : Bool) :
    Quiet s (t.parentSub r x p w2 viaThrow) := by
  quiet_unfold St.parentSub
macro_rules | `(tactic| quiet1) => `(tactic| with_reducible apply Quiet.parentSub)

theorem Quiet.parentPlain {s t : St} (h : Quiet s t) (r : Nat) (x : Task) (p : Nat) (v : Option Nat) (viaThrow : Bool) :
    Quiet s (t.parentPlain r x p v viaThrow) := by
  quiet_unfold St.parentPlain
macro_rules | `(tactic| quiet1) => `(tactic| with_reducible apply Quiet.parentPlain)

theorem Quiet.onWaitEvent {s t : St} (h : Quiet s t) (w e : Nat) :
    Quiet s ((t.onWaitEvent w e).2) := by
  quiet_unfold St.onWaitEvent
macro_rules | `(tactic| quiet1) => `(tactic| with_reducible apply Quiet.onWaitEvent)

theorem Quiet.onWaitDone {s t : St} (h : Quiet s t) (w e : Nat) :
    Quiet s ((t.onWaitDone w e).2) := by
  quiet_unfold St.onWaitDone
macro_rules | `(tactic| quiet1) => `(tactic| with_reducible apply Quiet.onWaitDone)

theorem Quiet.onWaitTick {s t : St} (h : Quiet s t) (w : Nat) :
    Quiet s ((t.onWaitTick w).2) := by
  quiet_unfold St.onWaitTick
macro_rules | `(tactic| quiet1) => `(tactic| with_reducible apply Quiet.onWaitTick)

theorem Quiet.onFallbackGE {s t : St} (h : Quiet s t) (e : Nat) :
    Quiet s ((t.onFallbackGE e).2) := by
  quiet_unfold St.onFallbackGE
macro_rules | `(tactic| quiet1) => `(tactic| with_reducible apply Quiet.onFallbackGE)

theorem Quiet.computeHandlers {s t : St} (h : Quiet s t) (r : Nat) (name : Name) (chans : List Chan) :
    Quiet s ((t.computeHandlers r name chans).2) := by
  quiet_unfold St.computeHandlers
macro_rules | `(tactic| quiet1) => `(tactic| with_reducible apply Quiet.computeHandlers)

theorem Quiet.dispComplete {s t : St} (h : Quiet s t) (e : Nat) (ev : Ev) :
    Quiet s (t.dispComplete e ev) := by
  quiet_unfold St.dispComplete
macro_rules | `(tactic| quiet1) => `(tactic| with_reducible apply Quiet.dispComplete)

theorem Quiet.cacheRefresh {s t : St} (h : Quiet s t) (r : Nat) :
    Quiet s (t.cacheRefresh r) := by
  quiet_unfold St.cacheRefresh
macro_rules | `(tactic| quiet1) => `(tactic| with_reducible apply Quiet.cacheRefresh)

theorem Quiet.lookupHandlers {s t : St} (h : Quiet s t) (r : Nat) (name : Name) (chans : List Chan) :
    Quiet s ((t.lookupHandlers r name chans).2) := by
  quiet_unfold St.lookupHandlers
macro_rules | `(tactic| quiet1) => `(tactic| with_reducible apply Quiet.lookupHandlers)

theorem Quiet.dispGE {s t : St} (h : Quiet s t) (r e remaining : Nat) (name : Name) :
    Quiet s (t.dispGE r e remaining name) := by
  quiet_unfold St.dispGE
macro_rules | `(tactic| quiet1) => `(tactic| with_reducible apply Quiet.dispGE)

theorem Quiet.dispatchPre {s t : St} (h : Quiet s t) (r e remaining : Nat) :
    Quiet s ((t.dispatchPre r e remaining).2) := by
  quiet_unfold St.dispatchPre
macro_rules | `(tactic| quiet1) => `(tactic| with_reducible apply Quiet.dispatchPre)

theorem Quiet.handlerRaised {s t : St} (h : Quiet s t) (r e : Nat) :
    Quiet s (t.handlerRaised r e) := by
  quiet_unfold St.handlerRaised
macro_rules | `(tactic| quiet1) => `(tactic| with_reducible apply Quiet.handlerRaised)

theorem Quiet.applyValue {s t : St} (h : Quiet s t) (r e : Nat) (value : Outcome) :
    Quiet s (t.applyValue r e value) := by
  quiet_unfold St.applyValue
macro_rules | `(tactic| quiet1) => `(tactic| with_reducible apply Quiet.applyValue)

theorem Quiet.geTasksCheck {s t : St} (h : Quiet s t) (r e : Nat) :
    Quiet s (t.geTasksCheck r e) := by
  quiet_unfold St.geTasksCheck
macro_rules | `(tactic| quiet1) => `(tactic| with_reducible apply Quiet.geTasksCheck)

theorem Quiet.flushBegin {s t : St} (h : Quiet s t) (r : Nat) :
    Quiet s (t.flushBegin r) := by
  quiet_unfold St.flushBegin
macro_rules | `(tactic| quiet1) => `(tactic| with_reducible apply Quiet.flushBegin)

theorem Quiet.runBegin {s t : St} (h : Quiet s t) (c : Nat) :
    Quiet s (t.runBegin c) := by
  quiet_unfold St.runBegin
macro_rules | `(tactic| quiet1) => `(tactic| with_reducible apply Quiet.runBegin)

theorem Quiet.runEnd {s t : St} (h : Quiet s t) (c : Nat) :
    Quiet s ((t.runEnd c).2) := by
  quiet_unfold St.runEnd
macro_rules | `(tactic| quiet1) => `(tactic| with_reducible apply Quiet.runEnd)

theorem Quiet.actStep {s t : St} (h : Quiet s t) (ctx : HCtx) (a : Act) : Quiet s (actStep t ctx a).st := by
  cases a <;> (unfold CV.Core.actStep; (try dsimp only); quiet)
macro_rules | `(tactic| quiet1) => `(tactic| with_reducible apply Quiet.actStep)

/-! ## the arms of `step` -/


macro_rules
  | `(tactic| quiet1) => `(tactic| simp only [Cfg.pop_st, Cfg.popRet_st, Cfg.raise_st, Cfg.goto_st])

theorem Cfg.effectDone_quiet (c : Cfg) (k : List Frame) (r e : Nat) (announce : Bool) :
    Quiet c.st (c.effectDone k r e announce).st := by
  unfold Cfg.effectDone; (try dsimp only); quiet
macro_rules | `(tactic| quiet1) => `(tactic| with_reducible exact Cfg.effectDone_quiet ..)

theorem Cfg.eventDone_quiet (c : Cfg) (k : List Frame) (r e : Nat) (err : Bool) :
    Quiet c.st (c.eventDone k r e err).st := by
  unfold Cfg.eventDone; (try dsimp only); quiet
macro_rules | `(tactic| quiet1) => `(tactic| with_reducible exact Cfg.eventDone_quiet ..)

theorem Quiet.updateRootAll (s : St) : ∀ (fuel : Nat) (todo : List Nat) (root : Nat) (t : St),
    Quiet s t → Quiet s (St.updateRootAll fuel todo root t) := by
  intro fuel
  induction fuel with
  | zero => intro todo root t h; simpa [St.updateRootAll] using h
  | succ n ih =>
    intro todo root t h
    cases todo with
    | nil => simpa [St.updateRootAll] using h
    | cons x rest =>
      simp only [St.updateRootAll]
      apply ih
      quiet

macro_rules | `(tactic| quiet1) => `(tactic| with_reducible apply Quiet.updateRootAll)

theorem Cfg.updateRoot_quiet (c : Cfg) (k : List Frame) (todo : List Nat) (root : Nat) :
    Quiet c.st (c.updateRoot k todo root).st := by
  unfold Cfg.updateRoot; (try dsimp only)
  simp only [Cfg.pop_st]
  exact Quiet.updateRootAll _ _ _ _ _ (Quiet.refl _)
macro_rules | `(tactic| quiet1) => `(tactic| with_reducible exact Cfg.updateRoot_quiet ..)

theorem Cfg.register_quiet (c : Cfg) (k : List Frame) (x p : Nat) :
    Quiet c.st (c.register k x p).st := by
  unfold Cfg.register; (try dsimp only); quiet
macro_rules | `(tactic| quiet1) => `(tactic| with_reducible exact Cfg.register_quiet ..)

theorem Cfg.prepUnregFin_quiet (c : Cfg) (k : List Frame) (x : Nat) :
    Quiet c.st (c.prepUnregFin k x).st := by
  unfold Cfg.prepUnregFin; (try dsimp only); quiet
macro_rules | `(tactic| quiet1) => `(tactic| with_reducible exact Cfg.prepUnregFin_quiet ..)

theorem Cfg.stopMgr_quiet (c : Cfg) (k : List Frame) (x : Nat) (code : Code) :
    Quiet c.st (c.stopMgr k x code).st := by
  unfold Cfg.stopMgr; (try dsimp only); quiet
macro_rules | `(tactic| quiet1) => `(tactic| with_reducible exact Cfg.stopMgr_quiet ..)

theorem Cfg.ticks_quiet (c : Cfg) (k : List Frame) (x n : Nat) :
    Quiet c.st (c.ticks k x n).st := by
  unfold Cfg.ticks; (try dsimp only); quiet
macro_rules | `(tactic| quiet1) => `(tactic| with_reducible exact Cfg.ticks_quiet ..)

theorem Cfg.stopFin_quiet (c : Cfg) (k : List Frame) (code : Code) :
    Quiet c.st (c.stopFin k code).st := by
  unfold Cfg.stopFin; (try dsimp only); quiet
macro_rules | `(tactic| quiet1) => `(tactic| with_reducible exact Cfg.stopFin_quiet ..)

theorem Cfg.timerNew_quiet (c : Cfg) (k : List Frame) (i : Nat) :
    Quiet c.st (c.timerNew k i).st := by
  unfold Cfg.timerNew; (try dsimp only); quiet
macro_rules | `(tactic| quiet1) => `(tactic| with_reducible exact Cfg.timerNew_quiet ..)

theorem Cfg.acts_quiet (c : Cfg) (k : List Frame) (ctx : HCtx) (prog : Prog) :
    Quiet c.st (c.acts k ctx prog).st := by
  unfold Cfg.acts; (try dsimp only); quiet
macro_rules | `(tactic| quiet1) => `(tactic| with_reducible exact Cfg.acts_quiet ..)

theorem Cfg.doFin_quiet (c : Cfg) (k : List Frame) (x : Nat) :
    Quiet c.st (c.doFin k x).st := by
  unfold Cfg.doFin; (try dsimp only); quiet
macro_rules | `(tactic| quiet1) => `(tactic| with_reducible exact Cfg.doFin_quiet ..)

theorem Cfg.drainQ_quiet (c : Cfg) (k : List Frame) (x : Nat) :
    Quiet c.st (c.drainQ k x).st := by
  unfold Cfg.drainQ; (try dsimp only); quiet
macro_rules | `(tactic| quiet1) => `(tactic| with_reducible exact Cfg.drainQ_quiet ..)

theorem Cfg.stepGen_quiet (c : Cfg) (k : List Frame) (g : Nat) :
    Quiet c.st (c.stepGen k g).st := by
  unfold Cfg.stepGen; (try dsimp only); quiet
macro_rules | `(tactic| quiet1) => `(tactic| with_reducible exact Cfg.stepGen_quiet ..)

theorem Cfg.processTask_quiet (c : Cfg) (k : List Frame) (r : Nat) (x : Task) :
    Quiet c.st (c.processTask k r x).st := by
  unfold Cfg.processTask; (try dsimp only); quiet
macro_rules | `(tactic| quiet1) => `(tactic| with_reducible exact Cfg.processTask_quiet ..)

theorem Cfg.contStop_quiet {s0 : St} (c : Cfg) (k : List Frame) (s : St) (r : Nat) (x : Task) (hle : Quiet s0 s) :
    Quiet s0 (c.contStop k s r x).st := by
  unfold Cfg.contStop; (try dsimp only); quiet
macro_rules | `(tactic| quiet1) => `(tactic| with_reducible apply Cfg.contStop_quiet)

theorem Cfg.contError_quiet {s0 : St} (c : Cfg) (k : List Frame) (s : St) (r : Nat) (x : Task) (resumed : Bool) (hle : Quiet s0 s) :
    Quiet s0 (c.contError k s r x resumed).st := by
  unfold Cfg.contError; (try dsimp only); quiet
macro_rules | `(tactic| quiet1) => `(tactic| with_reducible apply Cfg.contError_quiet)

theorem Cfg.ptBodyWait_quiet (c : Cfg) (k : List Frame) (r : Nat) (x : Task) (w : Nat) :
    Quiet c.st (c.ptBodyWait k r x w).st := by
  unfold Cfg.ptBodyWait; (try dsimp only); quiet
macro_rules | `(tactic| quiet1) => `(tactic| with_reducible exact Cfg.ptBodyWait_quiet ..)

theorem Cfg.ptBodyExc_quiet (c : Cfg) (k : List Frame) (r : Nat) (x : Task) (w : Nat) (fired : Bool) :
    Quiet c.st (c.ptBodyExc k r x w fired).st := by
  unfold Cfg.ptBodyExc; (try dsimp only); quiet
macro_rules | `(tactic| quiet1) => `(tactic| with_reducible exact Cfg.ptBodyExc_quiet ..)

theorem Cfg.ptBody_quiet (c : Cfg) (k : List Frame) (r : Nat) (x : Task) :
    Quiet c.st (c.ptBody k r x).st := by
  unfold Cfg.ptBody; (try dsimp only); quiet
macro_rules | `(tactic| quiet1) => `(tactic| with_reducible exact Cfg.ptBody_quiet ..)

theorem Cfg.ptOwn_quiet (c : Cfg) (k : List Frame) (r : Nat) (x : Task) :
    Quiet c.st (c.ptOwn k r x).st := by
  unfold Cfg.ptOwn; (try dsimp only); quiet
macro_rules | `(tactic| quiet1) => `(tactic| with_reducible exact Cfg.ptOwn_quiet ..)

theorem Cfg.ptParent_quiet (c : Cfg) (k : List Frame) (r : Nat) (x : Task) (p : Nat) (viaThrow : Bool) :
    Quiet c.st (c.ptParent k r x p viaThrow).st := by
  unfold Cfg.ptParent; (try dsimp only); quiet
macro_rules | `(tactic| quiet1) => `(tactic| with_reducible exact Cfg.ptParent_quiet ..)

theorem Cfg.ptFin_quiet (c : Cfg) (k : List Frame) (r : Nat) (handling : Option Nat) :
    Quiet c.st (c.ptFin k r handling).st := by
  unfold Cfg.ptFin; (try dsimp only); quiet
macro_rules | `(tactic| quiet1) => `(tactic| with_reducible exact Cfg.ptFin_quiet ..)

theorem Cfg.dispatcher_quiet (c : Cfg) (k : List Frame) (r e remaining : Nat) :
    Quiet c.st (c.dispatcher k r e remaining).st := by
  unfold Cfg.dispatcher; (try dsimp only); quiet
macro_rules | `(tactic| quiet1) => `(tactic| with_reducible exact Cfg.dispatcher_quiet ..)

theorem Cfg.hLoop_quiet (c : Cfg) (k : List Frame) (r e : Nat) (hs : List Nat) (err : Bool) (stale : Outcome) :
    Quiet c.st (c.hLoop k r e hs err stale).st := by
  unfold Cfg.hLoop; (try dsimp only); quiet
macro_rules | `(tactic| quiet1) => `(tactic| with_reducible exact Cfg.hLoop_quiet ..)

theorem Cfg.invokeUser_quiet {s0 : St} (c : Cfg) (k : List Frame) (s : St) (h e owner p : Nat) (hle : Quiet s0 s) :
    Quiet s0 (c.invokeUser k s h e owner p).st := by
  unfold Cfg.invokeUser; (try dsimp only); quiet
macro_rules | `(tactic| quiet1) => `(tactic| with_reducible apply Cfg.invokeUser_quiet)

theorem Cfg.invokeFin_quiet (c : Cfg) (k : List Frame) (e h : Nat) :
    Quiet c.st (c.invokeFin k e h).st := by
  unfold Cfg.invokeFin; (try dsimp only); quiet
macro_rules | `(tactic| quiet1) => `(tactic| with_reducible exact Cfg.invokeFin_quiet ..)

theorem Cfg.hAfter_quiet (c : Cfg) (k : List Frame) (r e : Nat) (rest : List Nat) (err : Bool) (stale : Outcome) :
    Quiet c.st (c.hAfter k r e rest err stale).st := by
  unfold Cfg.hAfter; (try dsimp only); quiet
macro_rules | `(tactic| quiet1) => `(tactic| with_reducible exact Cfg.hAfter_quiet ..)

theorem Cfg.hApply_quiet (c : Cfg) (k : List Frame) (r e : Nat) (rest : List Nat) (err : Bool) (value : Outcome) :
    Quiet c.st (c.hApply k r e rest err value).st := by
  unfold Cfg.hApply; (try dsimp only); quiet
macro_rules | `(tactic| quiet1) => `(tactic| with_reducible exact Cfg.hApply_quiet ..)

theorem Cfg.dispFin_quiet (c : Cfg) (k : List Frame) (r e : Nat) (err : Bool) :
    Quiet c.st (c.dispFin k r e err).st := by
  unfold Cfg.dispFin; (try dsimp only); quiet
macro_rules | `(tactic| quiet1) => `(tactic| with_reducible exact Cfg.dispFin_quiet ..)

theorem Cfg.dispatchLoop_quiet (c : Cfg) (k : List Frame) (r : Nat) :
    Quiet c.st (c.dispatchLoop k r).st := by
  unfold Cfg.dispatchLoop; (try dsimp only); quiet
macro_rules | `(tactic| quiet1) => `(tactic| with_reducible exact Cfg.dispatchLoop_quiet ..)

theorem Cfg.flush_quiet (c : Cfg) (k : List Frame) (x : Nat) :
    Quiet c.st (c.flush k x).st := by
  unfold Cfg.flush; (try dsimp only); quiet
macro_rules | `(tactic| quiet1) => `(tactic| with_reducible exact Cfg.flush_quiet ..)

theorem Cfg.flushFin_quiet (c : Cfg) (k : List Frame) (r : Nat) (old : Bool) :
    Quiet c.st (c.flushFin k r old).st := by
  unfold Cfg.flushFin; (try dsimp only); quiet
macro_rules | `(tactic| quiet1) => `(tactic| with_reducible exact Cfg.flushFin_quiet ..)

theorem Cfg.tick_quiet (c : Cfg) (k : List Frame) (x : Nat) :
    Quiet c.st (c.tick k x).st := by
  unfold Cfg.tick; (try dsimp only); quiet
macro_rules | `(tactic| quiet1) => `(tactic| with_reducible exact Cfg.tick_quiet ..)

theorem Cfg.taskLoop_quiet (c : Cfg) (k : List Frame) (x : Nat) (ts : List Task) :
    Quiet c.st (c.taskLoop k x ts).st := by
  unfold Cfg.taskLoop; (try dsimp only); quiet
macro_rules | `(tactic| quiet1) => `(tactic| with_reducible exact Cfg.taskLoop_quiet ..)

theorem Cfg.tickFin_quiet (c : Cfg) (k : List Frame) (x : Nat) (old : Bool) :
    Quiet c.st (c.tickFin k x old).st := by
  unfold Cfg.tickFin; (try dsimp only); quiet
macro_rules | `(tactic| quiet1) => `(tactic| with_reducible exact Cfg.tickFin_quiet ..)

theorem Cfg.tickGen_quiet (c : Cfg) (k : List Frame) (x : Nat) :
    Quiet c.st (c.tickGen k x).st := by
  unfold Cfg.tickGen; (try dsimp only); quiet
macro_rules | `(tactic| quiet1) => `(tactic| with_reducible exact Cfg.tickGen_quiet ..)

theorem Cfg.run_quiet (c : Cfg) (k : List Frame) (x : Nat) :
    Quiet c.st (c.run k x).st := by
  unfold Cfg.run; (try dsimp only); quiet
macro_rules | `(tactic| quiet1) => `(tactic| with_reducible exact Cfg.run_quiet ..)

theorem Cfg.runLoop_quiet (c : Cfg) (k : List Frame) (x : Nat) :
    Quiet c.st (c.runLoop k x).st := by
  unfold Cfg.runLoop; (try dsimp only); quiet
macro_rules | `(tactic| quiet1) => `(tactic| with_reducible exact Cfg.runLoop_quiet ..)

theorem Cfg.runFin_quiet (c : Cfg) (k : List Frame) (x : Nat) :
    Quiet c.st (c.runFin k x).st := by
  unfold Cfg.runFin; (try dsimp only); quiet
macro_rules | `(tactic| quiet1) => `(tactic| with_reducible exact Cfg.runFin_quiet ..)

theorem Cfg.runCatchExn_quiet (c : Cfg) (k : List Frame) (x : Nat) (ex : Exn) :
    Quiet c.st (c.runCatchExn k x ex).st := by
  unfold Cfg.runCatchExn; (try dsimp only); quiet
macro_rules | `(tactic| quiet1) => `(tactic| with_reducible exact Cfg.runCatchExn_quiet ..)

theorem Cfg.runRethrow_quiet (c : Cfg) (k : List Frame) (ex : Exn) :
    Quiet c.st (c.runRethrow k ex).st := by
  unfold Cfg.runRethrow; (try dsimp only); quiet
macro_rules | `(tactic| quiet1) => `(tactic| with_reducible exact Cfg.runRethrow_quiet ..)


/-- every framework / user handler call except `_on_prepare_unregister_complete` is quiet -/
theorem Cfg.invoke_quiet (c : Cfg) (k : List Frame) (r h e : Nat)
    (hk : (c.st.handler h).kind ≠ HKind.prepUnregComplete) : Quiet c.st (c.invoke k r h e).st := by
  unfold Cfg.invoke
  dsimp only
  split
  case h_2 heq => exact absurd heq hk
  all_goals quiet

/-- the steps that do announce: `.registerFin x`, and `.invoke r h e` for the detach handler -/
def Frame.announces (s : St) : Frame → Prop
  | .registerFin _ => True
  | .invoke _ h _ => (s.handler h).kind = HKind.prepUnregComplete
  | _ => False

theorem stepFrame_quiet (c : Cfg) (k : List Frame) (f : Frame) (hf : ¬ f.announces c.st) :
    Quiet c.st (stepFrame c k f).st := by
  cases f with
  | registerFin x => exact absurd trivial hf
  | invoke r h e => exact Cfg.invoke_quiet c k r h e hf
  | _ => (dsimp only [stepFrame]; quiet)

theorem unwind_quiet (c : Cfg) (k : List Frame) (ex : Exn) (f : Frame) : Quiet c.st (unwind c k ex f).st := by
  cases f <;> (dsimp only [unwind]; quiet)

/-- **no other source of announcements**: a step whose top frame is not one of the two announcing
    ones appends only log entries that are not the `fire` of `registered` / `unregistered` -/
theorem step_quiet (c : Cfg) (hT : TmplOk c.st.tmpls) (h0 : c.st.timers = [])
    (hf : ∀ f k, c.stack = f :: k → c.exn = none → ¬ f.announces c.st) :
    ∃ es, (step c).st.log = es ++ c.st.log ∧ ∀ x, x ∈ es → ¬ RegFire x := by
  unfold step
  split
  · exact ⟨[], rfl, fun _ h => by cases h⟩
  · rename_i f k hst
    split
    · exact (unwind_quiet c k _ f hT h0).log
    · rename_i hx
      exact (stepFrame_quiet c k f (hf f k hst hx) hT h0).log

/-- templates and the (empty) timer table are constants of a session -/
theorem reach_tmpls_timers {s0 : St} : ∀ c, Reach s0 c →
    c.st.tmpls = s0.tmpls ∧ c.st.timers.length = s0.timers.length := by
  apply Reach.inv (fun c => c.st.tmpls = s0.tmpls ∧ c.st.timers.length = s0.timers.length)
  · intro d tape op; cases op <;> exact ⟨rfl, rfl⟩
  · intro c h; exact ⟨(step_tmpls c).trans h.1, (step_timers c).trans h.2⟩
  · intro c d tape op h _; cases op <;> exact h

end CV.Core

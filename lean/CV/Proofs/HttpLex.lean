import CV.Model.HttpLex
import CV.Model.HttpSpec
/-
Helper lemmas about the concrete HTTP lexers (CV/Model/HttpLex.lean): list facts about
`takeWhile` / `dropWhile` / `rstripP`, the digit readers, the chunk-size lexer against the RFC
reader `rfcChunkSize`.  Core Lean only.
-/
namespace CV
namespace Http

/-! ### lists -/

theorem lx_dropWhile_head {p : UInt8 → Bool} {l : Bytes} (h : ∀ b, l.head? = some b → p b = false) :
    l.dropWhile p = l := by
  cases l with
  | nil => rfl
  | cons a r => exact List.dropWhile_cons_of_neg (by simp [h a rfl])

theorem lx_takeWhile_all {p : UInt8 → Bool} {l : Bytes} (h : ∀ b ∈ l, p b = true) : l.takeWhile p = l := by
  have := List.takeWhile_append_of_pos (l₂ := []) h
  simpa using this

theorem lx_dropWhile_all {p : UInt8 → Bool} {l : Bytes} (h : ∀ b ∈ l, p b = true) : l.dropWhile p = [] := by
  have := List.dropWhile_append_of_pos (l₂ := []) h
  simpa using this

/-- `takeWhile` over a prefix that satisfies `p`, stopped by the next element -/
theorem lx_takeWhile_stop {p : UInt8 → Bool} {l : Bytes} {c : UInt8} {r : Bytes}
    (h : ∀ b ∈ l, p b = true) (hc : p c = false) : (l ++ c :: r).takeWhile p = l := by
  rw [List.takeWhile_append_of_pos h, List.takeWhile_cons_of_neg (by simp [hc])]; simp

theorem lx_dropWhile_stop {p : UInt8 → Bool} {l : Bytes} {c : UInt8} {r : Bytes}
    (h : ∀ b ∈ l, p b = true) (hc : p c = false) : (l ++ c :: r).dropWhile p = c :: r := by
  rw [List.dropWhile_append_of_pos h, List.dropWhile_cons_of_neg (by simp [hc])]

theorem lx_mem_takeWhile {p : UInt8 → Bool} {l : Bytes} {b : UInt8} (h : b ∈ l.takeWhile p) : p b = true := by
  induction l with
  | nil => simp at h
  | cons a r ih =>
    by_cases ha : p a = true
    · rw [List.takeWhile_cons_of_pos ha] at h
      rcases List.mem_cons.mp h with rfl | h
      · exact ha
      · exact ih h
    · rw [List.takeWhile_cons_of_neg ha] at h; simp at h

/-- nothing to strip on the right: the string is empty or its last element does not satisfy `p` -/
theorem lx_rstripP_id {p : UInt8 → Bool} {l : Bytes} (h : ∀ b, l.getLast? = some b → p b = false) :
    rstripP p l = l := by
  unfold rstripP
  rw [lx_dropWhile_head (l := l.reverse)]
  · simp
  · intro b hb
    apply h
    simpa using hb

/-- stripping a suffix that satisfies `p` after a string that does not end in `p` -/
theorem lx_rstripP_append {p : UInt8 → Bool} {l w : Bytes} (hw : ∀ b ∈ w, p b = true)
    (h : ∀ b, l.getLast? = some b → p b = false) : rstripP p (l ++ w) = l := by
  unfold rstripP
  rw [List.reverse_append, List.dropWhile_append_of_pos (by simpa using hw),
    lx_dropWhile_head (l := l.reverse)]
  · simp
  · intro b hb
    apply h
    simpa using hb

/-! ### digits -/

theorem lx_digVal_of_hexVal {b : UInt8} {v : Nat} (h : hexVal b = some v) : digVal b = some v ∧ v < 16 := by
  unfold hexVal at h
  unfold digVal
  simp only at h ⊢
  split at h
  · rename_i h1; cases h; simp [h1]; omega
  · split at h
    · rename_i h1 h2; cases h
      have : ¬ (48 ≤ b.toNat ∧ b.toNat ≤ 57) := h1
      have h3 : 97 ≤ b.toNat ∧ b.toNat ≤ 122 := ⟨h2.1, by omega⟩
      simp [h1, h3]; omega
    · split at h
      · rename_i h1 h2 h3; cases h
        have h4 : ¬ (97 ≤ b.toNat ∧ b.toNat ≤ 122) := by omega
        have h5 : 65 ≤ b.toNat ∧ b.toNat ≤ 90 := ⟨h3.1, by omega⟩
        simp [h1, h4, h5]; omega
      · cases h

theorem lx_hex_ne_underscore {b : UInt8} (h : (hexVal b).isSome = true) : b ≠ 95 := by
  intro e; subst e; revert h; decide

/-- on hexadecimal digits `int(.., 16)`'s digit loop is the RFC reader's -/
theorem lx_intBody_hex (ds : Bytes) (h : ∀ b ∈ ds, (hexVal b).isSome = true) (acc : Nat) :
    intBody 16 acc false ds = hexNum acc ds := by
  induction ds generalizing acc with
  | nil => simp [intBody, hexNum]
  | cons b r ih =>
    have hb := h b (by simp)
    cases hv : hexVal b with
    | none => simp [hv] at hb
    | some v =>
      obtain ⟨hd, hlt⟩ := lx_digVal_of_hexVal hv
      simp only [intBody, hexNum, hv, hd, if_neg (lx_hex_ne_underscore hb), if_pos hlt]
      exact ih (fun b hb => h b (List.mem_cons_of_mem _ hb)) _

theorem lx_intBody_hex_start (ds : Bytes) (hne : ds ≠ []) (h : ∀ b ∈ ds, (hexVal b).isSome = true) :
    intBody 16 0 true ds = hexNum 0 ds := by
  cases ds with
  | nil => exact absurd rfl hne
  | cons b r =>
    have hb := h b (by simp)
    cases hv : hexVal b with
    | none => simp [hv] at hb
    | some v =>
      obtain ⟨hd, hlt⟩ := lx_digVal_of_hexVal hv
      simp only [intBody, hexNum, hv, hd, if_neg (lx_hex_ne_underscore hb), if_pos hlt]
      exact lx_intBody_hex r (fun b hb => h b (List.mem_cons_of_mem _ hb)) _

theorem lx_hexNum_isSome (ds : Bytes) (h : ∀ b ∈ ds, (hexVal b).isSome = true) (acc : Nat) :
    ∃ n, hexNum acc ds = some n := by
  induction ds generalizing acc with
  | nil => exact ⟨acc, rfl⟩
  | cons b r ih =>
    have hb := h b (by simp)
    cases hv : hexVal b with
    | none => simp [hv] at hb
    | some v =>
      simp only [hexNum, hv]
      exact ih (fun b hb => h b (List.mem_cons_of_mem _ hb)) _

/-- a hexadecimal digit is no sign, no `x`, no space, no `;` -/
theorem lx_hex_facts {b : UInt8} (h : (hexVal b).isSome = true) :
    b ≠ 43 ∧ b ≠ 45 ∧ b ≠ 120 ∧ b ≠ 88 ∧ b ≠ 59 ∧ isASpace b = false := by
  have key : 48 ≤ b.toNat := by
    unfold hexVal at h
    simp only at h
    split at h
    · omega
    · split at h
      · omega
      · split at h
        · omega
        · simp at h
  have h120 : (hexVal 120).isSome = false := by decide
  have h88 : (hexVal 88).isSome = false := by decide
  have h59 : (hexVal 59).isSome = false := by decide
  refine ⟨?_, ?_, ?_, ?_, ?_, ?_⟩
  · intro e; subst e; revert key; decide
  · intro e; subst e; revert key; decide
  · intro e; subst e; rw [h120] at h; cases h
  · intro e; subst e; rw [h88] at h; cases h
  · intro e; subst e; rw [h59] at h; cases h
  · unfold isASpace
    simp only
    have : ¬ b.toNat ≤ 13 := by omega
    have h32 : ¬ b.toNat = 32 := by omega
    simp [this, h32]

/-- `int(ds, 16)` for a non-empty string of hexadecimal digits -/
theorem lx_pyInt16_hex (ds : Bytes) (hne : ds ≠ []) (h : ∀ b ∈ ds, (hexVal b).isSome = true) :
    pyIntCore 16 ds = (hexNum 0 ds).map Int.ofNat := by
  cases ds with
  | nil => exact absurd rfl hne
  | cons b r =>
    obtain ⟨h43, h45, _, _, _, _⟩ := lx_hex_facts (h b (by simp))
    have hx : strip0x (b :: r) = b :: r := by
      unfold strip0x
      cases r with
      | nil => simp
      | cons c r' =>
        obtain ⟨_, _, h120, h88, _, _⟩ := lx_hex_facts (h c (by simp))
        simp [h120, h88]
    obtain ⟨n, hn⟩ := lx_hexNum_isSome (b :: r) h 0
    have hb := lx_intBody_hex_start (b :: r) (by simp) h
    unfold pyIntCore
    simp [h43, h45, hx, hb, hn]

/-! ### the chunk-size lexer -/

/-- **hex digits, optional blanks, optional extension**: the value written on the line -/
theorem lx_lexChunk_hex (ds w ext : Bytes) (hne : ds ≠ []) (h : ∀ b ∈ ds, (hexVal b).isSome = true)
    (hw : ∀ b ∈ w, isASpace b = true) (he : ext = [] ∨ ext.head? = some 59) :
    ∃ n, hexNum 0 ds = some n ∧ lexChunk (ds ++ w ++ ext) = .ok n := by
  obtain ⟨n, hn⟩ := lx_hexNum_isSome ds h 0
  refine ⟨n, hn, ?_⟩
  have hpre : (ds ++ w ++ ext).takeWhile (fun b => b != 59) = ds ++ w := by
    have hall : ∀ b ∈ ds ++ w, (b != 59) = true := by
      intro b hb
      rcases List.mem_append.mp hb with hb | hb
      · simpa using (lx_hex_facts (h b hb)).2.2.2.2.1
      · have := hw b hb
        have : b ≠ 59 := by intro e; subst e; revert this; decide
        simpa using this
    rcases he with rfl | he
    · simpa using lx_takeWhile_all hall
    · cases ext with
      | nil => simp at he
      | cons c r =>
        simp only [List.head?_cons, Option.some.injEq] at he
        subst he
        exact lx_takeWhile_stop hall (by decide)
  have hstrip : stripP isASpace (ds ++ w) = ds := by
    unfold stripP
    cases ds with
    | nil => exact absurd rfl hne
    | cons b r =>
      have hb := (lx_hex_facts (h b (by simp))).2.2.2.2.2
      rw [List.cons_append, List.dropWhile_cons_of_neg (by simp [hb]), ← List.cons_append]
      apply lx_rstripP_append hw
      intro c hc
      have : c ∈ b :: r := List.mem_of_getLast? hc
      exact (lx_hex_facts (h c this)).2.2.2.2.2
  unfold lexChunk
  rw [hpre, hstrip, lx_pyInt16_hex ds hne h, hn]
  simp

/-- what the RFC reader accepts, the code's chunk-size lexer accepts with the same value -/
theorem lx_lexChunk_rfc (l : Bytes) (n : Nat) (hr : rfcChunkSize l = some n) : lexChunk l = .ok n := by
  unfold rfcChunkSize at hr
  simp only at hr
  split at hr
  · cases hr
  · rename_i hd
    split at hr
    · rename_i hrest
      let p : UInt8 → Bool := fun b => (hexVal b).isSome
      let q : UInt8 → Bool := fun b => b = 32 || b = 9
      have hsplit : l = l.takeWhile p ++ (l.dropWhile p).takeWhile q ++ (l.dropWhile p).dropWhile q := by
        rw [List.append_assoc, List.takeWhile_append_dropWhile, List.takeWhile_append_dropWhile]
      obtain ⟨m, hm, hl⟩ := lx_lexChunk_hex (l.takeWhile p) ((l.dropWhile p).takeWhile q) ((l.dropWhile p).dropWhile q)
        (by intro e; simp [p, e] at hd)
        (fun b hb => by have := lx_mem_takeWhile hb; simpa [p] using this)
        (fun b hb => by
          have := lx_mem_takeWhile hb
          simp only [q, Bool.or_eq_true, decide_eq_true_eq] at this
          rcases this with rfl | rfl <;> decide)
        (by
          simp only [Bool.or_eq_true, List.isEmpty_iff, decide_eq_true_eq] at hrest
          exact hrest)
      rw [← hsplit] at hl
      rw [hl]
      have : some m = some n := by rw [← hm]; exact hr
      cases this
      rfl
    · cases hr

theorem lx_request_no_status (l : Bytes) (f : FirstLine) (h : (lexFirst .request l).toOption = some f) :
    f.status = none := by
  unfold lexFirst at h
  simp only at h
  cases hl : lexRequestLine l with
  | unsupported => simp [hl, Lx.map, Lx.toOption] at h
  | invalid => simp [hl, Lx.map, Lx.toOption] at h
  | ok r =>
    simp only [hl, Lx.map, Lx.toOption, Option.some.injEq] at h
    subst h
    rfl

end Http
end CV

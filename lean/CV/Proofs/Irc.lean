import CV.Model.Irc
/-
Helper lemmas for C18 (IRC message rendering and parsing).  Core Lean only.
-/
namespace CV
namespace Irc

/-! ### what `render` puts on the wire -/

theorem mem_markLast {a : Str} {l : List Str} (h : a ∈ markLast l) :
    a ∈ l ∨ ∃ b ∈ l, a = ':' :: b := by
  induction l with
  | nil => simp [markLast] at h
  | cons x rest ih =>
    cases rest with
    | nil =>
      simp only [markLast] at h
      split at h
      · right; exact ⟨x, by simp, by simpa using h⟩
      · left; exact h
    | cons y rest =>
      simp only [markLast, List.mem_cons] at h
      rcases h with rfl | h
      · left; simp
      · rcases ih (by simpa [markLast] using h) with h | ⟨b, hb, e⟩
        · left; exact List.mem_cons_of_mem _ h
        · right; exact ⟨b, List.mem_cons_of_mem _ hb, e⟩

theorem mem_joinSp {c : Char} {l : List Str} (h : c ∈ joinSp l) :
    c = ' ' ∨ ∃ a ∈ l, c ∈ a := by
  induction l with
  | nil => simp [joinSp] at h
  | cons x rest ih =>
    cases rest with
    | nil => right; exact ⟨x, by simp, by simpa [joinSp] using h⟩
    | cons y rest =>
      simp only [joinSp, List.mem_append, List.mem_cons] at h
      rcases h with h | rfl | h
      · right; exact ⟨x, by simp, h⟩
      · left; rfl
      · rcases ih (by simpa [joinSp] using h) with h | ⟨a, ha, hc⟩
        · left; exact h
        · right; exact ⟨a, List.mem_cons_of_mem _ ha, hc⟩

/-- a line break character -/
def isBrk (c : Char) : Bool := c == '\n' || c == '\r'

theorem checkArgs_current_iff (m : Msg) :
    checkArgs Policy.current m = true ↔
      (∀ a ∈ m.args.dropLast, ' ' ∉ a) ∧ (∀ a ∈ m.args, ∀ c ∈ a, isBrk c = false) ∧
      (∀ c ∈ m.pfx.getD [], isBrk c = false) ∧ (∀ c ∈ cmdStr m.command, isBrk c = false) := by
  simp [checkArgs, Policy.current, isBrk, and_assoc]

/-- under the current policy, no CR or LF anywhere in the body -/
theorem body_noBrk (m : Msg) (h : checkArgs Policy.current m = true) :
    ∀ c ∈ body m, isBrk c = false := by
  rw [checkArgs_current_iff] at h
  obtain ⟨_, hargs, hpfx, hcmd⟩ := h
  intro c hc
  simp only [body, List.mem_append, List.mem_cons] at hc
  rcases hc with (hc | hc) | rfl | hc
  · cases hp : m.pfx with
    | none => simp [hp, prefixPart] at hc
    | some p =>
      have hc : c = ':' ∨ c ∈ p ∨ c = ' ' := by simpa [hp, prefixPart, or_assoc] using hc
      rcases hc with rfl | hc | rfl
      · decide
      · exact hpfx c (by simpa [hp] using hc)
      · decide
  · exact hcmd c hc
  · decide
  · rcases mem_joinSp hc with rfl | ⟨a, ha, hca⟩
    · decide
    · rcases mem_markLast ha with ha | ⟨b, hb, rfl⟩
      · exact hargs a ha c hca
      · rcases List.mem_cons.1 hca with rfl | hca
        · decide
        · exact hargs b hb c hca

theorem oneLine_crlf (b : Str) (h : ∀ c ∈ b, isBrk c = false) :
    oneLine (b ++ ['\r', '\n']) = true := by
  have : (b ++ ['\r', '\n']).reverse = '\n' :: '\r' :: b.reverse := by simp
  simp only [oneLine, this]
  simp only [Bool.not_eq_true', List.any_eq_false, List.mem_reverse]
  intro c hc
  have := h c hc
  simp only [isBrk, Bool.or_eq_false_iff, beq_eq_false_iff_ne, ne_eq] at this
  simp [this.1, this.2]

theorem render_eq_some {p : Policy} {m : Msg} {w : Str} (h : render p m = some w) :
    checkArgs p m = true ∧ w = body m ++ ['\r', '\n'] := by
  unfold render at h
  split at h
  · next hc => exact ⟨hc, by simpa using h.symm⟩
  · simp at h

/-! ### `parsemsg` pieces -/

theorem splitSpace1_append (p rest : Str) (h : ' ' ∉ p) :
    splitSpace1 (p ++ ' ' :: rest) = some (p, rest) := by
  induction p with
  | nil => simp [splitSpace1]
  | cons c p ih =>
    have hc : c ≠ ' ' := fun e => h (by simp [e])
    have hp : ' ' ∉ p := fun e => h (by simp [e])
    simp [splitSpace1, hc, ih hp]

/-- characters other than space are copied -/
theorem splitTrailing_nosp_append (a rest : Str) (h : ' ' ∉ a) :
    splitTrailing (a ++ rest) = (splitTrailing rest).map (fun p => (a ++ p.1, p.2)) := by
  induction a with
  | nil =>
    simp only [List.nil_append]
    cases splitTrailing rest <;> simp
  | cons c a ih =>
    have hc : c ≠ ' ' := fun e => h (by simp [e])
    have ha : ' ' ∉ a := fun e => h (by simp [e])
    cases hr : a ++ rest with
    | nil =>
      have h1 : a = [] := (List.append_eq_nil_iff.1 hr).1
      have h2 : rest = [] := (List.append_eq_nil_iff.1 hr).2
      subst h1 h2
      simp [splitTrailing]
    | cons d r =>
      rw [List.cons_append, hr]
      simp only [splitTrailing, hc, false_and, if_false]
      rw [← hr, ih ha]
      cases splitTrailing rest <;> simp

theorem splitTrailing_space (rest : Str) (h : rest.head? ≠ some ':') :
    splitTrailing (' ' :: rest) = (splitTrailing rest).map (fun p => (' ' :: p.1, p.2)) := by
  cases rest with
  | nil => simp [splitTrailing]
  | cons d r =>
    have hd : d ≠ ':' := by simpa using h
    simp only [splitTrailing, hd, and_false, if_false]
    cases splitTrailing (d :: r) <;> simp

theorem splitTrailing_found (h t : Str) (hn : splitTrailing h = none) :
    splitTrailing (h ++ ' ' :: ':' :: t) = some (h, t) := by
  induction h with
  | nil => simp [splitTrailing]
  | cons c h ih =>
    cases h with
    | nil =>
      have : ¬ (c = ' ' ∧ ' ' = ':') := by simp
      simp [splitTrailing]
    | cons d r =>
      simp only [splitTrailing] at hn
      split at hn
      · simp at hn
      · next hcd =>
        have hn' : splitTrailing (d :: r) = none := by
          cases hs : splitTrailing (d :: r) with
          | none => rfl
          | some p => simp [hs] at hn
        have := ih hn'
        simp only [List.cons_append] at this ⊢
        simp only [splitTrailing, hcd, if_false, this]

/-- token-level facts the parser lemmas need -/
structure Tok (ws : Char → Bool) (a : Str) : Prop where
  ne : a ≠ []
  nows : ∀ c ∈ a, ws c = false
  nocolon : a.head? ≠ some ':'

theorem tokOk_iff (ws : Char → Bool) (a : Str) : tokOk ws a = true ↔ Tok ws a := by
  constructor
  · intro h
    simp only [tokOk, Bool.and_eq_true, Bool.not_eq_true', List.isEmpty_eq_false_iff,
      List.any_eq_false, bne_iff_ne, ne_eq] at h
    exact ⟨h.1.1, fun c hc => by simpa using h.1.2 c hc, h.2⟩
  · intro ⟨h1, h2, h3⟩
    simp only [tokOk, Bool.and_eq_true, Bool.not_eq_true', List.isEmpty_eq_false_iff,
      List.any_eq_false, bne_iff_ne, ne_eq]
    exact ⟨⟨h1, fun c hc => by simpa using h2 c hc⟩, h3⟩

theorem Tok.nosp {ws : Char → Bool} (hws : ws ' ' = true) {a : Str} (h : Tok ws a) : ' ' ∉ a := by
  intro hm
  have := h.nows _ hm
  rw [hws] at this
  cases this

theorem joinSp_cons_cons (a b : Str) (rest : List Str) :
    joinSp (a :: b :: rest) = a ++ ' ' :: joinSp (b :: rest) := rfl

theorem joinSp_cons_of_ne (a : Str) (l : List Str) (h : l ≠ []) :
    joinSp (a :: l) = a ++ ' ' :: joinSp l := by
  cases l with
  | nil => exact absurd rfl h
  | cons b rest => rfl

theorem joinSp_append_singleton (l : List Str) (x : Str) (h : l ≠ []) :
    joinSp (l ++ [x]) = joinSp l ++ ' ' :: x := by
  induction l with
  | nil => exact absurd rfl h
  | cons a l ih =>
    cases l with
    | nil => simp [joinSp]
    | cons b rest =>
      have := ih (by simp)
      simp only [List.cons_append] at this ⊢
      rw [joinSp_cons_cons, this, joinSp_cons_cons]
      simp

theorem head?_joinSp_cons (b : Str) (rest : List Str) (hb : b ≠ []) :
    (joinSp (b :: rest)).head? = b.head? := by
  cases b with
  | nil => exact absurd rfl hb
  | cons c b' => cases rest <;> simp [joinSp]

theorem splitTrailing_tok {ws : Char → Bool} (hws : ws ' ' = true) (a : Str) (h : Tok ws a) :
    splitTrailing a = none := by
  have := splitTrailing_nosp_append a [] (h.nosp hws)
  simpa [splitTrailing] using this

/-- J1: no trailing part in a space-joined list of tokens -/
theorem splitTrailing_joinSp {ws : Char → Bool} (hws : ws ' ' = true) (toks : List Str)
    (h : ∀ a ∈ toks, Tok ws a) : splitTrailing (joinSp toks) = none := by
  induction toks with
  | nil => simp [joinSp, splitTrailing]
  | cons a toks ih =>
    cases toks with
    | nil => simpa [joinSp] using splitTrailing_tok hws a (h a (by simp))
    | cons b rest =>
      have ha := h a (by simp)
      have hb := h b (by simp)
      rw [joinSp_cons_cons, splitTrailing_nosp_append _ _ (ha.nosp hws),
        splitTrailing_space _ (by rw [head?_joinSp_cons _ _ hb.ne]; exact hb.nocolon),
        ih (fun x hx => h x (List.mem_cons_of_mem _ hx))]
      rfl

theorem wsSplitAux_nows (ws : Char → Bool) (cur a rest : Str) (h : ∀ c ∈ a, ws c = false) :
    wsSplitAux ws cur (a ++ rest) = wsSplitAux ws (cur ++ a) rest := by
  induction a generalizing cur with
  | nil => simp
  | cons c a ih =>
    have hc : ws c = false := h c (by simp)
    simp only [List.cons_append, wsSplitAux, hc, Bool.false_eq_true, if_false]
    rw [ih _ (fun x hx => h x (List.mem_cons_of_mem _ hx))]
    simp

theorem wsSplitAux_space (ws : Char → Bool) (hws : ws ' ' = true) (cur rest : Str) (h : cur ≠ []) :
    wsSplitAux ws cur (' ' :: rest) = cur :: wsSplitAux ws [] rest := by
  have : cur.isEmpty = false := by simpa using h
  simp [wsSplitAux, hws, this]

theorem wsSplit_tok (ws : Char → Bool) (a : Str) (h : Tok ws a) : wsSplit ws a = [a] := by
  have := wsSplitAux_nows ws [] a [] h.nows
  have hne : a.isEmpty = false := by simpa using h.ne
  simp only [List.append_nil, List.nil_append] at this
  simp [wsSplit, this, wsSplitAux, hne]

/-- J2: `split()` recovers a space-joined list of tokens -/
theorem wsSplit_joinSp {ws : Char → Bool} (hws : ws ' ' = true) (toks : List Str)
    (h : ∀ a ∈ toks, Tok ws a) : wsSplit ws (joinSp toks) = toks := by
  induction toks with
  | nil => simp [joinSp, wsSplit, wsSplitAux]
  | cons a toks ih =>
    cases toks with
    | nil => simpa [joinSp] using wsSplit_tok ws a (h a (by simp))
    | cons b rest =>
      have ha := h a (by simp)
      have ih' := ih (fun x hx => h x (List.mem_cons_of_mem _ hx))
      unfold wsSplit at ih' ⊢
      rw [joinSp_cons_cons, wsSplitAux_nows _ _ _ _ ha.nows, List.nil_append,
        wsSplitAux_space _ hws _ _ ha.ne, ih']

/-- a command followed by a single space (no arguments) -/
theorem splitTrailing_tok_space {ws : Char → Bool} (hws : ws ' ' = true) (a : Str) (h : Tok ws a) :
    splitTrailing (a ++ [' ']) = none := by
  rw [splitTrailing_nosp_append _ _ (h.nosp hws)]
  simp [splitTrailing]

theorem wsSplit_tok_space {ws : Char → Bool} (hws : ws ' ' = true) (a : Str) (h : Tok ws a) :
    wsSplit ws (a ++ [' ']) = [a] := by
  unfold wsSplit
  rw [wsSplitAux_nows _ _ _ _ h.nows, List.nil_append, wsSplitAux_space _ hws _ _ h.ne]
  simp [wsSplitAux]

/-! ### `markLast` on a list given by its last element -/

/-- the colon decision for the final argument -/
def mark (a : Str) : Str := if a.contains ' ' && a.head? != some ':' then ':' :: a else a

theorem markLast_append_singleton (init : List Str) (a : Str) :
    markLast (init ++ [a]) = init ++ [mark a] := by
  induction init with
  | nil => simp only [List.nil_append, markLast, mark]; split <;> rfl
  | cons x init ih =>
    cases hi : init ++ [a] with
    | nil => simp at hi
    | cons y rest =>
      rw [List.cons_append, hi, markLast, ← hi, ih]
      · simp
      · simp

/-! ### the parser after the prefix has been removed -/

/-- the token list `parsemsg` builds after the prefix split -/
def toksOf (ws : Char → Bool) (s : Str) : List Str :=
  match splitTrailing s with
  | some (h, t) => wsSplit ws h ++ [t]
  | none => wsSplit ws s

def headTail : List Str → Option Str × List Str
  | [] => (none, [])
  | c :: args => (some c, args)

/-- the part of `parsemsg` after the prefix split -/
def parseRest (ws : Char → Bool) (s : Str) : Option Str × List Str := headTail (toksOf ws s)

theorem finish_eq (pre0 : Str) (toks : List Str) :
    (match toks with
      | [] => some (pre0, (none : Option Str), ([] : List Str))
      | c :: args => some (pre0, some c, args)) = some (pre0, (headTail toks).1, (headTail toks).2) := by
  cases toks <;> rfl

theorem parsemsg_noprefix (ws : Char → Bool) (s : Str) (h : s.head? ≠ some ':') :
    parsemsg ws s = some ([], (parseRest ws s).1, (parseRest ws s).2) := by
  cases s with
  | nil =>
    simp [parsemsg, parseRest, toksOf, headTail, splitTrailing, wsSplit, wsSplitAux]
  | cons c s =>
    have hc : c ≠ ':' := by simpa using h
    unfold parsemsg
    split
    · next heq => simp at heq; exact absurd heq.1 hc
    · exact finish_eq [] (toksOf ws (c :: s))

theorem parsemsg_prefix (ws : Char → Bool) (p s : Str) (h : ' ' ∉ p) :
    parsemsg ws (':' :: p ++ ' ' :: s) = some (p, (parseRest ws s).1, (parseRest ws s).2) := by
  have := splitSpace1_append p s h
  simp only [parsemsg, List.cons_append, this]
  exact finish_eq p (toksOf ws s)

/-- the rendered command-and-arguments part parses back -/
theorem parseRest_rendered {ws : Char → Bool} (hws : ws ' ' = true) (cmd : Str) (args : List Str)
    (hcmd : Tok ws cmd) (hinit : ∀ a ∈ args.dropLast, Tok ws a)
    (hlast : ∀ a, args.getLast? = some a → lastOk ws a = true) :
    parseRest ws (cmd ++ ' ' :: joinSp (markLast args)) = (some cmd, args) := by
  cases hl : args.getLast? with
  | none =>
    have : args = [] := List.getLast?_eq_none_iff.1 hl
    subst this
    simp only [markLast, joinSp, parseRest, toksOf, headTail, splitTrailing_tok_space hws cmd hcmd,
      wsSplit_tok_space hws cmd hcmd]
  | some a =>
    have hargs : args = args.dropLast ++ [a] := by
      have hne : args ≠ [] := by intro e; simp [e] at hl
      have h2 := List.getLast?_eq_some_getLast hne
      rw [h2] at hl
      have := List.dropLast_concat_getLast hne
      simp only [Option.some.injEq] at hl
      rw [hl] at this
      exact this.symm
    have hla := hlast a hl
    simp only [lastOk, Bool.and_eq_true, Bool.not_eq_true', List.isEmpty_eq_false_iff,
      bne_iff_ne, ne_eq, Bool.or_eq_true, List.any_eq_false] at hla
    obtain ⟨⟨hne, hcol⟩, hsp⟩ := hla
    generalize args.dropLast = init at hargs hinit
    subst hargs
    rw [markLast_append_singleton]
    have hj : cmd ++ ' ' :: joinSp (init ++ [mark a]) = joinSp (cmd :: (init ++ [mark a])) :=
      (joinSp_cons_of_ne _ _ (by simp)).symm
    rw [hj]
    have hmem : a.contains ' ' = true ↔ ' ' ∈ a := by simp
    by_cases hs : a.contains ' ' = true
    · -- trailing parameter
      have hm : mark a = ':' :: a := by
        have : (a.head? != some ':') = true := by simpa using hcol
        simp only [mark, hs, this, Bool.and_self, if_true]
      rw [hm, ← List.cons_append, joinSp_append_singleton _ _ (by simp)]
      have htoks : ∀ x ∈ cmd :: init, Tok ws x := by
        intro x hx
        rcases List.mem_cons.1 hx with rfl | hx
        · exact hcmd
        · exact hinit x hx
      simp only [parseRest, toksOf, headTail, splitTrailing_found _ _ (splitTrailing_joinSp hws _ htoks),
        wsSplit_joinSp hws _ htoks, List.cons_append]
    · -- an ordinary token
      have hs' : a.contains ' ' = false := by simpa using hs
      have hm : mark a = a := by simp only [mark, hs', Bool.false_and, Bool.false_eq_true, if_false]
      have hta : Tok ws a := by
        refine ⟨hne, ?_, hcol⟩
        rcases hsp with h | h
        · rw [hs'] at h; cases h
        · intro c hc; simpa using h c hc
      have htoks : ∀ x ∈ cmd :: (init ++ [a]), Tok ws x := by
        intro x hx
        rcases List.mem_cons.1 hx with rfl | hx
        · exact hcmd
        · rcases List.mem_append.1 hx with hx | hx
          · exact hinit x hx
          · have : x = a := by simpa using hx
            exact this ▸ hta
      rw [hm]
      simp only [parseRest, toksOf, headTail, splitTrailing_joinSp hws _ htoks, wsSplit_joinSp hws _ htoks]

theorem head?_tok_append {ws : Char → Bool} (a rest : Str) (h : Tok ws a) :
    (a ++ rest).head? ≠ some ':' := by
  cases a with
  | nil => exact absurd rfl h.ne
  | cons c a => simpa using h.nocolon

end Irc
end CV

import CV.Proofs.InvTasksBase
/-
waitingHandlers accounting, part 2 (GENERATED from CoreStep.lean by the same pattern): every pure helper and every arm of
`step` respects `St.T46M` (slack never decreases) - except the arms that move obligations (see InvTasksMain.lean).
-/
namespace CV.Core

/-! ## helpers of `Pure.lean` -/

/-- a `foldl` of steps that each respect `Le` respects `Le` -/
theorem St.T46M.foldl {s t : St} {α} (g : St → α → St) (hg : ∀ a x, St.T46M s a → St.T46M s (g a x)) (l : List α)
    (h : St.T46M s t) : St.T46M s (l.foldl g t) := by
  induction l generalizing t with
  | nil => exact h
  | cons x l ih => exact ih (hg _ _ h)

theorem St.T46M.addHandler {s t : St} (h : St.T46M s t) (x : Nat) : St.T46M s (t.addHandler x) := by
  unfold St.addHandler
  dsimp only
  refine St.T46M.modComp ?_ _ _ (fun _ => rfl)
  split
  · t46m
  · split
    · t46m
    · exact St.T46M.foldl _ (fun a n ha => by t46m) _ h
macro_rules | `(tactic| t46m1) => `(tactic| with_reducible apply St.T46M.addHandler)

theorem St.T46M.removeHandler {s t : St} (h : St.T46M s t) (x : Nat) (n : Option Name) :
    St.T46M s ((t.removeHandler x n).2) := by
  t46m_unfold St.removeHandler
macro_rules | `(tactic| t46m1) => `(tactic| with_reducible apply St.T46M.removeHandler)

theorem St.T46M.fireContext {s t : St} (h : St.T46M s t) (r e : Nat) :
    St.T46M s (t.fireContext r e) := by
  t46m_unfold St.fireContext
macro_rules | `(tactic| t46m1) => `(tactic| with_reducible apply St.T46M.fireContext)

theorem St.T46M.fireRaw {s t : St} (h : St.T46M s t) (self e : Nat) (chans : List Chan) (prio : Int) :
    St.T46M s (t.fireRaw self e chans prio) := by
  t46m_unfold St.fireRaw
macro_rules | `(tactic| t46m1) => `(tactic| with_reducible apply St.T46M.fireRaw)

theorem St.T46M.childEv {s t : St} (h : St.T46M s t) (p sfx : Nat) :
    St.T46M s (t.childEv p sfx) := by
  t46m_unfold St.childEv
macro_rules | `(tactic| t46m1) => `(tactic| with_reducible apply St.T46M.childEv)

theorem St.T46M.fireChild {s t : St} (h : St.T46M s t) (self p sfx : Nat) (chans : List Chan) :
    St.T46M s (t.fireChild self p sfx chans) := by
  t46m_unfold St.fireChild
macro_rules | `(tactic| t46m1) => `(tactic| with_reducible apply St.T46M.fireChild)

theorem St.T46M.inform {s t : St} (h : St.T46M s t) (e : Nat) (force : Bool) :
    St.T46M s (t.inform e force) := by
  t46m_unfold St.inform
macro_rules | `(tactic| t46m1) => `(tactic| with_reducible apply St.T46M.inform)

theorem St.T46M.setValue {s t : St} (h : St.T46M s t) (e : Nat) (x : VItem) :
    St.T46M s (t.setValue e x) := by
  t46m_unfold St.setValue
macro_rules | `(tactic| t46m1) => `(tactic| with_reducible apply St.T46M.setValue)

theorem St.T46M.fireTmplEv {s t : St} (h : St.T46M s t) (self : Nat) (ev : Ev) (target : Option Chan) (prio : Int)
    (hv : ev.waiting = 0) : St.T46M s (t.fireTmplEv self ev target prio) := by
  unfold St.fireTmplEv; dsimp only
  apply St.T46M.fireRaw
  exact St.T46M.addEv h ev hv
macro_rules | `(tactic| t46m1) => `(tactic| ((with_reducible apply St.T46M.fireTmplEv); case hv => exact rfl))

theorem St.T46M.effectDone1 {s t : St} (h : St.T46M s t) (r e : Nat) (announce : Bool) :
    St.T46M s ((t.effectDone1 r e announce).2) := by
  t46m_unfold St.effectDone1
macro_rules | `(tactic| t46m1) => `(tactic| with_reducible apply St.T46M.effectDone1)

theorem St.T46M.eventDonePre {s t : St} (h : St.T46M s t) (r e : Nat) (err : Bool) :
    St.T46M s ((t.eventDonePre r e err).2) := by
  t46m_unfold St.eventDonePre
macro_rules | `(tactic| t46m1) => `(tactic| with_reducible apply St.T46M.eventDonePre)

theorem St.T46M.reduceTimeLeft {s t : St} (h : St.T46M s t) (e : Nat) (d : Int) :
    St.T46M s (t.reduceTimeLeft e d) := by
  t46m_unfold St.reduceTimeLeft
macro_rules | `(tactic| t46m1) => `(tactic| with_reducible apply St.T46M.reduceTimeLeft)

theorem St.T46M.registerPre {s t : St} (h : St.T46M s t) (c p : Nat) :
    St.T46M s ((t.registerPre c p).2) := by
  t46m_unfold St.registerPre
macro_rules | `(tactic| t46m1) => `(tactic| with_reducible apply St.T46M.registerPre)

theorem St.T46M.registerFin {s t : St} (h : St.T46M s t) (c : Nat) :
    St.T46M s (t.registerFin c) := by
  t46m_unfold St.registerFin
macro_rules | `(tactic| t46m1) => `(tactic| with_reducible apply St.T46M.registerFin)

theorem St.T46M.unregister {s t : St} (h : St.T46M s t) (c : Nat) :
    St.T46M s (t.unregister c) := by
  t46m_unfold St.unregister
macro_rules | `(tactic| t46m1) => `(tactic| with_reducible apply St.T46M.unregister)

theorem St.T46M.prepUnregPre {s t : St} (h : St.T46M s t) (c : Nat) :
    St.T46M s (t.prepUnregPre c) := by
  t46m_unfold St.prepUnregPre
macro_rules | `(tactic| t46m1) => `(tactic| with_reducible apply St.T46M.prepUnregPre)

theorem St.T46M.prepUnregFin {s t : St} (h : St.T46M s t) (c : Nat) :
    St.T46M s (t.prepUnregFin c) := by
  t46m_unfold St.prepUnregFin
macro_rules | `(tactic| t46m1) => `(tactic| with_reducible apply St.T46M.prepUnregFin)

theorem St.T46M.actFire {s t : St} (h : St.T46M s t) (self i : Nat) (target : Option Chan) (prio : Int) (cancel : Bool) :
    St.T46M s (t.actFire self i target prio cancel) := by
  t46m_unfold St.actFire
macro_rules | `(tactic| t46m1) => `(tactic| with_reducible apply St.T46M.actFire)

theorem St.T46M.actStopEv {s t : St} (h : St.T46M s t) (ev : Option Nat) :
    St.T46M s (t.actStopEv ev) := by
  t46m_unfold St.actStopEv
macro_rules | `(tactic| t46m1) => `(tactic| with_reducible apply St.T46M.actStopEv)

theorem St.T46M.timerReset {s t : St} (h : St.T46M s t) (i : Nat) :
    St.T46M s (t.timerReset i) := by
  t46m_unfold St.timerReset
macro_rules | `(tactic| t46m1) => `(tactic| with_reducible apply St.T46M.timerReset)

theorem St.T46M.timerCreate {s t : St} (h : St.T46M s t) (i : Nat) :
    St.T46M s (t.timerCreate i) := by
  t46m_unfold St.timerCreate
macro_rules | `(tactic| t46m1) => `(tactic| with_reducible apply St.T46M.timerCreate)

theorem St.T46M.timerTick {s t : St} (h : St.T46M s t) (i e : Nat) :
    St.T46M s (t.timerTick i e) := by
  t46m_unfold St.timerTick
macro_rules | `(tactic| t46m1) => `(tactic| with_reducible apply St.T46M.timerTick)

theorem St.T46M.stopBegin {s t : St} (h : St.T46M s t) (c : Nat) :
    St.T46M s (t.stopBegin c) := by
  t46m_unfold St.stopBegin
macro_rules | `(tactic| t46m1) => `(tactic| with_reducible apply St.T46M.stopBegin)

theorem St.T46M.stopSetCode {s t : St} (h : St.T46M s t) (r : Nat) (code : Code) :
    St.T46M s (t.stopSetCode r code) := by
  t46m_unfold St.stopSetCode
macro_rules | `(tactic| t46m1) => `(tactic| with_reducible apply St.T46M.stopSetCode)

theorem St.T46M.genCall {s t : St} (h : St.T46M s t) (owner i : Nat) (target : Option Chan) (timeout : Option Nat) :
    St.T46M s (t.genCall owner i target timeout) := by
  t46m_unfold St.genCall
macro_rules | `(tactic| t46m1) => `(tactic| with_reducible apply St.T46M.genCall)

theorem St.T46M.genWait {s t : St} (h : St.T46M s t) (owner : Nat) (name : Name) (target : Option Chan) (timeout : Option Nat) :
    St.T46M s (t.genWait owner name target timeout) := by
  t46m_unfold St.genWait
macro_rules | `(tactic| t46m1) => `(tactic| with_reducible apply St.T46M.genWait)

theorem St.T46M.resumeGenPre {s t : St} (h : St.T46M s t) (g : Nat) (silent : Bool) :
    St.T46M s (t.resumeGenPre g silent) := by
  t46m_unfold St.resumeGenPre
macro_rules | `(tactic| t46m1) => `(tactic| with_reducible apply St.T46M.resumeGenPre)

theorem St.T46M.fireException {s t : St} (h : St.T46M s t) (r e : Nat) :
    St.T46M s (t.fireException r e) := by
  t46m_unfold St.fireException
macro_rules | `(tactic| t46m1) => `(tactic| with_reducible apply St.T46M.fireException)

theorem St.T46M.setValueOpt {s t : St} (h : St.T46M s t) (e : Nat) (v : Option Nat) :
    St.T46M s (t.setValueOpt e v) := by
  t46m_unfold St.setValueOpt
macro_rules | `(tactic| t46m1) => `(tactic| with_reducible apply St.T46M.setValueOpt)

theorem St.T46M.onWaitEvent {s t : St} (h : St.T46M s t) (w e : Nat) :
    St.T46M s ((t.onWaitEvent w e).2) := by
  t46m_unfold St.onWaitEvent
macro_rules | `(tactic| t46m1) => `(tactic| with_reducible apply St.T46M.onWaitEvent)

theorem St.T46M.onFallbackGE {s t : St} (h : St.T46M s t) (e : Nat) :
    St.T46M s ((t.onFallbackGE e).2) := by
  t46m_unfold St.onFallbackGE
macro_rules | `(tactic| t46m1) => `(tactic| with_reducible apply St.T46M.onFallbackGE)

theorem St.T46M.computeHandlers {s t : St} (h : St.T46M s t) (r : Nat) (name : Name) (chans : List Chan) :
    St.T46M s ((t.computeHandlers r name chans).2) := by
  t46m_unfold St.computeHandlers
macro_rules | `(tactic| t46m1) => `(tactic| with_reducible apply St.T46M.computeHandlers)

theorem St.T46M.dispComplete {s t : St} (h : St.T46M s t) (e : Nat) (ev : Ev) :
    St.T46M s (t.dispComplete e ev) := by
  t46m_unfold St.dispComplete
macro_rules | `(tactic| t46m1) => `(tactic| with_reducible apply St.T46M.dispComplete)

theorem St.T46M.cacheRefresh {s t : St} (h : St.T46M s t) (r : Nat) :
    St.T46M s (t.cacheRefresh r) := by
  t46m_unfold St.cacheRefresh
macro_rules | `(tactic| t46m1) => `(tactic| with_reducible apply St.T46M.cacheRefresh)

theorem St.T46M.lookupHandlers {s t : St} (h : St.T46M s t) (r : Nat) (name : Name) (chans : List Chan) :
    St.T46M s ((t.lookupHandlers r name chans).2) := by
  t46m_unfold St.lookupHandlers
macro_rules | `(tactic| t46m1) => `(tactic| with_reducible apply St.T46M.lookupHandlers)

theorem St.T46M.dispGE {s t : St} (h : St.T46M s t) (r e remaining : Nat) (name : Name) :
    St.T46M s (t.dispGE r e remaining name) := by
  t46m_unfold St.dispGE
macro_rules | `(tactic| t46m1) => `(tactic| with_reducible apply St.T46M.dispGE)

theorem St.T46M.dispatchPre {s t : St} (h : St.T46M s t) (r e remaining : Nat) :
    St.T46M s ((t.dispatchPre r e remaining).2) := by
  t46m_unfold St.dispatchPre
macro_rules | `(tactic| t46m1) => `(tactic| with_reducible apply St.T46M.dispatchPre)

theorem St.T46M.handlerRaised {s t : St} (h : St.T46M s t) (r e : Nat) :
    St.T46M s (t.handlerRaised r e) := by
  t46m_unfold St.handlerRaised
macro_rules | `(tactic| t46m1) => `(tactic| with_reducible apply St.T46M.handlerRaised)

theorem St.T46M.geTasksCheck {s t : St} (h : St.T46M s t) (r e : Nat) :
    St.T46M s (t.geTasksCheck r e) := by
  t46m_unfold St.geTasksCheck
macro_rules | `(tactic| t46m1) => `(tactic| with_reducible apply St.T46M.geTasksCheck)

theorem St.T46M.flushBegin {s t : St} (h : St.T46M s t) (r : Nat) :
    St.T46M s (t.flushBegin r) := by
  t46m_unfold St.flushBegin
macro_rules | `(tactic| t46m1) => `(tactic| with_reducible apply St.T46M.flushBegin)

theorem St.T46M.tickGenerate {s t : St} (h : St.T46M s t) (c : Nat) :
    St.T46M s (t.tickGenerate c) := by
  t46m_unfold St.tickGenerate
macro_rules | `(tactic| t46m1) => `(tactic| with_reducible apply St.T46M.tickGenerate)

theorem St.T46M.runBegin {s t : St} (h : St.T46M s t) (c : Nat) :
    St.T46M s (t.runBegin c) := by
  t46m_unfold St.runBegin
macro_rules | `(tactic| t46m1) => `(tactic| with_reducible apply St.T46M.runBegin)

theorem St.T46M.runEnd {s t : St} (h : St.T46M s t) (c : Nat) :
    St.T46M s ((t.runEnd c).2) := by
  t46m_unfold St.runEnd
macro_rules | `(tactic| t46m1) => `(tactic| with_reducible apply St.T46M.runEnd)

theorem St.T46M.actStep {s t : St} (h : St.T46M s t) (ctx : HCtx) (a : Act) : St.T46M s (actStep t ctx a).st := by
  cases a <;> (unfold CV.Core.actStep; (try dsimp only); t46m)
macro_rules | `(tactic| t46m1) => `(tactic| with_reducible apply St.T46M.actStep)

/-! ## the arms of `step` -/

macro_rules
  | `(tactic| t46m1) => `(tactic| simp only [Cfg.pop_st, Cfg.popRet_st, Cfg.raise_st, Cfg.goto_st])

theorem Cfg.effectDone_t46m (c : Cfg) (k : List Frame) (r e : Nat) (announce : Bool) :
    St.T46M c.st (c.effectDone k r e announce).st := by
  unfold Cfg.effectDone; (try dsimp only); t46m
macro_rules | `(tactic| t46m1) => `(tactic| with_reducible exact Cfg.effectDone_t46m ..)

theorem Cfg.eventDone_t46m (c : Cfg) (k : List Frame) (r e : Nat) (err : Bool) :
    St.T46M c.st (c.eventDone k r e err).st := by
  unfold Cfg.eventDone; (try dsimp only); t46m
macro_rules | `(tactic| t46m1) => `(tactic| with_reducible exact Cfg.eventDone_t46m ..)

theorem St.T46M.updateRootAll (s : St) : ∀ (fuel : Nat) (todo : List Nat) (root : Nat) (t : St),
    St.T46M s t → St.T46M s (St.updateRootAll fuel todo root t) := by
  intro fuel
  induction fuel with
  | zero => intro todo root t h; simpa [St.updateRootAll] using h
  | succ n ih =>
    intro todo root t h
    cases todo with
    | nil => simpa [St.updateRootAll] using h
    | cons x rest =>
      simp only [St.updateRootAll]
      apply ih
      t46m

macro_rules | `(tactic| t46m1) => `(tactic| with_reducible apply St.T46M.updateRootAll)

theorem Cfg.updateRoot_t46m (c : Cfg) (k : List Frame) (todo : List Nat) (root : Nat) :
    St.T46M c.st (c.updateRoot k todo root).st := by
  unfold Cfg.updateRoot; (try dsimp only)
  simp only [Cfg.pop_st]
  exact St.T46M.updateRootAll _ _ _ _ _ (St.T46M.refl _)
macro_rules | `(tactic| t46m1) => `(tactic| with_reducible exact Cfg.updateRoot_t46m ..)

theorem Cfg.register_t46m (c : Cfg) (k : List Frame) (x p : Nat) :
    St.T46M c.st (c.register k x p).st := by
  unfold Cfg.register; (try dsimp only); t46m
macro_rules | `(tactic| t46m1) => `(tactic| with_reducible exact Cfg.register_t46m ..)

theorem Cfg.registerFin_t46m (c : Cfg) (k : List Frame) (x : Nat) :
    St.T46M c.st (c.registerFin k x).st := by
  unfold Cfg.registerFin; (try dsimp only); t46m
macro_rules | `(tactic| t46m1) => `(tactic| with_reducible exact Cfg.registerFin_t46m ..)

theorem Cfg.prepUnregFin_t46m (c : Cfg) (k : List Frame) (x : Nat) :
    St.T46M c.st (c.prepUnregFin k x).st := by
  unfold Cfg.prepUnregFin; (try dsimp only); t46m
macro_rules | `(tactic| t46m1) => `(tactic| with_reducible exact Cfg.prepUnregFin_t46m ..)

theorem Cfg.stopMgr_t46m (c : Cfg) (k : List Frame) (x : Nat) (code : Code) :
    St.T46M c.st (c.stopMgr k x code).st := by
  unfold Cfg.stopMgr; (try dsimp only); t46m
macro_rules | `(tactic| t46m1) => `(tactic| with_reducible exact Cfg.stopMgr_t46m ..)

theorem Cfg.ticks_t46m (c : Cfg) (k : List Frame) (x n : Nat) :
    St.T46M c.st (c.ticks k x n).st := by
  unfold Cfg.ticks; (try dsimp only); t46m
macro_rules | `(tactic| t46m1) => `(tactic| with_reducible exact Cfg.ticks_t46m ..)

theorem Cfg.stopFin_t46m (c : Cfg) (k : List Frame) (code : Code) :
    St.T46M c.st (c.stopFin k code).st := by
  unfold Cfg.stopFin; (try dsimp only); t46m
macro_rules | `(tactic| t46m1) => `(tactic| with_reducible exact Cfg.stopFin_t46m ..)

theorem Cfg.timerNew_t46m (c : Cfg) (k : List Frame) (i : Nat) :
    St.T46M c.st (c.timerNew k i).st := by
  unfold Cfg.timerNew; (try dsimp only); t46m
macro_rules | `(tactic| t46m1) => `(tactic| with_reducible exact Cfg.timerNew_t46m ..)

theorem Cfg.acts_t46m (c : Cfg) (k : List Frame) (ctx : HCtx) (prog : Prog) :
    St.T46M c.st (c.acts k ctx prog).st := by
  unfold Cfg.acts; (try dsimp only); t46m
macro_rules | `(tactic| t46m1) => `(tactic| with_reducible exact Cfg.acts_t46m ..)

theorem Cfg.doFin_t46m (c : Cfg) (k : List Frame) (x : Nat) :
    St.T46M c.st (c.doFin k x).st := by
  unfold Cfg.doFin; (try dsimp only); t46m
macro_rules | `(tactic| t46m1) => `(tactic| with_reducible exact Cfg.doFin_t46m ..)

theorem Cfg.drainQ_t46m (c : Cfg) (k : List Frame) (x : Nat) :
    St.T46M c.st (c.drainQ k x).st := by
  unfold Cfg.drainQ; (try dsimp only); t46m
macro_rules | `(tactic| t46m1) => `(tactic| with_reducible exact Cfg.drainQ_t46m ..)

theorem Cfg.stepGen_t46m (c : Cfg) (k : List Frame) (g : Nat) :
    St.T46M c.st (c.stepGen k g).st := by
  unfold Cfg.stepGen; (try dsimp only); t46m
macro_rules | `(tactic| t46m1) => `(tactic| with_reducible exact Cfg.stepGen_t46m ..)

theorem Cfg.processTask_t46m (c : Cfg) (k : List Frame) (r : Nat) (x : Task) :
    St.T46M c.st (c.processTask k r x).st := by
  unfold Cfg.processTask; (try dsimp only); t46m
macro_rules | `(tactic| t46m1) => `(tactic| with_reducible exact Cfg.processTask_t46m ..)

theorem Cfg.ptFin_t46m (c : Cfg) (k : List Frame) (r : Nat) (handling : Option Nat) :
    St.T46M c.st (c.ptFin k r handling).st := by
  unfold Cfg.ptFin; (try dsimp only); t46m
macro_rules | `(tactic| t46m1) => `(tactic| with_reducible exact Cfg.ptFin_t46m ..)

theorem Cfg.dispatcher_t46m (c : Cfg) (k : List Frame) (r e remaining : Nat) :
    St.T46M c.st (c.dispatcher k r e remaining).st := by
  unfold Cfg.dispatcher; (try dsimp only); t46m
macro_rules | `(tactic| t46m1) => `(tactic| with_reducible exact Cfg.dispatcher_t46m ..)

theorem Cfg.hLoop_t46m (c : Cfg) (k : List Frame) (r e : Nat) (hs : List Nat) (err : Bool) (stale : Outcome) :
    St.T46M c.st (c.hLoop k r e hs err stale).st := by
  unfold Cfg.hLoop; (try dsimp only); t46m
macro_rules | `(tactic| t46m1) => `(tactic| with_reducible exact Cfg.hLoop_t46m ..)

theorem Cfg.invokeUser_t46m {s0 : St} (c : Cfg) (k : List Frame) (s : St) (h e owner p : Nat) (hle : St.T46M s0 s) :
    St.T46M s0 (c.invokeUser k s h e owner p).st := by
  unfold Cfg.invokeUser; (try dsimp only); t46m
macro_rules | `(tactic| t46m1) => `(tactic| with_reducible apply Cfg.invokeUser_t46m)

theorem Cfg.invokeFin_t46m (c : Cfg) (k : List Frame) (e h : Nat) :
    St.T46M c.st (c.invokeFin k e h).st := by
  unfold Cfg.invokeFin; (try dsimp only); t46m
macro_rules | `(tactic| t46m1) => `(tactic| with_reducible exact Cfg.invokeFin_t46m ..)

theorem Cfg.hAfter_t46m (c : Cfg) (k : List Frame) (r e : Nat) (rest : List Nat) (err : Bool) (stale : Outcome) :
    St.T46M c.st (c.hAfter k r e rest err stale).st := by
  unfold Cfg.hAfter; (try dsimp only); t46m
macro_rules | `(tactic| t46m1) => `(tactic| with_reducible exact Cfg.hAfter_t46m ..)

theorem Cfg.dispFin_t46m (c : Cfg) (k : List Frame) (r e : Nat) (err : Bool) :
    St.T46M c.st (c.dispFin k r e err).st := by
  unfold Cfg.dispFin; (try dsimp only); t46m
macro_rules | `(tactic| t46m1) => `(tactic| with_reducible exact Cfg.dispFin_t46m ..)

theorem Cfg.dispatchLoop_t46m (c : Cfg) (k : List Frame) (r : Nat) :
    St.T46M c.st (c.dispatchLoop k r).st := by
  unfold Cfg.dispatchLoop; (try dsimp only); t46m
macro_rules | `(tactic| t46m1) => `(tactic| with_reducible exact Cfg.dispatchLoop_t46m ..)

theorem Cfg.flush_t46m (c : Cfg) (k : List Frame) (x : Nat) :
    St.T46M c.st (c.flush k x).st := by
  unfold Cfg.flush; (try dsimp only); t46m
macro_rules | `(tactic| t46m1) => `(tactic| with_reducible exact Cfg.flush_t46m ..)

theorem Cfg.flushFin_t46m (c : Cfg) (k : List Frame) (r : Nat) (old : Bool) :
    St.T46M c.st (c.flushFin k r old).st := by
  unfold Cfg.flushFin; (try dsimp only); t46m
macro_rules | `(tactic| t46m1) => `(tactic| with_reducible exact Cfg.flushFin_t46m ..)

theorem Cfg.tick_t46m (c : Cfg) (k : List Frame) (x : Nat) :
    St.T46M c.st (c.tick k x).st := by
  unfold Cfg.tick; (try dsimp only); t46m
macro_rules | `(tactic| t46m1) => `(tactic| with_reducible exact Cfg.tick_t46m ..)

theorem Cfg.taskLoop_t46m (c : Cfg) (k : List Frame) (x : Nat) (ts : List Task) :
    St.T46M c.st (c.taskLoop k x ts).st := by
  unfold Cfg.taskLoop; (try dsimp only); t46m
macro_rules | `(tactic| t46m1) => `(tactic| with_reducible exact Cfg.taskLoop_t46m ..)

theorem Cfg.tickFin_t46m (c : Cfg) (k : List Frame) (x : Nat) (old : Bool) :
    St.T46M c.st (c.tickFin k x old).st := by
  unfold Cfg.tickFin; (try dsimp only); t46m
macro_rules | `(tactic| t46m1) => `(tactic| with_reducible exact Cfg.tickFin_t46m ..)

theorem Cfg.tickGen_t46m (c : Cfg) (k : List Frame) (x : Nat) :
    St.T46M c.st (c.tickGen k x).st := by
  unfold Cfg.tickGen; (try dsimp only); t46m
macro_rules | `(tactic| t46m1) => `(tactic| with_reducible exact Cfg.tickGen_t46m ..)

theorem Cfg.run_t46m (c : Cfg) (k : List Frame) (x : Nat) :
    St.T46M c.st (c.run k x).st := by
  unfold Cfg.run; (try dsimp only); t46m
macro_rules | `(tactic| t46m1) => `(tactic| with_reducible exact Cfg.run_t46m ..)

theorem Cfg.runLoop_t46m (c : Cfg) (k : List Frame) (x : Nat) :
    St.T46M c.st (c.runLoop k x).st := by
  unfold Cfg.runLoop; (try dsimp only); t46m
macro_rules | `(tactic| t46m1) => `(tactic| with_reducible exact Cfg.runLoop_t46m ..)

theorem Cfg.runFin_t46m (c : Cfg) (k : List Frame) (x : Nat) :
    St.T46M c.st (c.runFin k x).st := by
  unfold Cfg.runFin; (try dsimp only); t46m
macro_rules | `(tactic| t46m1) => `(tactic| with_reducible exact Cfg.runFin_t46m ..)

theorem Cfg.runCatchExn_t46m (c : Cfg) (k : List Frame) (x : Nat) (ex : Exn) :
    St.T46M c.st (c.runCatchExn k x ex).st := by
  unfold Cfg.runCatchExn; (try dsimp only); t46m
macro_rules | `(tactic| t46m1) => `(tactic| with_reducible exact Cfg.runCatchExn_t46m ..)

theorem Cfg.runRethrow_t46m (c : Cfg) (k : List Frame) (ex : Exn) :
    St.T46M c.st (c.runRethrow k ex).st := by
  unfold Cfg.runRethrow; (try dsimp only); t46m
macro_rules | `(tactic| t46m1) => `(tactic| with_reducible exact Cfg.runRethrow_t46m ..)


end CV.Core

import CV.Model.AuthLeaves
/-
Helper lemmas for C20: the strict UTF-8 decoder `utf8Decode` inverts `utf8Encode`; ASCII
text is its own encoding; a ':' byte occurs in an encoding only as the character ':'.
Core Lean only.
-/
namespace CV.Auth

theorem toNat_ofNat_lt {k : Nat} (h : k < 256) : (UInt8.ofNat k).toNat = k := by
  simp [UInt8.toNat_ofNat']; omega

theorem char_valid (c : Char) : c.toNat < 0xD800 ∨ (0xDFFF < c.toNat ∧ c.toNat < 0x110000) := c.valid

theorem charOfNat_eq (c : Char) {k : Nat} (h : k = c.toNat) : Char.ofNat k = c := by
  subst h; exact Char.ofNat_toNat c

theorem toNat_charOfNat {k : Nat} (h : k < 0xD800) : (Char.ofNat k).toNat = k := by
  have hv : k.isValidChar := Or.inl h
  simp [Char.ofNat, hv, Char.ofNatAux, Char.toNat]

theorem dec1 (b0 : UInt8) (rest : Bytes) (h : b0.toNat < 0x80) :
    utf8Decode (b0 :: rest) = (utf8Decode rest).map (Char.ofNat b0.toNat :: ·) := by
  rw [utf8Decode.eq_def]; simp only []; rw [if_pos h]

theorem dec2 (b0 b1 : UInt8) (rest : Bytes) (h0 : 0xC2 ≤ b0.toNat) (h0' : b0.toNat < 0xE0)
    (h1 : isCont b1 = true) :
    utf8Decode (b0 :: b1 :: rest) =
      (utf8Decode rest).map (Char.ofNat ((b0.toNat - 0xC0) * 64 + (b1.toNat - 0x80)) :: ·) := by
  rw [utf8Decode]; simp only []
  rw [if_neg (by omega), if_neg (by omega), if_pos (by omega), if_pos h1]

theorem dec3 (b0 b1 b2 : UInt8) (rest : Bytes) (h0 : 0xE0 ≤ b0.toNat) (h0' : b0.toNat < 0xF0)
    (h1 : isCont b1 = true) (h2 : isCont b2 = true)
    (hn : 0x800 ≤ (b0.toNat - 0xE0) * 4096 + (b1.toNat - 0x80) * 64 + (b2.toNat - 0x80))
    (hs : ¬ (0xD800 ≤ (b0.toNat - 0xE0) * 4096 + (b1.toNat - 0x80) * 64 + (b2.toNat - 0x80) ∧
             (b0.toNat - 0xE0) * 4096 + (b1.toNat - 0x80) * 64 + (b2.toNat - 0x80) < 0xE000)) :
    utf8Decode (b0 :: b1 :: b2 :: rest) =
      (utf8Decode rest).map
        (Char.ofNat ((b0.toNat - 0xE0) * 4096 + (b1.toNat - 0x80) * 64 + (b2.toNat - 0x80)) :: ·) := by
  rw [utf8Decode]; simp only []
  rw [if_neg (by omega), if_neg (by omega), if_neg (by omega), if_pos (by omega), if_pos]
  simp only [h1, h2, Bool.and_true, Bool.true_and, Bool.and_eq_true, decide_eq_true_eq,
    Bool.not_eq_true', Bool.and_eq_false_iff, decide_eq_false_iff_not]
  omega

theorem dec4 (b0 b1 b2 b3 : UInt8) (rest : Bytes) (h0 : 0xF0 ≤ b0.toNat) (h0' : b0.toNat < 0xF5)
    (h1 : isCont b1 = true) (h2 : isCont b2 = true) (h3 : isCont b3 = true)
    (hn : 0x10000 ≤ (b0.toNat - 0xF0) * 262144 + (b1.toNat - 0x80) * 4096 + (b2.toNat - 0x80) * 64 + (b3.toNat - 0x80))
    (hm : (b0.toNat - 0xF0) * 262144 + (b1.toNat - 0x80) * 4096 + (b2.toNat - 0x80) * 64 + (b3.toNat - 0x80) < 0x110000) :
    utf8Decode (b0 :: b1 :: b2 :: b3 :: rest) =
      (utf8Decode rest).map
        (Char.ofNat ((b0.toNat - 0xF0) * 262144 + (b1.toNat - 0x80) * 4096 + (b2.toNat - 0x80) * 64 + (b3.toNat - 0x80)) :: ·) := by
  rw [utf8Decode]; simp only []
  rw [if_neg (by omega), if_neg (by omega), if_neg (by omega), if_neg (by omega), if_pos (by omega), if_pos]
  simp only [h1, h2, h3, Bool.and_true, Bool.true_and, Bool.and_eq_true, decide_eq_true_eq]
  omega

theorem isCont_of {k : Nat} (h : k < 64) : isCont (UInt8.ofNat (0x80 + k)) = true := by
  simp only [isCont, toNat_ofNat_lt (show 0x80 + k < 256 by omega), Bool.and_eq_true, decide_eq_true_eq]
  omega

/-- decoding the encoding of one character followed by anything -/
theorem decode_encodeChar (c : Char) (rest : Bytes) :
    utf8Decode (utf8EncodeChar c ++ rest) = (utf8Decode rest).map (c :: ·) := by
  have hv := char_valid c
  unfold utf8EncodeChar
  simp only []
  split
  · rename_i h
    simp only [List.cons_append, List.nil_append]
    rw [dec1 _ _ (by rw [toNat_ofNat_lt (by omega)]; exact h), toNat_ofNat_lt (by omega), Char.ofNat_toNat]
  · split
    · rename_i h1 h2
      simp only [List.cons_append, List.nil_append]
      have e0 : (UInt8.ofNat (0xC0 + c.toNat / 64)).toNat = 0xC0 + c.toNat / 64 := toNat_ofNat_lt (by omega)
      have e1 : (UInt8.ofNat (0x80 + c.toNat % 64)).toNat = 0x80 + c.toNat % 64 := toNat_ofNat_lt (by omega)
      rw [dec2 _ _ _ (by omega) (by omega) (isCont_of (by omega)), e0, e1]
      rw [charOfNat_eq c (by omega)]
    · split
      · rename_i h1 h2 h3
        simp only [List.cons_append, List.nil_append]
        have e0 : (UInt8.ofNat (0xE0 + c.toNat / 4096)).toNat = 0xE0 + c.toNat / 4096 := toNat_ofNat_lt (by omega)
        have e1 : (UInt8.ofNat (0x80 + c.toNat / 64 % 64)).toNat = 0x80 + c.toNat / 64 % 64 := toNat_ofNat_lt (by omega)
        have e2 : (UInt8.ofNat (0x80 + c.toNat % 64)).toNat = 0x80 + c.toNat % 64 := toNat_ofNat_lt (by omega)
        rw [dec3 _ _ _ _ (by omega) (by omega) (isCont_of (by omega)) (isCont_of (by omega))
          (by rw [e0, e1, e2]; omega) (by rw [e0, e1, e2]; omega), e0, e1, e2]
        rw [charOfNat_eq c (by omega)]
      · rename_i h1 h2 h3
        simp only [List.cons_append, List.nil_append]
        have e0 : (UInt8.ofNat (0xF0 + c.toNat / 262144)).toNat = 0xF0 + c.toNat / 262144 := toNat_ofNat_lt (by omega)
        have e1 : (UInt8.ofNat (0x80 + c.toNat / 4096 % 64)).toNat = 0x80 + c.toNat / 4096 % 64 := toNat_ofNat_lt (by omega)
        have e2 : (UInt8.ofNat (0x80 + c.toNat / 64 % 64)).toNat = 0x80 + c.toNat / 64 % 64 := toNat_ofNat_lt (by omega)
        have e3 : (UInt8.ofNat (0x80 + c.toNat % 64)).toNat = 0x80 + c.toNat % 64 := toNat_ofNat_lt (by omega)
        rw [dec4 _ _ _ _ _ (by omega) (by omega) (isCont_of (by omega)) (isCont_of (by omega)) (isCont_of (by omega))
          (by rw [e0, e1, e2, e3]; omega) (by rw [e0, e1, e2, e3]; omega), e0, e1, e2, e3]
        rw [charOfNat_eq c (by omega)]

theorem decode_encode (s : Str) : utf8Decode (utf8Encode s) = some s := by
  induction s with
  | nil => simp [utf8Encode, utf8Decode]
  | cons c cs ih =>
    have : utf8Encode (c :: cs) = utf8EncodeChar c ++ utf8Encode cs := by simp [utf8Encode]
    rw [this, decode_encodeChar, ih]; rfl

/-- every byte of the encoding of a non-ASCII character is >= 0x80 -/
theorem encodeChar_bytes (c : Char) (b : UInt8) (hb : b ∈ utf8EncodeChar c) :
    (c.toNat < 0x80 ∧ b.toNat = c.toNat) ∨ 0x80 ≤ b.toNat := by
  have hv := char_valid c
  unfold utf8EncodeChar at hb
  simp only [] at hb
  split at hb
  · left
    simp only [List.mem_singleton] at hb
    subst hb
    exact ⟨by assumption, toNat_ofNat_lt (by omega)⟩
  · right
    split at hb
    · simp only [List.mem_cons, List.not_mem_nil, or_false] at hb
      rcases hb with rfl | rfl <;> (rw [toNat_ofNat_lt (by omega)]; omega)
    · split at hb
      · simp only [List.mem_cons, List.not_mem_nil, or_false] at hb
        rcases hb with rfl | rfl | rfl <;> (rw [toNat_ofNat_lt (by omega)]; omega)
      · simp only [List.mem_cons, List.not_mem_nil, or_false] at hb
        rcases hb with rfl | rfl | rfl | rfl <;> (rw [toNat_ofNat_lt (by omega)]; omega)

/-- the byte ':' occurs in `s.encode()` only where `s` has the character ':' -/
theorem colon_mem_encode {s : Str} (h : (58 : UInt8) ∈ utf8Encode s) : ':' ∈ s := by
  simp only [utf8Encode, List.mem_flatMap] at h
  obtain ⟨c, hc, hb⟩ := h
  rcases encodeChar_bytes c 58 hb with ⟨_, h2⟩ | h2
  · have : c = ':' := by
      rw [← Char.ofNat_toNat c, ← h2]; rfl
    exact this ▸ hc
  · exact absurd h2 (by decide)

/-- ASCII bytes read as text encode to themselves -/
theorem encode_asciiStr (bs : Bytes) (h : ∀ b ∈ bs, b.toNat < 128) : utf8Encode (asciiStr bs) = bs := by
  induction bs with
  | nil => rfl
  | cons b bs ih =>
    have hb : b.toNat < 128 := h b (by simp)
    have ih' := ih (fun x hx => h x (by simp [hx]))
    have hc : (Char.ofNat b.toNat).toNat = b.toNat :=
      toNat_charOfNat (by omega)
    simp only [asciiStr, List.map_cons, utf8Encode, List.flatMap_cons] at ih' ⊢
    rw [ih']
    simp only [utf8EncodeChar, hc, if_pos (show b.toNat < 0x80 from hb), UInt8.ofNat_toNat, List.cons_append, List.nil_append]

end CV.Auth

import CV.Proofs.InvOrderBase
import CV.Model.Core.LogSpec
/-
C02, machine level, second round: the handler-order invariant of every reachable configuration.

`O2I c`:
  * `st`     the state invariant `O2S` (priorities ≥ -100, table ids declared, caches descending);
  * `ok`     every loop frame (`.hLoop` / `.hAfter` / `.hApply`) on the stack carries a pending list
             that is descending and declared, its event has a `D` entry in the log; every
             `.invoke` frame calls a declared handler;
  * `dispd`  every `I` entry of the log is preceded by the `D` entry of its event and names a
             declared handler;
  * `once`   as long as every event was dispatched at most once (`O2Once`: the `D` entries of the
             log are pairwise different): the handlers invoked so far for the event of a loop frame
             all have a priority ≥ every pending handler of that frame, loop frames on the stack
             belong to different events, and for every event the invoked handlers are in
             non-increasing priority order.
-/
namespace CV.Core

/-! ## log projections -/

/-- the events dispatched so far (`D` entries), newest first -/
def o2disps (log : List Entry) : List Nat :=
  log.filterMap fun x => match x with | .disp e => some e | _ => none

/-- every event object was dispatched at most once -/
def O2Once (log : List Entry) : Prop := (o2disps log).Nodup

theorem o2_mem_disps {log : List Entry} {e : Nat} : e ∈ o2disps log ↔ Entry.disp e ∈ log := by
  unfold o2disps
  rw [List.mem_filterMap]
  constructor
  · rintro ⟨x, hx, h⟩
    cases x <;> simp at h
    subst h; exact hx
  · intro h; exact ⟨_, h, rfl⟩

theorem o2_mem_invoked {log : List Entry} {e h : Nat} : h ∈ invokedFor log e ↔ Entry.inv e h 0 ∈ log := by
  unfold invokedFor
  rw [List.mem_filterMap]
  constructor
  · rintro ⟨x, hx, hh⟩
    cases x with
    | inv e' h' n =>
      cases n with
      | zero =>
        simp only at hh
        split at hh
        · rename_i he
          simp only [beq_iff_eq] at he
          cases hh; subst he; exact hx
        · cases hh
      | succ n => simp at hh
    | _ => simp at hh
  · intro hm; exact ⟨_, hm, by simp⟩

theorem o2_quiet_disps {es : List Entry} (hq : ∀ x ∈ es, x.o2quiet = true) : o2disps es = [] := by
  unfold o2disps
  rw [List.filterMap_eq_nil_iff]
  intro x hx
  have := hq x hx
  cases x <;> first | rfl | (simp [Entry.o2quiet] at this)

theorem o2_quiet_invoked {es : List Entry} (hq : ∀ x ∈ es, x.o2quiet = true) (e : Nat) : invokedFor es e = [] := by
  unfold invokedFor
  rw [List.filterMap_eq_nil_iff]
  intro x hx
  have := hq x hx
  cases x with
  | inv e' h' n =>
    cases n with
    | zero => simp [Entry.o2quiet] at this
    | succ n => rfl
  | _ => rfl

theorem o2_disps_append (a b : List Entry) : o2disps (a ++ b) = o2disps a ++ o2disps b := by
  unfold o2disps; rw [List.filterMap_append]

theorem o2_invoked_append (a b : List Entry) (e : Nat) : invokedFor (a ++ b) e = invokedFor a e ++ invokedFor b e := by
  unfold invokedFor; rw [List.filterMap_append]

theorem o2_disps_quiet_append {es : List Entry} (hq : ∀ x ∈ es, x.o2quiet = true) (log : List Entry) :
    o2disps (es ++ log) = o2disps log := by
  rw [o2_disps_append, o2_quiet_disps hq, List.nil_append]

theorem o2_invoked_quiet_append {es : List Entry} (hq : ∀ x ∈ es, x.o2quiet = true) (log : List Entry) (e : Nat) :
    invokedFor (es ++ log) e = invokedFor log e := by
  rw [o2_invoked_append, o2_quiet_invoked hq, List.nil_append]

/-! ## frames -/

/-- event and pending handler list of a loop frame -/
def Frame.o2loop : Frame → Option (Nat × List Nat)
  | .hLoop _ e l _ _ => some (e, l)
  | .hAfter _ e l _ _ => some (e, l)
  | .hApply _ e l _ _ => some (e, l)
  | _ => none

/-- handler and event of a handler call -/
def Frame.o2call : Frame → Option (Nat × Nat)
  | .invoke _ h e => some (h, e)
  | _ => none

theorem Frame.o2loop_ev {f : Frame} {e : Nat} {l : List Nat} (h : f.o2loop = some (e, l)) : f.o2ev = some e := by
  cases f <;> simp [Frame.o2loop] at h <;> simp [Frame.o2ev, h.1]

theorem Frame.o2call_ev {f : Frame} {h e : Nat} (hc : f.o2call = some (h, e)) : f.o2ev = some e := by
  cases f <;> simp [Frame.o2call] at hc <;> simp [Frame.o2ev, hc.2]

theorem Frame.o2plain_loop {f : Frame} (h : f.o2ev = none) : f.o2loop = none := by
  cases f <;> first | rfl | (simp [Frame.o2ev] at h)

theorem Frame.o2plain_call {f : Frame} (h : f.o2ev = none) : f.o2call = none := by
  cases f <;> first | rfl | (simp [Frame.o2ev] at h)

theorem o2plain_mem {fs : List Frame} (h : o2plain fs = true) {g : Frame} (hg : g ∈ fs) : g.o2ev = none := by
  unfold o2plain at h
  rw [List.all_eq_true] at h
  have := h g hg
  simpa using this

/-- the state-only part of the frame invariant -/
structure Frame.o2ok (s : St) (f : Frame) : Prop where
  disp : ∀ e, f.o2ev = some e → Entry.disp e ∈ s.log
  desc : ∀ e l, f.o2loop = some (e, l) → DescIn s l
  call : ∀ h e, f.o2call = some (h, e) → h < s.hs.length

theorem Frame.o2ok_plain (s : St) {f : Frame} (h : f.o2ev = none) : f.o2ok s :=
  ⟨fun e he => (by rw [h] at he; cases he), fun e l hl => (by rw [Frame.o2plain_loop h] at hl; cases hl),
   fun x e hc => (by rw [Frame.o2plain_call h] at hc; cases hc)⟩

/-- `t` is a later state than `s` as far as the frame invariants care -/
structure O2Ext (s t : St) : Prop where
  hs : ∃ ext, t.hs = s.hs ++ ext
  log : ∃ es, t.log = es ++ s.log

theorem O2R.ext {s t : St} (h : O2R s t) : O2Ext s t := ⟨h.hs, let ⟨es, e, _⟩ := h.log; ⟨es, e⟩⟩

theorem Frame.o2ok.mono {s t : St} {f : Frame} (h : f.o2ok s) (hx : O2Ext s t) : f.o2ok t := by
  obtain ⟨es, he⟩ := hx.log
  refine ⟨fun e hev => ?_, fun e l hl => (h.desc e l hl).mono hx.hs, fun x e hc => ?_⟩
  · rw [he]; exact List.mem_append_right _ (h.disp e hev)
  · exact Nat.lt_of_lt_of_le (h.call x e hc) (o2_len_mono hx.hs)

/-- the log-related part of the invariant for the frame `f` with the frames `k` below it -/
structure o2frameOk (s : St) (f : Frame) (k : List Frame) : Prop where
  call : ∀ h e, f.o2call = some (h, e) →
    (∀ h' ∈ invokedFor s.log e, s.q2prio h' ≥ s.q2prio h) ∧
    ∃ r' rest err stale k', k = .hAfter r' e rest err stale :: k' ∧ ∀ x ∈ rest, s.q2prio h ≥ s.q2prio x
  loop : ∀ e l, f.o2loop = some (e, l) →
    (∀ h' ∈ invokedFor s.log e, ∀ x ∈ l, s.q2prio h' ≥ s.q2prio x) ∧ ∀ g ∈ k, g.o2ev ≠ some e

def o2stk (s : St) : List Frame → Prop
  | [] => True
  | f :: k => o2frameOk s f k ∧ o2stk s k

theorem o2frameOk_plain (s : St) {f : Frame} (k : List Frame) (h : f.o2ev = none) : o2frameOk s f k :=
  ⟨fun x e hc => (by rw [Frame.o2plain_call h] at hc; cases hc), fun e l hl => (by rw [Frame.o2plain_loop h] at hl; cases hl)⟩

theorem o2stk_plain_append (s : St) : ∀ (fs : List Frame) (k : List Frame), o2plain fs = true → o2stk s k → o2stk s (fs ++ k)
  | [], _, _, h => h
  | f :: fs, k, hp, h => by
    have hf : f.o2ev = none := o2plain_mem hp List.mem_cons_self
    have hp' : o2plain fs = true := by
      unfold o2plain at hp ⊢
      rw [List.all_cons, Bool.and_eq_true] at hp
      exact hp.2
    exact ⟨o2frameOk_plain s _ hf, o2stk_plain_append s fs k hp' h⟩

/-- the invariant of configurations -/
structure O2I (c : Cfg) : Prop where
  st : O2S c.st
  ok : ∀ f ∈ c.stack, f.o2ok c.st
  dispd : ∀ e h, Entry.inv e h 0 ∈ c.st.log → Entry.disp e ∈ c.st.log ∧ h < c.st.hs.length
  once : O2Once c.st.log → o2stk c.st c.stack ∧
    ∀ e, (invokedFor c.st.log e).Pairwise (fun a b => c.st.q2prio b ≥ c.st.q2prio a)

/-! ## transport of the log-related parts along a state change -/

/-- what the transport lemmas need to know about the old state -/
structure O2Know (s : St) (k : List Frame) : Prop where
  ok : ∀ f ∈ k, f.o2ok s
  dispd : ∀ e h, Entry.inv e h 0 ∈ s.log → Entry.disp e ∈ s.log ∧ h < s.hs.length

theorem O2Know.tail {s : St} {f : Frame} {k : List Frame} (h : O2Know s (f :: k)) : O2Know s k :=
  ⟨fun g hg => h.ok g (List.mem_cons_of_mem _ hg), h.dispd⟩

theorem o2_invoked_lt {s : St} (hd : ∀ e h, Entry.inv e h 0 ∈ s.log → Entry.disp e ∈ s.log ∧ h < s.hs.length)
    {e h : Nat} (hm : h ∈ invokedFor s.log e) : h < s.hs.length := (hd e h (o2_mem_invoked.mp hm)).2

/-- a state change that extends the handler table and keeps the invoked lists of all events
    mentioned in `k` keeps `o2stk s k` -/
theorem o2stk_mono {s t : St} (hx : ∃ ext, t.hs = s.hs ++ ext) : ∀ (k : List Frame), O2Know s k →
    (∀ e, (∃ g ∈ k, g.o2ev = some e) → invokedFor t.log e = invokedFor s.log e) → o2stk s k → o2stk t k
  | [], _, _, _ => trivial
  | f :: k, hk, hinv, ⟨hf, hrest⟩ => by
    refine ⟨⟨?_, ?_⟩, o2stk_mono hx k hk.tail (fun e ⟨g, hg, he⟩ => hinv e ⟨g, List.mem_cons_of_mem _ hg, he⟩) hrest⟩
    · intro x e hc
      obtain ⟨h1, r', rest, err, stale, k', hkk, h2⟩ := hf.call x e hc
      have hxlt : x < s.hs.length := (hk.ok f List.mem_cons_self).call x e hc
      have hie := hinv e ⟨f, List.mem_cons_self, Frame.o2call_ev hc⟩
      refine ⟨?_, r', rest, err, stale, k', hkk, ?_⟩
      · intro h' hh'
        rw [hie] at hh'
        rw [o2_prio_mono hx (o2_invoked_lt hk.dispd hh'), o2_prio_mono hx hxlt]
        exact h1 h' hh'
      · intro y hy
        have hd : DescIn s rest := (hk.ok (.hAfter r' e rest err stale) (by rw [hkk]; simp)).desc e rest rfl
        rw [o2_prio_mono hx hxlt, o2_prio_mono hx (hd.2 y hy)]
        exact h2 y hy
    · intro e l hl
      obtain ⟨h1, h2⟩ := hf.loop e l hl
      have hie := hinv e ⟨f, List.mem_cons_self, Frame.o2loop_ev hl⟩
      have hd : DescIn s l := (hk.ok f List.mem_cons_self).desc e l hl
      refine ⟨?_, h2⟩
      intro h' hh' y hy
      rw [hie] at hh'
      rw [o2_prio_mono hx (o2_invoked_lt hk.dispd hh'), o2_prio_mono hx (hd.2 y hy)]
      exact h1 h' hh' y hy

theorem o2_pairwise_mono {s t : St} (hx : ∃ ext, t.hs = s.hs ++ ext)
    (hd : ∀ e h, Entry.inv e h 0 ∈ s.log → Entry.disp e ∈ s.log ∧ h < s.hs.length) (e : Nat)
    (hp : (invokedFor s.log e).Pairwise (fun a b => s.q2prio b ≥ s.q2prio a)) :
    (invokedFor s.log e).Pairwise (fun a b => t.q2prio b ≥ t.q2prio a) := by
  refine List.Pairwise.imp_of_mem ?_ hp
  intro a b ha hb hab
  rw [o2_prio_mono hx (o2_invoked_lt hd ha), o2_prio_mono hx (o2_invoked_lt hd hb)]
  exact hab

/-! ## preservation: order-neutral arms -/

/-- the parts of `O2I` that do not depend on the stack, after a quiet state change -/
theorem o2_dispd_quiet {s t : St} (hr : O2R s t)
    (hd : ∀ e h, Entry.inv e h 0 ∈ s.log → Entry.disp e ∈ s.log ∧ h < s.hs.length) :
    ∀ e h, Entry.inv e h 0 ∈ t.log → Entry.disp e ∈ t.log ∧ h < t.hs.length := by
  obtain ⟨es, he, hq⟩ := hr.log
  intro e h hm
  rw [he] at hm ⊢
  rcases List.mem_append.mp hm with h1 | h1
  · exact absurd (hq _ h1) (by simp [Entry.o2quiet])
  · exact ⟨List.mem_append_right _ (hd e h h1).1, Nat.lt_of_lt_of_le (hd e h h1).2 (o2_len_mono hr.hs)⟩

/-- an arm that replaces the top frame by plain frames and changes the state quietly -/
theorem O2I.generic {c c' : Cfg} {f : Frame} {k : List Frame} (hi : O2I c) (hst : c.stack = f :: k)
    (hg : O2G k c.st c') : O2I c' := by
  obtain ⟨fs, hfs, hpl⟩ := hg.push
  obtain ⟨es, he, hq⟩ := hg.rel.log
  have hkn : O2Know c.st (f :: k) := ⟨fun g hg => hi.ok g (hst ▸ hg), hi.dispd⟩
  refine ⟨hg.rel.inv hi.st, ?_, o2_dispd_quiet hg.rel hi.dispd, ?_⟩
  · intro g hgm
    rw [hfs] at hgm
    rcases List.mem_append.mp hgm with h1 | h1
    · exact Frame.o2ok_plain _ (o2plain_mem hpl h1)
    · exact (hkn.ok g (List.mem_cons_of_mem _ h1)).mono hg.rel.ext
  · intro honce
    have honce' : O2Once c.st.log := by
      unfold O2Once at honce ⊢
      rwa [he, o2_disps_quiet_append hq] at honce
    obtain ⟨h1, h2⟩ := hi.once honce'
    rw [hst] at h1
    have hinv : ∀ e, invokedFor c'.st.log e = invokedFor c.st.log e := fun e => by
      rw [he, o2_invoked_quiet_append hq]
    refine ⟨?_, fun e => ?_⟩
    · rw [hfs]
      exact o2stk_plain_append _ fs k hpl (o2stk_mono hg.rel.hs k hkn.tail (fun e _ => hinv e) h1.2)
    · rw [hinv e]; exact o2_pairwise_mono hg.rel.hs hi.dispd e (h2 e)

/-- an arm that replaces the top loop frame by a loop frame of the same event with a sublist of
    the pending handlers (plus plain frames on top) and changes the state quietly -/
theorem O2I.replaceLoop {c c' : Cfg} {f f' : Frame} {k fs : List Frame} {e : Nat} {l l' : List Nat}
    (hi : O2I c) (hst : c.stack = f :: k) (hr : O2R c.st c'.st) (hst' : c'.stack = fs ++ f' :: k)
    (hpl : o2plain fs = true) (hf : f.o2loop = some (e, l)) (hf' : f'.o2loop = some (e, l'))
    (hfc : f'.o2call = none) (hsub : l'.Sublist l) : O2I c' := by
  obtain ⟨es, he, hq⟩ := hr.log
  have hkn : O2Know c.st (f :: k) := ⟨fun g hg => hi.ok g (hst ▸ hg), hi.dispd⟩
  have hfok := hkn.ok f List.mem_cons_self
  have hev' : f'.o2ev = some e := Frame.o2loop_ev hf'
  refine ⟨hr.inv hi.st, ?_, o2_dispd_quiet hr hi.dispd, ?_⟩
  · intro g hgm
    rw [hst'] at hgm
    rcases List.mem_append.mp hgm with h1 | h1
    · exact Frame.o2ok_plain _ (o2plain_mem hpl h1)
    · rcases List.mem_cons.mp h1 with h2 | h2
      · subst h2
        refine Frame.o2ok.mono ⟨?_, ?_, ?_⟩ hr.ext
        · intro e1 he1; rw [hev'] at he1; cases he1; exact hfok.disp e (Frame.o2loop_ev hf)
        · intro e1 l1 hl1; rw [hf'] at hl1; cases hl1; exact DescL.sublist (hfok.desc e l hf) hsub
        · intro x e1 hc; rw [hfc] at hc; cases hc
      · exact (hkn.ok g (List.mem_cons_of_mem _ h2)).mono hr.ext
  · intro honce
    have honce' : O2Once c.st.log := by
      unfold O2Once at honce ⊢
      rwa [he, o2_disps_quiet_append hq] at honce
    obtain ⟨h1, h2⟩ := hi.once honce'
    rw [hst] at h1
    have hinv : ∀ e, invokedFor c'.st.log e = invokedFor c.st.log e := fun e => by
      rw [he, o2_invoked_quiet_append hq]
    refine ⟨?_, fun e => ?_⟩
    · rw [hst']
      refine o2stk_plain_append _ fs _ hpl ⟨⟨?_, ?_⟩, o2stk_mono hr.hs k hkn.tail (fun e _ => hinv e) h1.2⟩
      · intro x e1 hc; rw [hfc] at hc; cases hc
      · intro e1 l1 hl1
        rw [hf'] at hl1; cases hl1
        obtain ⟨h3, h4⟩ := h1.1.loop e l hf
        refine ⟨?_, h4⟩
        intro h' hh' y hy
        rw [hinv] at hh'
        have hyl := hsub.subset hy
        rw [o2_prio_mono hr.hs (o2_invoked_lt hi.dispd hh'), o2_prio_mono hr.hs ((hfok.desc e l hf).2 y hyl)]
        exact h3 h' hh' y hyl
    · rw [hinv e]; exact o2_pairwise_mono hr.hs hi.dispd e (h2 e)

end CV.Core

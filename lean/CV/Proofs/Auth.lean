import CV.Model.AuthSpec
/-
Helper lemmas for C20 (authentication): the code-shaped model of CV/Model/Auth.lean
refines, and is refined by, the RFC-shaped predicates of CV/Model/AuthSpec.lean.
Core Lean only.
-/
namespace CV.Auth
@[simp] theorem bind_val {α β} (a : α) (f : α → Res β) : (Res.val a >>= f) = f a := rfl
@[simp] theorem bind_raised {α β} (f : α → Res β) : ((Res.raised : Res α) >>= f) = Res.raised := rfl
@[simp] theorem pure_eq {α} (a : α) : (pure a : Res α) = Res.val a := rfl

theorem bind_eq_val {α β} {x : Res α} {f : α → Res β} {r : β} :
    (x >>= f) = .val r ↔ ∃ a, x = .val a ∧ f a = .val r := by
  cases x <;> simp

theorem getR_val {kv : KV} {k : String} {v : Str} : getR kv k = .val v ↔ get kv k = some v := by
  unfold getR
  split <;> simp_all

theorem a2_val {kv : KV} {method s : Str} (h : a2 kv method = .val s) :
    (get kv "qop" = none ∨ get kv "qop" = some qAuth) ∧ ∃ uri, get kv "uri" = some uri ∧ s = colon method uri := by
  unfold a2 at h
  simp only [] at h
  split at h
  · rename_i hq
    rw [bind_eq_val] at h
    obtain ⟨uri, hu, h⟩ := h
    rw [getR_val] at hu
    simp at h
    refine ⟨?_, uri, hu, h.symm⟩
    cases hqq : get kv "qop" <;> simp_all
  · cases h

theorem a1_val {H : Str → Str} {kv : KV} {alg pw s : Str} (h : a1 H kv alg pw = .val s) :
    ∃ u r, get kv "username" = some u ∧ get kv "realm" = some r ∧
      ((alg = MD5 ∧ s = colon u (colon r pw)) ∨
       (alg ≠ MD5 ∧ ∃ n c, get kv "nonce" = some n ∧ get kv "cnonce" = some c ∧
          s = colon (H (colon u (colon r pw))) (colon n c))) := by
  unfold a1 at h
  rw [bind_eq_val] at h
  obtain ⟨u, hu, h⟩ := h
  rw [bind_eq_val] at h
  obtain ⟨r, hr, h⟩ := h
  rw [getR_val] at hu hr
  refine ⟨u, r, hu, hr, ?_⟩
  simp only [] at h
  split at h
  · rename_i ha
    simp at h
    exact Or.inl ⟨ha, h.symm⟩
  · rename_i ha
    rw [bind_eq_val] at h
    obtain ⟨n, hn, h⟩ := h
    rw [bind_eq_val] at h
    obtain ⟨c, hc, h⟩ := h
    rw [getR_val] at hn hc
    simp at h
    exact Or.inr ⟨ha, n, c, hn, hc, h.symm⟩
theorem md5_ne_sess : MD5 ≠ MD5sess := by decide

theorem compute_rfc {H : Str → Str} {kv : KV} {pw method resp : Str}
    (h : computeResponse H kv pw method = .val resp) :
    supported kv = true ∧
    ∃ u r, get kv "username" = some u ∧ get kv "realm" = some r ∧ resp = rfcResponse H kv u pw r method := by
  unfold computeResponse at h
  simp only [] at h
  split at h
  · cases h
  · rename_i halg
    rw [bind_eq_val] at h
    obtain ⟨sA2, h2, h⟩ := h
    rw [bind_eq_val] at h
    obtain ⟨sA1, h1, h⟩ := h
    obtain ⟨hq, uri, huri, rfl⟩ := a2_val h2
    obtain ⟨u, r, hu, hr, h1⟩ := a1_val h1
    have hsup : supported kv = true := by
      unfold supported
      cases ha : get kv "algorithm" with
      | none => rcases hq with hq | hq <;> simp [hq]
      | some a =>
        have hor : a = MD5 ∨ a = MD5sess := by
          simp [ha] at halg
          by_cases hm : a = MD5
          · exact Or.inl hm
          · exact Or.inr (halg hm)
        rcases hor with rfl | rfl <;> rcases hq with hq | hq <;> simp [hq]
    refine ⟨hsup, u, r, hu, hr, ?_⟩
    unfold rfcResponse
    simp only [fld, huri, Option.getD]
    rcases hq with hq | hq
    · -- no qop
      rw [hq] at h
      simp only [] at h
      rw [bind_eq_val] at h
      obtain ⟨n, hn, h⟩ := h
      rw [getR_val] at hn
      simp at h
      subst h
      rcases h1 with ⟨ha, rfl⟩ | ⟨ha, n', c, hn', hc, rfl⟩
      · cases hga : get kv "algorithm" <;> simp_all [md5_ne_sess]
      · cases hga : get kv "algorithm" <;> simp_all
    · rw [hq] at h
      simp only [] at h
      rw [if_pos (by simp)] at h
      rw [bind_eq_val] at h
      obtain ⟨n, hn, h⟩ := h
      rw [bind_eq_val] at h
      obtain ⟨nc, hnc, h⟩ := h
      rw [bind_eq_val] at h
      obtain ⟨cn, hcn, h⟩ := h
      rw [getR_val] at hn hnc hcn
      simp at h
      subst h
      rcases h1 with ⟨ha, rfl⟩ | ⟨ha, n', c, hn', hc, rfl⟩
      · cases hga : get kv "algorithm" <;> simp_all [md5_ne_sess]
      · cases hga : get kv "algorithm" <;> simp_all

theorem pdp {kv kv' : KV} (h : parseDigestParams kv = some kv') : kv' = kv := by
  unfold parseDigestParams at h
  repeat' (split at h)
  all_goals simp_all

theorem parse_creds {L : Leaves} {cred : Str} {ah : AuthMap}
    (h : parseAuthorization L cred = .val (some ah)) : credsOf L cred = some ah := by
  unfold parseAuthorization at h
  unfold credsOf
  repeat' (split at h)
  all_goals (first | cases h | skip)
  all_goals simp_all
  all_goals exact (pdp ‹_›).symm

theorem check_verifies {H : Str → Str} {enc : Enc} {ah : AuthMap} {p realm method : Str}
    (h : checkResponse H enc ah (some p) realm method = .val true) :
    Verifies H enc ah ah.username p realm method = true := by
  unfold checkResponse at h
  cases ah with
  | basic user pw =>
    simp only [] at h
    split at h
    · cases h
    · rename_i e he
      simp at h
      simp [Verifies, AuthMap.username, he, h]
  | digest kv =>
    simp only [] at h
    rw [bind_eq_val] at h
    obtain ⟨r, hr, h⟩ := h
    rw [getR_val] at hr
    split at h
    · simp at h
    · rename_i hreal
      rw [bind_eq_val] at h
      obtain ⟨resp, hresp, h⟩ := h
      rw [bind_eq_val] at h
      obtain ⟨given, hg, h⟩ := h
      rw [getR_val] at hg
      obtain ⟨hsup, u, r', hu, hr', rfl⟩ := compute_rfc hresp
      simp at h hreal
      simp [pwText] at hresp
      subst hreal
      rw [hr] at hr'
      cases hr'
      simp [Verifies, AuthMap.username, hu, hr, hsup, hg]
      exact h.symm

theorem lookup_mem {α β} [BEq α] [LawfulBEq α] {l : List (α × β)} {a : α} {b : β}
    (h : l.lookup a = some b) : (a, b) ∈ l := by
  induction l with
  | nil => simp at h
  | cons x xs ih =>
    obtain ⟨k, v⟩ := x
    by_cases hk : a == k
    · simp [List.lookup, hk] at h
      have : a = k := by simpa using hk
      subst this; subst h
      simp
    · simp [List.lookup, hk] at h
      exact List.mem_cons_of_mem _ (ih h)

theorem checkAuth_ok {L : Leaves} {enc : Enc} {realm method : Str} {users : List (Str × Str)}
    {hdr : Option Str} {u : Str}
    (h : checkAuth Policy.current L enc realm method users hdr = .ok u) :
    ∃ cred c p, hdr = some cred ∧ credsOf L cred = some c ∧ c.username = u ∧
      users.lookup u = some p ∧ Verifies L.H enc c u p realm method = true := by
  unfold checkAuth at h
  cases hdr with
  | none => cases h
  | some cred =>
    simp only [] at h
    split at h
    · cases h
    · simp [Policy.current] at h
    · rename_i ah hp
      simp only [Policy.current, Bool.false_or] at h
      cases hl : users.lookup ah.username with
      | none => simp [hl] at h
      | some p =>
        simp only [hl, Option.isSome_some, if_true] at h
        split at h
        · cases h
        · rename_i hv
          simp at h
          subst h
          exact ⟨cred, ah, p, rfl, parse_creds hp, rfl, hl, check_verifies hv⟩
        · cases h

theorem truthy_ok {L : Leaves} {enc : Enc} {realm method : Str} {users : List (Str × Str)}
    {hdr : Option Str}
    (h : (checkAuth Policy.current L enc realm method users hdr).truthy = some true) :
    ∃ u, checkAuth Policy.current L enc realm method users hdr = .ok u := by
  cases hc : checkAuth Policy.current L enc realm method users hdr with
  | ok u => exact ⟨u, rfl⟩
  | refused => simp [hc, Out.truthy] at h
  | noHeader => simp [hc, Out.truthy] at h
  | raised => simp [hc, Out.truthy] at h
  | errObj =>
    exfalso
    unfold checkAuth at hc
    cases hdr with
    | none => cases hc
    | some cred =>
      simp only [Policy.current] at hc
      repeat' (split at hc)
      all_goals (first | cases hc | simp at hc)

theorem getR_of_get {kv : KV} {k : String} {v : Str} (h : get kv k = some v) : getR kv k = .val v :=
  getR_val.mpr h

theorem hasKey_get {kv : KV} {k : String} (h : hasKey kv k = true) : ∃ v, get kv k = some v := by
  unfold hasKey at h
  cases hg : get kv k with
  | none => simp [hg] at h
  | some v => exact ⟨v, rfl⟩

theorem hasKey_false {kv : KV} {k : String} (h : hasKey kv k = false) : get kv k = none := by
  unfold hasKey at h
  cases hg : get kv k with
  | none => rfl
  | some v => simp [hg] at h

theorem qauth_ne : qAuth ≠ qAuthInt := by decide

theorem rfc_compute {H : Str → Str} {kv : KV} {pw method u r : Str}
    (hw : wellFormedKV kv = true) (hu : get kv "username" = some u) (hr : get kv "realm" = some r) :
    computeResponse H kv pw method = .val (rfcResponse H kv u pw r method) := by
  unfold wellFormedKV at hw
  simp only [Bool.and_eq_true, required, List.all_cons, List.all_nil, Bool.and_true] at hw
  obtain ⟨⟨⟨⟨⟨⟨_, _, hn, huri, _⟩, hsup⟩, hq1⟩, hq2⟩, _⟩, hsess⟩ := hw
  obtain ⟨n, hn⟩ := hasKey_get hn
  obtain ⟨uri, huri⟩ := hasKey_get huri
  unfold supported at hsup
  unfold computeResponse rfcResponse
  simp only [a1, a2, fld]
  cases hq : hasKey kv "qop"
  · -- no qop: neither cnonce nor nc
    have hqn := hasKey_false hq
    rw [hq] at hq2
    have hcn : get kv "cnonce" = none := by
      apply hasKey_false
      cases hc : hasKey kv "cnonce" <;> simp_all
    cases ha : get kv "algorithm" with
    | none => simp [hqn, hu, hr, hn, huri, getR_of_get, qAuth]
    | some a =>
      simp [ha, hqn] at hsup hsess
      rcases hsup with rfl | rfl
      · simp [hqn, hu, hr, hn, huri, getR_of_get, md5_ne_sess]
      · exfalso
        simp [hasKey, hcn] at hsess
  · obtain ⟨q, hqv⟩ := hasKey_get hq
    rw [hq] at hq1
    have hc : hasKey kv "cnonce" = true ∧ hasKey kv "nc" = true := by
      simpa using hq1.symm
    obtain ⟨c, hc'⟩ := hasKey_get hc.1
    obtain ⟨nc, hnc⟩ := hasKey_get hc.2
    have hqa : q = qAuth := by
      simp [hqv] at hsup
      exact hsup.2
    subst hqa
    cases ha : get kv "algorithm" with
    | none => simp [hqv, hu, hr, hn, huri, hc', hnc, getR_of_get]
    | some a =>
      simp [ha, hqv] at hsup
      rcases hsup with rfl | rfl
      · simp [hqv, hu, hr, hn, huri, hc', hnc, getR_of_get, md5_ne_sess]
      · simp [hqv, hu, hr, hn, huri, hc', hnc, getR_of_get, md5_ne_sess.symm]

theorem wf_parseDigest {kv : KV} (hw : wellFormedKV kv = true) :
    parseDigestParams kv = some kv ∧ hasKey kv "auth_scheme" = false := by
  unfold wellFormedKV at hw
  simp only [Bool.and_eq_true] at hw
  obtain ⟨⟨⟨⟨⟨hreq, _⟩, hq1⟩, hq2⟩, hs⟩, _⟩ := hw
  unfold parseDigestParams
  refine ⟨?_, by simpa using hs⟩
  rw [hreq]
  cases hq : hasKey kv "qop" <;> cases hc : hasKey kv "cnonce" <;> cases hn : hasKey kv "nc" <;>
    simp_all

theorem creds_parse {L : Leaves} {enc : Enc} {cred : Str} {c : AuthMap}
    (h : credsOf L cred = some c) (hw : wellFormed enc c = true) :
    parseAuthorization L cred = .val (some c) := by
  unfold credsOf at h
  unfold parseAuthorization
  repeat' (split at h)
  all_goals (first | cases h | skip)
  · simp_all
  · rename_i hkv
    simp only [Option.map] at h
    split at h
    · rename_i kv hk
      cases h
      obtain ⟨h1, h2⟩ := wf_parseDigest (by simpa [wellFormed] using hw)
      simp_all
    · cases h

theorem verifies_check {H : Str → Str} {enc : Enc} {c : AuthMap} {p realm method : Str}
    (hw : wellFormed enc c = true) (hv : Verifies H enc c c.username p realm method = true) :
    checkResponse H enc c (some p) realm method = .val true := by
  cases c with
  | basic user pw =>
    simp [Verifies, AuthMap.username] at hv
    simp [checkResponse, hv]
  | digest kv =>
    simp only [Verifies, Bool.and_eq_true, beq_iff_eq] at hv
    obtain ⟨⟨⟨hu, hr⟩, _⟩, hresp⟩ := hv
    have hw' : wellFormedKV kv = true := by simpa [wellFormed] using hw
    simp [checkResponse, getR_of_get hr, getR_of_get hresp, pwText, rfc_compute hw' hu hr]

theorem mustAccept_ok {L : Leaves} {enc : Enc} {realm method : Str} {users : List (Str × Str)}
    {hdr : Option Str} {u : Str}
    (h : mustAccept L enc realm method users hdr = some u) :
    checkAuth Policy.current L enc realm method users hdr = .ok u := by
  unfold mustAccept at h
  repeat' (split at h)
  all_goals (first | cases h | skip)
  rename_i cred _ c hc _ p hl hcond
  simp only [Bool.and_eq_true] at hcond
  simp [checkAuth, creds_parse hc hcond.1, hl, Policy.current, verifies_check hcond.1 hcond.2]

end CV.Auth

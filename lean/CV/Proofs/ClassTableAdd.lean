import CV.Proofs.ClassTable
/-
`newComponent` against the core model's `addHandler` (C01).

`BaseComponent.__init__` (components.py) first runs `Manager.__init__` (empty `_handlers` / `_globals`,
`_cache_needs_refresh = False`), then calls `self.addHandler(v)` for every member with `v.handler is True`, and at
the very end `self.addHandler(_on_prepare_unregister_complete)` (a framework handler that is not class-derived;
of it only the effect `root._cache_needs_refresh = True` is in `newComponent`).  `Manager.addHandler` adds the
bound method to the *sets* `_globals` / `_handlers['*']` / `_handlers[name]` and sets the flag on the root.

Here: the state with the handler objects created and a blank component (`blankComponent`), `addHandler` of the core
model applied to the new handler ids in order (`installAll`), the final flag (`markDirty`) - and the proof that the
result is `newComponent` with repeated rows collapsed (`dedup`; rows are set elements: `@handler("a", "a")` or two
names with the same code give one row in the set, two equal rows in `tableOf`).
-/
namespace CV.ClassTable
open CV.Core

/-- add the elements of `xs` one after the other to the set `l` -/
def addAll {α} [BEq α] (l xs : List α) : List α := xs.foldl addUniq l

/-- collapse repeated rows, first occurrence stays -/
def dedup {α} [BEq α] (l : List α) : List α := addAll [] l

theorem addAll_append {α} [BEq α] (l a b : List α) : addAll l (a ++ b) = addAll (addAll l a) b := by
  simp [addAll, List.foldl_append]

theorem mem_addUniq {α} [BEq α] [LawfulBEq α] (l : List α) (x y : α) : y ∈ addUniq l x ↔ y ∈ l ∨ y = x := by
  unfold addUniq
  split
  · rename_i h
    have hx : x ∈ l := by simpa using h
    constructor
    · exact .inl
    · rintro (h | rfl)
      · exact h
      · exact hx
  · simp

theorem mem_addAll {α} [BEq α] [LawfulBEq α] (y : α) : ∀ (xs l : List α), y ∈ addAll l xs ↔ y ∈ l ∨ y ∈ xs := by
  intro xs
  induction xs with
  | nil => intro l; simp [addAll]
  | cons x xs ih =>
    intro l
    show y ∈ addAll (addUniq l x) xs ↔ _
    rw [ih, mem_addUniq]
    simp only [List.mem_cons]
    constructor
    · rintro ((h | h) | h)
      · exact .inl h
      · exact .inr (.inl h)
      · exact .inr (.inr h)
    · rintro (h | h | h)
      · exact .inl (.inl h)
      · exact .inl (.inr h)
      · exact .inr h

/-- same rows -/
theorem mem_dedup {α} [BEq α] [LawfulBEq α] (l : List α) (y : α) : y ∈ dedup l ↔ y ∈ l := by
  simp [dedup, mem_addAll]

/-- nothing collapses when nothing is repeated -/
theorem addAll_of_nodup {α} [BEq α] [LawfulBEq α] : ∀ (xs l : List α), xs.Nodup → (∀ x ∈ xs, x ∉ l) → addAll l xs = l ++ xs := by
  intro xs
  induction xs with
  | nil => intro l _ _; simp [addAll]
  | cons x xs ih =>
    intro l hn hd
    have hx : x ∉ l := hd x (by simp)
    have h1 : addUniq l x = l ++ [x] := by simp [addUniq, hx]
    show addAll (addUniq l x) xs = _
    rw [h1, ih (l ++ [x]) (List.nodup_cons.mp hn).2]
    · simp
    · intro y hy hmem
      rcases List.mem_append.mp hmem with h | h
      · exact hd y (List.mem_cons_of_mem _ hy) h
      · simp only [List.mem_singleton] at h
        subst h
        exact (List.nodup_cons.mp hn).1 hy

theorem dedup_of_nodup {α} [BEq α] [LawfulBEq α] (l : List α) (h : l.Nodup) : dedup l = l := by
  have := addAll_of_nodup l [] h (by simp)
  simpa [dedup] using this

/-- the state with the handler objects of the new instance created and its component record carrying the given
    tables and flag; `recs` are the records, `chan` the instance channel -/
def stWith (E : Enc) (chan : Chan) (recs : List HandlerRecord) (s : St) (htab : List (HKey × Nat)) (globals : List Nat)
    (dirty : Bool) : St :=
  { s with
    hs := s.hs ++ recs.map (toHandler E s.comps.length),
    comps := s.comps ++ [{ parent := s.comps.length, root := s.comps.length, chan := chan, dirty := dirty,
                           htab := htab, globals := globals }] }

/-- after `Manager.__init__`: empty tables, flag clear -/
def blankComponent (E : Enc) (cs : Classes) (c : Str) (s : St) : St :=
  stWith E (E.toChan (instChannel cs c)) (effectiveHandlers cs c) s [] [] false

/-- `addHandler` for the handler ids `base, base+1, …, base+n-1` in this order -/
def installAll (s : St) (base n : Nat) : St := (List.range n).foldl (fun s i => s.addHandler (base + i)) s

/-- `root._cache_needs_refresh = True` (the effect of the closing `addHandler` of the framework handler) -/
def markDirty (s : St) (x : Nat) : St := s.modComp x fun c => { c with dirty := true }

/-- collapse repeated rows in the tables of component `x` -/
def dedupTables (s : St) (x : Nat) : St :=
  s.modComp x fun c => { c with htab := dedup c.htab, globals := dedup c.globals }

theorem modify_append_length {α} (f : α → α) (a : α) : ∀ l : List α, (l ++ [a]).modify l.length f = l ++ [f a] := by
  intro l
  induction l with
  | nil => simp
  | cons x l ih => simp [ih]

theorem stWith_modComp (E : Enc) (chan : Chan) (recs : List HandlerRecord) (s : St) (htab : List (HKey × Nat))
    (globals : List Nat) (dirty : Bool) (f : Comp → Comp) :
    (stWith E chan recs s htab globals dirty).modComp s.comps.length f =
      { s with
        hs := s.hs ++ recs.map (toHandler E s.comps.length),
        comps := s.comps ++ [f { parent := s.comps.length, root := s.comps.length, chan := chan, dirty := dirty,
                                 htab := htab, globals := globals }] } := by
  simp [stWith, St.modComp, modify_append_length]

theorem stWith_handler (E : Enc) (chan : Chan) (recs : List HandlerRecord) (s : St) (htab : List (HKey × Nat))
    (globals : List Nat) (dirty : Bool) (i : Nat) (r : HandlerRecord) (hi : recs[i]? = some r) :
    (stWith E chan recs s htab globals dirty).handler (s.hs.length + i) = toHandler E s.comps.length r := by
  simp [stWith, St.handler, List.getD, List.getElem?_append_right, hi]

theorem stWith_rootOf (E : Enc) (chan : Chan) (recs : List HandlerRecord) (s : St) (htab : List (HKey × Nat))
    (globals : List Nat) (dirty : Bool) :
    (stWith E chan recs s htab globals dirty).rootOf s.comps.length = s.comps.length := by
  simp [stWith, St.rootOf, St.comp, List.getD]

theorem toChan_eq_star (E : Enc) (ch : Str) : (E.toChan ch == Chan.star) = (ch == star) := by
  unfold Enc.toChan
  by_cases h : (ch == star) = true
  · simp [h]
  · simp [h]

theorem chan_is_star (E : Enc) (ch : Option Str) : (ch.map E.toChan == some Chan.star) = (ch == some star) := by
  cases ch with
  | none => rfl
  | some ch =>
    have := toChan_eq_star E ch
    simpa using this

theorem stWith_modHtab (E : Enc) (chan : Chan) (recs : List HandlerRecord) (s : St) (htab : List (HKey × Nat))
    (globals : List Nat) (dirty : Bool) (F : List (HKey × Nat) → List (HKey × Nat)) :
    (stWith E chan recs s htab globals dirty).modComp s.comps.length (fun x => { x with htab := F x.htab }) =
      stWith E chan recs s (F htab) globals dirty := by
  rw [stWith_modComp]; rfl

theorem stWith_modGlobals (E : Enc) (chan : Chan) (recs : List HandlerRecord) (s : St) (htab : List (HKey × Nat))
    (globals : List Nat) (dirty : Bool) (F : List Nat → List Nat) :
    (stWith E chan recs s htab globals dirty).modComp s.comps.length (fun x => { x with globals := F x.globals }) =
      stWith E chan recs s htab (F globals) dirty := by
  rw [stWith_modComp]; rfl

theorem stWith_modDirty (E : Enc) (chan : Chan) (recs : List HandlerRecord) (s : St) (htab : List (HKey × Nat))
    (globals : List Nat) (dirty : Bool) :
    (stWith E chan recs s htab globals dirty).modComp s.comps.length (fun x => { x with dirty := true }) =
      stWith E chan recs s htab globals true := by
  rw [stWith_modComp]; rfl

theorem fold_names (E : Enc) (chan : Chan) (recs : List HandlerRecord) (s : St) (globals : List Nat) (dirty : Bool) (h : Nat) :
    ∀ (names : List Name) (htab : List (HKey × Nat)),
    names.foldl (fun s' n => s'.modComp s.comps.length fun x => { x with htab := addUniq x.htab (some n, h) })
        (stWith E chan recs s htab globals dirty) =
      stWith E chan recs s (addAll htab (names.map fun n => (some n, h))) globals dirty := by
  intro names
  induction names with
  | nil => intro htab; simp [addAll]
  | cons n ns ih =>
    intro htab
    simp only [List.foldl_cons, List.map_cons]
    rw [stWith_modHtab E chan recs s htab globals dirty (fun t => addUniq t (some n, h))]
    exact ih _

/-- one `addHandler` call of `__init__` -/
theorem stWith_addHandler (E : Enc) (chan : Chan) (recs : List HandlerRecord) (s : St) (htab : List (HKey × Nat))
    (globals : List Nat) (dirty : Bool) (i : Nat) (r : HandlerRecord) (hi : recs[i]? = some r) :
    (stWith E chan recs s htab globals dirty).addHandler (s.hs.length + i) =
      stWith E chan recs s (addAll htab (htabRows E r (s.hs.length + i)))
        (addAll globals (globalRows r (s.hs.length + i))) true := by
  unfold St.addHandler
  simp only [stWith_handler E chan recs s htab globals dirty i r hi]
  have hn : (toHandler E s.comps.length r).names = r.names.map E.name := rfl
  have ho : (toHandler E s.comps.length r).owner = s.comps.length := rfl
  have hc : (toHandler E s.comps.length r).chan = r.chan.map E.toChan := rfl
  simp only [hn, ho, hc, chan_is_star, List.isEmpty_map]
  by_cases h1 : r.names.isEmpty = true
  · by_cases h2 : (r.chan == some star) = true
    · simp only [h1, h2, Bool.and_self, ↓reduceIte, htabRows, globalRows]
      rw [stWith_modGlobals E chan recs s htab globals dirty (fun t => addUniq t (s.hs.length + i)), stWith_rootOf,
        stWith_modDirty]
      rfl
    · simp only [h1, h2, Bool.and_false, Bool.false_eq_true, ↓reduceIte, htabRows, globalRows]
      rw [stWith_modHtab E chan recs s htab globals dirty (fun t => addUniq t (none, s.hs.length + i)), stWith_rootOf,
        stWith_modDirty]
      rfl
  · simp only [h1, Bool.false_and, Bool.false_eq_true, ↓reduceIte, htabRows, globalRows]
    rw [fold_names, stWith_rootOf, stWith_modDirty, List.map_map]
    rfl

theorem tableOf_append (E : Enc) (base : Nat) : ∀ (a : List HandlerRecord) (i : Nat) (b : List HandlerRecord),
    tableOf E base i (a ++ b) = tableOf E base i a ++ tableOf E base (i + a.length) b := by
  intro a
  induction a with
  | nil => intro i b; simp [tableOf]
  | cons r a ih =>
    intro i b
    simp only [List.cons_append, tableOf, List.length_cons, List.append_assoc]
    rw [ih]
    have : i + 1 + a.length = i + (a.length + 1) := by omega
    rw [this]

theorem globalsOf_append (base : Nat) : ∀ (a : List HandlerRecord) (i : Nat) (b : List HandlerRecord),
    globalsOf base i (a ++ b) = globalsOf base i a ++ globalsOf base (i + a.length) b := by
  intro a
  induction a with
  | nil => intro i b; simp [globalsOf]
  | cons r a ih =>
    intro i b
    simp only [List.cons_append, globalsOf, List.length_cons, List.append_assoc]
    rw [ih]
    have : i + 1 + a.length = i + (a.length + 1) := by omega
    rw [this]

/-- the first `n` `addHandler` calls build the tables of the first `n` records -/
theorem installAll_take (E : Enc) (chan : Chan) (recs : List HandlerRecord) (s : St) : ∀ n, n ≤ recs.length →
    installAll (stWith E chan recs s [] [] false) s.hs.length n =
      stWith E chan recs s (dedup (tableOf E s.hs.length 0 (recs.take n))) (dedup (globalsOf s.hs.length 0 (recs.take n)))
        (decide (0 < n)) := by
  intro n
  induction n with
  | zero => intro _; simp [installAll, dedup, addAll, tableOf, globalsOf]
  | succ n ih =>
    intro hn
    have hlt : n < recs.length := by omega
    have hstep : installAll (stWith E chan recs s [] [] false) s.hs.length (n + 1) =
        (installAll (stWith E chan recs s [] [] false) s.hs.length n).addHandler (s.hs.length + n) := by
      simp [installAll, List.range_succ, List.foldl_append]
    rw [hstep, ih (by omega), stWith_addHandler E chan recs s _ _ _ n recs[n] (List.getElem?_eq_getElem hlt)]
    have htake : recs.take (n + 1) = recs.take n ++ [recs[n]] := by
      rw [List.take_add_one, List.getElem?_eq_getElem hlt]; rfl
    have hlen : (recs.take n).length = n := by simp; omega
    rw [htake, tableOf_append, globalsOf_append, hlen]
    simp only [dedup, addAll_append, tableOf, globalsOf, List.append_nil, Nat.zero_add, Nat.zero_lt_succ, decide_true]

theorem newComponent_eq_stWith (E : Enc) (cs : Classes) (c : Str) (s : St) :
    newComponent E cs c s = stWith E (E.toChan (instChannel cs c)) (effectiveHandlers cs c) s
      (tableOf E s.hs.length 0 (effectiveHandlers cs c)) (globalsOf s.hs.length 0 (effectiveHandlers cs c)) true := rfl

/-- the whole of `__init__`'s handler installation -/
theorem init_eq_newComponent (E : Enc) (cs : Classes) (c : Str) (s : St) :
    markDirty (installAll (blankComponent E cs c s) s.hs.length (effectiveHandlers cs c).length) s.comps.length =
      dedupTables (newComponent E cs c s) s.comps.length := by
  rw [blankComponent, installAll_take _ _ _ _ _ (Nat.le_refl _), List.take_length, newComponent_eq_stWith]
  unfold markDirty dedupTables
  rw [stWith_modDirty, stWith_modComp]
  rfl

theorem dedupTables_of_nodup (E : Enc) (cs : Classes) (c : Str) (s : St)
    (h1 : (tableOf E s.hs.length 0 (effectiveHandlers cs c)).Nodup)
    (h2 : (globalsOf s.hs.length 0 (effectiveHandlers cs c)).Nodup) :
    dedupTables (newComponent E cs c s) s.comps.length = newComponent E cs c s := by
  rw [newComponent_eq_stWith]
  unfold dedupTables
  rw [stWith_modComp]
  simp only [dedup_of_nodup _ h1, dedup_of_nodup _ h2]
  rfl

/-! ### when no row is repeated -/

theorem htabRows_snd (E : Enc) (r : HandlerRecord) (h : Nat) (p : HKey × Nat) (hm : p ∈ htabRows E r h) : p.2 = h := by
  unfold htabRows at hm
  split at hm
  · split at hm
    · cases hm
    · simp only [List.mem_singleton] at hm; rw [hm]
  · simp only [List.mem_map] at hm
    obtain ⟨_, _, rfl⟩ := hm; rfl

theorem htabRows_nodup (E : Enc) (r : HandlerRecord) (h : Nat) (hn : (r.names.map E.name).Nodup) : (htabRows E r h).Nodup := by
  unfold htabRows
  split
  · split
    · exact List.nodup_nil
    · simp
  · have : (r.names.map fun n => ((some (E.name n) : HKey), h)) = (r.names.map E.name).map fun n => ((some n : HKey), h) := by
      rw [List.map_map]; rfl
    rw [this]
    exact List.Pairwise.map _ (fun a b hab h' => hab (by cases h'; rfl)) hn

theorem tableOf_nodup (E : Enc) (base : Nat) : ∀ (recs : List HandlerRecord), (∀ r ∈ recs, (r.names.map E.name).Nodup) →
    ∀ j, (tableOf E base j recs).Nodup := by
  intro recs
  induction recs with
  | nil => intro _ j; simp [tableOf]
  | cons r rs ih =>
    intro hn j
    simp only [tableOf]
    rw [List.nodup_append]
    refine ⟨htabRows_nodup E r _ (hn r (by simp)), ih (fun r' hr' => hn r' (List.mem_cons_of_mem _ hr')) _, ?_⟩
    intro a ha b hb hab
    subst hab
    have h1 := htabRows_snd E r _ a ha
    obtain ⟨i, r', _, h2, _⟩ := (mem_tableOf E base a.1 a.2 rs (j + 1)).mp hb
    omega

theorem globalsOf_nodup (base : Nat) : ∀ (recs : List HandlerRecord) (j : Nat), (globalsOf base j recs).Nodup := by
  intro recs
  induction recs with
  | nil => intro j; simp [globalsOf]
  | cons r rs ih =>
    intro j
    simp only [globalsOf]
    rw [List.nodup_append]
    refine ⟨by unfold globalRows; split <;> simp, ih _, ?_⟩
    intro a ha b hb hab
    subst hab
    have h1 : a = base + j := by
      unfold globalRows at ha
      split at ha
      · simpa using ha
      · cases ha
    obtain ⟨i, r', _, h2, _⟩ := (mem_globalsOf base a rs (j + 1)).mp hb
    omega

end CV.ClassTable

import CV.Proofs.CoreStep
import CV.Proofs.CoreReach
import CV.Proofs.InvQueue
/-
C08, machine level: conservation of queued events ("fired = dispatched + still queued").

For a fixed class of event ids `K : Nat → Bool` (one id: `(· == e)`; all ids from `n` on: `(n ≤ ·)`):

    #F entries (K) in the log  =  #D entries (K) in the log
                                 + #items (K) in the deques and batch heaps of ALL components
                                 + B

where `B` counts the `.dispatcher _ e _` frames on the stack (an event popped by `dispatchEvents`
whose `_dispatcher` call has not yet logged its `D`).  `DBal K B s` is this equation as a predicate
on states, together with `∀ x, root(x) < |comps|` (without which a `fire` on a dangling root would
log an `F` and queue nothing).  It is pushed through all primitives / helpers / arms of `step` with
the 4-layer pattern of CoreStep.lean (committed-choice tactic `d8t`).  Special: `fireRaw` (+F, +1
item), `dispatchPre` (+D, B-1), `flushBegin` (deque → heap), `registerPre` (`drainFrom`: deque of
one component → deque of another), `updateRootAll` (roots), the pop of `.dispatchLoop` (B+1).

Every top-level name carries the prefix `d8` / `DBal` / `DG`.
-/
namespace CV.Core

/-! ## counting -/

def d8isFire (K : Nat → Bool) : Entry → Bool
  | .fire e _ _ _ => K e
  | _ => false

def d8isDisp (K : Nat → Bool) : Entry → Bool
  | .disp e => K e
  | _ => false

/-- number of `F` (fire) entries of the log whose event id is in the class `K` -/
def firedCnt (K : Nat → Bool) (l : List Entry) : Nat := l.countP (d8isFire K)
/-- number of `D` (`_dispatcher` entered) entries of the log whose event id is in `K` -/
def dispCnt (K : Nat → Bool) (l : List Entry) : Nat := l.countP (d8isDisp K)

/-- items of class `K` still in the deque (`_queue`) -/
def EQ.dequeCnt (K : Nat → Bool) (q : EQ) : Nat := q.queue.countP (fun it => K it.ev)
/-- items of class `K` in the current batch heap (`_priority_queue`) -/
def EQ.heapCnt (K : Nat → Bool) (q : EQ) : Nat := q.heap.countP (fun it => K it.ev)
def EQ.cntK (K : Nat → Bool) (q : EQ) : Nat := q.dequeCnt K + q.heapCnt K

/-- items of class `K` in the deques and heaps of all components -/
def queuedCnt (K : Nat → Bool) (s : St) : Nat := (s.comps.map (fun c => c.eq.cntK K)).sum

theorem d8_sum_modify {α} (g : α → Nat) (f : α → α) (d : α) : ∀ (l : List α) (i : Nat), i < l.length →
    ((l.modify i f).map g).sum + g (l.getD i d) = (l.map g).sum + g (f (l.getD i d)) := by
  intro l
  induction l with
  | nil => intro i h; simp at h
  | cons a l ih =>
    intro i h
    cases i with
    | zero => simp; omega
    | succ i =>
      have := ih i (by simpa using h)
      simp at this ⊢
      omega

theorem d8_modify_oor {α} (f : α → α) (l : List α) (i : Nat) (h : ¬ i < l.length) : l.modify i f = l := by
  apply List.ext_getElem?
  intro j
  rw [List.getElem?_modify]
  split
  · rename_i hij; subst hij; rw [List.getElem?_eq_none (by omega)]; rfl
  · simp

theorem d8_queued_modComp (K : Nat → Bool) (s : St) (i : Nat) (f : Comp → Comp) (hi : i < s.comps.length) :
    queuedCnt K (s.modComp i f) + (s.comp i).eq.cntK K = queuedCnt K s + (f (s.comp i)).eq.cntK K := by
  unfold queuedCnt St.modComp St.comp
  exact d8_sum_modify (fun c => c.eq.cntK K) f dfltComp s.comps i hi

theorem d8_modComp_oor (s : St) (i : Nat) (f : Comp → Comp) (hi : ¬ i < s.comps.length) : s.modComp i f = s := by
  unfold St.modComp
  rw [d8_modify_oor f s.comps i hi]

theorem d8_dflt_cnt (K : Nat → Bool) : dfltComp.eq.cntK K = 0 := rfl

theorem d8_modComp_length (s : St) (i : Nat) (f : Comp → Comp) : (s.modComp i f).comps.length = s.comps.length := by
  simp [St.modComp]

/-! ## the predicate -/

/-- conservation for the class `K` with `B` events in flight between pop and `D`, and all roots valid -/
structure DBal (K : Nat → Bool) (B : Nat) (s : St) : Prop where
  roots : ∀ x, (s.comp x).root < s.comps.length
  bal : firedCnt K s.log = dispCnt K s.log + queuedCnt K s + B

namespace DBal
variable {K : Nat → Bool} {B : Nat} {t : St}

theorem of_eq {t' : St} (h : DBal K B t) (hc : t'.comps = t.comps) (hl : t'.log = t.log) : DBal K B t' := by
  refine ⟨?_, ?_⟩
  · intro x; have := h.roots x; unfold St.comp at this ⊢; rw [hc]; exact this
  · have := h.bal; unfold queuedCnt at this ⊢; rw [hc, hl]; exact this

theorem modEv (h : DBal K B t) (e : Nat) (f : Ev → Ev) : DBal K B (t.modEv e f) := h.of_eq rfl rfl
theorem modWait (h : DBal K B t) (w : Nat) (f : WaitSt → WaitSt) : DBal K B (t.modWait w f) := h.of_eq rfl rfl
theorem modTimer (h : DBal K B t) (i : Nat) (f : TimerSt → TimerSt) : DBal K B (t.modTimer i f) := h.of_eq rfl rfl
theorem setGen (h : DBal K B t) (g : Nat) (y : GenRec) : DBal K B (t.setGen g y) := h.of_eq rfl rfl
theorem addEv (h : DBal K B t) (e : Ev) : DBal K B (t.addEv e) := h.of_eq rfl rfl
theorem addH (h : DBal K B t) (y : Handler) : DBal K B (t.addH y) := h.of_eq rfl rfl
theorem addGen (h : DBal K B t) (g : GenRec) : DBal K B (t.addGen g) := h.of_eq rfl rfl
theorem addWait (h : DBal K B t) (w : WaitSt) : DBal K B (t.addWait w) := h.of_eq rfl rfl
theorem tick1 (h : DBal K B t) (d : Int) : DBal K B (t.tick1 d) := h.of_eq rfl rfl

/-- a log entry that is neither `F` nor `D` -/
theorem logE (h : DBal K B t) (y : Entry) (hy : d8isFire K y = false ∧ d8isDisp K y = false) :
    DBal K B (t.logE y) := by
  refine ⟨?_, ?_⟩
  · exact h.roots
  · have := h.bal
    unfold St.logE firedCnt dispCnt queuedCnt at *
    simp only [List.countP_cons, hy.1, hy.2]
    simpa using this

/-- `modComp` with a function that keeps the `eq` and `root` fields -/
theorem modComp (h : DBal K B t) (c : Nat) (f : Comp → Comp) (hf : ∀ y : Comp, (f y).eq = y.eq ∧ (f y).root = y.root) :
    DBal K B (t.modComp c f) := by
  by_cases hc : c < t.comps.length
  · refine ⟨?_, ?_⟩
    · intro x
      rw [St.q2_comp_modComp, d8_modComp_length]
      split
      · rw [(hf _).2]; exact h.roots x
      · exact h.roots x
    · have h1 := d8_queued_modComp K t c f hc
      rw [(hf _).1] at h1
      have := h.bal
      show firedCnt K t.log = dispCnt K t.log + queuedCnt K (t.modComp c f) + B
      omega
  · rw [d8_modComp_oor t c f hc]; exact h

/-- `modComp` with a function that keeps `root` and the number of `K` items (deque + heap) -/
theorem modCompCnt (h : DBal K B t) (c : Nat) (f : Comp → Comp)
    (hf : ∀ y : Comp, (f y).eq.cntK K = y.eq.cntK K ∧ (f y).root = y.root) :
    DBal K B (t.modComp c f) := by
  by_cases hc : c < t.comps.length
  · refine ⟨?_, ?_⟩
    · intro x
      rw [St.q2_comp_modComp, d8_modComp_length]
      split
      · rw [(hf _).2]; exact h.roots x
      · exact h.roots x
    · have h1 := d8_queued_modComp K t c f hc
      rw [(hf _).1] at h1
      have := h.bal
      show firedCnt K t.log = dispCnt K t.log + queuedCnt K (t.modComp c f) + B
      omega
  · rw [d8_modComp_oor t c f hc]; exact h

/-- `modComp` that sets a valid root and keeps `eq` -/
theorem modCompRoot (h : DBal K B t) (c : Nat) (f : Comp → Comp)
    (hf : ∀ y : Comp, (f y).eq = y.eq ∧ (f y).root < t.comps.length) :
    DBal K B (t.modComp c f) := by
  by_cases hc : c < t.comps.length
  · refine ⟨?_, ?_⟩
    · intro x
      rw [St.q2_comp_modComp, d8_modComp_length]
      split
      · exact (hf _).2
      · exact h.roots x
    · have h1 := d8_queued_modComp K t c f hc
      rw [(hf _).1] at h1
      have := h.bal
      show firedCnt K t.log = dispCnt K t.log + queuedCnt K (t.modComp c f) + B
      omega
  · rw [d8_modComp_oor t c f hc]; exact h

/-- the one place where a queue grows and an `F` is logged: `_fire` + `fireEvent`'s log entry -/
theorem appendLog (h : DBal K B t) (r e : Nat) (prio : Int) (n : Name) (ch : List Chan) (hr : r < t.comps.length) :
    DBal K B ((t.modComp r fun y => { y with eq := y.eq.append e prio }).logE (.fire e n ch prio)) := by
  refine ⟨?_, ?_⟩
  · intro x
    show ((t.modComp r _).comp x).root < (t.modComp r _).comps.length
    rw [St.q2_comp_modComp, d8_modComp_length]
    split
    · exact h.roots x
    · exact h.roots x
  · have h1 := d8_queued_modComp K t r (fun y => { y with eq := y.eq.append e prio }) hr
    have := h.bal
    show firedCnt K (Entry.fire e n ch prio :: t.log) =
      dispCnt K (Entry.fire e n ch prio :: t.log) + queuedCnt K (t.modComp r _) + B
    cases hk : K e <;>
      simp [firedCnt, dispCnt, d8isFire, d8isDisp, EQ.cntK, EQ.dequeCnt, EQ.heapCnt, EQ.append,
        List.countP_append, hk] at * <;> omega

/-- the `D` entry at the start of `_dispatcher` -/
theorem logDisp (e : Nat) (h : DBal K (B + (if K e then 1 else 0)) t) : DBal K B (t.logE (.disp e)) := by
  refine ⟨h.roots, ?_⟩
  have := h.bal
  show firedCnt K (Entry.disp e :: t.log) = dispCnt K (Entry.disp e :: t.log) + queuedCnt K t + B
  cases hk : K e <;> simp [firedCnt, dispCnt, d8isFire, d8isDisp, hk] at * <;> omega

end DBal

/-! ## the tactic -/

/-- one step of `d8t`; extended by `macro_rules` (later rules are tried first) -/
syntax "d8t1" : tactic
macro_rules | `(tactic| d8t1) => `(tactic| split)
macro_rules | `(tactic| d8t1) => `(tactic| with_reducible apply DBal.tick1)
macro_rules | `(tactic| d8t1) => `(tactic| with_reducible apply DBal.addWait)
macro_rules | `(tactic| d8t1) => `(tactic| with_reducible apply DBal.addGen)
macro_rules | `(tactic| d8t1) => `(tactic| with_reducible apply DBal.addH)
macro_rules | `(tactic| d8t1) => `(tactic| with_reducible apply DBal.addEv)
macro_rules | `(tactic| d8t1) => `(tactic| ((with_reducible apply DBal.logE); case hy => exact ⟨rfl, rfl⟩))
macro_rules | `(tactic| d8t1) => `(tactic| with_reducible apply DBal.setGen)
macro_rules | `(tactic| d8t1) => `(tactic| with_reducible apply DBal.modTimer)
macro_rules | `(tactic| d8t1) => `(tactic| with_reducible apply DBal.modWait)
macro_rules | `(tactic| d8t1) => `(tactic| with_reducible apply DBal.modEv)
macro_rules | `(tactic| d8t1) => `(tactic| ((with_reducible apply DBal.modComp); case hf => exact fun _ => ⟨rfl, rfl⟩))
macro_rules | `(tactic| d8t1) => `(tactic| with_reducible assumption)

/-- apply `d8t1` as long as it applies (committed choice: no backtracking) -/
macro "d8t" : tactic => `(tactic| repeat' d8t1)

/-- unfold a helper, inline its `let`s, then `d8t` -/
macro "d8t_unfold" ids:ident+ : tactic => `(tactic| (unfold $[$ids]*; (try dsimp only); d8t))

variable {K : Nat → Bool} {B : Nat}

theorem d8_fireContext_comps (s : St) (r e : Nat) : (s.fireContext r e).comps = s.comps := by
  unfold St.fireContext
  dsimp only
  repeat' split
  all_goals rfl

/-! ## helpers of `Pure.lean` -/

/-- a `foldl` of steps that each respect `DBal` respects `DBal` -/
theorem DBal.foldl {t : St} {α} (g : St → α → St) (hg : ∀ a y, DBal K B a → DBal K B (g a y)) (l : List α)
    (h : DBal K B t) : DBal K B (l.foldl g t) := by
  induction l generalizing t with
  | nil => exact h
  | cons y l ih => exact ih (hg _ _ h)

theorem DBal.addHandler {t : St} (h : DBal K B t) (y : Nat) : DBal K B (t.addHandler y) := by
  unfold St.addHandler
  dsimp only
  d8t1
  split
  · d8t
  · split
    · d8t
    · exact DBal.foldl _ (fun a n ha => by d8t) _ h
macro_rules | `(tactic| d8t1) => `(tactic| with_reducible apply DBal.addHandler)

theorem DBal.removeHandler {t : St} (h : DBal K B t) (y : Nat) (n : Option Name) :
    DBal K B ((t.removeHandler y n).2) := by
  d8t_unfold St.removeHandler
macro_rules | `(tactic| d8t1) => `(tactic| with_reducible apply DBal.removeHandler)

theorem DBal.fireContext {t : St} (h : DBal K B t) (r e : Nat) :
    DBal K B (t.fireContext r e) := by
  d8t_unfold St.fireContext
macro_rules | `(tactic| d8t1) => `(tactic| with_reducible apply DBal.fireContext)

theorem DBal.fireRaw {t : St} (h : DBal K B t) (self e : Nat) (chans : List Chan) (prio : Int) :
    DBal K B (t.fireRaw self e chans prio) := by
  unfold St.fireRaw
  dsimp only
  apply DBal.appendLog
  · d8t
  · rw [d8_fireContext_comps]
    exact h.roots self
macro_rules | `(tactic| d8t1) => `(tactic| with_reducible apply DBal.fireRaw)

theorem DBal.childEv {t : St} (h : DBal K B t) (p sfx : Nat) :
    DBal K B (t.childEv p sfx) := by
  d8t_unfold St.childEv
macro_rules | `(tactic| d8t1) => `(tactic| with_reducible apply DBal.childEv)

theorem DBal.fireChild {t : St} (h : DBal K B t) (self p sfx : Nat) (chans : List Chan) :
    DBal K B (t.fireChild self p sfx chans) := by
  d8t_unfold St.fireChild
macro_rules | `(tactic| d8t1) => `(tactic| with_reducible apply DBal.fireChild)

theorem DBal.inform {t : St} (h : DBal K B t) (e : Nat) (force : Bool) :
    DBal K B (t.inform e force) := by
  d8t_unfold St.inform
macro_rules | `(tactic| d8t1) => `(tactic| with_reducible apply DBal.inform)

theorem DBal.setValue {t : St} (h : DBal K B t) (e : Nat) (x : VItem) :
    DBal K B (t.setValue e x) := by
  d8t_unfold St.setValue
macro_rules | `(tactic| d8t1) => `(tactic| with_reducible apply DBal.setValue)

theorem DBal.fireTmplEv {t : St} (h : DBal K B t) (self : Nat) (ev : Ev) (target : Option Chan) (prio : Int) :
    DBal K B (t.fireTmplEv self ev target prio) := by
  d8t_unfold St.fireTmplEv
macro_rules | `(tactic| d8t1) => `(tactic| with_reducible apply DBal.fireTmplEv)

theorem DBal.effectDone1 {t : St} (h : DBal K B t) (r e : Nat) (announce : Bool) :
    DBal K B ((t.effectDone1 r e announce).2) := by
  d8t_unfold St.effectDone1
macro_rules | `(tactic| d8t1) => `(tactic| with_reducible apply DBal.effectDone1)

theorem DBal.eventDonePre {t : St} (h : DBal K B t) (r e : Nat) (err : Bool) :
    DBal K B ((t.eventDonePre r e err).2) := by
  d8t_unfold St.eventDonePre
macro_rules | `(tactic| d8t1) => `(tactic| with_reducible apply DBal.eventDonePre)

theorem DBal.registerTask {t : St} (h : DBal K B t) (c : Nat) (x : Task) :
    DBal K B (t.registerTask c x) := by
  d8t_unfold St.registerTask
macro_rules | `(tactic| d8t1) => `(tactic| with_reducible apply DBal.registerTask)

theorem DBal.unregisterTask {t : St} (h : DBal K B t) (c : Nat) (x : Task) :
    DBal K B (t.unregisterTask c x) := by
  d8t_unfold St.unregisterTask
macro_rules | `(tactic| d8t1) => `(tactic| with_reducible apply DBal.unregisterTask)

theorem DBal.reduceTimeLeft {t : St} (h : DBal K B t) (e : Nat) (d : Int) :
    DBal K B (t.reduceTimeLeft e d) := by
  d8t_unfold St.reduceTimeLeft
macro_rules | `(tactic| d8t1) => `(tactic| with_reducible apply DBal.reduceTimeLeft)

theorem DBal.registerFin {t : St} (h : DBal K B t) (c : Nat) :
    DBal K B (t.registerFin c) := by
  d8t_unfold St.registerFin
macro_rules | `(tactic| d8t1) => `(tactic| with_reducible apply DBal.registerFin)

theorem DBal.unregister {t : St} (h : DBal K B t) (c : Nat) :
    DBal K B (t.unregister c) := by
  d8t_unfold St.unregister
macro_rules | `(tactic| d8t1) => `(tactic| with_reducible apply DBal.unregister)

theorem DBal.prepUnregPre {t : St} (h : DBal K B t) (c : Nat) :
    DBal K B (t.prepUnregPre c) := by
  d8t_unfold St.prepUnregPre
macro_rules | `(tactic| d8t1) => `(tactic| with_reducible apply DBal.prepUnregPre)

theorem DBal.prepUnregFin {t : St} (h : DBal K B t) (c : Nat) :
    DBal K B (t.prepUnregFin c) := by
  d8t_unfold St.prepUnregFin
macro_rules | `(tactic| d8t1) => `(tactic| with_reducible apply DBal.prepUnregFin)

theorem DBal.actFire {t : St} (h : DBal K B t) (self i : Nat) (target : Option Chan) (prio : Int) (cancel : Bool) :
    DBal K B (t.actFire self i target prio cancel) := by
  d8t_unfold St.actFire
macro_rules | `(tactic| d8t1) => `(tactic| with_reducible apply DBal.actFire)

theorem DBal.actStopEv {t : St} (h : DBal K B t) (ev : Option Nat) :
    DBal K B (t.actStopEv ev) := by
  d8t_unfold St.actStopEv
macro_rules | `(tactic| d8t1) => `(tactic| with_reducible apply DBal.actStopEv)

theorem DBal.timerReset {t : St} (h : DBal K B t) (i : Nat) :
    DBal K B (t.timerReset i) := by
  d8t_unfold St.timerReset
macro_rules | `(tactic| d8t1) => `(tactic| with_reducible apply DBal.timerReset)

theorem DBal.timerCreate {t : St} (h : DBal K B t) (i : Nat) :
    DBal K B (t.timerCreate i) := by
  d8t_unfold St.timerCreate
macro_rules | `(tactic| d8t1) => `(tactic| with_reducible apply DBal.timerCreate)

theorem DBal.timerTick {t : St} (h : DBal K B t) (i e : Nat) :
    DBal K B (t.timerTick i e) := by
  d8t_unfold St.timerTick
macro_rules | `(tactic| d8t1) => `(tactic| with_reducible apply DBal.timerTick)

theorem DBal.startWait {t : St} (h : DBal K B t) (w : Nat) :
    DBal K B (t.startWait w) := by
  d8t_unfold St.startWait
macro_rules | `(tactic| d8t1) => `(tactic| with_reducible apply DBal.startWait)

/-! ## pure pieces of `Step.lean` -/

theorem DBal.stopBegin {t : St} (h : DBal K B t) (c : Nat) :
    DBal K B (t.stopBegin c) := by
  d8t_unfold St.stopBegin
macro_rules | `(tactic| d8t1) => `(tactic| with_reducible apply DBal.stopBegin)

theorem DBal.stopSetCode {t : St} (h : DBal K B t) (r : Nat) (code : Code) :
    DBal K B (t.stopSetCode r code) := by
  d8t_unfold St.stopSetCode
macro_rules | `(tactic| d8t1) => `(tactic| with_reducible apply DBal.stopSetCode)

theorem DBal.genCall {t : St} (h : DBal K B t) (owner i : Nat) (target : Option Chan) (timeout : Option Nat) :
    DBal K B (t.genCall owner i target timeout) := by
  d8t_unfold St.genCall
macro_rules | `(tactic| d8t1) => `(tactic| with_reducible apply DBal.genCall)

theorem DBal.genWait {t : St} (h : DBal K B t) (owner : Nat) (name : Name) (target : Option Chan) (timeout : Option Nat) :
    DBal K B (t.genWait owner name target timeout) := by
  d8t_unfold St.genWait
macro_rules | `(tactic| d8t1) => `(tactic| with_reducible apply DBal.genWait)

theorem DBal.resumeGenPre {t : St} (h : DBal K B t) (g : Nat) (silent : Bool) :
    DBal K B (t.resumeGenPre g silent) := by
  d8t_unfold St.resumeGenPre
macro_rules | `(tactic| d8t1) => `(tactic| with_reducible apply DBal.resumeGenPre)

theorem DBal.stopIteration {t : St} (h : DBal K B t) (r : Nat) (x : Task) :
    DBal K B ((t.stopIteration r x).2) := by
  d8t_unfold St.stopIteration
macro_rules | `(tactic| d8t1) => `(tactic| with_reducible apply DBal.stopIteration)

theorem DBal.fireException {t : St} (h : DBal K B t) (r e : Nat) :
    DBal K B (t.fireException r e) := by
  d8t_unfold St.fireException
macro_rules | `(tactic| d8t1) => `(tactic| with_reducible apply DBal.fireException)

theorem DBal.errorBranch {t : St} (h : DBal K B t) (r : Nat) (x : Task) (resumed : Bool) :
    DBal K B ((t.errorBranch r x resumed).2) := by
  d8t_unfold St.errorBranch
macro_rules | `(tactic| d8t1) => `(tactic| with_reducible apply DBal.errorBranch)

theorem DBal.ownSub {t : St} (h : DBal K B t) (r : Nat) (x : Task) (w : Nat) :
    DBal K B (t.ownSub r x w) := by
  d8t_unfold St.ownSub
macro_rules | `(tactic| d8t1) => `(tactic| with_reducible apply DBal.ownSub)

theorem DBal.setValueOpt {t : St} (h : DBal K B t) (e : Nat) (v : Option Nat) :
    DBal K B (t.setValueOpt e v) := by
  d8t_unfold St.setValueOpt
macro_rules | `(tactic| d8t1) => `(tactic| with_reducible apply DBal.setValueOpt)

theorem DBal.parentSub {t : St} (h : DBal K B t) (r : Nat) (x : Task) (p w2 : Nat) (viaThrow : Bool) :
    DBal K B (t.parentSub r x p w2 viaThrow) := by
  d8t_unfold St.parentSub
macro_rules | `(tactic| d8t1) => `(tactic| with_reducible apply DBal.parentSub)

theorem DBal.parentPlain {t : St} (h : DBal K B t) (r : Nat) (x : Task) (p : Nat) (v : Option Nat) (viaThrow : Bool) :
    DBal K B (t.parentPlain r x p v viaThrow) := by
  d8t_unfold St.parentPlain
macro_rules | `(tactic| d8t1) => `(tactic| with_reducible apply DBal.parentPlain)

theorem DBal.onWaitEvent {t : St} (h : DBal K B t) (w e : Nat) :
    DBal K B ((t.onWaitEvent w e).2) := by
  d8t_unfold St.onWaitEvent
macro_rules | `(tactic| d8t1) => `(tactic| with_reducible apply DBal.onWaitEvent)

theorem DBal.onWaitDone {t : St} (h : DBal K B t) (w e : Nat) :
    DBal K B ((t.onWaitDone w e).2) := by
  d8t_unfold St.onWaitDone
macro_rules | `(tactic| d8t1) => `(tactic| with_reducible apply DBal.onWaitDone)

theorem DBal.onWaitTick {t : St} (h : DBal K B t) (w : Nat) :
    DBal K B ((t.onWaitTick w).2) := by
  d8t_unfold St.onWaitTick
macro_rules | `(tactic| d8t1) => `(tactic| with_reducible apply DBal.onWaitTick)

theorem DBal.onFallbackGE {t : St} (h : DBal K B t) (e : Nat) :
    DBal K B ((t.onFallbackGE e).2) := by
  d8t_unfold St.onFallbackGE
macro_rules | `(tactic| d8t1) => `(tactic| with_reducible apply DBal.onFallbackGE)

theorem DBal.computeHandlers {t : St} (h : DBal K B t) (r : Nat) (name : Name) (chans : List Chan) :
    DBal K B ((t.computeHandlers r name chans).2) := by
  d8t_unfold St.computeHandlers
macro_rules | `(tactic| d8t1) => `(tactic| with_reducible apply DBal.computeHandlers)

theorem DBal.dispComplete {t : St} (h : DBal K B t) (e : Nat) (ev : Ev) :
    DBal K B (t.dispComplete e ev) := by
  d8t_unfold St.dispComplete
macro_rules | `(tactic| d8t1) => `(tactic| with_reducible apply DBal.dispComplete)

theorem DBal.cacheRefresh {t : St} (h : DBal K B t) (r : Nat) :
    DBal K B (t.cacheRefresh r) := by
  d8t_unfold St.cacheRefresh
macro_rules | `(tactic| d8t1) => `(tactic| with_reducible apply DBal.cacheRefresh)

theorem DBal.lookupHandlers {t : St} (h : DBal K B t) (r : Nat) (name : Name) (chans : List Chan) :
    DBal K B ((t.lookupHandlers r name chans).2) := by
  d8t_unfold St.lookupHandlers
macro_rules | `(tactic| d8t1) => `(tactic| with_reducible apply DBal.lookupHandlers)

theorem DBal.dispGE {t : St} (h : DBal K B t) (r e remaining : Nat) (name : Name) :
    DBal K B (t.dispGE r e remaining name) := by
  d8t_unfold St.dispGE
macro_rules | `(tactic| d8t1) => `(tactic| with_reducible apply DBal.dispGE)

theorem DBal.handlerRaised {t : St} (h : DBal K B t) (r e : Nat) :
    DBal K B (t.handlerRaised r e) := by
  d8t_unfold St.handlerRaised
macro_rules | `(tactic| d8t1) => `(tactic| with_reducible apply DBal.handlerRaised)

theorem DBal.applyValue {t : St} (h : DBal K B t) (r e : Nat) (value : Outcome) :
    DBal K B (t.applyValue r e value) := by
  d8t_unfold St.applyValue
macro_rules | `(tactic| d8t1) => `(tactic| with_reducible apply DBal.applyValue)

theorem DBal.geTasksCheck {t : St} (h : DBal K B t) (r e : Nat) :
    DBal K B (t.geTasksCheck r e) := by
  d8t_unfold St.geTasksCheck
macro_rules | `(tactic| d8t1) => `(tactic| with_reducible apply DBal.geTasksCheck)

theorem DBal.tickGenerate {t : St} (h : DBal K B t) (c : Nat) :
    DBal K B (t.tickGenerate c) := by
  d8t_unfold St.tickGenerate
macro_rules | `(tactic| d8t1) => `(tactic| with_reducible apply DBal.tickGenerate)

theorem DBal.runBegin {t : St} (h : DBal K B t) (c : Nat) :
    DBal K B (t.runBegin c) := by
  d8t_unfold St.runBegin
macro_rules | `(tactic| d8t1) => `(tactic| with_reducible apply DBal.runBegin)

theorem DBal.runEnd {t : St} (h : DBal K B t) (c : Nat) :
    DBal K B ((t.runEnd c).2) := by
  d8t_unfold St.runEnd
macro_rules | `(tactic| d8t1) => `(tactic| with_reducible apply DBal.runEnd)

theorem DBal.actStep {t : St} (h : DBal K B t) (ctx : HCtx) (a : Act) : DBal K B (actStep t ctx a).st := by
  cases a <;> (unfold CV.Core.actStep; (try dsimp only); d8t)
macro_rules | `(tactic| d8t1) => `(tactic| with_reducible apply DBal.actStep)


theorem DBal.dispatchPre {t : St} (r e remaining : Nat) (h : DBal K (B + (if K e then 1 else 0)) t) :
    DBal K B ((t.dispatchPre r e remaining).2) := by
  have h0 := DBal.logDisp e h
  unfold St.dispatchPre
  dsimp only
  d8t

theorem d8_begin_cnt (K : Nat → Bool) (q : EQ) : q.begin.cntK K = q.cntK K := by
  unfold EQ.begin
  split
  · simp only [EQ.cntK, EQ.dequeCnt, EQ.heapCnt, List.countP_append, List.countP_nil]; omega
  · rfl

theorem DBal.flushBegin {t : St} (h : DBal K B t) (r : Nat) : DBal K B (t.flushBegin r) := by
  unfold St.flushBegin
  dsimp only
  apply DBal.modCompCnt
  · d8t
  · intro y; exact ⟨d8_begin_cnt K y.eq, rfl⟩
macro_rules | `(tactic| d8t1) => `(tactic| with_reducible apply DBal.flushBegin)

theorem DBal.updateRootAll : ∀ (fuel : Nat) (todo : List Nat) (root : Nat) (t : St),
    DBal K B t → root < t.comps.length → DBal K B (St.updateRootAll fuel todo root t) := by
  intro fuel
  induction fuel with
  | zero => intro todo root t h _; simpa [St.updateRootAll] using h
  | succ n ih =>
    intro todo root t h hr
    cases todo with
    | nil => simpa [St.updateRootAll] using h
    | cons x rest =>
      simp only [St.updateRootAll]
      apply ih
      · exact h.modCompRoot _ _ (fun y => ⟨rfl, hr⟩)
      · rw [d8_modComp_length]; exact hr

theorem d8_updateRootAll_oor (n x root : Nat) (t : St) (hx : ¬ x < t.comps.length) :
    St.updateRootAll (n + 1) [x] root t = t := by
  simp only [St.updateRootAll]
  rw [d8_modComp_oor t x _ hx, St.q2_comp_oor t x hx]
  cases n <;> rfl


/-! ## `register`: `drainFrom` and the new root -/

theorem d8_roots_modComp (t : St) (c : Nat) (f : Comp → Comp) (h : ∀ x, (t.comp x).root < t.comps.length)
    (hf : ∀ y : Comp, (f y).root = y.root) : ∀ x, ((t.modComp c f).comp x).root < (t.modComp c f).comps.length := by
  intro x
  rw [St.q2_comp_modComp, d8_modComp_length]
  split
  · rw [hf]; exact h x
  · exact h x

theorem d8_drain_bal (K : Nat → Bool) (t : St) (r c : Nat) (f1 f2 : Comp → Comp) (hrc : r ≠ c) (hr : r < t.comps.length)
    (h1 : (f1 (t.comp r)).eq.cntK K + (f2 (t.comp c)).eq.cntK K = (t.comp r).eq.cntK K + (t.comp c).eq.cntK K)
    (hoor : ¬ c < t.comps.length → (f1 (t.comp r)).eq.cntK K = (t.comp r).eq.cntK K) :
    queuedCnt K ((t.modComp r f1).modComp c f2) = queuedCnt K t := by
  have q1 := d8_queued_modComp K t r f1 hr
  by_cases hc : c < t.comps.length
  · have q2 := d8_queued_modComp K (t.modComp r f1) c f2 (by rw [d8_modComp_length]; exact hc)
    rw [St.q2_comp_modComp, if_neg (by intro hh; exact hrc hh.1)] at q2
    omega
  · rw [d8_modComp_oor _ c _ (by rw [d8_modComp_length]; exact hc)]
    have := hoor hc
    omega

/-- `drainFrom` in `register`: the deque of `c` is appended to the deque of `r ≠ c` and cleared -/
theorem DBal.drain {t : St} (h : DBal K B t) (r c : Nat) (hrc : r ≠ c) (hr : r < t.comps.length) :
    DBal K B ((t.modComp r fun x => { x with eq := ((t.comp r).eq.drainFrom (t.comp c).eq).1, dirty := true }).modComp c
      fun x => { x with eq := ((t.comp r).eq.drainFrom (t.comp c).eq).2 }) := by
  refine ⟨?_, ?_⟩
  · exact d8_roots_modComp _ _ _ (d8_roots_modComp _ _ _ h.roots (fun _ => rfl)) (fun _ => rfl)
  · have hb := h.bal
    show firedCnt K t.log = dispCnt K t.log + queuedCnt K _ + B
    rw [d8_drain_bal K t r c _ _ hrc hr]
    · exact hb
    · simp only [EQ.drainFrom, EQ.cntK, EQ.dequeCnt, EQ.heapCnt, List.countP_append, List.countP_nil]
      omega
    · intro hc
      rw [St.q2_comp_oor t c hc]
      simp [EQ.drainFrom, EQ.cntK, EQ.dequeCnt, EQ.heapCnt, dfltComp]

theorem DBal.registerPre {t : St} (h : DBal K B t) (c p : Nat) : DBal K B ((t.registerPre c p).2) := by
  unfold St.registerPre
  dsimp only
  have h1 : DBal K B (t.modComp c fun x => { x with parent := p, root := (t.comp p).root }) :=
    h.modCompRoot _ _ (fun y => ⟨rfl, h.roots p⟩)
  split
  · split
    · exact h1
    · dsimp only
      split
      · rename_i hne
        apply DBal.drain
        · d8t
        · simpa using hne
        · rw [d8_modComp_length]; split <;> simp only [d8_modComp_length] <;> exact h.roots p
      · d8t
  · exact h1
macro_rules | `(tactic| d8t1) => `(tactic| with_reducible apply DBal.registerPre)

end CV.Core

import CV.Proofs.InvTasksArms
/-
waitingHandlers accounting, part 10 (run level): DISPATCH CONTEXTS.  A dispatch of `e` lives on the stack as exactly one
frame `.hLoop / .hAfter / .hApply / .dispFin / .eventDone r e …` at any time (`Frame.t46_cw e` = 1 for these).  Every arm
of `step` pushes at most as many contexts of `e` as its own frame is a SOURCE for (`Frame.t46_sw e`: the context frames
themselves, `.dispatcher r e`, and the task frames of a task of `e`, whose exit may call `_eventDone(e)`), and the frames
`.hLoop / .dispFin / .eventDone` only ever sit on top of the stack.
-/
namespace CV.Core

/-- context weight: 1 for a frame that is the dispatch context of `e` -/
def Frame.t46_cw (e : Nat) : Frame → Nat
  | .hLoop _ e' _ _ _ => if e' = e then 1 else 0
  | .hAfter _ e' _ _ _ => if e' = e then 1 else 0
  | .hApply _ e' _ _ _ => if e' = e then 1 else 0
  | .dispFin _ e' _ => if e' = e then 1 else 0
  | .eventDone _ e' _ => if e' = e then 1 else 0
  | _ => 0

/-- source weight: 1 for a frame whose step may create (or keep) a context of `e` -/
def Frame.t46_sw (e : Nat) : Frame → Nat
  | .hLoop _ e' _ _ _ => if e' = e then 1 else 0
  | .hAfter _ e' _ _ _ => if e' = e then 1 else 0
  | .hApply _ e' _ _ _ => if e' = e then 1 else 0
  | .dispFin _ e' _ => if e' = e then 1 else 0
  | .eventDone _ e' _ => if e' = e then 1 else 0
  | .dispatcher _ e' _ => if e' = e then 1 else 0
  | .ptBody _ t => if t.e = e then 1 else 0
  | .ptOwn _ t => if t.e = e then 1 else 0
  | .ptParent _ t _ _ => if t.e = e then 1 else 0
  | _ => 0

def Frame.t46_topOnly : Frame → Bool
  | .hLoop .. => true
  | .dispFin .. => true
  | .eventDone .. => true
  | _ => false

def t46_ctx (e : Nat) (k : List Frame) : Nat := (k.map (Frame.t46_cw e)).sum

@[simp] theorem t46_ctx_nil (e : Nat) : t46_ctx e [] = 0 := rfl
@[simp] theorem t46_ctx_cons (e : Nat) (f : Frame) (k : List Frame) : t46_ctx e (f :: k) = f.t46_cw e + t46_ctx e k := by
  simp [t46_ctx]
theorem t46_ctx_append (e : Nat) (a b : List Frame) : t46_ctx e (a ++ b) = t46_ctx e a + t46_ctx e b := by
  simp [t46_ctx]

theorem Frame.t46_cw_le_sw (e : Nat) (f : Frame) : f.t46_cw e ≤ f.t46_sw e := by
  cases f <;> simp [Frame.t46_cw, Frame.t46_sw]

def T46CtxOk (b : Nat → Nat) (k : List Frame) (c' : Cfg) : Prop :=
  ∃ fs, c'.stack = fs ++ k ∧ (∀ g ∈ fs.tail, g.t46_topOnly = false) ∧ ∀ e, t46_ctx e fs ≤ b e

theorem t46_actStep_call_cw (s : St) (ctx : HCtx) (a : Act) (f : Frame) (h : (actStep s ctx a).kind = .call f) (e : Nat) :
    f.t46_cw e = 0 := by
  cases a <;> simp only [actStep] at h <;> first | (cases h; rfl) | (split at h <;> cases h) | cases h

macro "t46c_leaf" : tactic =>
  `(tactic| first
    | exact ⟨[], rfl, fun _ h => by simp at h, fun _ => Nat.zero_le _⟩
    | (refine ⟨_, rfl, ?_, ?_⟩
       · first
         | (simp [Frame.t46_topOnly]; done)
         | (intro g hg; simp at hg)
       · intro e
         first
         | (simp [Frame.t46_cw, Frame.t46_sw]; done)
         | (simp [Frame.t46_cw, Frame.t46_sw]; split <;> omega)))

macro "t46c" ids:ident+ : tactic =>
  `(tactic| (unfold T46CtxOk $[$ids]*; (try dsimp only); (repeat' split); all_goals t46c_leaf))

theorem Cfg.pop_t46c (b : Nat → Nat) (c : Cfg) (k : List Frame) (s : St) : T46CtxOk b k (c.pop k s) :=
  ⟨[], rfl, fun _ h => by simp at h, fun _ => Nat.zero_le _⟩

theorem Cfg.effectDone_t46c (c : Cfg) (k : List Frame) (r e : Nat) (a : Bool) :
    T46CtxOk (fun x => (Frame.effectDone r e a).t46_sw x) k (c.effectDone k r e a) := by t46c Cfg.effectDone
theorem Cfg.eventDone_t46c (c : Cfg) (k : List Frame) (r e : Nat) (a : Bool) :
    T46CtxOk (fun x => (Frame.eventDone r e a).t46_sw x) k (c.eventDone k r e a) := by t46c Cfg.eventDone
theorem Cfg.updateRoot_t46c (c : Cfg) (k : List Frame) (todo : List Nat) (root : Nat) :
    T46CtxOk (fun x => (Frame.updateRoot todo root).t46_sw x) k (c.updateRoot k todo root) := by t46c Cfg.updateRoot
theorem Cfg.register_t46c (c : Cfg) (k : List Frame) (x p : Nat) :
    T46CtxOk (fun y => (Frame.register x p).t46_sw y) k (c.register k x p) := by t46c Cfg.register
theorem Cfg.registerFin_t46c (c : Cfg) (k : List Frame) (x : Nat) :
    T46CtxOk (fun y => (Frame.registerFin x).t46_sw y) k (c.registerFin k x) := by t46c Cfg.registerFin
theorem Cfg.prepUnregFin_t46c (c : Cfg) (k : List Frame) (x : Nat) :
    T46CtxOk (fun y => (Frame.prepUnregFin x).t46_sw y) k (c.prepUnregFin k x) := by t46c Cfg.prepUnregFin
theorem Cfg.stopMgr_t46c (c : Cfg) (k : List Frame) (x : Nat) (code : Code) :
    T46CtxOk (fun y => (Frame.stopMgr x code).t46_sw y) k (c.stopMgr k x code) := by t46c Cfg.stopMgr
theorem Cfg.ticks_t46c (c : Cfg) (k : List Frame) (x n : Nat) :
    T46CtxOk (fun y => (Frame.ticks x n).t46_sw y) k (c.ticks k x n) := by t46c Cfg.ticks
theorem Cfg.stopFin_t46c (c : Cfg) (k : List Frame) (code : Code) :
    T46CtxOk (fun y => (Frame.stopFin code).t46_sw y) k (c.stopFin k code) := by t46c Cfg.stopFin
theorem Cfg.timerNew_t46c (c : Cfg) (k : List Frame) (t : Nat) :
    T46CtxOk (fun y => (Frame.timerNew t).t46_sw y) k (c.timerNew k t) := by t46c Cfg.timerNew
theorem Cfg.doFin_t46c (c : Cfg) (k : List Frame) (x : Nat) :
    T46CtxOk (fun y => (Frame.doFin x).t46_sw y) k (c.doFin k x) := by t46c Cfg.doFin
theorem Cfg.drainQ_t46c (c : Cfg) (k : List Frame) (x : Nat) :
    T46CtxOk (fun y => (Frame.drainQ x).t46_sw y) k (c.drainQ k x) := by t46c Cfg.drainQ
theorem Cfg.processTask_t46c (c : Cfg) (k : List Frame) (r : Nat) (t : Task) :
    T46CtxOk (fun y => (Frame.processTask r t).t46_sw y) k (c.processTask k r t) := by t46c Cfg.processTask
theorem Cfg.ptFin_t46c (c : Cfg) (k : List Frame) (r : Nat) (h : Option Nat) :
    T46CtxOk (fun y => (Frame.ptFin r h).t46_sw y) k (c.ptFin k r h) := by t46c Cfg.ptFin
theorem Cfg.dispatcher_t46c (c : Cfg) (k : List Frame) (r e rem : Nat) :
    T46CtxOk (fun y => (Frame.dispatcher r e rem).t46_sw y) k (c.dispatcher k r e rem) := by t46c Cfg.dispatcher
theorem Cfg.hLoop_t46c (c : Cfg) (k : List Frame) (r e : Nat) (hs : List Nat) (err : Bool) (st : Outcome) :
    T46CtxOk (fun y => (Frame.hLoop r e hs err st).t46_sw y) k (c.hLoop k r e hs err st) := by t46c Cfg.hLoop
theorem Cfg.invoke_t46c (c : Cfg) (k : List Frame) (r h e : Nat) :
    T46CtxOk (fun y => (Frame.invoke r h e).t46_sw y) k (c.invoke k r h e) := by t46c Cfg.invoke Cfg.invokeUser
theorem Cfg.invokeFin_t46c (c : Cfg) (k : List Frame) (e h : Nat) :
    T46CtxOk (fun y => (Frame.invokeFin e h).t46_sw y) k (c.invokeFin k e h) := by t46c Cfg.invokeFin
theorem Cfg.hAfter_t46c (c : Cfg) (k : List Frame) (r e : Nat) (rest : List Nat) (err : Bool) (st : Outcome) :
    T46CtxOk (fun y => (Frame.hAfter r e rest err st).t46_sw y) k (c.hAfter k r e rest err st) := by t46c Cfg.hAfter
theorem Cfg.hApply_t46c (c : Cfg) (k : List Frame) (r e : Nat) (rest : List Nat) (err : Bool) (v : Outcome) :
    T46CtxOk (fun y => (Frame.hApply r e rest err v).t46_sw y) k (c.hApply k r e rest err v) := by t46c Cfg.hApply
theorem Cfg.dispFin_t46c (c : Cfg) (k : List Frame) (r e : Nat) (err : Bool) :
    T46CtxOk (fun y => (Frame.dispFin r e err).t46_sw y) k (c.dispFin k r e err) := by t46c Cfg.dispFin
theorem Cfg.dispatchLoop_t46c (c : Cfg) (k : List Frame) (r : Nat) :
    T46CtxOk (fun y => (Frame.dispatchLoop r).t46_sw y) k (c.dispatchLoop k r) := by t46c Cfg.dispatchLoop
theorem Cfg.flush_t46c (c : Cfg) (k : List Frame) (x : Nat) :
    T46CtxOk (fun y => (Frame.flush x).t46_sw y) k (c.flush k x) := by t46c Cfg.flush
theorem Cfg.flushFin_t46c (c : Cfg) (k : List Frame) (r : Nat) (old : Bool) :
    T46CtxOk (fun y => (Frame.flushFin r old).t46_sw y) k (c.flushFin k r old) := by t46c Cfg.flushFin
theorem Cfg.tick_t46c (c : Cfg) (k : List Frame) (x : Nat) :
    T46CtxOk (fun y => (Frame.tick x).t46_sw y) k (c.tick k x) := by t46c Cfg.tick
theorem Cfg.taskLoop_t46c (c : Cfg) (k : List Frame) (x : Nat) (ts : List Task) :
    T46CtxOk (fun y => (Frame.taskLoop x ts).t46_sw y) k (c.taskLoop k x ts) := by t46c Cfg.taskLoop
theorem Cfg.tickFin_t46c (c : Cfg) (k : List Frame) (x : Nat) (old : Bool) :
    T46CtxOk (fun y => (Frame.tickFin x old).t46_sw y) k (c.tickFin k x old) := by t46c Cfg.tickFin
theorem Cfg.tickGen_t46c (c : Cfg) (k : List Frame) (x : Nat) :
    T46CtxOk (fun y => (Frame.tickGen x).t46_sw y) k (c.tickGen k x) := by t46c Cfg.tickGen
theorem Cfg.run_t46c (c : Cfg) (k : List Frame) (x : Nat) :
    T46CtxOk (fun y => (Frame.run x).t46_sw y) k (c.run k x) := by t46c Cfg.run
theorem Cfg.runLoop_t46c (c : Cfg) (k : List Frame) (x : Nat) :
    T46CtxOk (fun y => (Frame.runLoop x).t46_sw y) k (c.runLoop k x) := by t46c Cfg.runLoop
theorem Cfg.runFin_t46c (c : Cfg) (k : List Frame) (x : Nat) :
    T46CtxOk (fun y => (Frame.runFin x).t46_sw y) k (c.runFin k x) := by t46c Cfg.runFin
theorem Cfg.runRethrow_t46c (c : Cfg) (k : List Frame) (ex : Exn) :
    T46CtxOk (fun y => (Frame.runRethrow ex).t46_sw y) k (c.runRethrow k ex) := by t46c Cfg.runRethrow

theorem Cfg.runCatchExn_t46c (c : Cfg) (k : List Frame) (x : Nat) (ex : Exn) :
    T46CtxOk (fun _ => 0) k (c.runCatchExn k x ex) := by
  unfold Cfg.runCatchExn
  split
  · exact ⟨[.tick x, .drainQ x, .runRethrow _], rfl, by simp [Frame.t46_topOnly], fun e => by simp [Frame.t46_cw]⟩
  · exact Cfg.pop_t46c ..

/-- the exits of `processTask`: at most one context, of the task's event -/
theorem Cfg.contStop_t46c (c : Cfg) (k : List Frame) (s : St) (r : Nat) (t : Task) :
    T46CtxOk (fun y => if t.e = y then 1 else 0) k (c.contStop k s r t) := by t46c Cfg.contStop
theorem Cfg.contError_t46c (c : Cfg) (k : List Frame) (s : St) (r : Nat) (t : Task) (b : Bool) :
    T46CtxOk (fun y => if t.e = y then 1 else 0) k (c.contError k s r t b) := by t46c Cfg.contError

macro "t46c_leaf2" : tactic =>
  `(tactic| first
    | exact Cfg.contStop_t46c ..
    | exact Cfg.contError_t46c ..
    | t46c_leaf
    | (refine ⟨_, rfl, ?_, ?_⟩
       · first
         | (simp [Frame.t46_topOnly]; done)
         | (intro g hg; simp at hg)
       · intro e
         simp only [t46_ctx_cons, t46_ctx_nil, t46_actStep_call_cw _ _ _ _ (by assumption) e]
         simp [Frame.t46_cw]))

macro "t46c2" ids:ident+ : tactic =>
  `(tactic| (unfold $[$ids]*; (try dsimp only); (repeat' split); all_goals (first | t46c_leaf2 | (unfold T46CtxOk; t46c_leaf2))))

theorem Cfg.acts_t46c (c : Cfg) (k : List Frame) (ctx : HCtx) (prog : Prog) :
    T46CtxOk (fun _ => 0) k (c.acts k ctx prog) := by t46c2 Cfg.acts
theorem Cfg.stepGen_t46c (c : Cfg) (k : List Frame) (g : Nat) :
    T46CtxOk (fun _ => 0) k (c.stepGen k g) := by t46c2 Cfg.stepGen
theorem Cfg.ptBodyWait_t46c (c : Cfg) (k : List Frame) (r : Nat) (t : Task) (w : Nat) :
    T46CtxOk (fun y => if t.e = y then 1 else 0) k (c.ptBodyWait k r t w) := by t46c2 Cfg.ptBodyWait
theorem Cfg.ptBodyExc_t46c (c : Cfg) (k : List Frame) (r : Nat) (t : Task) (w : Nat) (fired : Bool) :
    T46CtxOk (fun y => if t.e = y then 1 else 0) k (c.ptBodyExc k r t w fired) := by t46c2 Cfg.ptBodyExc
theorem Cfg.ptBody_t46c (c : Cfg) (k : List Frame) (r : Nat) (t : Task) :
    T46CtxOk (fun y => if t.e = y then 1 else 0) k (c.ptBody k r t) := by
  unfold Cfg.ptBody
  split
  · unfold T46CtxOk; t46c_leaf
  · exact Cfg.ptBodyWait_t46c ..
  · exact Cfg.ptBodyExc_t46c ..
  · exact Cfg.contStop_t46c ..
  · split
    · exact Cfg.contStop_t46c ..
    · exact Cfg.pop_t46c ..
theorem Cfg.ptOwn_t46c (c : Cfg) (k : List Frame) (r : Nat) (t : Task) :
    T46CtxOk (fun y => if t.e = y then 1 else 0) k (c.ptOwn k r t) := by t46c2 Cfg.ptOwn
theorem Cfg.ptParent_t46c (c : Cfg) (k : List Frame) (r : Nat) (t : Task) (p : Nat) (v : Bool) :
    T46CtxOk (fun y => if t.e = y then 1 else 0) k (c.ptParent k r t p v) := by t46c2 Cfg.ptParent

end CV.Core

import CV.Proofs.InvOrderLog
/-
C02, machine level, second round, part 2: the PASS ORDER on the machine's own log.

`passOrderOk` (CV/Model/Core/LogSpec.lean) replays the log with one abstract queue: `F` entries
append to `pending`, a `B` entry starts a pass (snapshot sorted by priority, then fire order), every
`D` entry must be the head of what is left of the pass.  This file pushes the relation

  `O2PR s t`   under the single-root hypothesis `O2SR` (every component's root is component 0):
               between `s` and `t` the queue of component 0 received exactly the appends
               `(e, prio)` of a list `fires`, and the replay state `o2pass` received exactly the
               corresponding `F` entries (no `B`, no `D`)

through all primitives / helpers / arms of `step` (4-layer pattern of CoreStep.lean, tactic
`o2pt`).  The arms `.flush`, `.dispatchLoop`, `.dispatcher`, `.register`, `.invoke` are analysed
in CV/Proofs/InvOrderPass.lean.
-/
namespace CV.Core

/-! ## the replay state of the log -/

/-- `passStep` folded over the log in chronological order -/
def o2pass (s : St) : PassSt := s.log.reverse.foldl passStep {}

theorem o2pass_logE (s : St) (x : Entry) : o2pass (s.logE x) = passStep (o2pass s) x := by
  unfold o2pass St.logE
  simp [List.foldl_append]

/-- entries `passStep` ignores -/
def Entry.o2pneutral : Entry → Bool
  | .fire .. => false
  | .batch _ => false
  | .disp _ => false
  | _ => true

theorem o2_passStep_neutral (P : PassSt) (x : Entry) (h : x.o2pneutral = true) : passStep P x = P := by
  cases x <;> first | rfl | (simp [Entry.o2pneutral] at h)

/-- what an `F` entry does to the replay state -/
def pfire (P : PassSt) (f : Nat × Int) : PassSt :=
  { P with pending := P.pending ++ [⟨f.2, P.count, f.1⟩], count := P.count + 1 }

theorem o2_passStep_fire (P : PassSt) (e : Nat) (n : Name) (ch : List Chan) (p : Int) :
    passStep P (.fire e n ch p) = pfire P (e, p) := rfl

/-- single root: there is a component 0 and it is everybody's root -/
structure O2SR (s : St) : Prop where
  pos : 0 < s.comps.length
  root : ∀ x, (s.comp x).root = 0

structure O2PFires (s t : St) (fires : List (Nat × Int)) : Prop where
  eq : (t.comp 0).eq = (runOps (s.comp 0).eq (fires.map fun f => QOp.app f.1 f.2)).1
  pass : o2pass t = fires.foldl pfire (o2pass s)

def O2PR (s t : St) : Prop := O2SR s → O2SR t ∧ ∃ fires, O2PFires s t fires

namespace O2PR

theorem refl (s : St) : O2PR s s := fun h => ⟨h, [], rfl, rfl⟩

theorem trans {a b c : St} (h1 : O2PR a b) (h2 : O2PR b c) : O2PR a c := by
  intro ha
  obtain ⟨hb, f1, e1, p1⟩ := h1 ha
  obtain ⟨hc, f2, e2, p2⟩ := h2 hb
  refine ⟨hc, f1 ++ f2, ?_, ?_⟩
  · rw [List.map_append, q2_runOps_append, ← e1]; exact e2
  · rw [List.foldl_append, ← p1]; exact p2

/-- a change of the state that leaves components and log alone -/
theorem of_same {t t' : St} (hc : t'.comps = t.comps) (hl : t'.log = t.log) : O2PR t t' := by
  have hcomp : t'.comp = t.comp := by funext c; unfold St.comp; rw [hc]
  intro ht
  refine ⟨⟨by rw [hc]; exact ht.pos, fun x => by rw [hcomp]; exact ht.root x⟩, [], ?_, ?_⟩
  · rw [hcomp]; rfl
  · unfold o2pass; rw [hl]; rfl

variable {s t : St}

theorem modEv (h : O2PR s t) (e : Nat) (f : Ev → Ev) : O2PR s (t.modEv e f) := h.trans (of_same rfl rfl)
theorem modWait (h : O2PR s t) (w : Nat) (f : WaitSt → WaitSt) : O2PR s (t.modWait w f) := h.trans (of_same rfl rfl)
theorem modTimer (h : O2PR s t) (i : Nat) (f : TimerSt → TimerSt) : O2PR s (t.modTimer i f) := h.trans (of_same rfl rfl)
theorem setGen (h : O2PR s t) (g : Nat) (y : GenRec) : O2PR s (t.setGen g y) := h.trans (of_same rfl rfl)
theorem addEv (h : O2PR s t) (e : Ev) : O2PR s (t.addEv e) := h.trans (of_same rfl rfl)
theorem addH (h : O2PR s t) (y : Handler) : O2PR s (t.addH y) := h.trans (of_same rfl rfl)
theorem addGen (h : O2PR s t) (g : GenRec) : O2PR s (t.addGen g) := h.trans (of_same rfl rfl)
theorem addWait (h : O2PR s t) (w : WaitSt) : O2PR s (t.addWait w) := h.trans (of_same rfl rfl)
theorem tick1 (h : O2PR s t) (d : Int) : O2PR s (t.tick1 d) := h.trans (of_same rfl rfl)

/-- a log entry the replay ignores -/
theorem logE (h : O2PR s t) (x : Entry) (hq : x.o2pneutral = true) : O2PR s (t.logE x) := by
  refine h.trans ?_
  intro ht
  refine ⟨⟨ht.pos, ht.root⟩, [], rfl, ?_⟩
  rw [o2pass_logE, o2_passStep_neutral _ _ hq]; rfl

/-- `modComp` with a function that keeps queue and root -/
theorem modComp (h : O2PR s t) (c : Nat) (f : Comp → Comp) (hf : ∀ y : Comp, (f y).eq = y.eq ∧ (f y).root = y.root) :
    O2PR s (t.modComp c f) := by
  refine h.trans ?_
  intro ht
  refine ⟨⟨by rw [St.q2_len_modComp]; exact ht.pos, fun x => ?_⟩, [], ?_, rfl⟩
  · rw [St.q2_comp_modComp]
    split
    · rw [(hf _).2]; exact ht.root x
    · exact ht.root x
  · rw [St.q2_comp_modComp]
    split
    · exact (hf _).1
    · rfl

end O2PR

/-! ## the tactic -/

syntax "o2pt1" : tactic
macro_rules | `(tactic| o2pt1) => `(tactic| split)
macro_rules | `(tactic| o2pt1) => `(tactic| with_reducible apply O2PR.tick1)
macro_rules | `(tactic| o2pt1) => `(tactic| with_reducible apply O2PR.addWait)
macro_rules | `(tactic| o2pt1) => `(tactic| with_reducible apply O2PR.addGen)
macro_rules | `(tactic| o2pt1) => `(tactic| with_reducible apply O2PR.addH)
macro_rules | `(tactic| o2pt1) => `(tactic| with_reducible apply O2PR.addEv)
macro_rules | `(tactic| o2pt1) => `(tactic| ((with_reducible apply O2PR.logE); case hq => rfl))
macro_rules | `(tactic| o2pt1) => `(tactic| with_reducible apply O2PR.setGen)
macro_rules | `(tactic| o2pt1) => `(tactic| with_reducible apply O2PR.modTimer)
macro_rules | `(tactic| o2pt1) => `(tactic| with_reducible apply O2PR.modWait)
macro_rules | `(tactic| o2pt1) => `(tactic| with_reducible apply O2PR.modEv)
macro_rules | `(tactic| o2pt1) => `(tactic| ((with_reducible apply O2PR.modComp); case hf => exact fun _ => ⟨rfl, rfl⟩))
macro_rules | `(tactic| o2pt1) => `(tactic| with_reducible assumption)
macro_rules | `(tactic| o2pt1) => `(tactic| with_reducible exact O2PR.refl _)

macro "o2pt" : tactic => `(tactic| repeat' o2pt1)
macro "o2pt_unfold" ids:ident+ : tactic => `(tactic| (unfold $[$ids]*; (try dsimp only); o2pt))

/-! ## helpers -/

theorem O2PR.foldl {s t : St} {α} (g : St → α → St) (hg : ∀ a y, O2PR s a → O2PR s (g a y)) (l : List α)
    (h : O2PR s t) : O2PR s (l.foldl g t) := by
  induction l generalizing t with
  | nil => exact h
  | cons y l ih => exact ih (hg _ _ h)

theorem O2PR.addHandler {s t : St} (h : O2PR s t) (y : Nat) : O2PR s (t.addHandler y) := by
  unfold St.addHandler
  dsimp only
  o2pt1
  split
  · o2pt
  · split
    · o2pt
    · exact O2PR.foldl _ (fun a n ha => by o2pt) _ h
macro_rules | `(tactic| o2pt1) => `(tactic| with_reducible apply O2PR.addHandler)

theorem O2PR.removeHandler {s t : St} (h : O2PR s t) (y : Nat) (n : Option Name) :
    O2PR s ((t.removeHandler y n).2) := by
  o2pt_unfold St.removeHandler
macro_rules | `(tactic| o2pt1) => `(tactic| with_reducible apply O2PR.removeHandler)

theorem O2PR.fireContext {s t : St} (h : O2PR s t) (r e : Nat) :
    O2PR s (t.fireContext r e) := by
  o2pt_unfold St.fireContext
macro_rules | `(tactic| o2pt1) => `(tactic| with_reducible apply O2PR.fireContext)

/-- the one place where queue and log move together: `_fire` -/
theorem o2p_fireRaw_self (t : St) (self e : Nat) (chans : List Chan) (prio : Int) :
    O2PR t (t.fireRaw self e chans prio) := by
  intro ht
  unfold St.fireRaw
  dsimp only
  have h1 : O2PR t (((t.modEv e fun x => { x with chans := chans, val := {}, mgr := self }).fireContext
      ((t.modEv e fun x => { x with chans := chans, val := {}, mgr := self }).rootOf self) e)) := by o2pt
  obtain ⟨hs2, f2, e2, p2⟩ := h1 ht
  have hroot : (t.modEv e fun x => { x with chans := chans, val := {}, mgr := self }).rootOf self = 0 := ht.root self
  rw [hroot] at hs2 e2 p2 ⊢
  generalize ((t.modEv e fun x => { x with chans := chans, val := {}, mgr := self }).fireContext 0 e) = s2 at hs2 e2 p2 ⊢
  have hc0 : (s2.modComp 0 fun x => { x with eq := x.eq.append e prio }).comp 0 = { s2.comp 0 with eq := (s2.comp 0).eq.append e prio } := by
    rw [St.q2_comp_modComp, if_pos ⟨rfl, hs2.pos⟩]
  refine ⟨⟨?_, ?_⟩, f2 ++ [(e, prio)], ?_, ?_⟩
  · show 0 < (s2.modComp 0 _).comps.length
    rw [St.q2_len_modComp]; exact hs2.pos
  · intro x
    show ((s2.modComp 0 _).comp x).root = 0
    rw [St.q2_comp_modComp]
    split
    · exact hs2.root x
    · exact hs2.root x
  · show ((s2.modComp 0 _).comp 0).eq = _
    rw [hc0, List.map_append, q2_runOps_append, ← e2]
    rfl
  · rw [o2pass_logE, o2_passStep_fire, List.foldl_append, ← p2]
    rfl

theorem O2PR.fireRaw {s t : St} (h : O2PR s t) (self e : Nat) (chans : List Chan) (prio : Int) :
    O2PR s (t.fireRaw self e chans prio) := h.trans (o2p_fireRaw_self t self e chans prio)
macro_rules | `(tactic| o2pt1) => `(tactic| with_reducible apply O2PR.fireRaw)

theorem O2PR.childEv {s t : St} (h : O2PR s t) (p sfx : Nat) :
    O2PR s (t.childEv p sfx) := by
  o2pt_unfold St.childEv
macro_rules | `(tactic| o2pt1) => `(tactic| with_reducible apply O2PR.childEv)

theorem O2PR.fireChild {s t : St} (h : O2PR s t) (self p sfx : Nat) (chans : List Chan) :
    O2PR s (t.fireChild self p sfx chans) := by
  o2pt_unfold St.fireChild
macro_rules | `(tactic| o2pt1) => `(tactic| with_reducible apply O2PR.fireChild)

theorem O2PR.inform {s t : St} (h : O2PR s t) (e : Nat) (force : Bool) :
    O2PR s (t.inform e force) := by
  o2pt_unfold St.inform
macro_rules | `(tactic| o2pt1) => `(tactic| with_reducible apply O2PR.inform)

theorem O2PR.setValue {s t : St} (h : O2PR s t) (e : Nat) (x : VItem) :
    O2PR s (t.setValue e x) := by
  o2pt_unfold St.setValue
macro_rules | `(tactic| o2pt1) => `(tactic| with_reducible apply O2PR.setValue)

theorem O2PR.fireTmplEv {s t : St} (h : O2PR s t) (self : Nat) (ev : Ev) (target : Option Chan) (prio : Int) :
    O2PR s (t.fireTmplEv self ev target prio) := by
  o2pt_unfold St.fireTmplEv
macro_rules | `(tactic| o2pt1) => `(tactic| with_reducible apply O2PR.fireTmplEv)

theorem O2PR.effectDone1 {s t : St} (h : O2PR s t) (r e : Nat) (announce : Bool) :
    O2PR s ((t.effectDone1 r e announce).2) := by
  o2pt_unfold St.effectDone1
macro_rules | `(tactic| o2pt1) => `(tactic| with_reducible apply O2PR.effectDone1)

theorem O2PR.eventDonePre {s t : St} (h : O2PR s t) (r e : Nat) (err : Bool) :
    O2PR s ((t.eventDonePre r e err).2) := by
  o2pt_unfold St.eventDonePre
macro_rules | `(tactic| o2pt1) => `(tactic| with_reducible apply O2PR.eventDonePre)

theorem O2PR.registerTask {s t : St} (h : O2PR s t) (c : Nat) (x : Task) :
    O2PR s (t.registerTask c x) := by
  o2pt_unfold St.registerTask
macro_rules | `(tactic| o2pt1) => `(tactic| with_reducible apply O2PR.registerTask)

theorem O2PR.unregisterTask {s t : St} (h : O2PR s t) (c : Nat) (x : Task) :
    O2PR s (t.unregisterTask c x) := by
  o2pt_unfold St.unregisterTask
macro_rules | `(tactic| o2pt1) => `(tactic| with_reducible apply O2PR.unregisterTask)

theorem O2PR.reduceTimeLeft {s t : St} (h : O2PR s t) (e : Nat) (d : Int) :
    O2PR s (t.reduceTimeLeft e d) := by
  o2pt_unfold St.reduceTimeLeft
macro_rules | `(tactic| o2pt1) => `(tactic| with_reducible apply O2PR.reduceTimeLeft)

theorem O2PR.registerFin {s t : St} (h : O2PR s t) (c : Nat) :
    O2PR s (t.registerFin c) := by
  o2pt_unfold St.registerFin
macro_rules | `(tactic| o2pt1) => `(tactic| with_reducible apply O2PR.registerFin)

theorem O2PR.unregister {s t : St} (h : O2PR s t) (c : Nat) :
    O2PR s (t.unregister c) := by
  o2pt_unfold St.unregister
macro_rules | `(tactic| o2pt1) => `(tactic| with_reducible apply O2PR.unregister)

theorem O2PR.prepUnregPre {s t : St} (h : O2PR s t) (c : Nat) :
    O2PR s (t.prepUnregPre c) := by
  o2pt_unfold St.prepUnregPre
macro_rules | `(tactic| o2pt1) => `(tactic| with_reducible apply O2PR.prepUnregPre)

theorem O2PR.prepUnregFin {s t : St} (h : O2PR s t) (c : Nat) :
    O2PR s (t.prepUnregFin c) := by
  o2pt_unfold St.prepUnregFin
macro_rules | `(tactic| o2pt1) => `(tactic| with_reducible apply O2PR.prepUnregFin)

theorem O2PR.actFire {s t : St} (h : O2PR s t) (self i : Nat) (target : Option Chan) (prio : Int) (cancel : Bool) :
    O2PR s (t.actFire self i target prio cancel) := by
  o2pt_unfold St.actFire
macro_rules | `(tactic| o2pt1) => `(tactic| with_reducible apply O2PR.actFire)

theorem O2PR.actStopEv {s t : St} (h : O2PR s t) (ev : Option Nat) :
    O2PR s (t.actStopEv ev) := by
  o2pt_unfold St.actStopEv
macro_rules | `(tactic| o2pt1) => `(tactic| with_reducible apply O2PR.actStopEv)

theorem O2PR.timerReset {s t : St} (h : O2PR s t) (i : Nat) :
    O2PR s (t.timerReset i) := by
  o2pt_unfold St.timerReset
macro_rules | `(tactic| o2pt1) => `(tactic| with_reducible apply O2PR.timerReset)

theorem O2PR.timerCreate {s t : St} (h : O2PR s t) (i : Nat) :
    O2PR s (t.timerCreate i) := by
  o2pt_unfold St.timerCreate
macro_rules | `(tactic| o2pt1) => `(tactic| with_reducible apply O2PR.timerCreate)

theorem O2PR.timerTick {s t : St} (h : O2PR s t) (i e : Nat) :
    O2PR s (t.timerTick i e) := by
  o2pt_unfold St.timerTick
macro_rules | `(tactic| o2pt1) => `(tactic| with_reducible apply O2PR.timerTick)

theorem O2PR.startWait {s t : St} (h : O2PR s t) (w : Nat) :
    O2PR s (t.startWait w) := by
  o2pt_unfold St.startWait
macro_rules | `(tactic| o2pt1) => `(tactic| with_reducible apply O2PR.startWait)

/-! ## pure pieces of `Step.lean` -/

theorem O2PR.stopBegin {s t : St} (h : O2PR s t) (c : Nat) :
    O2PR s (t.stopBegin c) := by
  o2pt_unfold St.stopBegin
macro_rules | `(tactic| o2pt1) => `(tactic| with_reducible apply O2PR.stopBegin)

theorem O2PR.stopSetCode {s t : St} (h : O2PR s t) (r : Nat) (code : Code) :
    O2PR s (t.stopSetCode r code) := by
  o2pt_unfold St.stopSetCode
macro_rules | `(tactic| o2pt1) => `(tactic| with_reducible apply O2PR.stopSetCode)

theorem O2PR.genCall {s t : St} (h : O2PR s t) (owner i : Nat) (target : Option Chan) (timeout : Option Nat) :
    O2PR s (t.genCall owner i target timeout) := by
  o2pt_unfold St.genCall
macro_rules | `(tactic| o2pt1) => `(tactic| with_reducible apply O2PR.genCall)

theorem O2PR.genWait {s t : St} (h : O2PR s t) (owner : Nat) (name : Name) (target : Option Chan) (timeout : Option Nat) :
    O2PR s (t.genWait owner name target timeout) := by
  o2pt_unfold St.genWait
macro_rules | `(tactic| o2pt1) => `(tactic| with_reducible apply O2PR.genWait)

theorem O2PR.resumeGenPre {s t : St} (h : O2PR s t) (g : Nat) (silent : Bool) :
    O2PR s (t.resumeGenPre g silent) := by
  o2pt_unfold St.resumeGenPre
macro_rules | `(tactic| o2pt1) => `(tactic| with_reducible apply O2PR.resumeGenPre)

theorem O2PR.stopIteration {s t : St} (h : O2PR s t) (r : Nat) (x : Task) :
    O2PR s ((t.stopIteration r x).2) := by
  o2pt_unfold St.stopIteration
macro_rules | `(tactic| o2pt1) => `(tactic| with_reducible apply O2PR.stopIteration)

theorem O2PR.fireException {s t : St} (h : O2PR s t) (r e : Nat) :
    O2PR s (t.fireException r e) := by
  o2pt_unfold St.fireException
macro_rules | `(tactic| o2pt1) => `(tactic| with_reducible apply O2PR.fireException)

theorem O2PR.errorBranch {s t : St} (h : O2PR s t) (r : Nat) (x : Task) (resumed : Bool) :
    O2PR s ((t.errorBranch r x resumed).2) := by
  o2pt_unfold St.errorBranch
macro_rules | `(tactic| o2pt1) => `(tactic| with_reducible apply O2PR.errorBranch)

theorem O2PR.ownSub {s t : St} (h : O2PR s t) (r : Nat) (x : Task) (w : Nat) :
    O2PR s (t.ownSub r x w) := by
  o2pt_unfold St.ownSub
macro_rules | `(tactic| o2pt1) => `(tactic| with_reducible apply O2PR.ownSub)

theorem O2PR.setValueOpt {s t : St} (h : O2PR s t) (e : Nat) (v : Option Nat) :
    O2PR s (t.setValueOpt e v) := by
  o2pt_unfold St.setValueOpt
macro_rules | `(tactic| o2pt1) => `(tactic| with_reducible apply O2PR.setValueOpt)

theorem O2PR.parentSub {s t : St} (h : O2PR s t) (r : Nat) (x : Task) (p w2 : Nat) (viaThrow : Bool) :
    O2PR s (t.parentSub r x p w2 viaThrow) := by
  o2pt_unfold St.parentSub
macro_rules | `(tactic| o2pt1) => `(tactic| with_reducible apply O2PR.parentSub)

theorem O2PR.parentPlain {s t : St} (h : O2PR s t) (r : Nat) (x : Task) (p : Nat) (v : Option Nat) (viaThrow : Bool) :
    O2PR s (t.parentPlain r x p v viaThrow) := by
  o2pt_unfold St.parentPlain
macro_rules | `(tactic| o2pt1) => `(tactic| with_reducible apply O2PR.parentPlain)

theorem O2PR.onWaitEvent {s t : St} (h : O2PR s t) (w e : Nat) :
    O2PR s ((t.onWaitEvent w e).2) := by
  o2pt_unfold St.onWaitEvent
macro_rules | `(tactic| o2pt1) => `(tactic| with_reducible apply O2PR.onWaitEvent)

theorem O2PR.onWaitDone {s t : St} (h : O2PR s t) (w e : Nat) :
    O2PR s ((t.onWaitDone w e).2) := by
  o2pt_unfold St.onWaitDone
macro_rules | `(tactic| o2pt1) => `(tactic| with_reducible apply O2PR.onWaitDone)

theorem O2PR.onWaitTick {s t : St} (h : O2PR s t) (w : Nat) :
    O2PR s ((t.onWaitTick w).2) := by
  o2pt_unfold St.onWaitTick
macro_rules | `(tactic| o2pt1) => `(tactic| with_reducible apply O2PR.onWaitTick)

theorem O2PR.onFallbackGE {s t : St} (h : O2PR s t) (e : Nat) :
    O2PR s ((t.onFallbackGE e).2) := by
  o2pt_unfold St.onFallbackGE
macro_rules | `(tactic| o2pt1) => `(tactic| with_reducible apply O2PR.onFallbackGE)

theorem O2PR.computeHandlers {s t : St} (h : O2PR s t) (r : Nat) (name : Name) (chans : List Chan) :
    O2PR s ((t.computeHandlers r name chans).2) := by
  o2pt_unfold St.computeHandlers
macro_rules | `(tactic| o2pt1) => `(tactic| with_reducible apply O2PR.computeHandlers)

theorem O2PR.dispComplete {s t : St} (h : O2PR s t) (e : Nat) (ev : Ev) :
    O2PR s (t.dispComplete e ev) := by
  o2pt_unfold St.dispComplete
macro_rules | `(tactic| o2pt1) => `(tactic| with_reducible apply O2PR.dispComplete)

theorem O2PR.cacheRefresh {s t : St} (h : O2PR s t) (r : Nat) :
    O2PR s (t.cacheRefresh r) := by
  o2pt_unfold St.cacheRefresh
macro_rules | `(tactic| o2pt1) => `(tactic| with_reducible apply O2PR.cacheRefresh)

theorem O2PR.lookupHandlers {s t : St} (h : O2PR s t) (r : Nat) (name : Name) (chans : List Chan) :
    O2PR s ((t.lookupHandlers r name chans).2) := by
  o2pt_unfold St.lookupHandlers
macro_rules | `(tactic| o2pt1) => `(tactic| with_reducible apply O2PR.lookupHandlers)

theorem O2PR.dispGE {s t : St} (h : O2PR s t) (r e remaining : Nat) (name : Name) :
    O2PR s (t.dispGE r e remaining name) := by
  o2pt_unfold St.dispGE
macro_rules | `(tactic| o2pt1) => `(tactic| with_reducible apply O2PR.dispGE)

theorem O2PR.handlerRaised {s t : St} (h : O2PR s t) (r e : Nat) :
    O2PR s (t.handlerRaised r e) := by
  o2pt_unfold St.handlerRaised
macro_rules | `(tactic| o2pt1) => `(tactic| with_reducible apply O2PR.handlerRaised)

theorem O2PR.applyValue {s t : St} (h : O2PR s t) (r e : Nat) (value : Outcome) :
    O2PR s (t.applyValue r e value) := by
  o2pt_unfold St.applyValue
macro_rules | `(tactic| o2pt1) => `(tactic| with_reducible apply O2PR.applyValue)

theorem O2PR.geTasksCheck {s t : St} (h : O2PR s t) (r e : Nat) :
    O2PR s (t.geTasksCheck r e) := by
  o2pt_unfold St.geTasksCheck
macro_rules | `(tactic| o2pt1) => `(tactic| with_reducible apply O2PR.geTasksCheck)

theorem O2PR.tickGenerate {s t : St} (h : O2PR s t) (c : Nat) :
    O2PR s (t.tickGenerate c) := by
  o2pt_unfold St.tickGenerate
macro_rules | `(tactic| o2pt1) => `(tactic| with_reducible apply O2PR.tickGenerate)

theorem O2PR.runBegin {s t : St} (h : O2PR s t) (c : Nat) :
    O2PR s (t.runBegin c) := by
  o2pt_unfold St.runBegin
macro_rules | `(tactic| o2pt1) => `(tactic| with_reducible apply O2PR.runBegin)

theorem O2PR.runEnd {s t : St} (h : O2PR s t) (c : Nat) :
    O2PR s ((t.runEnd c).2) := by
  o2pt_unfold St.runEnd
macro_rules | `(tactic| o2pt1) => `(tactic| with_reducible apply O2PR.runEnd)

theorem O2PR.actStep {s t : St} (h : O2PR s t) (ctx : HCtx) (a : Act) : O2PR s (actStep t ctx a).st := by
  cases a <;> (unfold CV.Core.actStep; (try dsimp only); o2pt)
macro_rules | `(tactic| o2pt1) => `(tactic| with_reducible apply O2PR.actStep)


/-! ## the arms of `step` -/

def Frame.o2isDisp : Frame → Bool
  | .dispatcher .. => true
  | .dispatchLoop _ => true
  | _ => false

/-- neither a `_dispatcher` nor a `dispatchEvents` loop frame among the frames -/
def o2nodisp (fs : List Frame) : Bool := fs.all (fun g => !g.o2isDisp)

/-- result of a pass-neutral arm -/
structure O2PG (k : List Frame) (s : St) (c' : Cfg) : Prop where
  rel : O2SR s → ∃ fires, O2PFires s c'.st fires
  push : ∃ fs, c'.stack = fs ++ k ∧ o2nodisp fs = true

theorem O2PG.pop (c : Cfg) (k : List Frame) {s0 s : St} (h : O2PR s0 s) : O2PG k s0 (c.pop k s) :=
  ⟨fun hs => (h hs).2, [], rfl, rfl⟩
theorem O2PG.popRet (c : Cfg) (k : List Frame) {s0 s : St} (v : Ret) (h : O2PR s0 s) : O2PG k s0 (c.popRet k s v) :=
  ⟨fun hs => (h hs).2, [], rfl, rfl⟩
theorem O2PG.raise (c : Cfg) (k : List Frame) {s0 s : St} (ex : Exn) (h : O2PR s0 s) : O2PG k s0 (c.raise k s ex) :=
  ⟨fun hs => (h hs).2, [], rfl, rfl⟩
theorem O2PG.goto (c : Cfg) (k : List Frame) {s0 s : St} (fs : List Frame) (h : O2PR s0 s) (hfs : o2nodisp fs = true) :
    O2PG k s0 (c.goto k s fs) := ⟨fun hs => (h hs).2, fs, rfl, hfs⟩

macro_rules | `(tactic| o2pt1) => `(tactic| with_reducible refine O2PG.pop _ _ ?_)
macro_rules | `(tactic| o2pt1) => `(tactic| with_reducible refine O2PG.popRet _ _ _ ?_)
macro_rules | `(tactic| o2pt1) => `(tactic| with_reducible refine O2PG.raise _ _ _ ?_)
macro_rules | `(tactic| o2pt1) => `(tactic| ((with_reducible refine O2PG.goto _ _ _ ?_ ?_); rotate_left; rfl))

theorem Cfg.effectDone_o2p (c : Cfg) (k : List Frame) (r e : Nat) (announce : Bool) :
    O2PG k c.st (c.effectDone k r e announce) := by
  unfold Cfg.effectDone; (try dsimp only); o2pt
macro_rules | `(tactic| o2pt1) => `(tactic| with_reducible exact Cfg.effectDone_o2p ..)

theorem Cfg.eventDone_o2p (c : Cfg) (k : List Frame) (r e : Nat) (err : Bool) :
    O2PG k c.st (c.eventDone k r e err) := by
  unfold Cfg.eventDone; (try dsimp only); o2pt
macro_rules | `(tactic| o2pt1) => `(tactic| with_reducible exact Cfg.eventDone_o2p ..)

theorem Cfg.registerFin_o2p (c : Cfg) (k : List Frame) (x : Nat) :
    O2PG k c.st (c.registerFin k x) := by
  unfold Cfg.registerFin; (try dsimp only); o2pt
macro_rules | `(tactic| o2pt1) => `(tactic| with_reducible exact Cfg.registerFin_o2p ..)

theorem Cfg.prepUnregFin_o2p (c : Cfg) (k : List Frame) (x : Nat) :
    O2PG k c.st (c.prepUnregFin k x) := by
  unfold Cfg.prepUnregFin; (try dsimp only); o2pt
macro_rules | `(tactic| o2pt1) => `(tactic| with_reducible exact Cfg.prepUnregFin_o2p ..)

theorem Cfg.stopMgr_o2p (c : Cfg) (k : List Frame) (x : Nat) (code : Code) :
    O2PG k c.st (c.stopMgr k x code) := by
  unfold Cfg.stopMgr; (try dsimp only); o2pt
macro_rules | `(tactic| o2pt1) => `(tactic| with_reducible exact Cfg.stopMgr_o2p ..)

theorem Cfg.ticks_o2p (c : Cfg) (k : List Frame) (x n : Nat) :
    O2PG k c.st (c.ticks k x n) := by
  unfold Cfg.ticks; (try dsimp only); o2pt
macro_rules | `(tactic| o2pt1) => `(tactic| with_reducible exact Cfg.ticks_o2p ..)

theorem Cfg.stopFin_o2p (c : Cfg) (k : List Frame) (code : Code) :
    O2PG k c.st (c.stopFin k code) := by
  unfold Cfg.stopFin; (try dsimp only); o2pt
macro_rules | `(tactic| o2pt1) => `(tactic| with_reducible exact Cfg.stopFin_o2p ..)

theorem Cfg.timerNew_o2p (c : Cfg) (k : List Frame) (i : Nat) :
    O2PG k c.st (c.timerNew k i) := by
  unfold Cfg.timerNew; (try dsimp only); o2pt
macro_rules | `(tactic| o2pt1) => `(tactic| with_reducible exact Cfg.timerNew_o2p ..)

theorem Cfg.doFin_o2p (c : Cfg) (k : List Frame) (x : Nat) :
    O2PG k c.st (c.doFin k x) := by
  unfold Cfg.doFin; (try dsimp only); o2pt
macro_rules | `(tactic| o2pt1) => `(tactic| with_reducible exact Cfg.doFin_o2p ..)

theorem Cfg.drainQ_o2p (c : Cfg) (k : List Frame) (x : Nat) :
    O2PG k c.st (c.drainQ k x) := by
  unfold Cfg.drainQ; (try dsimp only); o2pt
macro_rules | `(tactic| o2pt1) => `(tactic| with_reducible exact Cfg.drainQ_o2p ..)

theorem Cfg.processTask_o2p (c : Cfg) (k : List Frame) (r : Nat) (x : Task) :
    O2PG k c.st (c.processTask k r x) := by
  unfold Cfg.processTask; (try dsimp only); o2pt
macro_rules | `(tactic| o2pt1) => `(tactic| with_reducible exact Cfg.processTask_o2p ..)

theorem Cfg.contStop_o2p {s0 : St} (c : Cfg) (k : List Frame) (s : St) (r : Nat) (x : Task) (hle : O2PR s0 s) :
    O2PG k s0 (c.contStop k s r x) := by
  unfold Cfg.contStop; (try dsimp only); o2pt
macro_rules | `(tactic| o2pt1) => `(tactic| with_reducible apply Cfg.contStop_o2p)

theorem Cfg.contError_o2p {s0 : St} (c : Cfg) (k : List Frame) (s : St) (r : Nat) (x : Task) (resumed : Bool) (hle : O2PR s0 s) :
    O2PG k s0 (c.contError k s r x resumed) := by
  unfold Cfg.contError; (try dsimp only); o2pt
macro_rules | `(tactic| o2pt1) => `(tactic| with_reducible apply Cfg.contError_o2p)

theorem Cfg.ptBodyWait_o2p (c : Cfg) (k : List Frame) (r : Nat) (x : Task) (w : Nat) :
    O2PG k c.st (c.ptBodyWait k r x w) := by
  unfold Cfg.ptBodyWait; (try dsimp only); o2pt
macro_rules | `(tactic| o2pt1) => `(tactic| with_reducible exact Cfg.ptBodyWait_o2p ..)

theorem Cfg.ptBodyExc_o2p (c : Cfg) (k : List Frame) (r : Nat) (x : Task) (w : Nat) (fired : Bool) :
    O2PG k c.st (c.ptBodyExc k r x w fired) := by
  unfold Cfg.ptBodyExc; (try dsimp only); o2pt
macro_rules | `(tactic| o2pt1) => `(tactic| with_reducible exact Cfg.ptBodyExc_o2p ..)

theorem Cfg.ptBody_o2p (c : Cfg) (k : List Frame) (r : Nat) (x : Task) :
    O2PG k c.st (c.ptBody k r x) := by
  unfold Cfg.ptBody; (try dsimp only); o2pt
macro_rules | `(tactic| o2pt1) => `(tactic| with_reducible exact Cfg.ptBody_o2p ..)

theorem Cfg.ptOwn_o2p (c : Cfg) (k : List Frame) (r : Nat) (x : Task) :
    O2PG k c.st (c.ptOwn k r x) := by
  unfold Cfg.ptOwn; (try dsimp only); o2pt
macro_rules | `(tactic| o2pt1) => `(tactic| with_reducible exact Cfg.ptOwn_o2p ..)

theorem Cfg.ptParent_o2p (c : Cfg) (k : List Frame) (r : Nat) (x : Task) (p : Nat) (viaThrow : Bool) :
    O2PG k c.st (c.ptParent k r x p viaThrow) := by
  unfold Cfg.ptParent; (try dsimp only); o2pt
macro_rules | `(tactic| o2pt1) => `(tactic| with_reducible exact Cfg.ptParent_o2p ..)

theorem Cfg.ptFin_o2p (c : Cfg) (k : List Frame) (r : Nat) (handling : Option Nat) :
    O2PG k c.st (c.ptFin k r handling) := by
  unfold Cfg.ptFin; (try dsimp only); o2pt
macro_rules | `(tactic| o2pt1) => `(tactic| with_reducible exact Cfg.ptFin_o2p ..)

theorem Cfg.hLoop_o2p (c : Cfg) (k : List Frame) (r e : Nat) (hs : List Nat) (err : Bool) (stale : Outcome) :
    O2PG k c.st (c.hLoop k r e hs err stale) := by
  unfold Cfg.hLoop; (try dsimp only); o2pt
macro_rules | `(tactic| o2pt1) => `(tactic| with_reducible exact Cfg.hLoop_o2p ..)

theorem Cfg.invokeUser_o2p {s0 : St} (c : Cfg) (k : List Frame) (s : St) (h e owner p : Nat) (hle : O2PR s0 s) :
    O2PG k s0 (c.invokeUser k s h e owner p) := by
  unfold Cfg.invokeUser; (try dsimp only); o2pt
macro_rules | `(tactic| o2pt1) => `(tactic| with_reducible apply Cfg.invokeUser_o2p)

theorem Cfg.invokeFin_o2p (c : Cfg) (k : List Frame) (e h : Nat) :
    O2PG k c.st (c.invokeFin k e h) := by
  unfold Cfg.invokeFin; (try dsimp only); o2pt
macro_rules | `(tactic| o2pt1) => `(tactic| with_reducible exact Cfg.invokeFin_o2p ..)

theorem Cfg.hAfter_o2p (c : Cfg) (k : List Frame) (r e : Nat) (rest : List Nat) (err : Bool) (stale : Outcome) :
    O2PG k c.st (c.hAfter k r e rest err stale) := by
  unfold Cfg.hAfter; (try dsimp only); o2pt
macro_rules | `(tactic| o2pt1) => `(tactic| with_reducible exact Cfg.hAfter_o2p ..)

theorem Cfg.hApply_o2p (c : Cfg) (k : List Frame) (r e : Nat) (rest : List Nat) (err : Bool) (value : Outcome) :
    O2PG k c.st (c.hApply k r e rest err value) := by
  unfold Cfg.hApply; (try dsimp only); o2pt
macro_rules | `(tactic| o2pt1) => `(tactic| with_reducible exact Cfg.hApply_o2p ..)

theorem Cfg.dispFin_o2p (c : Cfg) (k : List Frame) (r e : Nat) (err : Bool) :
    O2PG k c.st (c.dispFin k r e err) := by
  unfold Cfg.dispFin; (try dsimp only); o2pt
macro_rules | `(tactic| o2pt1) => `(tactic| with_reducible exact Cfg.dispFin_o2p ..)

theorem Cfg.flushFin_o2p (c : Cfg) (k : List Frame) (r : Nat) (old : Bool) :
    O2PG k c.st (c.flushFin k r old) := by
  unfold Cfg.flushFin; (try dsimp only); o2pt
macro_rules | `(tactic| o2pt1) => `(tactic| with_reducible exact Cfg.flushFin_o2p ..)

theorem Cfg.tick_o2p (c : Cfg) (k : List Frame) (x : Nat) :
    O2PG k c.st (c.tick k x) := by
  unfold Cfg.tick; (try dsimp only); o2pt
macro_rules | `(tactic| o2pt1) => `(tactic| with_reducible exact Cfg.tick_o2p ..)

theorem Cfg.taskLoop_o2p (c : Cfg) (k : List Frame) (x : Nat) (ts : List Task) :
    O2PG k c.st (c.taskLoop k x ts) := by
  unfold Cfg.taskLoop; (try dsimp only); o2pt
macro_rules | `(tactic| o2pt1) => `(tactic| with_reducible exact Cfg.taskLoop_o2p ..)

theorem Cfg.tickFin_o2p (c : Cfg) (k : List Frame) (x : Nat) (old : Bool) :
    O2PG k c.st (c.tickFin k x old) := by
  unfold Cfg.tickFin; (try dsimp only); o2pt
macro_rules | `(tactic| o2pt1) => `(tactic| with_reducible exact Cfg.tickFin_o2p ..)

theorem Cfg.tickGen_o2p (c : Cfg) (k : List Frame) (x : Nat) :
    O2PG k c.st (c.tickGen k x) := by
  unfold Cfg.tickGen; (try dsimp only); o2pt
macro_rules | `(tactic| o2pt1) => `(tactic| with_reducible exact Cfg.tickGen_o2p ..)

theorem Cfg.run_o2p (c : Cfg) (k : List Frame) (x : Nat) :
    O2PG k c.st (c.run k x) := by
  unfold Cfg.run; (try dsimp only); o2pt
macro_rules | `(tactic| o2pt1) => `(tactic| with_reducible exact Cfg.run_o2p ..)

theorem Cfg.runLoop_o2p (c : Cfg) (k : List Frame) (x : Nat) :
    O2PG k c.st (c.runLoop k x) := by
  unfold Cfg.runLoop; (try dsimp only); o2pt
macro_rules | `(tactic| o2pt1) => `(tactic| with_reducible exact Cfg.runLoop_o2p ..)

theorem Cfg.runFin_o2p (c : Cfg) (k : List Frame) (x : Nat) :
    O2PG k c.st (c.runFin k x) := by
  unfold Cfg.runFin; (try dsimp only); o2pt
macro_rules | `(tactic| o2pt1) => `(tactic| with_reducible exact Cfg.runFin_o2p ..)

theorem Cfg.runRethrow_o2p (c : Cfg) (k : List Frame) (ex : Exn) :
    O2PG k c.st (c.runRethrow k ex) := by
  unfold Cfg.runRethrow; (try dsimp only); o2pt
macro_rules | `(tactic| o2pt1) => `(tactic| with_reducible exact Cfg.runRethrow_o2p ..)


theorem o2p_actStep_call (s : St) (ctx : HCtx) (a : Act) (f : Frame) (h : (actStep s ctx a).kind = .call f) :
    f.o2isDisp = false := by
  cases a <;> simp [actStep] at h
  all_goals first | (subst h; rfl) | (split at h <;> cases h)

theorem Cfg.acts_o2p (c : Cfg) (k : List Frame) (ctx : HCtx) (prog : Prog) :
    O2PG k c.st (c.acts k ctx prog) := by
  unfold Cfg.acts
  split
  · o2pt
  · rename_i a rest
    have hA : O2PR c.st (actStep c.st ctx a).st := by o2pt
    split
    · exact O2PG.goto _ _ _ hA rfl
    · exact O2PG.popRet _ _ _ hA
    · rename_i f hf
      refine O2PG.goto _ _ _ hA ?_
      have := o2p_actStep_call _ _ _ _ hf
      simp only [o2nodisp, List.all_cons, List.all_nil, this]
      rfl
macro_rules | `(tactic| o2pt1) => `(tactic| with_reducible exact Cfg.acts_o2p ..)

theorem Cfg.stepGen_o2p (c : Cfg) (k : List Frame) (g : Nat) :
    O2PG k c.st (c.stepGen k g) := by
  unfold Cfg.stepGen
  dsimp only
  split
  · split
    · o2pt
    · split
      · o2pt
      · o2pt
      · o2pt
      · o2pt
      · o2pt
        rename_i f hf
        refine O2PG.goto _ _ _ ?_ ?_
        · o2pt
        · have := o2p_actStep_call _ _ _ _ hf
          simp only [o2nodisp, List.all_cons, List.all_nil, this]
          rfl
  · o2pt
macro_rules | `(tactic| o2pt1) => `(tactic| with_reducible exact Cfg.stepGen_o2p ..)

theorem Cfg.runCatchExn_o2p (c : Cfg) (k : List Frame) (x : Nat) (ex : Exn) :
    O2PG k c.st (c.runCatchExn k x ex) := by
  unfold Cfg.runCatchExn
  split
  · exact ⟨fun _ => ⟨[], rfl, rfl⟩, [.tick x, .drainQ x, .runRethrow _], rfl, rfl⟩
  · o2pt
macro_rules | `(tactic| o2pt1) => `(tactic| with_reducible exact Cfg.runCatchExn_o2p ..)

end CV.Core

import CV.Proofs.InvCache
/-
C01, cache layer - the invariant of every reachable configuration and the dispatch theorem.
-/
namespace CV.Core.Live

/-! ## forest facts from `ForestInv` -/

structure TreeFacts (s : St) : Prop where
  tree : TreeOk s
  idem : RootIdem s

theorem _root_.CV.Core.ForestInv.cacheReachRoot {s : St} (hF : ForestInv s) {n c x : Nat} (hr : ReachIn s n c x)
    (hc : c < s.comps.length) : (s.comp x).root = (s.comp c).root := by
  induction hr with
  | here n c => rfl
  | step n c d e hd _ ih =>
    obtain ⟨hdl, hpar, hne⟩ := hF.childOf c d hc hd
    rw [ih hdl, hF.rootOk d hdl, hpar, if_neg (fun h => hne h.symm)]

theorem _root_.CV.Core.ForestInv.cacheTreeOk {s : St} (hF : ForestInv s) : TreeOk s := by
  intro c x n hr hreach
  by_cases hc : c < s.comps.length
  · rw [hF.cacheReachRoot hreach hc, hr]
  · cases hreach with
    | here => exact hr
    | step _ _ d _ hd _ =>
      change d ∈ (s.comp c).children at hd
      rw [St.comp_oob s c hc] at hd
      cases hd

theorem _root_.CV.Core.ForestInv.cacheRootIdem {s : St} (hF : ForestInv s) : RootIdem s := by
  obtain ⟨rk, hrk⟩ := hF.acyclic
  have : ∀ m q, q < s.comps.length → rk q = m → (s.comp (s.comp q).root).root = (s.comp q).root := by
    intro m
    induction m using Nat.strongRecOn with
    | _ m ih =>
      intro q hq hm
      by_cases hp : (s.comp q).parent = q
      · have hroot : (s.comp q).root = q := by rw [hF.rootOk q hq, if_pos hp]
        rw [hroot, hroot]
      · have hroot : (s.comp q).root = (s.comp (s.comp q).parent).root := by rw [hF.rootOk q hq, if_neg hp]
        rw [hroot]
        exact ih (rk (s.comp q).parent) (hm ▸ hrk q hq hp) _ (hF.parentLt q hq) rfl
  exact fun q hq => this _ q hq rfl

theorem _root_.CV.Core.ForestInv.cacheFacts {s : St} (hF : ForestInv s) : TreeFacts s := ⟨hF.cacheTreeOk, hF.cacheRootIdem⟩

/-! ## the configuration invariant -/

/-- `x` is being detached: `_do_prepare_unregister_complete` has made it its own root and the
    very next step (`self._cache_needs_refresh = True`) has not yet run -/
def detaching (c : Cfg) (x : Nat) : Prop := c.exn = none ∧ ∃ k, c.stack = .prepUnregFin x :: k

/-- the invariant of configurations -/
structure P (c : Cfg) : Prop where
  stackOk : noUR c.stack = true
  inv : K noE c.st ∨ (c.exn = none ∧ ∃ x k, c.stack = .prepUnregFin x :: k ∧ K (fun y => y = x) c.st)

theorem P.of_goodW {k : List Frame} {c' : Cfg} (hk : noUR k = true) (h : GoodW k c') : P c' := by
  obtain ⟨fs, hst, hfs⟩ := h.push
  refine ⟨?_, h.inv⟩
  rw [hst, noUR_append, hfs, hk]; rfl

theorem stepFrame_ci (c : Cfg) (k : List Frame) (f : Frame) (hK : K noE c.st) (hT : TreeFacts c.st)
    (hx : c.exn = none) (hur : f.isUpdRoot = false) :
    GoodW k (stepFrame c k f) := by
  have hJ : J noE c.st := ⟨hT.tree, hK⟩
  cases f <;> dsimp only [stepFrame]
  case updateRoot => cases hur
  case register x p => exact (Cfg.register_ci c k x p hJ hT.idem).toW
  case acts ctx prog => exact (Cfg.acts_ci c k ctx prog hJ).toW
  case stepGen g => exact (Cfg.stepGen_ci c k g hJ).toW
  case invoke r h e => exact Cfg.invoke_ci c k r h e hJ hx
  case prepUnregFin x => exact (Cfg.prepUnregFin_ci c k x (hK.weaken (fun _ h => h.elim))).toW
  case runCatch => exact (Good.pop _ _ hK).toW
  all_goals exact Good.toW (by ccl)

theorem unwind_ci (c : Cfg) (k : List Frame) (ex : Exn) (f : Frame) (hJ : J noE c.st) :
    Good k (unwind c k ex f) := by
  cases f <;> (dsimp only [unwind]; ccl)

/-- one step preserves the invariant -/
theorem step_P (c : Cfg) (hP : P c) (hT : TreeFacts c.st) : P (step c) := by
  unfold step
  split
  · exact hP
  · rename_i f k hst
    have hk : noUR k = true := by
      have := hP.stackOk
      rw [hst] at this
      simp only [noUR, List.all_cons, Bool.and_eq_true] at this ⊢
      exact this.2
    have hur : f.isUpdRoot = false := by
      have := hP.stackOk
      rw [hst] at this
      simp only [noUR, List.all_cons, Bool.and_eq_true, Bool.not_eq_true'] at this
      exact this.1
    split
    · rename_i ex hex
      have hK : K noE c.st := by
        rcases hP.inv with h | ⟨h, _⟩
        · exact h
        · rw [hex] at h; cases h
      exact P.of_goodW hk (unwind_ci c k ex f ⟨hT.tree, hK⟩).toW
    · rename_i hex
      rcases hP.inv with hK | ⟨_, x, k', hst', hK⟩
      · exact P.of_goodW hk (stepFrame_ci c k f hK hT hex hur)
      · rw [hst] at hst'
        injection hst' with h1 h2
        subst h1 h2
        exact P.of_goodW hk (Cfg.prepUnregFin_ci c k x hK).toW

/-! ## initial states -/

/-- hypothesis on the initial state: whatever is installed in a handler table is a declared
    handler record and not one of the two framework fallback records -/
def InitHandlers (s : St) : Prop :=
  (∀ c k h, (k, h) ∈ (s.comp c).htab → s.plain h) ∧ (∀ c h, h ∈ (s.comp c).globals → s.plain h)

/-- hypothesis on the initial state: nothing has been dispatched yet -/
def InitCache (s : St) : Prop := ∀ c, (s.comp c).cache = []

theorem K.init (s0 : St) (hH : InitHandlers s0) (hC : InitCache s0) : K noE s0 :=
  ⟨hH.1, hH.2, fun c key l h hm _ => (by rw [hC c] at hm; cases hm),
   fun c _ _ => Or.inr (fun key l hm => (by rw [hC c] at hm; cases hm))⟩

/-! ## reachable configurations -/

theorem P.start (s : St) (hK : K noE s) (d : Nat) (tape : List Entry) (op : ExtOp) :
    P (startOf (envChange s d tape) op) := by
  have hK' : K noE (envChange s d tape) := hK.of_same (Same.of_eq rfl rfl)
  cases op <;> exact ⟨rfl, Or.inl hK'⟩

/-- the invariant holds in every reachable configuration -/
theorem reach_P {s0 : St} (hinit : K noE s0) (hF : ∀ c, Reach s0 c → TreeFacts c.st) :
    ∀ c, Reach s0 c → P c := by
  intro c h
  induction h with
  | init d tape op => exact P.start s0 hinit d tape op
  | step hr ih => exact step_P _ ih (hF _ hr)
  | @next c' d tape op _ hd ih =>
    have hK : K noE c'.st := by
      rcases ih.inv with h | ⟨_, x, k, hst, _⟩
      · exact h
      · unfold done at hd; rw [hst] at hd; cases hd
    exact P.start _ hK d tape op

/-- cache liveness, with the component that is being detached exempted -/
theorem reach_live {s0 : St} (hinit : K noE s0) (hF : ∀ c, Reach s0 c → TreeFacts c.st) :
    ∀ c, Reach s0 c → CacheLive (detaching c) c.st := by
  intro c h
  rcases (reach_P hinit hF c h).inv with hK | ⟨hx, x, k, hst, hK⟩
  · exact (hK.weaken (fun _ hf => hf.elim)).live
  · refine (hK.weaken ?_).live
    intro y hy
    exact ⟨hx, k, hy ▸ hst⟩

/-! ## the dispatcher uses the live set -/

theorem lookup_mem {α β} [BEq α] [LawfulBEq α] (l : List (α × β)) (a : α) (b : β) (h : l.lookup a = some b) :
    (a, b) ∈ l := by
  induction l with
  | nil => cases h
  | cons p l ih =>
    obtain ⟨a', b'⟩ := p
    rw [List.lookup_cons] at h
    split at h
    · rename_i heq
      have : a = a' := by simpa using heq
      injection h with h
      subst this h
      exact List.mem_cons_self ..
    · exact List.mem_cons_of_mem _ (ih h)

theorem cacheRefresh_clean (t : St) (r : Nat) : ((t.cacheRefresh r).comp r).dirty = false := by
  unfold St.cacheRefresh
  split
  · rename_i hd
    rw [St.comp_modComp_if]
    split
    · rfl
    · rename_i hn
      have hoob : ¬ r < t.comps.length := fun h => hn ⟨rfl, h⟩
      rw [St.comp_oob t r hoob]
      rfl
  · rename_i hd
    simpa using hd

theorem cacheRefresh_root (t : St) (r x : Nat) : ((t.cacheRefresh r).comp x).root = (t.comp x).root := by
  unfold St.cacheRefresh
  split
  · refine St.comp_modComp_proj (fun y => y.root) t r _ ?_ x
    exact fun _ => rfl
  · rfl

theorem Same.dispGE (t : St) (r e remaining : Nat) (name : Name) : Same t (t.dispGE r e remaining name) := by
  unfold St.dispGE
  split
  · dsimp only
    split
    · exact Same.of_eq rfl rfl
    · split
      · exact Same.of_eq rfl rfl
      · exact Same.refl t
  · exact Same.refl t

/-- `lookupHandlers` on a clean cache returns the live list (plus, possibly, a fallback record) -/
theorem K.lookupHandlers_live {E} {t : St} (hK : K E t) (r : Nat) (name : Name) (chans : List Chan)
    (hr : (t.comp r).root = r) (hE : ¬ E r) (hd : (t.comp r).dirty = false) :
    nonFallback (t.lookupHandlers r name chans).2 (t.lookupHandlers r name chans).1
      = freshHandlers (t.lookupHandlers r name chans).2 r name chans ∧
    (∀ h ∈ (t.lookupHandlers r name chans).1, h < (t.lookupHandlers r name chans).2.hs.length) ∧
    K E (t.lookupHandlers r name chans).2 := by
  unfold St.lookupHandlers
  split
  · rename_i hs hlook
    have hm := lookup_mem _ _ _ hlook
    refine ⟨?_, fun h hh => hK.cid r _ _ h hm hh, hK⟩
    rcases hK.live r hr hE with h | h
    · rw [hd] at h; cases h
    · exact h (name, chans) hs hm
  · have h1 := hK.computeHandlers r name chans
    exact ⟨h1.2.1, h1.2.2, h1.1⟩

theorem J.dispatchPre_live {t : St} (hJ : J noE t) (r e remaining : Nat)
    (hr : (t.comp r).root = r) (hc : (t.ev e).cancelled = false) :
    ∃ hs, (t.dispatchPre r e remaining).1 = some hs ∧
      nonFallback (t.dispatchPre r e remaining).2 hs
        = freshHandlers (t.dispatchPre r e remaining).2 r (t.ev e).name (t.ev e).chans := by
  unfold St.dispatchPre
  dsimp only
  have hev : (t.logE (Entry.disp e)).ev e = t.ev e := rfl
  rw [hev]
  simp only [hc, Bool.false_eq_true, if_false]
  have h1 : J noE (((t.logE (Entry.disp e)).dispComplete e (t.ev e)).cacheRefresh r) := by ccl
  have hr1 : ((((t.logE (Entry.disp e)).dispComplete e (t.ev e)).cacheRefresh r).comp r).root = r := by
    rw [cacheRefresh_root]
    have : (((t.logE (Entry.disp e)).dispComplete e (t.ev e)).comp r) = t.comp r := by
      unfold St.dispComplete
      split
      · split <;> rfl
      · rfl
    rw [this]; exact hr
  have hd1 := cacheRefresh_clean ((t.logE (Entry.disp e)).dispComplete e (t.ev e)) r
  generalize (((t.logE (Entry.disp e)).dispComplete e (t.ev e)).cacheRefresh r) = s1 at h1 hr1 hd1 ⊢
  obtain ⟨hlive, hlt, hK2⟩ := h1.k.lookupHandlers_live r (t.ev e).name (t.ev e).chans hr1 (fun h => h) hd1
  generalize (s1.lookupHandlers r (t.ev e).name (t.ev e).chans) = res at hlive hlt hK2 ⊢
  refine ⟨res.1, rfl, ?_⟩
  have hs : Same res.2 ((res.2.modComp r fun x => { x with currently := some e }).dispGE r e remaining (t.ev e).name) :=
    (Same.modComp res.2 r _ (by keep7)).trans (Same.dispGE _ _ _ _ _)
  rw [nonFallback_congr _ _ _ hs.recs hlt, hK2.fresh_same hs]
  exact hlive

/-- the step of a `.dispatcher r e _` frame whose `r` is its own root: the handler list handed to
    the handler loop is, apart from fallback records, `freshHandlers` of the state at that moment -/
theorem dispatcher_step_live {s0 : St} (hinit : K noE s0) (hF : ∀ c, Reach s0 c → TreeFacts c.st)
    (c : Cfg) (hc : Reach s0 c) (r e remaining : Nat) (k : List Frame)
    (hst : c.stack = .dispatcher r e remaining :: k) (hx : c.exn = none)
    (hr : (c.st.comp r).root = r) (hcan : (c.st.ev e).cancelled = false) :
    ∃ hs, (step c).stack = .hLoop r e hs false .none :: k ∧
      nonFallback (step c).st hs = freshHandlers (step c).st r (c.st.ev e).name (c.st.ev e).chans := by
  have hK : K noE c.st := by
    rcases (reach_P hinit hF c hc).inv with h | ⟨_, x, k', hst', _⟩
    · exact h
    · rw [hst] at hst'; cases hst'
  have hJ : J noE c.st := ⟨(hF c hc).tree, hK⟩
  obtain ⟨hs, h1, h2⟩ := hJ.dispatchPre_live r e remaining hr hcan
  refine ⟨hs, ?_, ?_⟩
  · rw [step_cons c _ k hst hx]
    dsimp only [stepFrame]
    unfold Cfg.dispatcher
    rw [h1]
    rfl
  · rw [step_cons c _ k hst hx]
    dsimp only [stepFrame]
    unfold Cfg.dispatcher
    rw [h1]
    exact h2

/-! ## what `freshHandlers` is -/

theorem mem_freshHandlers (s : St) (r : Nat) (name : Name) (chans : List Chan) (h : Nat) :
    h ∈ freshHandlers s r name chans ↔
      ∃ ch, ch ∈ chans ∧ ∃ d, ReachIn s s.comps.length r d ∧ matchesAt s d name ch h := by
  unfold freshHandlers
  rw [List.mem_mergeSort, List.mem_flatMap]
  constructor
  · rintro ⟨ch, hch, hm⟩
    exact ⟨ch, hch, (mem_collect s name ch h _ r).mp hm⟩
  · rintro ⟨ch, hch, hd⟩
    exact ⟨ch, hch, (mem_collect s name ch h _ r).mpr hd⟩

theorem freshHandlers_sorted (s : St) (r : Nat) (name : Name) (chans : List Chan) :
    (freshHandlers s r name chans).Pairwise
      (fun a b => (s.hs.getD a dfltHandler).prio ≥ (s.hs.getD b dfltHandler).prio) := by
  unfold freshHandlers
  have := List.pairwise_mergeSort
    (le := fun a b => decide ((s.hs.getD a dfltHandler).prio ≥ (s.hs.getD b dfltHandler).prio))
    (fun a b c hab hbc => by
      simp only [decide_eq_true_eq] at hab hbc ⊢
      omega)
    (fun a b => by
      simp only [Bool.or_eq_true, decide_eq_true_eq]
      omega)
    (chans.flatMap fun ch => collect s (s.comps.length + 1) r name ch)
  simpa using this

/-! ## executable forms of the hypotheses (for witnesses and non-vacuity examples) -/

instance (s : St) (h : Nat) : Decidable (s.plain h) := by unfold St.plain; infer_instance

/-- Boolean form of `detaching` -/
def detachingB (c : Cfg) (x : Nat) : Bool :=
  c.exn.isNone && match c.stack with
    | .prepUnregFin y :: _ => y == x
    | _ => false

theorem detaching_of_B (c : Cfg) (x : Nat) (h : detachingB c x = true) : detaching c x := by
  unfold detachingB at h
  simp only [Bool.and_eq_true, Option.isNone_iff_eq_none] at h
  refine ⟨h.1, ?_⟩
  have h2 := h.2
  split at h2
  · rename_i y k hst
    have : y = x := by simpa using h2
    exact ⟨k, this ▸ hst⟩
  · cases h2

theorem plain_tables_of_bounded (s : St)
    (h : ∀ c, c < s.comps.length →
      (∀ p, p ∈ (s.comp c).htab → s.plain p.2) ∧ (∀ g, g ∈ (s.comp c).globals → s.plain g)) :
    (∀ c k h, (k, h) ∈ (s.comp c).htab → s.plain h) ∧ (∀ c h, h ∈ (s.comp c).globals → s.plain h) := by
  constructor
  · intro c k x hm
    by_cases hc : c < s.comps.length
    · exact (h c hc).1 (k, x) hm
    · rw [St.comp_oob s c hc] at hm; cases hm
  · intro c x hm
    by_cases hc : c < s.comps.length
    · exact (h c hc).2 x hm
    · rw [St.comp_oob s c hc] at hm; cases hm

theorem caches_empty_of_bounded (s : St) (h : ∀ c, c < s.comps.length → (s.comp c).cache = []) :
    ∀ c, (s.comp c).cache = [] := by
  intro c
  by_cases hc : c < s.comps.length
  · exact h c hc
  · rw [St.comp_oob s c hc]; rfl

end CV.Core.Live

import CV.Proofs.Node
import CV.Proofs.NodeEvent
/-
Helper lemmas for C19 (two-party composition), part 1: the receiving side of one byte stream
whose sender keeps appending packets while the receiver is already reading.

`n2_Rx proc pkts R buf outs` : the sender has written the packets `pkts` so far, `R` are the
bytes still in flight, `buf` is the receiver's buffer and `outs` the packets it has processed.
-/
namespace CV
namespace Node

theorem n2_stream_append (a b : List Bytes) : stream (a ++ b) = stream a ++ stream b := by
  simp [stream]

theorem n2_stream_single (p : Bytes) : stream [p] = p ++ DELIM := by
  simp [stream]

/-- the framing invariant does not depend on what the sender appends later -/
theorem n2_inv_append {proc : Bytes → POut} {X R buf : Bytes} {outs : List Bytes} (Z : Bytes)
    (h : Inv proc X R buf outs) : Inv proc X (R ++ Z) buf outs := by
  cases h with
  | plain hb ho => exact .plain hb ho
  | early p t y hs hb hl hp hd ho hy =>
    exact .early p t (y ++ Z) hs hb hl hp hd ho (by rw [← List.append_assoc, hy, List.append_assoc])

def n2_Rx (proc : Bytes → POut) (pkts : List Bytes) (R buf : Bytes) (outs : List Bytes) : Prop :=
  ∃ X, stream pkts = X ++ R ∧ Inv proc X R buf outs

theorem n2_rx_init (proc : Bytes → POut) : n2_Rx proc [] [] [] [] :=
  ⟨[], by simp [stream], .plain (by simp [splitD_nil]) (by simp [splitD_nil, okPieces])⟩

/-- the sender writes one more packet -/
theorem n2_rx_write {proc : Bytes → POut} {pkts : List Bytes} {R buf : Bytes} {outs : List Bytes}
    (p : Bytes) (h : n2_Rx proc pkts R buf outs) :
    n2_Rx proc (pkts ++ [p]) (R ++ (p ++ DELIM)) buf outs := by
  obtain ⟨X, hX, hI⟩ := h
  refine ⟨X, ?_, n2_inv_append _ hI⟩
  rw [n2_stream_append, n2_stream_single, hX, List.append_assoc]

/-- the receiver reads the next `d` bytes -/
theorem n2_rx_read {proc : Bytes → POut} (hC : CodecOK proc) {pkts : List Bytes}
    (hG : ∀ p ∈ pkts, Good proc p) {d R buf : Bytes} {outs : List Bytes}
    (h : n2_Rx proc pkts (d ++ R) buf outs) :
    (feed proc buf d).aborted = false ∧
      n2_Rx proc pkts R (feed proc buf d).buf (outs ++ (feed proc buf d).done) := by
  obtain ⟨X, hX, hI⟩ := h
  obtain ⟨hS, _⟩ := stream_good hC pkts hG
  obtain ⟨h1, h2⟩ := feed_step hC hS hX hI
  exact ⟨h1, X ++ d, by rw [hX]; simp, h2⟩

theorem n2_okPieces_all {proc : Bytes → POut} {l : List Bytes} (h : ∀ p ∈ l, proc p = .done) :
    okPieces proc l = l := by
  unfold okPieces
  apply List.filter_eq_self.mpr
  intro p hp; simp [h p hp]

/-- what has been processed is always an initial part of what has been written -/
theorem n2_rx_prefix {proc : Bytes → POut} (hC : CodecOK proc) {pkts : List Bytes}
    (hG : ∀ p ∈ pkts, Good proc p) {R buf : Bytes} {outs : List Bytes}
    (h : n2_Rx proc pkts R buf outs) : outs <+: pkts := by
  obtain ⟨X, hX, hI⟩ := h
  obtain ⟨_, hsplit⟩ := stream_good hC pkts hG
  have hsp := splitD_append X R
  rw [← hX, hsplit] at hsp
  have h1 : pkts = (splitD X).1 ++ (splitD ((splitD X).2 ++ R)).1 := by
    have := congrArg Prod.fst hsp; simpa using this
  have hpre : (splitD X).1 <+: pkts := ⟨_, h1.symm⟩
  have hall : okPieces proc (splitD X).1 = (splitD X).1 := by
    apply n2_okPieces_all
    intro p hp
    exact (hG p (hpre.subset hp)).done
  cases hI with
  | plain hb ho => rw [ho, hall]; exact hpre
  | early p t y hs hb hl hp hd ho hy =>
    rw [ho, hall]
    have : (splitD X).2 ++ R = p ++ (DELIM ++ y) := by rw [hs, List.append_assoc, hy]
    rw [this, splitD_pkt hp] at h1
    exact ⟨(splitD y).1, by rw [h1]; simp⟩

/-- nothing in flight: the buffer is empty and every packet has been processed -/
theorem n2_rx_done {proc : Bytes → POut} (hC : CodecOK proc) {pkts : List Bytes}
    (hG : ∀ p ∈ pkts, Good proc p) {buf : Bytes} {outs : List Bytes}
    (h : n2_Rx proc pkts [] buf outs) : buf = [] ∧ outs = pkts := by
  obtain ⟨X, hX, hI⟩ := h
  obtain ⟨_, hsplit⟩ := stream_good hC pkts hG
  simp at hX
  rw [hX] at hsplit
  cases hI with
  | plain hb ho =>
    rw [hsplit] at hb ho
    refine ⟨hb, ?_⟩
    rw [ho]
    exact n2_okPieces_all (fun p hp => (hG p hp).done)
  | early p t y hs hb hl hp hd ho hy =>
    exfalso
    have : (t ++ ([] : Bytes)).length = (DELIM ++ y).length := by rw [hy]
    simp [DELIM] at this
    omega

/-- splitting a longer prefix of a mapped list -/
theorem n2_prefix_split {α β : Type} (f : α → β) (l : List α) (k : Nat) (dn : List β)
    (hk : k ≤ l.length) (h : (l.take k).map f ++ dn <+: l.map f) :
    ∃ m, k ≤ m ∧ m ≤ l.length ∧ dn = ((l.take m).drop k).map f ∧
      (l.take k).map f ++ dn = (l.take m).map f := by
  obtain ⟨t, ht⟩ := h
  have hl : l.map f = (l.take k).map f ++ (l.drop k).map f := by
    rw [← List.map_append, List.take_append_drop]
  rw [hl, List.append_assoc] at ht
  have h2 : dn ++ t = (l.drop k).map f := List.append_cancel_left ht
  have hlen : dn.length + t.length = l.length - k := by
    have := congrArg List.length h2; simpa using this
  have hdn : dn = ((l.drop k).take dn.length).map f := by
    have := congrArg (List.take dn.length) h2
    simpa [List.map_take] using this
  refine ⟨k + dn.length, by omega, by omega, ?_, ?_⟩
  · rw [hdn]; congr 1
    simp [List.drop_take]
  · have e : l.take (k + dn.length) = l.take k ++ (l.drop k).take dn.length := by
      rw [List.take_add]
    rw [e, List.map_append, ← hdn]

end Node
end CV

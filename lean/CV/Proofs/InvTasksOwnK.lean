import CV.Proofs.InvTasksK
import CV.Proofs.InvTasksMain
/-
waitingHandlers accounting, part 17: the relation `St.T46K` for the helpers that register tasks or overwrite generators
(each under the range / kind hypothesis it needs about the state it is applied to).
-/
namespace CV.Core

theorem St.t46_gen_addGen_eq (s : St) (x : GenRec) : (s.addGen x).gen s.gens.length = x := by
  unfold St.addGen St.gen
  simp [List.getD_eq_getElem?_getD]

theorem St.T46TaskOk.none (s : St) (e g : Nat) (he : e < s.evs.length) : s.T46TaskOk ⟨e, g, none⟩ :=
  ⟨he, fun h => (by cases h), fun _ h => (by cases h)⟩

theorem St.t46_nc.addGen {s : St} {p : Nat} (h : s.t46_nc p) (x : GenRec) : (s.addGen x).t46_nc p :=
  ⟨by show p < (s.gens ++ [x]).length; simp; exact Nat.lt_succ_of_lt h.1, by rw [St.t46_gen_addGen_lt s x p h.1]; exact h.2⟩

/-- two `modWait`s on the same wait state, the second of which puts an existing event into `taskEvent` -/
theorem St.T46K.modWait2Set {s t : St} (h : St.T46K s t) (w : Nat) (F G : WaitSt → WaitSt)
    (hG : ∀ y, t.T46WaitOk (G y)) : St.T46K s ((t.modWait w F).modWait w G) := by
  refine h.trans ⟨Nat.le_refl _, Nat.le_refl _, fun _ _ => rfl, fun _ _ ht => Or.inl ht, fun w' hw => ?_⟩
  rw [St.t46_wait_modWait] at hw ⊢
  split
  · exact Or.inr (hG _)
  · rename_i hc
    rw [if_neg hc] at hw
    rw [St.t46_wait_modWait] at hw ⊢
    have hl : (t.modWait w F).waits.length = t.waits.length := by simp [St.modWait]
    rw [hl] at hc
    rw [if_neg hc] at hw ⊢
    exact Or.inl ⟨hw, rfl, rfl⟩

theorem St.t46_startWait_K2 (s : St) (w : Nat) (G : WaitSt → WaitSt) (e pg : Nat)
    (hG : ∀ y, (G y).taskEvent = e ∧ (G y).parentGen = pg)
    (he : e < s.evs.length) (hpg : s.t46_nc pg) : St.T46K s ((s.startWait w).modWait w G) := by
  unfold St.startWait
  (try dsimp only)
  have key : ∀ (u : St) (F : WaitSt → WaitSt), St.T46K s u → St.T46K s ((u.modWait w F).modWait w G) :=
    fun u F hu => hu.modWait2Set w F G (fun y => by
      unfold St.T46WaitOk
      rw [(hG y).1, (hG y).2]
      exact ⟨Nat.lt_of_lt_of_le he hu.evs, hpg.mono hu⟩)
  apply key
  t46k

theorem St.t46_applyValue_K (s : St) (r e : Nat) (v : Outcome) (he : ∀ g, v = .gen g → e < s.evs.length) :
    St.T46K s (s.applyValue r e v) := by
  unfold St.applyValue
  split
  · t46k
  · rename_i g
    refine St.T46K.registerTask (St.T46K.modEv (St.T46K.refl s) _ _) r _ ?_
    exact St.T46TaskOk.none _ e g (by simpa [St.modEv] using he g rfl)
  · t46k
  · t46k

theorem St.t46_onWaitDone_K (s : St) (w e : Nat) (hte : (s.wait w).taskEvent < s.evs.length)
    (hg : (s.wait w).task < s.gens.length ∧ (s.gen (s.wait w).task).t46_carrier = true)
    (hpn : s.t46_nc (s.wait w).parentGen) :
    St.T46K s (s.onWaitDone w e).2 := by
  unfold St.onWaitDone
  dsimp only
  have hS1 : St.T46K s ((s.modWait w fun x => { x with flag := true }).registerTask (s.wait w).owner
      ⟨(s.wait w).taskEvent, (s.wait w).task, some (s.wait w).parentGen⟩) := by
    apply St.T46K.registerTask
    case hx => exact ⟨hte, fun _ => hg, fun p hp => by cases hp; exact hpn⟩
    t46k
  split
  · split
    · split
      · split <;> t46k
      · t46k
    · t46k
  · exact St.T46K.refl s

theorem St.t46_onWaitTick_K (s : St) (w : Nat) (hte : (s.wait w).taskEvent < s.evs.length)
    (hpn : s.t46_nc (s.wait w).parentGen) :
    St.T46K s (s.onWaitTick w).2 := by
  unfold St.onWaitTick
  dsimp only
  split
  · exact St.T46K.refl s
  · split
    · have hS1 : St.T46K s (((s.modWait w fun x => { x with timedOut := true }).addGen (.exc w false)).registerTask
          (s.wait w).owner ⟨(s.wait w).taskEvent, s.gens.length, some (s.wait w).parentGen⟩) := by
        apply St.T46K.registerTask
        case h => t46k
        refine ⟨hte, fun _ => ⟨?_, ?_⟩, fun p hp => by
          cases hp
          exact St.t46_nc.addGen (s := s.modWait w fun x => { x with timedOut := true }) hpn _⟩
        · show s.gens.length < (s.gens ++ [GenRec.exc w false]).length
          simp
        · have := St.t46_gen_addGen_eq (s.modWait w fun x => { x with timedOut := true }) (.exc w false)
          rw [show (s.modWait w fun x => { x with timedOut := true }).gens.length = s.gens.length from rfl] at this
          rw [this]; rfl
      t46k
    · split
      · t46k
      · exact St.T46K.refl s

theorem St.t46_stopIteration_K (s : St) (r : Nat) (t : Task) (he : t.e < s.evs.length) :
    St.T46K s (s.stopIteration r t).2 := by
  rcases St.t46_stopIteration_cases s r t with ⟨p, _, h⟩ | ⟨_, h | h⟩ <;> rw [h] <;> unfold St.t46_stop1
  · refine St.T46K.registerTask (St.T46K.unregisterTask (St.T46K.modEv (St.T46K.refl s) _ _) _ _) r _ ?_
    exact St.T46TaskOk.none _ _ _ (by simpa [St.modEv, St.unregisterTask, St.modComp] using he)
  · t46k
  · t46k

theorem St.t46_ownSub_K (s : St) (r : Nat) (t : Task) (w : Nat) (he : t.e < s.evs.length) (hg : s.t46_nc t.g) :
    St.T46K s (s.ownSub r t w) := by
  unfold St.ownSub
  dsimp only
  refine St.T46K.trans (?_ : St.T46K s ((s.modEv t.e fun x => { x with waiting := x.waiting + 1 }).unregisterTask r
    ⟨t.e, t.g, none⟩)) (St.t46_startWait_K2 _ w _ t.e t.g (fun _ => ⟨rfl, rfl⟩) ?_ ?_)
  · t46k
  · simpa [St.modEv, St.unregisterTask, St.modComp] using he
  · exact hg

theorem St.t46_parentSub_K (s : St) (r : Nat) (t : Task) (p w2 : Nat) (v : Bool) (he : t.e < s.evs.length)
    (hp : s.t46_nc p) : St.T46K s (s.parentSub r t p w2 v) := by
  unfold St.parentSub
  by_cases hv : v = true
  · rw [if_pos hv]
    refine St.T46K.registerTask (St.T46K.addGen (St.T46K.refl s) _) r _
      ⟨he, fun _ => ⟨?_, ?_⟩, fun p' hp' => by cases hp'; exact hp.addGen _⟩
    · show s.gens.length < (s.gens ++ [GenRec.one none false]).length
      simp
    · rw [St.t46_gen_addGen_eq]; rfl
  · rw [if_neg hv]
    exact St.t46_startWait_K2 s w2 _ t.e p (fun _ => ⟨rfl, rfl⟩) he hp

theorem St.t46_parentPlain_K (s : St) (r : Nat) (t : Task) (p : Nat) (v : Option Nat) (vt : Bool) (he : t.e < s.evs.length)
    (hp : s.t46_nc p) : St.T46K s (s.parentPlain r t p v vt) := by
  unfold St.parentPlain
  by_cases hv : vt = true
  · rw [if_pos hv]
    refine St.T46K.registerTask (St.T46K.addGen (St.T46K.refl s) _) r _
      ⟨he, fun _ => ⟨?_, ?_⟩, fun p' hp' => by cases hp'; exact hp.addGen _⟩
    · show s.gens.length < (s.gens ++ [GenRec.one v false]).length
      simp
    · rw [St.t46_gen_addGen_eq]; rfl
  · rw [if_neg hv]
    have h1 : St.T46K s ((s.modEv t.e fun x => { x with waiting := x.waiting - 1 }).setValueOpt t.e v) := by t46k
    exact St.T46K.registerTask h1 r _ (St.T46TaskOk.none _ _ _ (Nat.lt_of_lt_of_le he h1.evs))

theorem St.t46_resumeGenPre_K (s : St) (g : Nat) (silent : Bool) : St.T46K s (s.resumeGenPre g silent) := by
  unfold St.resumeGenPre
  split
  · rename_i e h o rest st pc sd hg
    have hx : ∀ y : GenRec, (∃ a b c d e' f g', y = .user a b c d e' f g') → y.t46_carrier = (s.gen g).t46_carrier := by
      rintro y ⟨a, b, c, d, e', f, g', rfl⟩; rw [hg]; rfl
    split
    · exact St.T46K.setGen (St.T46K.refl s) g _ (hx _ ⟨_, _, _, _, _, _, _, rfl⟩)
    · split
      · exact St.T46K.logE (St.T46K.setGen (St.T46K.refl s) g _ (hx _ ⟨_, _, _, _, _, _, _, rfl⟩)) _
      · exact St.T46K.setGen (St.T46K.refl s) g _ (hx _ ⟨_, _, _, _, _, _, _, rfl⟩)
  · exact St.T46K.refl s

end CV.Core

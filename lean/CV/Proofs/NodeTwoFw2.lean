import CV.Proofs.NodeTwoFw
/-
C19, two-party composition with a rejecting receive firewall on B, part 2: preservation of the
invariant `n2f_Inv` by deliveries, handler returns and generator polls.
-/
namespace CV
namespace Node

theorem n2f_filter_filter (acc : Nat → Bool) (l ao : List Nat) (n : Nat) :
    (l.filter (fun i => acc i && !decide (i ∈ ao))).filter (fun i => !decide (i = n)) =
      l.filter (fun i => acc i && !decide (i ∈ ao ++ [n])) := by
  rw [List.filter_filter]
  apply List.filter_congr
  intro i _
  cases acc i <;> simp [Bool.and_comm]

section
variable {E : n2_Env} {calls : List Ev}

theorem n2f_inv_deliverAB (H : n2f_Hyp E calls) {w : n2_World} {s kB kA : Nat} {ao yo : List Nat}
    (I : n2f_Inv E calls w s kB kA ao yo) (n : Nat) :
    n2f_Reach E calls (n2_step E w (.deliverAB n)) := by
  have hG : ∀ p ∈ (List.range s).map (n2_callPkt E calls), Good E.proc p := by
    intro p hp
    obtain ⟨i, hi, rfl⟩ := List.mem_map.mp hp
    exact H.callGood i (by have := List.mem_range.mp hi; have := I.hs; omega)
  have hrx : n2_Rx E.proc ((List.range s).map (n2_callPkt E calls)) (w.ab.take n ++ w.ab.drop n) w.b.buf
      ((List.range kB).map (n2_callPkt E calls)) := by
    rw [List.take_append_drop]; exact I.rxB
  obtain ⟨hab, hrx'⟩ := n2_rx_read H.codec hG hrx
  have hpre := n2_rx_prefix H.codec hG hrx'
  rw [← n2_take_range s kB I.kBs] at hpre
  obtain ⟨m, hkm, hms, hdn, hall⟩ := n2_prefix_split _ _ _ _ (by simpa using I.kBs) hpre
  simp only [List.length_range] at hms
  rw [n2_range_seg s m kB hkm hms] at hdn
  rw [n2_take_range s kB I.kBs, n2_take_range s m hms] at hall
  rw [hall] at hrx'
  have hlt : ∀ i ∈ List.range' kB (m - kB), i < calls.length := by
    intro i hi
    have := (List.mem_range'_1.mp hi).2
    have := I.hs
    omega
  have hproc := n2f_procB E calls H w.b _ hlt
  have hfl : w.fired.length = n2f_rank E calls kB := by rw [I.fired]; simp [n2f_rank]
  -- the calls refused in this read
  obtain ⟨nw, hnwdef⟩ : ∃ nw, nw = (List.range' kB (m - kB)).filter (fun i => !n2f_acc E calls i) := ⟨_, rfl⟩
  have hnw : ∀ i, i ∈ nw ↔ (kB ≤ i ∧ i < m) ∧ n2f_acc E calls i = false := by
    intro i
    rw [hnwdef, List.mem_filter, List.mem_range'_1]
    have : kB + (m - kB) = m := by omega
    rw [this]
    simp
  refine ⟨s, m, kA, ao ++ nw, yo, ?_⟩
  have hfeed : feed (procOf E.cB.excl E.parse) w.b.buf (List.take n w.ab) =
      feed E.proc w.b.buf (List.take n w.ab) := rfl
  simp only [n2_step, n2_recv_eq, hfeed, hdn, hproc, hab]
  rw [n2f_absorbB E calls (m - kB) kB _ (by exact hfl), ← hnwdef]
  have htake : (ao ++ nw).take kA = ao.take kA := List.take_append_of_le_length I.kAle
  have h1 : (List.range kB).filter (fun i => n2f_acc E calls i && !decide (i ∈ ao ++ nw)) =
      (List.range kB).filter (fun i => n2f_acc E calls i && !decide (i ∈ ao)) := by
    apply List.filter_congr
    intro i hi
    have hik := List.mem_range.mp hi
    have : i ∉ nw := fun h => by have := ((hnw i).mp h).1.1; omega
    simp [this]
  have h2 : (List.range' kB (m - kB)).filter (fun i => n2f_acc E calls i && !decide (i ∈ ao ++ nw)) =
      (List.range' kB (m - kB)).filter (n2f_acc E calls) := by
    apply List.filter_congr
    intro i hi
    have hik := (List.mem_range'_1.mp hi).1
    have hiao : i ∉ ao := fun h => by have := I.aoLt i h; omega
    cases ha : n2f_acc E calls i with
    | false => simp
    | true =>
      have : i ∉ nw := fun h => by have := ((hnw i).mp h).2; rw [ha] at this; cases this
      simp [hiao, this]
  exact {
    hs := I.hs
    todo := I.todo
    anid := I.anid
    kBs := hms
    rxB := hrx'
    fired := by
      simp only [I.fired]
      rw [n2_range_split m kB hkm, List.filter_append, List.map_append]
    running := by
      simp only [I.running]
      rw [n2_range_split m kB hkm, List.filter_append, List.map_append, h1, h2]
    aoN := by
      rw [List.nodup_append]
      refine ⟨I.aoN, ?_, ?_⟩
      · rw [hnwdef]; exact List.Nodup.sublist List.filter_sublist List.nodup_range'
      · intro a ha b hb e
        have := I.aoLt a ha
        have := ((hnw b).mp hb).1.1
        omega
    aoLt := by
      intro i hi
      rcases List.mem_append.mp hi with h | h
      · exact Nat.lt_of_lt_of_le (I.aoLt i h) hkm
      · exact ((hnw i).mp h).1.2
    rej := by
      intro i him hacc
      by_cases hik : i < kB
      · exact List.mem_append_left _ (I.rej i hik hacc)
      · exact List.mem_append_right _ ((hnw i).mpr ⟨⟨by omega, him⟩, hacc⟩)
    kAle := by rw [List.length_append]; have := I.kAle; omega
    rxA := by
      rw [htake, List.map_append]
      exact n2f_rx_writes _ I.rxA
    resolved := by rw [htake]; exact I.resolved
    yoN := I.yoN
    yoSub := by rw [htake]; exact I.yoSub
    pending := by rw [htake]; exact I.pending
    yielded := I.yielded
    bpend := I.bpend
    nab := by simp [I.nab] }

theorem n2f_natKey_run (n i : Nat) :
    ((n2f_expRun E calls i).2.1.natKey == some n) = (i == n) := by
  simp [n2f_expRun, n2_idJ, J.natKey]

theorem n2f_inv_answer (H : n2f_Hyp E calls) {w : n2_World} {s kB kA : Nat} {ao yo : List Nat}
    (I : n2f_Inv E calls w s kB kA ao yo) (n : Nat) :
    n2f_Reach E calls (n2_step E w (.answer n)) := by
  have hfind := n2_find_map (n2f_expRun E calls) (fun r => r.2.1.natKey == some n) n
    (fun i => n2f_natKey_run n i)
    ((List.range kB).filter (fun i => n2f_acc E calls i && !decide (i ∈ ao)))
  rw [← I.running] at hfind
  by_cases hn : n ∈ (List.range kB).filter (fun i => n2f_acc E calls i && !decide (i ∈ ao))
  · rw [if_pos hn] at hfind
    have hnd : ((List.range kB).filter (fun i => n2f_acc E calls i && !decide (i ∈ ao))).Nodup :=
      List.Nodup.sublist List.filter_sublist List.nodup_range
    have herase := n2_eraseP_map (n2f_expRun E calls) (fun r => r.2.1.natKey == some n) n
      (fun i => n2f_natKey_run n i) _ hnd
    rw [← I.running, n2f_filter_filter] at herase
    obtain ⟨hnk, hnacc, hnao⟩ : n < kB ∧ n2f_acc E calls n = true ∧ n ∉ ao := by simpa using hn
    have htake : (ao ++ [n]).take kA = ao.take kA := List.take_append_of_le_length I.kAle
    have hbeh : E.beh (n2f_rank E calls n) (n2_evB E calls n) = some (n2f_val E calls n, n2f_ats E calls n) := by
      have := H.returns n (by have := I.kBs; have := I.hs; omega) hnacc
      cases hb : E.beh (n2f_rank E calls n) (n2_evB E calls n) with
      | none => rw [hb] at this; cases this
      | some va => simp [n2f_val, n2f_ats, hb, hnacc]
    refine ⟨s, kB, kA, ao ++ [n], yo, ?_⟩
    simp only [n2_step, n2_takeAnswer, hfind, n2f_expRun, n2_resultHandler, if_true, herase, hbeh]
    exact {
      hs := I.hs
      todo := I.todo
      anid := I.anid
      kBs := I.kBs
      rxB := I.rxB
      fired := I.fired
      running := rfl
      aoN := by
        rw [List.nodup_append]
        refine ⟨I.aoN, by simp, ?_⟩
        intro a ha b hb
        simp at hb; subst hb
        intro e; subst e; exact hnao ha
      aoLt := by
        intro i hi
        rcases List.mem_append.mp hi with h | h
        · exact I.aoLt i h
        · simp at h; subst h; exact hnk
      rej := fun i hi ha => List.mem_append_left _ (I.rej i hi ha)
      kAle := by simp; have := I.kAle; omega
      rxA := by
        rw [htake]
        have := n2_rx_write (n2f_ansPkt E calls n) I.rxA
        simpa [n2_wire, wire, sendResult, n2f_ansPkt, n2f_ansJ, n2_Env.cB] using this
      resolved := by rw [htake]; exact I.resolved
      yoN := I.yoN
      yoSub := by rw [htake]; exact I.yoSub
      pending := by rw [htake]; exact I.pending
      yielded := I.yielded
      bpend := I.bpend
      nab := I.nab }
  · rw [if_neg hn] at hfind
    refine ⟨s, kB, kA, ao, yo, ?_⟩
    simp only [n2_step, n2_takeAnswer, hfind]
    exact I

theorem n2f_inv_deliverBA' (H : n2f_Hyp E calls) {w : n2_World} {s kB kA : Nat} {ao yo : List Nat}
    (I : n2f_Inv E calls w s kB kA ao yo) (n : Nat) :
    n2f_Reach E calls (n2_step E w (.deliverBA n)) ∧
      (n2_step E w (.deliverBA n)).todo = w.todo ∧ (n2_step E w (.deliverBA n)).ab = w.ab ∧
      (n2_step E w (.deliverBA n)).running = w.running ∧ (n2_step E w (.deliverBA n)).ba = w.ba.drop n := by
  have haoN : ∀ i ∈ ao, i < calls.length := by
    intro i hi
    have := I.aoLt i hi; have := I.kBs; have := I.hs; omega
  have hG : ∀ p ∈ ao.map (n2f_ansPkt E calls), Good E.proc p := by
    intro p hp
    obtain ⟨i, hi, rfl⟩ := List.mem_map.mp hp
    exact H.ansGood i (haoN i hi)
  have hrx : n2_Rx E.proc (ao.map (n2f_ansPkt E calls)) (w.ba.take n ++ w.ba.drop n) w.a.buf
      ((ao.take kA).map (n2f_ansPkt E calls)) := by
    rw [List.take_append_drop]; exact I.rxA
  obtain ⟨hab, hrx'⟩ := n2_rx_read H.codec hG hrx
  have hpre := n2_rx_prefix H.codec hG hrx'
  obtain ⟨m, hkm, hml, hdn, hall⟩ := n2_prefix_split _ _ _ _ I.kAle hpre
  rw [hall] at hrx'
  -- the answers processed by this read
  have hsplit : ao.take m = ao.take kA ++ (ao.take m).drop kA := by
    have := (List.take_append_drop kA (ao.take m)).symm
    rwa [List.take_take, Nat.min_eq_left hkm] at this
  have hndm : (ao.take m).Nodup := List.Nodup.sublist (List.take_sublist _ _) I.aoN
  rw [hsplit] at hndm
  have hnd := List.nodup_append.mp hndm
  have hmem : ∀ i ∈ (ao.take m).drop kA, i ∈ ao := fun i hi =>
    List.mem_of_mem_take (List.mem_of_mem_drop hi)
  have hcond : ∀ i ∈ (ao.take m).drop kA,
      i ∈ (List.range s).filter (fun i => !decide (i ∈ yo)) ∧ i ∉ ao.take kA ∧ i < calls.length := by
    intro i hi
    have hnot : i ∉ ao.take kA := fun h => hnd.2.2 i h i hi rfl
    refine ⟨?_, hnot, haoN i (hmem i hi)⟩
    have h1 := I.aoLt i (hmem i hi)
    have h2 := I.kBs
    have h3 : i ∉ yo := fun h => hnot (I.yoSub i h)
    simp [h3]; omega
  have hproc := n2f_procA E calls H _ _ (ao.take kA) w.a hnd.2.1 hcond I.pending
  rw [← hsplit] at hproc
  have hfeed : feed (procOf E.cA.excl E.parse) w.a.buf (List.take n w.ba) =
      feed E.proc w.a.buf (List.take n w.ba) := rfl
  simp only [n2_step, n2_recv_eq, hfeed, hdn, hproc, hab]
  rw [n2f_absorbA_resolves]
  refine ⟨⟨s, kB, m, ao, yo, ?_⟩, rfl, rfl, rfl, rfl⟩
  exact {
    hs := I.hs
    todo := I.todo
    anid := I.anid
    kBs := I.kBs
    rxB := I.rxB
    fired := I.fired
    running := I.running
    aoN := I.aoN
    aoLt := I.aoLt
    rej := I.rej
    kAle := hml
    rxA := hrx'
    resolved := by
      simp only [I.resolved]
      rw [← List.map_append, ← hsplit]
    yoN := I.yoN
    yoSub := fun i hi => by
      have := I.yoSub i hi
      rw [hsplit]; exact List.mem_append_left _ this
    pending := rfl
    yielded := I.yielded
    bpend := I.bpend
    nab := by simp [I.nab] }

theorem n2f_inv_deliverBA (H : n2f_Hyp E calls) {w : n2_World} {s kB kA : Nat} {ao yo : List Nat}
    (I : n2f_Inv E calls w s kB kA ao yo) (n : Nat) :
    n2f_Reach E calls (n2_step E w (.deliverBA n)) := (n2f_inv_deliverBA' H I n).1

theorem n2f_pend_id (D : List Nat) (i : Nat) : (n2f_expPend E calls D i).id = i := by
  unfold n2f_expPend; split <;> rfl

theorem n2f_inv_poll' {w : n2_World} {s kB kA : Nat} {ao yo : List Nat}
    (I : n2f_Inv E calls w s kB kA ao yo) (n : Nat) :
    ∃ yo', n2f_Inv E calls (n2_step E w (.poll n)) s kB kA ao yo' ∧ (∀ i ∈ yo, i ∈ yo') ∧
      (n < s → n ∈ ao.take kA → n ∈ yo') := by
  have hfind := n2_find_map (n2f_expPend E calls (ao.take kA)) (fun p => decide (p.id = n)) n
    (fun i => by rw [n2f_pend_id]; by_cases h : i = n <;> simp [h]) ((List.range s).filter (fun i => !decide (i ∈ yo)))
  rw [← I.pending] at hfind
  by_cases hn : n ∈ (List.range s).filter (fun i => !decide (i ∈ yo))
  · rw [if_pos hn] at hfind
    by_cases hD : n ∈ ao.take kA
    · obtain ⟨hns, hny⟩ : n < s ∧ n ∉ yo := by simpa using hn
      refine ⟨yo ++ [n], ?_, fun i hi => List.mem_append_left _ hi, fun _ _ => by simp⟩
      have hfin : (n2f_expPend E calls (ao.take kA) n).finished = true := by simp [n2f_expPend, hD]
      simp only [n2_step, poll, hfind, hfin, if_true]
      exact {
        hs := I.hs
        todo := I.todo
        anid := I.anid
        kBs := I.kBs
        rxB := I.rxB
        fired := I.fired
        running := I.running
        aoN := I.aoN
        aoLt := I.aoLt
        rej := I.rej
        kAle := I.kAle
        rxA := I.rxA
        resolved := I.resolved
        yoN := by
          rw [List.nodup_append]
          refine ⟨I.yoN, by simp, ?_⟩
          intro a ha b hb
          simp at hb; subst hb
          intro e; subst e; exact hny ha
        yoSub := by
          intro i hi
          rcases List.mem_append.mp hi with h | h
          · exact I.yoSub i h
          · simp at h; subst h; exact hD
        pending := by
          simp only [finish, I.pending, List.filter_map]
          rw [← n2_filter_filter]
          congr 1
          apply List.filter_congr
          intro i _
          simp [n2f_pend_id]
        yielded := by
          simp [I.yielded, n2f_expYield, n2f_expPend, hD]
        bpend := I.bpend
        nab := I.nab }
    · refine ⟨yo, ?_, fun i hi => hi, fun _ h => absurd h hD⟩
      have hfin : (n2f_expPend E calls (ao.take kA) n).finished = false := by simp [n2f_expPend, hD]
      simp only [n2_step, poll, hfind, hfin]
      exact I
  · rw [if_neg hn] at hfind
    refine ⟨yo, ?_, fun i hi => hi, fun h1 _ => ?_⟩
    rotate_left
    · have : n ∈ yo := by
        have : ¬ (n < s ∧ n ∉ yo) := by simpa using hn
        exact Classical.byContradiction fun h => this ⟨h1, h⟩
      exact this
    simp only [n2_step, poll, hfind]
    exact I

theorem n2f_inv_poll (_H : n2f_Hyp E calls) {w : n2_World} {s kB kA : Nat} {ao yo : List Nat}
    (I : n2f_Inv E calls w s kB kA ao yo) (n : Nat) :
    n2f_Reach E calls (n2_step E w (.poll n)) := by
  obtain ⟨yo', I', _⟩ := n2f_inv_poll' I n
  exact ⟨s, kB, kA, ao, yo', I'⟩

/-- every step of every schedule keeps the invariant -/
theorem n2f_reach_step (H : n2f_Hyp E calls) {w : n2_World} (h : n2f_Reach E calls w) (st : n2_Step) :
    n2f_Reach E calls (n2_step E w st) := by
  obtain ⟨s, kB, kA, ao, yo, I⟩ := h
  cases st with
  | send => exact n2f_inv_send H I
  | deliverAB n => exact n2f_inv_deliverAB H I n
  | answer n => exact n2f_inv_answer H I n
  | deliverBA n => exact n2f_inv_deliverBA H I n
  | poll n => exact n2f_inv_poll H I n

theorem n2f_reach_run (H : n2f_Hyp E calls) (sched : List n2_Step) :
    ∀ {w : n2_World}, n2f_Reach E calls w → n2f_Reach E calls (n2_run E w sched) := by
  induction sched with
  | nil => intro w h; exact h
  | cons st r ih => intro w h; exact ih (n2f_reach_step H h st)

end

end Node
end CV

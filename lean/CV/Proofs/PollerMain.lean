import CV.Proofs.PollerRound
/-
C10: every operation keeps the simulation and shows the observer only allowed events;
hence every run of every poller model satisfies the trace predicate of PollerSpec.
-/
namespace CV
namespace Poller

theorem outOf_fst (r : State × Bool) : (outOf r).1 = r.1 := rfl

theorem known_eq {s : State} {σ : Spec} (h : Rel s σ) (o : Obj) : σ.w.known o = s.w.known o := by rw [h.w]

theorem select_no_disconnect (s : State) (rd) : disconnected (selectRound s rd).2 = [] := by
  apply disconnected_nil_of
  unfold selectRound
  split
  · simp
  · intro e he
    simp only [List.mem_append, List.mem_map] at he
    rcases he with ⟨o, _, rfl⟩ | ⟨o, _, rfl⟩ <;> simp

theorem step_sim {s : State} {σ : Spec} (op : Op) (h : Rel s σ) (p : PInv s) :
    obsOk σ op (step s op).2 = true ∧ Rel (step s op).1 (σ.advance op (step s op).2) := by
  cases op with
  | addReader o c =>
    refine ⟨rfl, ?_⟩
    simp only [step, Spec.advance, Spec.valid, known_eq h]
    by_cases k : s.w.known o = true
    · simp only [k, if_true, outOf_fst]
      obtain ⟨a, b, c', d, e⟩ := updateRegistration_frame (pinvx_addReader (c := c) p k)
      exact rel_of_frame (rel_addReader o c h k) a b c' d e
    · simp only [k]; exact h
  | addWriter o c =>
    refine ⟨rfl, ?_⟩
    simp only [step, Spec.advance, Spec.valid, known_eq h]
    by_cases k : s.w.known o = true
    · simp only [k, if_true, outOf_fst]
      obtain ⟨a, b, c', d, e⟩ := updateRegistration_frame (pinvx_addWriter (c := c) p k)
      exact rel_of_frame (rel_addWriter o c h k) a b c' d e
    · simp only [k]; exact h
  | removeReader o =>
    refine ⟨rfl, ?_⟩
    simp only [step, Spec.advance, Spec.valid, known_eq h]
    by_cases k : s.w.known o = true
    · simp only [k, if_true, outOf_fst]
      obtain ⟨a, b, c', d, e⟩ := updateRegistration_frame (pinvx_removeReader (o := o) p)
      exact rel_of_frame (rel_removeReader o h) a b c' d e
    · simp only [k]; exact h
  | removeWriter o =>
    refine ⟨rfl, ?_⟩
    simp only [step, Spec.advance, Spec.valid, known_eq h]
    by_cases k : s.w.known o = true
    · simp only [k, if_true, outOf_fst]
      obtain ⟨a, b, c', d, e⟩ := updateRegistration_frame (pinvx_removeWriter (o := o) p)
      exact rel_of_frame (rel_removeWriter o h) a b c' d e
    · simp only [k]; exact h
  | discard o =>
    refine ⟨rfl, ?_⟩
    simp only [step, Spec.advance, Spec.valid, known_eq h]
    by_cases k : s.w.known o = true
    · simp only [k, if_true, outOf_fst]
      obtain ⟨a, b, c', d, e⟩ := updateRegistration_frame (pinvx_discard (o := o) p)
      exact rel_of_frame (rel_discard o h) a b c' d e
    · simp only [k]; exact h
  | opn o f =>
    refine ⟨rfl, ?_⟩
    simp only [step, Spec.advance, Spec.valid, ← h.w]
    by_cases k : s.w.canOpen o f = true
    · simp only [k, if_true]; rw [h.w]; rw [h.w] at k
      have := rel_opn h p (by rw [h.w]; exact k)
      rw [h.w] at this; exact this
    · simp only [k]; exact h
  | close o =>
    refine ⟨rfl, ?_⟩
    simp only [step, Spec.advance, Spec.valid, ← h.w]
    cases hf : s.w.fno o with
    | none => simp; exact h
    | some f =>
      simp only [Option.isSome_some, if_true]
      have := rel_close h hf
      rw [← h.w] at this; exact this
  | poll fs rd =>
    simp only [step, obsOk, Spec.advance, Spec.valid]
    by_cases nd : fs.Nodup
    · simp only [nd, decide_true, if_true]
      by_cases hk : s.kind = .select
      · have hr : round s fs rd = selectRound s rd := by unfold round; rw [hk]
        rw [hr]
        simp only [eventsOf, select_no_disconnect, List.foldl_nil]
        exact ⟨by simp [roundOk, ok_selectRound fs rd h p hk], rel_selectRound rd h hk⟩
      · have hr : round s fs rd = processAll s (tape s fs rd) := by
          unfold round; cases hkk : s.kind <;> simp_all
        rw [hr]
        simp only [eventsOf]
        exact ⟨by simp [roundOk, ok_pollRound h p hk rd nd], rel_processAll _ (rel_clear_pend h hk)⟩
    · simp only [nd, decide_false, if_false, Bool.false_eq_true]
      exact ⟨trivial, h⟩

theorem spec_runFrom {s : State} {σ : Spec} (ops : List Op) (h : Rel s σ) (p : PInv s) :
    specFrom σ (runFrom s ops).2 = true := by
  induction ops generalizing s σ with
  | nil => rfl
  | cons op ops ih =>
    obtain ⟨a, b⟩ := step_sim op h p
    simp only [runFrom, specFrom, Bool.and_eq_true]
    exact ⟨a, ih b (pinv_step op p)⟩


/-! ### silence of discarded and of closed descriptors, read off the observer -/

/-- the operation registers `o` -/
def adds (o : Obj) : Op → Bool
  | .addReader a _ | .addWriter a _ => a == o
  | _ => false

theorem foldl_discard_registered (l : List Obj) (σ : Spec) (o : Obj) (h : σ.registered o = false) :
    (l.foldl Spec.discard σ).registered o = false := by
  induction l generalizing σ with
  | nil => exact h
  | cons a l ih =>
    apply ih
    simp only [Spec.registered, Spec.discard, upd_apply] at h ⊢
    split <;> simp_all

theorem advance_unregistered {σ : Spec} {o : Obj} (op : Op) (out : Out) (h : σ.registered o = false)
    (ha : adds o op = false) : (σ.advance op out).registered o = false := by
  have hh := h
  simp only [Spec.registered, Bool.or_eq_false_iff, decide_eq_false_iff_not, Nat.not_lt, Nat.le_zero] at hh
  unfold Spec.advance
  split
  · cases op with
    | addReader a c =>
      have ne : o ≠ a := by intro e; subst e; simp [adds] at ha
      obtain ⟨f1, f2, _⟩ := notePend_fields ({ σ with regR := upd σ.regR a (σ.regR a + 1), tgt := upd σ.tgt a (some c) } : Spec) a
      simp only [Spec.registered, f1, f2, upd_other _ _ _ _ ne]; simpa [Spec.registered] using h
    | addWriter a c =>
      have ne : o ≠ a := by intro e; subst e; simp [adds] at ha
      obtain ⟨f1, f2, _⟩ := notePend_fields ({ σ with regW := upd σ.regW a (σ.regW a + 1), tgt := upd σ.tgt a (some c) } : Spec) a
      simp only [Spec.registered, f1, f2, upd_other _ _ _ _ ne]; simpa [Spec.registered] using h
    | removeReader a =>
      obtain ⟨f1, f2, _⟩ := dropTgt_fields ({ σ with regR := upd σ.regR a (σ.regR a - 1) } : Spec) a
      simp only [Spec.registered, f1, f2, upd_apply]; split <;> simp_all
    | removeWriter a =>
      obtain ⟨f1, f2, _⟩ := dropTgt_fields ({ σ with regW := upd σ.regW a (σ.regW a - 1) } : Spec) a
      simp only [Spec.registered, f1, f2, upd_apply]; split <;> simp_all
    | discard a => simp only [Spec.registered, Spec.discard, upd_apply]; split <;> simp_all
    | opn a f => simpa [Spec.registered] using h
    | close a =>
      simp only []
      split
      · next f hf =>
        obtain ⟨f1, f2, _⟩ := notePend_fields ({ σ with w := σ.w.close a f } : Spec) a
        simp only [Spec.registered, f1, f2]; simpa [Spec.registered] using h
      · exact h
    | poll fs rd => exact foldl_discard_registered _ _ _ (by simpa [Spec.registered] using h)
  · exact h

/-- an allowed event concerns a registered object; a read/write event an open one -/
theorem evFail_none_facts {σ : Spec} {rd : Nat → Bits} {e : Event} (h : evFail σ rd e = none) :
    σ.registered e.obj = true ∧ (e.kind ≠ .disconnect → (σ.w.fno e.obj).isSome = true) := by
  unfold evFail at h
  simp only [] at h
  split at h
  · cases h
  · next hr =>
    refine ⟨by simpa using hr, ?_⟩
    split at h
    · cases h
    · intro hk
      cases hf : σ.w.fno e.obj with
      | some f => rfl
      | none =>
        exfalso
        cases hkk : e.kind with
        | read => simp [hkk, hf] at h
        | write => simp [hkk, hf] at h
        | disconnect => exact hk hkk

theorem events_allowed {s : State} {σ : Spec} (op : Op) (h : Rel s σ) (p : PInv s) :
    ∀ e ∈ eventsOf (step s op).2, σ.registered e.obj = true ∧ (e.kind ≠ .disconnect → (σ.w.fno e.obj).isSome = true) := by
  have ok := (step_sim op h p).1
  cases op with
  | poll fs rd =>
    by_cases nd : fs.Nodup
    · simp only [obsOk, Spec.valid, nd, decide_true, if_true, roundOk, Option.isNone_iff_eq_none] at ok
      intro e he
      exact evFail_none_facts ((roundFail_none.mp ok).1 e he)
    · simp [step, nd, eventsOf]
  | addReader o c =>
    simp only [step]; split
    · simp only [outOf]; split <;> simp [eventsOf]
    · simp [eventsOf]
  | addWriter o c =>
    simp only [step]; split
    · simp only [outOf]; split <;> simp [eventsOf]
    · simp [eventsOf]
  | removeReader o =>
    simp only [step]; split
    · simp only [outOf]; split <;> simp [eventsOf]
    · simp [eventsOf]
  | removeWriter o =>
    simp only [step]; split
    · simp only [outOf]; split <;> simp [eventsOf]
    · simp [eventsOf]
  | discard o =>
    simp only [step]; split
    · simp only [outOf]; split <;> simp [eventsOf]
    · simp [eventsOf]
  | opn o f => simp only [step]; split <;> simp [eventsOf]
  | close o => simp only [step]; split <;> simp [eventsOf]

theorem silent_from {s : State} {σ : Spec} (ops : List Op) (h : Rel s σ) (p : PInv s) (o : Obj)
    (hr : σ.registered o = false) (hadd : ∀ op ∈ ops, adds o op = false) :
    ∀ x ∈ (runFrom s ops).2, ∀ e ∈ eventsOf x.2, e.obj ≠ o := by
  induction ops generalizing s σ with
  | nil => simp [runFrom]
  | cons op ops ih =>
    intro x hx e he
    simp only [runFrom, List.mem_cons] at hx
    rcases hx with hx | hx
    · subst hx
      intro eq
      have := (events_allowed op h p e he).1
      rw [eq, hr] at this; cases this
    · exact ih (step_sim op h p).2 (pinv_step op p)
        (advance_unregistered op _ hr (hadd op (by simp))) (fun op' h' => hadd op' (by simp [h'])) x hx e he

/-- once closed, always closed -/
theorem advance_closed {σ : Spec} {o : Obj} (op : Op) (out : Out)
    (h : σ.w.fno o = none ∧ (σ.w.orig o).isSome = true) :
    (σ.advance op out).w.fno o = none ∧ ((σ.advance op out).w.orig o).isSome = true := by
  have wdisc : ∀ (l : List Obj) (τ : Spec), (l.foldl Spec.discard τ).w = τ.w := by
    intro l; induction l with
    | nil => intro τ; rfl
    | cons a l ih => intro τ; simp only [List.foldl_cons]; rw [ih]; rfl
  unfold Spec.advance
  split
  · next hv =>
    cases op with
    | addReader a c =>
      obtain ⟨_, _, _, f4, _⟩ := notePend_fields ({ σ with regR := upd σ.regR a (σ.regR a + 1), tgt := upd σ.tgt a (some c) } : Spec) a
      simp only [f4]; exact h
    | addWriter a c =>
      obtain ⟨_, _, _, f4, _⟩ := notePend_fields ({ σ with regW := upd σ.regW a (σ.regW a + 1), tgt := upd σ.tgt a (some c) } : Spec) a
      simp only [f4]; exact h
    | removeReader a =>
      obtain ⟨_, _, _, f4, _⟩ := dropTgt_fields ({ σ with regR := upd σ.regR a (σ.regR a - 1) } : Spec) a
      simp only [f4]; exact h
    | removeWriter a =>
      obtain ⟨_, _, _, f4, _⟩ := dropTgt_fields ({ σ with regW := upd σ.regW a (σ.regW a - 1) } : Spec) a
      simp only [f4]; exact h
    | discard a => exact h
    | opn a f =>
      simp only [Spec.valid, World.canOpen, Bool.and_eq_true, Option.isNone_iff_eq_none] at hv
      have ne : o ≠ a := by intro e; subst e; rw [hv.1] at h; simp at h
      simp only [World.opn, upd_other _ _ _ _ ne]; exact h
    | close a =>
      simp only []
      split
      · next f hf =>
        obtain ⟨_, _, _, f4, _⟩ := notePend_fields ({ σ with w := σ.w.close a f } : Spec) a
        rw [f4]
        simp only [World.close, upd_apply]
        split <;> simp [h.1, h.2]
      · exact h
    | poll fs rd => simp only [wdisc]; exact h
  · exact h

theorem closed_from {s : State} {σ : Spec} (ops : List Op) (h : Rel s σ) (p : PInv s) (o : Obj)
    (hc : σ.w.fno o = none ∧ (σ.w.orig o).isSome = true) :
    ∀ x ∈ (runFrom s ops).2, ∀ e ∈ eventsOf x.2, e.obj = o → e.kind = .disconnect := by
  induction ops generalizing s σ with
  | nil => simp [runFrom]
  | cons op ops ih =>
    intro x hx e he eo
    simp only [runFrom, List.mem_cons] at hx
    rcases hx with hx | hx
    · subst hx
      have := (events_allowed op h p e he).2
      cases hk : e.kind with
      | disconnect => rfl
      | read => have := this (by simp [hk]); rw [eo, hc.1] at this; cases this
      | write => have := this (by simp [hk]); rw [eo, hc.1] at this; cases this
    · exact ih (step_sim op h p).2 (pinv_step op p) (advance_closed op _ hc) x hx e he eo

/-- the simulation holds along every run from the initial state -/
theorem rel_runFrom {s : State} {σ : Spec} (ops : List Op) (h : Rel s σ) (p : PInv s) :
    ∃ σ', Rel (runFrom s ops).1 σ' := by
  induction ops generalizing s σ with
  | nil => exact ⟨σ, h⟩
  | cons op ops ih => simp only [runFrom]; exact ih (step_sim op h p).2 (pinv_step op p)

end Poller
end CV

import CV.Proofs.ConnClose
import CV.Model.ConnAccept
/-
C12, accept path (`Conn.AOp`, CV/Model/ConnAccept.lean) - helper lemmas.
Every `AOp` acts on the connection state `c` like some old step or not at all, so the invariant `CInv`, the
relation to the observer `Rel` and `Ok` carry over; the listening socket moves idle -> listening -> closed.
-/
namespace CV
namespace Conn
open Poller (Obj upd upd_apply upd_same upd_other)

@[simp] theorem closeListener_c (a : AState) : (closeListener a).c = a.c := by
  unfold closeListener; split <;> rfl

theorem astepCore_x (a : AState) (op : XOp) :
    (astepCore a (.x op)).1.c = (xstepCore a.c op).1 ∧ (astepCore a (.x op)).2 = (xstepCore a.c op).2 := by
  cases op <;> simp [astepCore]

theorem ok_astepCore {a : AState} {σ : Spec} (op : AOp) (c : CInv a.c) (r : Rel a.c σ) :
    Ok σ ((astepCore a op).1.c, (astepCore a op).2) := by
  cases op with
  | x op =>
    rw [(astepCore_x a op).1, (astepCore_x a op).2]
    exact ok_xstepCore op c r
  | start =>
    simp only [astepCore]
    split <;> exact Ok.nil c r
  | lready ans =>
    simp only [astepCore]
    split
    · cases ans with
      | sock o f gone => exact ok_stepCore (.accept o f gone) c r
      | errno e =>
        simp only []
        split <;> exact Ok.nil c r
    · exact Ok.nil c r
  | lclose =>
    simp only [astepCore, closeListener_c]
    exact Ok.nil c r

theorem ok_astep {a : AState} {σ : Spec} (op : AOp) (c : CInv a.c) (r : Rel a.c σ) :
    Ok σ ((astep a op).1.c, (astep a op).2) := by
  have h1 := ok_astepCore (σ := σ) op c r
  have h2 : Ok (specAdv σ (astepCore a op).2) ((astepCore a op).1.c, [Obs.tab (rows (astepCore a op).1.c)]) := by
    refine ⟨?_, h1.inv, ?_⟩
    · simp only [specFail, tab_ok h1.inv h1.rel]
    · simp only [specAdv, List.foldl_cons, List.foldl_nil, Spec.advance]; exact h1.rel
  exact Ok.bind h1 h2

theorem ok_arunFrom {a : AState} {σ : Spec} (ops : List AOp) (c : CInv a.c) (r : Rel a.c σ) :
    Ok σ ((arunFrom a ops).1.c, (arunFrom a ops).2) := by
  induction ops generalizing a σ with
  | nil => exact Ok.nil c r
  | cons op ops ih =>
    simp only [arunFrom]
    have h1 := ok_astep (σ := σ) op c r
    exact Ok.bind h1 (ih h1.inv h1.rel)

theorem ok_arun (k : Poller.Kind) (ops : List AOp) : Ok {} ((arun k ops).1.c, (arun k ops).2) :=
  ok_arunFrom ops (CInv.init k) (Rel.init k)

theorem arunFrom_append (s : AState) (a b : List AOp) :
    arunFrom s (a ++ b) = ((arunFrom (arunFrom s a).1 b).1, (arunFrom s a).2 ++ (arunFrom (arunFrom s a).1 b).2) := by
  induction a generalizing s with
  | nil => simp [arunFrom]
  | cons x a ih => simp only [List.cons_append, arunFrom, ih, List.append_assoc]

/-- the old histories are the new ones without listening-socket operations -/
theorem arunFrom_x (a : AState) (ops : List XOp) :
    (arunFrom a (ops.map .x)).1.c = (xrunFrom a.c ops).1 ∧ (arunFrom a (ops.map .x)).2 = (xrunFrom a.c ops).2 := by
  induction ops generalizing a with
  | nil => exact ⟨rfl, rfl⟩
  | cons x ops ih =>
    have h := astepCore_x a x
    have e1 : (astep a (.x x)).1.c = (xstep a.c x).1 := h.1
    have e2 : (astep a (.x x)).2 = (xstep a.c x).2 := by
      simp only [astep, xstep, h.1, h.2]
    obtain ⟨i1, i2⟩ := ih (astep a (.x x)).1
    simp only [List.map_cons, arunFrom, xrunFrom]
    rw [i1, i2, e1, e2]
    exact ⟨rfl, rfl⟩

/-! ### the listening socket -/

theorem lflags_closed (k : Poller.Kind) : lflags k .closed = 128 := by
  cases k <;> decide

theorem lflags_listening (k : Poller.Kind) :
    lflags k .listening = (match k with | .select => 40 | _ => 104) := by
  cases k <;> decide

/-- in the poller state after `discard` + `close` no table mentions the listening socket -/
theorem lclosed_clean (k : Poller.Kind) :
    lobj ∉ (lworld k .closed).read ∧ lobj ∉ (lworld k .closed).write ∧ (lworld k .closed).targets lobj = none ∧
    inMap (lworld k .closed) lobj = false ∧ (lworld k .closed).w.fno lobj = none := by
  cases k <;> decide

/-- the listening socket never comes back -/
theorem astep_closed (a : AState) (op : AOp) (h : a.l = .closed) : (astep a op).1.l = .closed := by
  cases op with
  | x op => cases op <;> simp [astep, astepCore, closeListener, h]
  | start => simp [astep, astepCore, h]
  | lready ans => simp [astep, astepCore, h]
  | lclose => simp [astep, astepCore, closeListener, h]

theorem arunFrom_closed (a : AState) (ops : List AOp) (h : a.l = .closed) : (arunFrom a ops).1.l = .closed := by
  induction ops generalizing a with
  | nil => exact h
  | cons op ops ih => exact ih _ (astep_closed a op h)

/-- `disconnect(listening socket)` is fired exactly when it is closed: at most once -/
def LInv (a : AState) : Prop := a.ldisc = if a.l = .closed then 1 else 0

theorem linv_closeListener {a : AState} (h : LInv a) : LInv (closeListener a) := by
  unfold closeListener
  split
  · next e => simp [LInv, e] at h ⊢; exact h
  · exact h

theorem linv_astep {a : AState} (op : AOp) (h : LInv a) : LInv (astep a op).1 := by
  cases op with
  | x op =>
    cases op with
    | op y => exact h
    | closeAll => exact linv_closeListener (a := { a with c := (xstepCore a.c .closeAll).1 }) h
    | stop => exact linv_closeListener (a := { a with c := (xstepCore a.c .stop).1 }) h
  | start =>
    simp only [astep, astepCore]
    split
    · next e => simp [LInv, e] at h ⊢; exact h
    · exact h
  | lready ans =>
    simp only [astep, astepCore]
    split
    · cases ans with
      | sock o f gone => exact h
      | errno e => simp only []; split <;> exact h
    · exact h
  | lclose => exact linv_closeListener h

theorem linv_arunFrom {a : AState} (ops : List AOp) (h : LInv a) : LInv (arunFrom a ops).1 := by
  induction ops generalizing a with
  | nil => exact h
  | cons op ops ih => exact ih (linv_astep op h)

/-! ### what an accept does to the poller -/

theorem updateRegistration_keeps {p : Poller.State} {o : Obj} {f : Nat} (hr : o ∈ p.read) (hf : p.w.fno o = some f) :
    (Poller.updateRegistration p o).1.read = p.read ∧ (Poller.updateRegistration p o).1.targets = p.targets := by
  unfold Poller.updateRegistration
  cases p.kind <;> simp [hf, hr, Poller.unregister]

theorem accept_poller (p : Poller.State) (o : Obj) (f : Nat) (h : p.w.canOpen o f = true) :
    let p2 := (Poller.step (Poller.step p (.opn o f)).1 (.addReader o srvChan)).1
    o ∈ p2.read ∧ p2.targets o = some srvChan := by
  intro p2
  have e1 : (Poller.step p (.opn o f)).1 = { p with w := p.w.opn o f } := by simp [Poller.step, h]
  have hk : ({ p with w := p.w.opn o f } : Poller.State).w.known o = true := by
    simp [Poller.World.known, Poller.World.opn, upd_same]
  have hr : o ∈ (Poller.baseAddReader { p with w := p.w.opn o f } o srvChan).read := by
    simp [Poller.baseAddReader]
  have hf : (Poller.baseAddReader { p with w := p.w.opn o f } o srvChan).w.fno o = some f := by
    simp [Poller.baseAddReader, Poller.World.opn, upd_same]
  obtain ⟨k1, k2⟩ := updateRegistration_keeps hr hf
  have e2 : p2 = (Poller.updateRegistration (Poller.baseAddReader { p with w := p.w.opn o f } o srvChan) o).1 := by
    show (Poller.step (Poller.step p (.opn o f)).1 (.addReader o srvChan)).1 = _
    rw [e1]
    simp [Poller.step, hk, Poller.outOf]
  rw [e2, k1, k2]
  exact ⟨hr, by simp [Poller.baseAddReader, upd_same]⟩

end Conn
end CV

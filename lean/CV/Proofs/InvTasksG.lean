import CV.Proofs.InvTasksBase
/-
waitingHandlers accounting, part 2 (GENERATED from CoreStep.lean by the same pattern): every pure helper and every arm of
`step` respects `St.T46G` (task sets grow except for the task being consumed, no duplicates).
-/
namespace CV.Core

/-! ## helpers of `Pure.lean` -/

/-- a `foldl` of steps that each respect `Le` respects `Le` -/
theorem St.T46G.foldl {xt : Option Task} {s t : St} {α} (g : St → α → St) (hg : ∀ a x, St.T46G xt s a → St.T46G xt s (g a x)) (l : List α)
    (h : St.T46G xt s t) : St.T46G xt s (l.foldl g t) := by
  induction l generalizing t with
  | nil => exact h
  | cons x l ih => exact ih (hg _ _ h)

theorem St.T46G.addHandler {xt : Option Task} {s t : St} (h : St.T46G xt s t) (x : Nat) : St.T46G xt s (t.addHandler x) := by
  unfold St.addHandler
  dsimp only
  refine St.T46G.modComp ?_ _ _ (fun _ => rfl)
  split
  · t46g
  · split
    · t46g
    · exact St.T46G.foldl _ (fun a n ha => by t46g) _ h
macro_rules | `(tactic| t46g1) => `(tactic| with_reducible apply St.T46G.addHandler)

theorem St.T46G.removeHandler {xt : Option Task} {s t : St} (h : St.T46G xt s t) (x : Nat) (n : Option Name) :
    St.T46G xt s ((t.removeHandler x n).2) := by
  t46g_unfold St.removeHandler
macro_rules | `(tactic| t46g1) => `(tactic| with_reducible apply St.T46G.removeHandler)

theorem St.T46G.fireContext {xt : Option Task} {s t : St} (h : St.T46G xt s t) (r e : Nat) :
    St.T46G xt s (t.fireContext r e) := by
  t46g_unfold St.fireContext
macro_rules | `(tactic| t46g1) => `(tactic| with_reducible apply St.T46G.fireContext)

theorem St.T46G.fireRaw {xt : Option Task} {s t : St} (h : St.T46G xt s t) (self e : Nat) (chans : List Chan) (prio : Int) :
    St.T46G xt s (t.fireRaw self e chans prio) := by
  t46g_unfold St.fireRaw
macro_rules | `(tactic| t46g1) => `(tactic| with_reducible apply St.T46G.fireRaw)

theorem St.T46G.childEv {xt : Option Task} {s t : St} (h : St.T46G xt s t) (p sfx : Nat) :
    St.T46G xt s (t.childEv p sfx) := by
  t46g_unfold St.childEv
macro_rules | `(tactic| t46g1) => `(tactic| with_reducible apply St.T46G.childEv)

theorem St.T46G.fireChild {xt : Option Task} {s t : St} (h : St.T46G xt s t) (self p sfx : Nat) (chans : List Chan) :
    St.T46G xt s (t.fireChild self p sfx chans) := by
  t46g_unfold St.fireChild
macro_rules | `(tactic| t46g1) => `(tactic| with_reducible apply St.T46G.fireChild)

theorem St.T46G.inform {xt : Option Task} {s t : St} (h : St.T46G xt s t) (e : Nat) (force : Bool) :
    St.T46G xt s (t.inform e force) := by
  t46g_unfold St.inform
macro_rules | `(tactic| t46g1) => `(tactic| with_reducible apply St.T46G.inform)

theorem St.T46G.setValue {xt : Option Task} {s t : St} (h : St.T46G xt s t) (e : Nat) (x : VItem) :
    St.T46G xt s (t.setValue e x) := by
  t46g_unfold St.setValue
macro_rules | `(tactic| t46g1) => `(tactic| with_reducible apply St.T46G.setValue)

theorem St.T46G.fireTmplEv {xt : Option Task} {s t : St} (h : St.T46G xt s t) (self : Nat) (ev : Ev) (target : Option Chan) (prio : Int) :
    St.T46G xt s (t.fireTmplEv self ev target prio) := by
  t46g_unfold St.fireTmplEv
macro_rules | `(tactic| t46g1) => `(tactic| with_reducible apply St.T46G.fireTmplEv)

theorem St.T46G.effectDone1 {xt : Option Task} {s t : St} (h : St.T46G xt s t) (r e : Nat) (announce : Bool) :
    St.T46G xt s ((t.effectDone1 r e announce).2) := by
  t46g_unfold St.effectDone1
macro_rules | `(tactic| t46g1) => `(tactic| with_reducible apply St.T46G.effectDone1)

theorem St.T46G.eventDonePre {xt : Option Task} {s t : St} (h : St.T46G xt s t) (r e : Nat) (err : Bool) :
    St.T46G xt s ((t.eventDonePre r e err).2) := by
  t46g_unfold St.eventDonePre
macro_rules | `(tactic| t46g1) => `(tactic| with_reducible apply St.T46G.eventDonePre)

theorem St.T46G.reduceTimeLeft {xt : Option Task} {s t : St} (h : St.T46G xt s t) (e : Nat) (d : Int) :
    St.T46G xt s (t.reduceTimeLeft e d) := by
  t46g_unfold St.reduceTimeLeft
macro_rules | `(tactic| t46g1) => `(tactic| with_reducible apply St.T46G.reduceTimeLeft)

theorem St.T46G.registerPre {xt : Option Task} {s t : St} (h : St.T46G xt s t) (c p : Nat) :
    St.T46G xt s ((t.registerPre c p).2) := by
  t46g_unfold St.registerPre
macro_rules | `(tactic| t46g1) => `(tactic| with_reducible apply St.T46G.registerPre)

theorem St.T46G.registerFin {xt : Option Task} {s t : St} (h : St.T46G xt s t) (c : Nat) :
    St.T46G xt s (t.registerFin c) := by
  t46g_unfold St.registerFin
macro_rules | `(tactic| t46g1) => `(tactic| with_reducible apply St.T46G.registerFin)

theorem St.T46G.unregister {xt : Option Task} {s t : St} (h : St.T46G xt s t) (c : Nat) :
    St.T46G xt s (t.unregister c) := by
  t46g_unfold St.unregister
macro_rules | `(tactic| t46g1) => `(tactic| with_reducible apply St.T46G.unregister)

theorem St.T46G.prepUnregPre {xt : Option Task} {s t : St} (h : St.T46G xt s t) (c : Nat) :
    St.T46G xt s (t.prepUnregPre c) := by
  t46g_unfold St.prepUnregPre
macro_rules | `(tactic| t46g1) => `(tactic| with_reducible apply St.T46G.prepUnregPre)

theorem St.T46G.prepUnregFin {xt : Option Task} {s t : St} (h : St.T46G xt s t) (c : Nat) :
    St.T46G xt s (t.prepUnregFin c) := by
  t46g_unfold St.prepUnregFin
macro_rules | `(tactic| t46g1) => `(tactic| with_reducible apply St.T46G.prepUnregFin)

theorem St.T46G.actFire {xt : Option Task} {s t : St} (h : St.T46G xt s t) (self i : Nat) (target : Option Chan) (prio : Int) (cancel : Bool) :
    St.T46G xt s (t.actFire self i target prio cancel) := by
  t46g_unfold St.actFire
macro_rules | `(tactic| t46g1) => `(tactic| with_reducible apply St.T46G.actFire)

theorem St.T46G.actStopEv {xt : Option Task} {s t : St} (h : St.T46G xt s t) (ev : Option Nat) :
    St.T46G xt s (t.actStopEv ev) := by
  t46g_unfold St.actStopEv
macro_rules | `(tactic| t46g1) => `(tactic| with_reducible apply St.T46G.actStopEv)

theorem St.T46G.timerReset {xt : Option Task} {s t : St} (h : St.T46G xt s t) (i : Nat) :
    St.T46G xt s (t.timerReset i) := by
  t46g_unfold St.timerReset
macro_rules | `(tactic| t46g1) => `(tactic| with_reducible apply St.T46G.timerReset)

theorem St.T46G.timerCreate {xt : Option Task} {s t : St} (h : St.T46G xt s t) (i : Nat) :
    St.T46G xt s (t.timerCreate i) := by
  t46g_unfold St.timerCreate
macro_rules | `(tactic| t46g1) => `(tactic| with_reducible apply St.T46G.timerCreate)

theorem St.T46G.timerTick {xt : Option Task} {s t : St} (h : St.T46G xt s t) (i e : Nat) :
    St.T46G xt s (t.timerTick i e) := by
  t46g_unfold St.timerTick
macro_rules | `(tactic| t46g1) => `(tactic| with_reducible apply St.T46G.timerTick)

theorem St.T46G.startWait {xt : Option Task} {s t : St} (h : St.T46G xt s t) (w : Nat) :
    St.T46G xt s (t.startWait w) := by
  t46g_unfold St.startWait
macro_rules | `(tactic| t46g1) => `(tactic| with_reducible apply St.T46G.startWait)

/-! ## pure pieces of `Step.lean` -/

theorem St.T46G.stopBegin {xt : Option Task} {s t : St} (h : St.T46G xt s t) (c : Nat) :
    St.T46G xt s (t.stopBegin c) := by
  t46g_unfold St.stopBegin
macro_rules | `(tactic| t46g1) => `(tactic| with_reducible apply St.T46G.stopBegin)

theorem St.T46G.stopSetCode {xt : Option Task} {s t : St} (h : St.T46G xt s t) (r : Nat) (code : Code) :
    St.T46G xt s (t.stopSetCode r code) := by
  t46g_unfold St.stopSetCode
macro_rules | `(tactic| t46g1) => `(tactic| with_reducible apply St.T46G.stopSetCode)

theorem St.T46G.genCall {xt : Option Task} {s t : St} (h : St.T46G xt s t) (owner i : Nat) (target : Option Chan) (timeout : Option Nat) :
    St.T46G xt s (t.genCall owner i target timeout) := by
  t46g_unfold St.genCall
macro_rules | `(tactic| t46g1) => `(tactic| with_reducible apply St.T46G.genCall)

theorem St.T46G.genWait {xt : Option Task} {s t : St} (h : St.T46G xt s t) (owner : Nat) (name : Name) (target : Option Chan) (timeout : Option Nat) :
    St.T46G xt s (t.genWait owner name target timeout) := by
  t46g_unfold St.genWait
macro_rules | `(tactic| t46g1) => `(tactic| with_reducible apply St.T46G.genWait)

theorem St.T46G.resumeGenPre {xt : Option Task} {s t : St} (h : St.T46G xt s t) (g : Nat) (silent : Bool) :
    St.T46G xt s (t.resumeGenPre g silent) := by
  t46g_unfold St.resumeGenPre
macro_rules | `(tactic| t46g1) => `(tactic| with_reducible apply St.T46G.resumeGenPre)

theorem St.T46G.stopIteration {xt : Option Task} {s t : St} (h : St.T46G xt s t) (r : Nat) (x : Task) (hex : xt = some x) :
    St.T46G xt s ((t.stopIteration r x).2) := by
  t46g_unfold St.stopIteration
macro_rules | `(tactic| t46g1) => `(tactic| with_reducible apply St.T46G.stopIteration)

theorem St.T46G.fireException {xt : Option Task} {s t : St} (h : St.T46G xt s t) (r e : Nat) :
    St.T46G xt s (t.fireException r e) := by
  t46g_unfold St.fireException
macro_rules | `(tactic| t46g1) => `(tactic| with_reducible apply St.T46G.fireException)

theorem St.T46G.errorBranch {xt : Option Task} {s t : St} (h : St.T46G xt s t) (r : Nat) (x : Task) (resumed : Bool) (hex : xt = some x) :
    St.T46G xt s ((t.errorBranch r x resumed).2) := by
  t46g_unfold St.errorBranch
macro_rules | `(tactic| t46g1) => `(tactic| with_reducible apply St.T46G.errorBranch)

theorem St.T46G.ownSub {xt : Option Task} {s t : St} (h : St.T46G xt s t) (r : Nat) (x : Task) (w : Nat) (hex : xt = some ⟨x.e, x.g, none⟩) :
    St.T46G xt s (t.ownSub r x w) := by
  t46g_unfold St.ownSub
macro_rules | `(tactic| t46g1) => `(tactic| with_reducible apply St.T46G.ownSub)

theorem St.T46G.setValueOpt {xt : Option Task} {s t : St} (h : St.T46G xt s t) (e : Nat) (v : Option Nat) :
    St.T46G xt s (t.setValueOpt e v) := by
  t46g_unfold St.setValueOpt
macro_rules | `(tactic| t46g1) => `(tactic| with_reducible apply St.T46G.setValueOpt)

theorem St.T46G.parentSub {xt : Option Task} {s t : St} (h : St.T46G xt s t) (r : Nat) (x : Task) (p w2 : Nat) (viaThrow : Bool) :
    St.T46G xt s (t.parentSub r x p w2 viaThrow) := by
  t46g_unfold St.parentSub
macro_rules | `(tactic| t46g1) => `(tactic| with_reducible apply St.T46G.parentSub)

theorem St.T46G.parentPlain {xt : Option Task} {s t : St} (h : St.T46G xt s t) (r : Nat) (x : Task) (p : Nat) (v : Option Nat) (viaThrow : Bool) :
    St.T46G xt s (t.parentPlain r x p v viaThrow) := by
  t46g_unfold St.parentPlain
macro_rules | `(tactic| t46g1) => `(tactic| with_reducible apply St.T46G.parentPlain)

theorem St.T46G.onWaitEvent {xt : Option Task} {s t : St} (h : St.T46G xt s t) (w e : Nat) :
    St.T46G xt s ((t.onWaitEvent w e).2) := by
  t46g_unfold St.onWaitEvent
macro_rules | `(tactic| t46g1) => `(tactic| with_reducible apply St.T46G.onWaitEvent)

theorem St.T46G.onWaitDone {xt : Option Task} {s t : St} (h : St.T46G xt s t) (w e : Nat) :
    St.T46G xt s ((t.onWaitDone w e).2) := by
  t46g_unfold St.onWaitDone
macro_rules | `(tactic| t46g1) => `(tactic| with_reducible apply St.T46G.onWaitDone)

theorem St.T46G.onWaitTick {xt : Option Task} {s t : St} (h : St.T46G xt s t) (w : Nat) :
    St.T46G xt s ((t.onWaitTick w).2) := by
  t46g_unfold St.onWaitTick
macro_rules | `(tactic| t46g1) => `(tactic| with_reducible apply St.T46G.onWaitTick)

theorem St.T46G.onFallbackGE {xt : Option Task} {s t : St} (h : St.T46G xt s t) (e : Nat) :
    St.T46G xt s ((t.onFallbackGE e).2) := by
  t46g_unfold St.onFallbackGE
macro_rules | `(tactic| t46g1) => `(tactic| with_reducible apply St.T46G.onFallbackGE)

theorem St.T46G.computeHandlers {xt : Option Task} {s t : St} (h : St.T46G xt s t) (r : Nat) (name : Name) (chans : List Chan) :
    St.T46G xt s ((t.computeHandlers r name chans).2) := by
  t46g_unfold St.computeHandlers
macro_rules | `(tactic| t46g1) => `(tactic| with_reducible apply St.T46G.computeHandlers)

theorem St.T46G.dispComplete {xt : Option Task} {s t : St} (h : St.T46G xt s t) (e : Nat) (ev : Ev) :
    St.T46G xt s (t.dispComplete e ev) := by
  t46g_unfold St.dispComplete
macro_rules | `(tactic| t46g1) => `(tactic| with_reducible apply St.T46G.dispComplete)

theorem St.T46G.cacheRefresh {xt : Option Task} {s t : St} (h : St.T46G xt s t) (r : Nat) :
    St.T46G xt s (t.cacheRefresh r) := by
  t46g_unfold St.cacheRefresh
macro_rules | `(tactic| t46g1) => `(tactic| with_reducible apply St.T46G.cacheRefresh)

theorem St.T46G.lookupHandlers {xt : Option Task} {s t : St} (h : St.T46G xt s t) (r : Nat) (name : Name) (chans : List Chan) :
    St.T46G xt s ((t.lookupHandlers r name chans).2) := by
  t46g_unfold St.lookupHandlers
macro_rules | `(tactic| t46g1) => `(tactic| with_reducible apply St.T46G.lookupHandlers)

theorem St.T46G.dispGE {xt : Option Task} {s t : St} (h : St.T46G xt s t) (r e remaining : Nat) (name : Name) :
    St.T46G xt s (t.dispGE r e remaining name) := by
  t46g_unfold St.dispGE
macro_rules | `(tactic| t46g1) => `(tactic| with_reducible apply St.T46G.dispGE)

theorem St.T46G.dispatchPre {xt : Option Task} {s t : St} (h : St.T46G xt s t) (r e remaining : Nat) :
    St.T46G xt s ((t.dispatchPre r e remaining).2) := by
  t46g_unfold St.dispatchPre
macro_rules | `(tactic| t46g1) => `(tactic| with_reducible apply St.T46G.dispatchPre)

theorem St.T46G.handlerRaised {xt : Option Task} {s t : St} (h : St.T46G xt s t) (r e : Nat) :
    St.T46G xt s (t.handlerRaised r e) := by
  t46g_unfold St.handlerRaised
macro_rules | `(tactic| t46g1) => `(tactic| with_reducible apply St.T46G.handlerRaised)

theorem St.T46G.applyValue {xt : Option Task} {s t : St} (h : St.T46G xt s t) (r e : Nat) (value : Outcome) :
    St.T46G xt s (t.applyValue r e value) := by
  t46g_unfold St.applyValue
macro_rules | `(tactic| t46g1) => `(tactic| with_reducible apply St.T46G.applyValue)

theorem St.T46G.geTasksCheck {xt : Option Task} {s t : St} (h : St.T46G xt s t) (r e : Nat) :
    St.T46G xt s (t.geTasksCheck r e) := by
  t46g_unfold St.geTasksCheck
macro_rules | `(tactic| t46g1) => `(tactic| with_reducible apply St.T46G.geTasksCheck)

theorem St.T46G.flushBegin {xt : Option Task} {s t : St} (h : St.T46G xt s t) (r : Nat) :
    St.T46G xt s (t.flushBegin r) := by
  t46g_unfold St.flushBegin
macro_rules | `(tactic| t46g1) => `(tactic| with_reducible apply St.T46G.flushBegin)

theorem St.T46G.tickGenerate {xt : Option Task} {s t : St} (h : St.T46G xt s t) (c : Nat) :
    St.T46G xt s (t.tickGenerate c) := by
  t46g_unfold St.tickGenerate
macro_rules | `(tactic| t46g1) => `(tactic| with_reducible apply St.T46G.tickGenerate)

theorem St.T46G.runBegin {xt : Option Task} {s t : St} (h : St.T46G xt s t) (c : Nat) :
    St.T46G xt s (t.runBegin c) := by
  t46g_unfold St.runBegin
macro_rules | `(tactic| t46g1) => `(tactic| with_reducible apply St.T46G.runBegin)

theorem St.T46G.runEnd {xt : Option Task} {s t : St} (h : St.T46G xt s t) (c : Nat) :
    St.T46G xt s ((t.runEnd c).2) := by
  t46g_unfold St.runEnd
macro_rules | `(tactic| t46g1) => `(tactic| with_reducible apply St.T46G.runEnd)

theorem St.T46G.actStep {xt : Option Task} {s t : St} (h : St.T46G xt s t) (ctx : HCtx) (a : Act) : St.T46G xt s (actStep t ctx a).st := by
  cases a <;> (unfold CV.Core.actStep; (try dsimp only); t46g)
macro_rules | `(tactic| t46g1) => `(tactic| with_reducible apply St.T46G.actStep)

/-! ## the arms of `step` -/

macro_rules
  | `(tactic| t46g1) => `(tactic| simp only [Cfg.pop_st, Cfg.popRet_st, Cfg.raise_st, Cfg.goto_st])

theorem Cfg.effectDone_t46g {xt : Option Task} (c : Cfg) (k : List Frame) (r e : Nat) (announce : Bool) :
    St.T46G xt c.st (c.effectDone k r e announce).st := by
  unfold Cfg.effectDone; (try dsimp only); t46g
macro_rules | `(tactic| t46g1) => `(tactic| with_reducible exact Cfg.effectDone_t46g ..)

theorem Cfg.eventDone_t46g {xt : Option Task} (c : Cfg) (k : List Frame) (r e : Nat) (err : Bool) :
    St.T46G xt c.st (c.eventDone k r e err).st := by
  unfold Cfg.eventDone; (try dsimp only); t46g
macro_rules | `(tactic| t46g1) => `(tactic| with_reducible exact Cfg.eventDone_t46g ..)

theorem St.T46G.updateRootAll {xt : Option Task} (s : St) : ∀ (fuel : Nat) (todo : List Nat) (root : Nat) (t : St),
    St.T46G xt s t → St.T46G xt s (St.updateRootAll fuel todo root t) := by
  intro fuel
  induction fuel with
  | zero => intro todo root t h; simpa [St.updateRootAll] using h
  | succ n ih =>
    intro todo root t h
    cases todo with
    | nil => simpa [St.updateRootAll] using h
    | cons x rest =>
      simp only [St.updateRootAll]
      apply ih
      t46g

macro_rules | `(tactic| t46g1) => `(tactic| with_reducible apply St.T46G.updateRootAll)

theorem Cfg.updateRoot_t46g {xt : Option Task} (c : Cfg) (k : List Frame) (todo : List Nat) (root : Nat) :
    St.T46G xt c.st (c.updateRoot k todo root).st := by
  unfold Cfg.updateRoot; (try dsimp only)
  simp only [Cfg.pop_st]
  exact St.T46G.updateRootAll _ _ _ _ _ (St.T46G.refl _)
macro_rules | `(tactic| t46g1) => `(tactic| with_reducible exact Cfg.updateRoot_t46g ..)

theorem Cfg.register_t46g {xt : Option Task} (c : Cfg) (k : List Frame) (x p : Nat) :
    St.T46G xt c.st (c.register k x p).st := by
  unfold Cfg.register; (try dsimp only); t46g
macro_rules | `(tactic| t46g1) => `(tactic| with_reducible exact Cfg.register_t46g ..)

theorem Cfg.registerFin_t46g {xt : Option Task} (c : Cfg) (k : List Frame) (x : Nat) :
    St.T46G xt c.st (c.registerFin k x).st := by
  unfold Cfg.registerFin; (try dsimp only); t46g
macro_rules | `(tactic| t46g1) => `(tactic| with_reducible exact Cfg.registerFin_t46g ..)

theorem Cfg.prepUnregFin_t46g {xt : Option Task} (c : Cfg) (k : List Frame) (x : Nat) :
    St.T46G xt c.st (c.prepUnregFin k x).st := by
  unfold Cfg.prepUnregFin; (try dsimp only); t46g
macro_rules | `(tactic| t46g1) => `(tactic| with_reducible exact Cfg.prepUnregFin_t46g ..)

theorem Cfg.stopMgr_t46g {xt : Option Task} (c : Cfg) (k : List Frame) (x : Nat) (code : Code) :
    St.T46G xt c.st (c.stopMgr k x code).st := by
  unfold Cfg.stopMgr; (try dsimp only); t46g
macro_rules | `(tactic| t46g1) => `(tactic| with_reducible exact Cfg.stopMgr_t46g ..)

theorem Cfg.ticks_t46g {xt : Option Task} (c : Cfg) (k : List Frame) (x n : Nat) :
    St.T46G xt c.st (c.ticks k x n).st := by
  unfold Cfg.ticks; (try dsimp only); t46g
macro_rules | `(tactic| t46g1) => `(tactic| with_reducible exact Cfg.ticks_t46g ..)

theorem Cfg.stopFin_t46g {xt : Option Task} (c : Cfg) (k : List Frame) (code : Code) :
    St.T46G xt c.st (c.stopFin k code).st := by
  unfold Cfg.stopFin; (try dsimp only); t46g
macro_rules | `(tactic| t46g1) => `(tactic| with_reducible exact Cfg.stopFin_t46g ..)

theorem Cfg.timerNew_t46g {xt : Option Task} (c : Cfg) (k : List Frame) (i : Nat) :
    St.T46G xt c.st (c.timerNew k i).st := by
  unfold Cfg.timerNew; (try dsimp only); t46g
macro_rules | `(tactic| t46g1) => `(tactic| with_reducible exact Cfg.timerNew_t46g ..)

theorem Cfg.acts_t46g {xt : Option Task} (c : Cfg) (k : List Frame) (ctx : HCtx) (prog : Prog) :
    St.T46G xt c.st (c.acts k ctx prog).st := by
  unfold Cfg.acts; (try dsimp only); t46g
macro_rules | `(tactic| t46g1) => `(tactic| with_reducible exact Cfg.acts_t46g ..)

theorem Cfg.doFin_t46g {xt : Option Task} (c : Cfg) (k : List Frame) (x : Nat) :
    St.T46G xt c.st (c.doFin k x).st := by
  unfold Cfg.doFin; (try dsimp only); t46g
macro_rules | `(tactic| t46g1) => `(tactic| with_reducible exact Cfg.doFin_t46g ..)

theorem Cfg.drainQ_t46g {xt : Option Task} (c : Cfg) (k : List Frame) (x : Nat) :
    St.T46G xt c.st (c.drainQ k x).st := by
  unfold Cfg.drainQ; (try dsimp only); t46g
macro_rules | `(tactic| t46g1) => `(tactic| with_reducible exact Cfg.drainQ_t46g ..)

theorem Cfg.stepGen_t46g {xt : Option Task} (c : Cfg) (k : List Frame) (g : Nat) :
    St.T46G xt c.st (c.stepGen k g).st := by
  unfold Cfg.stepGen; (try dsimp only); t46g
macro_rules | `(tactic| t46g1) => `(tactic| with_reducible exact Cfg.stepGen_t46g ..)

theorem Cfg.processTask_t46g {xt : Option Task} (c : Cfg) (k : List Frame) (r : Nat) (x : Task) :
    St.T46G xt c.st (c.processTask k r x).st := by
  unfold Cfg.processTask; (try dsimp only); t46g
macro_rules | `(tactic| t46g1) => `(tactic| with_reducible exact Cfg.processTask_t46g ..)

theorem Cfg.contStop_t46g {xt : Option Task} {s0 : St} (c : Cfg) (k : List Frame) (s : St) (r : Nat) (x : Task) (hle : St.T46G xt s0 s) (hex : xt = some x) :
    St.T46G xt s0 (c.contStop k s r x).st := by
  unfold Cfg.contStop; (try dsimp only); t46g
macro_rules | `(tactic| t46g1) => `(tactic| with_reducible apply Cfg.contStop_t46g)

theorem Cfg.contError_t46g {xt : Option Task} {s0 : St} (c : Cfg) (k : List Frame) (s : St) (r : Nat) (x : Task) (resumed : Bool) (hle : St.T46G xt s0 s) (hex : xt = some x) :
    St.T46G xt s0 (c.contError k s r x resumed).st := by
  unfold Cfg.contError; (try dsimp only); t46g
macro_rules | `(tactic| t46g1) => `(tactic| with_reducible apply Cfg.contError_t46g)

theorem Cfg.ptBodyWait_t46g {xt : Option Task} (c : Cfg) (k : List Frame) (r : Nat) (x : Task) (w : Nat) (hex : xt = some x) :
    St.T46G xt c.st (c.ptBodyWait k r x w).st := by
  unfold Cfg.ptBodyWait; (try dsimp only); t46g
macro_rules | `(tactic| t46g1) => `(tactic| with_reducible apply Cfg.ptBodyWait_t46g)

theorem Cfg.ptBodyExc_t46g {xt : Option Task} (c : Cfg) (k : List Frame) (r : Nat) (x : Task) (w : Nat) (fired : Bool) (hex : xt = some x) :
    St.T46G xt c.st (c.ptBodyExc k r x w fired).st := by
  unfold Cfg.ptBodyExc; (try dsimp only); t46g
macro_rules | `(tactic| t46g1) => `(tactic| with_reducible apply Cfg.ptBodyExc_t46g)

theorem Cfg.ptBody_t46g {xt : Option Task} (c : Cfg) (k : List Frame) (r : Nat) (x : Task) (hex : xt = some x) :
    St.T46G xt c.st (c.ptBody k r x).st := by
  unfold Cfg.ptBody; (try dsimp only); t46g
macro_rules | `(tactic| t46g1) => `(tactic| with_reducible apply Cfg.ptBody_t46g)

theorem Cfg.ptOwn_t46g {xt : Option Task} (c : Cfg) (k : List Frame) (r : Nat) (x : Task) (hex : xt = some x) (hex2 : xt = some ⟨x.e, x.g, none⟩) :
    St.T46G xt c.st (c.ptOwn k r x).st := by
  unfold Cfg.ptOwn; (try dsimp only); t46g
macro_rules | `(tactic| t46g1) => `(tactic| with_reducible apply Cfg.ptOwn_t46g)

theorem Cfg.ptParent_t46g {xt : Option Task} (c : Cfg) (k : List Frame) (r : Nat) (x : Task) (p : Nat) (viaThrow : Bool) (hex : xt = some x) :
    St.T46G xt c.st (c.ptParent k r x p viaThrow).st := by
  unfold Cfg.ptParent; (try dsimp only); t46g
macro_rules | `(tactic| t46g1) => `(tactic| with_reducible apply Cfg.ptParent_t46g)

theorem Cfg.ptFin_t46g {xt : Option Task} (c : Cfg) (k : List Frame) (r : Nat) (handling : Option Nat) :
    St.T46G xt c.st (c.ptFin k r handling).st := by
  unfold Cfg.ptFin; (try dsimp only); t46g
macro_rules | `(tactic| t46g1) => `(tactic| with_reducible exact Cfg.ptFin_t46g ..)

theorem Cfg.dispatcher_t46g {xt : Option Task} (c : Cfg) (k : List Frame) (r e remaining : Nat) :
    St.T46G xt c.st (c.dispatcher k r e remaining).st := by
  unfold Cfg.dispatcher; (try dsimp only); t46g
macro_rules | `(tactic| t46g1) => `(tactic| with_reducible exact Cfg.dispatcher_t46g ..)

theorem Cfg.hLoop_t46g {xt : Option Task} (c : Cfg) (k : List Frame) (r e : Nat) (hs : List Nat) (err : Bool) (stale : Outcome) :
    St.T46G xt c.st (c.hLoop k r e hs err stale).st := by
  unfold Cfg.hLoop; (try dsimp only); t46g
macro_rules | `(tactic| t46g1) => `(tactic| with_reducible exact Cfg.hLoop_t46g ..)

theorem Cfg.invokeUser_t46g {xt : Option Task} {s0 : St} (c : Cfg) (k : List Frame) (s : St) (h e owner p : Nat) (hle : St.T46G xt s0 s) :
    St.T46G xt s0 (c.invokeUser k s h e owner p).st := by
  unfold Cfg.invokeUser; (try dsimp only); t46g
macro_rules | `(tactic| t46g1) => `(tactic| with_reducible apply Cfg.invokeUser_t46g)

theorem Cfg.invoke_t46g {xt : Option Task} (c : Cfg) (k : List Frame) (r h e : Nat) :
    St.T46G xt c.st (c.invoke k r h e).st := by
  unfold Cfg.invoke; (try dsimp only); t46g
macro_rules | `(tactic| t46g1) => `(tactic| with_reducible exact Cfg.invoke_t46g ..)

theorem Cfg.invokeFin_t46g {xt : Option Task} (c : Cfg) (k : List Frame) (e h : Nat) :
    St.T46G xt c.st (c.invokeFin k e h).st := by
  unfold Cfg.invokeFin; (try dsimp only); t46g
macro_rules | `(tactic| t46g1) => `(tactic| with_reducible exact Cfg.invokeFin_t46g ..)

theorem Cfg.hAfter_t46g {xt : Option Task} (c : Cfg) (k : List Frame) (r e : Nat) (rest : List Nat) (err : Bool) (stale : Outcome) :
    St.T46G xt c.st (c.hAfter k r e rest err stale).st := by
  unfold Cfg.hAfter; (try dsimp only); t46g
macro_rules | `(tactic| t46g1) => `(tactic| with_reducible exact Cfg.hAfter_t46g ..)

theorem Cfg.hApply_t46g {xt : Option Task} (c : Cfg) (k : List Frame) (r e : Nat) (rest : List Nat) (err : Bool) (value : Outcome) :
    St.T46G xt c.st (c.hApply k r e rest err value).st := by
  unfold Cfg.hApply; (try dsimp only); t46g
macro_rules | `(tactic| t46g1) => `(tactic| with_reducible exact Cfg.hApply_t46g ..)

theorem Cfg.dispFin_t46g {xt : Option Task} (c : Cfg) (k : List Frame) (r e : Nat) (err : Bool) :
    St.T46G xt c.st (c.dispFin k r e err).st := by
  unfold Cfg.dispFin; (try dsimp only); t46g
macro_rules | `(tactic| t46g1) => `(tactic| with_reducible exact Cfg.dispFin_t46g ..)

theorem Cfg.dispatchLoop_t46g {xt : Option Task} (c : Cfg) (k : List Frame) (r : Nat) :
    St.T46G xt c.st (c.dispatchLoop k r).st := by
  unfold Cfg.dispatchLoop; (try dsimp only); t46g
macro_rules | `(tactic| t46g1) => `(tactic| with_reducible exact Cfg.dispatchLoop_t46g ..)

theorem Cfg.flush_t46g {xt : Option Task} (c : Cfg) (k : List Frame) (x : Nat) :
    St.T46G xt c.st (c.flush k x).st := by
  unfold Cfg.flush; (try dsimp only); t46g
macro_rules | `(tactic| t46g1) => `(tactic| with_reducible exact Cfg.flush_t46g ..)

theorem Cfg.flushFin_t46g {xt : Option Task} (c : Cfg) (k : List Frame) (r : Nat) (old : Bool) :
    St.T46G xt c.st (c.flushFin k r old).st := by
  unfold Cfg.flushFin; (try dsimp only); t46g
macro_rules | `(tactic| t46g1) => `(tactic| with_reducible exact Cfg.flushFin_t46g ..)

theorem Cfg.tick_t46g {xt : Option Task} (c : Cfg) (k : List Frame) (x : Nat) :
    St.T46G xt c.st (c.tick k x).st := by
  unfold Cfg.tick; (try dsimp only); t46g
macro_rules | `(tactic| t46g1) => `(tactic| with_reducible exact Cfg.tick_t46g ..)

theorem Cfg.taskLoop_t46g {xt : Option Task} (c : Cfg) (k : List Frame) (x : Nat) (ts : List Task) :
    St.T46G xt c.st (c.taskLoop k x ts).st := by
  unfold Cfg.taskLoop; (try dsimp only); t46g
macro_rules | `(tactic| t46g1) => `(tactic| with_reducible exact Cfg.taskLoop_t46g ..)

theorem Cfg.tickFin_t46g {xt : Option Task} (c : Cfg) (k : List Frame) (x : Nat) (old : Bool) :
    St.T46G xt c.st (c.tickFin k x old).st := by
  unfold Cfg.tickFin; (try dsimp only); t46g
macro_rules | `(tactic| t46g1) => `(tactic| with_reducible exact Cfg.tickFin_t46g ..)

theorem Cfg.tickGen_t46g {xt : Option Task} (c : Cfg) (k : List Frame) (x : Nat) :
    St.T46G xt c.st (c.tickGen k x).st := by
  unfold Cfg.tickGen; (try dsimp only); t46g
macro_rules | `(tactic| t46g1) => `(tactic| with_reducible exact Cfg.tickGen_t46g ..)

theorem Cfg.run_t46g {xt : Option Task} (c : Cfg) (k : List Frame) (x : Nat) :
    St.T46G xt c.st (c.run k x).st := by
  unfold Cfg.run; (try dsimp only); t46g
macro_rules | `(tactic| t46g1) => `(tactic| with_reducible exact Cfg.run_t46g ..)

theorem Cfg.runLoop_t46g {xt : Option Task} (c : Cfg) (k : List Frame) (x : Nat) :
    St.T46G xt c.st (c.runLoop k x).st := by
  unfold Cfg.runLoop; (try dsimp only); t46g
macro_rules | `(tactic| t46g1) => `(tactic| with_reducible exact Cfg.runLoop_t46g ..)

theorem Cfg.runFin_t46g {xt : Option Task} (c : Cfg) (k : List Frame) (x : Nat) :
    St.T46G xt c.st (c.runFin k x).st := by
  unfold Cfg.runFin; (try dsimp only); t46g
macro_rules | `(tactic| t46g1) => `(tactic| with_reducible exact Cfg.runFin_t46g ..)

theorem Cfg.runCatchExn_t46g {xt : Option Task} (c : Cfg) (k : List Frame) (x : Nat) (ex : Exn) :
    St.T46G xt c.st (c.runCatchExn k x ex).st := by
  unfold Cfg.runCatchExn; (try dsimp only); t46g
macro_rules | `(tactic| t46g1) => `(tactic| with_reducible exact Cfg.runCatchExn_t46g ..)

theorem Cfg.runRethrow_t46g {xt : Option Task} (c : Cfg) (k : List Frame) (ex : Exn) :
    St.T46G xt c.st (c.runRethrow k ex).st := by
  unfold Cfg.runRethrow; (try dsimp only); t46g
macro_rules | `(tactic| t46g1) => `(tactic| with_reducible exact Cfg.runRethrow_t46g ..)


end CV.Core

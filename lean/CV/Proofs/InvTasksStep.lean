import CV.Proofs.InvTasksMain
/-
waitingHandlers accounting, part 7: `T46Inv c → T46Guard c → T46Inv (step c)` by cases on the top frame (all 38 frames,
normal execution and unwinding), guarded sessions `T46Reach`, and the invariant on every configuration of a guarded
session from an initial state without tasks and wait states.
-/
namespace CV.Core

theorem t46_unwind_inv {c : Cfg} (h : T46Inv c) (k : List Frame) (ex : Exn) (f : Frame) (hs : c.stack = f :: k)
    (hr : ∀ x ts, Frame.taskLoop x ts ∈ k → (unwind c k ex f).st.rootOf x = c.st.rootOf x) :
    T46Inv (unwind c k ex f) := by
  cases f <;> dsimp only [unwind] at hr ⊢
  case ptFin r hd => exact h.goPlain hs (fun e => Cfg.ptFin_t46m ..) (Cfg.ptFin_t46g ..) hr (Cfg.ptFin_t46s ..)
  case invokeFin e hh => exact h.goPlain hs (fun e => Cfg.invokeFin_t46m ..) (Cfg.invokeFin_t46g ..) hr (Cfg.invokeFin_t46s ..)
  case flushFin r old => exact h.goPlain hs (fun e => Cfg.flushFin_t46m ..) (Cfg.flushFin_t46g ..) hr (Cfg.flushFin_t46s ..)
  case tickFin x old => exact h.goPlain hs (fun e => Cfg.tickFin_t46m ..) (Cfg.tickFin_t46g ..) hr (Cfg.tickFin_t46s ..)
  case runCatch x => exact h.goPlain hs (fun e => Cfg.runCatchExn_t46m ..) (Cfg.runCatchExn_t46g ..) hr (Cfg.runCatchExn_t46s ..)
  case runRethrow ex0 => exact h.goPlain hs (fun e => Cfg.runRethrow_t46m ..) (Cfg.runRethrow_t46g ..) hr (Cfg.runRethrow_t46s ..)
  all_goals exact h.goPlain hs (St.T46M.refl _) (St.T46G.refl _) hr (Cfg.pop_t46s ..)

theorem t46_stepFrame_inv {c : Cfg} (h : T46Inv c) (hg : T46Guard c) (k : List Frame) (f : Frame)
    (hs : c.stack = f :: k) (hx : c.exn = none)
    (hr : ∀ x ts, Frame.taskLoop x ts ∈ k → (stepFrame c k f).st.rootOf x = c.st.rootOf x) :
    T46Inv (stepFrame c k f) := by
  cases f <;> dsimp only [stepFrame] at hr ⊢
  case effectDone r e a => exact h.goPlain hs (fun e => Cfg.effectDone_t46m ..) (Cfg.effectDone_t46g ..) hr (Cfg.effectDone_t46s ..)
  case eventDone r e a => exact h.goPlain hs (fun e => Cfg.eventDone_t46m ..) (Cfg.eventDone_t46g ..) hr (Cfg.eventDone_t46s ..)
  case updateRoot a b => exact h.goPlain hs (fun e => Cfg.updateRoot_t46m ..) (Cfg.updateRoot_t46g ..) hr (Cfg.updateRoot_t46s ..)
  case register a b => exact h.goPlain hs (fun e => Cfg.register_t46m ..) (Cfg.register_t46g ..) hr (Cfg.register_t46s ..)
  case registerFin a => exact h.goPlain hs (fun e => Cfg.registerFin_t46m ..) (Cfg.registerFin_t46g ..) hr (Cfg.registerFin_t46s ..)
  case prepUnregFin a => exact h.goPlain hs (fun e => Cfg.prepUnregFin_t46m ..) (Cfg.prepUnregFin_t46g ..) hr (Cfg.prepUnregFin_t46s ..)
  case stopMgr a b => exact h.goPlain hs (fun e => Cfg.stopMgr_t46m ..) (Cfg.stopMgr_t46g ..) hr (Cfg.stopMgr_t46s ..)
  case ticks a b => exact h.goPlain hs (fun e => Cfg.ticks_t46m ..) (Cfg.ticks_t46g ..) hr (Cfg.ticks_t46s ..)
  case stopFin a => exact h.goPlain hs (fun e => Cfg.stopFin_t46m ..) (Cfg.stopFin_t46g ..) hr (Cfg.stopFin_t46s ..)
  case timerNew a => exact h.goPlain hs (fun e => Cfg.timerNew_t46m ..) (Cfg.timerNew_t46g ..) hr (Cfg.timerNew_t46s ..)
  case acts a b => exact h.goPlain hs (fun e => Cfg.acts_t46m ..) (Cfg.acts_t46g ..) hr (Cfg.acts_t46s ..)
  case doFin a => exact h.goPlain hs (fun e => Cfg.doFin_t46m ..) (Cfg.doFin_t46g ..) hr (Cfg.doFin_t46s ..)
  case drainQ a => exact h.goPlain hs (fun e => Cfg.drainQ_t46m ..) (Cfg.drainQ_t46g ..) hr (Cfg.drainQ_t46s ..)
  case stepGen a => exact h.goPlain hs (fun e => Cfg.stepGen_t46m ..) (Cfg.stepGen_t46g ..) hr (Cfg.stepGen_t46s ..)
  case processTask r t => exact Cfg.t46_processTask h hs hr
  case ptBody r t => exact Cfg.t46_ptBody h hs hr
  case ptOwn r t => exact Cfg.t46_ptOwn h hs (fun w hw => hg.own r t k w hs hx hw) hr
  case ptParent r t p v => exact Cfg.t46_ptParent h hs hr
  case ptFin a b => exact h.goPlain hs (fun e => Cfg.ptFin_t46m ..) (Cfg.ptFin_t46g ..) hr (Cfg.ptFin_t46s ..)
  case dispatcher a b d => exact h.goPlain hs (fun e => Cfg.dispatcher_t46m ..) (Cfg.dispatcher_t46g ..) hr (Cfg.dispatcher_t46s ..)
  case hLoop a b d e g => exact h.goPlain hs (fun e => Cfg.hLoop_t46m ..) (Cfg.hLoop_t46g ..) hr (Cfg.hLoop_t46s ..)
  case invoke r hh e =>
    exact h.goPlain hs (Cfg.t46_invoke_M c k r hh e (fun w hk => hg.done r hh e k w hs hx hk)
      (fun w hk => hg.tickh r hh e k w hs hx hk)) (Cfg.invoke_t46g ..) hr (Cfg.invoke_t46s ..)
  case invokeFin a b => exact h.goPlain hs (fun e => Cfg.invokeFin_t46m ..) (Cfg.invokeFin_t46g ..) hr (Cfg.invokeFin_t46s ..)
  case hAfter a b d e g => exact h.goPlain hs (fun e => Cfg.hAfter_t46m ..) (Cfg.hAfter_t46g ..) hr (Cfg.hAfter_t46s ..)
  case hApply r e rest err v =>
    refine h.goPlain hs (Cfg.t46_hApply_M c k r e rest err v (fun g hv => ?_)) (Cfg.hApply_t46g ..) hr (Cfg.hApply_t46s ..)
    subst hv
    exact hg.gen r e rest err g k hs hx
  case dispFin a b d => exact h.goPlain hs (fun e => Cfg.dispFin_t46m ..) (Cfg.dispFin_t46g ..) hr (Cfg.dispFin_t46s ..)
  case dispatchLoop a => exact h.goPlain hs (fun e => Cfg.dispatchLoop_t46m ..) (Cfg.dispatchLoop_t46g ..) hr (Cfg.dispatchLoop_t46s ..)
  case flush a => exact h.goPlain hs (fun e => Cfg.flush_t46m ..) (Cfg.flush_t46g ..) hr (Cfg.flush_t46s ..)
  case flushFin a b => exact h.goPlain hs (fun e => Cfg.flushFin_t46m ..) (Cfg.flushFin_t46g ..) hr (Cfg.flushFin_t46s ..)
  case tick x => exact Cfg.t46_tick h hs (fun hne => hg.tick x k hs hx hne) hr
  case taskLoop x ts => exact Cfg.t46_taskLoop h hs
  case tickFin a b => exact h.goPlain hs (fun e => Cfg.tickFin_t46m ..) (Cfg.tickFin_t46g ..) hr (Cfg.tickFin_t46s ..)
  case tickGen a => exact h.goPlain hs (fun e => Cfg.tickGen_t46m ..) (Cfg.tickGen_t46g ..) hr (Cfg.tickGen_t46s ..)
  case run a => exact h.goPlain hs (fun e => Cfg.run_t46m ..) (Cfg.run_t46g ..) hr (Cfg.run_t46s ..)
  case runLoop a => exact h.goPlain hs (fun e => Cfg.runLoop_t46m ..) (Cfg.runLoop_t46g ..) hr (Cfg.runLoop_t46s ..)
  case runCatch a => exact h.goPlain hs (St.T46M.refl _) (St.T46G.refl _) hr (Cfg.pop_t46s ..)
  case runRethrow a => exact h.goPlain hs (fun e => Cfg.runRethrow_t46m ..) (Cfg.runRethrow_t46g ..) hr (Cfg.runRethrow_t46s ..)
  case runFin a => exact h.goPlain hs (fun e => Cfg.runFin_t46m ..) (Cfg.runFin_t46g ..) hr (Cfg.runFin_t46s ..)

/-- **the accounting invariant is preserved by every step of a guarded run** -/
theorem t46_step_inv (c : Cfg) (h : T46Inv c) (hg : T46Guard c) : T46Inv (step c) := by
  cases hs : c.stack with
  | nil => rw [step_nil c hs]; exact h
  | cons f k =>
    have hroot : ∀ x ts, Frame.taskLoop x ts ∈ k → (step c).st.rootOf x = c.st.rootOf x :=
      fun x ts hm => hg.root x ts (by rw [hs]; exact List.mem_cons_of_mem _ hm)
    cases hx : c.exn with
    | none =>
      rw [step_cons c f k hs hx] at hroot ⊢
      exact t46_stepFrame_inv h hg k f hs hx hroot
    | some ex =>
      rw [step_cons_exn c f k ex hs hx] at hroot ⊢
      exact t46_unwind_inv h k ex f hs hroot

/-! ## guarded sessions -/

/-- a session starts without tasks and without wait states; `waitingHandlers` of existing events is not negative -/
structure T46Init (s0 : St) : Prop where
  tasks : ∀ x, (s0.comp x).tasks = []
  waits : s0.waits = []
  waiting : ∀ e, 0 ≤ (s0.ev e).waiting

/-- `Reach` restricted to runs on which `T46Guard` holds at every step taken -/
inductive T46Reach (s0 : St) : Cfg → Prop
  | init (d : Nat) (tape : List Entry) (op : ExtOp) : T46Reach s0 (startOf (envChange s0 d tape) op)
  | step {c : Cfg} : T46Reach s0 c → T46Guard c → T46Reach s0 (CV.Core.step c)
  | next {c : Cfg} (d : Nat) (tape : List Entry) (op : ExtOp) :
      T46Reach s0 c → done c = true → T46Reach s0 (startOf (envChange c.st d tape) op)

theorem T46Reach.reach {s0 : St} {c : Cfg} (h : T46Reach s0 c) : Reach s0 c := by
  induction h with
  | init d tape op => exact Reach.init d tape op
  | step _ _ ih => exact Reach.step ih
  | next d tape op _ hd ih => exact Reach.next d tape op ih hd

theorem T46Reach.of_reach {s0 : St} (hG : ∀ c, Reach s0 c → T46Guard c) {c : Cfg} (h : Reach s0 c) : T46Reach s0 c := by
  induction h with
  | init d tape op => exact T46Reach.init d tape op
  | step hr ih => exact T46Reach.step ih (hG _ hr)
  | next d tape op _ hd ih => exact T46Reach.next d tape op ih hd

theorem t46_sum_zero {α} (g : α → Int) : ∀ (l : List α), (∀ a ∈ l, g a = 0) → (l.map g).sum = 0
  | [], _ => rfl
  | a :: l, h => by
    rw [List.map_cons, List.sum_cons, h a (by simp), t46_sum_zero g l (fun b hb => h b (by simp [hb]))]; rfl

theorem T46Init.slack {s0 : St} (h : T46Init s0) (e : Nat) : 0 ≤ s0.t46_D e := by
  unfold St.t46_D St.t46_WT St.t46_WW
  rw [h.waits]
  have : (s0.comps.map fun c => t46_sumTasks e c.tasks).sum = 0 := by
    apply t46_sum_zero
    intro a ha
    obtain ⟨i, hi, rfl⟩ := List.getElem_of_mem ha
    have := h.tasks i
    unfold St.comp at this
    rw [List.getD_eq_getElem?_getD, List.getElem?_eq_getElem hi] at this
    simp only [Option.getD_some] at this
    rw [this]; rfl
  rw [this]
  have := h.waiting e
  simp; omega

theorem t46_start_inv (s : St) (hd : ∀ e, 0 ≤ s.t46_D e) (hn : ∀ x, (s.comp x).tasks.Nodup)
    (d : Nat) (tape : List Entry) (op : ExtOp) : T46Inv (startOf (envChange s d tape) op) := by
  have hst : ∀ fs, (∀ f ∈ fs, f.t46_plain = true) → T46Inv (Cfg.start (envChange s d tape) fs) := by
    intro fs hp
    refine ⟨fun e => ?_, hn, ?_⟩
    · show t46_WF e fs ≤ s.t46_D e
      rw [t46_WF_plain e fs hp]; exact hd e
    · have := T46Shape.append_plain (s := envChange s d tape) (k := []) hp trivial
      rwa [List.append_nil] at this
  cases op <;> exact hst _ (by simp [Frame.t46_plain])

/-- **T46Inv holds in every configuration of every guarded session** -/
theorem t46_reach_inv {s0 : St} (h0 : T46Init s0) : ∀ c, T46Reach s0 c → T46Inv c := by
  intro c hr
  induction hr with
  | init d tape op =>
    exact t46_start_inv s0 h0.slack (fun x => by rw [h0.tasks x]; exact List.nodup_nil) d tape op
  | step _ hg ih => exact t46_step_inv _ ih hg
  | @next c0 d tape op _ hd ih =>
    refine t46_start_inv _ (fun e => ?_) ih.nd d tape op
    have h1 := ih.acct e
    have : c0.stack = [] := by simpa [done] using hd
    rw [this] at h1
    simpa using h1

end CV.Core

import CV.Proofs.InvTasksOnce
import CV.Proofs.InvWaitMain
/-
waitingHandlers accounting, part 12: the guard clauses about the `waitEvent` closures that follow from the wait-protocol
invariant `W6CInv` of C06 (admissible sessions `W6ReachW`): a handler of kind `waitDone w` / `waitTick w` exists only for a
started wait state.  `T46GuardCore` is `T46Guard` without them.
-/
namespace CV.Core

theorem St.t46_handler_lt (s : St) (h : Nat) (hk : (s.handler h).kind ≠ .fallbackExc) : h < s.hs.length := by
  apply Classical.byContradiction
  intro hn
  apply hk
  unfold St.handler
  rw [List.getD_eq_getElem?_getD, List.getElem?_eq_none (Nat.le_of_not_lt hn)]
  rfl

/-- the wait closures run on started wait states (from `W6HInv.kindDone` / `kindTick`) -/
theorem W6CInv.t46_started {n0 : Nat} {c : Cfg} (hw : W6CInv n0 c) (h w : Nat)
    (hk : (c.st.handler h).kind = .waitDone w ∨ (c.st.handler h).kind = .waitTick w) :
    (c.st.wait w).started = true := by
  have hlt : h < c.st.hs.length := by
    apply St.t46_handler_lt
    rcases hk with hk | hk <;> rw [hk] <;> exact fun h => by cases h
  rcases hk with hk | hk
  · exact (hw.w.1.kindDone h w (by simpa using hlt) (by simpa using hk)).2.1
  · exact (hw.w.1.kindTick h w (by simpa using hlt) (by simpa using hk)).2.1

/-- `T46Guard` without the clauses that `W6CInv` provides -/
structure T46GuardCore (c : Cfg) : Prop where
  tick : ∀ x k, c.stack = .tick x :: k → c.exn = none → (c.st.comp x).tasks ≠ [] →
    t46_quiet k = true ∧ c.st.rootOf x = x
  root : ∀ x ts, Frame.taskLoop x ts ∈ c.stack → (step c).st.rootOf x = c.st.rootOf x
  gen : ∀ r e rest err g k, c.stack = .hApply r e rest err (.gen g) :: k → c.exn = none → e < c.st.evs.length
  own : ∀ r t k w, c.stack = .ptOwn r t :: k → c.exn = none → c.ret.yield = .sub w →
    t.parent = none ∧ t.e < c.st.evs.length

theorem T46Guard.of_core {n0 : Nat} {c : Cfg} (hc : T46GuardCore c) (hw : W6CInv n0 c) : T46Guard c :=
  ⟨hc.tick, hc.root, hc.gen, hc.own,
   fun _ h _ _ w _ _ hk => hw.t46_started h w (Or.inl hk),
   fun _ h _ _ w _ _ hk => hw.t46_started h w (Or.inr hk)⟩

/-- admissible sessions (`W6ReachW`) on which the core guard holds at every step taken -/
inductive T46ReachC (s0 : St) : Cfg → Prop
  | init (d : Nat) (tape : List Entry) (op : ExtOp) (hop : op.w6ok s0.hs.length) :
      T46ReachC s0 (startOf (envChange s0 d tape) op)
  | step {c : Cfg} : T46ReachC s0 c → T46GuardCore c → T46ReachC s0 (CV.Core.step c)
  | next {c : Cfg} (d : Nat) (tape : List Entry) (op : ExtOp) (hop : op.w6ok s0.hs.length) :
      T46ReachC s0 c → done c = true → T46ReachC s0 (startOf (envChange c.st d tape) op)

theorem T46ReachC.admissible {s0 : St} {c : Cfg} (h : T46ReachC s0 c) : W6ReachW s0.hs.length s0 c := by
  induction h with
  | init d tape op hop => exact W6ReachW.init d tape op hop
  | step _ _ ih => exact W6ReachW.step ih
  | next d tape op hop _ hd ih => exact W6ReachW.next d tape op hop ih hd

theorem T46ReachC.guarded {s0 : St} (hi : W6InitWait s0) {c : Cfg} (h : T46ReachC s0 c) : T46Reach s0 c := by
  induction h with
  | init d tape op _ => exact T46Reach.init d tape op
  | step hprev hg ih => exact T46Reach.step ih (T46Guard.of_core hg (hprev.admissible.cinv hi))
  | next d tape op _ _ hd ih => exact T46Reach.next d tape op ih hd

end CV.Core

import CV.Proofs.NodeTwoRx
/-
C19, two-party composition (`once_and_back`): definitions.

Two protocol instances of CV.Model.Node - A (caller, client side) and B (callee) - joined by
two byte streams.  Nothing here is new model behaviour: every step is one call of a model
function (`send`, `recv`, `sendResult`, `poll`, `finish`) plus plumbing of its effects:

  send          A.send(next call)            -> bytes appended to the stream A→B
  deliverAB n   the next ≤ n bytes of A→B    -> B.add_buffer(data); every `fire` starts a handler on B
  answer id     the handler of call `id` returns (value, attributes of its event):
                `<name>_success` on channel node_result -> result_handler -> send_result -> B→A
  deliverBA n   the next ≤ n bytes of B→A    -> A.add_buffer(data)
  poll id       the generator returned by A.send(…) is resumed (`while not remote_finish: yield`,
                then `del self.__events[id]; yield event.value`)

A schedule is an arbitrary list of such steps; per-stream order is respected by construction
(a delivery takes the *next* bytes), everything else is free: where the reads cut, how sends,
reads, handler returns and generator polls interleave, in which order B's handlers return.

harness/c19.py drives real `Protocol` instances in exactly this shape (World: P0,P1 server-mode
protocols on one manager, P2,P3 clients; session steps `send`, `deliver p cuts`, handler results,
`poll`, `finish`) and compares every single model call with the implementation; the composition
function `n2_run` itself (the plumbing between the calls) is not executed by the driver.
-/
namespace CV
namespace Node

/-- the parameters of a two-party world -/
structure n2_Env where
  excl : List String                    -- META_EXCLUDE (one module constant for both sides)
  sendOkA : Ev → Bool                   -- A's send firewall
  recvOkA : Ev → Bool
  sendOkB : Ev → Bool
  recvOkB : Ev → Bool                   -- B's receive firewall
  parse : Bytes → PRes                  -- oracle: json.loads ∘ decode
  dumps : J → Bytes                     -- oracle: encode ∘ json.dumps  (before the `~` escape)
  /-- B's application: the handler run for the k-th dispatched call, given the event, returns
      `some (value, attributes it leaves on the event)`, or raises (`none`): then no
      `<name>_success` is fired and no answer is sent at all - the known finding
      `no-answer(remote-handler-raised)`, excluded in the theorems by `n2_Hyp.returns`. -/
  beh : Nat → Ev → Option (J × List (String × J))

def n2_Env.cA (E : n2_Env) : Cfg := ⟨E.excl, E.sendOkA, E.recvOkA⟩
def n2_Env.cB (E : n2_Env) : Cfg := ⟨E.excl, E.sendOkB, E.recvOkB⟩
def n2_Env.proc (E : n2_Env) : Bytes → POut := procOf E.excl E.parse

structure n2_World where
  a : Proto := {}
  b : Proto := {}
  ab : Bytes := []                          -- written by A, not yet read by B
  ba : Bytes := []                          -- written by B, not yet read by A
  todo : List Ev := []                      -- calls A is still going to make
  running : List (Ev × J × Nat) := []       -- B: dispatched, handler not yet returned (event, id, k)
  -- observations
  fired : List (Ev × J) := []               -- every dispatch on B, in order
  resolved : List (Nat × J × J) := []       -- every answer accepted by A: (id, value, errors)
  yielded : List (Nat × List J × J) := []   -- what A's generators yielded: (id, values, errors)
  aborted : Bool := false                   -- some read handler raised

inductive n2_Step where
  | send
  | deliverAB (n : Nat)
  | answer (id : Nat)
  | deliverBA (n : Nat)
  | poll (id : Nat)

/-- `self.fire(write(packet))` for every write effect: packet = _dumps(pkt).encode() + DELIMITER -/
def n2_wire (dumps : J → Bytes) : List Eff → Bytes
  | [] => []
  | .write pkt :: r => wire (dumps pkt) ++ n2_wire dumps r
  | _ :: r => n2_wire dumps r

/-- B after a read: dispatched calls start running, firewall refusals go on the wire -/
def n2_absorbB (E : n2_Env) (w : n2_World) : List Eff → n2_World
  | [] => w
  | .fire e id :: r =>
    n2_absorbB E { w with running := w.running ++ [(e, id, w.fired.length)], fired := w.fired ++ [(e, id)] } r
  | .write pkt :: r => n2_absorbB E { w with ba := w.ba ++ wire (E.dumps pkt) } r
  | .resolve _ _ _ :: r => n2_absorbB E w r

/-- A after a read: answers are recorded (A's application has no handlers for remote calls) -/
def n2_absorbA (E : n2_Env) (w : n2_World) : List Eff → n2_World
  | [] => w
  | .resolve n v er :: r => n2_absorbA E { w with resolved := w.resolved ++ [(n, v, er)] } r
  | .write pkt :: r => n2_absorbA E { w with ab := w.ab ++ wire (E.dumps pkt) } r
  | .fire _ _ :: r => n2_absorbA E w r

/-- the handler of the (first) running call with this id returns -/
def n2_takeAnswer (E : n2_Env) (w : n2_World) (n : Nat) :
    Option (n2_World × J × Option (J × List (String × J))) :=
  match w.running.find? (fun r => r.2.1.natKey == some n) with
  | none => none
  | some (e, id, k) =>
    some ({ w with running := w.running.eraseP (fun r => r.2.1.natKey == some n) }, id, E.beh k e)

/-- `result_handler` of the protocol of connection `mine` sees the `_success` event of a call
    that came in on connection `sock`:  `getattr(args[0], 'node_sock', None) is self.__sock` -/
def n2_resultHandler (E : n2_Env) (mine sock : Nat) (w : n2_World)
    (r : J × Option (J × List (String × J))) : n2_World :=
  if sock = mine then
    match r.2 with
    | some va => { w with ba := w.ba ++ n2_wire E.dumps [sendResult E.cB r.1 va.1 va.2] }
    | none => w          -- the handler raised: there is no `_success` event
  else w

def n2_step (E : n2_Env) (w : n2_World) : n2_Step → n2_World
  | .send =>
    match w.todo with
    | [] => w
    | e :: rest =>
      let r := send E.cA w.a e false
      { w with a := r.1, todo := rest, ab := w.ab ++ n2_wire E.dumps r.2 }
  | .deliverAB n =>
    let r := recv E.cB E.parse w.b (w.ab.take n)
    n2_absorbB E { w with b := r.1, ab := w.ab.drop n, aborted := w.aborted || r.2.2 } r.2.1
  | .answer n =>
    match n2_takeAnswer E w n with
    | none => w
    | some (w', r) => n2_resultHandler E 0 0 w' r
  | .deliverBA n =>
    let r := recv E.cA E.parse w.a (w.ba.take n)
    n2_absorbA E { w with a := r.1, ba := w.ba.drop n, aborted := w.aborted || r.2.2 } r.2.1
  | .poll n =>
    match poll w.a n with
    | some pe =>
      if pe.finished then
        { w with a := finish w.a n, yielded := w.yielded ++ [(n, pe.values, pe.errors)] }
      else w
    | none => w

def n2_run (E : n2_Env) (w : n2_World) (sched : List n2_Step) : n2_World := sched.foldl (n2_step E) w

theorem n2_run_append (E : n2_Env) (w : n2_World) (s t : List n2_Step) :
    n2_run E w (s ++ t) = n2_run E (n2_run E w s) t := by
  simp [n2_run, List.foldl_append]

/-- the initial world: fresh protocols, the calls A is going to make -/
def n2_init (calls : List Ev) : n2_World := { todo := calls }

/-- nothing left to happen except generator polls -/
def n2_Quiescent (w : n2_World) : Prop := w.todo = [] ∧ w.ab = [] ∧ w.ba = [] ∧ w.running = []

/-! ## what is expected -/

/-- the id `send` uses for its n-th call -/
def n2_idJ (n : Nat) : J := .num (toString n) (some n) (n == 0)

/-- what `load_event` makes of `dump_event(e, id)` (= `C19.decoded`) -/
def n2_decoded (excl : List String) (e : Ev) : Ev :=
  ⟨e.name, e.args, e.kwargs, e.success, e.failure, e.notify, e.channels,
   applyMeta excl [] (e.attrs.filter (fun kv => !excl.contains kv.1))⟩

/-- (= `C19.WellFormed`) -/
def n2_WellFormed (e : Ev) : Prop :=
  e.name.toList.contains (Char.ofNat 0) = false ∧ e.kwargs.any (fun kv => kwClash kv.1) = false ∧
  e.channels.all J.hashable = true

section expected
variable (E : n2_Env) (calls : List Ev)

def n2_callEv (i : Nat) : Ev := calls.getD i (Ev.local "" [] [])
/-- the event B dispatches for call i -/
def n2_evB (i : Nat) : Ev := n2_decoded E.excl (n2_callEv calls i)
def n2_callJ (i : Nat) : J := dumpEvent E.excl (n2_callEv calls i) (n2_idJ i)
def n2_callPkt (i : Nat) : Bytes := escTilde (E.dumps (n2_callJ E calls i))
/-- value returned by B's handler for call i -/
def n2_val (i : Nat) : J := ((E.beh i (n2_evB E calls i)).getD (.null, [])).1
def n2_ats (i : Nat) : List (String × J) := ((E.beh i (n2_evB E calls i)).getD (.null, [])).2
def n2_ansJ (i : Nat) : J := dumpValue E.excl (n2_idJ i) (.bool false) (n2_val E calls i) (n2_ats E calls i)
def n2_ansPkt (i : Nat) : Bytes := escTilde (E.dumps (n2_ansJ E calls i))
/-- the `meta` of answer i as A's `load_value` filters it -/
def n2_meta (i : Nat) : List (String × J) :=
  ((n2_ats E calls i).filter (fun kv => !E.excl.contains kv.1 && !kv.1.startsWith "__")).filter
    (fun kv => metaOk E.excl kv.1)
/-- `ev.errors` after answer i: False, unless the answering event carries an attribute `errors` -/
def n2_errs (i : Nat) : J :=
  (n2_meta E calls i).foldl (fun a kv => if kv.1 = "errors" then kv.2 else a) (.bool false)
def n2_metas (i : Nat) : List (String × J) :=
  (n2_meta E calls i).foldl (fun a kv => setAttr a kv.1 kv.2) []

def n2_expFire (i : Nat) : Ev × J := (n2_evB E calls i, n2_idJ i)
def n2_expRun (i : Nat) : Ev × J × Nat := (n2_evB E calls i, n2_idJ i, i)
def n2_expRes (i : Nat) : Nat × J × J := (i, n2_val E calls i, .bool false)
def n2_expYield (i : Nat) : Nat × List J × J := (i, [n2_val E calls i], n2_errs E calls i)
/-- A's entry for call i, before / after its answer was processed -/
def n2_expPend (D : List Nat) (i : Nat) : Pending :=
  if i ∈ D then ⟨i, true, [n2_val E calls i], n2_errs E calls i, n2_metas E calls i⟩
  else ⟨i, false, [], .null, []⟩

/-- hypotheses of `once_and_back` (as in `calls_exactly_once`): what the JSON oracle says about
    the packets that occur, well-formed events, open firewalls -/
structure n2_Hyp : Prop where
  codec : CodecOK E.proc
  wf : ∀ i < calls.length, n2_WellFormed (n2_callEv calls i)
  sendOk : ∀ i < calls.length, E.sendOkA (n2_callEv calls i) = true
  recvOk : ∀ i < calls.length, E.recvOkB (n2_evB E calls i) = true
  /-- B's handlers return (exclusion of the known finding `no-answer(remote-handler-raised)`) -/
  returns : ∀ i < calls.length, (E.beh i (n2_evB E calls i)).isSome = true
  callParse : ∀ i < calls.length, E.parse (n2_callPkt E calls i) = .parsed (n2_callJ E calls i)
  callGood : ∀ i < calls.length, Good E.proc (n2_callPkt E calls i)
  ansParse : ∀ i < calls.length, E.parse (n2_ansPkt E calls i) = .parsed (n2_ansJ E calls i)
  ansGood : ∀ i < calls.length, Good E.proc (n2_ansPkt E calls i)

end expected

end Node
end CV

import CV.Model.NodeTwo
import CV.Proofs.NodeTwoRx
/-
C19, two-party composition (`once_and_back`): what is expected of a run, and the hypotheses.

The composition itself (`n2_Env`, `n2_World`, `n2_Step`, `n2_step`, `n2_run`, `n2_init`, `n2_stepK`,
`n2_runK`) lives in the Mathlib-free model layer, CV/Model/NodeTwo.lean, and is executed by
`cvdriver node2` against two real `Protocol` endpoints (harness/c19.py, scenario kind `two`).
-/
namespace CV
namespace Node

theorem n2_run_append (E : n2_Env) (w : n2_World) (s t : List n2_Step) :
    n2_run E w (s ++ t) = n2_run E (n2_run E w s) t := by
  simp [n2_run, List.foldl_append]

/-- nothing left to happen except generator polls -/
def n2_Quiescent (w : n2_World) : Prop := w.todo = [] ∧ w.ab = [] ∧ w.ba = [] ∧ w.running = []

/-! ## what is expected -/

/-- the id `send` uses for its n-th call -/
def n2_idJ (n : Nat) : J := .num (toString n) (some n) (n == 0)

/-- what `load_event` makes of `dump_event(e, id)` (= `C19.decoded`) -/
def n2_decoded (excl : List String) (e : Ev) : Ev :=
  ⟨e.name, e.args, e.kwargs, e.success, e.failure, e.notify, e.channels,
   applyMeta excl [] (e.attrs.filter (fun kv => !excl.contains kv.1))⟩

/-- (= `C19.WellFormed`) -/
def n2_WellFormed (e : Ev) : Prop :=
  e.name.toList.contains (Char.ofNat 0) = false ∧ e.kwargs.any (fun kv => kwClash kv.1) = false ∧
  e.channels.all J.hashable = true

section expected
variable (E : n2_Env) (calls : List Ev)

def n2_callEv (i : Nat) : Ev := calls.getD i (Ev.local "" [] [])
/-- the event B dispatches for call i -/
def n2_evB (i : Nat) : Ev := n2_decoded E.excl (n2_callEv calls i)
def n2_callJ (i : Nat) : J := dumpEvent E.excl (n2_callEv calls i) (n2_idJ i)
def n2_callPkt (i : Nat) : Bytes := escTilde (E.dumps (n2_callJ E calls i))
/-- value returned by B's handler for call i -/
def n2_val (i : Nat) : J := ((E.beh i (n2_evB E calls i)).getD (.null, [])).1
def n2_ats (i : Nat) : List (String × J) := ((E.beh i (n2_evB E calls i)).getD (.null, [])).2
def n2_ansJ (i : Nat) : J := dumpValue E.excl (n2_idJ i) (.bool false) (n2_val E calls i) (n2_ats E calls i)
def n2_ansPkt (i : Nat) : Bytes := escTilde (E.dumps (n2_ansJ E calls i))
/-- the `meta` of answer i as A's `load_value` filters it -/
def n2_meta (i : Nat) : List (String × J) :=
  ((n2_ats E calls i).filter (fun kv => !E.excl.contains kv.1 && !kv.1.startsWith "__")).filter
    (fun kv => metaOk E.excl kv.1)
/-- `ev.errors` after answer i: False, unless the answering event carries an attribute `errors` -/
def n2_errs (i : Nat) : J :=
  (n2_meta E calls i).foldl (fun a kv => if kv.1 = "errors" then kv.2 else a) (.bool false)
def n2_metas (i : Nat) : List (String × J) :=
  (n2_meta E calls i).foldl (fun a kv => setAttr a kv.1 kv.2) []

def n2_expFire (i : Nat) : Ev × J := (n2_evB E calls i, n2_idJ i)
def n2_expRun (i : Nat) : Ev × J × Nat := (n2_evB E calls i, n2_idJ i, i)
def n2_expRes (i : Nat) : Nat × J × J := (i, n2_val E calls i, .bool false)
def n2_expYield (i : Nat) : Nat × List J × J := (i, [n2_val E calls i], n2_errs E calls i)
/-- A's entry for call i, before / after its answer was processed -/
def n2_expPend (D : List Nat) (i : Nat) : Pending :=
  if i ∈ D then ⟨i, true, [n2_val E calls i], n2_errs E calls i, n2_metas E calls i⟩
  else ⟨i, false, [], .null, []⟩

/-- hypotheses of `once_and_back` (as in `calls_exactly_once`): what the JSON oracle says about
    the packets that occur, well-formed events, open firewalls -/
structure n2_Hyp : Prop where
  codec : CodecOK E.proc
  wf : ∀ i < calls.length, n2_WellFormed (n2_callEv calls i)
  sendOk : ∀ i < calls.length, E.sendOkA (n2_callEv calls i) = true
  recvOk : ∀ i < calls.length, E.recvOkB (n2_evB E calls i) = true
  /-- B's handlers return (exclusion of the known finding `no-answer(remote-handler-raised)`) -/
  returns : ∀ i < calls.length, (E.beh i (n2_evB E calls i)).isSome = true
  callParse : ∀ i < calls.length, E.parse (n2_callPkt E calls i) = .parsed (n2_callJ E calls i)
  callGood : ∀ i < calls.length, Good E.proc (n2_callPkt E calls i)
  ansParse : ∀ i < calls.length, E.parse (n2_ansPkt E calls i) = .parsed (n2_ansJ E calls i)
  ansGood : ∀ i < calls.length, Good E.proc (n2_ansPkt E calls i)

end expected

end Node
end CV

import CV.Proofs.InvWaitSt
/-
C06, global layer: the universal relation `St.W6A s s'` "no temporary handler is ever re-installed":
every handler-table entry of `s'` is an entry of `s`, or belongs to a handler that is new in `s'`, or to
one that is not a temporary `waitEvent` handler.
-/
namespace CV.Core

structure St.W6A (s s' : St) : Prop where
  hsLen : s.hs.length ≤ s'.hs.length
  hsKeep : ∀ h, h < s.hs.length → s'.handler h = s.handler h
  add : ∀ c x, x ∈ (s'.comp c).htab → x ∈ (s.comp c).htab ∨ (x.2 < s.hs.length → (s.handler x.2).kind.w6_isWait = false)

namespace St.W6A

theorem refl (s : St) : St.W6A s s := ⟨Nat.le_refl _, fun _ _ => rfl, fun _ _ h => Or.inl h⟩

theorem trans {a b c : St} (h1 : St.W6A a b) (h2 : St.W6A b c) : St.W6A a c := by
  refine ⟨Nat.le_trans h1.hsLen h2.hsLen, ?_, ?_⟩
  · intro h hh; rw [h2.hsKeep h (Nat.lt_of_lt_of_le hh h1.hsLen), h1.hsKeep h hh]
  · intro cc x hx
    rcases h2.add cc x hx with hx | hx
    · exact h1.add cc x hx
    · right; intro hlt
      have := hx (Nat.lt_of_lt_of_le hlt h1.hsLen)
      rwa [h1.hsKeep _ hlt] at this

theorem modComp_self (t : St) (c : Nat) (f : Comp → Comp) (hf : ∀ x, (f x).htab = x.htab) : St.W6A t (t.modComp c f) :=
  ⟨Nat.le_refl _, fun _ _ => rfl, fun c' x hx => Or.inl (by rwa [St.w6_modComp_comp_htab _ _ _ hf] at hx)⟩
theorem modEv_self (t : St) (c : Nat) (f : Ev → Ev) : St.W6A t (t.modEv c f) := ⟨Nat.le_refl _, fun _ _ => rfl, fun _ _ h => Or.inl h⟩
theorem modTimer_self (t : St) (c : Nat) (f : TimerSt → TimerSt) : St.W6A t (t.modTimer c f) := ⟨Nat.le_refl _, fun _ _ => rfl, fun _ _ h => Or.inl h⟩
theorem modWait_self (t : St) (c : Nat) (f : WaitSt → WaitSt) : St.W6A t (t.modWait c f) := ⟨Nat.le_refl _, fun _ _ => rfl, fun _ _ h => Or.inl h⟩
theorem tick1_self (t : St) (d : Int) : St.W6A t (t.tick1 d) := ⟨Nat.le_refl _, fun _ _ => rfl, fun _ _ h => Or.inl h⟩
theorem logE_self (t : St) (x : Entry) : St.W6A t (t.logE x) := ⟨Nat.le_refl _, fun _ _ => rfl, fun _ _ h => Or.inl h⟩
theorem addEv_self (t : St) (x : Ev) : St.W6A t (t.addEv x) := ⟨Nat.le_refl _, fun _ _ => rfl, fun _ _ h => Or.inl h⟩
theorem setGen_self (t : St) (g : Nat) (x : GenRec) : St.W6A t (t.setGen g x) := ⟨Nat.le_refl _, fun _ _ => rfl, fun _ _ h => Or.inl h⟩
theorem addGen_self (t : St) (x : GenRec) : St.W6A t (t.addGen x) := ⟨Nat.le_refl _, fun _ _ => rfl, fun _ _ h => Or.inl h⟩
theorem addWait_self (t : St) (x : WaitSt) : St.W6A t (t.addWait x) := ⟨Nat.le_refl _, fun _ _ => rfl, fun _ _ h => Or.inl h⟩
theorem addH_self (t : St) (x : Handler) : St.W6A t (t.addH x) :=
  ⟨by simp, fun h hh => by rw [St.w6_addH_handler]; simp [Nat.ne_of_lt hh], fun _ _ h => Or.inl h⟩

variable {s t : St}
theorem modComp (h : St.W6A s t) (c : Nat) (f : Comp → Comp) (hf : ∀ x, (f x).htab = x.htab) : St.W6A s (t.modComp c f) :=
  h.trans (modComp_self _ _ _ hf)
theorem modEv (h : St.W6A s t) (c : Nat) (f : Ev → Ev) : St.W6A s (t.modEv c f) := h.trans (modEv_self ..)
theorem modTimer (h : St.W6A s t) (c : Nat) (f : TimerSt → TimerSt) : St.W6A s (t.modTimer c f) := h.trans (modTimer_self ..)
theorem modWait (h : St.W6A s t) (c : Nat) (f : WaitSt → WaitSt) : St.W6A s (t.modWait c f) := h.trans (modWait_self ..)
theorem tick1 (h : St.W6A s t) (d : Int) : St.W6A s (t.tick1 d) := h.trans (tick1_self ..)
theorem logE (h : St.W6A s t) (x : Entry) : St.W6A s (t.logE x) := h.trans (logE_self ..)
theorem addEv (h : St.W6A s t) (x : Ev) : St.W6A s (t.addEv x) := h.trans (addEv_self ..)
theorem setGen (h : St.W6A s t) (g : Nat) (x : GenRec) : St.W6A s (t.setGen g x) := h.trans (setGen_self ..)
theorem addGen (h : St.W6A s t) (x : GenRec) : St.W6A s (t.addGen x) := h.trans (addGen_self ..)
theorem addWait (h : St.W6A s t) (x : WaitSt) : St.W6A s (t.addWait x) := h.trans (addWait_self ..)
theorem addH (h : St.W6A s t) (x : Handler) : St.W6A s (t.addH x) := h.trans (addH_self ..)
end St.W6A

syntax "w6st_a1" : tactic
macro_rules | `(tactic| w6st_a1) => `(tactic| split)
macro_rules | `(tactic| w6st_a1) => `(tactic| with_reducible apply St.W6A.tick1)
macro_rules | `(tactic| w6st_a1) => `(tactic| with_reducible apply St.W6A.addWait)
macro_rules | `(tactic| w6st_a1) => `(tactic| with_reducible apply St.W6A.addGen)
macro_rules | `(tactic| w6st_a1) => `(tactic| with_reducible apply St.W6A.addH)
macro_rules | `(tactic| w6st_a1) => `(tactic| with_reducible apply St.W6A.addEv)
macro_rules | `(tactic| w6st_a1) => `(tactic| with_reducible apply St.W6A.logE)
macro_rules | `(tactic| w6st_a1) => `(tactic| with_reducible apply St.W6A.setGen)
macro_rules | `(tactic| w6st_a1) => `(tactic| with_reducible apply St.W6A.modTimer)
macro_rules | `(tactic| w6st_a1) => `(tactic| with_reducible apply St.W6A.modWait)
macro_rules | `(tactic| w6st_a1) => `(tactic| with_reducible apply St.W6A.modEv)
macro_rules | `(tactic| w6st_a1) => `(tactic| with_reducible apply St.W6A.modComp)
macro_rules | `(tactic| w6st_a1) => `(tactic| (intro _; first | rfl | trivial))
macro_rules | `(tactic| w6st_a1) => `(tactic| with_reducible assumption)
macro_rules | `(tactic| w6st_a1) => `(tactic| with_reducible exact St.W6A.refl _)

macro "w6st_a" : tactic => `(tactic| repeat' w6st_a1)
macro "w6st_a_unfold" ids:ident+ : tactic => `(tactic| (unfold $[$ids]*; (try dsimp only); w6st_a))

/-! ## helpers of `Pure.lean` -/

theorem St.W6A.addHandler {s t : St} (h : St.W6A s t) (x : Nat)
    (hx : x < s.hs.length → (s.handler x).kind.w6_isWait = false) : St.W6A s (t.addHandler x) := by
  refine ⟨by rw [St.w6_addHandler_hs]; exact h.hsLen, fun y hy => by rw [St.w6_addHandler_handler]; exact h.hsKeep y hy, ?_⟩
  intro c y hy
  rcases (t.w6_addHandler_htab x c).2.2.1 y hy with hy | ⟨hy, _⟩
  · exact h.add c y hy
  · right; intro hlt; rw [hy] at hlt ⊢; exact hx hlt

theorem St.W6A.removeHandler {s t : St} (h : St.W6A s t) (x : Nat) (n : Option Name) :
    St.W6A s ((t.removeHandler x n).2) := by
  refine ⟨by rw [St.w6_removeHandler_hs]; exact h.hsLen, fun y hy => by rw [St.w6_removeHandler_handler]; exact h.hsKeep y hy, ?_⟩
  intro c y hy
  exact h.add c y ((t.w6_removeHandler_htab_sublist x n c).subset hy)
macro_rules | `(tactic| w6st_a1) => `(tactic| with_reducible apply St.W6A.removeHandler)

theorem St.W6A.fireContext {s t : St} (h : St.W6A s t) (r e : Nat) :
    St.W6A s (t.fireContext r e) := by
  w6st_a_unfold St.fireContext
macro_rules | `(tactic| w6st_a1) => `(tactic| with_reducible apply St.W6A.fireContext)

theorem St.W6A.fireRaw {s t : St} (h : St.W6A s t) (self e : Nat) (chans : List Chan) (prio : Int) :
    St.W6A s (t.fireRaw self e chans prio) := by
  w6st_a_unfold St.fireRaw
macro_rules | `(tactic| w6st_a1) => `(tactic| with_reducible apply St.W6A.fireRaw)

theorem St.W6A.childEv {s t : St} (h : St.W6A s t) (p sfx : Nat) :
    St.W6A s (t.childEv p sfx) := by
  w6st_a_unfold St.childEv
macro_rules | `(tactic| w6st_a1) => `(tactic| with_reducible apply St.W6A.childEv)

theorem St.W6A.fireChild {s t : St} (h : St.W6A s t) (self p sfx : Nat) (chans : List Chan) :
    St.W6A s (t.fireChild self p sfx chans) := by
  w6st_a_unfold St.fireChild
macro_rules | `(tactic| w6st_a1) => `(tactic| with_reducible apply St.W6A.fireChild)

theorem St.W6A.inform {s t : St} (h : St.W6A s t) (e : Nat) (force : Bool) :
    St.W6A s (t.inform e force) := by
  w6st_a_unfold St.inform
macro_rules | `(tactic| w6st_a1) => `(tactic| with_reducible apply St.W6A.inform)

theorem St.W6A.setValue {s t : St} (h : St.W6A s t) (e : Nat) (x : VItem) :
    St.W6A s (t.setValue e x) := by
  w6st_a_unfold St.setValue
macro_rules | `(tactic| w6st_a1) => `(tactic| with_reducible apply St.W6A.setValue)

theorem St.W6A.fireTmplEv {s t : St} (h : St.W6A s t) (self : Nat) (ev : Ev) (target : Option Chan) (prio : Int) :
    St.W6A s (t.fireTmplEv self ev target prio) := by
  w6st_a_unfold St.fireTmplEv
macro_rules | `(tactic| w6st_a1) => `(tactic| with_reducible apply St.W6A.fireTmplEv)

theorem St.W6A.effectDone1 {s t : St} (h : St.W6A s t) (r e : Nat) (announce : Bool) :
    St.W6A s ((t.effectDone1 r e announce).2) := by
  w6st_a_unfold St.effectDone1
macro_rules | `(tactic| w6st_a1) => `(tactic| with_reducible apply St.W6A.effectDone1)

theorem St.W6A.eventDonePre {s t : St} (h : St.W6A s t) (r e : Nat) (err : Bool) :
    St.W6A s ((t.eventDonePre r e err).2) := by
  w6st_a_unfold St.eventDonePre
macro_rules | `(tactic| w6st_a1) => `(tactic| with_reducible apply St.W6A.eventDonePre)

theorem St.W6A.registerTask {s t : St} (h : St.W6A s t) (c : Nat) (x : Task) :
    St.W6A s (t.registerTask c x) := by
  w6st_a_unfold St.registerTask
macro_rules | `(tactic| w6st_a1) => `(tactic| with_reducible apply St.W6A.registerTask)

theorem St.W6A.unregisterTask {s t : St} (h : St.W6A s t) (c : Nat) (x : Task) :
    St.W6A s (t.unregisterTask c x) := by
  w6st_a_unfold St.unregisterTask
macro_rules | `(tactic| w6st_a1) => `(tactic| with_reducible apply St.W6A.unregisterTask)

theorem St.W6A.reduceTimeLeft {s t : St} (h : St.W6A s t) (e : Nat) (d : Int) :
    St.W6A s (t.reduceTimeLeft e d) := by
  w6st_a_unfold St.reduceTimeLeft
macro_rules | `(tactic| w6st_a1) => `(tactic| with_reducible apply St.W6A.reduceTimeLeft)

theorem St.W6A.registerPre {s t : St} (h : St.W6A s t) (c p : Nat) :
    St.W6A s ((t.registerPre c p).2) := by
  w6st_a_unfold St.registerPre
macro_rules | `(tactic| w6st_a1) => `(tactic| with_reducible apply St.W6A.registerPre)

theorem St.W6A.registerFin {s t : St} (h : St.W6A s t) (c : Nat) :
    St.W6A s (t.registerFin c) := by
  w6st_a_unfold St.registerFin
macro_rules | `(tactic| w6st_a1) => `(tactic| with_reducible apply St.W6A.registerFin)

theorem St.W6A.unregister {s t : St} (h : St.W6A s t) (c : Nat) :
    St.W6A s (t.unregister c) := by
  w6st_a_unfold St.unregister
macro_rules | `(tactic| w6st_a1) => `(tactic| with_reducible apply St.W6A.unregister)

theorem St.W6A.prepUnregPre {s t : St} (h : St.W6A s t) (c : Nat) :
    St.W6A s (t.prepUnregPre c) := by
  w6st_a_unfold St.prepUnregPre
macro_rules | `(tactic| w6st_a1) => `(tactic| with_reducible apply St.W6A.prepUnregPre)

theorem St.W6A.prepUnregFin {s t : St} (h : St.W6A s t) (c : Nat) :
    St.W6A s (t.prepUnregFin c) := by
  w6st_a_unfold St.prepUnregFin
macro_rules | `(tactic| w6st_a1) => `(tactic| with_reducible apply St.W6A.prepUnregFin)

theorem St.W6A.actFire {s t : St} (h : St.W6A s t) (self i : Nat) (target : Option Chan) (prio : Int) (cancel : Bool) :
    St.W6A s (t.actFire self i target prio cancel) := by
  w6st_a_unfold St.actFire
macro_rules | `(tactic| w6st_a1) => `(tactic| with_reducible apply St.W6A.actFire)

theorem St.W6A.actStopEv {s t : St} (h : St.W6A s t) (ev : Option Nat) :
    St.W6A s (t.actStopEv ev) := by
  w6st_a_unfold St.actStopEv
macro_rules | `(tactic| w6st_a1) => `(tactic| with_reducible apply St.W6A.actStopEv)

theorem St.W6A.timerReset {s t : St} (h : St.W6A s t) (i : Nat) :
    St.W6A s (t.timerReset i) := by
  w6st_a_unfold St.timerReset
macro_rules | `(tactic| w6st_a1) => `(tactic| with_reducible apply St.W6A.timerReset)

theorem St.W6A.timerCreate {s t : St} (h : St.W6A s t) (i : Nat) :
    St.W6A s (t.timerCreate i) := by
  w6st_a_unfold St.timerCreate
macro_rules | `(tactic| w6st_a1) => `(tactic| with_reducible apply St.W6A.timerCreate)

theorem St.W6A.timerTick {s t : St} (h : St.W6A s t) (i e : Nat) :
    St.W6A s (t.timerTick i e) := by
  w6st_a_unfold St.timerTick
macro_rules | `(tactic| w6st_a1) => `(tactic| with_reducible apply St.W6A.timerTick)

theorem St.W6A.w6_install {s t : St} (h : St.W6A s t) (hd : Handler) : St.W6A s (t.w6_install hd) := by
  unfold St.w6_install
  apply St.W6A.addHandler (h.addH hd)
  intro hlt; exfalso; have := h.hsLen; omega

theorem St.W6A.startWait {s t : St} (h : St.W6A s t) (w : Nat) :
    St.W6A s (t.startWait w) := by
  rw [St.w6_startWait_eq]
  unfold St.w6_startTail St.w6_install3
  dsimp only
  apply St.W6A.modWait
  split
  · apply St.W6A.w6_install; apply St.W6A.w6_install; apply St.W6A.w6_install
    split
    · w6st_a
    · exact h
  · apply St.W6A.w6_install; apply St.W6A.w6_install
    split
    · w6st_a
    · exact h
macro_rules | `(tactic| w6st_a1) => `(tactic| with_reducible apply St.W6A.startWait)

/-! ## pure pieces of `Step.lean` -/

theorem St.W6A.stopBegin {s t : St} (h : St.W6A s t) (c : Nat) :
    St.W6A s (t.stopBegin c) := by
  w6st_a_unfold St.stopBegin
macro_rules | `(tactic| w6st_a1) => `(tactic| with_reducible apply St.W6A.stopBegin)

theorem St.W6A.stopSetCode {s t : St} (h : St.W6A s t) (r : Nat) (code : Code) :
    St.W6A s (t.stopSetCode r code) := by
  w6st_a_unfold St.stopSetCode
macro_rules | `(tactic| w6st_a1) => `(tactic| with_reducible apply St.W6A.stopSetCode)

theorem St.W6A.genCall {s t : St} (h : St.W6A s t) (owner i : Nat) (target : Option Chan) (timeout : Option Nat) :
    St.W6A s (t.genCall owner i target timeout) := by
  w6st_a_unfold St.genCall
macro_rules | `(tactic| w6st_a1) => `(tactic| with_reducible apply St.W6A.genCall)

theorem St.W6A.genWait {s t : St} (h : St.W6A s t) (owner : Nat) (name : Name) (target : Option Chan) (timeout : Option Nat) :
    St.W6A s (t.genWait owner name target timeout) := by
  w6st_a_unfold St.genWait
macro_rules | `(tactic| w6st_a1) => `(tactic| with_reducible apply St.W6A.genWait)

theorem St.W6A.resumeGenPre {s t : St} (h : St.W6A s t) (g : Nat) (silent : Bool) :
    St.W6A s (t.resumeGenPre g silent) := by
  w6st_a_unfold St.resumeGenPre
macro_rules | `(tactic| w6st_a1) => `(tactic| with_reducible apply St.W6A.resumeGenPre)

theorem St.W6A.stopIteration {s t : St} (h : St.W6A s t) (r : Nat) (x : Task) :
    St.W6A s ((t.stopIteration r x).2) := by
  w6st_a_unfold St.stopIteration
macro_rules | `(tactic| w6st_a1) => `(tactic| with_reducible apply St.W6A.stopIteration)

theorem St.W6A.fireException {s t : St} (h : St.W6A s t) (r e : Nat) :
    St.W6A s (t.fireException r e) := by
  w6st_a_unfold St.fireException
macro_rules | `(tactic| w6st_a1) => `(tactic| with_reducible apply St.W6A.fireException)

theorem St.W6A.errorBranch {s t : St} (h : St.W6A s t) (r : Nat) (x : Task) (resumed : Bool) :
    St.W6A s ((t.errorBranch r x resumed).2) := by
  w6st_a_unfold St.errorBranch
macro_rules | `(tactic| w6st_a1) => `(tactic| with_reducible apply St.W6A.errorBranch)

theorem St.W6A.ownSub {s t : St} (h : St.W6A s t) (r : Nat) (x : Task) (w : Nat) :
    St.W6A s (t.ownSub r x w) := by
  w6st_a_unfold St.ownSub
macro_rules | `(tactic| w6st_a1) => `(tactic| with_reducible apply St.W6A.ownSub)

theorem St.W6A.setValueOpt {s t : St} (h : St.W6A s t) (e : Nat) (v : Option Nat) :
    St.W6A s (t.setValueOpt e v) := by
  w6st_a_unfold St.setValueOpt
macro_rules | `(tactic| w6st_a1) => `(tactic| with_reducible apply St.W6A.setValueOpt)

theorem St.W6A.parentSub {s t : St} (h : St.W6A s t) (r : Nat) (x : Task) (p w2 : Nat) (viaThrow : Bool) :
    St.W6A s (t.parentSub r x p w2 viaThrow) := by
  w6st_a_unfold St.parentSub
macro_rules | `(tactic| w6st_a1) => `(tactic| with_reducible apply St.W6A.parentSub)

theorem St.W6A.parentPlain {s t : St} (h : St.W6A s t) (r : Nat) (x : Task) (p : Nat) (v : Option Nat) (viaThrow : Bool) :
    St.W6A s (t.parentPlain r x p v viaThrow) := by
  w6st_a_unfold St.parentPlain
macro_rules | `(tactic| w6st_a1) => `(tactic| with_reducible apply St.W6A.parentPlain)

theorem St.W6A.onWaitEvent {s t : St} (h : St.W6A s t) (w e : Nat) :
    St.W6A s ((t.onWaitEvent w e).2) := by
  w6st_a_unfold St.onWaitEvent
macro_rules | `(tactic| w6st_a1) => `(tactic| with_reducible apply St.W6A.onWaitEvent)

theorem St.W6A.onWaitDone {s t : St} (h : St.W6A s t) (w e : Nat) :
    St.W6A s ((t.onWaitDone w e).2) := by
  w6st_a_unfold St.onWaitDone
macro_rules | `(tactic| w6st_a1) => `(tactic| with_reducible apply St.W6A.onWaitDone)

theorem St.W6A.onWaitTick {s t : St} (h : St.W6A s t) (w : Nat) :
    St.W6A s ((t.onWaitTick w).2) := by
  w6st_a_unfold St.onWaitTick
macro_rules | `(tactic| w6st_a1) => `(tactic| with_reducible apply St.W6A.onWaitTick)

theorem St.W6A.onFallbackGE {s t : St} (h : St.W6A s t) (e : Nat) :
    St.W6A s ((t.onFallbackGE e).2) := by
  w6st_a_unfold St.onFallbackGE
macro_rules | `(tactic| w6st_a1) => `(tactic| with_reducible apply St.W6A.onFallbackGE)

theorem St.W6A.computeHandlers {s t : St} (h : St.W6A s t) (r : Nat) (name : Name) (chans : List Chan) :
    St.W6A s ((t.computeHandlers r name chans).2) := by
  w6st_a_unfold St.computeHandlers
macro_rules | `(tactic| w6st_a1) => `(tactic| with_reducible apply St.W6A.computeHandlers)

theorem St.W6A.dispComplete {s t : St} (h : St.W6A s t) (e : Nat) (ev : Ev) :
    St.W6A s (t.dispComplete e ev) := by
  w6st_a_unfold St.dispComplete
macro_rules | `(tactic| w6st_a1) => `(tactic| with_reducible apply St.W6A.dispComplete)

theorem St.W6A.cacheRefresh {s t : St} (h : St.W6A s t) (r : Nat) :
    St.W6A s (t.cacheRefresh r) := by
  w6st_a_unfold St.cacheRefresh
macro_rules | `(tactic| w6st_a1) => `(tactic| with_reducible apply St.W6A.cacheRefresh)

theorem St.W6A.lookupHandlers {s t : St} (h : St.W6A s t) (r : Nat) (name : Name) (chans : List Chan) :
    St.W6A s ((t.lookupHandlers r name chans).2) := by
  w6st_a_unfold St.lookupHandlers
macro_rules | `(tactic| w6st_a1) => `(tactic| with_reducible apply St.W6A.lookupHandlers)

theorem St.W6A.dispGE {s t : St} (h : St.W6A s t) (r e remaining : Nat) (name : Name) :
    St.W6A s (t.dispGE r e remaining name) := by
  w6st_a_unfold St.dispGE
macro_rules | `(tactic| w6st_a1) => `(tactic| with_reducible apply St.W6A.dispGE)

theorem St.W6A.dispatchPre {s t : St} (h : St.W6A s t) (r e remaining : Nat) :
    St.W6A s ((t.dispatchPre r e remaining).2) := by
  w6st_a_unfold St.dispatchPre
macro_rules | `(tactic| w6st_a1) => `(tactic| with_reducible apply St.W6A.dispatchPre)

theorem St.W6A.handlerRaised {s t : St} (h : St.W6A s t) (r e : Nat) :
    St.W6A s (t.handlerRaised r e) := by
  w6st_a_unfold St.handlerRaised
macro_rules | `(tactic| w6st_a1) => `(tactic| with_reducible apply St.W6A.handlerRaised)

theorem St.W6A.applyValue {s t : St} (h : St.W6A s t) (r e : Nat) (value : Outcome) :
    St.W6A s (t.applyValue r e value) := by
  w6st_a_unfold St.applyValue
macro_rules | `(tactic| w6st_a1) => `(tactic| with_reducible apply St.W6A.applyValue)

theorem St.W6A.geTasksCheck {s t : St} (h : St.W6A s t) (r e : Nat) :
    St.W6A s (t.geTasksCheck r e) := by
  w6st_a_unfold St.geTasksCheck
macro_rules | `(tactic| w6st_a1) => `(tactic| with_reducible apply St.W6A.geTasksCheck)

theorem St.W6A.flushBegin {s t : St} (h : St.W6A s t) (r : Nat) :
    St.W6A s (t.flushBegin r) := by
  w6st_a_unfold St.flushBegin
macro_rules | `(tactic| w6st_a1) => `(tactic| with_reducible apply St.W6A.flushBegin)

theorem St.W6A.tickGenerate {s t : St} (h : St.W6A s t) (c : Nat) :
    St.W6A s (t.tickGenerate c) := by
  w6st_a_unfold St.tickGenerate
macro_rules | `(tactic| w6st_a1) => `(tactic| with_reducible apply St.W6A.tickGenerate)

theorem St.W6A.runBegin {s t : St} (h : St.W6A s t) (c : Nat) :
    St.W6A s (t.runBegin c) := by
  w6st_a_unfold St.runBegin
macro_rules | `(tactic| w6st_a1) => `(tactic| with_reducible apply St.W6A.runBegin)

theorem St.W6A.runEnd {s t : St} (h : St.W6A s t) (c : Nat) :
    St.W6A s ((t.runEnd c).2) := by
  w6st_a_unfold St.runEnd
macro_rules | `(tactic| w6st_a1) => `(tactic| with_reducible apply St.W6A.runEnd)

theorem St.W6A.actStep {s t : St} (h : St.W6A s t) (ctx : HCtx) (a : Act) : St.W6A s (actStep t ctx a).st := by
  cases a <;> (unfold CV.Core.actStep; (try dsimp only))
  case addH x =>
    split
    · rename_i hk
      apply St.W6A.addHandler h
      intro hlt
      rw [← h.hsKeep x hlt]
      cases hkd : (t.handler x).kind <;> first | rfl | (rw [hkd] at hk; simp [HKind.code] at hk)
    · exact h
  all_goals w6st_a
macro_rules | `(tactic| w6st_a1) => `(tactic| with_reducible apply St.W6A.actStep)

/-! ## the arms of `step` -/

macro_rules
  | `(tactic| w6st_a1) => `(tactic| simp only [Cfg.pop_st, Cfg.popRet_st, Cfg.raise_st, Cfg.goto_st])

theorem Cfg.w6_effectDone_a (c : Cfg) (k : List Frame) (r e : Nat) (announce : Bool) :
    St.W6A c.st (c.effectDone k r e announce).st := by
  unfold Cfg.effectDone; (try dsimp only); w6st_a
macro_rules | `(tactic| w6st_a1) => `(tactic| with_reducible exact Cfg.w6_effectDone_a ..)

theorem Cfg.w6_eventDone_a (c : Cfg) (k : List Frame) (r e : Nat) (err : Bool) :
    St.W6A c.st (c.eventDone k r e err).st := by
  unfold Cfg.eventDone; (try dsimp only); w6st_a
macro_rules | `(tactic| w6st_a1) => `(tactic| with_reducible exact Cfg.w6_eventDone_a ..)

theorem St.W6A.updateRootAll (s : St) : ∀ (fuel : Nat) (todo : List Nat) (root : Nat) (t : St),
    St.W6A s t → St.W6A s (St.updateRootAll fuel todo root t) := by
  intro fuel
  induction fuel with
  | zero => intro todo root t h; simpa [St.updateRootAll] using h
  | succ n ih =>
    intro todo root t h
    cases todo with
    | nil => simpa [St.updateRootAll] using h
    | cons x rest =>
      simp only [St.updateRootAll]
      apply ih
      w6st_a

macro_rules | `(tactic| w6st_a1) => `(tactic| with_reducible apply St.W6A.updateRootAll)

theorem Cfg.w6_updateRoot_a (c : Cfg) (k : List Frame) (todo : List Nat) (root : Nat) :
    St.W6A c.st (c.updateRoot k todo root).st := by
  unfold Cfg.updateRoot; (try dsimp only)
  simp only [Cfg.pop_st]
  exact St.W6A.updateRootAll _ _ _ _ _ (St.W6A.refl _)
macro_rules | `(tactic| w6st_a1) => `(tactic| with_reducible exact Cfg.w6_updateRoot_a ..)

theorem Cfg.w6_register_a (c : Cfg) (k : List Frame) (x p : Nat) :
    St.W6A c.st (c.register k x p).st := by
  unfold Cfg.register; (try dsimp only); w6st_a
macro_rules | `(tactic| w6st_a1) => `(tactic| with_reducible exact Cfg.w6_register_a ..)

theorem Cfg.w6_registerFin_a (c : Cfg) (k : List Frame) (x : Nat) :
    St.W6A c.st (c.registerFin k x).st := by
  unfold Cfg.registerFin; (try dsimp only); w6st_a
macro_rules | `(tactic| w6st_a1) => `(tactic| with_reducible exact Cfg.w6_registerFin_a ..)

theorem Cfg.w6_prepUnregFin_a (c : Cfg) (k : List Frame) (x : Nat) :
    St.W6A c.st (c.prepUnregFin k x).st := by
  unfold Cfg.prepUnregFin; (try dsimp only); w6st_a
macro_rules | `(tactic| w6st_a1) => `(tactic| with_reducible exact Cfg.w6_prepUnregFin_a ..)

theorem Cfg.w6_stopMgr_a (c : Cfg) (k : List Frame) (x : Nat) (code : Code) :
    St.W6A c.st (c.stopMgr k x code).st := by
  unfold Cfg.stopMgr; (try dsimp only); w6st_a
macro_rules | `(tactic| w6st_a1) => `(tactic| with_reducible exact Cfg.w6_stopMgr_a ..)

theorem Cfg.w6_ticks_a (c : Cfg) (k : List Frame) (x n : Nat) :
    St.W6A c.st (c.ticks k x n).st := by
  unfold Cfg.ticks; (try dsimp only); w6st_a
macro_rules | `(tactic| w6st_a1) => `(tactic| with_reducible exact Cfg.w6_ticks_a ..)

theorem Cfg.w6_stopFin_a (c : Cfg) (k : List Frame) (code : Code) :
    St.W6A c.st (c.stopFin k code).st := by
  unfold Cfg.stopFin; (try dsimp only); w6st_a
macro_rules | `(tactic| w6st_a1) => `(tactic| with_reducible exact Cfg.w6_stopFin_a ..)

theorem Cfg.w6_timerNew_a (c : Cfg) (k : List Frame) (i : Nat) :
    St.W6A c.st (c.timerNew k i).st := by
  unfold Cfg.timerNew; (try dsimp only); w6st_a
macro_rules | `(tactic| w6st_a1) => `(tactic| with_reducible exact Cfg.w6_timerNew_a ..)

theorem Cfg.w6_acts_a (c : Cfg) (k : List Frame) (ctx : HCtx) (prog : Prog) :
    St.W6A c.st (c.acts k ctx prog).st := by
  unfold Cfg.acts; (try dsimp only); w6st_a
macro_rules | `(tactic| w6st_a1) => `(tactic| with_reducible exact Cfg.w6_acts_a ..)

theorem Cfg.w6_doFin_a (c : Cfg) (k : List Frame) (x : Nat) :
    St.W6A c.st (c.doFin k x).st := by
  unfold Cfg.doFin; (try dsimp only); w6st_a
macro_rules | `(tactic| w6st_a1) => `(tactic| with_reducible exact Cfg.w6_doFin_a ..)

theorem Cfg.w6_drainQ_a (c : Cfg) (k : List Frame) (x : Nat) :
    St.W6A c.st (c.drainQ k x).st := by
  unfold Cfg.drainQ; (try dsimp only); w6st_a
macro_rules | `(tactic| w6st_a1) => `(tactic| with_reducible exact Cfg.w6_drainQ_a ..)

theorem Cfg.w6_stepGen_a (c : Cfg) (k : List Frame) (g : Nat) :
    St.W6A c.st (c.stepGen k g).st := by
  unfold Cfg.stepGen; (try dsimp only); w6st_a
macro_rules | `(tactic| w6st_a1) => `(tactic| with_reducible exact Cfg.w6_stepGen_a ..)

theorem Cfg.w6_processTask_a (c : Cfg) (k : List Frame) (r : Nat) (x : Task) :
    St.W6A c.st (c.processTask k r x).st := by
  unfold Cfg.processTask; (try dsimp only); w6st_a
macro_rules | `(tactic| w6st_a1) => `(tactic| with_reducible exact Cfg.w6_processTask_a ..)

theorem Cfg.w6_contStop_a {s0 : St} (c : Cfg) (k : List Frame) (s : St) (r : Nat) (x : Task) (hle : St.W6A s0 s) :
    St.W6A s0 (c.contStop k s r x).st := by
  unfold Cfg.contStop; (try dsimp only); w6st_a
macro_rules | `(tactic| w6st_a1) => `(tactic| with_reducible apply Cfg.w6_contStop_a)

theorem Cfg.w6_contError_a {s0 : St} (c : Cfg) (k : List Frame) (s : St) (r : Nat) (x : Task) (resumed : Bool) (hle : St.W6A s0 s) :
    St.W6A s0 (c.contError k s r x resumed).st := by
  unfold Cfg.contError; (try dsimp only); w6st_a
macro_rules | `(tactic| w6st_a1) => `(tactic| with_reducible apply Cfg.w6_contError_a)

theorem Cfg.w6_ptBodyWait_a (c : Cfg) (k : List Frame) (r : Nat) (x : Task) (w : Nat) :
    St.W6A c.st (c.ptBodyWait k r x w).st := by
  unfold Cfg.ptBodyWait; (try dsimp only); w6st_a
macro_rules | `(tactic| w6st_a1) => `(tactic| with_reducible exact Cfg.w6_ptBodyWait_a ..)

theorem Cfg.w6_ptBodyExc_a (c : Cfg) (k : List Frame) (r : Nat) (x : Task) (w : Nat) (fired : Bool) :
    St.W6A c.st (c.ptBodyExc k r x w fired).st := by
  unfold Cfg.ptBodyExc; (try dsimp only); w6st_a
macro_rules | `(tactic| w6st_a1) => `(tactic| with_reducible exact Cfg.w6_ptBodyExc_a ..)

theorem Cfg.w6_ptBody_a (c : Cfg) (k : List Frame) (r : Nat) (x : Task) :
    St.W6A c.st (c.ptBody k r x).st := by
  unfold Cfg.ptBody; (try dsimp only); w6st_a
macro_rules | `(tactic| w6st_a1) => `(tactic| with_reducible exact Cfg.w6_ptBody_a ..)

theorem Cfg.w6_ptOwn_a (c : Cfg) (k : List Frame) (r : Nat) (x : Task) :
    St.W6A c.st (c.ptOwn k r x).st := by
  unfold Cfg.ptOwn; (try dsimp only); w6st_a
macro_rules | `(tactic| w6st_a1) => `(tactic| with_reducible exact Cfg.w6_ptOwn_a ..)

theorem Cfg.w6_ptParent_a (c : Cfg) (k : List Frame) (r : Nat) (x : Task) (p : Nat) (viaThrow : Bool) :
    St.W6A c.st (c.ptParent k r x p viaThrow).st := by
  unfold Cfg.ptParent; (try dsimp only); w6st_a
macro_rules | `(tactic| w6st_a1) => `(tactic| with_reducible exact Cfg.w6_ptParent_a ..)

theorem Cfg.w6_ptFin_a (c : Cfg) (k : List Frame) (r : Nat) (handling : Option Nat) :
    St.W6A c.st (c.ptFin k r handling).st := by
  unfold Cfg.ptFin; (try dsimp only); w6st_a
macro_rules | `(tactic| w6st_a1) => `(tactic| with_reducible exact Cfg.w6_ptFin_a ..)

theorem Cfg.w6_dispatcher_a (c : Cfg) (k : List Frame) (r e remaining : Nat) :
    St.W6A c.st (c.dispatcher k r e remaining).st := by
  unfold Cfg.dispatcher; (try dsimp only); w6st_a
macro_rules | `(tactic| w6st_a1) => `(tactic| with_reducible exact Cfg.w6_dispatcher_a ..)

theorem Cfg.w6_hLoop_a (c : Cfg) (k : List Frame) (r e : Nat) (hs : List Nat) (err : Bool) (stale : Outcome) :
    St.W6A c.st (c.hLoop k r e hs err stale).st := by
  unfold Cfg.hLoop; (try dsimp only); w6st_a
macro_rules | `(tactic| w6st_a1) => `(tactic| with_reducible exact Cfg.w6_hLoop_a ..)

theorem Cfg.w6_invokeUser_a {s0 : St} (c : Cfg) (k : List Frame) (s : St) (h e owner p : Nat) (hle : St.W6A s0 s) :
    St.W6A s0 (c.invokeUser k s h e owner p).st := by
  unfold Cfg.invokeUser; (try dsimp only); w6st_a
macro_rules | `(tactic| w6st_a1) => `(tactic| with_reducible apply Cfg.w6_invokeUser_a)

theorem Cfg.w6_invoke_a (c : Cfg) (k : List Frame) (r h e : Nat) :
    St.W6A c.st (c.invoke k r h e).st := by
  unfold Cfg.invoke; (try dsimp only); w6st_a
macro_rules | `(tactic| w6st_a1) => `(tactic| with_reducible exact Cfg.w6_invoke_a ..)

theorem Cfg.w6_invokeFin_a (c : Cfg) (k : List Frame) (e h : Nat) :
    St.W6A c.st (c.invokeFin k e h).st := by
  unfold Cfg.invokeFin; (try dsimp only); w6st_a
macro_rules | `(tactic| w6st_a1) => `(tactic| with_reducible exact Cfg.w6_invokeFin_a ..)

theorem Cfg.w6_hAfter_a (c : Cfg) (k : List Frame) (r e : Nat) (rest : List Nat) (err : Bool) (stale : Outcome) :
    St.W6A c.st (c.hAfter k r e rest err stale).st := by
  unfold Cfg.hAfter; (try dsimp only); w6st_a
macro_rules | `(tactic| w6st_a1) => `(tactic| with_reducible exact Cfg.w6_hAfter_a ..)

theorem Cfg.w6_hApply_a (c : Cfg) (k : List Frame) (r e : Nat) (rest : List Nat) (err : Bool) (value : Outcome) :
    St.W6A c.st (c.hApply k r e rest err value).st := by
  unfold Cfg.hApply; (try dsimp only); w6st_a
macro_rules | `(tactic| w6st_a1) => `(tactic| with_reducible exact Cfg.w6_hApply_a ..)

theorem Cfg.w6_dispFin_a (c : Cfg) (k : List Frame) (r e : Nat) (err : Bool) :
    St.W6A c.st (c.dispFin k r e err).st := by
  unfold Cfg.dispFin; (try dsimp only); w6st_a
macro_rules | `(tactic| w6st_a1) => `(tactic| with_reducible exact Cfg.w6_dispFin_a ..)

theorem Cfg.w6_dispatchLoop_a (c : Cfg) (k : List Frame) (r : Nat) :
    St.W6A c.st (c.dispatchLoop k r).st := by
  unfold Cfg.dispatchLoop; (try dsimp only); w6st_a
macro_rules | `(tactic| w6st_a1) => `(tactic| with_reducible exact Cfg.w6_dispatchLoop_a ..)

theorem Cfg.w6_flush_a (c : Cfg) (k : List Frame) (x : Nat) :
    St.W6A c.st (c.flush k x).st := by
  unfold Cfg.flush; (try dsimp only); w6st_a
macro_rules | `(tactic| w6st_a1) => `(tactic| with_reducible exact Cfg.w6_flush_a ..)

theorem Cfg.w6_flushFin_a (c : Cfg) (k : List Frame) (r : Nat) (old : Bool) :
    St.W6A c.st (c.flushFin k r old).st := by
  unfold Cfg.flushFin; (try dsimp only); w6st_a
macro_rules | `(tactic| w6st_a1) => `(tactic| with_reducible exact Cfg.w6_flushFin_a ..)

theorem Cfg.w6_tick_a (c : Cfg) (k : List Frame) (x : Nat) :
    St.W6A c.st (c.tick k x).st := by
  unfold Cfg.tick; (try dsimp only); w6st_a
macro_rules | `(tactic| w6st_a1) => `(tactic| with_reducible exact Cfg.w6_tick_a ..)

theorem Cfg.w6_taskLoop_a (c : Cfg) (k : List Frame) (x : Nat) (ts : List Task) :
    St.W6A c.st (c.taskLoop k x ts).st := by
  unfold Cfg.taskLoop; (try dsimp only); w6st_a
macro_rules | `(tactic| w6st_a1) => `(tactic| with_reducible exact Cfg.w6_taskLoop_a ..)

theorem Cfg.w6_tickFin_a (c : Cfg) (k : List Frame) (x : Nat) (old : Bool) :
    St.W6A c.st (c.tickFin k x old).st := by
  unfold Cfg.tickFin; (try dsimp only); w6st_a
macro_rules | `(tactic| w6st_a1) => `(tactic| with_reducible exact Cfg.w6_tickFin_a ..)

theorem Cfg.w6_tickGen_a (c : Cfg) (k : List Frame) (x : Nat) :
    St.W6A c.st (c.tickGen k x).st := by
  unfold Cfg.tickGen; (try dsimp only); w6st_a
macro_rules | `(tactic| w6st_a1) => `(tactic| with_reducible exact Cfg.w6_tickGen_a ..)

theorem Cfg.w6_run_a (c : Cfg) (k : List Frame) (x : Nat) :
    St.W6A c.st (c.run k x).st := by
  unfold Cfg.run; (try dsimp only); w6st_a
macro_rules | `(tactic| w6st_a1) => `(tactic| with_reducible exact Cfg.w6_run_a ..)

theorem Cfg.w6_runLoop_a (c : Cfg) (k : List Frame) (x : Nat) :
    St.W6A c.st (c.runLoop k x).st := by
  unfold Cfg.runLoop; (try dsimp only); w6st_a
macro_rules | `(tactic| w6st_a1) => `(tactic| with_reducible exact Cfg.w6_runLoop_a ..)

theorem Cfg.w6_runFin_a (c : Cfg) (k : List Frame) (x : Nat) :
    St.W6A c.st (c.runFin k x).st := by
  unfold Cfg.runFin; (try dsimp only); w6st_a
macro_rules | `(tactic| w6st_a1) => `(tactic| with_reducible exact Cfg.w6_runFin_a ..)

theorem Cfg.w6_runCatchExn_a (c : Cfg) (k : List Frame) (x : Nat) (ex : Exn) :
    St.W6A c.st (c.runCatchExn k x ex).st := by
  unfold Cfg.runCatchExn; (try dsimp only); w6st_a
macro_rules | `(tactic| w6st_a1) => `(tactic| with_reducible exact Cfg.w6_runCatchExn_a ..)

theorem Cfg.w6_runRethrow_a (c : Cfg) (k : List Frame) (ex : Exn) :
    St.W6A c.st (c.runRethrow k ex).st := by
  unfold Cfg.runRethrow; (try dsimp only); w6st_a
macro_rules | `(tactic| w6st_a1) => `(tactic| with_reducible exact Cfg.w6_runRethrow_a ..)

/-! ## the transition function -/

theorem w6_stepFrame_a (c : Cfg) (k : List Frame) (f : Frame) : St.W6A c.st (stepFrame c k f).st := by
  cases f <;> (dsimp only [stepFrame]; w6st_a)

theorem w6_unwind_a (c : Cfg) (k : List Frame) (ex : Exn) (f : Frame) : St.W6A c.st (unwind c k ex f).st := by
  cases f <;> (dsimp only [unwind]; w6st_a)


theorem w6_step_a (c : Cfg) : St.W6A c.st (step c).st := by
  unfold step
  split
  · exact St.W6A.refl _
  · split
    · exact w6_unwind_a ..
    · exact w6_stepFrame_a ..

end CV.Core

import CV.Model.HttpClient
import CV.Model.HttpSpec
import CV.Proofs.HttpLexRound
/-
Helper lemmas for the client component (C13): the reads of one response seen through the component,
the shape of the serialised request head, `occurs` facts for serialised header blocks.  Core Lean only.
-/
namespace CV
namespace Http
namespace Client

/-! ### reads through the component = `clientAll` + bookkeeping -/

theorem readAll_eq (lex : Lex) (segs : List Bytes) : ∀ st : State,
    readAll lex st segs =
      (⟨st.connected && !((clientAll lex st.parser segs).2.any closes), (clientAll lex st.parser segs).1⟩,
       (clientAll lex st.parser segs).2.flatMap respEvents) := by
  induction segs with
  | nil => intro st; simp [readAll, clientAll]
  | cons d ds ih =>
    intro st
    simp only [readAll, onRead, clientAll]
    rw [ih]
    simp [List.any_cons, Bool.and_assoc, Bool.not_or]

theorem flatMap_replicate_none (n : Nat) (r : Resp) :
    (List.replicate n (none : Option Resp) ++ [some r]).flatMap respEvents = respEvents (some r) := by
  induction n with
  | zero => simp
  | succ n ih => simp [List.replicate_succ, respEvents] at ih ⊢

theorem any_replicate_none (n : Nat) (r : Resp) :
    (List.replicate n (none : Option Resp) ++ [some r]).any closes = closes (some r) := by
  induction n with
  | zero => simp
  | succ n ih => simp [List.replicate_succ, closes] at ih ⊢

/-! ### the serialised head -/

theorem serHeaderLines_eq (fs : List Field) (hne : fs ≠ []) :
    serHeaderLines fs ++ [13, 10] = serFields fs ++ CRLF2 := by
  induction fs with
  | nil => exact absurd rfl hne
  | cons f fs ih =>
    cases fs with
    | nil => simp [serHeaderLines, serFields, fieldLine, CRLF2]
    | cons g gs =>
      have := ih (by simp)
      simp only [serHeaderLines, serFields, fieldLine, List.append_assoc, List.cons_append] at this ⊢
      rw [this]

theorem serHead_eq (m t : Bytes) (fs : List Field) (hne : fs ≠ []) :
    serHead m t fs = reqLineOf m t [49] [49] ++ CRLF ++ serFields fs ++ CRLF2 := by
  unfold serHead
  rw [serHeaderLines_eq fs hne]
  simp [reqLineOf, sHttp11, httpSlash, CRLF]

/-! ### `occurs` -/

theorem occurs_no_head (pat : Bytes) (c : UInt8) (p : Bytes) (hp : pat = c :: p) (l r : Bytes)
    (h : ∀ b ∈ l, b ≠ c) : occurs pat (l ++ r) = occurs pat r := by
  induction l with
  | nil => rfl
  | cons a l ih =>
    have ha : a ≠ c := h a (by simp)
    rw [List.cons_append, occurs, ih (fun b hb => h b (List.mem_cons_of_mem _ hb))]
    subst hp
    simp [ha]

theorem occurs_crlf_no_lf (x : Bytes) (h : ∀ b ∈ x, b ≠ 10) : occurs CRLF x = false := by
  induction x with
  | nil => rfl
  | cons a r ih =>
    rw [occurs, ih (fun b hb => h b (List.mem_cons_of_mem _ hb))]
    cases r with
    | nil => simp [CRLF]
    | cons b r' =>
      have : b ≠ 10 := h b (by simp)
      simp [CRLF, this]

theorem occurs_crlf2_step (c : UInt8) (rest : Bytes) (hc : c ≠ 13) :
    occurs CRLF2 (13 :: 10 :: c :: rest) = occurs CRLF2 (c :: rest) := by
  rw [occurs, occurs]
  cases rest <;> simp [CRLF2, hc]

theorem fieldLine_head {f : Field} (hf : FieldOk0 f) : ∃ c r, fieldLine f = c :: r ∧ c ≠ 13 := by
  obtain ⟨hne, htc, _, _⟩ := hf
  cases hn : f.1 with
  | nil => exact absurd hn hne
  | cons c r =>
    refine ⟨c, r ++ 58 :: 32 :: f.2, by simp [fieldLine, hn], ?_⟩
    exact (lx_tchar_facts c (htc c (by simp [hn]))).2.1

theorem serFields_head (fs : List Field) (hne : fs ≠ []) (hok : ∀ f ∈ fs, FieldOk f) :
    ∃ c r, serFields fs = c :: r ∧ c ≠ 13 := by
  cases fs with
  | nil => exact absurd rfl hne
  | cons f gs =>
    obtain ⟨c, r, e, hc⟩ := fieldLine_head (hok f (by simp)).1
    cases gs with
    | nil => exact ⟨c, r, by simp [serFields, e], hc⟩
    | cons g gs' => exact ⟨c, r ++ 13 :: 10 :: serFields (g :: gs'), by simp [serFields, e], hc⟩

theorem occurs_crlf2_ser (fs : List Field) (hne : fs ≠ []) (hok : ∀ f ∈ fs, FieldOk f) :
    occurs CRLF2 (serFields fs ++ [13, 10, 13]) = false := by
  induction fs with
  | nil => exact absurd rfl hne
  | cons f gs ih =>
    have hcr := lx_fieldLine_no_cr (hok f (by simp)).1
    cases gs with
    | nil =>
      simp only [serFields]
      rw [occurs_no_head CRLF2 13 [10, 13, 10] rfl _ _ hcr]
      decide
    | cons g gs' =>
      have ih' := ih (by simp) (fun x hx => hok x (List.mem_cons_of_mem _ hx))
      obtain ⟨c, r, e, hc⟩ := serFields_head (g :: gs') (by simp) (fun x hx => hok x (List.mem_cons_of_mem _ hx))
      simp only [serFields, List.append_assoc, List.cons_append]
      rw [occurs_no_head CRLF2 13 [10, 13, 10] rfl _ _ hcr]
      rw [e] at ih' ⊢
      rw [List.cons_append] at ih' ⊢
      rw [occurs_crlf2_step c _ hc]
      exact ih'

/-! ### the request on the wire -/

theorem wire_eq (q : Request) (u : Url) :
    wireBytes (requestWrites q u) =
      serHead q.method u.path (requestFields u q.headers q.body) ++ q.body.getD [] := by
  unfold requestWrites
  cases q.body <;> simp [wireBytes]

theorem hdrSet_ne_nil (fs : List Field) (k v : Bytes) : hdrSet fs k v ≠ [] := by
  cases fs with
  | nil => simp [hdrSet]
  | cons f fs => obtain ⟨n, w⟩ := f; simp only [hdrSet]; split <;> simp

theorem requestFields_ne_nil (u : Url) (user : List Field) (body : Option Bytes) :
    requestFields u user body ≠ [] := by
  unfold requestFields
  cases body with
  | some b => exact hdrSet_ne_nil _ _ _
  | none =>
    simp only
    split
    · next h =>
      intro e
      rw [e] at h
      simp [hdrHas] at h
    · exact hdrSet_ne_nil _ _ _

theorem reqLine_no_lf (m t : Bytes) (hm : methodOk m = true) (ht : ∀ b ∈ t, isUSpace b = false) :
    ∀ b ∈ reqLineOf m t [49] [49] ++ [13], b ≠ 10 := by
  unfold methodOk at hm
  simp only [Bool.and_eq_true, List.all_eq_true] at hm
  have hsp : isUSpace 10 = true := by decide
  intro b hb e
  subst e
  simp only [reqLineOf, httpSlash, List.mem_append, List.mem_cons, List.not_mem_nil, or_false] at hb
  rcases hb with (h | h | h | h | h) | h
  · have := (lx_method_char (hm.2 _ h)).1; rw [hsp] at this; cases this
  · cases h
  · have := ht _ h; rw [hsp] at this; cases this
  · cases h
  · revert h; decide
  · cases h

/-! ### the framing the client announces -/

theorem upper_facts : ∀ b : UInt8, upperA (upperA b) = upperA b ∧ upperA (lowerA b) = upperA b :=
  lx_forall_uint8 _ (by decide +kernel)

theorem titleGo_upper (s : Bytes) : ∀ p, (titleGo p s).map upperA = s.map upperA := by
  induction s with
  | nil => intro p; rfl
  | cons b r ih =>
    intro p
    simp only [titleGo, List.map_cons, ih]
    cases p <;> simp [(upper_facts b).1, (upper_facts b).2]

theorem titleA_upper (s : Bytes) : (titleA s).map upperA = s.map upperA := titleGo_upper s false

/-- no field of `fs` has the name `K` (upper-cased) -/
def NoName (K : Bytes) (fs : List Field) : Prop := ∀ f ∈ fs, f.1.map upperA ≠ K

theorem noName_hdrSet {K : Bytes} {fs : List Field} (k v : Bytes) (h : NoName K fs) (hk : k.map upperA ≠ K) :
    NoName K (hdrSet fs k v) := by
  induction fs with
  | nil => intro f hf; simp [hdrSet] at hf; subst hf; exact hk
  | cons g gs ih =>
    obtain ⟨n, w⟩ := g
    have hg : n.map upperA ≠ K := h (n, w) (by simp)
    have ih' := ih (fun f hf => h f (List.mem_cons_of_mem _ hf))
    intro f hf
    simp only [hdrSet] at hf
    split at hf
    · simp only [List.mem_cons] at hf
      rcases hf with rfl | hf
      · exact hg
      · exact h f (List.mem_cons_of_mem _ hf)
    · simp only [List.mem_cons] at hf
      rcases hf with rfl | hf
      · exact hg
      · exact ih' f hf

theorem noName_foldl {K : Bytes} (user : List Field) (h : NoName K user) : ∀ acc, NoName K acc →
    NoName K (user.foldl (fun acc f => hdrSet acc (titleA f.1) f.2) acc) := by
  induction user with
  | nil => intro acc ha; exact ha
  | cons g gs ih =>
    intro acc ha
    simp only [List.foldl_cons]
    apply ih (fun f hf => h f (List.mem_cons_of_mem _ hf))
    apply noName_hdrSet _ _ ha
    rw [titleA_upper]
    exact h g (by simp)

theorem noName_mkHeaders {K : Bytes} (user : List Field) (h : NoName K user) : NoName K (mkHeaders user) :=
  noName_foldl user h [] (fun f hf => by cases hf)

theorem hdrGet_noName {K : Bytes} (fs : List Field) (h : NoName K fs) : hdrGet (fs.map normField) K = none := by
  induction fs with
  | nil => rfl
  | cons g gs ih =>
    have hg : g.1.map upperA ≠ K := h g (by simp)
    simp only [List.map_cons, normField, hdrGet, hg, if_false]
    exact ih (fun f hf => h f (List.mem_cons_of_mem _ hf))

theorem hdrSet_append {fs : List Field} (k v : Bytes) (h : NoName (k.map upperA) fs) : hdrSet fs k v = fs ++ [(k, v)] := by
  induction fs with
  | nil => rfl
  | cons g gs ih =>
    obtain ⟨n, w⟩ := g
    have hg : n ≠ k := fun e => h (n, w) (by simp) (by rw [e])
    simp only [hdrSet, hg, if_false, List.cons_append]
    rw [ih (fun f hf => h f (List.mem_cons_of_mem _ hf))]

theorem hdrGet_append_last {K : Bytes} (fs : List Field) (k v : Bytes) (h : NoName K fs) (hk : k.map upperA = K) :
    hdrGet ((fs ++ [(k, v)]).map normField) K = some v := by
  induction fs with
  | nil => simp [normField, hdrGet, hk]
  | cons g gs ih =>
    have hg : g.1.map upperA ≠ K := h g (by simp)
    simp only [List.cons_append, List.map_cons, normField, hdrGet, hg, if_false]
    exact ih (fun f hf => h f (List.mem_cons_of_mem _ hf))

theorem decVal_snoc (xs : Bytes) (d : UInt8) : decVal (xs ++ [d]) = decVal xs * 10 + (d.toNat - 48) := by
  simp [decVal, List.foldl_append]

theorem decStrGo_facts : ∀ f n, n < f →
    decVal (decStrGo f n) = n ∧ decStrGo f n ≠ [] ∧ ∀ b ∈ decStrGo f n, isDigit b = true := by
  intro f
  induction f with
  | zero => intro n h; omega
  | succ f ih =>
    intro n hn
    unfold decStrGo
    by_cases h10 : n < 10
    · simp only [h10, if_true]
      have e : (UInt8.ofNat (48 + n)).toNat = 48 + n := by
        rw [UInt8.toNat_ofNat']; omega
      refine ⟨by simp [decVal]; omega, by simp, ?_⟩
      intro b hb
      simp only [List.mem_singleton] at hb
      subst hb
      simp [isDigit]; omega
    · simp only [h10, if_false]
      obtain ⟨i1, i2, i3⟩ := ih (n / 10) (by omega)
      have e : (UInt8.ofNat (48 + n % 10)).toNat = 48 + n % 10 := by
        rw [UInt8.toNat_ofNat']; omega
      refine ⟨by rw [decVal_snoc, i1, e]; omega, by simp, ?_⟩
      intro b hb
      simp only [List.mem_append, List.mem_singleton] at hb
      rcases hb with hb | rfl
      · exact i3 b hb
      · simp [isDigit]; omega

theorem decStr_facts (n : Nat) : decVal (decStr n) = n ∧ decStr n ≠ [] ∧ ∀ b ∈ decStr n, isDigit b = true :=
  decStrGo_facts (n + 1) n (by omega)

/-- the application sets none of the framing headers itself -/
def NoFraming (user : List Field) : Prop :=
  NoName nContentLength user ∧ NoName nTransferEncoding user ∧ NoName nConnection user

theorem noName_h1 {K : Bytes} (u : Url) (user : List Field) (h : NoName K user) (hK : sHost.map upperA ≠ K) :
    NoName K (if hdrHas (mkHeaders user) sHost then mkHeaders user else hdrSet (mkHeaders user) sHost (hostValue u)) := by
  split
  · exact noName_mkHeaders user h
  · exact noName_hdrSet _ _ (noName_mkHeaders user h) hK

theorem info_of_gets (gs : List Field) (hi : HdrInfo) (h : infoOfFields gs = .ok hi)
    (hte : hdrGet gs nTransferEncoding = none) (hconn : hdrGet gs nConnection = none) :
    hi.te = false ∧ hi.upgrade = false := by
  unfold infoOfFields at h
  cases hcl : clenOfFields gs with
  | ok cl =>
    simp only [hcl, Lx.map, hte, hconn, Option.getD_none, Lx.ok.injEq] at h
    subst h
    exact ⟨rfl, rfl⟩
  | invalid => simp [hcl, Lx.map] at h
  | unsupported => simp [hcl, Lx.map] at h

theorem info_absent (gs : List Field) (h : hdrGet gs nContentLength = none) :
    ∃ hi, infoOfFields gs = .ok hi ∧ hi.clen = .absent := by
  unfold infoOfFields clenOfFields
  simp only [h, Lx.map]
  exact ⟨_, rfl, rfl⟩

theorem framing_none (H : List Field) (h1cl : NoName nContentLength H) (h1te : NoName nTransferEncoding H)
    (h1co : NoName nConnection H) :
    ∃ h, infoOfFields (H.map normField) = .ok h ∧ h.upgrade = false ∧ bodyOk .request h [] [] = true := by
  obtain ⟨hi, e, ecl⟩ := info_absent _ (hdrGet_noName _ h1cl)
  obtain ⟨t1, t2⟩ := info_of_gets _ hi e (hdrGet_noName _ h1te) (hdrGet_noName _ h1co)
  exact ⟨hi, e, t2, by simp [bodyOk, ecl, t1]⟩

theorem framing_some (H : List Field) (b : Bytes) (h1cl : NoName nContentLength H)
    (h1te : NoName nTransferEncoding H) (h1co : NoName nConnection H) (hlen : (decStr b.length).length ≤ 4000) :
    ∃ h, infoOfFields ((hdrSet H sContentLength (decStr b.length)).map normField) = .ok h ∧ h.upgrade = false ∧
      bodyOk .request h b b = true := by
  have hcn : sContentLength.map upperA = nContentLength := by decide
  rw [hdrSet_append _ _ (by rw [hcn]; exact h1cl)]
  obtain ⟨d1, d2, d3⟩ := decStr_facts b.length
  have g1 := hdrGet_append_last H sContentLength (decStr b.length) h1cl hcn
  have n2 : NoName nTransferEncoding (H ++ [(sContentLength, decStr b.length)]) := by
    intro f hf
    simp only [List.mem_append, List.mem_singleton] at hf
    rcases hf with hf | rfl
    · exact h1te f hf
    · show sContentLength.map upperA ≠ nTransferEncoding; decide
  have n3 : NoName nConnection (H ++ [(sContentLength, decStr b.length)]) := by
    intro f hf
    simp only [List.mem_append, List.mem_singleton] at hf
    rcases hf with hf | rfl
    · exact h1co f hf
    · show sContentLength.map upperA ≠ nConnection; decide
  obtain ⟨hi, e, ecl⟩ := lx_clen_digits _ _ g1 d2 d3 hlen
  obtain ⟨t1, t2⟩ := info_of_gets _ hi e (hdrGet_noName _ n2) (hdrGet_noName _ n3)
  exact ⟨hi, e, t2, by simp [bodyOk, ecl, d1]⟩

theorem framing_facts (u : Url) (user : List Field) (body : Option Bytes) (hno : NoFraming user)
    (hlen : ∀ b, body = some b → (decStr b.length).length ≤ 4000) :
    ∃ h, infoOfFields ((requestFields u user body).map normField) = .ok h ∧ h.upgrade = false ∧
      bodyOk .request h (body.getD []) (body.getD []) = true := by
  obtain ⟨hcl, hte, hco⟩ := hno
  have h1cl := noName_h1 u user hcl (by decide)
  have h1te := noName_h1 u user hte (by decide)
  have h1co := noName_h1 u user hco (by decide)
  cases body with
  | none => exact framing_none _ h1cl h1te h1co
  | some b => exact framing_some _ b h1cl h1te h1co (hlen b rfl)

/-! ### the request target `parse_url` yields -/

/-- a byte of a modelled URL other than `#` -/
def PathCh (b : UInt8) : Prop :=
  (33 ≤ b.toNat ∧ b.toNat ≤ 126 ∧ b ≠ 92 ∧ b ≠ 91 ∧ b ≠ 93) ∧ b ≠ 35

theorem mem_takeWhile_p {p : UInt8 → Bool} {b : UInt8} : ∀ {l : Bytes}, b ∈ l.takeWhile p → p b = true := by
  intro l
  induction l with
  | nil => intro h; cases h
  | cons a r ih =>
    intro h
    rw [List.takeWhile_cons] at h
    split at h
    · next hp =>
      simp only [List.mem_cons] at h
      rcases h with rfl | h
      · exact hp
      · exact ih h
    · cases h

theorem dropWhile_nil_of_all {p : UInt8 → Bool} : ∀ {l : Bytes}, (∀ b ∈ l, p b = true) → l.dropWhile p = [] := by
  intro l
  induction l with
  | nil => intro _; rfl
  | cons a r ih =>
    intro h
    rw [List.dropWhile_cons, if_pos (h a (by simp))]
    exact ih (fun b hb => h b (List.mem_cons_of_mem _ hb))

theorem splitScheme_sub (u : Bytes) : ∀ b ∈ (splitScheme u).2, b ∈ u := by
  intro b hb
  unfold splitScheme at hb
  simp only at hb
  split at hb
  · exact (List.dropWhile_sublist _).mem ((List.drop_sublist _ _).mem hb)
  · exact hb

theorem splitNetloc_sub (r : Bytes) : ∀ b ∈ (splitNetloc r).2, b ∈ r := by
  intro b hb
  unfold splitNetloc at hb
  split at hb
  · exact (List.drop_sublist _ _).mem ((List.dropWhile_sublist _).mem hb)
  · exact hb

theorem dropParams_sub (p : Bytes) : ∀ b ∈ dropParams p, b ∈ p := by
  intro b hb
  unfold dropParams at hb
  simp only at hb
  split at hb
  · rw [List.mem_append] at hb
    rcases hb with hb | hb
    · exact (List.take_sublist _ _).mem hb
    · have := (List.takeWhile_sublist _).mem hb
      rw [List.mem_reverse] at this
      have := (List.takeWhile_sublist _).mem this
      rwa [List.mem_reverse] at this
  · exact (List.takeWhile_sublist _).mem hb

theorem urlPath_chars (u : Bytes) (hd : urlInDomain u = true) : ∀ b ∈ urlPath u, PathCh b := by
  unfold urlInDomain at hd
  simp only [List.all_eq_true, Bool.and_eq_true, decide_eq_true_eq, bne_iff_ne, ne_eq] at hd
  have hnf : ∀ b ∈ ((splitNetloc (splitScheme u).2).2.takeWhile (fun b => b != 35)), PathCh b := by
    intro b hb
    have h35 := mem_takeWhile_p hb
    have hu := splitScheme_sub u b (splitNetloc_sub _ b ((List.takeWhile_sublist _).mem hb))
    have := hd b hu
    exact ⟨⟨this.1.1.1.1.1.1, this.1.1.1.1.1.2, this.1.1.1.1.2, this.1.1.1.2, this.1.1.2⟩, by simpa using h35⟩
  intro b hb
  unfold urlPath at hb
  simp only [List.mem_append] at hb
  rcases hb with hb | hb
  · split at hb
    · simp only [List.mem_singleton] at hb; subst hb; exact ⟨by decide, by decide⟩
    · exact hnf b ((List.takeWhile_sublist _).mem (dropParams_sub _ b hb))
  · split at hb
    · cases hb
    · simp only [List.mem_cons] at hb
      rcases hb with rfl | hb
      · exact ⟨by decide, by decide⟩
      · exact hnf b ((List.dropWhile_sublist _).mem ((List.drop_sublist _ _).mem hb))

theorem urlPath_ne_nil (u : Bytes) : urlPath u ≠ [] := by
  unfold urlPath
  simp only
  split <;> simp_all

theorem pathCh_facts : ∀ b : UInt8, PathCh b →
    isUSpace b = false ∧ (b == 91 || b == 93 || decide (128 ≤ b.toNat)) = false ∧ (b != 35) = true := by
  apply lx_forall_uint8
  unfold PathCh
  decide +kernel

theorem parseUrl_path (url : Bytes) (u : Url) (h : parseUrl url = .ok u) :
    u.path = urlPath url ∧ urlInDomain url = true := by
  unfold parseUrl at h
  split at h
  · cases h
  · next hdom =>
    simp only [Bool.or_eq_true, Bool.not_eq_true', not_or, Bool.not_eq_false] at hdom
    refine ⟨?_, hdom.1⟩
    simp only at h
    split at h
    · cases h
    · split at h
      · split at h
        · cases h
        · simp only [UrlRes.ok.injEq] at h
          rw [← h]
      · cases h

theorem parseUrl_target (url : Bytes) (u : Url) (h : parseUrl url = .ok u) :
    u.path ≠ [] ∧ (∀ b ∈ u.path, isUSpace b = false) ∧ hasFragment u.path = false ∧ urlRefused u.path = false := by
  obtain ⟨e, hd⟩ := parseUrl_path url u h
  have hc := urlPath_chars url hd
  rw [e]
  refine ⟨urlPath_ne_nil url, fun b hb => (pathCh_facts b (hc b hb)).1, ?_, ?_⟩
  · unfold hasFragment
    have : (urlPath url).dropWhile (fun b => b != 35) = [] := by
      apply dropWhile_nil_of_all
      intro b hb
      exact (pathCh_facts b (hc b hb)).2.2
    rw [this]; rfl
  · unfold urlRefused
    have : (urlPath url).any (fun b => b == 91 || b == 93 || decide (128 ≤ b.toNat)) = false := by
      rw [List.any_eq_false]
      intro b hb
      simp only [(pathCh_facts b (hc b hb)).2.1, Bool.false_eq_true, not_false_eq_true]
    rw [this, Bool.and_false]

end Client
end Http
end CV

import CV.Model.Core.QueueSpec
import CV.Model.Core.Choose
/-
Helper lemmas for C02: the `_EventQueue` layer (`CV.Core.EQ`) under the op language of
`CV/Model/Core/QueueSpec.lean`, and the handler choice `chooseNext` / `chooseIter`.
Core Lean only (no Mathlib).
-/
namespace CV.Core

/-! ### the key order `(prio, seq)` -/

theorem QItem.le_refl (a : QItem) : a.le a = true := by
  simp [QItem.le]

theorem QItem.le_trans {a b c : QItem} (h1 : a.le b = true) (h2 : b.le c = true) :
    a.le c = true := by
  simp only [QItem.le, Bool.or_eq_true, Bool.and_eq_true, decide_eq_true_eq, beq_iff_eq] at *
  omega

theorem QItem.le_total (a b : QItem) : (a.le b || b.le a) = true := by
  simp only [QItem.le, Bool.or_eq_true, Bool.and_eq_true, decide_eq_true_eq, beq_iff_eq]
  omega

theorem QItem.le_antisymm_key {a b : QItem} (h1 : a.le b = true) (h2 : b.le a = true) :
    a.prio = b.prio ∧ a.seq = b.seq := by
  simp only [QItem.le, Bool.or_eq_true, Bool.and_eq_true, decide_eq_true_eq, beq_iff_eq] at *
  omega

theorem QItem.le_of_keyEq {a m x : QItem} (hk : a.keyEq m = true) (h : m.le x = true) :
    a.le x = true := by
  simp only [QItem.le, QItem.keyEq, Bool.or_eq_true, Bool.and_eq_true, decide_eq_true_eq,
    beq_iff_eq] at *
  omega

theorem QItem.le_of_prio_lt {a b : QItem} (h : a.prio < b.prio) : a.le b = true := by
  simp only [QItem.le, Bool.or_eq_true, Bool.and_eq_true, decide_eq_true_eq, beq_iff_eq]
  omega

theorem QItem.prio_le_of_le {a b : QItem} (h : a.le b = true) : a.prio ≤ b.prio := by
  simp only [QItem.le, Bool.or_eq_true, Bool.and_eq_true, decide_eq_true_eq, beq_iff_eq] at *
  omega

theorem QItem.not_le_of_seq_lt {a b : QItem} (hp : a.prio = b.prio) (hs : a.seq < b.seq) :
    b.le a = false := by
  rw [Bool.eq_false_iff]
  intro h
  simp only [QItem.le, Bool.or_eq_true, Bool.and_eq_true, decide_eq_true_eq, beq_iff_eq] at h
  omega

/-! ### `minItem`, `minCands` -/

theorem minItem_mem : ∀ {h : List QItem} {m : QItem}, minItem h = some m → m ∈ h
  | [], _, hm => by simp [minItem] at hm
  | a :: rest, m, hm => by
    unfold minItem at hm
    split at hm
    · simp only [Option.some.injEq] at hm; subst hm; exact List.mem_cons_self
    · rename_i m' hm'
      have := minItem_mem hm'
      split at hm
      · simp only [Option.some.injEq] at hm; subst hm; exact List.mem_cons_self
      · simp only [Option.some.injEq] at hm; subst hm; exact List.mem_cons_of_mem _ this

theorem minItem_eq_none : ∀ {h : List QItem}, minItem h = none → h = []
  | [], _ => rfl
  | a :: rest, hm => by
    unfold minItem at hm
    split at hm
    · simp at hm
    · split at hm <;> simp at hm

theorem minItem_le : ∀ {h : List QItem} {m : QItem}, minItem h = some m →
    ∀ x ∈ h, m.le x = true
  | [], _, hm => by simp [minItem] at hm
  | a :: rest, m, hm => by
    unfold minItem at hm
    split at hm
    · rename_i hn
      have := minItem_eq_none hn
      subst this
      simp only [Option.some.injEq] at hm; subst hm
      intro x hx
      simp only [List.mem_cons, List.not_mem_nil, or_false] at hx
      subst hx; exact QItem.le_refl _
    · rename_i m' hm'
      have ih := minItem_le hm'
      split at hm
      · rename_i hle
        simp only [Option.some.injEq] at hm; subst hm
        intro x hx
        rcases List.mem_cons.mp hx with rfl | hx
        · exact QItem.le_refl _
        · exact QItem.le_trans hle (ih x hx)
      · rename_i hle
        simp only [Option.some.injEq] at hm; subst hm
        intro x hx
        rcases List.mem_cons.mp hx with hxa | hx
        · rw [hxa]
          have := QItem.le_total a m'
          simp only [Bool.or_eq_true] at this
          rcases this with h | h
          · exact absurd h hle
          · exact h
        · exact ih x hx

theorem minItem_isSome {h : List QItem} (hne : h ≠ []) : ∃ m, minItem h = some m := by
  cases hm : minItem h with
  | none => exact absurd (minItem_eq_none hm) hne
  | some m => exact ⟨m, rfl⟩

theorem mem_minCands {h : List QItem} {x : QItem} (hx : x ∈ minCands h) :
    x ∈ h ∧ ∃ m, minItem h = some m ∧ x.keyEq m = true := by
  unfold minCands at hx
  split at hx
  · simp at hx
  · rename_i m hm
    rw [List.mem_filter] at hx
    exact ⟨hx.1, m, hm, hx.2⟩

theorem minCands_ne_nil {h : List QItem} (hne : h ≠ []) : minCands h ≠ [] := by
  obtain ⟨m, hm⟩ := minItem_isSome hne
  have : m ∈ minCands h := by
    unfold minCands
    rw [hm]
    simp only [List.mem_filter]
    exact ⟨minItem_mem hm, by simp [QItem.keyEq]⟩
  exact List.ne_nil_of_mem this

theorem minCands_le {h : List QItem} {it : QItem} (hit : it ∈ minCands h) :
    ∀ x ∈ h, it.le x = true := by
  obtain ⟨_, m, hm, hk⟩ := mem_minCands hit
  intro x hx
  exact QItem.le_of_keyEq hk (minItem_le hm x hx)

/-! ### `EQ.pop` -/

theorem pop_spec {q q' : EQ} {pick : List QItem → Option QItem} {it : QItem}
    (h : q.pop pick = some (it, q')) :
    q.batch ≠ 0 ∧ it ∈ minCands q.heap ∧
      q' = { q with batch := q.batch - 1, heap := q.heap.erase it } := by
  unfold EQ.pop at h
  split at h
  · simp at h
  · rename_i hb
    simp only at h
    split at h
    · simp at h
    · rename_i it' hsel
      simp only [Option.some.injEq, Prod.mk.injEq] at h
      obtain ⟨rfl, rfl⟩ := h
      refine ⟨hb, ?_, rfl⟩
      split at hsel
      · split at hsel
        · rename_i hc
          simp only [Option.some.injEq] at hsel; subst hsel
          simpa using hc
        · exact List.mem_of_head? hsel
      · exact List.mem_of_head? hsel

theorem pop_none_of_batch_zero {q : EQ} (pick : List QItem → Option QItem) (h : q.batch = 0) :
    q.pop pick = none := by
  simp [EQ.pop, h]

theorem pop_isSome {q : EQ} (pick : List QItem → Option QItem) (hb : q.batch ≠ 0)
    (hh : q.heap ≠ []) : ∃ it q', q.pop pick = some (it, q') := by
  have hc := minCands_ne_nil hh
  obtain ⟨c, hc'⟩ : ∃ c, (minCands q.heap).head? = some c := by
    cases hcs : minCands q.heap with
    | nil => exact absurd hcs hc
    | cons c _ => exact ⟨c, rfl⟩
  have hsel : ∃ it, (match pick (minCands q.heap) with
           | some c => if (minCands q.heap).contains c then some c else (minCands q.heap).head?
           | none => (minCands q.heap).head?) = some it := by
    cases pick (minCands q.heap) with
    | none => exact ⟨c, hc'⟩
    | some c' =>
      simp only
      split
      · exact ⟨_, rfl⟩
      · exact ⟨c, hc'⟩
  obtain ⟨it, hit⟩ := hsel
  refine ⟨it, { q with batch := q.batch - 1, heap := q.heap.erase it }, ?_⟩
  unfold EQ.pop
  rw [if_neg hb]
  show (match (match pick (minCands q.heap) with
           | some c => if (minCands q.heap).contains c then some c else (minCands q.heap).head?
           | none => (minCands q.heap).head?) with
    | none => none
    | some it => some (it, { q with batch := q.batch - 1, heap := q.heap.erase it })) = _
  rw [hit]

/-! ### the invariant of reachable queues -/

/-- Invariant of every queue reachable from the empty one by `app` / `flushBegin` / `pop`
    (not by `drainFrom`, see QueueSpec.lean). -/
structure QInv (q : EQ) : Prop where
  /-- (a) `_flush_batch` equals the heap size -/
  batch_eq : q.batch = q.heap.length
  /-- (b) every stamped sequence number is below the counter ... -/
  seq_lt : ∀ x ∈ q.heap ++ q.queue, x.seq < q.counter
  /-- ... and they are pairwise distinct -/
  seq_ne : (q.heap ++ q.queue).Pairwise (fun a b => a.seq ≠ b.seq)
  /-- (c) the deque is in append order -/
  queue_inc : q.queue.Pairwise (fun a b => a.seq < b.seq)

theorem QInv.heap_seq_ne {q : EQ} (h : QInv q) : q.heap.Pairwise (fun a b => a.seq ≠ b.seq) :=
  (List.pairwise_append.mp h.seq_ne).1

theorem QInv.queue_seq_ne {q : EQ} (h : QInv q) : q.queue.Pairwise (fun a b => a.seq ≠ b.seq) :=
  (List.pairwise_append.mp h.seq_ne).2.1

theorem QInv.heap_nil_of_batch {q : EQ} (h : QInv q) (hb : q.batch = 0) : q.heap = [] :=
  List.eq_nil_of_length_eq_zero (h.batch_eq ▸ hb)

theorem qinv_empty : QInv {} := by
  refine ⟨rfl, ?_, ?_, ?_⟩ <;> simp

theorem qinv_append {q : EQ} (h : QInv q) (ev : Nat) (prio : Int) : QInv (q.append ev prio) := by
  refine ⟨h.batch_eq, ?_, ?_, ?_⟩
  · intro x hx
    simp only [EQ.append, ← List.append_assoc, List.mem_append, List.mem_singleton] at hx
    simp only [EQ.append]
    rcases hx with hx | rfl
    · have := h.seq_lt x (List.mem_append.mpr hx); omega
    · simp
  · simp only [EQ.append, ← List.append_assoc]
    rw [List.pairwise_append]
    refine ⟨h.seq_ne, by simp, ?_⟩
    intro a ha b hb
    simp only [List.mem_singleton] at hb; subst hb
    have := h.seq_lt a ha
    simp only; omega
  · simp only [EQ.append]
    rw [List.pairwise_append]
    refine ⟨h.queue_inc, by simp, ?_⟩
    intro a ha b hb
    simp only [List.mem_singleton] at hb; subst hb
    exact h.seq_lt a (List.mem_append_right _ ha)

theorem begin_of_batch_ne {q : EQ} (hb : q.batch ≠ 0) : q.begin = q := by
  simp [EQ.begin, hb]

theorem begin_of_batch_zero {q : EQ} (h : QInv q) (hb : q.batch = 0) :
    q.begin = { q with batch := q.queue.length, heap := q.queue, queue := [] } := by
  simp [EQ.begin, hb, h.heap_nil_of_batch hb]

theorem qinv_begin {q : EQ} (h : QInv q) : QInv q.begin := by
  by_cases hb : q.batch = 0
  · rw [begin_of_batch_zero h hb]
    have hh := h.heap_nil_of_batch hb
    refine ⟨rfl, ?_, ?_, by simp⟩
    · intro x hx
      simp only [List.append_nil] at hx
      exact h.seq_lt x (List.mem_append_right _ hx)
    · simp only [List.append_nil]
      exact h.queue_seq_ne
  · rw [begin_of_batch_ne hb]; exact h

theorem qinv_pop {q q' : EQ} {pick : List QItem → Option QItem} {it : QItem} (h : QInv q)
    (hp : q.pop pick = some (it, q')) : QInv q' := by
  obtain ⟨hb, hit, rfl⟩ := pop_spec hp
  have hmem : it ∈ q.heap := (mem_minCands hit).1
  have hsub : (q.heap.erase it ++ q.queue).Sublist (q.heap ++ q.queue) :=
    List.Sublist.append List.erase_sublist (List.Sublist.refl _)
  refine ⟨?_, ?_, ?_, h.queue_inc⟩
  · simp only [List.length_erase_of_mem hmem]
    rw [h.batch_eq]
  · intro x hx
    exact h.seq_lt x (hsub.subset hx)
  · exact h.seq_ne.sublist hsub

theorem qinv_step {q : EQ} (h : QInv q) (op : QOp) : QInv (op.apply q).1 := by
  cases op with
  | app ev prio => exact qinv_append h ev prio
  | flushBegin => exact qinv_begin h
  | pop pick =>
    simp only [QOp.apply]
    split
    · exact h
    · rename_i it q' hp
      exact qinv_pop h hp

theorem qinv_run : ∀ (ops : List QOp) {q : EQ}, QInv q → QInv (runOps q ops).1
  | [], _, h => h
  | op :: ops, _, h => qinv_run ops (qinv_step h op)

/-! ### list facts -/

theorem eq_of_seq_eq : ∀ {l : List QItem}, l.Pairwise (fun a b => a.seq ≠ b.seq) →
    ∀ {a b : QItem}, a ∈ l → b ∈ l → a.seq = b.seq → a = b
  | [], _, _, _, ha, _, _ => by simp at ha
  | x :: t, hp, a, b, ha, hb, hs => by
    rw [List.pairwise_cons] at hp
    rcases List.mem_cons.mp ha with rfl | ha' <;> rcases List.mem_cons.mp hb with rfl | hb'
    · rfl
    · exact absurd hs (hp.1 b hb')
    · exact absurd hs.symm (hp.1 a ha')
    · exact eq_of_seq_eq hp.2 ha' hb' hs

theorem nodup_of_seq_ne {l : List QItem} (h : l.Pairwise (fun a b => a.seq ≠ b.seq)) :
    l.Nodup := by
  unfold List.Nodup
  refine h.imp ?_
  intro a b hab heq
  exact hab (heq ▸ rfl)

/-- a sorted permutation is unique when the order is antisymmetric on the members -/
theorem eq_of_perm_of_sorted {α : Type} {r : α → α → Prop} :
    ∀ {l₁ l₂ : List α}, l₁.Perm l₂ →
      (∀ a b, a ∈ l₁ → b ∈ l₁ → r a b → r b a → a = b) →
      l₁.Pairwise r → l₂.Pairwise r → l₁ = l₂
  | [], l₂, hp, _, _, _ => (List.Perm.nil_eq hp)
  | a :: t₁, [], hp, _, _, _ => by simpa using hp.length_eq
  | a :: t₁, b :: t₂, hp, anti, h1, h2 => by
    rw [List.pairwise_cons] at h1 h2
    have hab : a = b := by
      have ha : a ∈ b :: t₂ := hp.subset List.mem_cons_self
      have hb : b ∈ a :: t₁ := hp.symm.subset List.mem_cons_self
      rcases List.mem_cons.mp ha with e | ha'
      · exact e
      · rcases List.mem_cons.mp hb with e | hb'
        · exact e.symm
        · exact anti a b List.mem_cons_self hb (h1.1 b hb') (h2.1 a ha')
    subst hab
    have := eq_of_perm_of_sorted hp.cons_inv
      (fun x y hx hy => anti x y (List.mem_cons_of_mem _ hx) (List.mem_cons_of_mem _ hy)) h1.2 h2.2
    rw [this]

theorem sublist_pair_of_mem {α : Type} : ∀ {l : List α} {a b : α}, a ∈ l → b ∈ l → a ≠ b →
    [a, b].Sublist l ∨ [b, a].Sublist l
  | [], _, _, ha, _, _ => by simp at ha
  | x :: t, a, b, ha, hb, hne => by
    rcases List.mem_cons.mp ha with rfl | ha' <;> rcases List.mem_cons.mp hb with rfl | hb'
    · exact absurd rfl hne
    · exact Or.inl (List.Sublist.cons_cons _ (List.singleton_sublist.mpr hb'))
    · exact Or.inr (List.Sublist.cons_cons _ (List.singleton_sublist.mpr ha'))
    · rcases sublist_pair_of_mem ha' hb' hne with h | h
      · exact Or.inl (h.cons _)
      · exact Or.inr (h.cons _)

/-- the `(prio, seq)`-sorted permutation of a list with distinct sequence numbers -/
theorem sorted_eq_mergeSort {l out : List QItem} (hp : out.Perm l)
    (hne : l.Pairwise (fun a b => a.seq ≠ b.seq))
    (hs : out.Pairwise (fun a b => a.le b = true)) :
    out = l.mergeSort (fun a b => a.le b) := by
  have hne' : out.Pairwise (fun a b => a.seq ≠ b.seq) :=
    (hp.pairwise_iff (fun h => Ne.symm h)).mpr hne
  refine eq_of_perm_of_sorted (hp.trans (List.mergeSort_perm l _).symm) ?_ hs ?_
  · intro a b ha hb h1 h2
    exact eq_of_seq_eq hne' ha hb (QItem.le_antisymm_key h1 h2).2
  · exact List.pairwise_mergeSort (le := fun a b => a.le b) (fun a b c => QItem.le_trans)
      QItem.le_total l

/-! ### one pass -/

def Sorted (l : List QItem) : Prop := l.Pairwise (fun a b => a.le b = true)

/-- The remainder of a pass: from a state with `k` items in the heap, any mix of appends,
    nested `flushBegin`s (while the batch is in progress) and exactly `k` pops dispatches
    exactly the heap, in `(prio, seq)` order, and leaves every appended item in the deque. -/
theorem pass_run : ∀ (ops : List QOp) (q : EQ) (k : Nat), QInv q → q.heap.length = k →
    midPass k ops = true →
    (runOps q ops).2.Perm q.heap ∧ Sorted (runOps q ops).2 ∧
      (runOps q ops).1.heap = [] ∧ (runOps q ops).1.batch = 0 ∧
      (runOps q ops).1.queue = q.queue ++ appItems q.counter ops
  | [], q, k, h, hk, hm => by
    simp only [midPass, beq_iff_eq] at hm
    subst hm
    have hh : q.heap = [] := List.eq_nil_of_length_eq_zero hk
    simp only [runOps, appItems, List.append_nil, Sorted]
    refine ⟨by rw [hh], List.Pairwise.nil, hh, ?_, trivial⟩
    rw [h.batch_eq, hh]; rfl
  | .app ev prio :: ops, q, k, h, hk, hm => by
    simp only [midPass] at hm
    have ih := pass_run ops (q.append ev prio) k (qinv_append h ev prio) hk hm
    simp only [runOps, QOp.apply, List.nil_append, appItems]
    refine ⟨ih.1, ih.2.1, ih.2.2.1, ih.2.2.2.1, ?_⟩
    rw [ih.2.2.2.2]
    simp [EQ.append]
  | .flushBegin :: ops, q, k, h, hk, hm => by
    simp only [midPass, Bool.and_eq_true, bne_iff_ne, ne_eq] at hm
    have hb : q.batch ≠ 0 := by rw [h.batch_eq, hk]; exact hm.1
    have ih := pass_run ops q k h hk hm.2
    simp only [runOps, QOp.apply, begin_of_batch_ne hb, List.nil_append, appItems]
    exact ih
  | .pop pick :: ops, q, k, h, hk, hm => by
    simp only [midPass, Bool.and_eq_true, bne_iff_ne, ne_eq] at hm
    have hb : q.batch ≠ 0 := by rw [h.batch_eq, hk]; exact hm.1
    have hh : q.heap ≠ [] := by
      intro e; rw [e] at hk; exact hm.1 hk.symm
    obtain ⟨it, q', hp⟩ := pop_isSome pick hb hh
    obtain ⟨_, hit, hq'⟩ := pop_spec hp
    have hmem : it ∈ q.heap := (mem_minCands hit).1
    have hlen : q'.heap.length = k - 1 := by
      rw [hq']; simp only [List.length_erase_of_mem hmem, hk]
    have ih := pass_run ops q' (k - 1) (qinv_pop h hp) hlen hm.2
    have hq'q : q'.queue = q.queue := by rw [hq']
    have hq'c : q'.counter = q.counter := by rw [hq']
    have hq'h : q'.heap = q.heap.erase it := by rw [hq']
    simp only [runOps, QOp.apply, hp, appItems, List.singleton_append]
    refine ⟨?_, ?_, ih.2.2.1, ih.2.2.2.1, ?_⟩
    · exact ((List.Perm.cons it (hq'h ▸ ih.1))).trans (List.perm_cons_erase hmem).symm
    · unfold Sorted
      rw [List.pairwise_cons]
      refine ⟨?_, ih.2.1⟩
      intro x hx
      have hx' : x ∈ q.heap.erase it := hq'h ▸ (ih.1.subset hx)
      exact minCands_le hit x (List.mem_of_mem_erase hx')
    · rw [ih.2.2.2.2, hq'q, hq'c]

/-- a pass without nested flushes is a `midPass` -/
theorem midPass_of_noFlush : ∀ (ops : List QOp) (k : Nat),
    (∀ o ∈ ops, o.isFlush = false) → ops.countP QOp.isPop = k → midPass k ops = true
  | [], k, _, hc => by simp at hc; simp [midPass, hc]
  | .app ev prio :: ops, k, hf, hc => by
    simp only [midPass]
    apply midPass_of_noFlush ops k (fun o ho => hf o (List.mem_cons_of_mem _ ho))
    simpa [List.countP_cons, QOp.isPop] using hc
  | .flushBegin :: ops, k, hf, _ => by
    have := hf .flushBegin List.mem_cons_self
    simp [QOp.isFlush] at this
  | .pop pick :: ops, k, hf, hc => by
    simp only [List.countP_cons, QOp.isPop, if_true] at hc
    simp only [midPass, Bool.and_eq_true, bne_iff_ne, ne_eq]
    refine ⟨by omega, ?_⟩
    apply midPass_of_noFlush ops (k - 1) (fun o ho => hf o (List.mem_cons_of_mem _ ho))
    omega

theorem midPass_pops : ∀ (picks : List (List QItem → Option QItem)),
    midPass picks.length (picks.map QOp.pop) = true
  | [] => rfl
  | _ :: picks => by
    simp only [List.map_cons, List.length_cons, midPass, Nat.add_sub_cancel, Bool.and_eq_true,
      bne_iff_ne, ne_eq]
    exact ⟨by omega, midPass_pops picks⟩

theorem appItems_pops : ∀ (c : Nat) (picks : List (List QItem → Option QItem)),
    appItems c (picks.map QOp.pop) = []
  | _, [] => rfl
  | c, _ :: picks => by simp only [List.map_cons, appItems]; exact appItems_pops c picks

theorem appItems_seq_ge : ∀ (ops : List QOp) (c : Nat), ∀ x ∈ appItems c ops, c ≤ x.seq
  | [], _, x, hx => by simp [appItems] at hx
  | .app ev prio :: ops, c, x, hx => by
    simp only [appItems, List.mem_cons] at hx
    rcases hx with rfl | hx
    · exact Nat.le_refl _
    · have := appItems_seq_ge ops (c + 1) x hx; omega
  | .flushBegin :: ops, c, x, hx => appItems_seq_ge ops c x (by simpa [appItems] using hx)
  | .pop _ :: ops, c, x, hx => appItems_seq_ge ops c x (by simpa [appItems] using hx)

/-- a whole pass, started by `flushBegin` on a queue with no batch in progress -/
theorem pass_full {q : EQ} (h : QInv q) (hb : q.batch = 0) (ops : List QOp)
    (hm : midPass q.queue.length ops = true) :
    (runOps q (.flushBegin :: ops)).2.Perm q.queue ∧ Sorted (runOps q (.flushBegin :: ops)).2 ∧
      (runOps q (.flushBegin :: ops)).1.heap = [] ∧ (runOps q (.flushBegin :: ops)).1.batch = 0 ∧
      (runOps q (.flushBegin :: ops)).1.queue = appItems q.counter ops := by
  have hbeg := begin_of_batch_zero h hb
  have hi : QInv q.begin := qinv_begin h
  have := pass_run ops q.begin q.queue.length hi (by rw [hbeg]) hm
  simp only [runOps, QOp.apply, List.nil_append]
  rw [hbeg] at this ⊢
  simpa using this

/-! ### handler choice -/

/-- sorted by priority, highest first (what `sorted(..., key=priority, reverse=True)` yields) -/
def Desc (prioOf : Nat → Int) (l : List Nat) : Prop :=
  l.Pairwise (fun a b => prioOf a ≥ prioOf b)

theorem mem_takeWhile_imp {α : Type} {p : α → Bool} : ∀ {l : List α} {x : α},
    x ∈ l.takeWhile p → p x = true ∧ x ∈ l
  | [], _, hx => by simp at hx
  | a :: t, x, hx => by
    simp only [List.takeWhile_cons] at hx
    split at hx
    · rename_i hpa
      rcases List.mem_cons.mp hx with rfl | hx'
      · exact ⟨hpa, List.mem_cons_self⟩
      · have := mem_takeWhile_imp hx'
        exact ⟨this.1, List.mem_cons_of_mem _ this.2⟩
    · simp at hx

theorem desc_of_mergeSort (prioOf : Nat → Int) (l : List Nat) :
    Desc prioOf (l.mergeSort (fun a b => decide (prioOf a ≥ prioOf b))) := by
  have := List.pairwise_mergeSort (le := fun a b => decide (prioOf a ≥ prioOf b))
    (fun a b c h1 h2 => by
      simp only [decide_eq_true_eq] at *; omega)
    (fun a b => by
      simp only [Bool.or_eq_true, decide_eq_true_eq]; omega) l
  exact this.imp (fun h => by simpa using h)

theorem chooseNext_spec {prioOf : Nat → Int} {hint : Option Nat} {hs rest : List Nat} {h : Nat}
    (hc : chooseNext prioOf hint hs = some (h, rest)) :
    h ∈ hs ∧ rest = hs.erase h ∧ ∃ h0 t, hs = h0 :: t ∧ prioOf h = prioOf h0 := by
  cases hs with
  | nil => simp [chooseNext] at hc
  | cons h0 t =>
    simp only [chooseNext, Option.some.injEq, Prod.mk.injEq] at hc
    obtain ⟨hh, hr⟩ := hc
    have key : h ∈ h0 :: t ∧ prioOf h = prioOf h0 := by
      rw [← hh]
      cases hint with
      | none => exact ⟨List.mem_cons_self, rfl⟩
      | some h' =>
        simp only
        split
        · rename_i hcont
          have := mem_takeWhile_imp (List.contains_iff_mem.mp hcont)
          exact ⟨this.2, by simpa using this.1⟩
        · exact ⟨List.mem_cons_self, rfl⟩
    refine ⟨key.1, ?_, h0, t, rfl, key.2⟩
    rw [← hr, hh]

theorem chooseNext_isSome {prioOf : Nat → Int} (hint : Option Nat) {hs : List Nat}
    (hne : hs ≠ []) : ∃ h rest, chooseNext prioOf hint hs = some (h, rest) := by
  cases hs with
  | nil => exact absurd rfl hne
  | cons h0 t => exact ⟨_, _, rfl⟩

theorem desc_head_max {prioOf : Nat → Int} {h0 : Nat} {t : List Nat}
    (hd : Desc prioOf (h0 :: t)) : ∀ x ∈ h0 :: t, prioOf h0 ≥ prioOf x := by
  intro x hx
  rcases List.mem_cons.mp hx with rfl | hx
  · exact Int.le_refl _
  · exact (List.pairwise_cons.mp hd).1 x hx

theorem chooseNext_max {prioOf : Nat → Int} {hint : Option Nat} {hs rest : List Nat} {h : Nat}
    (hd : Desc prioOf hs) (hc : chooseNext prioOf hint hs = some (h, rest)) :
    ∀ x ∈ hs, prioOf h ≥ prioOf x := by
  obtain ⟨_, _, h0, t, rfl, hp⟩ := chooseNext_spec hc
  intro x hx
  rw [hp]; exact desc_head_max hd x hx

theorem chooseNext_rest {prioOf : Nat → Int} {hint : Option Nat} {hs rest : List Nat} {h : Nat}
    (hd : Desc prioOf hs) (hc : chooseNext prioOf hint hs = some (h, rest)) :
    Desc prioOf rest ∧ hs.Perm (h :: rest) ∧ rest.length + 1 = hs.length := by
  obtain ⟨hm, rfl, _⟩ := chooseNext_spec hc
  refine ⟨hd.sublist List.erase_sublist, List.perm_cons_erase hm, ?_⟩
  have := (List.perm_cons_erase hm).length_eq
  simp only [List.length_cons] at this
  omega

/-- whatever the fuel and the hints: the handlers run are among `hs`, in non-increasing
    priority order -/
theorem chooseIter_desc (prioOf : Nat → Int) : ∀ (n : Nat) (hints : Nat → Option Nat)
    (hs : List Nat), Desc prioOf hs →
    Desc prioOf (chooseIter prioOf n hints hs) ∧ ∀ x ∈ chooseIter prioOf n hints hs, x ∈ hs
  | 0, _, _, _ => by simp [chooseIter, Desc]
  | n + 1, hints, hs, hd => by
    unfold chooseIter
    split
    · simp [Desc]
    · rename_i h rest hc
      have hr := chooseNext_rest hd hc
      have ih := chooseIter_desc prioOf n (fun i => hints (i + 1)) rest hr.1
      have hsub : ∀ x ∈ rest, x ∈ hs := fun x hx => hr.2.1.symm.subset (List.mem_cons_of_mem _ hx)
      refine ⟨?_, ?_⟩
      · unfold Desc
        rw [List.pairwise_cons]
        refine ⟨?_, ih.1⟩
        intro x hx
        exact chooseNext_max hd hc x (hsub x (ih.2 x hx))
      · intro x hx
        rcases List.mem_cons.mp hx with rfl | hx
        · exact (chooseNext_spec hc).1
        · exact hsub x (ih.2 x hx)

/-- iterating to the end runs every handler exactly once -/
theorem chooseIter_perm (prioOf : Nat → Int) : ∀ (n : Nat) (hints : Nat → Option Nat)
    (hs : List Nat), Desc prioOf hs → hs.length ≤ n → (chooseIter prioOf n hints hs).Perm hs
  | 0, _, hs, _, hl => by
    have : hs = [] := List.eq_nil_of_length_eq_zero (by omega)
    subst this; simp [chooseIter]
  | n + 1, hints, hs, hd, hl => by
    unfold chooseIter
    split
    · rename_i hc
      cases hs with
      | nil => exact List.Perm.refl _
      | cons h0 t => simp [chooseNext] at hc
    · rename_i h rest hc
      have hr := chooseNext_rest hd hc
      have ih := chooseIter_perm prioOf n (fun i => hints (i + 1)) rest hr.1 (by omega)
      exact (List.Perm.cons h ih).trans hr.2.1.symm

/-- stopping after `k` choices yields the first `k` choices of the full iteration -/
theorem chooseIter_take (prioOf : Nat → Int) : ∀ (k n : Nat) (hints : Nat → Option Nat)
    (hs : List Nat), k ≤ n →
    chooseIter prioOf k hints hs = (chooseIter prioOf n hints hs).take k
  | 0, _, _, _, _ => by simp [chooseIter]
  | k + 1, 0, _, _, hkn => by omega
  | k + 1, n + 1, hints, hs, hkn => by
    unfold chooseIter
    split
    · simp
    · rename_i h rest hc
      simp only [List.take_succ_cons]
      rw [chooseIter_take prioOf k n _ rest (by omega)]

theorem chooseIter_length (prioOf : Nat → Int) : ∀ (n : Nat) (hints : Nat → Option Nat)
    (hs : List Nat), (chooseIter prioOf n hints hs).length = min n hs.length
  | 0, _, _ => by simp [chooseIter]
  | n + 1, hints, hs => by
    cases hs with
    | nil => simp [chooseIter, chooseNext]
    | cons h0 t =>
      obtain ⟨h, rest, hc⟩ := chooseNext_isSome (prioOf := prioOf) (hints 0) (List.cons_ne_nil h0 t)
      have hm := (chooseNext_spec hc)
      have hl : rest.length + 1 = (h0 :: t).length := by
        have := (List.perm_cons_erase hm.1).length_eq
        rw [hm.2.1]; simp only [List.length_cons] at this ⊢; omega
      unfold chooseIter
      rw [hc]
      simp only [List.length_cons, chooseIter_length prioOf n _ rest]
      simp only [List.length_cons] at hl
      omega

/-- in a list sorted descending, everything precedes-or-equals the last element in priority -/
theorem desc_last_min {prioOf : Nat → Int} {l : List Nat} {s : Nat} (hd : Desc prioOf l)
    (hl : l.getLast? = some s) : ∀ x ∈ l, prioOf x ≥ prioOf s := by
  obtain ⟨ys, rfl⟩ := List.getLast?_eq_some_iff.mp hl
  intro x hx
  rcases List.mem_append.mp hx with hx | hx
  · exact (List.pairwise_append.mp hd).2.2 x hx s (List.mem_singleton.mpr rfl)
  · rw [List.mem_singleton.mp hx]; exact Int.le_refl _

end CV.Core

import CV.Proofs.CoreStep
import CV.Proofs.CoreReach
/-
C05: the effects accounting of `complete` tracking (`_fire` cause linking, `_dispatcher`'s
`event.effects = 1`, `_eventDone`, `_effectDone`) as an invariant of the small-step machine.

  * `St.e5_kids s e`     number of events x ≠ e with `cause x = some e` (events linked under e);
  * `EffOk s p`       the state invariant, `p` = the event whose decrement is pending (the `e` of an
                      `.effectDone r e announce` frame on top of the stack):
                        effects e = [¬ selfDone e] + kids e + [p = some e]     for every tracked e,
                      plus `1 ≤ effects e`, `cause x = some h → h ≤ x`, no timers;
  * `CInv c`          the configuration invariant: `EffOk c.st (pendOf c.stack)` and the stack shape
                      (an `.effectDone` frame only ever sits on top, and never while unwinding);
  * `Guard c`         the two facts about the run the accounting relies on and that are NOT consequences
                      of the accounting itself (see the comment at `Guard`);
  * `step_cinv`       `CInv c → Guard c → CInv (step c)`, by cases on the top frame;
  * `ReachG`, `reachG_cinv`   guarded runs and the invariant on them;
  * consequences: `CInv.drained`, `St.e5_effectDone1_cleared`, `EffOk.exists_undone`,
                      `CInv.cancelled_release`;
  * `CS q s t`        a second pass of the same shape: every event of `s` except `q` keeps its `cause`;
                      `untracked_only_at_zero`, `tracked_only_at_dispatch` (no guard needed);
  * `s0w`, `cw2`      a concrete run on which the guard fails and `complete` is fired early
                      (`cw2_double`, `cw2_early`, evaluated by the kernel).

Pattern as in `CoreStep.lean`: primitive -> helper -> arm -> `cases f`, with the committed-choice
tactic `e5_eff`.
-/
namespace CV.Core.C05

/-! ## reading the event table after an update -/

theorem _root_.CV.Core.St.e5_ev_modEv (s : St) (e y : Nat) (f : Ev → Ev) :
    (s.modEv e f).ev y = if y = e ∧ e < s.evs.length then f (s.ev e) else s.ev y := by
  unfold St.ev St.modEv
  simp only [List.getD_eq_getElem?_getD, List.getElem?_modify]
  split
  · subst_vars; by_cases h : y < s.evs.length <;> simp [h]
  · rename_i h; simp [Ne.symm h]

@[simp] theorem _root_.CV.Core.St.e5_evs_length_modEv (s : St) (e : Nat) (f : Ev → Ev) :
    (s.modEv e f).evs.length = s.evs.length := by simp [St.modEv]

@[simp] theorem _root_.CV.Core.St.e5_evs_length_addEv (s : St) (v : Ev) : (s.addEv v).evs.length = s.evs.length + 1 := by
  simp [St.addEv]

theorem _root_.CV.Core.St.e5_ev_addEv (s : St) (v : Ev) (y : Nat) :
    (s.addEv v).ev y = if y = s.evs.length then v else s.ev y := by
  unfold St.ev St.addEv
  simp only [List.getD_eq_getElem?_getD, List.getElem?_append]
  by_cases h1 : y < s.evs.length
  · have : y ≠ s.evs.length := by omega
    simp [h1, this]
  · by_cases h2 : y = s.evs.length
    · subst h2; simp
    · have : ¬ (y - s.evs.length = 0) := by omega
      have h3 : s.evs.length ≤ y := by omega
      simp [h1, h2]
      cases hh : y - s.evs.length with
      | zero => exact absurd hh this
      | succ n => simp

theorem _root_.CV.Core.St.e5_ev_ge (s : St) (e : Nat) (h : s.evs.length ≤ e) : s.ev e = dfltEv := by
  unfold St.ev; simp [List.getD_eq_getElem?_getD, List.getElem?_eq_none h]

theorem _root_.CV.Core.St.e5_lt_of_cause (s : St) (x h : Nat) (hc : (s.ev x).cause = some h) : x < s.evs.length := by
  apply Classical.byContradiction
  intro hx
  rw [St.e5_ev_ge s x (by omega)] at hc
  simp [dfltEv] at hc

theorem _root_.CV.Core.St.e5_lt_of_tracked (s : St) (x : Nat) (hc : (s.ev x).cause ≠ none) : x < s.evs.length := by
  apply Classical.byContradiction
  intro hx
  rw [St.e5_ev_ge s x (by omega)] at hc
  simp [dfltEv] at hc

/-! ## the number of events linked under an event -/

/-- the events linked under `e`: `x ≠ e` with `cause x = some e` -/
def _root_.CV.Core.St.e5_kids (s : St) (e : Nat) : Nat :=
  (List.range s.evs.length).countP (fun x => x != e && (s.ev x).cause == some e)

theorem countP_range_update (p q : Nat → Bool) (a : Nat) (hpq : ∀ x, x ≠ a → p x = q x) (n : Nat) :
    (List.range n).countP p + (if a < n ∧ q a = true then 1 else 0)
      = (List.range n).countP q + (if a < n ∧ p a = true then 1 else 0) := by
  induction n with
  | zero => simp
  | succ n ih =>
    rw [List.range_succ, List.countP_append, List.countP_append]
    simp only [List.countP_cons, List.countP_nil, Nat.zero_add]
    by_cases hn : n = a
    · subst hn
      have h1 : ¬ (n < n) := by omega
      have h2 : n < n + 1 := by omega
      simp only [h1, false_and, if_false, Nat.add_zero] at ih
      simp only [h2, true_and]
      rw [ih]; omega
    · have hpn := hpq n hn
      have e1 : (a < n + 1) ↔ (a < n) := by constructor <;> intro h <;> omega
      simp only [e1, hpn]
      omega

theorem _root_.CV.Core.St.e5_kids_congr (s s' : St) (hlen : s'.evs.length = s.evs.length)
    (hc : ∀ x, (s'.ev x).cause = (s.ev x).cause) (y : Nat) : s'.e5_kids y = s.e5_kids y := by
  unfold St.e5_kids
  rw [hlen]
  congr 1
  funext x
  rw [hc]

/-- changing the cause of one event `e0` moves it from one parent's count to another's -/
theorem _root_.CV.Core.St.e5_kids_update (s s' : St) (e0 : Nat) (hlen : s'.evs.length = s.evs.length)
    (hoth : ∀ x, x ≠ e0 → (s'.ev x).cause = (s.ev x).cause) (y : Nat) :
    s'.e5_kids y + (if e0 < s.evs.length ∧ e0 ≠ y ∧ (s.ev e0).cause = some y then 1 else 0)
      = s.e5_kids y + (if e0 < s.evs.length ∧ e0 ≠ y ∧ (s'.ev e0).cause = some y then 1 else 0) := by
  unfold St.e5_kids
  rw [hlen]
  have := countP_range_update (fun x => x != y && (s'.ev x).cause == some y)
    (fun x => x != y && (s.ev x).cause == some y) e0
    (by intro x hx; simp only [hoth x hx]) s.evs.length
  simpa [and_assoc] using this

theorem _root_.CV.Core.St.e5_kids_eq_zero (s : St) (e : Nat) (h : ∀ x, x ≠ e → (s.ev x).cause ≠ some e) : s.e5_kids e = 0 := by
  unfold St.e5_kids
  rw [List.countP_eq_zero]
  intro x _
  by_cases hx : x = e
  · simp [hx]
  · simp [h x hx]

theorem _root_.CV.Core.St.e5_no_kids_of_zero (s : St) (e : Nat) (h : s.e5_kids e = 0) (x : Nat) (hx : x ≠ e) :
    (s.ev x).cause ≠ some e := by
  intro hc
  have hlt := s.e5_lt_of_cause x e hc
  unfold St.e5_kids at h
  rw [List.countP_eq_zero] at h
  have := h x (List.mem_range.mpr hlt)
  simp [hx, hc] at this

theorem _root_.CV.Core.St.e5_kids_pos (s : St) (e : Nat) (h : 0 < s.e5_kids e) :
    ∃ x, x ≠ e ∧ x < s.evs.length ∧ (s.ev x).cause = some e := by
  unfold St.e5_kids at h
  rw [List.countP_pos_iff] at h
  obtain ⟨x, hx, hp⟩ := h
  simp only [Bool.and_eq_true, bne_iff_ne, ne_eq, beq_iff_eq] at hp
  exact ⟨x, hp.1, List.mem_range.mp hx, hp.2⟩

theorem _root_.CV.Core.St.e5_kids_addEv (s : St) (v : Ev) (hv : v.cause = none) (y : Nat) : (s.addEv v).e5_kids y = s.e5_kids y := by
  unfold St.e5_kids
  rw [St.e5_evs_length_addEv, List.range_succ, List.countP_append]
  have h1 : List.countP (fun x => x != y && ((s.addEv v).ev x).cause == some y) [s.evs.length] = 0 := by
    rw [List.countP_eq_zero]
    intro a ha
    simp only [List.mem_singleton] at ha
    subst ha
    simp [St.e5_ev_addEv, hv]
  rw [h1, Nat.add_zero]
  apply List.countP_congr
  intro x hx
  have : x ≠ s.evs.length := by have := List.mem_range.mp hx; omega
  simp [St.e5_ev_addEv, this]

/-! ## the state invariant -/

/-- The effects accounting.  `p` is the event whose `_effectDone` decrement is pending. -/
structure EffOk (s : St) (p z : Option Nat) : Prop where
  /-- Timers fire one event object again and again: outside this property -/
  timers : s.timers = []
  /-- links point to older events (or to the event itself: the root of a tracked tree) -/
  causeLe : ∀ x h, (s.ev x).cause = some h → h ≤ x
  /-- a tracked event never sits at count 0 (except `z`, inside the `_effectDone` iteration that has
      just counted it down to 0 and is about to clear it) -/
  pos : ∀ e, (s.ev e).cause ≠ none → 1 ≤ (s.ev e).effects ∨ z = some e
  /-- effects = own pending "done" + linked events still tracked + the pending decrement -/
  count : ∀ e, (s.ev e).cause ≠ none →
    (s.ev e).effects = (if (s.ev e).selfDone then 0 else 1) + (s.e5_kids e : Int) + (if p = some e then 1 else 0)

abbrev Eff0 (s : St) : Prop := EffOk s none none

theorem EffOk.congr {s s' : St} {p z : Option Nat} (h : EffOk s p z) (hev : s'.evs = s.evs)
    (ht : s'.timers = s.timers) : EffOk s' p z := by
  have he : ∀ y, s'.ev y = s.ev y := by intro y; unfold St.ev; rw [hev]
  have hk : ∀ y, s'.e5_kids y = s.e5_kids y := by
    intro y; exact St.e5_kids_congr s s' (by rw [hev]) (fun x => by rw [he]) y
  refine ⟨ht.trans h.timers, ?_, ?_, ?_⟩
  · intro x h'; rw [he]; exact h.causeLe x h'
  · intro e; rw [he]; exact h.pos e
  · intro e; rw [he, hk]; exact h.count e

/-- an update of an event row that keeps the three fields of the accounting -/
structure Keeps (f : Ev → Ev) : Prop where
  keeps : ∀ x, (f x).cause = x.cause ∧ (f x).effects = x.effects ∧ (f x).selfDone = x.selfDone

theorem _root_.CV.Core.St.e5_ev_modEv_keeps (t : St) (e : Nat) (f : Ev → Ev) (hf : Keeps f) (y : Nat) :
    ((t.modEv e f).ev y).cause = (t.ev y).cause ∧ ((t.modEv e f).ev y).effects = (t.ev y).effects ∧
      ((t.modEv e f).ev y).selfDone = (t.ev y).selfDone := by
  rw [St.e5_ev_modEv]
  split
  · rename_i h; rw [h.1]; exact hf.keeps _
  · exact ⟨rfl, rfl, rfl⟩

namespace EffOk
variable {t : St} {p z : Option Nat}

theorem modComp (h : EffOk t p z) (c : Nat) (f : Comp → Comp) : EffOk (t.modComp c f) p z := h.congr rfl rfl
theorem modWait (h : EffOk t p z) (w : Nat) (f : WaitSt → WaitSt) : EffOk (t.modWait w f) p z := h.congr rfl rfl
theorem setGen (h : EffOk t p z) (g : Nat) (x : GenRec) : EffOk (t.setGen g x) p z := h.congr rfl rfl
theorem logE (h : EffOk t p z) (x : Entry) : EffOk (t.logE x) p z := h.congr rfl rfl
theorem addH (h : EffOk t p z) (x : Handler) : EffOk (t.addH x) p z := h.congr rfl rfl
theorem addGen (h : EffOk t p z) (x : GenRec) : EffOk (t.addGen x) p z := h.congr rfl rfl
theorem addWait (h : EffOk t p z) (x : WaitSt) : EffOk (t.addWait x) p z := h.congr rfl rfl
theorem tick1 (h : EffOk t p z) (d : Int) : EffOk (t.tick1 d) p z := h.congr rfl rfl
theorem modTimer (h : EffOk t p z) (i : Nat) (f : TimerSt → TimerSt) : EffOk (t.modTimer i f) p z :=
  h.congr rfl (by simp [St.modTimer, h.timers])

theorem modEv (h : EffOk t p z) (e : Nat) (f : Ev → Ev) (hf : Keeps f) : EffOk (t.modEv e f) p z := by
  have he := St.e5_ev_modEv_keeps t e f hf
  have hk : ∀ y, (t.modEv e f).e5_kids y = t.e5_kids y :=
    fun y => St.e5_kids_congr t _ (by simp) (fun x => (he x).1) y
  refine ⟨h.timers, ?_, ?_, ?_⟩
  · intro x h'; rw [(he x).1]; exact h.causeLe x h'
  · intro y; rw [(he y).1, (he y).2.1]; exact h.pos y
  · intro y; rw [(he y).1, (he y).2.1, (he y).2.2, hk]; exact h.count y

theorem addEv (h : EffOk t p z) (v : Ev) (hv : v.cause = none) : EffOk (t.addEv v) p z := by
  refine ⟨h.timers, ?_, ?_, ?_⟩
  · intro x h'; rw [St.e5_ev_addEv]; split
    · rw [hv]; intro hh; cases hh
    · exact h.causeLe x h'
  · intro y; rw [St.e5_ev_addEv]; split
    · intro hh; exact absurd hv hh
    · exact h.pos y
  · intro y; rw [St.e5_kids_addEv t v hv, St.e5_ev_addEv]; split
    · intro hh; exact absurd hv hh
    · exact h.count y

end EffOk

/-! ## firing: the only place where an event is linked -/

/-- the link made by `_fire`: `e.cause := h'; e.effects := 1` and `h'.effects += 1` -/
def _root_.CV.Core.St.e5_link (t : St) (e h' : Nat) : St :=
  (t.modEv e fun x => { x with cause := some h', effects := 1, selfDone := false }).modEv h'
    fun x => { x with effects := x.effects + 1 }

theorem EffOk.e5_link {t : St} {z : Option Nat} (h : EffOk t none z) (e h' : Nat) (hlast : t.evs.length = e + 1)
    (hc : (t.ev e).cause = none) (htr' : (t.ev h').cause ≠ none) : EffOk (t.e5_link e h') none z := by
  have hlt : h' < t.evs.length := t.e5_lt_of_tracked h' htr'
  have hne : h' ≠ e := by intro he; rw [he] at htr'; exact htr' hc
  have he' : e ≠ h' := fun a => hne a.symm
  have hlt' : e < t.evs.length := by omega
  have hev : ∀ y, (t.e5_link e h').ev y
      = if y = h' then { t.ev h' with effects := (t.ev h').effects + 1 }
        else if y = e then { t.ev e with cause := some h', effects := 1, selfDone := false } else t.ev y := by
    intro y
    unfold St.e5_link
    rw [St.e5_ev_modEv, St.e5_ev_modEv, St.e5_ev_modEv]
    simp only [St.e5_evs_length_modEv]
    by_cases h1 : y = h'
    · subst h1; simp [hlt, hne]
    · by_cases h2 : y = e
      · subst h2; simp [h1, hlast]
      · simp [h1, h2]
  have hlen : (t.e5_link e h').evs.length = t.evs.length := by simp [St.e5_link]
  have hk : ∀ y, (t.e5_link e h').e5_kids y = t.e5_kids y + (if y = h' then 1 else 0) := by
    intro y
    have := St.e5_kids_update t (t.e5_link e h') e hlen (by
      intro x hx; rw [hev]; split
      · rename_i hh; subst hh; rfl
      · simp) y
    rw [hev, hc] at this
    simp only [he', if_false, reduceCtorEq, and_false, Nat.add_zero, if_true, hlt', true_and] at this
    rw [this]
    by_cases hy : y = h'
    · subst hy; simp [he']
    · have h3 : ¬ (h' = y) := fun a => hy a.symm
      simp [hy, h3]
  have hk0 : t.e5_kids e = 0 := by
    apply St.e5_kids_eq_zero
    intro x hx hcx
    have := h.causeLe x e hcx
    have := t.e5_lt_of_cause x e hcx
    omega
  refine ⟨by simpa [St.e5_link, St.modEv] using h.timers, ?_, ?_, ?_⟩
  · intro x g; rw [hev]; split
    · rename_i hx; subst hx; exact h.causeLe _ g
    · split
      · rename_i hxe; intro hh; cases hh; subst hxe; omega
      · exact h.causeLe x g
  · intro y; rw [hev]; split
    · rename_i hy; subst hy; intro hh
      rcases h.pos y hh with h1 | h1
      · left; show 1 ≤ (t.ev y).effects + 1; omega
      · exact Or.inr h1
    · split
      · intro _; left; show (1:Int) ≤ 1; omega
      · exact h.pos y
  · intro y; rw [hev, hk]; split
    · rename_i hy; subst hy; intro hh
      have := h.count y hh
      show (t.ev y).effects + 1 = _
      simp only [reduceCtorEq, if_false] at this ⊢
      rw [this]; simp; omega
    · split
      · rename_i hy1 hy2; subst hy2; intro _
        simp [hk0]
      · rename_i hy1 hy2; intro hh
        have := h.count y hh
        simp only [reduceCtorEq, if_false] at this ⊢
        rw [this]; simp

/-- `_fire`'s linking, for a fresh event `e` (the newest row, not linked yet) -/
theorem EffOk.fireContext {t : St} {z : Option Nat} (h : EffOk t none z) (r e : Nat) (hlast : t.evs.length = e + 1)
    (hc : (t.ev e).cause = none) : EffOk (t.fireContext r e) none z := by
  unfold St.fireContext
  dsimp only
  split
  · split
    · rename_i h' _
      split
      · rename_i htr
        have htr' : (t.ev h').cause ≠ none := by
          intro hn; rw [hn] at htr; simp at htr
        exact h.e5_link e h' hlast hc htr'
      · exact h
    · exact h
  · split
    · split
      · exact h.modEv _ _ ⟨fun x => ⟨rfl, rfl, rfl⟩⟩
      · exact h
    · exact h

theorem EffOk.fireRaw {t : St} {z : Option Nat} (h : EffOk t none z) (self e : Nat) (chans : List Chan) (prio : Int)
    (hlast : t.evs.length = e + 1) (hc : (t.ev e).cause = none) : EffOk (t.fireRaw self e chans prio) none z := by
  unfold St.fireRaw
  dsimp only
  apply EffOk.logE
  apply EffOk.modComp
  have hk : Keeps (fun x : Ev => { x with chans := chans, val := {}, mgr := self }) := ⟨fun x => ⟨rfl, rfl, rfl⟩⟩
  apply EffOk.fireContext (h.modEv e _ hk)
  · simpa using hlast
  · rw [(St.e5_ev_modEv_keeps t e _ hk e).1]; exact hc

theorem EffOk.fireNew {t : St} {z : Option Nat} (h : EffOk t none z) (self : Nat) (v : Ev) (chans : List Chan) (prio : Int)
    (hv : v.cause = none) : EffOk ((t.addEv v).fireRaw self t.evs.length chans prio) none z := by
  apply EffOk.fireRaw (h.addEv v hv)
  · simp
  · rw [St.e5_ev_addEv]; simp [hv]

theorem EffOk.fireChild {t : St} {z : Option Nat} (h : EffOk t none z) (self p sfx : Nat) (chans : List Chan) :
    EffOk (t.fireChild self p sfx chans) none z := by
  unfold St.fireChild St.childEv
  exact h.fireNew _ _ _ _ rfl

theorem EffOk.fireTmplEv {t : St} (h : Eff0 t) (self : Nat) (v : Ev) (target : Option Chan) (prio : Int)
    (hv : v.cause = none) : Eff0 (t.fireTmplEv self v target prio) := by
  unfold St.fireTmplEv
  exact h.fireNew _ _ _ _ hv

theorem mkEvOfTmpl_cause (s : St) (t : Nat) : (mkEvOfTmpl s t).cause = none := rfl

/-! ## the tactic -/

syntax "e5_eff1" : tactic
macro_rules | `(tactic| e5_eff1) => `(tactic| split)
macro_rules | `(tactic| e5_eff1) => `(tactic| with_reducible apply EffOk.tick1)
macro_rules | `(tactic| e5_eff1) => `(tactic| with_reducible apply EffOk.addWait)
macro_rules | `(tactic| e5_eff1) => `(tactic| with_reducible apply EffOk.addGen)
macro_rules | `(tactic| e5_eff1) => `(tactic| with_reducible apply EffOk.addH)
macro_rules | `(tactic| e5_eff1) => `(tactic| with_reducible apply EffOk.logE)
macro_rules | `(tactic| e5_eff1) => `(tactic| with_reducible apply EffOk.setGen)
macro_rules | `(tactic| e5_eff1) => `(tactic| with_reducible apply EffOk.modTimer)
macro_rules | `(tactic| e5_eff1) => `(tactic| with_reducible apply EffOk.modWait)
macro_rules | `(tactic| e5_eff1) => `(tactic| with_reducible apply EffOk.modComp)
macro "e5_keeps_side" : tactic => `(tactic| first | exact ⟨rfl, rfl, rfl⟩ | (split <;> exact ⟨rfl, rfl, rfl⟩))
macro_rules | `(tactic| e5_eff1) => `(tactic| with_reducible refine EffOk.modEv ?_ _ _ ⟨fun x => by e5_keeps_side⟩)
macro_rules | `(tactic| e5_eff1) => `(tactic| with_reducible apply EffOk.fireChild)
macro_rules | `(tactic| e5_eff1) => `(tactic| with_reducible refine EffOk.fireTmplEv ?_ _ _ _ _ (by first | exact mkEvOfTmpl_cause _ _ | exact rfl))
macro_rules | `(tactic| e5_eff1) => `(tactic| with_reducible refine EffOk.fireNew ?_ _ _ _ _ (by exact rfl))
macro_rules | `(tactic| e5_eff1) => `(tactic| with_reducible assumption)

macro "e5_eff" : tactic => `(tactic| repeat' e5_eff1)
macro "e5_eff_unfold" ids:ident+ : tactic => `(tactic| (unfold $[$ids]*; (try dsimp only); e5_eff))

/-! ## helpers of `Pure.lean` and the pure pieces of `Step.lean` (generated from the list in CoreStep.lean) -/

theorem EffOk.foldl {t : St} {α} (g : St → α → St) (hg : ∀ a x, Eff0 a → Eff0 (g a x)) (l : List α)
    (h : Eff0 t) : Eff0 (l.foldl g t) := by
  induction l generalizing t with
  | nil => exact h
  | cons x l ih => exact ih (hg _ _ h)

theorem EffOk.addHandler {t : St} (h : Eff0 t) (x : Nat) : Eff0 (t.addHandler x) := by
  unfold St.addHandler
  dsimp only
  apply EffOk.modComp
  split
  · e5_eff
  · split
    · e5_eff
    · exact EffOk.foldl _ (fun a n ha => ha.modComp _ _) _ h
macro_rules | `(tactic| e5_eff1) => `(tactic| with_reducible apply EffOk.addHandler)

/-- no timers: `Timer._on_generate_events` finds no timer -/
theorem EffOk.timerTick {t : St} (h : Eff0 t) (i e : Nat) : Eff0 (t.timerTick i e) := by
  unfold St.timerTick
  simp only [h.timers, List.getElem?_nil]
  exact h
macro_rules | `(tactic| e5_eff1) => `(tactic| with_reducible apply EffOk.timerTick)

theorem EffOk.removeHandler {t : St} (h : Eff0 t) (x : Nat) (n : Option Name) :
    Eff0 ((t.removeHandler x n).2) := by
  e5_eff_unfold St.removeHandler
macro_rules | `(tactic| e5_eff1) => `(tactic| with_reducible apply EffOk.removeHandler)

theorem EffOk.inform {t : St} (h : Eff0 t) (e : Nat) (force : Bool) :
    Eff0 (t.inform e force) := by
  e5_eff_unfold St.inform
macro_rules | `(tactic| e5_eff1) => `(tactic| with_reducible apply EffOk.inform)

theorem EffOk.setValue {t : St} (h : Eff0 t) (e : Nat) (x : VItem) :
    Eff0 (t.setValue e x) := by
  e5_eff_unfold St.setValue
macro_rules | `(tactic| e5_eff1) => `(tactic| with_reducible apply EffOk.setValue)

theorem EffOk.registerTask {t : St} (h : Eff0 t) (c : Nat) (x : Task) :
    Eff0 (t.registerTask c x) := by
  e5_eff_unfold St.registerTask
macro_rules | `(tactic| e5_eff1) => `(tactic| with_reducible apply EffOk.registerTask)

theorem EffOk.unregisterTask {t : St} (h : Eff0 t) (c : Nat) (x : Task) :
    Eff0 (t.unregisterTask c x) := by
  e5_eff_unfold St.unregisterTask
macro_rules | `(tactic| e5_eff1) => `(tactic| with_reducible apply EffOk.unregisterTask)

theorem EffOk.reduceTimeLeft {t : St} (h : Eff0 t) (e : Nat) (d : Int) :
    Eff0 (t.reduceTimeLeft e d) := by
  e5_eff_unfold St.reduceTimeLeft
macro_rules | `(tactic| e5_eff1) => `(tactic| with_reducible apply EffOk.reduceTimeLeft)

theorem EffOk.registerPre {t : St} (h : Eff0 t) (c p : Nat) :
    Eff0 ((t.registerPre c p).2) := by
  e5_eff_unfold St.registerPre
macro_rules | `(tactic| e5_eff1) => `(tactic| with_reducible apply EffOk.registerPre)

theorem EffOk.registerFin {t : St} (h : Eff0 t) (c : Nat) :
    Eff0 (t.registerFin c) := by
  e5_eff_unfold St.registerFin
macro_rules | `(tactic| e5_eff1) => `(tactic| with_reducible apply EffOk.registerFin)

theorem EffOk.unregister {t : St} (h : Eff0 t) (c : Nat) :
    Eff0 (t.unregister c) := by
  e5_eff_unfold St.unregister
macro_rules | `(tactic| e5_eff1) => `(tactic| with_reducible apply EffOk.unregister)

theorem EffOk.prepUnregPre {t : St} (h : Eff0 t) (c : Nat) :
    Eff0 (t.prepUnregPre c) := by
  e5_eff_unfold St.prepUnregPre
macro_rules | `(tactic| e5_eff1) => `(tactic| with_reducible apply EffOk.prepUnregPre)

theorem EffOk.prepUnregFin {t : St} (h : Eff0 t) (c : Nat) :
    Eff0 (t.prepUnregFin c) := by
  e5_eff_unfold St.prepUnregFin
macro_rules | `(tactic| e5_eff1) => `(tactic| with_reducible apply EffOk.prepUnregFin)

theorem EffOk.actFire {t : St} (h : Eff0 t) (self i : Nat) (target : Option Chan) (prio : Int) (cancel : Bool) :
    Eff0 (t.actFire self i target prio cancel) := by
  e5_eff_unfold St.actFire
macro_rules | `(tactic| e5_eff1) => `(tactic| with_reducible apply EffOk.actFire)

theorem EffOk.actStopEv {t : St} (h : Eff0 t) (ev : Option Nat) :
    Eff0 (t.actStopEv ev) := by
  e5_eff_unfold St.actStopEv
macro_rules | `(tactic| e5_eff1) => `(tactic| with_reducible apply EffOk.actStopEv)

theorem EffOk.timerReset {t : St} (h : Eff0 t) (i : Nat) :
    Eff0 (t.timerReset i) := by
  e5_eff_unfold St.timerReset
macro_rules | `(tactic| e5_eff1) => `(tactic| with_reducible apply EffOk.timerReset)

theorem EffOk.timerCreate {t : St} (h : Eff0 t) (i : Nat) :
    Eff0 (t.timerCreate i) := by
  e5_eff_unfold St.timerCreate
macro_rules | `(tactic| e5_eff1) => `(tactic| with_reducible apply EffOk.timerCreate)

theorem EffOk.startWait {t : St} (h : Eff0 t) (w : Nat) :
    Eff0 (t.startWait w) := by
  e5_eff_unfold St.startWait
macro_rules | `(tactic| e5_eff1) => `(tactic| with_reducible apply EffOk.startWait)

/-! ## pure pieces of `Step.lean` -/

theorem EffOk.stopBegin {t : St} (h : Eff0 t) (c : Nat) :
    Eff0 (t.stopBegin c) := by
  e5_eff_unfold St.stopBegin
macro_rules | `(tactic| e5_eff1) => `(tactic| with_reducible apply EffOk.stopBegin)

theorem EffOk.stopSetCode {t : St} (h : Eff0 t) (r : Nat) (code : Code) :
    Eff0 (t.stopSetCode r code) := by
  e5_eff_unfold St.stopSetCode
macro_rules | `(tactic| e5_eff1) => `(tactic| with_reducible apply EffOk.stopSetCode)

theorem EffOk.genCall {t : St} (h : Eff0 t) (owner i : Nat) (target : Option Chan) (timeout : Option Nat) :
    Eff0 (t.genCall owner i target timeout) := by
  e5_eff_unfold St.genCall
macro_rules | `(tactic| e5_eff1) => `(tactic| with_reducible apply EffOk.genCall)

theorem EffOk.genWait {t : St} (h : Eff0 t) (owner : Nat) (name : Name) (target : Option Chan) (timeout : Option Nat) :
    Eff0 (t.genWait owner name target timeout) := by
  e5_eff_unfold St.genWait
macro_rules | `(tactic| e5_eff1) => `(tactic| with_reducible apply EffOk.genWait)

theorem EffOk.resumeGenPre {t : St} (h : Eff0 t) (g : Nat) (silent : Bool) :
    Eff0 (t.resumeGenPre g silent) := by
  e5_eff_unfold St.resumeGenPre
macro_rules | `(tactic| e5_eff1) => `(tactic| with_reducible apply EffOk.resumeGenPre)

theorem EffOk.stopIteration {t : St} (h : Eff0 t) (r : Nat) (x : Task) :
    Eff0 ((t.stopIteration r x).2) := by
  e5_eff_unfold St.stopIteration
macro_rules | `(tactic| e5_eff1) => `(tactic| with_reducible apply EffOk.stopIteration)

theorem EffOk.fireException {t : St} (h : Eff0 t) (r e : Nat) :
    Eff0 (t.fireException r e) := by
  e5_eff_unfold St.fireException
macro_rules | `(tactic| e5_eff1) => `(tactic| with_reducible apply EffOk.fireException)

theorem EffOk.errorBranch {t : St} (h : Eff0 t) (r : Nat) (x : Task) (resumed : Bool) :
    Eff0 ((t.errorBranch r x resumed).2) := by
  e5_eff_unfold St.errorBranch
macro_rules | `(tactic| e5_eff1) => `(tactic| with_reducible apply EffOk.errorBranch)

theorem EffOk.ownSub {t : St} (h : Eff0 t) (r : Nat) (x : Task) (w : Nat) :
    Eff0 (t.ownSub r x w) := by
  e5_eff_unfold St.ownSub
macro_rules | `(tactic| e5_eff1) => `(tactic| with_reducible apply EffOk.ownSub)

theorem EffOk.setValueOpt {t : St} (h : Eff0 t) (e : Nat) (v : Option Nat) :
    Eff0 (t.setValueOpt e v) := by
  e5_eff_unfold St.setValueOpt
macro_rules | `(tactic| e5_eff1) => `(tactic| with_reducible apply EffOk.setValueOpt)

theorem EffOk.parentSub {t : St} (h : Eff0 t) (r : Nat) (x : Task) (p w2 : Nat) (viaThrow : Bool) :
    Eff0 (t.parentSub r x p w2 viaThrow) := by
  e5_eff_unfold St.parentSub
macro_rules | `(tactic| e5_eff1) => `(tactic| with_reducible apply EffOk.parentSub)

theorem EffOk.parentPlain {t : St} (h : Eff0 t) (r : Nat) (x : Task) (p : Nat) (v : Option Nat) (viaThrow : Bool) :
    Eff0 (t.parentPlain r x p v viaThrow) := by
  e5_eff_unfold St.parentPlain
macro_rules | `(tactic| e5_eff1) => `(tactic| with_reducible apply EffOk.parentPlain)

theorem EffOk.onWaitEvent {t : St} (h : Eff0 t) (w e : Nat) :
    Eff0 ((t.onWaitEvent w e).2) := by
  e5_eff_unfold St.onWaitEvent
macro_rules | `(tactic| e5_eff1) => `(tactic| with_reducible apply EffOk.onWaitEvent)

theorem EffOk.onWaitDone {t : St} (h : Eff0 t) (w e : Nat) :
    Eff0 ((t.onWaitDone w e).2) := by
  e5_eff_unfold St.onWaitDone
macro_rules | `(tactic| e5_eff1) => `(tactic| with_reducible apply EffOk.onWaitDone)

theorem EffOk.onWaitTick {t : St} (h : Eff0 t) (w : Nat) :
    Eff0 ((t.onWaitTick w).2) := by
  e5_eff_unfold St.onWaitTick
macro_rules | `(tactic| e5_eff1) => `(tactic| with_reducible apply EffOk.onWaitTick)

theorem EffOk.onFallbackGE {t : St} (h : Eff0 t) (e : Nat) :
    Eff0 ((t.onFallbackGE e).2) := by
  e5_eff_unfold St.onFallbackGE
macro_rules | `(tactic| e5_eff1) => `(tactic| with_reducible apply EffOk.onFallbackGE)

theorem EffOk.computeHandlers {t : St} (h : Eff0 t) (r : Nat) (name : Name) (chans : List Chan) :
    Eff0 ((t.computeHandlers r name chans).2) := by
  e5_eff_unfold St.computeHandlers
macro_rules | `(tactic| e5_eff1) => `(tactic| with_reducible apply EffOk.computeHandlers)

theorem EffOk.cacheRefresh {t : St} (h : Eff0 t) (r : Nat) :
    Eff0 (t.cacheRefresh r) := by
  e5_eff_unfold St.cacheRefresh
macro_rules | `(tactic| e5_eff1) => `(tactic| with_reducible apply EffOk.cacheRefresh)

theorem EffOk.lookupHandlers {t : St} (h : Eff0 t) (r : Nat) (name : Name) (chans : List Chan) :
    Eff0 ((t.lookupHandlers r name chans).2) := by
  e5_eff_unfold St.lookupHandlers
macro_rules | `(tactic| e5_eff1) => `(tactic| with_reducible apply EffOk.lookupHandlers)

theorem EffOk.dispGE {t : St} (h : Eff0 t) (r e remaining : Nat) (name : Name) :
    Eff0 (t.dispGE r e remaining name) := by
  e5_eff_unfold St.dispGE
macro_rules | `(tactic| e5_eff1) => `(tactic| with_reducible apply EffOk.dispGE)

theorem EffOk.handlerRaised {t : St} (h : Eff0 t) (r e : Nat) :
    Eff0 (t.handlerRaised r e) := by
  e5_eff_unfold St.handlerRaised
macro_rules | `(tactic| e5_eff1) => `(tactic| with_reducible apply EffOk.handlerRaised)

theorem EffOk.applyValue {t : St} (h : Eff0 t) (r e : Nat) (value : Outcome) :
    Eff0 (t.applyValue r e value) := by
  e5_eff_unfold St.applyValue
macro_rules | `(tactic| e5_eff1) => `(tactic| with_reducible apply EffOk.applyValue)

theorem EffOk.geTasksCheck {t : St} (h : Eff0 t) (r e : Nat) :
    Eff0 (t.geTasksCheck r e) := by
  e5_eff_unfold St.geTasksCheck
macro_rules | `(tactic| e5_eff1) => `(tactic| with_reducible apply EffOk.geTasksCheck)

theorem EffOk.flushBegin {t : St} (h : Eff0 t) (r : Nat) :
    Eff0 (t.flushBegin r) := by
  e5_eff_unfold St.flushBegin
macro_rules | `(tactic| e5_eff1) => `(tactic| with_reducible apply EffOk.flushBegin)

theorem EffOk.tickGenerate {t : St} (h : Eff0 t) (c : Nat) :
    Eff0 (t.tickGenerate c) := by
  e5_eff_unfold St.tickGenerate
macro_rules | `(tactic| e5_eff1) => `(tactic| with_reducible apply EffOk.tickGenerate)

theorem EffOk.runBegin {t : St} (h : Eff0 t) (c : Nat) :
    Eff0 (t.runBegin c) := by
  e5_eff_unfold St.runBegin
macro_rules | `(tactic| e5_eff1) => `(tactic| with_reducible apply EffOk.runBegin)

theorem EffOk.runEnd {t : St} (h : Eff0 t) (c : Nat) :
    Eff0 ((t.runEnd c).2) := by
  e5_eff_unfold St.runEnd
macro_rules | `(tactic| e5_eff1) => `(tactic| with_reducible apply EffOk.runEnd)

theorem EffOk.actStep {t : St} (h : Eff0 t) (ctx : HCtx) (a : Act) : Eff0 (actStep t ctx a).st := by
  cases a <;> (unfold CV.Core.actStep; (try dsimp only); e5_eff)
macro_rules | `(tactic| e5_eff1) => `(tactic| with_reducible apply EffOk.actStep)

theorem EffOk.updateRootAll : ∀ (fuel : Nat) (todo : List Nat) (root : Nat) (t : St),
    Eff0 t → Eff0 (St.updateRootAll fuel todo root t) := by
  intro fuel
  induction fuel with
  | zero => intro todo root t h; simpa [St.updateRootAll] using h
  | succ n ih =>
    intro todo root t h
    cases todo with
    | nil => simpa [St.updateRootAll] using h
    | cons x rest =>
      simp only [St.updateRootAll]
      apply ih
      e5_eff

macro_rules | `(tactic| e5_eff1) => `(tactic| with_reducible apply EffOk.updateRootAll)

/-! ## frame facts about firing: existing events keep their cause and their selfDone flag -/

theorem _root_.CV.Core.St.e5_ev_modEv_ne (t : St) (e y : Nat) (f : Ev → Ev) (hy : y ≠ e) : (t.modEv e f).ev y = t.ev y := by
  rw [St.e5_ev_modEv]; simp [hy]

theorem _root_.CV.Core.St.e5_ev_modEv_field {α} (t : St) (e y : Nat) (f : Ev → Ev) (g : Ev → α) (hf : ∀ x, g (f x) = g x) :
    g ((t.modEv e f).ev y) = g (t.ev y) := by
  rw [St.e5_ev_modEv]; split
  · rename_i h; rw [h.1]; exact hf _
  · rfl

theorem _root_.CV.Core.St.e5_fireContext_old (t : St) (r e y : Nat) (hy : y ≠ e) :
    ((t.fireContext r e).ev y).cause = (t.ev y).cause ∧
      ((t.fireContext r e).ev y).selfDone = (t.ev y).selfDone := by
  unfold St.fireContext
  dsimp only
  split
  · split
    · split
      · constructor
        · refine (St.e5_ev_modEv_field (g := fun x => x.cause) _ _ _ _ ?_).trans ?_
          · intro _; rfl
          · rw [St.e5_ev_modEv_ne _ _ _ _ hy]
        · refine (St.e5_ev_modEv_field (g := fun x => x.selfDone) _ _ _ _ ?_).trans ?_
          · intro _; rfl
          · rw [St.e5_ev_modEv_ne _ _ _ _ hy]
      · exact ⟨rfl, rfl⟩
    · exact ⟨rfl, rfl⟩
  · split
    · split
      · constructor
        · refine (St.e5_ev_modEv_field (g := fun x => x.cause) _ _ _ _ ?_)
          intro _; rfl
        · refine (St.e5_ev_modEv_field (g := fun x => x.selfDone) _ _ _ _ ?_)
          intro _; rfl
      · exact ⟨rfl, rfl⟩
    · exact ⟨rfl, rfl⟩

theorem _root_.CV.Core.St.e5_fireRaw_old (t : St) (self e y : Nat) (chans : List Chan) (prio : Int) (hy : y ≠ e) :
    ((t.fireRaw self e chans prio).ev y).cause = (t.ev y).cause ∧
      ((t.fireRaw self e chans prio).ev y).selfDone = (t.ev y).selfDone := by
  unfold St.fireRaw
  dsimp only
  show ((St.fireContext _ _ e).ev y).cause = _ ∧ ((St.fireContext _ _ e).ev y).selfDone = _
  rw [(St.e5_fireContext_old _ _ e y hy).1, (St.e5_fireContext_old _ _ e y hy).2, St.e5_ev_modEv_ne _ _ _ _ hy]
  exact ⟨rfl, rfl⟩

theorem _root_.CV.Core.St.e5_fireChild_old (t : St) (self p sfx y : Nat) (chans : List Chan) (hy : y < t.evs.length) :
    ((t.fireChild self p sfx chans).ev y).cause = (t.ev y).cause ∧
      ((t.fireChild self p sfx chans).ev y).selfDone = (t.ev y).selfDone := by
  unfold St.fireChild St.childEv
  have hne : y ≠ t.evs.length := by omega
  rw [(St.e5_fireRaw_old _ _ _ y _ _ hne).1, (St.e5_fireRaw_old _ _ _ y _ _ hne).2, St.e5_ev_addEv]
  simp [hne]

/-! ## the four places that change the accounting -/

theorem EffOk.drop_pending {t : St} {e : Nat} {z : Option Nat} (h : EffOk t (some e) z)
    (hc : (t.ev e).cause = none) : EffOk t none z := by
  refine ⟨h.timers, h.causeLe, h.pos, ?_⟩
  intro y hy
  have hne : ¬ (some e = some y) := by intro a; cases a; exact hy hc
  have := h.count y hy
  simp only [hne, if_false] at this
  simpa using this

/-- the event's own "done": `selfDone := true`, the decrement is now pending -/
theorem EffOk.setSelfDone {t : St} (h : Eff0 t) (e : Nat)
    (hs : (t.ev e).cause ≠ none → (t.ev e).selfDone = false) :
    EffOk (t.modEv e fun x => { x with selfDone := true }) (some e) none := by
  have hce : ∀ y, ((t.modEv e fun x => { x with selfDone := true }).ev y).cause = (t.ev y).cause ∧
      ((t.modEv e fun x => { x with selfDone := true }).ev y).effects = (t.ev y).effects :=
    fun y => ⟨St.e5_ev_modEv_field _ _ _ _ (fun x => x.cause) (fun _ => rfl),
      St.e5_ev_modEv_field _ _ _ _ (fun x => x.effects) (fun _ => rfl)⟩
  have hk : ∀ y, (t.modEv e fun x => { x with selfDone := true }).e5_kids y = t.e5_kids y :=
    fun y => St.e5_kids_congr t _ (by simp) (fun x => (hce x).1) y
  refine ⟨h.timers, ?_, ?_, ?_⟩
  · intro x g; rw [(hce x).1]; exact h.causeLe x g
  · intro y; rw [(hce y).1, (hce y).2]; exact h.pos y
  · intro y; rw [(hce y).1, (hce y).2, hk]; intro hy
    have hc := h.count y hy
    simp only [reduceCtorEq, if_false, Int.add_zero] at hc
    by_cases hye : y = e
    · subst hye
      have hlt := t.e5_lt_of_tracked y hy
      have hsd := hs hy
      rw [St.e5_ev_modEv]
      simp only [hlt, and_self, if_true]
      rw [hc, hsd]; simp <;> omega
    · rw [St.e5_ev_modEv_ne _ _ _ _ hye, hc]
      have : ¬ (some e = some y) := by intro a; cases a; exact hye rfl
      simp [this]

/-- (re)start of the tracking of `e` at its dispatch: nothing is linked under `e` yet -/
theorem EffOk.reset {t s' : St} (h : Eff0 t) (e : Nat) (c' : Option Nat)
    (hlen : s'.evs.length = t.evs.length) (htm : s'.timers = t.timers)
    (hev : ∀ y, s'.ev y = if y = e then { t.ev e with cause := c', effects := 1, selfDone := false } else t.ev y)
    (hc' : c' = (t.ev e).cause ∨ ((t.ev e).cause = none ∧ c' = some e))
    (hk0 : ∀ x, x ≠ e → (t.ev x).cause ≠ some e)
    (hsd : (t.ev e).selfDone = false) : Eff0 s' := by
  have hk : ∀ y, s'.e5_kids y = t.e5_kids y := by
    intro y
    have := St.e5_kids_update t s' e hlen (by intro x hx; rw [hev]; simp [hx]) y
    rw [hev] at this
    simp only [if_true] at this
    rcases hc' with h1 | ⟨h1, h2⟩
    · rw [h1] at this; omega
    · rw [h1, h2] at this
      have : ¬ (e ≠ y ∧ some e = some y) := by intro ⟨a, b⟩; cases b; exact a rfl
      simp_all
  have hke : t.e5_kids e = 0 := St.e5_kids_eq_zero t e hk0
  refine ⟨htm.trans h.timers, ?_, ?_, ?_⟩
  · intro x g; rw [hev]; split
    · rename_i hx; subst hx
      show c' = some g → g ≤ x
      rcases hc' with h1 | ⟨_, h2⟩
      · rw [h1]; exact h.causeLe x g
      · rw [h2]; intro a; cases a; exact Nat.le_refl _
    · exact h.causeLe x g
  · intro y; rw [hev]; split
    · intro _; left; show (1 : Int) ≤ 1; omega
    · exact h.pos y
  · intro y; rw [hev, hk]; split
    · rename_i hy; subst hy; intro _
      show (1 : Int) = _
      simp [hke]
    · exact h.count y

theorem EffOk.dispComplete {t : St} (h : Eff0 t) (e : Nat)
    (hv : (t.ev e).complete = true → (t.ev e).selfDone = false ∧ ∀ x, x ≠ e → (t.ev x).cause ≠ some e) :
    Eff0 (t.dispComplete e (t.ev e)) := by
  unfold St.dispComplete
  split
  · rename_i hcpl
    have hlt : e < t.evs.length := by
      apply Classical.byContradiction; intro hx
      rw [St.e5_ev_ge t e (by omega)] at hcpl; simp [dfltEv] at hcpl
    obtain ⟨hsd, hk0⟩ := hv hcpl
    by_cases hn : (t.ev e).cause.isNone = true
    · rw [if_pos hn]
      have hn' : (t.ev e).cause = none := by simpa using hn
      refine h.reset e (some e) (by simp) (by simp [St.modEv]) ?_ (Or.inr ⟨hn', rfl⟩) hk0 hsd
      intro y
      simp only [St.e5_ev_modEv, St.e5_evs_length_modEv]
      by_cases hy : y = e
      · subst hy; simp [hlt]
      · simp [hy]
    · rw [if_neg hn]
      refine h.reset e (t.ev e).cause (by simp) (by simp [St.modEv]) ?_ (Or.inl rfl) hk0 hsd
      intro y
      rw [St.e5_ev_modEv]
      by_cases hy : y = e
      · subst hy; simp [hlt]
      · simp [hy]
  · exact h

/-- the decrement of `_effectDone`; the event may now sit at 0 (`z`) until it is cleared -/
theorem EffOk.decr {t : St} {e : Nat} (h : EffOk t (some e) none) (hc : (t.ev e).cause ≠ none) :
    EffOk (t.modEv e fun x => { x with effects := (t.ev e).effects - 1 }) none (some e) := by
  have hlt := t.e5_lt_of_tracked e hc
  have hcs : ∀ y, ((t.modEv e fun x => { x with effects := (t.ev e).effects - 1 }).ev y).cause = (t.ev y).cause ∧
      ((t.modEv e fun x => { x with effects := (t.ev e).effects - 1 }).ev y).selfDone = (t.ev y).selfDone :=
    fun y => ⟨St.e5_ev_modEv_field _ _ _ _ (fun x => x.cause) (fun _ => rfl),
      St.e5_ev_modEv_field _ _ _ _ (fun x => x.selfDone) (fun _ => rfl)⟩
  have hk : ∀ y, (t.modEv e fun x => { x with effects := (t.ev e).effects - 1 }).e5_kids y = t.e5_kids y :=
    fun y => St.e5_kids_congr t _ (by simp) (fun x => (hcs x).1) y
  refine ⟨h.timers, ?_, ?_, ?_⟩
  · intro x g; rw [(hcs x).1]; exact h.causeLe x g
  · intro y; rw [(hcs y).1]; intro hy
    by_cases hye : y = e
    · exact Or.inr (by rw [hye])
    · rw [St.e5_ev_modEv_ne _ _ _ _ hye]
      rcases h.pos y hy with h1 | h1
      · exact Or.inl h1
      · cases h1
  · intro y; rw [(hcs y).1, (hcs y).2, hk]; intro hy
    have hcnt := h.count y hy
    by_cases hye : y = e
    · subst hye
      rw [St.e5_ev_modEv]
      simp only [hlt, and_self, if_true]
      show (t.ev y).effects - 1 = _
      rw [hcnt]; simp
    · rw [St.e5_ev_modEv_ne _ _ _ _ hye, hcnt]
      have : ¬ (some e = some y) := by intro a; cases a; exact hye rfl
      simp [this]

theorem EffOk.unzombie {t : St} {e : Nat} (h : EffOk t none (some e))
    (hp : (t.ev e).cause ≠ none → 1 ≤ (t.ev e).effects) : Eff0 t := by
  refine ⟨h.timers, h.causeLe, ?_, h.count⟩
  intro y hy
  rcases h.pos y hy with h1 | h1
  · exact Or.inl h1
  · cases h1; exact Or.inl (hp hy)

/-- `delattr(event, 'cause'); delattr(event, 'effects')`: the decrement of the cause is now pending -/
theorem EffOk.clear {t : St} {e P : Nat} (h : EffOk t none (some e)) (hc : (t.ev e).cause = some P) :
    EffOk (t.modEv e fun x => { x with cause := none, effects := 0 }) (if P = e then none else some P) none := by
  have hlt := t.e5_lt_of_cause e P hc
  have hev : ∀ y, (t.modEv e fun x => { x with cause := none, effects := 0 }).ev y
      = if y = e then { t.ev e with cause := none, effects := 0 } else t.ev y := by
    intro y; rw [St.e5_ev_modEv]; by_cases hy : y = e
    · subst hy; simp [hlt]
    · simp [hy]
  have hk : ∀ y, t.e5_kids y = (t.modEv e fun x => { x with cause := none, effects := 0 }).e5_kids y
      + (if e ≠ y ∧ P = y then 1 else 0) := by
    intro y
    have := St.e5_kids_update t _ e (St.e5_evs_length_modEv t e _) (by intro x hx; rw [hev]; simp [hx]) y
    rw [hev, hc] at this
    simp only [if_true, reduceCtorEq, and_false, if_false, Nat.add_zero, hlt, true_and, Option.some.injEq] at this
    omega
  refine ⟨by simpa [St.modEv] using h.timers, ?_, ?_, ?_⟩
  · intro x g; rw [hev]; split
    · intro a; cases a
    · exact h.causeLe x g
  · intro y; rw [hev]; split
    · intro a; exact absurd rfl a
    · rename_i hy; intro hy'
      rcases h.pos y hy' with h1 | h1
      · exact Or.inl h1
      · cases h1; exact absurd rfl hy
  · intro y; rw [hev]; split
    · intro a; exact absurd rfl a
    · rename_i hy; intro hy'
      have hcnt := h.count y hy'
      rw [hcnt, hk y]
      have hey : e ≠ y := fun a => hy a.symm
      by_cases hP : P = y
      · subst hP
        have : ¬ (P = e) := hy
        simp [this, hey] <;> omega
      · by_cases hPe : P = e
        · simp [hPe, hey]
        · have : ¬ (some P = some y) := by intro a; cases a; exact hP rfl
          simp [hPe, hP, this]

/-- one iteration of `_effectDone`: the returned event is the one whose decrement is pending next -/
theorem EffOk.effectDone1 {t : St} {e : Nat} (h : EffOk t (some e) none) (r : Nat) (a : Bool) :
    EffOk (t.effectDone1 r e a).2 (t.effectDone1 r e a).1 none := by
  unfold St.effectDone1
  dsimp only
  split
  · rename_i hc; exact h.drop_pending hc
  · rename_i P hc
    have htr : (t.ev e).cause ≠ none := by rw [hc]; simp
    have hlt := t.e5_lt_of_cause e P hc
    have h1 := h.decr htr
    split
    · rename_i hpos
      refine h1.unzombie ?_
      intro _
      rw [St.e5_ev_modEv]; simp only [hlt, and_self, if_true]
      show 1 ≤ (t.ev e).effects - 1
      omega
    · have h2 : EffOk (if ((t.ev e).complete && a) = true
          then (t.modEv e fun x => { x with effects := (t.ev e).effects - 1 }).fireChild r e sfxComplete
                ((t.ev e).completeChans.getD (t.ev e).chans)
          else t.modEv e fun x => { x with effects := (t.ev e).effects - 1 }) none (some e) := by
        split
        · exact h1.fireChild _ _ _ _
        · exact h1
      have hc2 : ((if ((t.ev e).complete && a) = true
          then (t.modEv e fun x => { x with effects := (t.ev e).effects - 1 }).fireChild r e sfxComplete
                ((t.ev e).completeChans.getD (t.ev e).chans)
          else t.modEv e fun x => { x with effects := (t.ev e).effects - 1 }).ev e).cause = some P := by
        split
        · exact ((St.e5_fireChild_old _ _ _ _ e _ (by simpa using hlt)).1).trans
            ((St.e5_ev_modEv_field (g := fun x => x.cause) _ _ _ _ (by intro _; rfl)).trans hc)
        · exact (St.e5_ev_modEv_field (g := fun x => x.cause) _ _ _ _ (by intro _; rfl)).trans hc
      have h3 := h2.clear hc2
      by_cases hPe : P = e
      · have : (P == e) = true := by simp [hPe]
        rw [if_pos this]
        simpa [hPe] using h3
      · have : ¬ ((P == e) = true) := by simp [hPe]
        rw [if_neg this]
        simpa [hPe] using h3

/-- `_eventDone` up to `_effectDone`: the event's own decrement becomes pending iff it proceeds -/
theorem EffOk.eventDonePre_lt {t : St} (h : Eff0 t) (r e : Nat) (err : Bool) (hlt : e < t.evs.length)
    (hs : (t.ev e).waiting = 0 → (t.ev e).cause ≠ none → (t.ev e).selfDone = false) :
    EffOk (t.eventDonePre r e err).2 (if (t.eventDonePre r e err).1 then some e else none) none := by
  unfold St.eventDonePre
  dsimp only
  split
  · simpa using h
  · rename_i hw
    have hw' : (t.ev e).waiting = 0 := by simpa using hw
    simp only [if_true]
    apply EffOk.setSelfDone
    · e5_eff
    · -- the two fires do not touch the cause / selfDone of `e`
      have key : ∀ (s : St) (b : Bool) (ch : List Chan) (sfx : Nat), e < s.evs.length →
          ((if b = true then s.fireChild r e sfx ch else s).ev e).cause = (s.ev e).cause ∧
          ((if b = true then s.fireChild r e sfx ch else s).ev e).selfDone = (s.ev e).selfDone ∧
          e < (if b = true then s.fireChild r e sfx ch else s).evs.length := by
        intro s b ch sfx hl
        cases b
        · exact ⟨rfl, rfl, hl⟩
        · simp only [if_true]
          refine ⟨(St.e5_fireChild_old s r e sfx e ch hl).1, (St.e5_fireChild_old s r e sfx e ch hl).2, ?_⟩
          have := (St.Le.fireChild (St.Le.refl s) r e sfx ch).evs
          omega
      obtain ⟨a1, a2, a3⟩ := key t (t.ev e).alertDone (t.ev e).chans sfxDone hlt
      obtain ⟨b1, b2, _⟩ := key _ (!err && !((if (t.ev e).alertDone = true then t.fireChild r e sfxDone (t.ev e).chans else t).ev e).val.errors
          && ((if (t.ev e).alertDone = true then t.fireChild r e sfxDone (t.ev e).chans else t).ev e).success)
        (((if (t.ev e).alertDone = true then t.fireChild r e sfxDone (t.ev e).chans else t).ev e).successChans.getD
          ((if (t.ev e).alertDone = true then t.fireChild r e sfxDone (t.ev e).chans else t).ev e).chans) sfxSuccess a3
      rw [b1, b2, a1, a2]
      exact hs hw'

theorem EffOk.eventDonePre {t : St} (h : Eff0 t) (r e : Nat) (err : Bool)
    (hs : (t.ev e).waiting = 0 → (t.ev e).cause ≠ none → (t.ev e).selfDone = false) :
    EffOk (t.eventDonePre r e err).2 (if (t.eventDonePre r e err).1 then some e else none) none := by
  by_cases hlt : e < t.evs.length
  · exact h.eventDonePre_lt r e err hlt hs
  · -- an id that is not an event: nothing is fired, nothing changes
    have hd : t.ev e = dfltEv := St.e5_ev_ge t e (by omega)
    have hr : t.eventDonePre r e err = (true, t.modEv e fun x => { x with selfDone := true }) := by
      unfold St.eventDonePre
      simp [hd, dfltEv]
    rw [hr]
    exact h.setSelfDone e (fun hc => by rw [hd] at hc; simp [dfltEv] at hc)

/-- `_dispatcher` up to the handler loop -/
theorem EffOk.dispatchPre {t : St} (h : Eff0 t) (r e rem : Nat)
    (hv : ((t.ev e).cancelled = true ∨ (t.ev e).complete = true) →
        (t.ev e).selfDone = false ∧ ∀ x, x ≠ e → (t.ev x).cause ≠ some e) :
    EffOk (t.dispatchPre r e rem).2 (if (t.dispatchPre r e rem).1.isNone then some e else none) none := by
  unfold St.dispatchPre
  dsimp only
  split
  · rename_i hcan
    simp only [Option.isNone_none, if_true]
    apply EffOk.setSelfDone (h.logE _)
    intro _
    exact (hv (Or.inl hcan)).1
  · simp only [Option.isNone_some, Bool.false_eq_true, if_false]
    have hd : Eff0 ((t.logE (.disp e)).dispComplete e ((t.logE (.disp e)).ev e)) :=
      EffOk.dispComplete (h.logE _) e (fun hc => hv (Or.inr hc))
    e5_eff

/-! ## configurations: the stack shape and the invariant -/

def _root_.CV.Core.Frame.e5_isEff : Frame → Bool
  | .effectDone .. => true
  | _ => false

/-- no `.effectDone` frame in the list -/
def noEff (l : List Frame) : Bool := l.all (fun f => !f.e5_isEff)

/-- the event whose `_effectDone` decrement is pending: the `e` of an `.effectDone r e announce` on top -/
def pendOf : List Frame → Option Nat
  | .effectDone _ e _ :: _ => some e
  | _ => none

theorem noEff_append (a b : List Frame) : noEff (a ++ b) = (noEff a && noEff b) := by
  simp [noEff, List.all_append]

theorem noEff_tail (l : List Frame) (h : noEff l = true) : noEff l.tail = true := by
  cases l with
  | nil => rfl
  | cons f k => simp [noEff] at h ⊢; exact h.2

theorem pendOf_noEff (l : List Frame) (h : noEff l = true) : pendOf l = none := by
  cases l with
  | nil => rfl
  | cons f k => cases f <;> first | rfl | (simp [noEff, Frame.e5_isEff] at h)

/-- The configuration invariant: the effects accounting holds, with the decrement of the
    `.effectDone` frame on top (if any) still pending; `.effectDone` frames occur only on top of the
    stack and never while an exception unwinds it (so a pending decrement is never lost). -/
structure CInv (c : Cfg) : Prop where
  tail : noEff c.stack.tail = true
  exn : c.exn ≠ none → noEff c.stack = true
  acc : EffOk c.st (pendOf c.stack) none

section
variable (c : Cfg) (k : List Frame) (s : St)

theorem CInv.pop (hk : noEff k = true) (h : Eff0 s) : CInv (c.pop k s) :=
  ⟨noEff_tail k hk, fun _ => hk, by show EffOk s (pendOf k) none; rw [pendOf_noEff k hk]; exact h⟩

theorem CInv.popRet (v : Ret) (hk : noEff k = true) (h : Eff0 s) : CInv (c.popRet k s v) :=
  ⟨noEff_tail k hk, fun _ => hk, by show EffOk s (pendOf k) none; rw [pendOf_noEff k hk]; exact h⟩

theorem CInv.raise (ex : Exn) (hk : noEff k = true) (h : Eff0 s) : CInv (c.raise k s ex) :=
  ⟨noEff_tail k hk, fun _ => hk, by show EffOk s (pendOf k) none; rw [pendOf_noEff k hk]; exact h⟩

theorem CInv.goto (fs : List Frame) (hk : noEff k = true) (hfs : noEff fs = true) (h : Eff0 s) :
    CInv (c.goto k s fs) := by
  have hall : noEff (fs ++ k) = true := by rw [noEff_append, hfs, hk]; rfl
  exact ⟨noEff_tail _ hall, fun _ => hall, by show EffOk s (pendOf (fs ++ k)) none; rw [pendOf_noEff _ hall]; exact h⟩

/-- replace the top frame by an `.effectDone` frame: only in normal execution -/
theorem CInv.gotoEff (r e : Nat) (a : Bool) (hk : noEff k = true) (hx : c.exn = none)
    (h : EffOk s (some e) none) : CInv (c.goto k s [.effectDone r e a]) :=
  ⟨hk, fun hne => absurd hx hne, h⟩
end

macro_rules | `(tactic| e5_eff1) => `(tactic| (show noEff _ = true; rfl))
macro_rules | `(tactic| e5_eff1) => `(tactic| with_reducible apply CInv.goto)
macro_rules | `(tactic| e5_eff1) => `(tactic| with_reducible apply CInv.raise)
macro_rules | `(tactic| e5_eff1) => `(tactic| with_reducible apply CInv.popRet)
macro_rules | `(tactic| e5_eff1) => `(tactic| with_reducible apply CInv.pop)
macro_rules | `(tactic| e5_eff1) => `(tactic| with_reducible assumption)

/-! ## the arms of `step` -/

/-- a frame pushed by user code (`register`, `flush`, `stop`, `Timer(...)`) is not `.effectDone` -/
theorem actStep_call_noEff (s : St) (ctx : HCtx) (a : Act) (f : Frame)
    (h : (actStep s ctx a).kind = .call f) : f.e5_isEff = false := by
  cases a <;> simp [actStep] at h <;> (try (split at h <;> simp at h)) <;> subst h <;> rfl

theorem noEff_cons_call (s : St) (ctx : HCtx) (a : Act) (f g : Frame)
    (h : (actStep s ctx a).kind = .call f) (hg : g.e5_isEff = false) : noEff [f, g] = true := by
  simp [noEff, actStep_call_noEff s ctx a f h, hg]

theorem Cfg.effectDone_cinv (c : Cfg) (k : List Frame) (r e : Nat) (a : Bool)
    (hk : noEff k = true) (hx : c.exn = none) (h0 : EffOk c.st (some e) none) :
    CInv (c.effectDone k r e a) := by
  unfold Cfg.effectDone
  have h1 := h0.effectDone1 r a
  split
  · rename_i P hP
    rw [hP] at h1
    exact CInv.gotoEff c k _ r P true hk hx h1
  · rename_i hP
    rw [hP] at h1
    exact CInv.pop c k _ hk h1

theorem Cfg.eventDone_cinv (c : Cfg) (k : List Frame) (r e : Nat) (err : Bool)
    (hk : noEff k = true) (hx : c.exn = none) (h0 : Eff0 c.st)
    (hs : (c.st.ev e).waiting = 0 → (c.st.ev e).cause ≠ none → (c.st.ev e).selfDone = false) :
    CInv (c.eventDone k r e err) := by
  unfold Cfg.eventDone
  have h1 := h0.eventDonePre r e err hs
  split
  · rename_i hb
    rw [hb] at h1
    exact CInv.gotoEff c k _ r e true hk hx h1
  · rename_i hb
    have : (c.st.eventDonePre r e err).1 = false := by simpa using hb
    rw [this] at h1
    exact CInv.pop c k _ hk h1

theorem Cfg.dispatcher_cinv (c : Cfg) (k : List Frame) (r e rem : Nat)
    (hk : noEff k = true) (hx : c.exn = none) (h0 : Eff0 c.st)
    (hv : ((c.st.ev e).cancelled = true ∨ (c.st.ev e).complete = true) →
        (c.st.ev e).selfDone = false ∧ ∀ x, x ≠ e → (c.st.ev x).cause ≠ some e) :
    CInv (c.dispatcher k r e rem) := by
  unfold Cfg.dispatcher
  have h1 := h0.dispatchPre r e rem hv
  split
  · rename_i hb
    rw [hb] at h1
    exact CInv.gotoEff c k _ r e false hk hx h1
  · rename_i hs hb
    rw [hb] at h1
    exact CInv.goto c k _ _ hk rfl h1

theorem Cfg.updateRoot_cinv (c : Cfg) (k : List Frame) (todo : List Nat) (root : Nat)
    (hk : noEff k = true) (h0 : Eff0 c.st) : CInv (c.updateRoot k todo root) := by
  unfold Cfg.updateRoot; (try dsimp only); e5_eff
macro_rules | `(tactic| e5_eff1) => `(tactic| with_reducible apply Cfg.updateRoot_cinv)

theorem Cfg.acts_cinv (c : Cfg) (k : List Frame) (ctx : HCtx) (prog : Prog)
    (hk : noEff k = true) (h0 : Eff0 c.st) : CInv (c.acts k ctx prog) := by
  unfold Cfg.acts
  split
  · e5_eff
  · split
    · e5_eff
    · e5_eff
    · rename_i hf
      exact CInv.goto c k _ _ hk (noEff_cons_call _ _ _ _ _ hf rfl) (h0.actStep _ _)
macro_rules | `(tactic| e5_eff1) => `(tactic| with_reducible apply Cfg.acts_cinv)

theorem Cfg.register_cinv (c : Cfg) (k : List Frame) (x p : Nat)
    (hk : noEff k = true) (h0 : Eff0 c.st) : CInv (c.register k x p) := by
  unfold Cfg.register; (try dsimp only); e5_eff
macro_rules | `(tactic| e5_eff1) => `(tactic| with_reducible apply Cfg.register_cinv)

theorem Cfg.registerFin_cinv (c : Cfg) (k : List Frame) (x : Nat)
    (hk : noEff k = true) (h0 : Eff0 c.st) : CInv (c.registerFin k x) := by
  unfold Cfg.registerFin; (try dsimp only); e5_eff
macro_rules | `(tactic| e5_eff1) => `(tactic| with_reducible apply Cfg.registerFin_cinv)

theorem Cfg.prepUnregFin_cinv (c : Cfg) (k : List Frame) (x : Nat)
    (hk : noEff k = true) (h0 : Eff0 c.st) : CInv (c.prepUnregFin k x) := by
  unfold Cfg.prepUnregFin; (try dsimp only); e5_eff
macro_rules | `(tactic| e5_eff1) => `(tactic| with_reducible apply Cfg.prepUnregFin_cinv)

theorem Cfg.stopMgr_cinv (c : Cfg) (k : List Frame) (x : Nat) (code : Code)
    (hk : noEff k = true) (h0 : Eff0 c.st) : CInv (c.stopMgr k x code) := by
  unfold Cfg.stopMgr; (try dsimp only); e5_eff
macro_rules | `(tactic| e5_eff1) => `(tactic| with_reducible apply Cfg.stopMgr_cinv)

theorem Cfg.ticks_cinv (c : Cfg) (k : List Frame) (x n : Nat)
    (hk : noEff k = true) (h0 : Eff0 c.st) : CInv (c.ticks k x n) := by
  unfold Cfg.ticks; (try dsimp only); e5_eff
macro_rules | `(tactic| e5_eff1) => `(tactic| with_reducible apply Cfg.ticks_cinv)

theorem Cfg.stopFin_cinv (c : Cfg) (k : List Frame) (code : Code)
    (hk : noEff k = true) (h0 : Eff0 c.st) : CInv (c.stopFin k code) := by
  unfold Cfg.stopFin; (try dsimp only); e5_eff
macro_rules | `(tactic| e5_eff1) => `(tactic| with_reducible apply Cfg.stopFin_cinv)

theorem Cfg.timerNew_cinv (c : Cfg) (k : List Frame) (i : Nat)
    (hk : noEff k = true) (h0 : Eff0 c.st) : CInv (c.timerNew k i) := by
  unfold Cfg.timerNew; (try dsimp only); e5_eff
macro_rules | `(tactic| e5_eff1) => `(tactic| with_reducible apply Cfg.timerNew_cinv)

theorem Cfg.doFin_cinv (c : Cfg) (k : List Frame) (x : Nat)
    (hk : noEff k = true) (h0 : Eff0 c.st) : CInv (c.doFin k x) := by
  unfold Cfg.doFin; (try dsimp only); e5_eff
macro_rules | `(tactic| e5_eff1) => `(tactic| with_reducible apply Cfg.doFin_cinv)

theorem Cfg.drainQ_cinv (c : Cfg) (k : List Frame) (x : Nat)
    (hk : noEff k = true) (h0 : Eff0 c.st) : CInv (c.drainQ k x) := by
  unfold Cfg.drainQ; (try dsimp only); e5_eff
macro_rules | `(tactic| e5_eff1) => `(tactic| with_reducible apply Cfg.drainQ_cinv)

theorem Cfg.processTask_cinv (c : Cfg) (k : List Frame) (r : Nat) (x : Task)
    (hk : noEff k = true) (h0 : Eff0 c.st) : CInv (c.processTask k r x) := by
  unfold Cfg.processTask; (try dsimp only); e5_eff
macro_rules | `(tactic| e5_eff1) => `(tactic| with_reducible apply Cfg.processTask_cinv)

theorem Cfg.contStop_cinv (c : Cfg) (k : List Frame) (s : St) (r : Nat) (x : Task) (hk : noEff k = true)
    (h0 : Eff0 s) : CInv (c.contStop k s r x) := by
  unfold Cfg.contStop; (try dsimp only); e5_eff
macro_rules | `(tactic| e5_eff1) => `(tactic| with_reducible apply Cfg.contStop_cinv)

theorem Cfg.contError_cinv (c : Cfg) (k : List Frame) (s : St) (r : Nat) (x : Task) (resumed : Bool) (hk : noEff k = true)
    (h0 : Eff0 s) : CInv (c.contError k s r x resumed) := by
  unfold Cfg.contError; (try dsimp only); e5_eff
macro_rules | `(tactic| e5_eff1) => `(tactic| with_reducible apply Cfg.contError_cinv)

theorem Cfg.ptBodyWait_cinv (c : Cfg) (k : List Frame) (r : Nat) (x : Task) (w : Nat)
    (hk : noEff k = true) (h0 : Eff0 c.st) : CInv (c.ptBodyWait k r x w) := by
  unfold Cfg.ptBodyWait; (try dsimp only); e5_eff
macro_rules | `(tactic| e5_eff1) => `(tactic| with_reducible apply Cfg.ptBodyWait_cinv)

theorem Cfg.ptBodyExc_cinv (c : Cfg) (k : List Frame) (r : Nat) (x : Task) (w : Nat) (fired : Bool)
    (hk : noEff k = true) (h0 : Eff0 c.st) : CInv (c.ptBodyExc k r x w fired) := by
  unfold Cfg.ptBodyExc; (try dsimp only); e5_eff
macro_rules | `(tactic| e5_eff1) => `(tactic| with_reducible apply Cfg.ptBodyExc_cinv)

theorem Cfg.ptBody_cinv (c : Cfg) (k : List Frame) (r : Nat) (x : Task)
    (hk : noEff k = true) (h0 : Eff0 c.st) : CInv (c.ptBody k r x) := by
  unfold Cfg.ptBody; (try dsimp only); e5_eff
macro_rules | `(tactic| e5_eff1) => `(tactic| with_reducible apply Cfg.ptBody_cinv)

theorem Cfg.ptOwn_cinv (c : Cfg) (k : List Frame) (r : Nat) (x : Task)
    (hk : noEff k = true) (h0 : Eff0 c.st) : CInv (c.ptOwn k r x) := by
  unfold Cfg.ptOwn; (try dsimp only); e5_eff
macro_rules | `(tactic| e5_eff1) => `(tactic| with_reducible apply Cfg.ptOwn_cinv)

theorem Cfg.ptParent_cinv (c : Cfg) (k : List Frame) (r : Nat) (x : Task) (p : Nat) (viaThrow : Bool)
    (hk : noEff k = true) (h0 : Eff0 c.st) : CInv (c.ptParent k r x p viaThrow) := by
  unfold Cfg.ptParent; (try dsimp only); e5_eff
macro_rules | `(tactic| e5_eff1) => `(tactic| with_reducible apply Cfg.ptParent_cinv)

theorem Cfg.ptFin_cinv (c : Cfg) (k : List Frame) (r : Nat) (handling : Option Nat)
    (hk : noEff k = true) (h0 : Eff0 c.st) : CInv (c.ptFin k r handling) := by
  unfold Cfg.ptFin; (try dsimp only); e5_eff
macro_rules | `(tactic| e5_eff1) => `(tactic| with_reducible apply Cfg.ptFin_cinv)

theorem Cfg.hLoop_cinv (c : Cfg) (k : List Frame) (r e : Nat) (hs : List Nat) (err : Bool) (stale : Outcome)
    (hk : noEff k = true) (h0 : Eff0 c.st) : CInv (c.hLoop k r e hs err stale) := by
  unfold Cfg.hLoop; (try dsimp only); e5_eff
macro_rules | `(tactic| e5_eff1) => `(tactic| with_reducible apply Cfg.hLoop_cinv)

theorem Cfg.invokeUser_cinv (c : Cfg) (k : List Frame) (s : St) (h e owner p : Nat) (hk : noEff k = true)
    (h0 : Eff0 s) : CInv (c.invokeUser k s h e owner p) := by
  unfold Cfg.invokeUser; (try dsimp only); e5_eff
macro_rules | `(tactic| e5_eff1) => `(tactic| with_reducible apply Cfg.invokeUser_cinv)

theorem Cfg.invoke_cinv (c : Cfg) (k : List Frame) (r h e : Nat)
    (hk : noEff k = true) (h0 : Eff0 c.st) : CInv (c.invoke k r h e) := by
  unfold Cfg.invoke; (try dsimp only); e5_eff
macro_rules | `(tactic| e5_eff1) => `(tactic| with_reducible apply Cfg.invoke_cinv)

theorem Cfg.invokeFin_cinv (c : Cfg) (k : List Frame) (e h : Nat)
    (hk : noEff k = true) (h0 : Eff0 c.st) : CInv (c.invokeFin k e h) := by
  unfold Cfg.invokeFin; (try dsimp only); e5_eff
macro_rules | `(tactic| e5_eff1) => `(tactic| with_reducible apply Cfg.invokeFin_cinv)

theorem Cfg.hAfter_cinv (c : Cfg) (k : List Frame) (r e : Nat) (rest : List Nat) (err : Bool) (stale : Outcome)
    (hk : noEff k = true) (h0 : Eff0 c.st) : CInv (c.hAfter k r e rest err stale) := by
  unfold Cfg.hAfter; (try dsimp only); e5_eff
macro_rules | `(tactic| e5_eff1) => `(tactic| with_reducible apply Cfg.hAfter_cinv)

theorem Cfg.hApply_cinv (c : Cfg) (k : List Frame) (r e : Nat) (rest : List Nat) (err : Bool) (value : Outcome)
    (hk : noEff k = true) (h0 : Eff0 c.st) : CInv (c.hApply k r e rest err value) := by
  unfold Cfg.hApply; (try dsimp only); e5_eff
macro_rules | `(tactic| e5_eff1) => `(tactic| with_reducible apply Cfg.hApply_cinv)

theorem Cfg.dispFin_cinv (c : Cfg) (k : List Frame) (r e : Nat) (err : Bool)
    (hk : noEff k = true) (h0 : Eff0 c.st) : CInv (c.dispFin k r e err) := by
  unfold Cfg.dispFin; (try dsimp only); e5_eff
macro_rules | `(tactic| e5_eff1) => `(tactic| with_reducible apply Cfg.dispFin_cinv)

theorem Cfg.dispatchLoop_cinv (c : Cfg) (k : List Frame) (r : Nat)
    (hk : noEff k = true) (h0 : Eff0 c.st) : CInv (c.dispatchLoop k r) := by
  unfold Cfg.dispatchLoop; (try dsimp only); e5_eff
macro_rules | `(tactic| e5_eff1) => `(tactic| with_reducible apply Cfg.dispatchLoop_cinv)

theorem Cfg.flush_cinv (c : Cfg) (k : List Frame) (x : Nat)
    (hk : noEff k = true) (h0 : Eff0 c.st) : CInv (c.flush k x) := by
  unfold Cfg.flush; (try dsimp only); e5_eff
macro_rules | `(tactic| e5_eff1) => `(tactic| with_reducible apply Cfg.flush_cinv)

theorem Cfg.flushFin_cinv (c : Cfg) (k : List Frame) (r : Nat) (old : Bool)
    (hk : noEff k = true) (h0 : Eff0 c.st) : CInv (c.flushFin k r old) := by
  unfold Cfg.flushFin; (try dsimp only); e5_eff
macro_rules | `(tactic| e5_eff1) => `(tactic| with_reducible apply Cfg.flushFin_cinv)

theorem Cfg.tick_cinv (c : Cfg) (k : List Frame) (x : Nat)
    (hk : noEff k = true) (h0 : Eff0 c.st) : CInv (c.tick k x) := by
  unfold Cfg.tick; (try dsimp only); e5_eff
macro_rules | `(tactic| e5_eff1) => `(tactic| with_reducible apply Cfg.tick_cinv)

theorem Cfg.taskLoop_cinv (c : Cfg) (k : List Frame) (x : Nat) (ts : List Task)
    (hk : noEff k = true) (h0 : Eff0 c.st) : CInv (c.taskLoop k x ts) := by
  unfold Cfg.taskLoop; (try dsimp only); e5_eff
macro_rules | `(tactic| e5_eff1) => `(tactic| with_reducible apply Cfg.taskLoop_cinv)

theorem Cfg.tickFin_cinv (c : Cfg) (k : List Frame) (x : Nat) (old : Bool)
    (hk : noEff k = true) (h0 : Eff0 c.st) : CInv (c.tickFin k x old) := by
  unfold Cfg.tickFin; (try dsimp only); e5_eff
macro_rules | `(tactic| e5_eff1) => `(tactic| with_reducible apply Cfg.tickFin_cinv)

theorem Cfg.tickGen_cinv (c : Cfg) (k : List Frame) (x : Nat)
    (hk : noEff k = true) (h0 : Eff0 c.st) : CInv (c.tickGen k x) := by
  unfold Cfg.tickGen; (try dsimp only); e5_eff
macro_rules | `(tactic| e5_eff1) => `(tactic| with_reducible apply Cfg.tickGen_cinv)

theorem Cfg.run_cinv (c : Cfg) (k : List Frame) (x : Nat)
    (hk : noEff k = true) (h0 : Eff0 c.st) : CInv (c.run k x) := by
  unfold Cfg.run; (try dsimp only); e5_eff
macro_rules | `(tactic| e5_eff1) => `(tactic| with_reducible apply Cfg.run_cinv)

theorem Cfg.runLoop_cinv (c : Cfg) (k : List Frame) (x : Nat)
    (hk : noEff k = true) (h0 : Eff0 c.st) : CInv (c.runLoop k x) := by
  unfold Cfg.runLoop; (try dsimp only); e5_eff
macro_rules | `(tactic| e5_eff1) => `(tactic| with_reducible apply Cfg.runLoop_cinv)

theorem Cfg.runFin_cinv (c : Cfg) (k : List Frame) (x : Nat)
    (hk : noEff k = true) (h0 : Eff0 c.st) : CInv (c.runFin k x) := by
  unfold Cfg.runFin; (try dsimp only); e5_eff
macro_rules | `(tactic| e5_eff1) => `(tactic| with_reducible apply Cfg.runFin_cinv)

theorem Cfg.runCatchExn_cinv (c : Cfg) (k : List Frame) (x : Nat) (ex : Exn)
    (hk : noEff k = true) (h0 : Eff0 c.st) : CInv (c.runCatchExn k x ex) := by
  unfold Cfg.runCatchExn
  split
  · exact ⟨by simpa [noEff, Frame.e5_isEff] using hk, fun hne => absurd rfl hne, h0⟩
  · e5_eff
macro_rules | `(tactic| e5_eff1) => `(tactic| with_reducible apply Cfg.runCatchExn_cinv)

theorem Cfg.runRethrow_cinv (c : Cfg) (k : List Frame) (ex : Exn)
    (hk : noEff k = true) (h0 : Eff0 c.st) : CInv (c.runRethrow k ex) := by
  unfold Cfg.runRethrow; (try dsimp only); e5_eff
macro_rules | `(tactic| e5_eff1) => `(tactic| with_reducible apply Cfg.runRethrow_cinv)

theorem Cfg.stepGen_cinv (c : Cfg) (k : List Frame) (g : Nat)
    (hk : noEff k = true) (h0 : Eff0 c.st) : CInv (c.stepGen k g) := by
  unfold Cfg.stepGen
  dsimp only
  split
  · split
    · e5_eff
    · split
      all_goals first
        | (e5_eff; done)
        | (split
           · e5_eff
           · e5_eff
           · rename_i hf
             exact CInv.goto c k _ _ hk (noEff_cons_call _ _ _ _ _ hf rfl) (EffOk.actStep (h0.setGen _ _) _ _))
  · e5_eff
macro_rules | `(tactic| e5_eff1) => `(tactic| with_reducible apply Cfg.stepGen_cinv)

/-! ## the guard, the transition function, reachability -/

/-- What the accounting takes from the rest of the machine (two facts about the run that are not
    consequences of the accounting itself; both are stated with the ghost flag `selfDone`):

    * when `_dispatcher(e)` is entered for a cancelled or `complete`-requesting event, `e` is fresh:
      its own "done" has not happened and nothing is linked under it.  This is "every event object is
      fired, hence dispatched, once" (false for `Timer`, which fires one object again and again);
    * when `_eventDone(e)` is entered and goes through (`waitingHandlers = 0`) for a tracked event,
      `e`'s own "done" has not happened before: `_eventDone` goes through once per event.

    Proving them for every reachable configuration needs the queue invariant (an event id sits in at most
    one queue, once, and has not been dispatched) and the task / wait-state accounting of C06
    (`waitingHandlers` = number of live tasks of the event): they are outside this file. -/
def Guard (c : Cfg) : Prop :=
  c.exn = none →
    match c.stack with
    | .dispatcher _ e _ :: _ =>
      ((c.st.ev e).cancelled = true ∨ (c.st.ev e).complete = true) →
        (c.st.ev e).selfDone = false ∧ ∀ x, x ≠ e → (c.st.ev x).cause ≠ some e
    | .eventDone _ e _ :: _ =>
      (c.st.ev e).waiting = 0 → (c.st.ev e).cause ≠ none → (c.st.ev e).selfDone = false
    | _ => True

theorem step_cinv (c : Cfg) (h : CInv c) (hg : Guard c) : CInv (step c) := by
  cases hs : c.stack with
  | nil => rw [step_nil c hs]; exact h
  | cons f k =>
    have hk : noEff k = true := by have := h.tail; rw [hs] at this; exact this
    cases hx : c.exn with
    | some ex =>
      rw [step_cons_exn c f k ex hs hx]
      have hall : noEff (f :: k) = true := by
        have := h.exn (by rw [hx]; simp); rwa [hs] at this
      have h0 : Eff0 c.st := by
        have := h.acc; rw [hs, pendOf_noEff _ hall] at this; exact this
      cases f <;> (dsimp only [unwind]; e5_eff)
    | none =>
      rw [step_cons c f k hs hx]
      have he := h.acc
      rw [hs] at he
      have hg' := hg hx
      rw [hs] at hg'
      cases f <;> dsimp only [stepFrame]
      case effectDone r e a => exact Cfg.effectDone_cinv c k r e a hk hx he
      case eventDone r e err => exact Cfg.eventDone_cinv c k r e err hk hx he hg'
      case dispatcher r e rem => exact Cfg.dispatcher_cinv c k r e rem hk hx he hg'
      all_goals (have h0 : Eff0 c.st := he; e5_eff)

/-- reachable by guarded steps: `Reach` restricted to runs on which the guard holds whenever a step
    is taken -/
inductive ReachG (s0 : St) : Cfg → Prop
  | init (d : Nat) (tape : List Entry) (op : ExtOp) : ReachG s0 (startOf (envChange s0 d tape) op)
  | step {c : Cfg} : ReachG s0 c → Guard c → ReachG s0 (CV.Core.step c)
  | next {c : Cfg} (d : Nat) (tape : List Entry) (op : ExtOp) :
      ReachG s0 c → done c = true → ReachG s0 (startOf (envChange c.st d tape) op)

theorem ReachG.reach {s0 : St} {c : Cfg} (h : ReachG s0 c) : Reach s0 c := by
  induction h with
  | init d tape op => exact Reach.init d tape op
  | step _ _ ih => exact Reach.step ih
  | next d tape op _ hd ih => exact Reach.next d tape op ih hd

theorem ReachG.of_reach {s0 : St} (hG : ∀ c, Reach s0 c → Guard c) {c : Cfg} (h : Reach s0 c) :
    ReachG s0 c := by
  induction h with
  | init d tape op => exact ReachG.init d tape op
  | @step c hr ih => exact ReachG.step ih (hG c hr)
  | next d tape op _ hd ih => exact ReachG.next d tape op ih hd

/-- the initial states: no timers, no event is tracked -/
def InitEff (s : St) : Prop := s.timers = [] ∧ ∀ e, (s.ev e).cause = none

theorem EffOk.of_init (s : St) (h : InitEff s) : Eff0 s := by
  refine ⟨h.1, ?_, ?_, ?_⟩
  · intro x g hc; rw [h.2 x] at hc; cases hc
  · intro e hc; exact absurd (h.2 e) hc
  · intro e hc; exact absurd (h.2 e) hc

theorem CInv.start (s : St) (h : Eff0 s) (d : Nat) (tape : List Entry) (op : ExtOp) :
    CInv (startOf (envChange s d tape) op) := by
  cases op <;> exact ⟨rfl, fun hne => absurd rfl hne, h.congr rfl rfl⟩

theorem CInv.done_eff0 (c : Cfg) (h : CInv c) (hd : done c = true) : Eff0 c.st := by
  have hs : c.stack = [] := by
    unfold done at hd; cases hc : c.stack with
    | nil => rfl
    | cons f k => rw [hc] at hd; simp at hd
  have := h.acc
  rw [hs] at this
  exact this

theorem reachG_cinv {s0 : St} (h0 : InitEff s0) : ∀ c, ReachG s0 c → CInv c := by
  intro c h
  induction h with
  | init d tape op => exact CInv.start s0 (EffOk.of_init s0 h0) d tape op
  | step _ hg ih => exact step_cinv _ ih hg
  | next d tape op _ hd ih => exact CInv.start _ (CInv.done_eff0 _ ih hd) d tape op

/-! ## consequences -/

/-- at the iteration of `_effectDone` that takes `e` to 0 (and fires `complete` if `e` wants it):
    `e`'s own "done" has happened and nothing is linked under `e` any more -/
theorem CInv.drained {c : Cfg} (h : CInv c) {r e : Nat} {a : Bool} {k : List Frame}
    (hs : c.stack = .effectDone r e a :: k) (htr : (c.st.ev e).cause ≠ none)
    (hz : ¬ ((c.st.ev e).effects - 1 > 0)) :
    (c.st.ev e).selfDone = true ∧ ∀ x, x ≠ e → (c.st.ev x).cause ≠ some e := by
  have he := h.acc
  rw [hs] at he
  have hc := he.count e htr
  have hp : pendOf (Frame.effectDone r e a :: k) = some e := rfl
  rw [hp] at hc
  simp only [if_true] at hc
  constructor
  · cases hsd : (c.st.ev e).selfDone with
    | true => rfl
    | false => rw [hsd] at hc; simp at hc; omega
  · apply St.e5_no_kids_of_zero
    cases hsd : (c.st.ev e).selfDone <;> rw [hsd] at hc <;> simp at hc <;> omega

theorem Cfg.effectDone_st (c : Cfg) (k : List Frame) (r e : Nat) (a : Bool) :
    (c.effectDone k r e a).st = (c.st.effectDone1 r e a).2 := by
  unfold Cfg.effectDone; split <;> rfl

theorem _root_.CV.Core.St.e5_ev_clear (s : St) (e : Nat) (h : e < s.evs.length) :
    ((s.modEv e fun x => { x with cause := none, effects := 0 }).ev e).cause = none ∧
      ((s.modEv e fun x => { x with cause := none, effects := 0 }).ev e).effects = 0 := by
  rw [St.e5_ev_modEv]; simp [h]

/-- the state after the iteration of `_effectDone` that takes `e` to 0: `e` is not tracked any more -/
theorem _root_.CV.Core.St.e5_effectDone1_cleared (t : St) (r e P : Nat) (a : Bool) (hc : (t.ev e).cause = some P)
    (hz : ¬ ((t.ev e).effects - 1 > 0)) :
    (((t.effectDone1 r e a).2).ev e).cause = none ∧ (((t.effectDone1 r e a).2).ev e).effects = 0 := by
  have hlt := t.e5_lt_of_cause e P hc
  unfold St.effectDone1
  dsimp only
  rw [hc]
  dsimp only
  rw [if_neg hz]
  have hlen : e < (if ((t.ev e).complete && a) = true
          then (t.modEv e fun x => { x with effects := (t.ev e).effects - 1 }).fireChild r e sfxComplete
                ((t.ev e).completeChans.getD (t.ev e).chans)
          else t.modEv e fun x => { x with effects := (t.ev e).effects - 1 }).evs.length := by
    split
    · have := (St.Le.fireChild (St.Le.refl (t.modEv e fun x => { x with effects := (t.ev e).effects - 1 }))
        r e sfxComplete ((t.ev e).completeChans.getD (t.ev e).chans)).evs
      simp only [St.e5_evs_length_modEv] at this
      omega
    · simpa using hlt
  split <;> exact St.e5_ev_clear _ _ hlen

/-- events under `e`: the reflexive-transitive closure of the `cause` links -/
inductive Under (s : St) : Nat → Nat → Prop
  | refl (e : Nat) : Under s e e
  | up {x h e : Nat} : Under s x h → (s.ev h).cause = some e → h ≠ e → Under s x e

/-- Nothing is stuck: under every tracked event there is a tracked event (possibly itself) whose own
    "done" is still to come.  (No pending decrement: the stack has no `.effectDone` on top.) -/
theorem EffOk.exists_undone {s : St} (h : Eff0 s) : ∀ n e, s.evs.length - e ≤ n → (s.ev e).cause ≠ none →
    ∃ x, Under s x e ∧ (s.ev x).cause ≠ none ∧ (s.ev x).selfDone = false := by
  intro n
  induction n with
  | zero =>
    intro e hn htr
    have := s.e5_lt_of_tracked e htr
    omega
  | succ n ih =>
    intro e hn htr
    cases hsd : (s.ev e).selfDone with
    | false => exact ⟨e, Under.refl e, htr, hsd⟩
    | true =>
      have hc := h.count e htr
      rw [hsd] at hc
      simp at hc
      have hp : 1 ≤ (s.ev e).effects := by
        rcases h.pos e htr with h1 | h1
        · exact h1
        · cases h1
      obtain ⟨x, hxe, hxl, hxc⟩ := s.e5_kids_pos e (by omega)
      have hle := h.causeLe x e hxc
      have hxt : (s.ev x).cause ≠ none := by rw [hxc]; simp
      obtain ⟨y, hy, hyt, hyd⟩ := ih x (by omega) hxt
      exact ⟨y, Under.up hy hxc hxe, hyt, hyd⟩

/-! ## cancelled events -/
theorem _root_.CV.Core.St.e5_effectDone1_silent (t : St) (r e P : Nat) (hc : (t.ev e).cause = some P)
    (heff : (t.ev e).effects = 1) :
    t.effectDone1 r e false = (if P = e then none else some P,
      (t.modEv e fun x => { x with effects := 0 }).modEv e fun x => { x with cause := none, effects := 0 }) := by
  unfold St.effectDone1
  dsimp only
  rw [hc]
  dsimp only
  rw [heff]
  by_cases hP : P = e <;> simp [hP]

theorem Cfg.dispatcher_cancelled (c : Cfg) (k : List Frame) (r e rem : Nat)
    (hcan : (c.st.ev e).cancelled = true) :
    c.dispatcher k r e rem
      = c.goto k ((c.st.logE (.disp e)).modEv e fun x => { x with selfDone := true }) [.effectDone r e false] := by
  have hcan' : ((c.st.logE (.disp e)).ev e).cancelled = true := hcan
  unfold Cfg.dispatcher St.dispatchPre
  dsimp only
  rw [if_pos hcan']

/-- a cancelled event that is linked under `P` is released at its dispatch: no handler runs, no
    `complete` is announced for it, its link is cleared and `P`'s decrement is pending -/
theorem CInv.cancelled_release {c : Cfg} (h : CInv c) (hg : Guard c) {r e rem P : Nat} {k : List Frame}
    (hs : c.stack = .dispatcher r e rem :: k) (hx : c.exn = none)
    (hcan : (c.st.ev e).cancelled = true) (hc : (c.st.ev e).cause = some P) :
    (step c).stack = .effectDone r e false :: k ∧
    ((step (step c)).st.ev e).cause = none ∧
    (step (step c)).st.evs.length = c.st.evs.length ∧
    (step (step c)).stack = (if P = e then k else .effectDone r P true :: k) := by
  have hlt := c.st.e5_lt_of_cause e P hc
  have htr : (c.st.ev e).cause ≠ none := by rw [hc]; simp
  -- the guard: `e` is fresh, hence sits at count 1
  have hgv := hg hx
  rw [hs] at hgv
  obtain ⟨hsd, hk0⟩ := hgv (Or.inl hcan)
  have he := h.acc
  rw [hs] at he
  have hcnt := he.count e htr
  have hp : pendOf (Frame.dispatcher r e rem :: k) = none := rfl
  rw [hp, hsd, St.e5_kids_eq_zero _ _ hk0] at hcnt
  simp at hcnt
  -- first step
  have h1 : step c = c.goto k ((c.st.logE (.disp e)).modEv e fun x => { x with selfDone := true })
      [.effectDone r e false] := by
    rw [step_cons c _ k hs hx]
    exact Cfg.dispatcher_cancelled c k r e rem hcan
  -- second step
  have hc1 : (((c.st.logE (.disp e)).modEv e fun x => { x with selfDone := true }).ev e).cause = some P :=
    (St.e5_ev_modEv_field (g := fun x => x.cause) _ _ _ _ (by intro _; rfl)).trans hc
  have he1 : (((c.st.logE (.disp e)).modEv e fun x => { x with selfDone := true }).ev e).effects = 1 :=
    (St.e5_ev_modEv_field (g := fun x => x.effects) _ _ _ _ (by intro _; rfl)).trans hcnt
  have h2 : step (step c) = Cfg.effectDone (step c) k r e false := by
    rw [step_cons (step c) (.effectDone r e false) k (by rw [h1]; rfl) (by rw [h1]; exact hx)]
    rfl
  refine ⟨by rw [h1]; rfl, ?_, ?_, ?_⟩
  · rw [h2, Cfg.effectDone_st, h1]
    simp only [Cfg.goto_st]
    rw [St.e5_effectDone1_silent _ r e P hc1 he1]
    exact (St.e5_ev_clear _ e (by simpa [St.logE] using hlt)).1
  · rw [h2, Cfg.effectDone_st, h1]
    simp only [Cfg.goto_st]
    rw [St.e5_effectDone1_silent _ r e P hc1 he1]
    simp [St.logE]
  · rw [h2, h1]
    unfold Cfg.effectDone
    simp only [Cfg.goto_st]
    rw [St.e5_effectDone1_silent _ r e P hc1 he1]
    by_cases hP : P = e <;> simp [hP, Cfg.goto, Cfg.pop]


/-! ## who changes `cause`: only the event's own dispatch and its own `_effectDone` iteration

`CS q s t`: `t` is a later state than `s` in which every event of `s` - except `q` - has the `cause` it
had in `s` (and there are still no timers).  Same pattern as `St.Le`. -/

structure CS (q : Option Nat) (s t : St) : Prop where
  timers : t.timers = []
  len : s.evs.length ≤ t.evs.length
  cause : ∀ y, y < s.evs.length → some y ≠ q → (t.ev y).cause = (s.ev y).cause

namespace CS
variable {q : Option Nat} {s t : St}

theorem refl (h : s.timers = []) : CS q s s := ⟨h, Nat.le_refl _, fun _ _ _ => rfl⟩

theorem modComp (h : CS q s t) (c : Nat) (f : Comp → Comp) : CS q s (t.modComp c f) := ⟨h.timers, h.len, h.cause⟩
theorem modWait (h : CS q s t) (w : Nat) (f : WaitSt → WaitSt) : CS q s (t.modWait w f) := ⟨h.timers, h.len, h.cause⟩
theorem setGen (h : CS q s t) (g : Nat) (x : GenRec) : CS q s (t.setGen g x) := ⟨h.timers, h.len, h.cause⟩
theorem logE (h : CS q s t) (x : Entry) : CS q s (t.logE x) := ⟨h.timers, h.len, h.cause⟩
theorem addH (h : CS q s t) (x : Handler) : CS q s (t.addH x) := ⟨h.timers, h.len, h.cause⟩
theorem addGen (h : CS q s t) (x : GenRec) : CS q s (t.addGen x) := ⟨h.timers, h.len, h.cause⟩
theorem addWait (h : CS q s t) (x : WaitSt) : CS q s (t.addWait x) := ⟨h.timers, h.len, h.cause⟩
theorem tick1 (h : CS q s t) (d : Int) : CS q s (t.tick1 d) := ⟨h.timers, h.len, h.cause⟩
theorem modTimer (h : CS q s t) (i : Nat) (f : TimerSt → TimerSt) : CS q s (t.modTimer i f) :=
  ⟨by simp [St.modTimer, h.timers], h.len, h.cause⟩

theorem modEv (h : CS q s t) (e : Nat) (f : Ev → Ev) (hf : ∀ x, (f x).cause = x.cause) :
    CS q s (t.modEv e f) :=
  ⟨h.timers, by simpa using h.len, fun y hy hq =>
    (St.e5_ev_modEv_field (g := fun x => x.cause) t e y f hf).trans (h.cause y hy hq)⟩

/-- the excepted event may be changed at will -/
theorem modEv_at {e : Nat} (h : CS (some e) s t) (f : Ev → Ev) : CS (some e) s (t.modEv e f) :=
  ⟨h.timers, by simpa using h.len, fun y hy hq => by
    rw [St.e5_ev_modEv_ne _ _ _ _ (fun a => hq (by rw [a]))]; exact h.cause y hy hq⟩

theorem addEv (h : CS q s t) (v : Ev) : CS q s (t.addEv v) :=
  ⟨h.timers, by have := h.len; simp; omega, fun y hy hq => by
    rw [St.e5_ev_addEv, if_neg (by have := h.len; omega)]; exact h.cause y hy hq⟩

/-- a new event is fired: the rows of the old events keep their cause -/
theorem fireNew (h : CS q s t) (self : Nat) (v : Ev) (chans : List Chan) (prio : Int) :
    CS q s ((t.addEv v).fireRaw self t.evs.length chans prio) := by
  have hle := St.Le.fireRaw (St.Le.refl (t.addEv v)) self t.evs.length chans prio
  refine ⟨?_, ?_, ?_⟩
  · have := hle.timers
    have h0 : (t.addEv v).timers = [] := h.timers
    rw [h0] at this
    exact List.eq_nil_of_length_eq_zero (by simpa using this)
  · have := hle.evs; have := h.len; simp at *; omega
  · intro y hy hq
    have hne : y ≠ t.evs.length := by have := h.len; omega
    rw [(St.e5_fireRaw_old _ _ _ y _ _ hne).1, St.e5_ev_addEv, if_neg hne]
    exact h.cause y hy hq

theorem fireChild (h : CS q s t) (self p sfx : Nat) (chans : List Chan) :
    CS q s (t.fireChild self p sfx chans) := by
  unfold St.fireChild St.childEv; exact h.fireNew _ _ _ _

theorem fireTmplEv (h : CS q s t) (self : Nat) (v : Ev) (target : Option Chan) (prio : Int) :
    CS q s (t.fireTmplEv self v target prio) := by
  unfold St.fireTmplEv; exact h.fireNew _ _ _ _

theorem timerTick (h : CS q s t) (i e : Nat) : CS q s (t.timerTick i e) := by
  unfold St.timerTick
  simp only [h.timers, List.getElem?_nil]
  exact h

end CS

syntax "e5_cs1" : tactic
macro_rules | `(tactic| e5_cs1) => `(tactic| split)
macro_rules | `(tactic| e5_cs1) => `(tactic| with_reducible apply CS.tick1)
macro_rules | `(tactic| e5_cs1) => `(tactic| with_reducible apply CS.addWait)
macro_rules | `(tactic| e5_cs1) => `(tactic| with_reducible apply CS.addGen)
macro_rules | `(tactic| e5_cs1) => `(tactic| with_reducible apply CS.addH)
macro_rules | `(tactic| e5_cs1) => `(tactic| with_reducible apply CS.addEv)
macro_rules | `(tactic| e5_cs1) => `(tactic| with_reducible apply CS.logE)
macro_rules | `(tactic| e5_cs1) => `(tactic| with_reducible apply CS.setGen)
macro_rules | `(tactic| e5_cs1) => `(tactic| with_reducible apply CS.modTimer)
macro_rules | `(tactic| e5_cs1) => `(tactic| with_reducible apply CS.modWait)
macro_rules | `(tactic| e5_cs1) => `(tactic| with_reducible apply CS.modComp)
macro_rules | `(tactic| e5_cs1) => `(tactic| with_reducible refine CS.modEv ?_ _ _ (by intro x; first | rfl | (split <;> rfl)))
macro_rules | `(tactic| e5_cs1) => `(tactic| with_reducible apply CS.modEv_at)
macro_rules | `(tactic| e5_cs1) => `(tactic| with_reducible apply CS.timerTick)
macro_rules | `(tactic| e5_cs1) => `(tactic| with_reducible apply CS.fireChild)
macro_rules | `(tactic| e5_cs1) => `(tactic| with_reducible apply CS.fireTmplEv)
macro_rules | `(tactic| e5_cs1) => `(tactic| with_reducible apply CS.fireNew)
macro_rules | `(tactic| e5_cs1) => `(tactic| with_reducible exact CS.refl (by assumption))
macro_rules | `(tactic| e5_cs1) => `(tactic| with_reducible assumption)

macro "e5_cs" : tactic => `(tactic| repeat' e5_cs1)
macro "e5_cs_unfold" ids:ident+ : tactic => `(tactic| (unfold $[$ids]*; (try dsimp only); e5_cs))

theorem CS.foldl {q : Option Nat} {s t : St} {α} (g : St → α → St) (hg : ∀ a x, CS q s a → CS q s (g a x))
    (l : List α) (h : CS q s t) : CS q s (l.foldl g t) := by
  induction l generalizing t with
  | nil => exact h
  | cons x l ih => exact ih (hg _ _ h)

theorem CS.addHandler {q : Option Nat} {s t : St} (h : CS q s t) (x : Nat) : CS q s (t.addHandler x) := by
  unfold St.addHandler
  dsimp only
  apply CS.modComp
  split
  · e5_cs
  · split
    · e5_cs
    · exact CS.foldl _ (fun a n ha => ha.modComp _ _) _ h
macro_rules | `(tactic| e5_cs1) => `(tactic| with_reducible apply CS.addHandler)

theorem CS.removeHandler {q : Option Nat} {s t : St} (h : CS q s t) (x : Nat) (n : Option Name) :
    CS q s ((t.removeHandler x n).2) := by
  e5_cs_unfold St.removeHandler
macro_rules | `(tactic| e5_cs1) => `(tactic| with_reducible apply CS.removeHandler)

theorem CS.inform {q : Option Nat} {s t : St} (h : CS q s t) (e : Nat) (force : Bool) :
    CS q s (t.inform e force) := by
  e5_cs_unfold St.inform
macro_rules | `(tactic| e5_cs1) => `(tactic| with_reducible apply CS.inform)

theorem CS.setValue {q : Option Nat} {s t : St} (h : CS q s t) (e : Nat) (x : VItem) :
    CS q s (t.setValue e x) := by
  e5_cs_unfold St.setValue
macro_rules | `(tactic| e5_cs1) => `(tactic| with_reducible apply CS.setValue)

theorem CS.effectDone1 {s t : St} (r e : Nat) (h : CS (some e) s t) (announce : Bool) :
    CS (some e) s ((t.effectDone1 r e announce).2) := by
  e5_cs_unfold St.effectDone1
macro_rules | `(tactic| e5_cs1) => `(tactic| with_reducible apply CS.effectDone1)

theorem CS.eventDonePre {q : Option Nat} {s t : St} (h : CS q s t) (r e : Nat) (err : Bool) :
    CS q s ((t.eventDonePre r e err).2) := by
  e5_cs_unfold St.eventDonePre
macro_rules | `(tactic| e5_cs1) => `(tactic| with_reducible apply CS.eventDonePre)

theorem CS.registerTask {q : Option Nat} {s t : St} (h : CS q s t) (c : Nat) (x : Task) :
    CS q s (t.registerTask c x) := by
  e5_cs_unfold St.registerTask
macro_rules | `(tactic| e5_cs1) => `(tactic| with_reducible apply CS.registerTask)

theorem CS.unregisterTask {q : Option Nat} {s t : St} (h : CS q s t) (c : Nat) (x : Task) :
    CS q s (t.unregisterTask c x) := by
  e5_cs_unfold St.unregisterTask
macro_rules | `(tactic| e5_cs1) => `(tactic| with_reducible apply CS.unregisterTask)

theorem CS.reduceTimeLeft {q : Option Nat} {s t : St} (h : CS q s t) (e : Nat) (d : Int) :
    CS q s (t.reduceTimeLeft e d) := by
  e5_cs_unfold St.reduceTimeLeft
macro_rules | `(tactic| e5_cs1) => `(tactic| with_reducible apply CS.reduceTimeLeft)

theorem CS.registerPre {q : Option Nat} {s t : St} (h : CS q s t) (c p : Nat) :
    CS q s ((t.registerPre c p).2) := by
  e5_cs_unfold St.registerPre
macro_rules | `(tactic| e5_cs1) => `(tactic| with_reducible apply CS.registerPre)

theorem CS.registerFin {q : Option Nat} {s t : St} (h : CS q s t) (c : Nat) :
    CS q s (t.registerFin c) := by
  e5_cs_unfold St.registerFin
macro_rules | `(tactic| e5_cs1) => `(tactic| with_reducible apply CS.registerFin)

theorem CS.unregister {q : Option Nat} {s t : St} (h : CS q s t) (c : Nat) :
    CS q s (t.unregister c) := by
  e5_cs_unfold St.unregister
macro_rules | `(tactic| e5_cs1) => `(tactic| with_reducible apply CS.unregister)

theorem CS.prepUnregPre {q : Option Nat} {s t : St} (h : CS q s t) (c : Nat) :
    CS q s (t.prepUnregPre c) := by
  e5_cs_unfold St.prepUnregPre
macro_rules | `(tactic| e5_cs1) => `(tactic| with_reducible apply CS.prepUnregPre)

theorem CS.prepUnregFin {q : Option Nat} {s t : St} (h : CS q s t) (c : Nat) :
    CS q s (t.prepUnregFin c) := by
  e5_cs_unfold St.prepUnregFin
macro_rules | `(tactic| e5_cs1) => `(tactic| with_reducible apply CS.prepUnregFin)

theorem CS.actFire {q : Option Nat} {s t : St} (h : CS q s t) (self i : Nat) (target : Option Chan) (prio : Int) (cancel : Bool) :
    CS q s (t.actFire self i target prio cancel) := by
  e5_cs_unfold St.actFire
macro_rules | `(tactic| e5_cs1) => `(tactic| with_reducible apply CS.actFire)

theorem CS.actStopEv {q : Option Nat} {s t : St} (h : CS q s t) (ev : Option Nat) :
    CS q s (t.actStopEv ev) := by
  e5_cs_unfold St.actStopEv
macro_rules | `(tactic| e5_cs1) => `(tactic| with_reducible apply CS.actStopEv)

theorem CS.timerReset {q : Option Nat} {s t : St} (h : CS q s t) (i : Nat) :
    CS q s (t.timerReset i) := by
  e5_cs_unfold St.timerReset
macro_rules | `(tactic| e5_cs1) => `(tactic| with_reducible apply CS.timerReset)

theorem CS.timerCreate {q : Option Nat} {s t : St} (h : CS q s t) (i : Nat) :
    CS q s (t.timerCreate i) := by
  e5_cs_unfold St.timerCreate
macro_rules | `(tactic| e5_cs1) => `(tactic| with_reducible apply CS.timerCreate)

theorem CS.startWait {q : Option Nat} {s t : St} (h : CS q s t) (w : Nat) :
    CS q s (t.startWait w) := by
  e5_cs_unfold St.startWait
macro_rules | `(tactic| e5_cs1) => `(tactic| with_reducible apply CS.startWait)

/-! ## pure pieces of `Step.lean` -/

theorem CS.stopBegin {q : Option Nat} {s t : St} (h : CS q s t) (c : Nat) :
    CS q s (t.stopBegin c) := by
  e5_cs_unfold St.stopBegin
macro_rules | `(tactic| e5_cs1) => `(tactic| with_reducible apply CS.stopBegin)

theorem CS.stopSetCode {q : Option Nat} {s t : St} (h : CS q s t) (r : Nat) (code : Code) :
    CS q s (t.stopSetCode r code) := by
  e5_cs_unfold St.stopSetCode
macro_rules | `(tactic| e5_cs1) => `(tactic| with_reducible apply CS.stopSetCode)

theorem CS.genCall {q : Option Nat} {s t : St} (h : CS q s t) (owner i : Nat) (target : Option Chan) (timeout : Option Nat) :
    CS q s (t.genCall owner i target timeout) := by
  e5_cs_unfold St.genCall
macro_rules | `(tactic| e5_cs1) => `(tactic| with_reducible apply CS.genCall)

theorem CS.genWait {q : Option Nat} {s t : St} (h : CS q s t) (owner : Nat) (name : Name) (target : Option Chan) (timeout : Option Nat) :
    CS q s (t.genWait owner name target timeout) := by
  e5_cs_unfold St.genWait
macro_rules | `(tactic| e5_cs1) => `(tactic| with_reducible apply CS.genWait)

theorem CS.resumeGenPre {q : Option Nat} {s t : St} (h : CS q s t) (g : Nat) (silent : Bool) :
    CS q s (t.resumeGenPre g silent) := by
  e5_cs_unfold St.resumeGenPre
macro_rules | `(tactic| e5_cs1) => `(tactic| with_reducible apply CS.resumeGenPre)

theorem CS.stopIteration {q : Option Nat} {s t : St} (h : CS q s t) (r : Nat) (x : Task) :
    CS q s ((t.stopIteration r x).2) := by
  e5_cs_unfold St.stopIteration
macro_rules | `(tactic| e5_cs1) => `(tactic| with_reducible apply CS.stopIteration)

theorem CS.fireException {q : Option Nat} {s t : St} (h : CS q s t) (r e : Nat) :
    CS q s (t.fireException r e) := by
  e5_cs_unfold St.fireException
macro_rules | `(tactic| e5_cs1) => `(tactic| with_reducible apply CS.fireException)

theorem CS.errorBranch {q : Option Nat} {s t : St} (h : CS q s t) (r : Nat) (x : Task) (resumed : Bool) :
    CS q s ((t.errorBranch r x resumed).2) := by
  e5_cs_unfold St.errorBranch
macro_rules | `(tactic| e5_cs1) => `(tactic| with_reducible apply CS.errorBranch)

theorem CS.ownSub {q : Option Nat} {s t : St} (h : CS q s t) (r : Nat) (x : Task) (w : Nat) :
    CS q s (t.ownSub r x w) := by
  e5_cs_unfold St.ownSub
macro_rules | `(tactic| e5_cs1) => `(tactic| with_reducible apply CS.ownSub)

theorem CS.setValueOpt {q : Option Nat} {s t : St} (h : CS q s t) (e : Nat) (v : Option Nat) :
    CS q s (t.setValueOpt e v) := by
  e5_cs_unfold St.setValueOpt
macro_rules | `(tactic| e5_cs1) => `(tactic| with_reducible apply CS.setValueOpt)

theorem CS.parentSub {q : Option Nat} {s t : St} (h : CS q s t) (r : Nat) (x : Task) (p w2 : Nat) (viaThrow : Bool) :
    CS q s (t.parentSub r x p w2 viaThrow) := by
  e5_cs_unfold St.parentSub
macro_rules | `(tactic| e5_cs1) => `(tactic| with_reducible apply CS.parentSub)

theorem CS.parentPlain {q : Option Nat} {s t : St} (h : CS q s t) (r : Nat) (x : Task) (p : Nat) (v : Option Nat) (viaThrow : Bool) :
    CS q s (t.parentPlain r x p v viaThrow) := by
  e5_cs_unfold St.parentPlain
macro_rules | `(tactic| e5_cs1) => `(tactic| with_reducible apply CS.parentPlain)

theorem CS.onWaitEvent {q : Option Nat} {s t : St} (h : CS q s t) (w e : Nat) :
    CS q s ((t.onWaitEvent w e).2) := by
  e5_cs_unfold St.onWaitEvent
macro_rules | `(tactic| e5_cs1) => `(tactic| with_reducible apply CS.onWaitEvent)

theorem CS.onWaitDone {q : Option Nat} {s t : St} (h : CS q s t) (w e : Nat) :
    CS q s ((t.onWaitDone w e).2) := by
  e5_cs_unfold St.onWaitDone
macro_rules | `(tactic| e5_cs1) => `(tactic| with_reducible apply CS.onWaitDone)

theorem CS.onWaitTick {q : Option Nat} {s t : St} (h : CS q s t) (w : Nat) :
    CS q s ((t.onWaitTick w).2) := by
  e5_cs_unfold St.onWaitTick
macro_rules | `(tactic| e5_cs1) => `(tactic| with_reducible apply CS.onWaitTick)

theorem CS.onFallbackGE {q : Option Nat} {s t : St} (h : CS q s t) (e : Nat) :
    CS q s ((t.onFallbackGE e).2) := by
  e5_cs_unfold St.onFallbackGE
macro_rules | `(tactic| e5_cs1) => `(tactic| with_reducible apply CS.onFallbackGE)

theorem CS.computeHandlers {q : Option Nat} {s t : St} (h : CS q s t) (r : Nat) (name : Name) (chans : List Chan) :
    CS q s ((t.computeHandlers r name chans).2) := by
  e5_cs_unfold St.computeHandlers
macro_rules | `(tactic| e5_cs1) => `(tactic| with_reducible apply CS.computeHandlers)

theorem CS.dispComplete {s t : St} (e : Nat) (h : CS (some e) s t) (ev : Ev) :
    CS (some e) s (t.dispComplete e ev) := by
  e5_cs_unfold St.dispComplete
macro_rules | `(tactic| e5_cs1) => `(tactic| with_reducible apply CS.dispComplete)

theorem CS.cacheRefresh {q : Option Nat} {s t : St} (h : CS q s t) (r : Nat) :
    CS q s (t.cacheRefresh r) := by
  e5_cs_unfold St.cacheRefresh
macro_rules | `(tactic| e5_cs1) => `(tactic| with_reducible apply CS.cacheRefresh)

theorem CS.lookupHandlers {q : Option Nat} {s t : St} (h : CS q s t) (r : Nat) (name : Name) (chans : List Chan) :
    CS q s ((t.lookupHandlers r name chans).2) := by
  e5_cs_unfold St.lookupHandlers
macro_rules | `(tactic| e5_cs1) => `(tactic| with_reducible apply CS.lookupHandlers)

theorem CS.dispGE {q : Option Nat} {s t : St} (h : CS q s t) (r e remaining : Nat) (name : Name) :
    CS q s (t.dispGE r e remaining name) := by
  e5_cs_unfold St.dispGE
macro_rules | `(tactic| e5_cs1) => `(tactic| with_reducible apply CS.dispGE)

theorem CS.dispatchPre {s t : St} (r e remaining : Nat) (h : CS (some e) s t) :
    CS (some e) s ((t.dispatchPre r e remaining).2) := by
  e5_cs_unfold St.dispatchPre
macro_rules | `(tactic| e5_cs1) => `(tactic| with_reducible apply CS.dispatchPre)

theorem CS.handlerRaised {q : Option Nat} {s t : St} (h : CS q s t) (r e : Nat) :
    CS q s (t.handlerRaised r e) := by
  e5_cs_unfold St.handlerRaised
macro_rules | `(tactic| e5_cs1) => `(tactic| with_reducible apply CS.handlerRaised)

theorem CS.applyValue {q : Option Nat} {s t : St} (h : CS q s t) (r e : Nat) (value : Outcome) :
    CS q s (t.applyValue r e value) := by
  e5_cs_unfold St.applyValue
macro_rules | `(tactic| e5_cs1) => `(tactic| with_reducible apply CS.applyValue)

theorem CS.geTasksCheck {q : Option Nat} {s t : St} (h : CS q s t) (r e : Nat) :
    CS q s (t.geTasksCheck r e) := by
  e5_cs_unfold St.geTasksCheck
macro_rules | `(tactic| e5_cs1) => `(tactic| with_reducible apply CS.geTasksCheck)

theorem CS.flushBegin {q : Option Nat} {s t : St} (h : CS q s t) (r : Nat) :
    CS q s (t.flushBegin r) := by
  e5_cs_unfold St.flushBegin
macro_rules | `(tactic| e5_cs1) => `(tactic| with_reducible apply CS.flushBegin)

theorem CS.tickGenerate {q : Option Nat} {s t : St} (h : CS q s t) (c : Nat) :
    CS q s (t.tickGenerate c) := by
  e5_cs_unfold St.tickGenerate
macro_rules | `(tactic| e5_cs1) => `(tactic| with_reducible apply CS.tickGenerate)

theorem CS.runBegin {q : Option Nat} {s t : St} (h : CS q s t) (c : Nat) :
    CS q s (t.runBegin c) := by
  e5_cs_unfold St.runBegin
macro_rules | `(tactic| e5_cs1) => `(tactic| with_reducible apply CS.runBegin)

theorem CS.runEnd {q : Option Nat} {s t : St} (h : CS q s t) (c : Nat) :
    CS q s ((t.runEnd c).2) := by
  e5_cs_unfold St.runEnd
macro_rules | `(tactic| e5_cs1) => `(tactic| with_reducible apply CS.runEnd)

theorem CS.actStep {q : Option Nat} {s t : St} (h : CS q s t) (ctx : HCtx) (a : Act) : CS q s (actStep t ctx a).st := by
  cases a <;> (unfold CV.Core.actStep; (try dsimp only); e5_cs)
macro_rules | `(tactic| e5_cs1) => `(tactic| with_reducible apply CS.actStep)

theorem CS.updateRootAll {q : Option Nat} {s : St} : ∀ (fuel : Nat) (todo : List Nat) (root : Nat) (t : St),
    CS q s t → CS q s (St.updateRootAll fuel todo root t) := by
  intro fuel
  induction fuel with
  | zero => intro todo root t h; simpa [St.updateRootAll] using h
  | succ n ih =>
    intro todo root t h
    cases todo with
    | nil => simpa [St.updateRootAll] using h
    | cons x rest =>
      simp only [St.updateRootAll]
      apply ih
      e5_cs
macro_rules | `(tactic| e5_cs1) => `(tactic| with_reducible apply CS.updateRootAll)

macro_rules
  | `(tactic| e5_cs1) => `(tactic| simp only [Cfg.pop_st, Cfg.popRet_st, Cfg.raise_st, Cfg.goto_st])

theorem Cfg.effectDone_cs (c : Cfg) (k : List Frame) (r e : Nat) (announce : Bool)
    (ht : c.st.timers = []) : CS (some e) c.st (c.effectDone k r e announce).st := by
  unfold Cfg.effectDone; (try dsimp only); e5_cs
macro_rules | `(tactic| e5_cs1) => `(tactic| with_reducible apply Cfg.effectDone_cs)

theorem Cfg.eventDone_cs (c : Cfg) (k : List Frame) (r e : Nat) (err : Bool)
    (ht : c.st.timers = []) : CS none c.st (c.eventDone k r e err).st := by
  unfold Cfg.eventDone; (try dsimp only); e5_cs
macro_rules | `(tactic| e5_cs1) => `(tactic| with_reducible apply Cfg.eventDone_cs)

theorem Cfg.updateRoot_cs (c : Cfg) (k : List Frame) (todo : List Nat) (root : Nat)
    (ht : c.st.timers = []) : CS none c.st (c.updateRoot k todo root).st := by
  unfold Cfg.updateRoot; (try dsimp only)
  simp only [Cfg.pop_st]
  exact CS.updateRootAll _ _ _ _ (CS.refl ht)
macro_rules | `(tactic| e5_cs1) => `(tactic| with_reducible apply Cfg.updateRoot_cs)

theorem Cfg.register_cs (c : Cfg) (k : List Frame) (x p : Nat)
    (ht : c.st.timers = []) : CS none c.st (c.register k x p).st := by
  unfold Cfg.register; (try dsimp only); e5_cs
macro_rules | `(tactic| e5_cs1) => `(tactic| with_reducible apply Cfg.register_cs)

theorem Cfg.registerFin_cs (c : Cfg) (k : List Frame) (x : Nat)
    (ht : c.st.timers = []) : CS none c.st (c.registerFin k x).st := by
  unfold Cfg.registerFin; (try dsimp only); e5_cs
macro_rules | `(tactic| e5_cs1) => `(tactic| with_reducible apply Cfg.registerFin_cs)

theorem Cfg.prepUnregFin_cs (c : Cfg) (k : List Frame) (x : Nat)
    (ht : c.st.timers = []) : CS none c.st (c.prepUnregFin k x).st := by
  unfold Cfg.prepUnregFin; (try dsimp only); e5_cs
macro_rules | `(tactic| e5_cs1) => `(tactic| with_reducible apply Cfg.prepUnregFin_cs)

theorem Cfg.stopMgr_cs (c : Cfg) (k : List Frame) (x : Nat) (code : Code)
    (ht : c.st.timers = []) : CS none c.st (c.stopMgr k x code).st := by
  unfold Cfg.stopMgr; (try dsimp only); e5_cs
macro_rules | `(tactic| e5_cs1) => `(tactic| with_reducible apply Cfg.stopMgr_cs)

theorem Cfg.ticks_cs (c : Cfg) (k : List Frame) (x n : Nat)
    (ht : c.st.timers = []) : CS none c.st (c.ticks k x n).st := by
  unfold Cfg.ticks; (try dsimp only); e5_cs
macro_rules | `(tactic| e5_cs1) => `(tactic| with_reducible apply Cfg.ticks_cs)

theorem Cfg.stopFin_cs (c : Cfg) (k : List Frame) (code : Code)
    (ht : c.st.timers = []) : CS none c.st (c.stopFin k code).st := by
  unfold Cfg.stopFin; (try dsimp only); e5_cs
macro_rules | `(tactic| e5_cs1) => `(tactic| with_reducible apply Cfg.stopFin_cs)

theorem Cfg.timerNew_cs (c : Cfg) (k : List Frame) (i : Nat)
    (ht : c.st.timers = []) : CS none c.st (c.timerNew k i).st := by
  unfold Cfg.timerNew; (try dsimp only); e5_cs
macro_rules | `(tactic| e5_cs1) => `(tactic| with_reducible apply Cfg.timerNew_cs)

theorem Cfg.acts_cs (c : Cfg) (k : List Frame) (ctx : HCtx) (prog : Prog)
    (ht : c.st.timers = []) : CS none c.st (c.acts k ctx prog).st := by
  unfold Cfg.acts; (try dsimp only); e5_cs
macro_rules | `(tactic| e5_cs1) => `(tactic| with_reducible apply Cfg.acts_cs)

theorem Cfg.doFin_cs (c : Cfg) (k : List Frame) (x : Nat)
    (ht : c.st.timers = []) : CS none c.st (c.doFin k x).st := by
  unfold Cfg.doFin; (try dsimp only); e5_cs
macro_rules | `(tactic| e5_cs1) => `(tactic| with_reducible apply Cfg.doFin_cs)

theorem Cfg.drainQ_cs (c : Cfg) (k : List Frame) (x : Nat)
    (ht : c.st.timers = []) : CS none c.st (c.drainQ k x).st := by
  unfold Cfg.drainQ; (try dsimp only); e5_cs
macro_rules | `(tactic| e5_cs1) => `(tactic| with_reducible apply Cfg.drainQ_cs)

theorem Cfg.stepGen_cs (c : Cfg) (k : List Frame) (g : Nat)
    (ht : c.st.timers = []) : CS none c.st (c.stepGen k g).st := by
  unfold Cfg.stepGen; (try dsimp only); e5_cs
macro_rules | `(tactic| e5_cs1) => `(tactic| with_reducible apply Cfg.stepGen_cs)

theorem Cfg.processTask_cs (c : Cfg) (k : List Frame) (r : Nat) (x : Task)
    (ht : c.st.timers = []) : CS none c.st (c.processTask k r x).st := by
  unfold Cfg.processTask; (try dsimp only); e5_cs
macro_rules | `(tactic| e5_cs1) => `(tactic| with_reducible apply Cfg.processTask_cs)

theorem Cfg.contStop_cs {q : Option Nat} {s0 : St} (c : Cfg) (k : List Frame) (s : St) (r : Nat) (x : Task) (hle : CS q s0 s) :
    CS q s0 (c.contStop k s r x).st := by
  unfold Cfg.contStop; (try dsimp only); e5_cs
macro_rules | `(tactic| e5_cs1) => `(tactic| with_reducible apply Cfg.contStop_cs)

theorem Cfg.contError_cs {q : Option Nat} {s0 : St} (c : Cfg) (k : List Frame) (s : St) (r : Nat) (x : Task) (resumed : Bool) (hle : CS q s0 s) :
    CS q s0 (c.contError k s r x resumed).st := by
  unfold Cfg.contError; (try dsimp only); e5_cs
macro_rules | `(tactic| e5_cs1) => `(tactic| with_reducible apply Cfg.contError_cs)

theorem Cfg.ptBodyWait_cs (c : Cfg) (k : List Frame) (r : Nat) (x : Task) (w : Nat)
    (ht : c.st.timers = []) : CS none c.st (c.ptBodyWait k r x w).st := by
  unfold Cfg.ptBodyWait; (try dsimp only); e5_cs
macro_rules | `(tactic| e5_cs1) => `(tactic| with_reducible apply Cfg.ptBodyWait_cs)

theorem Cfg.ptBodyExc_cs (c : Cfg) (k : List Frame) (r : Nat) (x : Task) (w : Nat) (fired : Bool)
    (ht : c.st.timers = []) : CS none c.st (c.ptBodyExc k r x w fired).st := by
  unfold Cfg.ptBodyExc; (try dsimp only); e5_cs
macro_rules | `(tactic| e5_cs1) => `(tactic| with_reducible apply Cfg.ptBodyExc_cs)

theorem Cfg.ptBody_cs (c : Cfg) (k : List Frame) (r : Nat) (x : Task)
    (ht : c.st.timers = []) : CS none c.st (c.ptBody k r x).st := by
  unfold Cfg.ptBody; (try dsimp only); e5_cs
macro_rules | `(tactic| e5_cs1) => `(tactic| with_reducible apply Cfg.ptBody_cs)

theorem Cfg.ptOwn_cs (c : Cfg) (k : List Frame) (r : Nat) (x : Task)
    (ht : c.st.timers = []) : CS none c.st (c.ptOwn k r x).st := by
  unfold Cfg.ptOwn; (try dsimp only); e5_cs
macro_rules | `(tactic| e5_cs1) => `(tactic| with_reducible apply Cfg.ptOwn_cs)

theorem Cfg.ptParent_cs (c : Cfg) (k : List Frame) (r : Nat) (x : Task) (p : Nat) (viaThrow : Bool)
    (ht : c.st.timers = []) : CS none c.st (c.ptParent k r x p viaThrow).st := by
  unfold Cfg.ptParent; (try dsimp only); e5_cs
macro_rules | `(tactic| e5_cs1) => `(tactic| with_reducible apply Cfg.ptParent_cs)

theorem Cfg.ptFin_cs (c : Cfg) (k : List Frame) (r : Nat) (handling : Option Nat)
    (ht : c.st.timers = []) : CS none c.st (c.ptFin k r handling).st := by
  unfold Cfg.ptFin; (try dsimp only); e5_cs
macro_rules | `(tactic| e5_cs1) => `(tactic| with_reducible apply Cfg.ptFin_cs)

theorem Cfg.dispatcher_cs (c : Cfg) (k : List Frame) (r e remaining : Nat)
    (ht : c.st.timers = []) : CS (some e) c.st (c.dispatcher k r e remaining).st := by
  unfold Cfg.dispatcher; (try dsimp only); e5_cs
macro_rules | `(tactic| e5_cs1) => `(tactic| with_reducible apply Cfg.dispatcher_cs)

theorem Cfg.hLoop_cs (c : Cfg) (k : List Frame) (r e : Nat) (hs : List Nat) (err : Bool) (stale : Outcome)
    (ht : c.st.timers = []) : CS none c.st (c.hLoop k r e hs err stale).st := by
  unfold Cfg.hLoop; (try dsimp only); e5_cs
macro_rules | `(tactic| e5_cs1) => `(tactic| with_reducible apply Cfg.hLoop_cs)

theorem Cfg.invokeUser_cs {q : Option Nat} {s0 : St} (c : Cfg) (k : List Frame) (s : St) (h e owner p : Nat) (hle : CS q s0 s) :
    CS q s0 (c.invokeUser k s h e owner p).st := by
  unfold Cfg.invokeUser; (try dsimp only); e5_cs
macro_rules | `(tactic| e5_cs1) => `(tactic| with_reducible apply Cfg.invokeUser_cs)

theorem Cfg.invoke_cs (c : Cfg) (k : List Frame) (r h e : Nat)
    (ht : c.st.timers = []) : CS none c.st (c.invoke k r h e).st := by
  unfold Cfg.invoke; (try dsimp only); e5_cs
macro_rules | `(tactic| e5_cs1) => `(tactic| with_reducible apply Cfg.invoke_cs)

theorem Cfg.invokeFin_cs (c : Cfg) (k : List Frame) (e h : Nat)
    (ht : c.st.timers = []) : CS none c.st (c.invokeFin k e h).st := by
  unfold Cfg.invokeFin; (try dsimp only); e5_cs
macro_rules | `(tactic| e5_cs1) => `(tactic| with_reducible apply Cfg.invokeFin_cs)

theorem Cfg.hAfter_cs (c : Cfg) (k : List Frame) (r e : Nat) (rest : List Nat) (err : Bool) (stale : Outcome)
    (ht : c.st.timers = []) : CS none c.st (c.hAfter k r e rest err stale).st := by
  unfold Cfg.hAfter; (try dsimp only); e5_cs
macro_rules | `(tactic| e5_cs1) => `(tactic| with_reducible apply Cfg.hAfter_cs)

theorem Cfg.hApply_cs (c : Cfg) (k : List Frame) (r e : Nat) (rest : List Nat) (err : Bool) (value : Outcome)
    (ht : c.st.timers = []) : CS none c.st (c.hApply k r e rest err value).st := by
  unfold Cfg.hApply; (try dsimp only); e5_cs
macro_rules | `(tactic| e5_cs1) => `(tactic| with_reducible apply Cfg.hApply_cs)

theorem Cfg.dispFin_cs (c : Cfg) (k : List Frame) (r e : Nat) (err : Bool)
    (ht : c.st.timers = []) : CS none c.st (c.dispFin k r e err).st := by
  unfold Cfg.dispFin; (try dsimp only); e5_cs
macro_rules | `(tactic| e5_cs1) => `(tactic| with_reducible apply Cfg.dispFin_cs)

theorem Cfg.dispatchLoop_cs (c : Cfg) (k : List Frame) (r : Nat)
    (ht : c.st.timers = []) : CS none c.st (c.dispatchLoop k r).st := by
  unfold Cfg.dispatchLoop; (try dsimp only); e5_cs
macro_rules | `(tactic| e5_cs1) => `(tactic| with_reducible apply Cfg.dispatchLoop_cs)

theorem Cfg.flush_cs (c : Cfg) (k : List Frame) (x : Nat)
    (ht : c.st.timers = []) : CS none c.st (c.flush k x).st := by
  unfold Cfg.flush; (try dsimp only); e5_cs
macro_rules | `(tactic| e5_cs1) => `(tactic| with_reducible apply Cfg.flush_cs)

theorem Cfg.flushFin_cs (c : Cfg) (k : List Frame) (r : Nat) (old : Bool)
    (ht : c.st.timers = []) : CS none c.st (c.flushFin k r old).st := by
  unfold Cfg.flushFin; (try dsimp only); e5_cs
macro_rules | `(tactic| e5_cs1) => `(tactic| with_reducible apply Cfg.flushFin_cs)

theorem Cfg.tick_cs (c : Cfg) (k : List Frame) (x : Nat)
    (ht : c.st.timers = []) : CS none c.st (c.tick k x).st := by
  unfold Cfg.tick; (try dsimp only); e5_cs
macro_rules | `(tactic| e5_cs1) => `(tactic| with_reducible apply Cfg.tick_cs)

theorem Cfg.taskLoop_cs (c : Cfg) (k : List Frame) (x : Nat) (ts : List Task)
    (ht : c.st.timers = []) : CS none c.st (c.taskLoop k x ts).st := by
  unfold Cfg.taskLoop; (try dsimp only); e5_cs
macro_rules | `(tactic| e5_cs1) => `(tactic| with_reducible apply Cfg.taskLoop_cs)

theorem Cfg.tickFin_cs (c : Cfg) (k : List Frame) (x : Nat) (old : Bool)
    (ht : c.st.timers = []) : CS none c.st (c.tickFin k x old).st := by
  unfold Cfg.tickFin; (try dsimp only); e5_cs
macro_rules | `(tactic| e5_cs1) => `(tactic| with_reducible apply Cfg.tickFin_cs)

theorem Cfg.tickGen_cs (c : Cfg) (k : List Frame) (x : Nat)
    (ht : c.st.timers = []) : CS none c.st (c.tickGen k x).st := by
  unfold Cfg.tickGen; (try dsimp only); e5_cs
macro_rules | `(tactic| e5_cs1) => `(tactic| with_reducible apply Cfg.tickGen_cs)

theorem Cfg.run_cs (c : Cfg) (k : List Frame) (x : Nat)
    (ht : c.st.timers = []) : CS none c.st (c.run k x).st := by
  unfold Cfg.run; (try dsimp only); e5_cs
macro_rules | `(tactic| e5_cs1) => `(tactic| with_reducible apply Cfg.run_cs)

theorem Cfg.runLoop_cs (c : Cfg) (k : List Frame) (x : Nat)
    (ht : c.st.timers = []) : CS none c.st (c.runLoop k x).st := by
  unfold Cfg.runLoop; (try dsimp only); e5_cs
macro_rules | `(tactic| e5_cs1) => `(tactic| with_reducible apply Cfg.runLoop_cs)

theorem Cfg.runFin_cs (c : Cfg) (k : List Frame) (x : Nat)
    (ht : c.st.timers = []) : CS none c.st (c.runFin k x).st := by
  unfold Cfg.runFin; (try dsimp only); e5_cs
macro_rules | `(tactic| e5_cs1) => `(tactic| with_reducible apply Cfg.runFin_cs)

theorem Cfg.runCatchExn_cs (c : Cfg) (k : List Frame) (x : Nat) (ex : Exn)
    (ht : c.st.timers = []) : CS none c.st (c.runCatchExn k x ex).st := by
  unfold Cfg.runCatchExn; (try dsimp only); e5_cs
macro_rules | `(tactic| e5_cs1) => `(tactic| with_reducible apply Cfg.runCatchExn_cs)

theorem Cfg.runRethrow_cs (c : Cfg) (k : List Frame) (ex : Exn)
    (ht : c.st.timers = []) : CS none c.st (c.runRethrow k ex).st := by
  unfold Cfg.runRethrow; (try dsimp only); e5_cs
macro_rules | `(tactic| e5_cs1) => `(tactic| with_reducible apply Cfg.runRethrow_cs)


/-- the event a frame may re-link: its own dispatch, its own `_effectDone` iteration -/
def excOf : Frame → Option Nat
  | .dispatcher _ e _ => some e
  | .effectDone _ e _ => some e
  | _ => none

theorem stepFrame_cs (c : Cfg) (k : List Frame) (f : Frame) (ht : c.st.timers = []) :
    CS (excOf f) c.st (stepFrame c k f).st := by
  cases f <;> (dsimp only [stepFrame, excOf]; e5_cs)

theorem unwind_cs (c : Cfg) (k : List Frame) (ex : Exn) (f : Frame) (ht : c.st.timers = []) :
    CS none c.st (unwind c k ex f).st := by
  cases f <;> (dsimp only [unwind]; e5_cs)

/-- the `cause` of an existing event changes only in a step whose top frame is that event's own
    `.dispatcher` or `.effectDone` frame (normal execution, no exception pending) -/
theorem step_cause_changes (c : Cfg) (ht : c.st.timers = []) (y : Nat) (hy : y < c.st.evs.length)
    (hne : ((step c).st.ev y).cause ≠ (c.st.ev y).cause) :
    c.exn = none ∧ ∃ f k, c.stack = f :: k ∧ excOf f = some y := by
  cases hs : c.stack with
  | nil => rw [step_nil c hs] at hne; exact absurd rfl hne
  | cons f k =>
    cases hx : c.exn with
    | some ex =>
      rw [step_cons_exn c f k ex hs hx] at hne
      exact absurd ((unwind_cs c k ex f ht).cause y hy (by simp)) hne
    | none =>
      rw [step_cons c f k hs hx] at hne
      refine ⟨rfl, f, k, rfl, ?_⟩
      apply Classical.byContradiction
      intro hq
      exact hne ((stepFrame_cs c k f ht).cause y hy (fun a => hq a.symm))

theorem _root_.CV.Core.St.e5_dispatchPre_tracked (t : St) (ht : t.timers = []) (r e rem : Nat)
    (htr : (t.ev e).cause ≠ none) :
    (((t.dispatchPre r e rem).2).ev e).cause = (t.ev e).cause := by
  have hlt := t.e5_lt_of_tracked e htr
  unfold St.dispatchPre
  dsimp only
  split
  · exact St.e5_ev_modEv_field (g := fun x => x.cause) _ _ _ _ (by intro _; rfl)
  · have hd : (((t.logE (.disp e)).dispComplete e ((t.logE (.disp e)).ev e)).ev e).cause = (t.ev e).cause := by
      unfold St.dispComplete
      split
      · have hn : ¬ (((t.logE (.disp e)).ev e).cause.isNone = true) := by
          intro a
          have a' : (t.ev e).cause.isNone = true := a
          exact htr (by simpa using a')
        rw [if_neg hn]
        exact St.e5_ev_modEv_field (g := fun x => x.cause) _ _ _ _ (by intro _; rfl)
      · rfl
    have h1 : CS none ((t.logE (.disp e)).dispComplete e ((t.logE (.disp e)).ev e))
        ((((((t.logE (.disp e)).dispComplete e ((t.logE (.disp e)).ev e)).cacheRefresh r).lookupHandlers r
            ((t.logE (.disp e)).ev e).name ((t.logE (.disp e)).ev e).chans).2.modComp r
              fun x => { x with currently := some e }).dispGE r e rem ((t.logE (.disp e)).ev e).name) := by
      have ht' : ((t.logE (.disp e)).dispComplete e ((t.logE (.disp e)).ev e)).timers = [] := by
        have := (St.Le.dispComplete (St.Le.refl (t.logE (.disp e))) e ((t.logE (.disp e)).ev e)).timers
        have h0 : (t.logE (.disp e)).timers = [] := ht
        rw [h0] at this
        exact List.eq_nil_of_length_eq_zero (by simpa using this)
      e5_cs
    have hl : e < ((t.logE (.disp e)).dispComplete e ((t.logE (.disp e)).ev e)).evs.length := by
      have := (St.Le.dispComplete (St.Le.refl (t.logE (.disp e))) e ((t.logE (.disp e)).ev e)).evs
      have h0 : (t.logE (.disp e)).evs.length = t.evs.length := rfl
      omega
    rw [h1.cause e hl (by simp), hd]

theorem _root_.CV.Core.St.e5_effectDone1_keep (t : St) (r e : Nat) (a : Bool)
    (h : (t.ev e).cause = none ∨ (t.ev e).effects - 1 > 0) :
    (((t.effectDone1 r e a).2).ev e).cause = (t.ev e).cause := by
  unfold St.effectDone1
  dsimp only
  split
  · rfl
  · rename_i P hc
    rcases h with h | h
    · rw [h] at hc; cases hc
    · rw [if_pos h]
      exact St.e5_ev_modEv_field (g := fun x => x.cause) _ _ _ _ (by intro _; rfl)

/-- an event is unlinked (`cause` cleared) only by its own `_effectDone` iteration, when its count
    reaches 0 -/
theorem untracked_only_at_zero (c : Cfg) (ht : c.st.timers = []) (y : Nat)
    (htr : (c.st.ev y).cause ≠ none) (hun : ((step c).st.ev y).cause = none) :
    c.exn = none ∧ ∃ r a k, c.stack = .effectDone r y a :: k ∧ ¬ ((c.st.ev y).effects - 1 > 0) := by
  have hy := c.st.e5_lt_of_tracked y htr
  obtain ⟨hx, f, k, hs, hf⟩ := step_cause_changes c ht y hy (by rw [hun]; exact fun a => htr a.symm)
  refine ⟨hx, ?_⟩
  cases f <;> simp [excOf] at hf
  case effectDone r e a =>
    subst hf
    refine ⟨r, a, k, hs, ?_⟩
    intro hpos
    rw [step_cons c _ k hs hx] at hun
    have : ((c.effectDone k r e a).st.ev e).cause = none := hun
    rw [Cfg.effectDone_st, St.e5_effectDone1_keep _ _ _ _ (Or.inr hpos)] at this
    exact htr this
  case dispatcher r e rem =>
    subst hf
    exfalso
    rw [step_cons c _ k hs hx] at hun
    have h2 : (c.dispatcher k r e rem).st = (c.st.dispatchPre r e rem).2 := by
      unfold Cfg.dispatcher; split <;> rfl
    have : ((c.dispatcher k r e rem).st.ev e).cause = none := hun
    rw [h2, St.e5_dispatchPre_tracked c.st ht r e rem htr] at this
    exact htr this

/-- the tracking of an existing event (re)starts only at its own dispatch -/
theorem tracked_only_at_dispatch (c : Cfg) (ht : c.st.timers = []) (y : Nat) (hy : y < c.st.evs.length)
    (hun : (c.st.ev y).cause = none) (htr : ((step c).st.ev y).cause ≠ none) :
    c.exn = none ∧ ∃ r rem k, c.stack = .dispatcher r y rem :: k := by
  obtain ⟨hx, f, k, hs, hf⟩ := step_cause_changes c ht y hy (by rw [hun]; exact htr)
  refine ⟨hx, ?_⟩
  cases f <;> simp [excOf] at hf
  case dispatcher r e rem => subst hf; exact ⟨r, rem, k, hs⟩
  case effectDone r e a =>
    subst hf
    exfalso
    rw [step_cons c _ k hs hx] at htr
    have : ((c.effectDone k r e a).st.ev e).cause ≠ none := htr
    rw [Cfg.effectDone_st, St.e5_effectDone1_keep _ _ _ _ (Or.inl hun)] at this
    exact this hun


/-- no timers are ever created when there are none initially -/
theorem reach_timers {s0 : St} (h0 : s0.timers = []) : ∀ c, Reach s0 c → c.st.timers = [] := by
  apply Reach.inv (fun c => c.st.timers = [])
  · intro d tape op; cases op <;> exact h0
  · intro c h
    have := step_timers c
    rw [h] at this
    exact List.eq_nil_of_length_eq_zero (by simpa using this)
  · intro c d tape op h _; cases op <;> exact h


/-! ## the excluded case is real: a run on which `_eventDone(e)` goes through twice -/

def nFoo : Name := ⟨1, []⟩
def nBar : Name := ⟨2, []⟩

/-- One root component that is `running` but not `executing` (a manager driven by hand), with
    handlers for `foo` = [fire `bar`; a generator that yields once; `stop()`] in this priority order and a
    generator handler for `bar`; `foo` asks for `complete`.  The handler cache holds what
    `computeHandlers` would compute (so that the run can be evaluated by the kernel: `mergeSort` is
    defined by well-founded recursion). -/
def s0w : St :=
  { comps := [{ parent := 0, root := 0, running := true,
                htab := [(some nFoo, 0), (some nFoo, 1), (some nFoo, 2), (some nBar, 3)],
                cache := [((nFoo, [.star]), [0, 1, 2]), ((nBar, [.star]), [3]), ((Name.stopped, [.star]), [])] }],
    hs := [{ owner := 0, names := [nFoo], chan := none, prio := 3, kind := .user 0 },
           { owner := 0, names := [nFoo], chan := none, prio := 2, kind := .user 1 },
           { owner := 0, names := [nFoo], chan := none, prio := 1, kind := .user 2 },
           { owner := 0, names := [nBar], chan := none, prio := 0, kind := .user 3 }],
    progs := [[.fire 1 none 0 false], [.yld none], [.stopMgr 0 none],
              [.yld none, .yld none, .yld none, .yld none, .yld none]],
    tmpls := [{ name := nFoo, complete := true }, { name := nBar }] }

/-- `fire(foo())` from outside, run to the end (3 steps) -/
def cw1 : Cfg := runN 3 (startOf (envChange s0w 0 []) (.doAct 0 (.fire 0 none 0 false)))
/-- then `flush()`, `n` steps -/
def cw2 (n : Nat) : Cfg := runN n (startOf (envChange cw1.st 0 []) (.flush 0))

theorem cw2_reach (n : Nat) : Reach s0w (cw2 n) :=
  (Reach.next 0 [] (.flush 0) ((Reach.init 0 [] (.doAct 0 (.fire 0 none 0 false))).runN 3)
    (by decide +kernel)).runN n

/-- the top frame is the `_effectDone` iteration that fires `e_complete` although an event is still
    linked under `e` -/
def earlyComplete (c : Cfg) : Bool :=
  match c.exn, c.stack with
  | none, .effectDone _ e a :: _ =>
    (c.st.ev e).cause.isSome && (c.st.ev e).complete && a && !decide ((c.st.ev e).effects - 1 > 0) &&
      (List.range c.st.evs.length).any (fun x => x != e && (c.st.ev x).cause == some e)
  | _, _ => false

theorem earlyComplete_spec (c : Cfg) (h : earlyComplete c = true) :
    ∃ r e a k x, c.stack = .effectDone r e a :: k ∧ c.exn = none ∧ (c.st.ev e).cause ≠ none ∧
      (c.st.ev e).complete = true ∧ a = true ∧ ¬ ((c.st.ev e).effects - 1 > 0) ∧
      x ≠ e ∧ (c.st.ev x).cause = some e := by
  unfold earlyComplete at h
  split at h
  · rename_i r e a k hx hs
    simp only [Bool.and_eq_true, List.any_eq_true, Bool.not_eq_true', decide_eq_false_iff_not,
      bne_iff_ne, ne_eq, beq_iff_eq] at h
    obtain ⟨⟨⟨⟨h1, h2⟩, h3⟩, h4⟩, x, _, h5, h6⟩ := h
    refine ⟨r, e, a, k, x, hs, hx, ?_, h2, h3, h4, h5, h6⟩
    intro hn; rw [hn] at h1; simp at h1
  · cases h

/-- `_eventDone(e)` is about to go through for the second time -/
def doubleDone (c : Cfg) : Bool :=
  match c.exn, c.stack with
  | none, .eventDone _ e _ :: _ =>
    decide ((c.st.ev e).waiting = 0) && (c.st.ev e).cause.isSome && (c.st.ev e).selfDone
  | _, _ => false

theorem doubleDone_spec (c : Cfg) (h : doubleDone c = true) : ¬ Guard c := by
  unfold doubleDone at h
  split at h
  · rename_i r e a k hx hs
    simp only [Bool.and_eq_true, decide_eq_true_eq] at h
    obtain ⟨⟨h1, h2⟩, h3⟩ := h
    intro hg
    have := hg hx
    rw [hs] at this
    have h4 := this h1 (by intro hn; rw [hn] at h2; simp at h2)
    rw [h4] at h3; cases h3
  · cases h

theorem s0w_init : InitEff s0w := ⟨rfl, fun _ => rfl⟩

theorem cw2_double : doubleDone (cw2 86) = true := by decide +kernel
theorem cw2_early : earlyComplete (cw2 87) = true := by decide +kernel


end CV.Core.C05

import CV.Proofs.InvTasksCtx
/-
waitingHandlers accounting, part 15 (range invariants): the frames that carry the id of the event being dispatched
(`.dispatcher / .hLoop / .hAfter / .hApply r e`) are pushed only by a frame carrying the same id - except `.dispatchLoop`,
which takes the id from the queue.
-/
namespace CV.Core

def Frame.t46_dEv : Frame → Option Nat
  | .dispatcher _ e _ => some e
  | .hLoop _ e _ _ _ => some e
  | .hAfter _ e _ _ _ => some e
  | .hApply _ e _ _ _ => some e
  | _ => none

/-- `g` may be pushed by the step of `f` -/
def Frame.t46_dOk (f g : Frame) : Bool :=
  match g.t46_dEv with
  | none => true
  | some e => f.t46_dEv == some e

def T46DevOk (f : Frame) (k : List Frame) (c' : Cfg) : Prop :=
  ∃ fs, c'.stack = fs ++ k ∧ fs.all (fun g => f.t46_dOk g) = true

theorem t46_actStep_call_dev (s : St) (ctx : HCtx) (a : Act) (f : Frame) (h : (actStep s ctx a).kind = .call f) :
    f.t46_dEv = none := by
  cases a <;> simp only [actStep] at h <;> first | (cases h; rfl) | (split at h <;> cases h) | cases h

macro "t46d_leaf" : tactic =>
  `(tactic| first
    | exact ⟨[], rfl, rfl⟩
    | (refine ⟨_, rfl, ?_⟩
       first
       | (simp [Frame.t46_dOk, Frame.t46_dEv]; done)
       | (simp only [List.all_cons, List.all_nil, Frame.t46_dOk, t46_actStep_call_dev _ _ _ _ (by assumption)]
          simp [Frame.t46_dEv])))

macro "t46d" ids:ident+ : tactic =>
  `(tactic| (unfold T46DevOk $[$ids]*; (try dsimp only); (repeat' split); all_goals t46d_leaf))

theorem Cfg.pop_t46d (f : Frame) (c : Cfg) (k : List Frame) (s : St) : T46DevOk f k (c.pop k s) := ⟨[], rfl, rfl⟩

theorem Cfg.contStop_t46d (f : Frame) (c : Cfg) (k : List Frame) (s : St) (r : Nat) (t : Task) :
    T46DevOk f k (c.contStop k s r t) := by t46d Cfg.contStop
theorem Cfg.contError_t46d (f : Frame) (c : Cfg) (k : List Frame) (s : St) (r : Nat) (t : Task) (b : Bool) :
    T46DevOk f k (c.contError k s r t b) := by t46d Cfg.contError

theorem t46_stepFrame_dev (c : Cfg) (k : List Frame) (f : Frame) (hf : ∀ r, f ≠ .dispatchLoop r) :
    T46DevOk f k (stepFrame c k f) := by
  cases f <;> dsimp only [stepFrame]
  case dispatchLoop r => exact absurd rfl (hf r)
  case effectDone r e a => (t46d Cfg.effectDone)
  case eventDone r e a => (t46d Cfg.eventDone)
  case updateRoot a b => (t46d Cfg.updateRoot)
  case register a b => (t46d Cfg.register)
  case registerFin a => (t46d Cfg.registerFin)
  case prepUnregFin a => (t46d Cfg.prepUnregFin)
  case stopMgr a b => (t46d Cfg.stopMgr)
  case ticks a b => (t46d Cfg.ticks)
  case stopFin a => (t46d Cfg.stopFin)
  case timerNew a => (t46d Cfg.timerNew)
  case acts a b => (t46d Cfg.acts)
  case doFin a => (t46d Cfg.doFin)
  case drainQ a => (t46d Cfg.drainQ)
  case stepGen a => (t46d Cfg.stepGen)
  case processTask r t => (t46d Cfg.processTask)
  case ptBody r t => (t46d Cfg.ptBody Cfg.ptBodyWait Cfg.ptBodyExc Cfg.contStop Cfg.contError)
  case ptOwn r t => (t46d Cfg.ptOwn Cfg.contStop Cfg.contError)
  case ptParent r t p v => (t46d Cfg.ptParent Cfg.contStop Cfg.contError)
  case ptFin a b => (t46d Cfg.ptFin)
  case dispatcher a b d => (t46d Cfg.dispatcher)
  case hLoop a b d e g => (t46d Cfg.hLoop)
  case invoke a b d => (t46d Cfg.invoke Cfg.invokeUser)
  case invokeFin a b => (t46d Cfg.invokeFin)
  case hAfter a b d e g => (t46d Cfg.hAfter)
  case hApply r e rest err v => (t46d Cfg.hApply)
  case dispFin a b d => (t46d Cfg.dispFin)
  case flush a => (t46d Cfg.flush)
  case flushFin a b => (t46d Cfg.flushFin)
  case tick a => (t46d Cfg.tick)
  case taskLoop a b => (t46d Cfg.taskLoop)
  case tickFin a b => (t46d Cfg.tickFin)
  case tickGen a => (t46d Cfg.tickGen)
  case run a => (t46d Cfg.run)
  case runLoop a => (t46d Cfg.runLoop)
  case runCatch a => exact Cfg.pop_t46d ..
  case runRethrow a => (t46d Cfg.runRethrow)
  case runFin a => (t46d Cfg.runFin)

theorem t46_unwind_dev (c : Cfg) (k : List Frame) (ex : Exn) (f : Frame) : T46DevOk f k (unwind c k ex f) := by
  cases f <;> dsimp only [unwind]
  case ptFin r hd => (t46d Cfg.ptFin)
  case invokeFin e hh => (t46d Cfg.invokeFin)
  case flushFin r old => (t46d Cfg.flushFin)
  case tickFin x old => (t46d Cfg.tickFin)
  case runCatch x =>
    unfold Cfg.runCatchExn
    split
    · exact ⟨[.tick x, .drainQ x, .runRethrow _], rfl, by simp [Frame.t46_dOk, Frame.t46_dEv]⟩
    · exact Cfg.pop_t46d ..
  case runRethrow ex0 => (t46d Cfg.runRethrow)
  all_goals exact Cfg.pop_t46d ..

end CV.Core

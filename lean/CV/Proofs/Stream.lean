import CV.Model.StreamSpec
/-
Helper lemmas for C11: facts about the spec fold alone, then the simulation between the
stream model and the spec.
-/
namespace CV
namespace Stream

/-! ## the spec fold -/

theorem specRun_append (σ : SpecSt) (a b : List Ev) :
    specRun σ (a ++ b) = specRun (specRun σ a) b := by
  simp [specRun, List.foldl_append]

@[simp] theorem specRun_nil (σ : SpecSt) : specRun σ [] = σ := rfl
@[simp] theorem specRun_cons (σ : SpecSt) (e : Ev) (r : List Ev) :
    specRun σ (e :: r) = specRun (specStep σ e) r := rfl

theorem fail_bad (σ : SpecSt) (c : Clause) : (σ.fail c).bad ≠ none := by
  unfold SpecSt.fail; split <;> simp_all

@[simp] theorem fail_closed (σ : SpecSt) (c : Clause) : (σ.fail c).closed = σ.closed := by
  unfold SpecSt.fail; split <;> rfl
@[simp] theorem fail_osBad (σ : SpecSt) (c : Clause) : (σ.fail c).osBad = σ.osBad := by
  unfold SpecSt.fail; split <;> rfl
@[simp] theorem fail_dead (σ : SpecSt) (c : Clause) : (σ.fail c).dead = σ.dead := by
  unfold SpecSt.fail; split <;> rfl
@[simp] theorem fail_owed (σ : SpecSt) (c : Clause) : (σ.fail c).owed = σ.owed := by
  unfold SpecSt.fail; split <;> rfl
@[simp] theorem fail_pending (σ : SpecSt) (c : Clause) : (σ.fail c).pending = σ.pending := by
  unfold SpecSt.fail; split <;> rfl
@[simp] theorem fail_written (σ : SpecSt) (c : Clause) : (σ.fail c).written = σ.written := by
  unfold SpecSt.fail; split <;> rfl
@[simp] theorem fail_accepted (σ : SpecSt) (c : Clause) : (σ.fail c).accepted = σ.accepted := by
  unfold SpecSt.fail; split <;> rfl

theorem fail_of_bad {σ : SpecSt} (c : Clause) (h : σ.bad ≠ none) : σ.fail c = σ := by
  unfold SpecSt.fail; split <;> simp_all

/-- a failure is never forgotten -/
theorem specStep_bad_mono (σ : SpecSt) (e : Ev) (h : σ.bad ≠ none) : (specStep σ e).bad ≠ none := by
  cases e <;> simp only [specStep] <;> repeat' split
  all_goals first | exact h | (simp only [fail_of_bad _ h]; exact h) | skip
  all_goals simp_all [fail_of_bad]

theorem specRun_bad_mono (σ : SpecSt) (evs : List Ev) (h : σ.bad ≠ none) : (specRun σ evs).bad ≠ none := by
  induction evs generalizing σ with
  | nil => exact h
  | cons e r ih => exact ih _ (specStep_bad_mono σ e h)

theorem specStep_osBad_mono (σ : SpecSt) (e : Ev) (h : σ.osBad = true) : (specStep σ e).osBad = true := by
  cases e <;> simp only [specStep] <;> repeat' split
  all_goals simp_all

theorem specRun_osBad_mono (σ : SpecSt) (evs : List Ev) (h : σ.osBad = true) : (specRun σ evs).osBad = true := by
  induction evs generalizing σ with
  | nil => exact h
  | cons e r ih => exact ih _ (specStep_osBad_mono σ e h)

theorem specStep_closed_mono (σ : SpecSt) (e : Ev) (h : σ.closed = true) : (specStep σ e).closed = true := by
  cases e <;> simp only [specStep] <;> repeat' split
  all_goals simp_all

theorem bad_none_of_run {σ : SpecSt} {evs : List Ev} (h : (specRun σ evs).bad = none) : σ.bad = none := by
  cases hb : σ.bad with
  | none => rfl
  | some c => exact absurd h (specRun_bad_mono σ evs (by simp [hb]))

theorem os_false_of_run {σ : SpecSt} {evs : List Ev} (h : (specRun σ evs).osBad = false) : σ.osBad = false := by
  cases hb : σ.osBad with
  | false => rfl
  | true => rw [specRun_osBad_mono σ evs hb] at h; exact absurd h (by simp)

theorem prefix_drop {b l : Bytes} (h : b.isPrefixOf l = true) : b ++ l.drop b.length = l := by
  rw [List.isPrefixOf_iff_prefix] at h
  obtain ⟨t, rfl⟩ := h
  simp

/-- intermediate states of a clean run are clean -/
theorem specRun_clean_prefix (σ : SpecSt) (a b : List Ev)
    (hb : (specRun σ (a ++ b)).bad = none) : (specRun σ a).bad = none := by
  rw [specRun_append] at hb
  exact bad_none_of_run hb

theorem specRun_os_prefix (σ : SpecSt) (a b : List Ev)
    (hb : (specRun σ (a ++ b)).osBad = false) : (specRun σ a).osBad = false := by
  rw [specRun_append] at hb
  exact os_false_of_run hb

/-- the ghost totals of the spec state are the totals read off the observation -/
theorem specRun_written (σ : SpecSt) (evs : List Ev) :
    (specRun σ evs).written = σ.written ++ writtenOf σ.closed evs := by
  induction evs generalizing σ with
  | nil => simp [writtenOf]
  | cons e r ih =>
    rw [specRun_cons, ih]
    cases e <;> simp only [specStep, writtenOf] <;> repeat' split
    all_goals simp_all

theorem specRun_accepted (σ : SpecSt) (evs : List Ev)
    (hbad : (specRun σ evs).bad = none) (hos : (specRun σ evs).osBad = false) :
    (specRun σ evs).accepted = σ.accepted ++ acceptedOf evs := by
  induction evs generalizing σ with
  | nil => simp [acceptedOf]
  | cons e r ih =>
    rw [specRun_cons] at hbad hos ⊢
    rw [ih _ hbad hos]
    have h1 : (specStep σ e).bad = none := bad_none_of_run hbad
    have h2 : (specStep σ e).osBad = false := os_false_of_run hos
    cases e <;> simp only [specStep, acceptedOf] at h1 h2 ⊢
    case acc b =>
      by_cases hc : σ.closed = true
      · simp only [hc, if_true] at h1; exact absurd h1 (fail_bad _ _)
      · by_cases hd : σ.dead = true
        · simp [hc, hd] at h2
        · by_cases hp : b.isPrefixOf σ.pending = true
          · simp [hc, hd, hp]
          · simp only [hc, hd, hp] at h1; exact absurd h1 (fail_bad _ _)
    all_goals repeat' split
    all_goals simp_all

/-- `accepted ++ pending = written` is kept by every spec step -/
theorem specStep_balance (σ : SpecSt) (e : Ev) (h : σ.accepted ++ σ.pending = σ.written) :
    (specStep σ e).accepted ++ (specStep σ e).pending = (specStep σ e).written := by
  cases e <;> simp only [specStep]
  case wr p => split <;> simp_all [← List.append_assoc]
  case acc b =>
    repeat' split
    all_goals first | (simp_all; done) | skip
    rename_i hp
    simp only [List.append_assoc, prefix_drop hp]; exact h
  all_goals repeat' split
  all_goals simp_all

theorem specRun_balance (σ : SpecSt) (evs : List Ev) (h : σ.accepted ++ σ.pending = σ.written) :
    (specRun σ evs).accepted ++ (specRun σ evs).pending = (specRun σ evs).written := by
  induction evs generalizing σ with
  | nil => exact h
  | cons e r ih => exact ih _ (specStep_balance σ e h)

/-! ## further facts about the spec fold, used for the trace-level corollaries -/

theorem sockClose_closed (σ : SpecSt) : (specStep σ .sockClose).closed = true := by
  simp only [specStep]; repeat' split
  all_goals simp_all

theorem specRun_closed_mono (σ : SpecSt) (evs : List Ev) (h : σ.closed = true) : (specRun σ evs).closed = true := by
  induction evs generalizing σ with
  | nil => exact h
  | cons e r ih => exact ih _ (specStep_closed_mono σ e h)

/-- once the socket is closed a clean observation contains no accepted bytes -/
theorem closed_no_acc (σ : SpecSt) (evs : List Ev) (hc : σ.closed = true)
    (hb : (specRun σ evs).bad = none) : ∀ x, Ev.acc x ∉ evs := by
  induction evs generalizing σ with
  | nil => simp
  | cons e r ih =>
    intro x hx
    rw [specRun_cons] at hb
    rcases List.mem_cons.mp hx with h | h
    · subst h
      have : (specStep σ (.acc x)).bad ≠ none := by
        simp only [specStep, hc, if_true]; exact fail_bad _ _
      exact specRun_bad_mono _ r this hb
    · exact ih _ (specStep_closed_mono σ e hc) hb x h

theorem no_close_closed (σ : SpecSt) (evs : List Ev) (hn : Ev.sockClose ∉ evs) (hc : σ.closed = false) :
    (specRun σ evs).closed = false := by
  induction evs generalizing σ with
  | nil => exact hc
  | cons e r ih =>
    rw [specRun_cons]
    have h1 : e ≠ .sockClose := fun h => hn (by simp [h])
    have h2 : Ev.sockClose ∉ r := fun h => hn (by simp [h])
    apply ih _ h2
    cases e <;> simp only [specStep] <;> repeat' split
    all_goals simp_all

/-- without a fatal refusal the endpoint is never `dead` and the OS clause cannot trigger -/
theorem no_fatal (σ : SpecSt) (evs : List Ev) (hn : ∀ e, Ev.refuse e ∈ evs → specTransient e = true)
    (hd : σ.dead = false) (ho : σ.osBad = false) :
    (specRun σ evs).dead = false ∧ (specRun σ evs).osBad = false := by
  induction evs generalizing σ with
  | nil => exact ⟨hd, ho⟩
  | cons e r ih =>
    rw [specRun_cons]
    have h2 : ∀ e', Ev.refuse e' ∈ r → specTransient e' = true := fun e' h => hn e' (by simp [h])
    have h1 : ∀ e', e = .refuse e' → specTransient e' = true := fun e' h => hn e' (by simp [h])
    have : (specStep σ e).dead = false ∧ (specStep σ e).osBad = false := by
      cases e <;> simp only [specStep] <;> repeat' split
      all_goals simp_all
    exact ih _ h2 this.1 this.2

/-- a fatal error that is owed a signal gets it before the op ends -/
theorem owed_signalled (σ : SpecSt) (c : List Ev) (i : Bool) (d : List Ev) (ho : σ.owed = true)
    (hb : (specRun σ (c ++ .bd i :: d)).bad = none) (hn : ∀ j, Ev.bd j ∉ c) :
    Ev.evErr ∈ c ∨ Ev.evDisc ∈ c := by
  induction c generalizing σ with
  | nil =>
    exfalso
    simp only [List.nil_append, specRun_cons] at hb
    have : (specStep σ (.bd i)).bad ≠ none := by
      simp only [specStep, ho, if_true]
      split
      · exact fail_bad _ _
      · simpa using fail_bad σ .fatalUnsignalled
    exact specRun_bad_mono _ d this hb
  | cons e r ih =>
    simp only [List.cons_append, specRun_cons] at hb
    have hn' : ∀ j, Ev.bd j ∉ r := fun j h => hn j (by simp [h])
    by_cases h1 : e = .evErr
    · simp [h1]
    by_cases h2 : e = .evDisc
    · simp [h2]
    have h3 : ∀ j, e ≠ .bd j := fun j h => hn j (by simp [h])
    have : (specStep σ e).owed = true := by
      cases e <;> simp only [specStep] <;> repeat' split
      all_goals simp_all
    rcases ih _ this hb hn' with h | h
    · exact Or.inl (by simp [h])
    · exact Or.inr (by simp [h])

/-! ## simulation: every model step keeps the spec satisfied -/

/-- relation between a model state and the spec state at an op boundary -/
structure R (s : State) (σ : SpecSt) : Prop where
  bad : σ.bad = none
  os : σ.osBad = false
  owed : σ.owed = false
  closed : σ.closed = !s.isOpen
  pendOpen : s.isOpen = true → σ.dead = false → σ.pending = s.buf.flatten
  pendClosed : s.isOpen = false → σ.dead = false → σ.pending = []
  inter : s.isOpen = true → s.buf ≠ [] → s.interest = true

theorem sim_afterWrite (s : State) (σ : SpecSt) (h : R s σ) :
    R (afterWrite s).1 (specRun σ ((afterWrite s).2 ++ [.bd (afterWrite s).1.interest])) := by
  obtain ⟨kind, buf, closeReq, isOpen, interest⟩ := s
  obtain ⟨hb, hos, how, hc, hpo, hpc, hi⟩ := h
  simp only at hc hpo hpc hi
  cases buf with
  | nil =>
    cases isOpen <;> cases closeReq <;> cases hd : σ.dead <;>
      simp_all [afterWrite, doClose, specStep]
    all_goals first | (constructor <;> simp_all; done) | (split <;> constructor <;> simp_all [specStep])
  | cons p rest =>
    cases isOpen <;> simp_all [afterWrite, specStep]
    all_goals constructor <;> simp_all

theorem good_transient {act : Nat → ErrAct} (hg : GoodActs act) {e : Nat} (h : specTransient e = true) :
    (act e).requeue = true ∧ (act e).close = false := by
  have := hg e; simp [goodAct, h] at this; exact this

theorem good_fatal {act : Nat → ErrAct} (hg : GoodActs act) {e : Nat} (h : specTransient e = false) :
    (act e).error = true ∨ (act e).close = true := by
  have := hg e; simp [goodAct, h] at this; exact this

theorem take_prefix (n : Nat) (p f : Bytes) : (p.take n).isPrefixOf (p ++ f) = true := by
  rw [List.isPrefixOf_iff_prefix]
  exact ⟨p.drop n ++ f, by rw [← List.append_assoc, List.take_append_drop]⟩

theorem sim_attempt (act : Nat → ErrAct) (hg : GoodActs act) (s : State) (σ : SpecSt) (p : Bytes) (rest : List Bytes)
    (o : Outcome) (h : R s σ) (hbuf : s.buf = p :: rest) (hopen : s.isOpen = true) :
    (specRun σ (attempt act { s with buf := rest } p o).2).osBad = true ∨
      R (attempt act { s with buf := rest } p o).1 (specRun σ (attempt act { s with buf := rest } p o).2) := by
  obtain ⟨kind, buf, closeReq, isOpen, interest⟩ := s
  obtain ⟨hb, hos, how, hc, hpo, hpc, hi⟩ := h
  simp only at hc hpo hpc hi hbuf hopen
  subst hbuf hopen
  simp only [List.flatten_cons, forall_const, ne_eq, reduceCtorEq, not_false_eq_true] at hpo hi hc
  cases o with
  | accept k =>
    cases hd : σ.dead
    · right
      have hp := hpo hd
      have hlen : (List.take (min k p.length) p).length = min k p.length := by
        simp [List.length_take]
      by_cases hlt : min k p.length < p.length
      · simp [attempt, effective, specStep, hc, hd, hlt, hp, take_prefix]
        constructor <;> simp_all [List.drop_append_of_le_length, Nat.min_le_right]
      · have hge : p.length ≤ k := by omega
        simp [attempt, effective, specStep, hc, hd, hlt, hp, take_prefix]
        constructor <;> simp_all
    · left
      simp [attempt, effective, specStep, hc, hd]
  | refuse e =>
    cases ht : specTransient e
    · -- fatal
      have hf := good_fatal hg ht
      right
      cases hr : (act e).requeue <;> cases he : (act e).error <;> cases hcl : (act e).close <;>
        simp_all [attempt, effective, specStep, doClose]
      all_goals constructor <;> simp_all
    · have ⟨h1, h2⟩ := good_transient hg ht
      right
      cases he : (act e).error <;>
        simp_all [attempt, effective, specStep]
      all_goals constructor <;> simp_all

theorem sim_write (act : Nat → ErrAct) (s : State) (σ : SpecSt) (p : Bytes) (h : R s σ) :
    R (step act s (.write p)).1 (specRun σ (step act s (.write p)).2) := by
  obtain ⟨kind, buf, closeReq, isOpen, interest⟩ := s
  obtain ⟨hb, hos, how, hc, hpo, hpc, hi⟩ := h
  simp only at hc hpo hpc hi
  cases isOpen <;> cases kind <;> simp_all [step, stepCore, specStep]
  all_goals constructor <;> (try simp_all)

theorem sim_close (act : Nat → ErrAct) (s : State) (σ : SpecSt) (h : R s σ) :
    R (step act s .close).1 (specRun σ (step act s .close).2) := by
  obtain ⟨kind, buf, closeReq, isOpen, interest⟩ := s
  obtain ⟨hb, hos, how, hc, hpo, hpc, hi⟩ := h
  simp only at hc hpo hpc hi
  cases buf with
  | nil =>
    cases isOpen <;> cases hd : σ.dead <;> simp_all [step, stepCore, doClose, specStep]
    all_goals constructor <;> simp_all
  | cons p rest =>
    cases isOpen <;> simp_all [step, stepCore, specStep]
    all_goals constructor <;> simp_all


theorem sim_writable_closed (act : Nat → ErrAct) (s : State) (σ : SpecSt) (o : Outcome) (h : R s σ)
    (hcl : s.isOpen = false) :
    R (step act s (.writable o)).1 (specRun σ (step act s (.writable o)).2) := by
  obtain ⟨kind, buf, closeReq, isOpen, interest⟩ := s
  simp only at hcl
  subst hcl
  cases buf with
  | nil =>
    have := sim_afterWrite _ σ h
    simpa [step, stepCore] using this
  | cons p rest =>
    have h0 : R { kind := kind, buf := rest, closeReq := closeReq, isOpen := false, interest := interest } σ := by
      obtain ⟨hb, hos, how, hc, hpo, hpc, hi⟩ := h
      constructor <;> simp_all
    cases kind with
    | server =>
      have := sim_afterWrite _ σ h0
      simpa [step, stepCore] using this
    | file =>
      obtain ⟨hb, hos, how, hc, hpo, hpc, hi⟩ := h0
      simp only at hc hpo hpc hi
      simp [step, stepCore, specStep, how, hc]
      constructor <;> simp_all
    | client =>
      -- send on the closed socket: the OS answers EBADF, which the spec ignores
      have h1 : R (attempt act { kind := .client, buf := rest, closeReq := closeReq, isOpen := false, interest := interest } p o).1
          (specRun σ (attempt act { kind := .client, buf := rest, closeReq := closeReq, isOpen := false, interest := interest } p o).2) := by
        obtain ⟨hb, hos, how, hc, hpo, hpc, hi⟩ := h0
        simp only at hc hpo hpc hi
        cases hr : (act EBADF).requeue <;> cases he : (act EBADF).error <;> cases hx : (act EBADF).close <;>
          simp_all [attempt, effective, specStep, doClose]
        all_goals constructor <;> simp_all
      have := sim_afterWrite _ _ h1
      simp only [step, stepCore]
      simpa [specRun_append, List.append_assoc] using this

theorem sim_step (act : Nat → ErrAct) (hg : GoodActs act) (s : State) (σ : SpecSt) (op : Op) (h : R s σ) :
    (specRun σ (step act s op).2).osBad = true ∨ R (step act s op).1 (specRun σ (step act s op).2) := by
  cases op with
  | write p => exact Or.inr (sim_write act s σ p h)
  | close => exact Or.inr (sim_close act s σ h)
  | writable o =>
    cases hopen : s.isOpen with
    | false => exact Or.inr (sim_writable_closed act s σ o h hopen)
    | true =>
      cases hbuf : s.buf with
      | nil =>
        have := sim_afterWrite s σ h
        right
        simpa [step, stepCore, hbuf] using this
      | cons p rest =>
        have hst : step act s (.writable o) =
            ((afterWrite (attempt act { s with buf := rest } p o).1).1,
             (attempt act { s with buf := rest } p o).2 ++
               ((afterWrite (attempt act { s with buf := rest } p o).1).2 ++
                 [.bd (afterWrite (attempt act { s with buf := rest } p o).1).1.interest])) := by
          simp [step, stepCore, hbuf, hopen]
        rw [hst]
        simp only [specRun_append]
        rcases sim_attempt act hg s σ p rest o h hbuf hopen with hos | hR
        · left
          have := specRun_osBad_mono _ ((afterWrite (attempt act { s with buf := rest } p o).1).2 ++
                 [.bd (afterWrite (attempt act { s with buf := rest } p o).1).1.interest]) hos
          simpa [specRun_append] using this
        · right
          have := sim_afterWrite _ _ hR
          simpa [specRun_append] using this

/-- the simulation lifted to whole runs -/
theorem sim_run (act : Nat → ErrAct) (hg : GoodActs act) (ops : List Op) (s : State) (σ : SpecSt) (h : R s σ) :
    (specRun σ (run act s ops).2).osBad = true ∨ R (run act s ops).1 (specRun σ (run act s ops).2) := by
  induction ops generalizing s σ with
  | nil => exact Or.inr h
  | cons op ops ih =>
    simp only [run, specRun_append]
    rcases sim_step act hg s σ op h with hos | hR
    · exact Or.inl (specRun_osBad_mono _ _ hos)
    · exact ih _ _ hR

theorem R_init (k : Kind) : R (init k) {} := by
  constructor <;> simp [init]


/-! ## facts about the model alone (no hypothesis on the errno table) -/

/-- writer interest is registered exactly while the open endpoint has something buffered -/
def InterestInv (s : State) : Prop := s.isOpen = true → (s.interest = true ↔ s.buf ≠ [])

theorem doClose_closed (s : State) : (doClose s).1.isOpen = false := by
  unfold doClose; split <;> simp_all

theorem afterWrite_closed (s : State) (h : s.isOpen = false) : (afterWrite s).1.isOpen = false := by
  unfold afterWrite; split
  · exact h
  · split
    · exact doClose_closed _
    · exact h

theorem attempt_closed (act : Nat → ErrAct) (s : State) (p : Bytes) (o : Outcome) (h : s.isOpen = false) :
    (attempt act s p o).1.isOpen = false := by
  unfold attempt; split
  · simp only; split <;> simp_all
  · simp only
    split <;> split <;> first | exact doClose_closed _ | simp_all

theorem step_closed (act : Nat → ErrAct) (s : State) (op : Op) (h : s.isOpen = false) :
    (step act s op).1.isOpen = false := by
  cases op with
  | write p => simp only [step, stepCore]; split <;> simpa using h
  | close =>
    simp only [step, stepCore]; split
    · exact doClose_closed _
    · exact h
  | writable o =>
    simp only [step, stepCore]; split
    · exact afterWrite_closed _ h
    · split
      · exact afterWrite_closed _ (attempt_closed _ _ _ _ h)
      · split
        · exact afterWrite_closed _ h
        · exact h

theorem interest_step (act : Nat → ErrAct) (s : State) (op : Op) (h : InterestInv s) :
    InterestInv (step act s op).1 := by
  cases hopen : s.isOpen with
  | false =>
    intro h'
    rw [step_closed act s op hopen] at h'
    exact absurd h' (by simp)
  | true =>
    obtain ⟨kind, buf, closeReq, isOpen, interest⟩ := s
    unfold InterestInv at h ⊢
    simp only at h hopen
    subst hopen
    simp only [forall_const] at h
    cases op with
    | write p => simp [step, stepCore]
    | close => cases buf <;> simp_all [step, stepCore, doClose]
    | writable o =>
      cases buf with
      | nil => cases kind <;> cases closeReq <;> simp [step, stepCore, afterWrite, doClose]
      | cons p rest =>
        have hi : interest = true := h.mpr (by simp)
        subst hi
        cases o with
        | accept k =>
          cases kind <;> cases rest <;> cases closeReq <;>
            simp [step, stepCore, afterWrite, doClose, attempt, effective] <;>
            (repeat' split) <;> simp_all
        | refuse e =>
          cases kind <;> cases rest <;> cases closeReq <;> cases hr : (act e).requeue <;> cases hx : (act e).close <;>
            simp [step, stepCore, afterWrite, doClose, attempt, effective, hr, hx]

theorem interest_run (act : Nat → ErrAct) (ops : List Op) (s : State) (h : InterestInv s) :
    InterestInv (run act s ops).1 := by
  induction ops generalizing s with
  | nil => exact h
  | cons op ops ih => exact ih _ (interest_step act s op h)

/-- a closed server connection: no send is even attempted, and it stays closed -/
theorem server_closed_step (act : Nat → ErrAct) (s : State) (op : Op)
    (hk : s.kind = .server) (hc : s.isOpen = false) :
    (step act s op).1.kind = .server ∧ (step act s op).1.isOpen = false ∧
      ∀ ev ∈ (step act s op).2, (∀ b, ev ≠ .acc b) ∧ (∀ e, ev ≠ .refuse e) ∧ ev ≠ .sockClose := by
  obtain ⟨kind, buf, closeReq, isOpen, interest⟩ := s
  simp only at hk hc
  subst hk hc
  cases op with
  | write p => simp [step, stepCore]
  | close => cases buf <;> simp [step, stepCore, doClose]
  | writable o =>
    cases buf with
    | nil => cases closeReq <;> simp [step, stepCore, afterWrite, doClose]
    | cons p rest => cases rest <;> cases closeReq <;> simp [step, stepCore, afterWrite, doClose]

theorem server_closed_run (act : Nat → ErrAct) (ops : List Op) (s : State)
    (hk : s.kind = .server) (hc : s.isOpen = false) :
    ∀ ev ∈ (run act s ops).2, (∀ b, ev ≠ .acc b) ∧ (∀ e, ev ≠ .refuse e) ∧ ev ≠ .sockClose := by
  induction ops generalizing s with
  | nil => simp [run]
  | cons op ops ih =>
    have ⟨h1, h2, h3⟩ := server_closed_step act s op hk hc
    intro ev hev
    simp only [run, List.mem_append] at hev
    rcases hev with h | h
    · exact h3 ev h
    · exact ih _ h1 h2 ev h

end Stream
end CV

import CV.Proofs.InvTasksStep
import CV.Proofs.InvEffects
/-
waitingHandlers accounting, part 8: consequences of `T46Inv` used by CV/Props/C04.lean, and the witness that the run
hypothesis `T46Guard` cannot be dropped (the run `cw2` of CV/Proofs/InvEffects.lean: a handler of `foo` calls `stop()`
while the manager is running but not executing; the inline ticks run the task loop inside the handler).
-/
namespace CV.Core

theorem t46_sum_ge_mem {α} (g : α → Int) (hg : ∀ a, 0 ≤ g a) : ∀ (l : List α) (a : α), a ∈ l → g a ≤ (l.map g).sum
  | [], _, h => by cases h
  | b :: l, a, h => by
    rw [List.map_cons, List.sum_cons]
    have hnn : 0 ≤ (l.map g).sum := by
      clear h
      induction l with
      | nil => simp
      | cons x l ih => rw [List.map_cons, List.sum_cons]; have := hg x; omega
    rcases List.mem_cons.1 h with h1 | h1
    · subst h1; omega
    · have := t46_sum_ge_mem g hg l a h1; have := hg b; omega

theorem St.t46_WT_nonneg (s : St) (e : Nat) : 0 ≤ s.t46_WT e := by
  unfold St.t46_WT
  induction s.comps with
  | nil => simp
  | cons x l ih => rw [List.map_cons, List.sum_cons]; have := t46_sumTasks_nonneg e x.tasks; omega

theorem St.t46_WW_nonneg (s : St) (e : Nat) : 0 ≤ s.t46_WW e := by
  unfold St.t46_WW
  induction s.waits with
  | nil => simp
  | cons x l ih => rw [List.map_cons, List.sum_cons]; have := WaitSt.t46_wt_nonneg e x; omega

theorem St.t46_task_le_WT (s : St) (e x : Nat) (t : Task) (ht : t ∈ (s.comp x).tasks) : t.t46_wt e ≤ s.t46_WT e := by
  have hx : x < s.comps.length := by
    apply Classical.byContradiction
    intro hn
    rw [St.t46_comp_oor s x hn] at ht
    cases ht
  have h1 : s.comp x ∈ s.comps := by
    unfold St.comp
    rw [List.getD_eq_getElem?_getD, List.getElem?_eq_getElem hx]
    exact List.getElem_mem hx
  have h2 := t46_sum_ge_mem (fun c : Comp => t46_sumTasks e c.tasks) (fun c => t46_sumTasks_nonneg e c.tasks) s.comps _ h1
  have h3 := t46_sum_ge_mem (Task.t46_wt e) (Task.t46_wt_nonneg e) (s.comp x).tasks t ht
  unfold St.t46_WT
  unfold t46_sumTasks at h2 ⊢
  omega

theorem St.t46_wait_le_WW (s : St) (e w : Nat) (hw : w < s.waits.length) : (s.wait w).t46_wt e ≤ s.t46_WW e := by
  have h1 : s.wait w ∈ s.waits := by
    unfold St.wait
    rw [List.getD_eq_getElem?_getD, List.getElem?_eq_getElem hw]
    exact List.getElem_mem hw
  exact t46_sum_ge_mem (WaitSt.t46_wt e) (WaitSt.t46_wt_nonneg e) s.waits _ h1

theorem t46_frame_le_WF (e : Nat) (k : List Frame) (f : Frame) (hf : f ∈ k) : f.t46_wt e ≤ t46_WF e k :=
  t46_sum_ge_mem (Frame.t46_wt e) (Frame.t46_wt_nonneg e) k f hf

/-- `waitingHandlers` pays for every obligation -/
theorem T46Inv.bound {c : Cfg} (h : T46Inv c) (e : Nat) :
    c.st.t46_WT e + c.st.t46_WW e + t46_WF e c.stack ≤ (c.st.ev e).waiting := by
  have := h.acct e
  unfold St.t46_D at this
  omega

theorem T46Inv.waiting_nonneg {c : Cfg} (h : T46Inv c) (e : Nat) : 0 ≤ (c.st.ev e).waiting := by
  have := h.bound e
  have := St.t46_WT_nonneg c.st e
  have := St.t46_WW_nonneg c.st e
  have := t46_WF_nonneg e c.stack
  omega

/-- a task-set entry of `e` forces `waitingHandlers ≥ 1` (`≥ 2` when it carries a suspended caller) -/
theorem T46Inv.task_bound {c : Cfg} (h : T46Inv c) (x : Nat) (t : Task) (ht : t ∈ (c.st.comp x).tasks) :
    (if t.parent.isSome then 2 else 1) ≤ (c.st.ev t.e).waiting := by
  have h1 := h.bound t.e
  have h2 := St.t46_task_le_WT c.st t.e x t ht
  have h3 : t.t46_wt t.e = if t.parent.isSome then 2 else 1 := by simp [Task.t46_wt]
  have := St.t46_WW_nonneg c.st t.e
  have := t46_WF_nonneg t.e c.stack
  omega

/-- when `waitingHandlers` is 0 nothing is left: no task, no pending `call`/`wait`, no resumed caller -/
theorem T46Inv.no_obligations {c : Cfg} (h : T46Inv c) (e : Nat) (hw : (c.st.ev e).waiting = 0) :
    (∀ x t, t ∈ (c.st.comp x).tasks → t.e ≠ e) ∧
    (∀ w, w < c.st.waits.length → (c.st.wait w).t46_pending = true → (c.st.wait w).taskEvent ≠ e) ∧
    (∀ r t p v, Frame.ptParent r t p v ∈ c.stack → t.e ≠ e) := by
  have hb := h.bound e
  have h1 := St.t46_WT_nonneg c.st e
  have h2 := St.t46_WW_nonneg c.st e
  have h3 := t46_WF_nonneg e c.stack
  refine ⟨fun x t ht he => ?_, fun w hlt hp he => ?_, fun r t p v hf he => ?_⟩
  · have := St.t46_task_le_WT c.st e x t ht
    have : 1 ≤ t.t46_wt e := by simp only [Task.t46_wt, he, if_true]; split <;> omega
    omega
  · have := St.t46_wait_le_WW c.st e w hlt
    rw [WaitSt.t46_wt_of_pending _ _ hp, if_pos he] at this
    omega
  · have := t46_frame_le_WF e c.stack _ hf
    simp only [Frame.t46_wt, he, if_true] at this
    omega

/-- a task frame in flight: its task is still registered (so it counts), except after the unregistration (`ptParent`,
    which counts 2 itself) -/
theorem T46Inv.inflight_bound {c : Cfg} (h : T46Inv c) (r : Nat) (t : Task) (k : List Frame)
    (hs : c.stack = .ptBody r t :: k ∨ c.stack = .ptOwn r t :: k ∨ ∃ p v, c.stack = .ptParent r t p v :: k) :
    1 ≤ (c.st.ev t.e).waiting := by
  have hsh := h.shape
  rcases hs with hs | hs | ⟨p, v, hs⟩ <;> rw [hs] at hsh
  · have := h.task_bound r t hsh.1.2
    split at this <;> omega
  · have := h.task_bound r t hsh.1.2
    split at this <;> omega
  · have h1 := h.bound t.e
    rw [hs, t46_WF_cons] at h1
    have := St.t46_WT_nonneg c.st t.e
    have := St.t46_WW_nonneg c.st t.e
    have := t46_WF_nonneg t.e k
    simp only [Frame.t46_wt, if_true] at h1
    omega

/-- everything below a task loop is quiet -/
theorem T46Shape.loop_quiet {s : St} : ∀ {a : List Frame} {x : Nat} {ts : List Task} {b : List Frame},
    T46Shape s (a ++ Frame.taskLoop x ts :: b) → t46_quiet b = true ∧ s.rootOf x = x ∧
      ∀ t ∈ ts, t ∈ (s.comp x).tasks
  | [], _, _, _, h => ⟨h.1.1, h.1.2.1, h.1.2.2.2⟩
  | _ :: a, _, _, _, h => T46Shape.loop_quiet (a := a) h.2

/-! ## the end-of-event step, and the witness -/

/-- the end-of-event step of `e` goes through in `c`: `_eventDone(e)` is entered with `waitingHandlers = 0` -/
def T46Pass (c : Cfg) (e : Nat) : Prop :=
  ∃ r err k, c.stack = .eventDone r e err :: k ∧ c.exn = none ∧ (c.st.ev e).waiting = 0

def t46_passB (c : Cfg) (e : Nat) : Bool :=
  match c.exn, c.stack with
  | none, .eventDone _ e' _ :: _ => e' == e && decide ((c.st.ev e).waiting = 0)
  | _, _ => false

theorem t46_passB_spec (c : Cfg) (e : Nat) (h : t46_passB c e = true) : T46Pass c e := by
  unfold t46_passB at h
  split at h
  · rename_i r e' err k hx hs
    simp only [Bool.and_eq_true, beq_iff_eq, decide_eq_true_eq] at h
    obtain ⟨h1, h2⟩ := h
    subst h1
    exact ⟨r, err, k, hs, hx, h2⟩
  · cases h

/-- `tick()` with pending tasks entered while a handler or a task is in progress -/
def t46_badTickB (c : Cfg) : Bool :=
  match c.exn, c.stack with
  | none, .tick x :: k => !(c.st.comp x).tasks.isEmpty && !(t46_quiet k)
  | _, _ => false

theorem t46_badTickB_spec (c : Cfg) (h : t46_badTickB c = true) : ¬ T46Guard c := by
  intro hg
  unfold t46_badTickB at h
  split at h
  · rename_i x k hx hs
    simp only [Bool.and_eq_true, Bool.not_eq_true'] at h
    have hne : (c.st.comp x).tasks ≠ [] := by
      intro h0; rw [h0] at h; simp at h
    have := (hg.tick x k hs hx hne).1
    rw [this] at h
    exact absurd h.2 (by simp)
  · cases h

/-- no `.disp e` entry was logged between two configurations of one run -/
def t46_noDispB (c1 c2 : Cfg) (e : Nat) : Bool :=
  let d := c2.st.log.length - c1.st.log.length
  c2.st.log.drop d == c1.st.log && !(c2.st.log.take d).contains (Entry.disp e)

theorem t46_noDispB_spec (c1 c2 : Cfg) (e : Nat) (h : t46_noDispB c1 c2 e = true) :
    ∃ es, c2.st.log = es ++ c1.st.log ∧ Entry.disp e ∉ es := by
  unfold t46_noDispB at h
  simp only [Bool.and_eq_true, beq_iff_eq, Bool.not_eq_true', List.contains_eq_mem, decide_eq_false_iff_not] at h
  refine ⟨c2.st.log.take (c2.st.log.length - c1.st.log.length), ?_, h.2⟩
  have := List.take_append_drop (c2.st.log.length - c1.st.log.length) c2.st.log
  rw [h.1] at this
  exact this.symm

theorem t46_s0w_init : T46Init C05.s0w := by
  refine ⟨fun x => ?_, rfl, fun e => ?_⟩
  · cases x <;> rfl
  · have : C05.s0w.evs = [] := rfl
    have h2 : C05.s0w.ev e = dfltEv := by unfold St.ev; rw [this]; rfl
    rw [h2]; decide

theorem t46_cw2_pass1 : t46_passB (C05.cw2 55) 0 = true := by decide +kernel
theorem t46_cw2_pass2 : t46_passB (C05.cw2 86) 0 = true := by decide +kernel
theorem t46_cw2_nodisp : t46_noDispB (C05.cw2 55) (C05.cw2 86) 0 = true := by decide +kernel
theorem t46_cw2_badtick : t46_badTickB (C05.cw2 19) = true := by decide +kernel

end CV.Core

import CV.Proofs.InvValueLocal
/-
C04, machine level, part 5: control flow of the handler loop and of the task error branch.
  * `step_stack_suffix` : a step never touches the frames below the top frame;
  * the `.hLoop` / `.hAfter` / `.hApply` steps, in particular the `.raised` case
    (`step_hAfter_raised`): the loop goes on with the remaining handlers;
  * `chooseHandler_mem` / `step_hLoop_cons` : each round removes exactly the chosen handler.
-/
namespace CV.Core

/-- closes `∃ fs, (arm).stack = fs ++ k` -/
macro "stk04" : tactic => `(tactic| repeat' (first | exact ⟨[], rfl⟩ | exact ⟨_, rfl⟩ | exact ⟨[_, _, _], rfl⟩ | split))

theorem stepFrame_suffix (c : Cfg) (k : List Frame) (f : Frame) : ∃ fs, (stepFrame c k f).stack = fs ++ k := by
  cases f <;>
  simp only [stepFrame, Cfg.effectDone, Cfg.eventDone, Cfg.updateRoot, Cfg.register, Cfg.registerFin, Cfg.prepUnregFin,
    Cfg.stopMgr, Cfg.ticks, Cfg.stopFin, Cfg.timerNew, Cfg.acts, Cfg.doFin, Cfg.drainQ, Cfg.stepGen, Cfg.processTask,
    Cfg.contStop, Cfg.contError, Cfg.ptBodyWait, Cfg.ptBodyExc, Cfg.ptBody, Cfg.ptOwn, Cfg.ptParent, Cfg.ptFin,
    Cfg.dispatcher, Cfg.hLoop, Cfg.invokeUser, Cfg.invoke, Cfg.invokeFin, Cfg.hAfter, Cfg.hApply, Cfg.dispFin,
    Cfg.dispatchLoop, Cfg.flush, Cfg.flushFin, Cfg.tick, Cfg.taskLoop, Cfg.tickFin, Cfg.tickGen, Cfg.run, Cfg.runLoop,
    Cfg.runFin, Cfg.runRethrow] <;> stk04

theorem unwind_suffix (c : Cfg) (k : List Frame) (ex : Exn) (f : Frame) : ∃ fs, (unwind c k ex f).stack = fs ++ k := by
  cases f <;>
  simp only [unwind, Cfg.ptFin, Cfg.invokeFin, Cfg.flushFin, Cfg.tickFin, Cfg.runCatchExn, Cfg.runRethrow] <;> stk04


/-- a step never touches the frames below the top frame: it replaces the top frame by zero or
    more frames (normal execution and unwinding alike) -/
theorem step_stack_suffix (c : Cfg) (f : Frame) (k : List Frame) (h : c.stack = f :: k) :
    ∃ fs, (step c).stack = fs ++ k := by
  cases hx : c.exn with
  | some ex => rw [step_cons_exn c f k ex h hx]; exact unwind_suffix ..
  | none => rw [step_cons c f k h hx]; exact stepFrame_suffix ..

/-- … hence any lower part `k` of the stack survives as long as something is above it -/
theorem step_keeps_below (c : Cfg) (fs k : List Frame) (h : c.stack = fs ++ k) (hne : fs ≠ []) :
    ∃ fs', (step c).stack = fs' ++ k := by
  cases fs with
  | nil => exact absurd rfl hne
  | cons f rest =>
    obtain ⟨gs, hg⟩ := step_stack_suffix c f (rest ++ k) (by simpa using h)
    exact ⟨gs ++ rest, by rw [hg, List.append_assoc]⟩

/-! ### the handler loop -/

theorem chooseHandler_mem (s : St) (e h0 : Nat) (rest0 : List Nat) : s.chooseHandler e h0 rest0 ∈ h0 :: rest0 := by
  have hsub : ∀ (p : Nat → Bool) x, x ∈ (h0 :: rest0).takeWhile p → x ∈ h0 :: rest0 :=
    fun p x hx => (List.takeWhile_sublist p).subset hx
  unfold St.chooseHandler
  dsimp only
  split
  · split
    · rename_i hc
      simp only [Bool.and_eq_true, List.contains_eq_mem, decide_eq_true_eq] at hc
      exact hsub _ _ hc.2
    · exact List.mem_cons_self
  · split
    · cases hf : List.find? (fun h => (s.hs.getD h dfltHandler).kind.code == _ && hkey s (s.hs.getD h dfltHandler) == _)
          (List.takeWhile (fun h => (s.hs.getD h dfltHandler).prio == (s.hs.getD h0 dfltHandler).prio) (h0 :: rest0)) with
      | none => simp
      | some a => exact hsub _ _ (List.mem_of_find?_eq_some hf)
    · exact List.mem_cons_self
  · exact List.mem_cons_self


/-- one round of the handler loop: the chosen handler `h` is one of the pending ones, it is
    invoked, and exactly `h` is removed from the pending list (which is a permutation of
    `h :: remaining`) -/
theorem step_hLoop_cons (c : Cfg) (r e h0 : Nat) (rest0 : List Nat) (err : Bool) (stale : Outcome) (k : List Frame)
    (h : c.stack = .hLoop r e (h0 :: rest0) err stale :: k) (hx : c.exn = none) :
    (step c).stack = .invoke r (c.st.chooseHandler e h0 rest0) e ::
        .hAfter r e ((h0 :: rest0).erase (c.st.chooseHandler e h0 rest0)) err stale :: k ∧
    (step c).exn = none ∧
    c.st.chooseHandler e h0 rest0 ∈ h0 :: rest0 ∧
    (h0 :: rest0).Perm (c.st.chooseHandler e h0 rest0 :: (h0 :: rest0).erase (c.st.chooseHandler e h0 rest0)) ∧
    ((h0 :: rest0).erase (c.st.chooseHandler e h0 rest0)).length = rest0.length := by
  have hm := chooseHandler_mem c.st e h0 rest0
  rw [step_cons c _ _ h hx]
  refine ⟨rfl, hx, hm, List.perm_cons_erase hm, ?_⟩
  rw [List.length_erase_of_mem hm]; rfl

/-- no handler left: the loop ends normally -/
theorem step_hLoop_nil (c : Cfg) (r e : Nat) (err : Bool) (stale : Outcome) (k : List Frame)
    (h : c.stack = .hLoop r e [] err stale :: k) (hx : c.exn = none) :
    step c = { c with stack := .dispFin r e err :: k } := by
  rw [step_cons c _ _ h hx]; rfl

/-- a handler raised: `handlerRaised` runs, the loop continues with the *same* remaining
    handlers `rest`, the frames below are untouched, no exception is pending -/
theorem step_hAfter_raised (c : Cfg) (r e : Nat) (rest : List Nat) (err : Bool) (stale : Outcome) (k : List Frame)
    (h : c.stack = .hAfter r e rest err stale :: k) (hx : c.exn = none) (hr : c.ret.outcome = .raised) :
    step c = { c with st := c.st.handlerRaised r e, stack := .hApply r e rest true .raised :: k } := by
  rw [step_cons c _ _ h hx]
  simp only [stepFrame, Cfg.hAfter, hr]
  rfl

/-- whatever the handler did (returned, raised, SystemExit, KeyboardInterrupt): after `.hAfter`
    the stack is `[.hApply … rest …] ++ k` (below a `stop()` call in the two exit cases) -/
theorem step_hAfter_stack (c : Cfg) (r e : Nat) (rest : List Nat) (err : Bool) (stale : Outcome) (k : List Frame)
    (h : c.stack = .hAfter r e rest err stale :: k) (hx : c.exn = none) :
    (step c).exn = none ∧
    ∃ err' v, (step c).stack = .hApply r e rest err' v :: k ∨
      ∃ code, (step c).stack = .stopMgr r code :: .hApply r e rest err' v :: k := by
  rw [step_cons c _ _ h hx]
  simp only [stepFrame, Cfg.hAfter]
  split
  · exact ⟨hx, err, stale, Or.inr ⟨_, rfl⟩⟩
  · exact ⟨hx, err, stale, Or.inr ⟨_, rfl⟩⟩
  · exact ⟨hx, true, .raised, Or.inl rfl⟩
  · exact ⟨hx, err, .none, Or.inl rfl⟩
  · exact ⟨hx, err, .value _, Or.inl rfl⟩
  · exact ⟨hx, err, .gen _, Or.inl rfl⟩

/-- `.hApply` stores the result and goes back to the loop head with the same `rest`, unless the
    event was stopped (`event.stop()`) -/
theorem step_hApply (c : Cfg) (r e : Nat) (rest : List Nat) (err : Bool) (v : Outcome) (k : List Frame)
    (h : c.stack = .hApply r e rest err v :: k) (hx : c.exn = none) :
    (step c).st = (c.st.applyValue r e v).geTasksCheck r e ∧ (step c).exn = none ∧
    (step c).stack = (if ((c.st.applyValue r e v).ev e).stopped then Frame.dispFin r e err
                      else Frame.hLoop r e rest err v) :: k := by
  rw [step_cons c _ _ h hx]
  simp only [stepFrame, Cfg.hApply]
  split <;> exact ⟨rfl, hx, rfl⟩

/-! ### the task error branch -/

theorem step_ptOwn_raised (c : Cfg) (r : Nat) (t : Task) (k : List Frame)
    (h : c.stack = .ptOwn r t :: k) (hx : c.exn = none) (hr : c.ret.yield = .raised) :
    (step c).st = (c.st.errorBranch r t false).2 ∧ (step c).exn = none ∧
    (step c).stack = (if (c.st.errorBranch r t false).1 then [Frame.eventDone r t.e true] else []) ++ k := by
  rw [step_cons c _ _ h hx]
  simp only [stepFrame, Cfg.ptOwn, hr, Cfg.contError]
  split <;> exact ⟨rfl, hx, rfl⟩

theorem step_ptParent_raised (c : Cfg) (r : Nat) (t : Task) (p : Nat) (viaThrow : Bool) (k : List Frame)
    (h : c.stack = .ptParent r t p viaThrow :: k) (hx : c.exn = none) (hr : c.ret.yield = .raised) :
    (step c).st = (c.st.errorBranch r t true).2 ∧ (step c).exn = none ∧
    (step c).stack = (if (c.st.errorBranch r t true).1 then [Frame.eventDone r t.e true] else []) ++ k := by
  rw [step_cons c _ _ h hx]
  simp only [stepFrame, Cfg.ptParent, hr, Cfg.contError]
  split <;> exact ⟨rfl, hx, rfl⟩

/-- `_eventDone`: returns at once while handlers are waiting, otherwise does the feedback
    (`eventDonePre`) and goes on to `_effectDone` -/
theorem step_eventDone (c : Cfg) (r e : Nat) (err : Bool) (k : List Frame)
    (h : c.stack = .eventDone r e err :: k) (hx : c.exn = none) :
    (step c).st = (c.st.eventDonePre r e err).2 ∧
    (step c).stack = (if (c.st.eventDonePre r e err).1 then [Frame.effectDone r e true] else []) ++ k := by
  rw [step_cons c _ _ h hx]
  simp only [stepFrame, Cfg.eventDone]
  split <;> exact ⟨rfl, rfl⟩


/-! ### the run of the handler loop for one dispatch

`InLoop r e k hs c`: somewhere in the stack of `c`, directly above the frames `k`, sits the
handler loop of event `e` (dispatched by `r`) with the handlers `hs` still to be invoked - at
its head (`.hLoop`), waiting for the running handler to return (`.hAfter`, anything above
it), or applying a result (`.hApply`). -/

def loopFrame (r e : Nat) (hs : List Nat) : Frame → Prop
  | .hLoop r' e' hs' _ _ => r' = r ∧ e' = e ∧ hs' = hs
  | .hAfter r' e' hs' _ _ => r' = r ∧ e' = e ∧ hs' = hs
  | .hApply r' e' hs' _ _ => r' = r ∧ e' = e ∧ hs' = hs
  | _ => False

def InLoop (r e : Nat) (k : List Frame) (hs : List Nat) (c : Cfg) : Prop :=
  ∃ fs X, c.stack = fs ++ X :: k ∧ loopFrame r e hs X

/-- One step of a configuration inside the loop of `e` with `hs` pending does one of four things:
    1. stays in the loop with the same pending handlers (the running handler, anything it calls,
       the bookkeeping between two handlers);
    2. starts the next handler: some `h ∈ hs` is invoked and exactly `h` leaves the pending list;
    3. ends the loop normally (`.dispFin`): only when nothing is pending or the event was stopped;
    4. is dropped by an exception that unwinds through the loop frame.
    Whatever a handler does - return, raise, `SystemExit` - it cannot make the loop skip or
    repeat a handler. -/
theorem loop_step (r e : Nat) (k : List Frame) (hs : List Nat) (c : Cfg) (h : InLoop r e k hs c) :
    InLoop r e k hs (step c)
    ∨ (∃ x, x ∈ hs ∧ hs.Perm (x :: hs.erase x) ∧ (hs.erase x).length + 1 = hs.length ∧
        ∃ err stale, (step c).stack = .invoke r x e :: .hAfter r e (hs.erase x) err stale :: k)
    ∨ (∃ err, (step c).stack = .dispFin r e err :: k ∧
        (hs = [] ∨ ∃ v, c.stack = .hApply r e hs err v :: k ∧ ((c.st.applyValue r e v).ev e).stopped = true))
    ∨ (c.exn ≠ none ∧ (step c).stack = k) := by
  obtain ⟨fs, X, hst, hX⟩ := h
  cases fs with
  | cons f rest =>
    -- something runs above the loop frame: it stays
    obtain ⟨gs, hg⟩ := step_keeps_below c (f :: rest) (X :: k) hst (by simp)
    exact Or.inl ⟨gs, X, hg, hX⟩
  | nil =>
    have hst' : c.stack = X :: k := by simpa using hst
    cases hx : c.exn with
    | some ex =>
      refine Or.inr (Or.inr (Or.inr ⟨by simp, ?_⟩))
      rw [step_cons_exn c X k ex hst' hx]
      cases X <;> first | rfl | exact False.elim hX
    | none =>
      cases X with
      | hLoop r' e' hs' err stale =>
        obtain ⟨rfl, rfl, rfl⟩ := hX
        cases hs' with
        | nil =>
          refine Or.inr (Or.inr (Or.inl ⟨err, ?_, Or.inl rfl⟩))
          rw [step_hLoop_nil c _ _ err stale k hst' hx]
        | cons h0 rest0 =>
          obtain ⟨h1, _, h3, h4, h5⟩ := step_hLoop_cons c _ _ h0 rest0 err stale k hst' hx
          exact Or.inr (Or.inl ⟨_, h3, h4, by rw [h5]; rfl, err, stale, h1⟩)
      | hAfter r' e' hs' err stale =>
        obtain ⟨rfl, rfl, rfl⟩ := hX
        obtain ⟨_, err', v, h1⟩ := step_hAfter_stack c _ _ hs' err stale k hst' hx
        cases h1 with
        | inl h1 => exact Or.inl ⟨[], _, h1, ⟨rfl, rfl, rfl⟩⟩
        | inr h1 => obtain ⟨code, h1⟩ := h1; exact Or.inl ⟨[_], _, h1, ⟨rfl, rfl, rfl⟩⟩
      | hApply r' e' hs' err v =>
        obtain ⟨rfl, rfl, rfl⟩ := hX
        obtain ⟨_, _, h1⟩ := step_hApply c _ _ hs' err v k hst' hx
        by_cases hstop : ((c.st.applyValue r' e' v).ev e').stopped = true
        · rw [if_pos hstop] at h1
          exact Or.inr (Or.inr (Or.inl ⟨err, h1, Or.inr ⟨v, hst', hstop⟩⟩))
        · rw [if_neg hstop] at h1
          exact Or.inl ⟨[], _, h1, ⟨rfl, rfl, rfl⟩⟩
      | _ => exact False.elim hX

end CV.Core

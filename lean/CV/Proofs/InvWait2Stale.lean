import CV.Proofs.InvWait2Flow
/-
C06, second round, part 2: `no_timeout_after_resume` - the other direction of "never both".

After the resumption step of wait state `w` no later configuration invokes `w`'s `_on_tick` closure, hence none
creates a `TimeoutError` carrier (`GenRec.exc w`) or logs `.timeout` through one - PROVIDED that
  (a) at the resumption step no handler loop in flight still holds `w`'s `_on_tick` handler in its pending
      list (`W6BNoStaleTick`).  This is NOT an invariant, neither of the model nor of the real code: a handler of
      `generate_events` that runs the task loop (`tick()`; in the model `stop()` while `running ∧ ¬executing`)
      lets the call finish and the caller be resumed while the enclosing `_dispatcher` still iterates over a
      handler list computed before `_on_done` removed the tick handler; the stale `_on_tick` then finds the
      countdown at 0 and registers the TimeoutError task (see `CV/Proofs/InvWait2Wit.lean` and the report);
  (b) every later `_dispatcher` step hands only in-range handler ids to its loop, and a temporary tick handler
      only when it is installed (`W6BLive`; this is the cache-liveness property C01 proves for dispatchers
      running on a root component from `InitForest ∧ InitHandlers ∧ InitCache` states - `W6InitWait` alone does
      not constrain the handler cache or `_globals`).
-/
namespace CV.Core

/-- hypothesis (b) for one configuration: if it is a `_dispatcher` step, the list handed to the handler loop
    holds only declared handler records, and a temporary `_on_tick` handler only if it is installed -/
def W6BLive (c : Cfg) : Prop :=
  ∀ r e rem k hs, c.stack = .dispatcher r e rem :: k → c.exn = none → (c.st.dispatchPre r e rem).1 = some hs →
    ∀ h, h ∈ hs → h < (step c).st.hs.length ∧
      ∀ w, ((step c).st.handler h).kind = .waitTick w →
        (some Name.generateEvents, h) ∈ ((step c).st.comp ((step c).st.wait w).owner).htab

/-- hypothesis (a): no frame of the stack still holds a `_on_tick` handler of `w` (or an undeclared id) -/
def W6BNoStaleTick (c : Cfg) (w : Nat) : Prop :=
  ∀ h, h ∈ w6b_pending c.stack → h < c.st.hs.length ∧ (c.st.handler h).kind ≠ .waitTick w

/-- `c'` comes later than `c` in the same admissible session, and (b) holds at every step taken in between -/
inductive W6BLater (n0 : Nat) : Cfg → Cfg → Prop
  | refl (c : Cfg) : W6BLater n0 c c
  | step {c c' : Cfg} : W6BLater n0 c c' → W6BLive c' → W6BLater n0 c (CV.Core.step c')
  | next {c c' : Cfg} (d : Nat) (tape : List Entry) (op : ExtOp) (hop : op.w6ok n0) :
      W6BLater n0 c c' → done c' = true → W6BLater n0 c (startOf (envChange c'.st d tape) op)

theorem W6BLater.later {n0 : Nat} {c c' : Cfg} (h : W6BLater n0 c c') : W6Later n0 c c' := by
  induction h with
  | refl => exact W6Later.refl _
  | step _ _ ih => exact W6Later.step ih
  | next d tape op hop _ hd ih => exact W6Later.next d tape op hop ih hd

/-! ### how an `exc` generator record comes about -/

theorem w6b_exc_step (c : Cfg) (g w : Nat) (b : Bool) (hg : (step c).st.gen g = .exc w b) :
    c.st.gen g = .exc w b ∨
    (∃ r h e k, c.stack = .invoke r h e :: k ∧ c.exn = none ∧ (c.st.handler h).kind = .waitTick w ∧
      (c.st.wait w).timeout = 0) ∨
    (∃ r t k b0, c.stack = .ptBody r t :: k ∧ c.exn = none ∧ c.st.gen t.g = .exc w b0) := by
  by_cases hne : (step c).st.gen g = c.st.gen g
  · left; rw [← hne]; exact hg
  · right
    by_cases hnew : (c.st.gen g).w6_isExc = false
    · left
      obtain ⟨r, h, e, k, h1, h2, h3, h4, _, _⟩ := w6_exc_needs_timeout0 c g w b hg hnew
      exact ⟨r, h, e, k, h1, h2, h3, h4⟩
    · rcases w6_exc_only c g (by rw [hg]; rfl) hne with ⟨r, h, e, k, w0, hs, hxn, hk⟩ | ⟨r, t, k, w0, b0, hs, hxn, hgen⟩
      · exfalso
        rw [w6_step_invoke c r h e k hs hxn, Cfg.w6_invoke_waitTick c k r h e w0 hk] at hg hne
        rcases St.w6_onWaitTick_gen (c.w6_invokeSt h e) w0 g with h1 | ⟨_, h2, _⟩
        · rw [h1, Cfg.w6_invokeSt_gen] at hne; exact hne rfl
        · rw [Cfg.w6_invokeSt_gens] at h2
          apply hnew
          rw [St.w6_gen_ge _ _ (by rw [h2]; exact Nat.le_refl _)]
          rfl
      · right
        rw [w6_step_ptBody c r t k hs hxn] at hg hne
        have h2 : c.ptBody k r t = c.ptBodyExc k r t w0 b0 := by unfold Cfg.ptBody; rw [hgen]
        rw [h2] at hg hne
        rcases Cfg.w6_ptBodyExc_ex c k r t w0 b0 with hq | hq
        · exact absurd (hq.exc rfl g (by rw [hg]; rfl)) hne
        · have h3 := hq.exc rfl g (by rw [hg]; rfl)
          simp only [St.w6_unregisterTask_gen] at h3
          rcases St.w6_setGen_gen_cases c.st t.g (.exc w0 true) g with h4 | ⟨h4, _, h5⟩
          · rw [h4] at h3; exact absurd h3 hne
          · subst h4
            rw [h5, hg] at h3
            injection h3 with a1 _
            subst a1
            exact ⟨r, t, k, b0, hs, hxn, hgen⟩

/-! ### a `TimeoutError` carrier exists only for a finished wait state -/

/-- every `exc` generator belongs to a wait state in phase 4 -/
def W6BExcFin (s : St) : Prop := ∀ g w b, s.gen g = .exc w b → w6_phase s w = 4

theorem w6b_step_excFin {n0 : Nat} {c : Cfg} (h : W6CInv n0 c) (hE : W6BExcFin c.st) : W6BExcFin (step c).st := by
  intro g w b hg
  have hmono := w6_phase_mono h w
  have hle := w6_phase_le_four (step c).st w
  rcases w6b_exc_step c g w b hg with h1 | ⟨r, hh, e, k, hs, hx, hk, h0⟩ | ⟨r, t, k, b0, hs, hx, hgen⟩
  · have := hE g w b h1; omega
  · exact w6_timeout_finishes h w r hh e k hs hx hk h0
  · have := hE t.g w b0 hgen; omega

theorem W6ReachW.excFin {s0 : St} (hi : W6InitWait s0) {c : Cfg} (h : W6ReachW s0.hs.length s0 c) : W6BExcFin c.st := by
  induction h with
  | init d tape op hop =>
    intro g w b hg
    have : (startOf (envChange s0 d tape) op).st.gen g = dfltGen := by
      cases op <;> simp [startOf, startDo, startTick, startFlush, startRun, Cfg.start, envChange, St.gen, hi.gens]
    rw [this] at hg; cases hg
  | step hr ih => exact w6b_step_excFin (hr.cinv hi) ih
  | next d tape op hop _ _ ih =>
    intro g w b hg
    have h1 : (startOf (envChange _ d tape) op).st.gen g = _ := hg
    have h2 := ih g w b (by cases op <;> exact h1)
    rw [w6_phase_start]; exact h2

/-- at the resumption step of `w` no `TimeoutError` carrier of `w` exists -/
theorem w6b_no_exc_at_resume {n0 : Nat} {c : Cfg} (h : W6CInv n0 c) (hE : W6BExcFin c.st) (w : Nat)
    (hr : W6ResumesW c w) : ∀ g b, c.st.gen g ≠ .exc w b := by
  intro g b hg
  have := hE g w b hg
  have := (w6_resume_phase h w hr).1
  omega

/-! ### the invariant after the resumption -/

/-- the state of affairs after `w` was resumed: `w` is finished, no handler loop holds its tick handler, no
    `TimeoutError` carrier of `w` exists -/
structure W6BAfter (c : Cfg) (w : Nat) : Prop where
  fin : w6_phase c.st w = 4
  clean : W6BNoStaleTick c w
  noExc : ∀ g b, c.st.gen g ≠ .exc w b

theorem w6b_phase4_started {s : St} {w : Nat} (h : w6_phase s w = 4) :
    (s.wait w).started = true ∧ ¬ s.w6_doneInst w := by
  unfold w6_phase at h
  repeat' split at h
  all_goals first | omega | skip
  rename_i h1 h2
  exact ⟨by simpa using h1, h2⟩

theorem w6b_step_after {n0 : Nat} {c : Cfg} (h : W6CInv n0 c) (hL : W6BLive c) (w : Nat) (hA : W6BAfter c w) :
    W6BAfter (step c) w := by
  have h' := w6_step_cinv c h
  have hS := w6_step_s c
  have hfin : w6_phase (step c).st w = 4 := by
    have := w6_phase_mono h w
    have := w6_phase_le_four (step c).st w
    have := hA.fin
    omega
  obtain ⟨hst', hnd'⟩ := w6b_phase4_started hfin
  have hw' : w < (step c).st.waits.length := (h'.w.1.chain w).2.2.2 hst'
  refine ⟨hfin, ?_, ?_⟩
  · intro x hx
    rcases w6b_flow c x hx with hold | ⟨r, e, rem, k, hs, hstk, hxn, hd, hmem⟩
    · obtain ⟨a1, a2⟩ := hA.clean x hold
      exact ⟨Nat.lt_of_lt_of_le a1 hS.hsLen, by rw [hS.hsKeep x a1]; exact a2⟩
    · obtain ⟨b1, b2⟩ := hL r e rem k hs hstk hxn hd x hmem
      refine ⟨b1, fun hk => ?_⟩
      have hin := b2 w hk
      obtain ⟨_, _, k3⟩ := h'.w.1.kindTick x w b1 hk
      have := (h'.w.1.i2 w x hw' hst' k3 hin).1
      exact hnd' this
  · intro g b hg
    rcases w6b_exc_step c g w b hg with h1 | ⟨r, hh, e, k, hs, hx, hk, _⟩ | ⟨r, t, k, b0, hs, hx, hgen⟩
    · exact hA.noExc g b h1
    · exact (hA.clean hh (by rw [hs]; simp [Frame.w6b_pend])).2 hk
    · exact hA.noExc t.g b0 hgen

theorem w6b_start_after {s : St} {w : Nat} (d : Nat) (tape : List Entry) (op : ExtOp)
    (hfin : w6_phase s w = 4) (hno : ∀ g b, s.gen g ≠ .exc w b) : W6BAfter (startOf (envChange s d tape) op) w := by
  refine ⟨by rw [w6_phase_start]; exact hfin, ?_, ?_⟩
  · intro x hx
    cases op <;> simp [startOf, startDo, startTick, startFlush, startRun, Cfg.start, Frame.w6b_pend] at hx
  · intro g b hg
    exact hno g b (by cases op <;> exact hg)

/-- the resumption step establishes the invariant -/
theorem w6b_resume_after {n0 : Nat} {c : Cfg} (h : W6CInv n0 c) (hE : W6BExcFin c.st) (w : Nat)
    (hr : W6ResumesW c w) (hstale : W6BNoStaleTick c w) : W6BAfter (step c) w := by
  have hS := w6_step_s c
  refine ⟨(w6_resume_phase h w hr).2, ?_, ?_⟩
  · intro x hx
    obtain ⟨r, t, k, hs, hxn, _, _⟩ := hr
    rcases w6b_flow c x hx with hold | ⟨r', e, rem, k', hs', hstk, _⟩
    · obtain ⟨a1, a2⟩ := hstale x hold
      exact ⟨Nat.lt_of_lt_of_le a1 hS.hsLen, by rw [hS.hsKeep x a1]; exact a2⟩
    · rw [hs] at hstk; cases hstk
  · intro g b hg
    obtain ⟨r, t, k, hs, hxn, hgen, _⟩ := hr
    rcases w6b_exc_step c g w b hg with h1 | ⟨r', hh, e, k', hs', _⟩ | ⟨r', t', k', b0, hs', _, hgen'⟩
    · exact w6b_no_exc_at_resume h hE w ⟨r, t, k, hs, hxn, hgen, by assumption⟩ g b h1
    · rw [hs] at hs'; cases hs'
    · rw [hs] at hs'; injection hs' with a1 _; injection a1 with _ a2; subst a2
      rw [hgen] at hgen'; cases hgen'

theorem W6BLater.after {n0 : Nat} {c c' : Cfg} {w : Nat} (h : W6CInv n0 c) (hA : W6BAfter c w)
    (hl : W6BLater n0 c c') : W6BAfter c' w := by
  induction hl with
  | refl => exact hA
  | step hl' hlive ih => exact w6b_step_after (W6Later.cinv h hl'.later) hlive w ih
  | next d tape op hop _ _ ih => exact w6b_start_after d tape op ih.fin ih.noExc

/-- **no_timeout_after_resume** (under hypotheses (a) and (b)) -/
theorem w6b_no_timeout_after_resume {n0 : Nat} {c c' : Cfg} (h : W6CInv n0 c) (hE : W6BExcFin c.st) (w : Nat)
    (hr : W6ResumesW c w) (hstale : W6BNoStaleTick c w) (hl : W6BLater n0 (step c) c') :
    (∀ r hh e k, c'.stack = .invoke r hh e :: k → (c'.st.handler hh).kind ≠ .waitTick w) ∧
    (∀ g b, c'.st.gen g ≠ .exc w b) ∧
    (∀ r t k b, c'.stack = .ptBody r t :: k → c'.st.gen t.g ≠ .exc w b) := by
  have hA := W6BLater.after (w6_step_cinv c h) (w6b_resume_after h hE w hr hstale) hl
  refine ⟨?_, hA.noExc, fun r t k b _ => hA.noExc t.g b⟩
  intro r hh e k hs
  exact (hA.clean hh (by rw [hs]; simp [Frame.w6b_pend])).2

end CV.Core

import CV.Proofs.InvWait2Flow
/-
C06, second round, part 2: `no_timeout_after_resume` - the other direction of "never both" - at full strength.

Since the fix "stale waitEvent closures do nothing once the outcome is decided" (`_on_tick` returns at once when
`state.flag or state.timed_out`; `_on_done` / `_on_event` return when `state.timed_out`) a stale invocation of
`_on_tick` - from a handler list computed before `_on_done` removed the tick handler - is a no-op.  So: after the
resumption step of wait state `w` (which needs `flag`), `flag` stays set, hence no later configuration creates a
`TimeoutError` carrier (`GenRec.exc w`), none contains one, none logs `.timeout` through one; and a (stale)
invocation of `w`'s `_on_tick` changes nothing but the log entry of the invocation.

Before the fix this was false (a `generate_events` handler that runs the task loop - `tick()`, or `stop()` outside the
executing thread - let the caller be resumed while the enclosing `_dispatcher` still held the tick handler; the stale
`_on_tick` found the countdown at 0 and registered the TimeoutError task): see the header of `InvWait2Wit.lean`, which
now replays that run as a regression.
-/
namespace CV.Core

/-! ### how an `exc` generator record comes about -/

theorem St.w6b_onWaitTick_gen (t : St) (w g : Nat) :
    (t.onWaitTick w).2.gen g = t.gen g ∨
      ((t.wait w).flag = false ∧ (t.wait w).timedOut = false ∧ (t.wait w).timeout = 0 ∧ g = t.gens.length ∧
        (t.onWaitTick w).2.gen g = .exc w false) := by
  by_cases hst : (t.wait w).flag = true ∨ (t.wait w).timedOut = true
  · left; rw [St.w6_onWaitTick_stale t w hst]
  · rcases St.w6_onWaitTick_gen t w g with h | ⟨h1, h2, h3⟩
    · exact Or.inl h
    · right
      simp only [not_or, Bool.not_eq_true] at hst
      exact ⟨hst.1, hst.2, h1, h2, h3⟩

/-- an `.exc w b` record after a step was there before (same `w`), or was created by `w`'s own `_on_tick` closure
    acting at countdown 0 (neither `flag` nor `timedOut` set), or is the record of the carrier's own task step -/
theorem w6b_exc_step (c : Cfg) (g w : Nat) (b : Bool) (hg : (step c).st.gen g = .exc w b) :
    c.st.gen g = .exc w b ∨
    (∃ r h e k, c.stack = .invoke r h e :: k ∧ c.exn = none ∧ (c.st.handler h).kind = .waitTick w ∧
      (c.st.wait w).timeout = 0 ∧ (c.st.wait w).flag = false ∧ (c.st.wait w).timedOut = false) ∨
    (∃ r t k b0, c.stack = .ptBody r t :: k ∧ c.exn = none ∧ c.st.gen t.g = .exc w b0) := by
  by_cases hne : (step c).st.gen g = c.st.gen g
  · left; rw [← hne]; exact hg
  · right
    rcases w6_exc_only c g (by rw [hg]; rfl) hne with ⟨r, h, e, k, w0, hs, hxn, hk⟩ | ⟨r, t, k, w0, b0, hs, hxn, hgen⟩
    · left
      rw [w6_step_invoke c r h e k hs hxn, Cfg.w6_invoke_waitTick c k r h e w0 hk] at hg hne
      rcases St.w6b_onWaitTick_gen (c.w6_invokeSt h e) w0 g with h1 | ⟨f1, f2, f3, _, f5⟩
      · rw [h1, Cfg.w6_invokeSt_gen] at hne; exact absurd rfl hne
      · rw [f5] at hg
        injection hg with a1 _
        subst a1
        rw [Cfg.w6_invokeSt_wait] at f1 f2 f3
        exact ⟨r, h, e, k, hs, hxn, hk, f3, f1, f2⟩
    · right
      rw [w6_step_ptBody c r t k hs hxn] at hg hne
      have h2 : c.ptBody k r t = c.ptBodyExc k r t w0 b0 := by unfold Cfg.ptBody; rw [hgen]
      rw [h2] at hg hne
      rcases Cfg.w6_ptBodyExc_ex c k r t w0 b0 with hq | hq
      · exact absurd (hq.exc rfl g (by rw [hg]; rfl)) hne
      · have h3 := hq.exc rfl g (by rw [hg]; rfl)
        simp only [St.w6_unregisterTask_gen] at h3
        rcases St.w6_setGen_gen_cases c.st t.g (.exc w0 true) g with h4 | ⟨h4, _, h5⟩
        · rw [h4] at h3; exact absurd h3 hne
        · subst h4
          rw [h5, hg] at h3
          injection h3 with a1 _
          subst a1
          exact ⟨r, t, k, b0, hs, hxn, hgen⟩

/-! ### a `TimeoutError` carrier exists only for a finished wait state -/

/-- every `exc` generator belongs to a wait state in phase 4 -/
def W6BExcFin (s : St) : Prop := ∀ g w b, s.gen g = .exc w b → w6_phase s w = 4

theorem w6b_step_excFin {n0 : Nat} {c : Cfg} (h : W6CInv n0 c) (hE : W6BExcFin c.st) : W6BExcFin (step c).st := by
  intro g w b hg
  have hmono := w6_phase_mono h w
  have hle := w6_phase_le_four (step c).st w
  rcases w6b_exc_step c g w b hg with h1 | ⟨r, hh, e, k, hs, hx, hk, h0, hfl, hto⟩ | ⟨r, t, k, b0, hs, hx, hgen⟩
  · have := hE g w b h1; omega
  · exact w6_timeout_finishes h w r hh e k hs hx hk h0 hfl hto
  · have := hE t.g w b0 hgen; omega

theorem W6ReachW.excFin {s0 : St} (hi : W6InitWait s0) {c : Cfg} (h : W6ReachW s0.hs.length s0 c) : W6BExcFin c.st := by
  induction h with
  | init d tape op hop =>
    intro g w b hg
    have : (startOf (envChange s0 d tape) op).st.gen g = dfltGen := by
      cases op <;> simp [startOf, startDo, startTick, startFlush, startRun, Cfg.start, envChange, St.gen, hi.gens]
    rw [this] at hg; cases hg
  | step hr ih => exact w6b_step_excFin (hr.cinv hi) ih
  | next d tape op hop _ _ ih =>
    intro g w b hg
    have h1 : (startOf (envChange _ d tape) op).st.gen g = _ := hg
    have h2 := ih g w b (by cases op <;> exact h1)
    rw [w6_phase_start]; exact h2

/-- at the resumption step of `w` no `TimeoutError` carrier of `w` exists -/
theorem w6b_no_exc_at_resume {n0 : Nat} {c : Cfg} (h : W6CInv n0 c) (hE : W6BExcFin c.st) (w : Nat)
    (hr : W6ResumesW c w) : ∀ g b, c.st.gen g ≠ .exc w b := by
  intro g b hg
  have := hE g w b hg
  have := (w6_resume_phase h w hr).1
  omega

/-- the resumption step of `w` happens with `w.flag` set -/
theorem w6b_resume_flag {n0 : Nat} {c : Cfg} (h : W6CInv n0 c) (w : Nat) (hr : W6ResumesW c w) :
    (c.st.wait w).flag = true := by
  obtain ⟨r, t, k, hs, _, hg, _⟩ := hr
  have hT : c.st.w6_view.TaskOk t := h.headFrame hs
  exact hT.2.1 w hg

/-! ### the invariant after the resumption -/

/-- the state of affairs after `w` was resumed: `flag` is set (so `_on_tick` does nothing any more) and no
    `TimeoutError` carrier of `w` exists -/
structure W6BAfter (c : Cfg) (w : Nat) : Prop where
  flag : (c.st.wait w).flag = true
  noExc : ∀ g b, c.st.gen g ≠ .exc w b

theorem w6b_step_after (c : Cfg) (w : Nat) (hA : W6BAfter c w) : W6BAfter (step c) w := by
  refine ⟨((w6_step_s c).bits w).2.2 hA.flag, ?_⟩
  intro g b hg
  rcases w6b_exc_step c g w b hg with h1 | ⟨r, hh, e, k, hs, hx, hk, _, hfl, _⟩ | ⟨r, t, k, b0, hs, hx, hgen⟩
  · exact hA.noExc g b h1
  · rw [hA.flag] at hfl; cases hfl
  · exact hA.noExc t.g b0 hgen

theorem w6b_start_after {s : St} {w : Nat} (d : Nat) (tape : List Entry) (op : ExtOp)
    (hfl : (s.wait w).flag = true) (hno : ∀ g b, s.gen g ≠ .exc w b) : W6BAfter (startOf (envChange s d tape) op) w := by
  refine ⟨by cases op <;> exact hfl, ?_⟩
  intro g b hg
  exact hno g b (by cases op <;> exact hg)

/-- the resumption step establishes the invariant -/
theorem w6b_resume_after {n0 : Nat} {c : Cfg} (h : W6CInv n0 c) (hE : W6BExcFin c.st) (w : Nat)
    (hr : W6ResumesW c w) : W6BAfter (step c) w := by
  refine ⟨((w6_step_s c).bits w).2.2 (w6b_resume_flag h w hr), ?_⟩
  intro g b hg
  have hno := w6b_no_exc_at_resume h hE w hr
  obtain ⟨r, t, k, hs, hxn, hgen, _⟩ := hr
  rcases w6b_exc_step c g w b hg with h1 | ⟨r', hh, e, k', hs', _⟩ | ⟨r', t', k', b0, hs', _, hgen'⟩
  · exact hno g b h1
  · rw [hs] at hs'; cases hs'
  · rw [hs] at hs'; injection hs' with a1 _; injection a1 with _ a2; subst a2
    rw [hgen] at hgen'; cases hgen'

theorem W6Later.w6b_after {n0 : Nat} {c c' : Cfg} {w : Nat} (hA : W6BAfter c w)
    (hl : W6Later n0 c c') : W6BAfter c' w := by
  induction hl with
  | refl => exact hA
  | step _ ih => exact w6b_step_after _ w ih
  | next d tape op hop _ _ ih => exact w6b_start_after d tape op ih.flag ih.noExc

/-- a stale invocation of `w`'s `_on_tick` (after `flag` or `timedOut` was set) changes nothing but the log entry of the
    invocation -/
theorem w6b_stale_tick_noop (c : Cfg) (w r hh e : Nat) (k : List Frame) (hs : c.stack = .invoke r hh e :: k)
    (hx : c.exn = none) (hk : (c.st.handler hh).kind = .waitTick w)
    (hst : (c.st.wait w).flag = true ∨ (c.st.wait w).timedOut = true) : (step c).st = c.w6_invokeSt hh e := by
  have hstep : (step c).st = ((c.w6_invokeSt hh e).onWaitTick w).2 := by
    rw [w6_step_invoke c r hh e k hs hx, Cfg.w6_invoke_waitTick c k r hh e w hk]
  rw [hstep, St.w6_onWaitTick_stale _ w (by rw [Cfg.w6_invokeSt_wait]; exact hst)]

/-- **no_timeout_after_resume** -/
theorem w6b_no_timeout_after_resume {n0 : Nat} {c c' : Cfg} (h : W6CInv n0 c) (hE : W6BExcFin c.st) (w : Nat)
    (hr : W6ResumesW c w) (hl : W6Later n0 (step c) c') :
    (c'.st.wait w).flag = true ∧
    (∀ g b, c'.st.gen g ≠ .exc w b) ∧
    (∀ r t k b, c'.stack = .ptBody r t :: k → c'.st.gen t.g ≠ .exc w b) ∧
    (∀ r hh e k, c'.stack = .invoke r hh e :: k → c'.exn = none → (c'.st.handler hh).kind = .waitTick w →
      (step c').st = c'.w6_invokeSt hh e) := by
  have hA := W6Later.w6b_after (w6b_resume_after h hE w hr) hl
  exact ⟨hA.flag, hA.noExc, fun r t k b _ => hA.noExc t.g b,
    fun r hh e k hs hx hk => w6b_stale_tick_noop c' w r hh e k hs hx hk (Or.inl hA.flag)⟩


/-! ### the other two closures -/

theorem St.w6b_onWaitDone_stale (t : St) (w e : Nat) (h : (t.wait w).flag = true ∨ (t.wait w).timedOut = true) :
    t.onWaitDone w e = (.none, t) := by
  unfold St.onWaitDone
  dsimp only
  rw [if_neg]
  rcases h with h | h <;> simp [h]

theorem St.w6b_onWaitEvent_stale (t : St) (w e : Nat) (h : (t.wait w).run = true ∨ (t.wait w).timedOut = true) :
    t.onWaitEvent w e = (.none, t) := by
  unfold St.onWaitEvent
  dsimp only
  rw [if_neg]
  rcases h with h | h <;> simp [h]

/-- a repeated or stale invocation of `w`'s `_on_done` (after `flag` or `timedOut` was set) changes nothing but the log
    entry of the invocation -/
theorem w6b_stale_done_noop (c : Cfg) (w r hh e : Nat) (k : List Frame) (hs : c.stack = .invoke r hh e :: k)
    (hx : c.exn = none) (hk : (c.st.handler hh).kind = .waitDone w)
    (hst : (c.st.wait w).flag = true ∨ (c.st.wait w).timedOut = true) : (step c).st = c.w6_invokeSt hh e := by
  have hstep : (step c).st = ((c.w6_invokeSt hh e).onWaitDone w e).2 := by
    rw [w6_step_invoke c r hh e k hs hx, Cfg.w6_invoke_waitDone c k r hh e w hk]
  rw [hstep, St.w6b_onWaitDone_stale _ w e (by rw [Cfg.w6_invokeSt_wait]; exact hst)]

/-- a repeated or stale invocation of `w`'s `_on_event` (after `run` or `timedOut` was set) changes nothing but the log
    entry of the invocation -/
theorem w6b_stale_event_noop (c : Cfg) (w r hh e : Nat) (k : List Frame) (hs : c.stack = .invoke r hh e :: k)
    (hx : c.exn = none) (hk : (c.st.handler hh).kind = .waitEvent w)
    (hst : (c.st.wait w).run = true ∨ (c.st.wait w).timedOut = true) : (step c).st = c.w6_invokeSt hh e := by
  have hstep : (step c).st = ((c.w6_invokeSt hh e).onWaitEvent w e).2 := by
    rw [w6_step_invoke c r hh e k hs hx, Cfg.w6_invoke_waitEvent c k r hh e w hk]
  rw [hstep, St.w6b_onWaitEvent_stale _ w e (by rw [Cfg.w6_invokeSt_wait]; exact hst)]

/-- `flag` changes only while the outcome is open: the step that sets `w.flag` starts with `flag = timedOut = false` -/
theorem w6b_flag_set_when_open (c : Cfg) (w : Nat) (hne : ((step c).st.wait w).flag ≠ (c.st.wait w).flag) :
    (c.st.wait w).flag = false ∧ (c.st.wait w).timedOut = false ∧ ((step c).st.wait w).flag = true := by
  obtain ⟨r, h, e, k, src, hs, hx, hk, _, _, h6⟩ := w6_flag_needs_done c w hne
  refine ⟨?_, ?_, h6⟩
  · cases hf : (c.st.wait w).flag
    · rfl
    · rw [hf, h6] at hne; exact absurd rfl hne
  · cases ht : (c.st.wait w).timedOut
    · rfl
    · exfalso
      rw [w6b_stale_done_noop c w r h e k hs hx hk (Or.inr ht), Cfg.w6_invokeSt_wait] at hne
      exact hne rfl

end CV.Core

import CV.Model.HttpResp
import CV.Model.HttpRespSpec
/-
Helper lemmas for C15: numbers as text, line splitting, chunked coding, body framing.
Core Lean only.
-/
namespace CV
namespace HttpResp
open CV.HttpSpec

/-! ### digits -/

theorem digitVal_digitByte : ∀ d, d < 16 → digitVal (digitByte d) = some d := by decide

theorem digitByte_ne_LF : ∀ d, d < 16 → digitByte d ≠ 10 := by decide

theorem digitsRev_lt (b : Nat) (hb : 0 < b) : ∀ f n d, d ∈ digitsRev b f n → d < b := by
  intro f
  induction f with
  | zero => intro n d h; simp [digitsRev] at h
  | succ f ih =>
    intro n d h
    unfold digitsRev at h
    split at h
    · simp at h; omega
    · simp at h
      rcases h with h | h
      · subst h; exact Nat.mod_lt _ hb
      · exact ih _ _ h

theorem digitsRev_ne_nil (b f n : Nat) : digitsRev b (f + 1) n ≠ [] := by
  unfold digitsRev; split <;> simp

theorem foldr_digitsRev (b : Nat) (hb : 2 ≤ b) :
    ∀ f n, n < f → (digitsRev b f n).foldr (fun d a => a * b + d) 0 = n := by
  intro f
  induction f with
  | zero => intro n h; omega
  | succ f ih =>
    intro n h
    unfold digitsRev
    split
    · simp
    · rename_i hn
      have hlt : n / b < f := by
        have : n / b < n := Nat.div_lt_self (by omega) (by omega)
        omega
      simp only [List.foldr_cons, ih _ hlt]
      have := Nat.div_add_mod n b
      rw [Nat.mul_comm] at this
      exact this

theorem parseDigits_map (b : Nat) (hb : b ≤ 16) :
    ∀ (ds : List Nat) (acc : Nat), (∀ d ∈ ds, d < b) →
      parseDigits b (ds.map digitByte) acc = some (ds.foldl (fun a d => a * b + d) acc) := by
  intro ds
  induction ds with
  | nil => intro acc _; simp [parseDigits]
  | cons d ds ih =>
    intro acc h
    have hd : d < b := h d (by simp)
    simp only [List.map_cons, parseDigits, digitVal_digitByte d (by omega), hd, if_true, List.foldl_cons]
    exact ih _ (fun x hx => h x (by simp [hx]))

theorem digits_lt (b n : Nat) (hb : 0 < b) : ∀ d ∈ digits b n, d < b := by
  intro d h
  unfold digits at h
  rw [List.mem_reverse] at h
  exact digitsRev_lt b hb _ _ _ h

theorem parseNat_natBytes (b n : Nat) (hb : 2 ≤ b) (hb' : b ≤ 16) :
    parseNat b (natBytes b n) = some n := by
  unfold parseNat natBytes
  have hne : (List.map digitByte (digits b n)).isEmpty = false := by
    unfold digits
    have := digitsRev_ne_nil b n n
    cases h : digitsRev b (n + 1) n with
    | nil => exact absurd h this
    | cons x xs => simp
  rw [hne]
  simp only [Bool.false_eq_true, if_false]
  rw [parseDigits_map b hb' _ _ (digits_lt b n (by omega))]
  unfold digits
  rw [List.foldl_reverse]
  congr 1
  exact foldr_digitsRev b hb _ _ (by omega)

theorem natBytes_digit (b n : Nat) (hb : 0 < b) (hb' : b ≤ 16) :
    ∀ c ∈ natBytes b n, ∃ d, d < 16 ∧ c = digitByte d := by
  intro c h
  unfold natBytes at h
  rw [List.mem_map] at h
  obtain ⟨d, hd, rfl⟩ := h
  exact ⟨d, by have := digits_lt b n hb d hd; omega, rfl⟩

/-! ### lines -/

theorem splitLine_append : ∀ (l rest : Bytes), (∀ c ∈ l, c ≠ 10) →
    splitLine (l ++ 13 :: 10 :: rest) = some (l, rest) := by
  intro l
  induction l with
  | nil => intro rest _; simp [splitLine]
  | cons a l ih =>
    intro rest h
    have hl : ∀ c ∈ l, c ≠ 10 := fun c hc => h c (by simp [hc])
    cases l with
    | nil =>
      have ih' := ih rest hl
      simp only [List.nil_append] at ih'
      simp only [List.cons_append, List.nil_append]
      unfold splitLine
      have : ((13 : UInt8) == 10) = false := by decide
      simp [this, ih']
    | cons b l' =>
      have hb : b ≠ 10 := h b (by simp)
      have ih' := ih rest hl
      simp only [List.cons_append] at ih' ⊢
      unfold splitLine
      have : (b == 10) = false := by simp [hb]
      simp [this, ih']

theorem natBytes_noLF (b n : Nat) (hb : 0 < b) (hb' : b ≤ 16) : ∀ c ∈ natBytes b n, c ≠ 10 := by
  intro c h
  obtain ⟨d, hd, rfl⟩ := natBytes_digit b n hb hb' c h
  exact digitByte_ne_LF d hd

/-! ### chunked coding -/

theorem takeWhile_all {α} (p : α → Bool) : ∀ (l : List α), (∀ x ∈ l, p x = true) → l.takeWhile p = l := by
  intro l; induction l with
  | nil => simp
  | cons a l ih => intro h; simp [List.takeWhile, h a (by simp)]; exact ih (fun x hx => h x (by simp [hx]))

theorem dropWhile_all {α} (p : α → Bool) : ∀ (l : List α), (∀ x ∈ l, p x = true) → l.dropWhile p = [] := by
  intro l; induction l with
  | nil => simp
  | cons a l ih => intro h; simp [List.dropWhile, h a (by simp)]; exact ih (fun x hx => h x (by simp [hx]))

theorem chunkSize_hexBytes (n : Nat) : chunkSize (hexBytes n) = some n := by
  have hall : ∀ c ∈ hexBytes n, (digitVal c).isSome = true := by
    intro c h
    obtain ⟨d, hd, rfl⟩ := natBytes_digit 16 n (by omega) (by omega) c h
    simp [digitVal_digitByte d hd]
  unfold chunkSize
  simp only [takeWhile_all _ _ hall, dropWhile_all _ _ hall]
  exact parseNat_natBytes 16 n (by omega) (by omega)

/-- the chunked coding of a list of non-empty pieces followed by the last-chunk -/
def chunkedBytes (qs : List Bytes) : Bytes := qs.flatMap chunk ++ sTerminator

theorem decodeChunks_chunked : ∀ (qs : List Bytes) (f : Nat) (rest : Bytes),
    (∀ q ∈ qs, q ≠ []) → qs.length < f →
    decodeChunks f (chunkedBytes qs ++ rest) = some (qs.flatten, rest) := by
  intro qs
  induction qs with
  | nil =>
    intro f rest _ hf
    cases f with
    | zero => omega
    | succ f =>
      show decodeChunks (f + 1) ([48] ++ 13 :: 10 :: (13 :: 10 :: rest)) = _
      unfold decodeChunks
      rw [splitLine_append [48] _ (by decide)]
      have h0 : chunkSize [48] = some 0 := by decide
      simp only [h0]
      have := splitLine_append [] rest (by simp)
      simp only [List.nil_append] at this
      simp [this]
  | cons q qs ih =>
    intro f rest hne hf
    cases f with
    | zero => simp at hf
    | succ f =>
      have hq : q ≠ [] := hne q (by simp)
      have hrest : ∀ x ∈ qs, x ≠ [] := fun x hx => hne x (by simp [hx])
      have hshape : chunkedBytes (q :: qs) ++ rest
          = hexBytes q.length ++ 13 :: 10 :: (q ++ 13 :: 10 :: (chunkedBytes qs ++ rest)) := by
        simp [chunkedBytes, chunk, CRLF, List.append_assoc]
      rw [hshape]
      unfold decodeChunks
      have hsl := splitLine_append (hexBytes q.length) (q ++ 13 :: 10 :: (chunkedBytes qs ++ rest))
        (natBytes_noLF 16 _ (by omega) (by omega))
      rw [hsl]
      simp only [chunkSize_hexBytes]
      obtain ⟨k, hk⟩ : ∃ k, q.length = k + 1 := by
        cases q with
        | nil => exact absurd rfl hq
        | cons a q' => exact ⟨q'.length, by simp⟩
      have hlen : ¬ ((q ++ 13 :: 10 :: (chunkedBytes qs ++ rest)).length < q.length + 2) := by
        simp
      have hdrop : (q ++ 13 :: 10 :: (chunkedBytes qs ++ rest)).drop q.length
          = 13 :: 10 :: (chunkedBytes qs ++ rest) := by simp
      have hdrop2 : (q ++ 13 :: 10 :: (chunkedBytes qs ++ rest)).drop (q.length + 2)
          = chunkedBytes qs ++ rest := by
        rw [← List.drop_drop, hdrop]; rfl
      have htake : (q ++ 13 :: 10 :: (chunkedBytes qs ++ rest)).take q.length = q := by simp
      rw [hk] at hlen hdrop hdrop2 htake ⊢
      simp only [hlen, if_false, hdrop, hdrop2, htake]
      have := ih f rest hrest (by simp at hf; omega)
      simp [this]

theorem length_le_flatMap_chunk : ∀ qs : List Bytes, qs.length ≤ (qs.flatMap chunk).length := by
  intro qs
  induction qs with
  | nil => simp
  | cons q qs ih => simp [List.flatMap_cons, chunk, CRLF] at ih ⊢; omega

/-! ### what the model writes after the head -/

/-- the framing information `prepare` puts into the header block, as the RFC reader sees it -/
def framing (p : Prep) : Framing := { clen := p.clen, chunked := p.chunked, conn := p.conn }

/-- bytes written after the header block -/
def bodyBytes (rq : Req) (r : Resp) : Bytes := bytesOf (bodyActs rq r (prepare rq r))

/-- what the client must recover as the body -/
def expectedBody (rq : Req) (r : Resp) : Bytes :=
  if rq.isHead || bodylessStatus r.status then [] else r.body.parts.flatten

/-- the response is delimited by the end of the connection -/
def untilClose (rq : Req) (r : Resp) : Bool :=
  !(rq.isHead || bodylessStatus r.status) && !(prepare rq r).chunked && (prepare rq r).clen.isNone

/-- the joined body as zero or one piece -/
def piecesOf (body : Bytes) : List Bytes := if body.isEmpty then [] else [body]

/-- the non-empty pieces that are written one by one -/
def pieces : Body → List Bytes
  | .stream ps => ps.filter (fun d => !d.isEmpty)
  | .sized ps => piecesOf ps.flatten
  | .iter ps => piecesOf ps.flatten

theorem flatten_filter_nonempty : ∀ ps : List Bytes, (ps.filter (fun d => !d.isEmpty)).flatten = ps.flatten := by
  intro ps
  induction ps with
  | nil => rfl
  | cons p ps ih =>
    cases p with
    | nil => simp [List.filter, ih]
    | cons a p' => simp [List.filter, ih]

theorem piecesOf_flatten (b : Bytes) : (piecesOf b).flatten = b := by
  cases b <;> simp [piecesOf]

theorem piecesOf_ne (b : Bytes) : ∀ q ∈ piecesOf b, q ≠ [] := by
  cases b <;> simp [piecesOf]

theorem pieces_flatten (b : Body) : (pieces b).flatten = b.parts.flatten := by
  cases b with
  | stream ps => simp [pieces, Body.parts, flatten_filter_nonempty]
  | sized ps => simp [pieces, Body.parts, piecesOf_flatten]
  | iter ps => simp [pieces, Body.parts, piecesOf_flatten]

theorem pieces_ne (b : Body) : ∀ q ∈ pieces b, q ≠ [] := by
  intro q h
  cases b with
  | stream ps =>
    simp [pieces] at h
    exact h.2
  | sized ps => exact piecesOf_ne _ q h
  | iter ps => exact piecesOf_ne _ q h

theorem bytesOf_append (a b : List Act) : bytesOf (a ++ b) = bytesOf a ++ bytesOf b := by
  induction a with
  | nil => rfl
  | cons x a ih => cases x <;> simp [bytesOf, ih]

theorem bytesOf_finish (p : Prep) (t : Bool) :
    bytesOf (finish p t) = if t && p.chunked then sTerminator else [] := by
  unfold finish
  cases t <;> cases p.chunked <;> cases p.close <;> simp [bytesOf]

theorem bytesOf_map_write (g : Bytes → Bytes) : ∀ qs : List Bytes,
    bytesOf (qs.map (fun d => Act.write (g d))) = qs.flatMap g := by
  intro qs
  induction qs with
  | nil => rfl
  | cons q qs ih => simp [bytesOf, ih]

theorem bodyActs_nobody (rq : Req) (r : Resp) (p : Prep)
    (h : (rq.isHead || bodylessStatus r.status) = true) : bodyActs rq r p = finish p false := by
  unfold bodyActs; simp [h]

theorem bodyActs_body (rq : Req) (r : Resp) (p : Prep)
    (h : (rq.isHead || bodylessStatus r.status) = false) :
    bodyActs rq r p = (pieces r.body).map (fun d => Act.write (frame p.chunked d)) ++ finish p true := by
  unfold bodyActs
  simp only [h, Bool.false_eq_true, if_false]
  cases hb : r.body with
  | stream ps => simp [pieces]
  | sized ps =>
    dsimp only [pieces, Body.parts, piecesOf]
    by_cases hq : ps.flatten.isEmpty = true
    · simp [hq]
    · simp [hq]
  | iter ps =>
    dsimp only [pieces, Body.parts, piecesOf]
    by_cases hq : ps.flatten.isEmpty = true
    · simp [hq]
    · simp [hq]

theorem listSum_length_flatten : ∀ ps : List Bytes, listSum (ps.map List.length) = ps.flatten.length := by
  intro ps
  induction ps with
  | nil => rfl
  | cons p ps ih => simp [listSum, ih]

theorem prepare_clen (rq : Req) (r : Resp) : (prepare rq r).clen = cLength r.body := rfl

theorem prepare_sized_not_chunked (rq : Req) (r : Resp) (ps : List Bytes) (h : r.body = .sized ps) :
    (prepare rq r).chunked = false := by
  unfold prepare
  simp only [h, cLength]
  split <;> rfl

theorem noBody_eq (rq : Req) (r : Resp) :
    noBody rq.isHead r.status = (rq.isHead || bodylessStatus r.status) := by
  simp [noBody, bodylessStatus, Bool.or_assoc]

theorem bodyBytes_nobody (rq : Req) (r : Resp) (h : (rq.isHead || bodylessStatus r.status) = true) :
    bodyBytes rq r = [] := by
  unfold bodyBytes
  rw [bodyActs_nobody rq r _ h, bytesOf_finish]; simp

theorem bodyBytes_body (rq : Req) (r : Resp) (h : (rq.isHead || bodylessStatus r.status) = false) :
    bodyBytes rq r = (pieces r.body).flatMap (frame (prepare rq r).chunked)
      ++ (if (prepare rq r).chunked then sTerminator else []) := by
  unfold bodyBytes
  rw [bodyActs_body rq r _ h, bytesOf_append, bytesOf_map_write, bytesOf_finish]; simp

theorem flatMap_id_flatten (qs : List Bytes) : qs.flatMap (frame false) = qs.flatten := by
  induction qs with
  | nil => rfl
  | cons q qs ih => simp [frame, List.flatMap_cons, ih]

theorem flatMap_frame_true (qs : List Bytes) : qs.flatMap (frame true) = qs.flatMap chunk := by
  induction qs with
  | nil => rfl
  | cons q qs ih => simp [frame, List.flatMap_cons, ih]

/-- a response that is not delimited by close is decoded exactly, whatever follows it -/
theorem decodeBody_delimited (rq : Req) (r : Resp) (rest : Bytes) (eof : Bool)
    (h : untilClose rq r = false) :
    decodeBody rq.isHead r.status (framing (prepare rq r)) (bodyBytes rq r ++ rest) eof
      = some (expectedBody rq r, rest) := by
  unfold decodeBody expectedBody
  rw [noBody_eq]
  cases hn : (rq.isHead || bodylessStatus r.status) with
  | true => simp [bodyBytes_nobody rq r hn]
  | false =>
    simp only [Bool.false_eq_true, if_false]
    rw [bodyBytes_body rq r hn]
    cases hc : (prepare rq r).chunked with
    | true =>
      simp only [framing, hc, if_true, flatMap_frame_true]
      have := decodeChunks_chunked (pieces r.body)
        ((List.flatMap chunk (pieces r.body) ++ sTerminator ++ rest).length + 1) rest (pieces_ne r.body)
        (by
          have := length_le_flatMap_chunk (pieces r.body)
          simp only [List.length_append]; omega)
      simp only [chunkedBytes] at this
      rw [this, pieces_flatten]
    | false =>
      simp only [framing, hc, Bool.false_eq_true, if_false, flatMap_id_flatten, List.append_nil,
        pieces_flatten]
      cases hl : (prepare rq r).clen with
      | none => simp [untilClose, hn, hc, hl] at h
      | some n =>
        rw [prepare_clen] at hl
        cases hb : r.body with
        | sized ps =>
          simp only [hb, cLength, Option.some.injEq] at hl
          rw [listSum_length_flatten] at hl
          subst hl
          simp [Body.parts]
        | iter ps => simp [hb, cLength] at hl
        | stream ps => simp [hb, cLength] at hl

/-- a response delimited by close: the client gets the body when the connection ends, and it ends -/
theorem decodeBody_untilClose (rq : Req) (r : Resp) (h : untilClose rq r = true) :
    decodeBody rq.isHead r.status (framing (prepare rq r)) (bodyBytes rq r) true
      = some (expectedBody rq r, []) := by
  simp only [untilClose, Bool.and_eq_true, Bool.not_eq_true', Option.isNone_iff_eq_none] at h
  obtain ⟨⟨hn, hc⟩, hl⟩ := h
  unfold decodeBody expectedBody
  rw [noBody_eq, hn, bodyBytes_body rq r hn]
  simp [framing, hc, hl, flatMap_id_flatten, pieces_flatten]

/-! ### close -/

theorem hasClose_append (a b : List Act) : hasClose (a ++ b) = (hasClose a || hasClose b) := by
  simp [hasClose]

theorem hasClose_finish (p : Prep) (t : Bool) : hasClose (finish p t) = p.close := by
  unfold finish hasClose
  cases t <;> cases p.chunked <;> cases p.close <;> simp <;> decide

theorem hasClose_map_write (g : Bytes → Bytes) (qs : List Bytes) :
    hasClose (qs.map (fun d => Act.write (g d))) = false := by
  induction qs with
  | nil => rfl
  | cons q qs ih =>
    simp only [hasClose, List.map_cons, List.any_cons] at ih ⊢
    rw [ih]; simp

theorem hasClose_bodyActs (rq : Req) (r : Resp) (p : Prep) : hasClose (bodyActs rq r p) = p.close := by
  cases hn : (rq.isHead || bodylessStatus r.status) with
  | true => rw [bodyActs_nobody rq r p hn, hasClose_finish]
  | false => rw [bodyActs_body rq r p hn, hasClose_append, hasClose_map_write, hasClose_finish]; simp

theorem hasClose_respond (rq : Req) (r : Resp) : hasClose (respond rq r) = (prepare rq r).close := by
  unfold respond
  have : ∀ b (as : List Act), hasClose (Act.write b :: as) = hasClose as := by
    intro b as; simp [hasClose]
  simp only [this, hasClose_bodyActs]

theorem announces_prepare (rq : Req) (r : Resp) :
    announcesClose rq.v11 (prepare rq r).conn = (prepare rq r).close := by
  unfold prepare announcesClose
  cases rq.v11 <;> simp <;> split <;> simp_all

theorem untilClose_closes (rq : Req) (r : Resp) (h : untilClose rq r = true) :
    (prepare rq r).close = true := by
  simp only [untilClose, Bool.and_eq_true, Bool.not_eq_true', Option.isNone_iff_eq_none] at h
  obtain ⟨⟨hn, hc⟩, hl⟩ := h
  rw [prepare_clen] at hl
  simp only [Bool.or_eq_false_iff] at hn
  unfold prepare at hc ⊢
  simp only [hl, hn.1, hn.2] at hc ⊢
  split
  · rfl
  · cases hv : rq.v11 <;> simp_all

/-! ### the framing headers are read back as `prepare` decided -/

def framingNamesL : List Bytes := [lContentLength, lTransferEncoding, lConnection]

/-- the application leaves Content-Length / Transfer-Encoding / Connection alone -/
def neutral (hs : List (Bytes × Bytes)) : Bool :=
  hs.all (fun h => !(framingNamesL.contains (lowerAll h.1)))

theorem lookupCI_append_neutral (n : Bytes) (hn : n ∈ framingNamesL) :
    ∀ (a b : List (Bytes × Bytes)), neutral a = true → lookupCI n (a ++ b) = lookupCI n b := by
  intro a
  induction a with
  | nil => intro b _; rfl
  | cons h a ih =>
    intro b hnt
    simp only [neutral, List.all_cons, Bool.and_eq_true, Bool.not_eq_true'] at hnt
    have hne : (lowerAll h.1 == n) = false := by
      cases hq : (lowerAll h.1 == n) with
      | false => rfl
      | true =>
        have : lowerAll h.1 = n := by simpa using hq
        rw [this] at hnt
        have : framingNamesL.contains n = true := by simpa using hn
        rw [this] at hnt
        exact absurd hnt.1 (by simp)
    simp only [List.cons_append, lookupCI, hne, Bool.false_eq_true, if_false]
    exact ih b (by simpa [neutral] using hnt.2)

/-- what `prepare` appends to the application's headers -/
def tailHeaders (ct : Bool) (p : Prep) : List (Bytes × Bytes) :=
  (if ct then [] else [(hContentType, sDefaultCT)])
  ++ (match p.clen with | some n => [(hContentLength, decBytes n)] | none => [])
  ++ (if p.chunked then [(hTransferEncoding, sChunked)] else [])
  ++ (match p.conn with
      | some true => [(hConnection, sClose)]
      | some false => [(hConnection, sKeepAlive)]
      | none => [])

theorem headers_eq (r : Resp) (p : Prep) :
    headers r p = r.hdrs ++ tailHeaders (hasHeader hContentType r.hdrs) p := by
  rcases p with ⟨clen, chunked, close, conn⟩
  cases clen <;> rcases conn with _ | _ | _ <;> simp [headers, tailHeaders, List.append_assoc]

theorem nm1 : (lowerAll hContentType == lContentLength) = false := by decide
theorem nm2 : (lowerAll hContentType == lTransferEncoding) = false := by decide
theorem nm3 : (lowerAll hContentType == lConnection) = false := by decide
theorem nm4 : (lowerAll hContentLength == lContentLength) = true := by decide
theorem nm5 : (lowerAll hContentLength == lTransferEncoding) = false := by decide
theorem nm6 : (lowerAll hContentLength == lConnection) = false := by decide
theorem nm7 : (lowerAll hTransferEncoding == lContentLength) = false := by decide
theorem nm8 : (lowerAll hTransferEncoding == lTransferEncoding) = true := by decide
theorem nm9 : (lowerAll hTransferEncoding == lConnection) = false := by decide
theorem nm10 : (lowerAll hConnection == lContentLength) = false := by decide
theorem nm11 : (lowerAll hConnection == lTransferEncoding) = false := by decide
theorem nm12 : (lowerAll hConnection == lConnection) = true := by decide
theorem vl1 : (lowerAll sChunked == lChunked) = true := by decide
theorem vl2 : (lowerAll sClose == lClose) = true := by decide
theorem vl3 : (lowerAll sKeepAlive == lClose) = false := by decide
theorem vl4 : (lowerAll sKeepAlive == lKeepAlive) = true := by decide

theorem framingOf_tail (ct : Bool) (p : Prep) : framingOf (tailHeaders ct p) = some (framing p) := by
  rcases p with ⟨clen, chunked, close, conn⟩
  cases ct <;> cases clen <;> cases chunked <;> rcases conn with _ | _ | _ <;>
    simp [framingOf, tailHeaders, lookupCI, framing, nm1, nm2, nm3, nm4, nm5, nm6, nm7, nm8, nm9, nm10,
      nm11, nm12, vl1, vl2, vl3, vl4, decBytes, parseNat_natBytes]

theorem framingOf_append_neutral (a b : List (Bytes × Bytes)) (h : neutral a = true) :
    framingOf (a ++ b) = framingOf b := by
  unfold framingOf
  rw [lookupCI_append_neutral lTransferEncoding (by simp [framingNamesL]) a b h,
      lookupCI_append_neutral lConnection (by simp [framingNamesL]) a b h,
      lookupCI_append_neutral lContentLength (by simp [framingNamesL]) a b h]

theorem framingOf_headers (r : Resp) (p : Prep) (h : neutral r.hdrs = true) :
    framingOf (headers r p) = some (framing p) := by
  rw [headers_eq, framingOf_append_neutral _ _ h, framingOf_tail]

/-! ### successive requests on one connection -/

def closes (x : Req × Resp) : Bool := (prepare x.1 x.2).close

/-- the requests that get an answer: up to and including the first whose response closes -/
def answered : List (Req × Resp) → List (Req × Resp)
  | [] => []
  | x :: xs => if closes x then [x] else x :: answered xs

theorem run_closed : ∀ (xs : List (Req × Resp)) (c : Conn), c.closed = true → run c xs = [] := by
  intro xs
  induction xs with
  | nil => intro c _; rfl
  | cons x xs ih =>
    intro c h
    simp only [run, serve, h, if_true]
    simpa using ih c h

theorem serve_clean (c : Conn) (x : Req × Resp) (hs : c.stale = none) (hc : c.closed = false) :
    serve c x = ({ stale := none, closed := closes x }, respond x.1 x.2) := by
  simp [serve, hs, hc, dropsEntry, hasClose_respond, closes]

theorem run_clean : ∀ (xs : List (Req × Resp)) (c : Conn), c.stale = none → c.closed = false →
    run c xs = (answered xs).flatMap (fun x => respond x.1 x.2) := by
  intro xs
  induction xs with
  | nil => intro c _ _; rfl
  | cons x xs ih =>
    intro c hs hc
    simp only [run, serve_clean c x hs hc, answered]
    cases hx : closes x with
    | true => simp [run_closed xs { stale := none, closed := true } rfl]
    | false => simp [ih { stale := none, closed := false } rfl rfl]

end HttpResp
end CV

import CV.Proofs.InvWaitProto
/-
C06, global layer, part 7: `W6WInv` through the composite helpers of `Step.lean`.
-/
namespace CV.Core

theorem HKind.w6_code0_not_wait {k : HKind} (h : (k.code == 0) = true) : k.w6_isWait = false := by
  cases k <;> first | rfl | (simp [HKind.code] at h)

namespace W6View
theorem NonWait.ofS {s s' : St} (hS : St.W6S s s') {g : Nat} (h : s.w6_view.NonWait g) : s'.w6_view.NonWait g := by
  obtain ⟨h1, h2⟩ := h
  refine ⟨Nat.lt_of_lt_of_le h1 hS.gensLen, ?_⟩
  show (s'.gen g).w6_isWait = false
  cases hg : s'.gen g with
  | wait w =>
    have := hS.genBack g h1 w hg
    rw [show s.w6_view.gen g = s.gen g from rfl, this] at h2; cases h2
  | _ => rfl

theorem TaskOk.ofS {s s' : St} (hS : St.W6S s s') {t : Task} (h : s.w6_view.TaskOk t) : s'.w6_view.TaskOk t := by
  refine ⟨Nat.lt_of_lt_of_le h.1 hS.gensLen, ?_, fun p hp => NonWait.ofS hS (h.2.2 p hp)⟩
  intro w hg
  exact (hS.bits w).2.2 (h.2.1 w (hS.genBack t.g h.1 w hg))
end W6View

namespace W6WInv
variable {n0 : Nat} {s : St}

theorem genCall (h : W6WInv n0 s) (owner t : Nat) (target : Option Chan) (timeout : Option Nat) :
    W6WInv n0 (s.genCall owner t target timeout) := by
  unfold St.genCall; exact h.newWait _ rfl rfl rfl rfl rfl

theorem genWait (h : W6WInv n0 s) (owner : Nat) (name : Name) (target : Option Chan) (timeout : Option Nat) :
    W6WInv n0 (s.genWait owner name target timeout) := by
  unfold St.genWait; exact h.newWait _ rfl rfl rfl rfl rfl

theorem logE (h : W6WInv n0 s) (x : Entry) : W6WInv n0 (s.logE x) := h
theorem modEv (h : W6WInv n0 s) (e : Nat) (f : Ev → Ev) : W6WInv n0 (s.modEv e f) := h

theorem resumeGenPre (h : W6WInv n0 s) (g : Nat) (silent : Bool) : W6WInv n0 (s.resumeGenPre g silent) := by
  unfold St.resumeGenPre
  split
  · rename_i e hh o rest st pc sd hg
    have hold : (s.gen g).w6_isWait = false := by rw [hg]; rfl
    have hacts := h.2.gacts g e hh o rest st pc sd hg
    split
    · exact h.setGen g _ hold rfl (fun _ _ _ _ _ _ _ he => by injection he with _ _ _ he; subst he; exact hacts)
    · split
      · exact (h.setGen g _ hold rfl (fun _ _ _ _ _ _ _ he => by injection he with _ _ _ he; subst he; exact hacts)).logE _
      · exact h.setGen g _ hold rfl (fun _ _ _ _ _ _ _ he => by injection he with _ _ _ he; subst he; exact hacts)
  · exact h

theorem setValueOpt (h : W6WInv n0 s) (e : Nat) (v : Option Nat) : W6WInv n0 (s.setValueOpt e v) :=
  h.ofV (St.W6V.setValueOpt (St.W6V.refl _) _ _)

theorem stopIteration (h : W6WInv n0 s) (r : Nat) (t : Task) (hp : ∀ p, t.parent = some p → s.w6_view.NonWait p) :
    W6WInv n0 (s.stopIteration r t).2 := by
  unfold St.stopIteration
  dsimp only
  split
  · rename_i p hpar
    refine ((h.modEv _ _).unregisterTask r t).registerTask r _ ?_
    have := hp p hpar
    refine ⟨this.1, fun w hg => ?_, fun _ hh => by cases hh⟩
    have h2 := this.2
    rw [show s.w6_view.gen p = s.gen p from rfl] at h2
    rw [show s.gen p = GenRec.wait w from hg] at h2; cases h2
  · split
    · exact ((h.modEv _ _).unregisterTask r t).ofV (St.W6V.inform (St.W6V.refl _) _ _)
    · exact (h.modEv _ _).unregisterTask r t

theorem errorBranch (h : W6WInv n0 s) (r : Nat) (t : Task) (resumed : Bool) : W6WInv n0 (s.errorBranch r t resumed).2 := by
  have h1 := h.unregisterTask r t
  unfold St.errorBranch
  dsimp only
  generalize s.unregisterTask r t = s1 at h1
  split <;> (apply h1.ofV; w6st_v)

/-- `next(value)` on a fresh waitEvent generator, then `task_state.task_event / .parent = …` -/
theorem startWaitParent (h : W6WInv n0 s) (w : Nat) (hw : w < s.waits.length) (hns : (s.wait w).started = false)
    (te pg : Nat) (hp : s.w6_view.NonWait pg) :
    W6WInv n0 ((s.startWait w).modWait w fun x => { x with taskEvent := te, parentGen := pg }) := by
  rw [St.w6_startWait_eq]
  cases hc : (s.wait w).isCall with
  | none =>
    simp only []
    exact h.w6_startTail (s.wait w) _ _ w hw rfl hns te pg hp
  | some ct =>
    obtain ⟨ct1, ct2⟩ := ct
    simp only []
    have hv : St.W6V s (s.fireTmplEv (s.wait w).owner (mkEvOfTmpl s ct1) ct2 0) :=
      St.W6V.fireTmplEv (St.W6V.refl _) _ _ _ _
    have hwh : ((s.fireTmplEv (s.wait w).owner (mkEvOfTmpl s ct1) ct2 0).wait w).w6h = (s.wait w).w6h :=
      congrFun (congrArg W6View.wh hv) w
    have hnw : (s.fireTmplEv (s.wait w).owner (mkEvOfTmpl s ct1) ct2 0).waits.length = s.waits.length :=
      congrArg W6View.nw hv
    refine (h.ofV hv).w6_startTail (s.wait w) _ _ w (by rw [hnw]; exact hw) hwh hns te pg ?_
    rw [show (s.fireTmplEv (s.wait w).owner (mkEvOfTmpl s ct1) ct2 0).w6_view = s.w6_view from hv]; exact hp

/-- the task's own generator yielded a fresh waitEvent generator `w` -/
theorem ownSub (h : W6WInv n0 s) (r : Nat) (t : Task) (w : Nat) (hw : w < s.waits.length)
    (hns : (s.wait w).started = false) (hg : s.w6_view.NonWait t.g) : W6WInv n0 (s.ownSub r t w) := by
  unfold St.ownSub
  dsimp only
  exact ((h.modEv t.e fun x => { x with waiting := x.waiting + 1 }).unregisterTask r ⟨t.e, t.g, none⟩).startWaitParent
    w hw hns t.e t.g hg

theorem parentSub (h : W6WInv n0 s) (r : Nat) (t : Task) (p w2 : Nat) (viaThrow : Bool) (hw : w2 < s.waits.length)
    (hns : (s.wait w2).started = false) (hp : s.w6_view.NonWait p) : W6WInv n0 (s.parentSub r t p w2 viaThrow) := by
  unfold St.parentSub
  split
  · refine (h.addGen (.one none false) rfl (fun _ _ _ _ _ _ _ hh => by cases hh)).registerTask r _ ?_
    refine ⟨by simp, fun w hg => ?_, fun p' hp' => ?_⟩
    · simp [St.w6_addGen_gen] at hg
    · injection hp' with hp'; subst hp'
      exact W6View.NonWait.ofS (St.W6S.addGen_self _ _) hp
  · exact h.startWaitParent w2 hw hns t.e p hp

theorem parentPlain (h : W6WInv n0 s) (r : Nat) (t : Task) (p : Nat) (v : Option Nat) (viaThrow : Bool)
    (hp : s.w6_view.NonWait p) : W6WInv n0 (s.parentPlain r t p v viaThrow) := by
  unfold St.parentPlain
  split
  · refine (h.addGen (.one v false) rfl (fun _ _ _ _ _ _ _ hh => by cases hh)).registerTask r _ ?_
    refine ⟨by simp, fun w hg => ?_, fun p' hp' => ?_⟩
    · simp [St.w6_addGen_gen] at hg
    · injection hp' with hp'; subst hp'
      exact W6View.NonWait.ofS (St.W6S.addGen_self _ _) hp
  · refine ((h.modEv _ _).setValueOpt t.e v).registerTask r _ ?_
    have hp2 : ((s.modEv t.e fun x => { x with waiting := x.waiting - 1 }).setValueOpt t.e v).w6_view.NonWait p :=
      W6View.NonWait.ofS (St.W6S.setValueOpt (St.W6S.modEv (St.W6S.refl _) _ _) _ _) hp
    refine ⟨hp2.1, fun w hg => ?_, fun _ hh => by cases hh⟩
    have h2 := hp2.2
    rw [show (((s.modEv t.e fun x => { x with waiting := x.waiting - 1 }).setValueOpt t.e v).w6_view.gen p) = GenRec.wait w from hg] at h2
    cases h2

theorem applyValue (h : W6WInv n0 s) (r e : Nat) (value : Outcome) (hv : ∀ g, value = .gen g → s.w6_view.NonWait g) :
    W6WInv n0 (s.applyValue r e value) := by
  unfold St.applyValue
  split
  · exact h.ofV (St.W6V.setValue (St.W6V.refl _) _ _)
  · rename_i g
    refine (h.modEv _ _).registerTask r _ ?_
    have hg := hv g rfl
    refine ⟨hg.1, fun w hgw => ?_, fun _ hh => by cases hh⟩
    have h2 := hg.2
    rw [show s.w6_view.gen g = GenRec.wait w from hgw] at h2; cases h2
  · exact h.ofV (St.W6V.setValue (St.W6V.refl _) _ _)
  · exact h

theorem computeHandlers (h : W6WInv n0 s) (r : Nat) (name : Name) (chans : List Chan) :
    W6WInv n0 (s.computeHandlers r name chans).2 := by
  unfold St.computeHandlers
  dsimp only
  have hA := h.addH { owner := r, names := [Name.generateEvents], chan := none, prio := -100, kind := .fallbackGE } rfl
  have hB := h.addH { owner := r, names := [Name.exception], chan := some .star, kind := .fallbackExc } rfl
  split
  · apply hA.ofV; w6st_v
  · split
    · apply hB.ofV; w6st_v
    · apply h.ofV; w6st_v

theorem lookupHandlers (h : W6WInv n0 s) (r : Nat) (name : Name) (chans : List Chan) :
    W6WInv n0 (s.lookupHandlers r name chans).2 := by
  unfold St.lookupHandlers
  split
  · exact h
  · exact h.computeHandlers _ _ _

theorem dispatchPre (h : W6WInv n0 s) (r e remaining : Nat) : W6WInv n0 (s.dispatchPre r e remaining).2 := by
  unfold St.dispatchPre
  dsimp only
  split
  · exact h
  · have h1 : W6WInv n0 (((s.logE (.disp e)).dispComplete e ((s.logE (.disp e)).ev e)).cacheRefresh r) :=
      h.ofV (St.W6V.cacheRefresh (St.W6V.dispComplete (St.W6V.logE (St.W6V.refl _) _) _ _) _)
    have h2 := h1.lookupHandlers r ((s.logE (.disp e)).ev e).name ((s.logE (.disp e)).ev e).chans
    generalize ((s.logE (.disp e)).dispComplete e ((s.logE (.disp e)).ev e)).cacheRefresh r = s1 at h2
    generalize hL : (s1.lookupHandlers r ((s.logE (.disp e)).ev e).name ((s.logE (.disp e)).ev e).chans) = L at h2
    apply h2.ofV; w6st_v

/-- one action of user code -/
theorem actStep (h : W6WInv n0 s) (ctx : HCtx) (a : Act) (ha : Act.w6_hOk n0 a) : W6WInv n0 (actStep s ctx a).st := by
  cases a <;> (unfold CV.Core.actStep; (try dsimp only))
  case fire t target prio cancel => exact h.ofV (St.W6V.actFire (St.W6V.refl _) _ _ _ _ _)
  case stopEv => exact h.ofV (St.W6V.actStopEv (St.W6V.refl _) _)
  case addH x =>
    split
    · rename_i hk
      have hnw := HKind.w6_code0_not_wait hk
      have hlt : x < s.hs.length := by
        refine Classical.byContradiction fun hn => ?_
        rw [St.w6_handler_ge _ _ (by omega)] at hk
        simp [dfltHandler, HKind.code] at hk
      exact h.addHandler x hlt hnw
    · exact h
  case rmH x n => exact h.removeHandler x n ha
  case unreg x => exact h.ofV (St.W6V.unregister (St.W6V.refl _) _)
  case timerReset x => exact h.ofV (St.W6V.timerReset (St.W6V.refl _) _)
  all_goals exact h

end W6WInv
end CV.Core

import CV.Model.Ranges
/- Helper lemmas for C16 (ranges): the code-shaped loop of `get_ranges` computes the
   de-duplicated list of satisfiable intervals of the RFC reading of the header. Core Lean only. -/
namespace CV.Ranges
open StaticPath (Str split)

def stepOf (md len : Nat) (br : Str) : Step :=
  match parseSpec md br with
  | none => .malformed
  | some sp =>
    match satisfy len sp with
    | none => .skip
    | some (a, b) => .range a b

theorem parseOne_eq (md len : Nat) (br : Str) : parseOne md len br = stepOf md len br := by
  unfold parseOne stepOf parseSpec
  cases hsf : splitFirst '-' br with
  | mk a ob =>
    cases ob with
    | none => simp
    | some b =>
      simp only
      cases ha : strip a with
      | nil =>
        cases hb : strip b with
        | nil => simp
        | cons y ys =>
          simp only [ne_eq, not_true_eq_false, if_false, reduceCtorEq, not_false_eq_true]
          cases hr : rangeInt md (y :: ys) with
          | none => simp
          | some n =>
            simp only [Option.map_some, satisfy]
            by_cases h0 : n = 0 ∨ len = 0
            · have : ¬ (0 < n ∧ 0 < len) := by omega
              simp [h0, this]
            · have : 0 < n ∧ 0 < len := by omega
              simp [h0, this]
      | cons x xs =>
        simp only [ne_eq, reduceCtorEq, not_false_eq_true, if_true]
        cases hr : rangeInt md (x :: xs) with
        | none =>
          cases hb : strip b with
          | nil => simp [hr]
          | cons y ys => simp [hr]
        | some st =>
          cases hb : strip b with
          | nil =>
            simp only [not_true_eq_false, if_false, hr, Option.map_some, satisfy]
            by_cases hl : st ≥ len
            · have : ¬ st < len := by omega
              simp [hl, this]
            · have h2 : st < len := by omega
              have h3 : len - 1 + 1 = len := by omega
              simp [hl, h2, h3]
          | cons y ys =>
            simp only [reduceCtorEq, not_false_eq_true, if_true]
            cases hr2 : rangeInt md (y :: ys) with
            | none => simp [hr]
            | some sp =>
              simp only [hr]
              by_cases hlt : sp < st
              · simp [hlt]
              · simp only [hlt, if_false, satisfy]
                by_cases hl : st ≥ len
                · have : ¬ (st < len ∧ st ≤ sp) := by omega
                  simp [hl, this]
                · have h2 : st < len ∧ st ≤ sp := by omega
                  have h3 : min sp (len - 1) + 1 = min (sp + 1) len := by omega
                  simp [hl, h2, h3]

def addAll (acc : List (Nat × Nat)) (rs : List (Nat × Nat)) : List (Nat × Nat) := rs.foldl addRange acc

theorem loop_eq (md len : Nat) (brs : List Str) (acc : List (Nat × Nat)) :
    loop md len brs acc =
      match brs.mapM (parseSpec md) with
      | none => .none
      | some specs => finish (addAll acc (specs.filterMap (satisfy len))) := by
  induction brs generalizing acc with
  | nil => simp [loop, addAll]
  | cons br rest ih =>
    unfold loop
    rw [parseOne_eq]
    unfold stepOf
    cases hp : parseSpec md br with
    | none => simp [hp]
    | some sp =>
      cases hs : satisfy len sp with
      | none =>
        simp only [ih]
        cases hm : rest.mapM (parseSpec md) with
        | none => simp [hp, hm, hs]
        | some specs => simp [hp, hm, hs]
      | some r =>
        obtain ⟨a, b⟩ := r
        simp only [ih]
        cases hm : rest.mapM (parseSpec md) with
        | none => simp [hp, hm, hs]
        | some specs => simp [hp, hm, hs, addAll]

theorem addRange_mem (acc : List (Nat × Nat)) (r x : Nat × Nat) :
    x ∈ addRange acc r ↔ x ∈ acc ∨ x = r := by
  unfold addRange
  split
  · constructor
    · intro h; exact Or.inl h
    · rintro (h | rfl) <;> assumption
  · simp

theorem addRange_nodup (acc : List (Nat × Nat)) (r : Nat × Nat) (h : acc.Nodup) : (addRange acc r).Nodup := by
  unfold addRange
  split
  · exact h
  · rename_i hn
    rw [List.nodup_append]
    refine ⟨h, by simp, ?_⟩
    intro a ha b hb
    simp at hb; subst hb
    intro e; subst e; exact hn ha

theorem addAll_mem (rs acc : List (Nat × Nat)) (x : Nat × Nat) : x ∈ addAll acc rs ↔ x ∈ acc ∨ x ∈ rs := by
  induction rs generalizing acc with
  | nil => simp [addAll]
  | cons r t ih =>
    simp only [addAll, List.foldl_cons]
    have := ih (addRange acc r)
    simp only [addAll] at this
    rw [this, addRange_mem]
    simp only [List.mem_cons]
    constructor
    · rintro ((h | h) | h)
      · exact Or.inl h
      · exact Or.inr (Or.inl h)
      · exact Or.inr (Or.inr h)
    · rintro (h | h | h)
      · exact Or.inl (Or.inl h)
      · exact Or.inl (Or.inr h)
      · exact Or.inr h

theorem addAll_nodup (rs acc : List (Nat × Nat)) (h : acc.Nodup) : (addAll acc rs).Nodup := by
  induction rs generalizing acc with
  | nil => simpa [addAll] using h
  | cons r t ih =>
    simp only [addAll, List.foldl_cons]
    exact ih (addRange acc r) (addRange_nodup acc r h)

theorem satisfy_bounds (len : Nat) (sp : RSpec) (a b : Nat) (h : satisfy len sp = some (a, b)) :
    a < b ∧ b ≤ len := by
  cases sp with
  | fromTo x y =>
    simp only [satisfy] at h
    split at h
    · simp at h; omega
    · simp at h
  | fromOn x =>
    simp only [satisfy] at h
    split at h
    · simp at h; omega
    · simp at h
  | suffix n =>
    simp only [satisfy] at h
    split at h
    · simp at h; omega
    · simp at h

theorem sat_bounds (len : Nat) (specs : List RSpec) (r : Nat × Nat)
    (h : r ∈ specs.filterMap (satisfy len)) : r.1 < r.2 ∧ r.2 ≤ len := by
  simp only [List.mem_filterMap] at h
  obtain ⟨sp, _, hs⟩ := h
  exact satisfy_bounds len sp r.1 r.2 hs

/-- `get_ranges` in terms of the RFC reading of the header -/
theorem getRanges_eq (md : Nat) (hv : Option Str) (len : Nat) :
    getRanges md hv len =
      match parseHeader md hv with
      | none => .none
      | some specs => finish (addAll [] (specs.filterMap (satisfy len))) := by
  unfold getRanges parseHeader
  cases hv with
  | none => simp
  | some h =>
    simp only
    by_cases he : h = []
    · subst he; simp [splitFirst]
    · simp only [he, if_false]
      cases hsf : splitFirst '=' h with
      | mk u ob =>
        cases ob with
        | none => simp
        | some brs =>
          simp only
          by_cases hu : isBytesUnit u = true
          · simp only [hu, if_true]; exact loop_eq md len _ []
          · simp [hu]

theorem readAt_eq_slice (file : Bytes) (a b : Nat) : readAt file a b = slice file a b := by
  unfold readAt slice
  rw [List.drop_take]

theorem partOk_of_mem (file : Bytes) (sat : List (Nat × Nat)) (r : Nat × Nat) (hm : r ∈ sat)
    (hb : r.1 < r.2 ∧ r.2 ≤ file.length) : partOk file sat (partOf file r) = true := by
  obtain ⟨a, b⟩ := r
  simp only at hb
  have h1 : b - 1 + 1 = b := by omega
  simp only [partOk, partOf, h1, readAt_eq_slice, Bool.and_eq_true, decide_eq_true_eq]
  refine ⟨⟨⟨⟨by omega, by omega⟩, trivial⟩, hm⟩, trivial⟩

/-- the answer of `serve_file` to any Range header on any file satisfies the spec -/
theorem serveRange_ok (md : Nat) (http11 : Bool) (hv : Option Str) (file : Bytes) :
    respOk md http11 hv file (serveRange md http11 hv file) = true := by
  cases http11 with
  | false => simp [respOk, serveRange]
  | true =>
  unfold respOk serveRange
  simp only [not_true_eq_false, if_false]
  rw [getRanges_eq]
  cases hh : parseHeader md hv with
  | none => simp
  | some specs =>
    simp only
    have hmem := addAll_mem (specs.filterMap (satisfy file.length)) []
    have hnd := addAll_nodup (specs.filterMap (satisfy file.length)) [] List.nodup_nil
    have hbd := sat_bounds file.length specs
    generalize hsat : specs.filterMap (satisfy file.length) = sat at hmem hnd hbd
    generalize hR : addAll [] sat = R at hmem hnd
    simp only [List.not_mem_nil, false_or] at hmem
    unfold finish
    by_cases hw : R.length > 1 ∧ spreadTooWide R = true
    · -- refused: at least two distinct satisfiable intervals
      simp only [hw, and_self, if_true]
      match R, hw.1, hnd, hmem with
      | x :: y :: t, _, hnd, hmem =>
        have hxy : x ≠ y := by
          intro e; subst e; simp at hnd
        simp only [Bool.or_eq_true, Bool.and_eq_true, decide_eq_true_eq, List.any_eq_true]
        exact ⟨Or.inl trivial, Or.inr ⟨x, (hmem x).1 (by simp), y, (hmem y).1 (by simp), hxy⟩⟩
    · simp only [hw, if_false]
      match R, hnd, hmem with
      | [], _, hmem =>
        have : sat = [] := by
          cases sat with
          | nil => rfl
          | cons z zs => exact absurd ((hmem z).2 (by simp)) (by simp)
        simp [this]
      | [r], _, hmem =>
        have hr : r ∈ sat := (hmem r).1 (by simp)
        have hb := hbd r hr
        have hpo := partOk_of_mem file sat r hr hb
        have h1 : r.2 - 1 + 1 = r.2 := by omega
        simp only [hpo, Bool.true_and, Bool.and_eq_true, decide_eq_true_eq, List.all_eq_true]
        refine ⟨by simp [partOf, h1], ?_⟩
        intro x hx
        have := (hmem x).2 hx
        simp at this
        simp [partOf, h1, this]
      | r1 :: r2 :: t, _, hmem =>
        simp only [Bool.and_eq_true, decide_eq_true_eq, List.all_eq_true, List.any_eq_true]
        refine ⟨⟨by simp, ?_⟩, ?_⟩
        · intro p hp
          simp only [List.mem_map] at hp
          obtain ⟨r, hrm, rfl⟩ := hp
          have hr : r ∈ sat := (hmem r).1 hrm
          exact partOk_of_mem file sat r hr (hbd r hr)
        · intro x hx
          have hxm := (hmem x).2 hx
          have hb := hbd x hx
          have h1 : x.2 - 1 + 1 = x.2 := by omega
          exact ⟨partOf file x, List.mem_map.2 ⟨x, hxm, rfl⟩, by simp [partOf, h1]⟩

end CV.Ranges

import CV.Proofs.InvTasksInv
/-
waitingHandlers accounting, part 5: the arms of `step` that push only plain frames (everything except the task loop
and the task frames): the new stack is `fs ++ k` with `fs` plain, the slack of no event decreases, task sets grow.
-/
namespace CV.Core

/-- the new stack is the old tail with plain frames on top -/
def T46StackOk (k : List Frame) (c' : Cfg) : Prop := ∃ fs, c'.stack = fs ++ k ∧ ∀ f ∈ fs, f.t46_plain = true

theorem t46_actStep_call_plain (s : St) (ctx : HCtx) (a : Act) (f : Frame) (h : (actStep s ctx a).kind = .call f) :
    f.t46_plain = true := by
  cases a <;> simp only [actStep] at h <;> first | (cases h; rfl) | (split at h <;> cases h) | cases h

macro "t46s_leaf" : tactic =>
  `(tactic| first
    | exact ⟨[], rfl, fun _ h => by cases h⟩
    | (refine ⟨_, rfl, ?_⟩
       first
       | (simp [Frame.t46_plain]; done)
       | (intro f hf
          simp only [List.mem_cons, List.not_mem_nil, or_false] at hf
          rcases hf with h | h <;> subst h <;> first | rfl | exact t46_actStep_call_plain _ _ _ _ (by assumption))))

macro "t46s" ids:ident+ : tactic =>
  `(tactic| (unfold T46StackOk $[$ids]*; (try dsimp only); (repeat' split); all_goals t46s_leaf))

theorem Cfg.effectDone_t46s (c : Cfg) (k : List Frame) (r e : Nat) (a : Bool) : T46StackOk k (c.effectDone k r e a) := by
  t46s Cfg.effectDone
theorem Cfg.eventDone_t46s (c : Cfg) (k : List Frame) (r e : Nat) (a : Bool) : T46StackOk k (c.eventDone k r e a) := by
  t46s Cfg.eventDone
theorem Cfg.updateRoot_t46s (c : Cfg) (k : List Frame) (todo : List Nat) (root : Nat) : T46StackOk k (c.updateRoot k todo root) := by
  t46s Cfg.updateRoot
theorem Cfg.register_t46s (c : Cfg) (k : List Frame) (x p : Nat) : T46StackOk k (c.register k x p) := by
  t46s Cfg.register
theorem Cfg.registerFin_t46s (c : Cfg) (k : List Frame) (x : Nat) : T46StackOk k (c.registerFin k x) := by
  t46s Cfg.registerFin
theorem Cfg.prepUnregFin_t46s (c : Cfg) (k : List Frame) (x : Nat) : T46StackOk k (c.prepUnregFin k x) := by
  t46s Cfg.prepUnregFin
theorem Cfg.stopMgr_t46s (c : Cfg) (k : List Frame) (x : Nat) (code : Code) : T46StackOk k (c.stopMgr k x code) := by
  t46s Cfg.stopMgr
theorem Cfg.ticks_t46s (c : Cfg) (k : List Frame) (x n : Nat) : T46StackOk k (c.ticks k x n) := by
  t46s Cfg.ticks
theorem Cfg.stopFin_t46s (c : Cfg) (k : List Frame) (code : Code) : T46StackOk k (c.stopFin k code) := by
  t46s Cfg.stopFin
theorem Cfg.timerNew_t46s (c : Cfg) (k : List Frame) (t : Nat) : T46StackOk k (c.timerNew k t) := by
  t46s Cfg.timerNew
theorem Cfg.acts_t46s (c : Cfg) (k : List Frame) (ctx : HCtx) (prog : Prog) : T46StackOk k (c.acts k ctx prog) := by
  t46s Cfg.acts
theorem Cfg.doFin_t46s (c : Cfg) (k : List Frame) (x : Nat) : T46StackOk k (c.doFin k x) := by
  t46s Cfg.doFin
theorem Cfg.drainQ_t46s (c : Cfg) (k : List Frame) (x : Nat) : T46StackOk k (c.drainQ k x) := by
  t46s Cfg.drainQ
theorem Cfg.stepGen_t46s (c : Cfg) (k : List Frame) (g : Nat) : T46StackOk k (c.stepGen k g) := by
  t46s Cfg.stepGen
theorem Cfg.ptFin_t46s (c : Cfg) (k : List Frame) (r : Nat) (h : Option Nat) : T46StackOk k (c.ptFin k r h) := by
  t46s Cfg.ptFin
theorem Cfg.dispatcher_t46s (c : Cfg) (k : List Frame) (r e rem : Nat) : T46StackOk k (c.dispatcher k r e rem) := by
  t46s Cfg.dispatcher
theorem Cfg.hLoop_t46s (c : Cfg) (k : List Frame) (r e : Nat) (hs : List Nat) (err : Bool) (st : Outcome) :
    T46StackOk k (c.hLoop k r e hs err st) := by
  t46s Cfg.hLoop
theorem Cfg.invoke_t46s (c : Cfg) (k : List Frame) (r h e : Nat) : T46StackOk k (c.invoke k r h e) := by
  t46s Cfg.invoke Cfg.invokeUser
theorem Cfg.invokeFin_t46s (c : Cfg) (k : List Frame) (e h : Nat) : T46StackOk k (c.invokeFin k e h) := by
  t46s Cfg.invokeFin
theorem Cfg.hAfter_t46s (c : Cfg) (k : List Frame) (r e : Nat) (rest : List Nat) (err : Bool) (st : Outcome) :
    T46StackOk k (c.hAfter k r e rest err st) := by
  t46s Cfg.hAfter
theorem Cfg.hApply_t46s (c : Cfg) (k : List Frame) (r e : Nat) (rest : List Nat) (err : Bool) (v : Outcome) :
    T46StackOk k (c.hApply k r e rest err v) := by
  t46s Cfg.hApply
theorem Cfg.dispFin_t46s (c : Cfg) (k : List Frame) (r e : Nat) (err : Bool) : T46StackOk k (c.dispFin k r e err) := by
  t46s Cfg.dispFin
theorem Cfg.dispatchLoop_t46s (c : Cfg) (k : List Frame) (r : Nat) : T46StackOk k (c.dispatchLoop k r) := by
  t46s Cfg.dispatchLoop
theorem Cfg.flush_t46s (c : Cfg) (k : List Frame) (x : Nat) : T46StackOk k (c.flush k x) := by
  t46s Cfg.flush
theorem Cfg.flushFin_t46s (c : Cfg) (k : List Frame) (r : Nat) (old : Bool) : T46StackOk k (c.flushFin k r old) := by
  t46s Cfg.flushFin
theorem Cfg.tickFin_t46s (c : Cfg) (k : List Frame) (x : Nat) (old : Bool) : T46StackOk k (c.tickFin k x old) := by
  t46s Cfg.tickFin
theorem Cfg.tickGen_t46s (c : Cfg) (k : List Frame) (x : Nat) : T46StackOk k (c.tickGen k x) := by
  t46s Cfg.tickGen
theorem Cfg.run_t46s (c : Cfg) (k : List Frame) (x : Nat) : T46StackOk k (c.run k x) := by
  t46s Cfg.run
theorem Cfg.runLoop_t46s (c : Cfg) (k : List Frame) (x : Nat) : T46StackOk k (c.runLoop k x) := by
  t46s Cfg.runLoop
theorem Cfg.runFin_t46s (c : Cfg) (k : List Frame) (x : Nat) : T46StackOk k (c.runFin k x) := by
  t46s Cfg.runFin
theorem Cfg.runRethrow_t46s (c : Cfg) (k : List Frame) (ex : Exn) : T46StackOk k (c.runRethrow k ex) := by
  t46s Cfg.runRethrow
theorem Cfg.runCatchExn_t46s (c : Cfg) (k : List Frame) (x : Nat) (ex : Exn) : T46StackOk k (c.runCatchExn k x ex) := by
  unfold Cfg.runCatchExn
  split
  · exact ⟨[.tick x, .drainQ x, .runRethrow _], rfl, by simp [Frame.t46_plain]⟩
  · exact ⟨[], rfl, fun _ h => by cases h⟩
theorem Cfg.contStop_t46s (c : Cfg) (k : List Frame) (s : St) (r : Nat) (t : Task) : T46StackOk k (c.contStop k s r t) := by
  t46s Cfg.contStop
theorem Cfg.contError_t46s (c : Cfg) (k : List Frame) (s : St) (r : Nat) (t : Task) (b : Bool) :
    T46StackOk k (c.contError k s r t b) := by
  t46s Cfg.contError
theorem Cfg.pop_t46s (c : Cfg) (k : List Frame) (s : St) : T46StackOk k (c.pop k s) := ⟨[], rfl, fun _ h => by cases h⟩

/-- an arm that pushes only plain frames, lets no slack decrease and unregisters nothing keeps the invariant -/
theorem T46Inv.goPlain {c c' : Cfg} (h : T46Inv c) {f : Frame} {k : List Frame} (hs : c.stack = f :: k)
    (hM : St.T46M c.st c'.st) (hG : St.T46G none c.st c'.st)
    (hr : ∀ x ts, Frame.taskLoop x ts ∈ k → c'.st.rootOf x = c.st.rootOf x) (hst : T46StackOk k c') : T46Inv c' := by
  obtain ⟨fs, hfs, hp⟩ := hst
  have hsh := h.shape
  rw [hs] at hsh
  refine ⟨fun e => ?_, hG.nd h.nd, ?_⟩
  · have h1 := h.acct e
    rw [hs, t46_WF_cons] at h1
    rw [hfs, t46_WF_append, t46_WF_plain e fs hp]
    have := Frame.t46_wt_nonneg e f
    have := hM e
    omega
  · rw [hfs]
    exact T46Shape.append_plain hp (T46Shape.mono hG hr hsh.2)

end CV.Core

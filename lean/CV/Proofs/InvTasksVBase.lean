import CV.Proofs.InvTasksBase
/-
waitingHandlers accounting, part 9 (run level): the relation `St.T46V xt s s'` - `waitingHandlers` of no event changes,
except possibly that of the event `xt` - with its primitives and the tactic `t46v`.
-/
namespace CV.Core

/-- `waitingHandlers` of every event other than `xt` is unchanged -/
structure St.T46V (xt : Option Nat) (s s' : St) : Prop where
  w : ∀ e, some e ≠ xt → (s'.ev e).waiting = (s.ev e).waiting

namespace St.T46V
variable {xt : Option Nat} {s t : St}

theorem refl (s : St) : St.T46V xt s s := ⟨fun _ _ => rfl⟩
theorem trans {a b c : St} (h1 : St.T46V xt a b) (h2 : St.T46V xt b c) : St.T46V xt a c :=
  ⟨fun e he => (h2.w e he).trans (h1.w e he)⟩
theorem of_ev {t' : St} (h : St.T46V xt s t) (he : ∀ e, t'.ev e = t.ev e) : St.T46V xt s t' :=
  ⟨fun e hne => by rw [he]; exact h.w e hne⟩

theorem modComp (h : St.T46V xt s t) (c : Nat) (f : Comp → Comp) : St.T46V xt s (t.modComp c f) := h.of_ev fun _ => rfl
theorem modWait (h : St.T46V xt s t) (w : Nat) (f : WaitSt → WaitSt) : St.T46V xt s (t.modWait w f) := h.of_ev fun _ => rfl
theorem modTimer (h : St.T46V xt s t) (i : Nat) (f : TimerSt → TimerSt) : St.T46V xt s (t.modTimer i f) := h.of_ev fun _ => rfl
theorem setGen (h : St.T46V xt s t) (g : Nat) (x : GenRec) : St.T46V xt s (t.setGen g x) := h.of_ev fun _ => rfl
theorem logE (h : St.T46V xt s t) (x : Entry) : St.T46V xt s (t.logE x) := h.of_ev fun _ => rfl
theorem addH (h : St.T46V xt s t) (x : Handler) : St.T46V xt s (t.addH x) := h.of_ev fun _ => rfl
theorem addGen (h : St.T46V xt s t) (g : GenRec) : St.T46V xt s (t.addGen g) := h.of_ev fun _ => rfl
theorem addWait (h : St.T46V xt s t) (w : WaitSt) : St.T46V xt s (t.addWait w) := h.of_ev fun _ => rfl
theorem tick1 (h : St.T46V xt s t) (d : Int) : St.T46V xt s (t.tick1 d) := h.of_ev fun _ => rfl
theorem registerTask (h : St.T46V xt s t) (c : Nat) (x : Task) : St.T46V xt s (t.registerTask c x) := h.of_ev fun _ => rfl
theorem unregisterTask (h : St.T46V xt s t) (c : Nat) (x : Task) : St.T46V xt s (t.unregisterTask c x) := h.of_ev fun _ => rfl

/-- `modEv e f`: either `f` keeps `waiting`, or `e` is the excepted event -/
theorem modEv (h : St.T46V xt s t) (e : Nat) (f : Ev → Ev)
    (hf : (∀ y : Ev, (f y).waiting = y.waiting) ∨ xt = some e) : St.T46V xt s (t.modEv e f) := by
  refine h.trans ⟨fun x hx => ?_⟩
  rw [St.t46_ev_modEv]
  split
  · rename_i hc
    rcases hf with hf | hf
    · exact hf _
    · exact absurd (by rw [hf, hc.1]) hx
  · rfl

theorem addEv (h : St.T46V xt s t) (ev : Ev) (hv : ev.waiting = 0) : St.T46V xt s (t.addEv ev) :=
  h.trans ⟨fun x _ => St.t46_ev_addEv_waiting t ev x hv⟩

end St.T46V

syntax "t46v1" : tactic
macro_rules | `(tactic| t46v1) => `(tactic| split)
macro_rules | `(tactic| t46v1) => `(tactic| with_reducible apply St.T46V.unregisterTask)
macro_rules | `(tactic| t46v1) => `(tactic| with_reducible apply St.T46V.registerTask)
macro_rules | `(tactic| t46v1) => `(tactic| with_reducible apply St.T46V.tick1)
macro_rules | `(tactic| t46v1) => `(tactic| with_reducible apply St.T46V.addWait)
macro_rules | `(tactic| t46v1) => `(tactic| with_reducible apply St.T46V.addGen)
macro_rules | `(tactic| t46v1) => `(tactic| with_reducible apply St.T46V.addH)
macro_rules | `(tactic| t46v1) => `(tactic| ((with_reducible apply St.T46V.addEv); case hv => exact rfl))
macro_rules | `(tactic| t46v1) => `(tactic| with_reducible apply St.T46V.logE)
macro_rules | `(tactic| t46v1) => `(tactic| with_reducible apply St.T46V.setGen)
macro_rules | `(tactic| t46v1) => `(tactic| with_reducible apply St.T46V.modTimer)
macro_rules | `(tactic| t46v1) => `(tactic| with_reducible apply St.T46V.modWait)
macro_rules | `(tactic| t46v1) => `(tactic| ((with_reducible apply St.T46V.modEv); case hf =>
  first | exact Or.inl (fun _ => rfl) | (refine Or.inl ?_; intro y; split <;> rfl) | exact Or.inr (by assumption) | exact Or.inr rfl))
macro_rules | `(tactic| t46v1) => `(tactic| with_reducible apply St.T46V.modComp)
macro_rules | `(tactic| t46v1) => `(tactic| with_reducible assumption)
macro_rules | `(tactic| t46v1) => `(tactic| with_reducible exact St.T46V.refl _)

macro "t46v" : tactic => `(tactic| repeat' t46v1)
macro "t46v_unfold" ids:ident+ : tactic => `(tactic| (unfold $[$ids]*; (try dsimp only); t46v))

end CV.Core

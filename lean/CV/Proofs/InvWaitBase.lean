import CV.Proofs.CoreReach
import CV.Proofs.CoreStep
/-
Table-access lemmas for the primitives of `Pure.lean` (what `St.ev/wait/gen/handler/comp` read
after `modEv/modWait/setGen/addEv/addWait/addGen/addH/modComp`).  Shared by the C06 proofs.
-/
namespace CV.Core

/-! ### reading a table after a primitive -/

theorem w6_getD_modify {α} (l : List α) (i j : Nat) (f : α → α) (d : α) (hd : f d = d) :
    (l.modify i f).getD j d = if j = i then f (l.getD j d) else l.getD j d := by
  simp only [List.getD_eq_getElem?_getD, List.getElem?_modify]
  by_cases h : i = j
  · subst h
    simp only [if_true]
    cases hl : l[i]? <;> simp [hd]
  · have h' : ¬ j = i := fun e => h e.symm
    simp [h, h']

theorem w6_getD_modify_ne {α} (l : List α) (i j : Nat) (f : α → α) (d : α) (h : j ≠ i) :
    (l.modify i f).getD j d = l.getD j d := by
  simp only [List.getD_eq_getElem?_getD, List.getElem?_modify]
  have h' : ¬ i = j := fun e => h e.symm
  simp [h']

theorem w6_getD_modify_lt {α} (l : List α) (i : Nat) (f : α → α) (d : α) (h : i < l.length) :
    (l.modify i f).getD i d = f (l.getD i d) := by
  simp only [List.getD_eq_getElem?_getD, List.getElem?_modify]
  simp [List.getElem?_eq_getElem h]

theorem w6_getD_modify_ge {α} (l : List α) (i j : Nat) (f : α → α) (d : α) (h : l.length ≤ i) :
    (l.modify i f).getD j d = l.getD j d := by
  simp only [List.getD_eq_getElem?_getD, List.getElem?_modify]
  by_cases hij : i = j
  · subst hij; simp [List.getElem?_eq_none h]
  · simp [hij]

theorem w6_getD_append_single {α} (l : List α) (x d : α) (j : Nat) :
    (l ++ [x]).getD j d = if j = l.length then x else l.getD j d := by
  simp only [List.getD_eq_getElem?_getD]
  by_cases h : j < l.length
  · have : j ≠ l.length := Nat.ne_of_lt h
    simp [List.getElem?_append_left h, this]
  · by_cases h2 : j = l.length
    · subst h2; simp
    · have h3 : l.length < j := by omega
      have h4 : l.length ≤ j := by omega
      rw [List.getElem?_append_right h4]
      have : j - l.length ≠ 0 := by omega
      simp [h2, List.getElem?_eq_none h4]
      cases hh : j - l.length with
      | zero => omega
      | succ n => rfl

namespace St
variable (t : St)

/-! #### modEv -/
@[simp] theorem w6_modEv_waits (e : Nat) (f : Ev → Ev) : (t.modEv e f).waits = t.waits := rfl
@[simp] theorem w6_modEv_gens (e : Nat) (f : Ev → Ev) : (t.modEv e f).gens = t.gens := rfl
@[simp] theorem w6_modEv_hs (e : Nat) (f : Ev → Ev) : (t.modEv e f).hs = t.hs := rfl
@[simp] theorem w6_modEv_comps (e : Nat) (f : Ev → Ev) : (t.modEv e f).comps = t.comps := rfl
@[simp] theorem w6_modEv_log (e : Nat) (f : Ev → Ev) : (t.modEv e f).log = t.log := rfl
@[simp] theorem w6_modEv_progs (e : Nat) (f : Ev → Ev) : (t.modEv e f).progs = t.progs := rfl
@[simp] theorem w6_modEv_tmpls (e : Nat) (f : Ev → Ev) : (t.modEv e f).tmpls = t.tmpls := rfl
@[simp] theorem w6_modEv_evs_length (e : Nat) (f : Ev → Ev) : (t.modEv e f).evs.length = t.evs.length := by
  simp [modEv]
@[simp] theorem w6_modEv_wait (e : Nat) (f : Ev → Ev) (w : Nat) : (t.modEv e f).wait w = t.wait w := rfl
@[simp] theorem w6_modEv_gen (e : Nat) (f : Ev → Ev) (g : Nat) : (t.modEv e f).gen g = t.gen g := rfl
@[simp] theorem w6_modEv_handler (e : Nat) (f : Ev → Ev) (h : Nat) : (t.modEv e f).handler h = t.handler h := rfl
@[simp] theorem w6_modEv_comp (e : Nat) (f : Ev → Ev) (c : Nat) : (t.modEv e f).comp c = t.comp c := rfl
theorem w6_modEv_ev_ne (e : Nat) (f : Ev → Ev) (e' : Nat) (h : e' ≠ e) : (t.modEv e f).ev e' = t.ev e' :=
  w6_getD_modify_ne _ _ _ _ _ h
theorem w6_modEv_ev_lt (e : Nat) (f : Ev → Ev) (h : e < t.evs.length) : (t.modEv e f).ev e = f (t.ev e) :=
  w6_getD_modify_lt _ _ _ _ h
theorem w6_modEv_ev_ge (e : Nat) (f : Ev → Ev) (e' : Nat) (h : t.evs.length ≤ e) : (t.modEv e f).ev e' = t.ev e' :=
  w6_getD_modify_ge _ _ _ _ _ h
/-- a property of one event row that `f` preserves survives `modEv` -/
theorem w6_modEv_ev_pres {β} (p : Ev → β) (e : Nat) (f : Ev → Ev) (hf : ∀ x, p (f x) = p x) (e' : Nat) :
    p ((t.modEv e f).ev e') = p (t.ev e') := by
  by_cases h1 : e' = e
  · subst h1
    by_cases h2 : e' < t.evs.length
    · rw [w6_modEv_ev_lt _ _ _ h2, hf]
    · rw [w6_modEv_ev_ge _ _ _ _ (by omega)]
  · rw [w6_modEv_ev_ne _ _ _ _ h1]

/-! #### modWait -/
@[simp] theorem w6_modWait_evs (w : Nat) (f : WaitSt → WaitSt) : (t.modWait w f).evs = t.evs := rfl
@[simp] theorem w6_modWait_gens (w : Nat) (f : WaitSt → WaitSt) : (t.modWait w f).gens = t.gens := rfl
@[simp] theorem w6_modWait_hs (w : Nat) (f : WaitSt → WaitSt) : (t.modWait w f).hs = t.hs := rfl
@[simp] theorem w6_modWait_comps (w : Nat) (f : WaitSt → WaitSt) : (t.modWait w f).comps = t.comps := rfl
@[simp] theorem w6_modWait_log (w : Nat) (f : WaitSt → WaitSt) : (t.modWait w f).log = t.log := rfl
@[simp] theorem w6_modWait_progs (w : Nat) (f : WaitSt → WaitSt) : (t.modWait w f).progs = t.progs := rfl
@[simp] theorem w6_modWait_waits_length (w : Nat) (f : WaitSt → WaitSt) : (t.modWait w f).waits.length = t.waits.length := by
  simp [modWait]
@[simp] theorem w6_modWait_ev (w : Nat) (f : WaitSt → WaitSt) (e : Nat) : (t.modWait w f).ev e = t.ev e := rfl
@[simp] theorem w6_modWait_gen (w : Nat) (f : WaitSt → WaitSt) (g : Nat) : (t.modWait w f).gen g = t.gen g := rfl
@[simp] theorem w6_modWait_handler (w : Nat) (f : WaitSt → WaitSt) (h : Nat) : (t.modWait w f).handler h = t.handler h := rfl
@[simp] theorem w6_modWait_comp (w : Nat) (f : WaitSt → WaitSt) (c : Nat) : (t.modWait w f).comp c = t.comp c := rfl
theorem w6_modWait_wait_ne (w : Nat) (f : WaitSt → WaitSt) (w' : Nat) (h : w' ≠ w) : (t.modWait w f).wait w' = t.wait w' :=
  w6_getD_modify_ne _ _ _ _ _ h
theorem w6_modWait_wait_lt (w : Nat) (f : WaitSt → WaitSt) (h : w < t.waits.length) : (t.modWait w f).wait w = f (t.wait w) :=
  w6_getD_modify_lt _ _ _ _ h
theorem w6_modWait_wait_ge (w : Nat) (f : WaitSt → WaitSt) (w' : Nat) (h : t.waits.length ≤ w) : (t.modWait w f).wait w' = t.wait w' :=
  w6_getD_modify_ge _ _ _ _ _ h
theorem w6_modWait_wait_pres {β} (p : WaitSt → β) (w : Nat) (f : WaitSt → WaitSt) (hf : ∀ x, p (f x) = p x) (w' : Nat) :
    p ((t.modWait w f).wait w') = p (t.wait w') := by
  by_cases h1 : w' = w
  · subst h1
    by_cases h2 : w' < t.waits.length
    · rw [w6_modWait_wait_lt _ _ _ h2, hf]
    · rw [w6_modWait_wait_ge _ _ _ _ (by omega)]
  · rw [w6_modWait_wait_ne _ _ _ _ h1]

theorem w6_modWait_wait_congr (t' : St) (h : t.waits = t'.waits) (w : Nat) (f : WaitSt → WaitSt) (w' : Nat) :
    (t.modWait w f).wait w' = (t'.modWait w f).wait w' := by
  simp [wait, modWait, h]

/-! #### modComp -/
@[simp] theorem w6_modComp_evs (c : Nat) (f : Comp → Comp) : (t.modComp c f).evs = t.evs := rfl
@[simp] theorem w6_modComp_gens (c : Nat) (f : Comp → Comp) : (t.modComp c f).gens = t.gens := rfl
@[simp] theorem w6_modComp_hs (c : Nat) (f : Comp → Comp) : (t.modComp c f).hs = t.hs := rfl
@[simp] theorem w6_modComp_waits (c : Nat) (f : Comp → Comp) : (t.modComp c f).waits = t.waits := rfl
@[simp] theorem w6_modComp_log (c : Nat) (f : Comp → Comp) : (t.modComp c f).log = t.log := rfl
@[simp] theorem w6_modComp_progs (c : Nat) (f : Comp → Comp) : (t.modComp c f).progs = t.progs := rfl
@[simp] theorem w6_modComp_comps_length (c : Nat) (f : Comp → Comp) : (t.modComp c f).comps.length = t.comps.length := by
  simp [modComp]
@[simp] theorem w6_modComp_ev (c : Nat) (f : Comp → Comp) (e : Nat) : (t.modComp c f).ev e = t.ev e := rfl
@[simp] theorem w6_modComp_gen (c : Nat) (f : Comp → Comp) (g : Nat) : (t.modComp c f).gen g = t.gen g := rfl
@[simp] theorem w6_modComp_handler (c : Nat) (f : Comp → Comp) (h : Nat) : (t.modComp c f).handler h = t.handler h := rfl
@[simp] theorem w6_modComp_wait (c : Nat) (f : Comp → Comp) (w : Nat) : (t.modComp c f).wait w = t.wait w := rfl
theorem w6_modComp_comp_ne (c : Nat) (f : Comp → Comp) (c' : Nat) (h : c' ≠ c) : (t.modComp c f).comp c' = t.comp c' :=
  w6_getD_modify_ne _ _ _ _ _ h
theorem w6_modComp_comp_lt (c : Nat) (f : Comp → Comp) (h : c < t.comps.length) : (t.modComp c f).comp c = f (t.comp c) :=
  w6_getD_modify_lt _ _ _ _ h
theorem w6_modComp_comp_ge (c : Nat) (f : Comp → Comp) (c' : Nat) (h : t.comps.length ≤ c) : (t.modComp c f).comp c' = t.comp c' :=
  w6_getD_modify_ge _ _ _ _ _ h
theorem w6_modComp_comp_pres {β} (p : Comp → β) (c : Nat) (f : Comp → Comp) (hf : ∀ x, p (f x) = p x) (c' : Nat) :
    p ((t.modComp c f).comp c') = p (t.comp c') := by
  by_cases h1 : c' = c
  · subst h1
    by_cases h2 : c' < t.comps.length
    · rw [w6_modComp_comp_lt _ _ _ h2, hf]
    · rw [w6_modComp_comp_ge _ _ _ _ (by omega)]
  · rw [w6_modComp_comp_ne _ _ _ _ h1]
theorem w6_modComp_comp_htab (c : Nat) (f : Comp → Comp) (hf : ∀ x, (f x).htab = x.htab) (c' : Nat) :
    ((t.modComp c f).comp c').htab = (t.comp c').htab := w6_modComp_comp_pres t (fun x => x.htab) c f hf c'
theorem w6_modComp_comp_tasks (c : Nat) (f : Comp → Comp) (hf : ∀ x, (f x).tasks = x.tasks) (c' : Nat) :
    ((t.modComp c f).comp c').tasks = (t.comp c').tasks := w6_modComp_comp_pres t (fun x => x.tasks) c f hf c'
/-- rewriting form: any record update that copies `htab` -/
theorem w6_modComp_mk_htab (c c' : Nat) (a1 a2 : Comp → Nat) (a3 : Comp → List Nat) (a4 : Comp → Chan)
    (a6 : Comp → List Nat) (a7 : Comp → Bool) (a8 : Comp → EQ) (a9 : Comp → List Task)
    (a10 : Comp → List ((Name × List Chan) × List Nat)) (a11 a12 a13 a14 : Comp → Bool) (a15 : Comp → Option Nat)
    (a16 : Comp → Code) :
    ((t.modComp c fun x => ⟨a1 x, a2 x, a3 x, a4 x, x.htab, a6 x, a7 x, a8 x, a9 x, a10 x, a11 x, a12 x, a13 x, a14 x,
      a15 x, a16 x⟩).comp c').htab = (t.comp c').htab :=
  w6_modComp_comp_htab t c _ (by intro x; rfl) c'
/-- rewriting form: any record update that copies `tasks` -/
theorem w6_modComp_mk_tasks (c c' : Nat) (a1 a2 : Comp → Nat) (a3 : Comp → List Nat) (a4 : Comp → Chan)
    (a5 : Comp → List (HKey × Nat))
    (a6 : Comp → List Nat) (a7 : Comp → Bool) (a8 : Comp → EQ)
    (a10 : Comp → List ((Name × List Chan) × List Nat)) (a11 a12 a13 a14 : Comp → Bool) (a15 : Comp → Option Nat)
    (a16 : Comp → Code) :
    ((t.modComp c fun x => ⟨a1 x, a2 x, a3 x, a4 x, a5 x, a6 x, a7 x, a8 x, x.tasks, a10 x, a11 x, a12 x, a13 x, a14 x,
      a15 x, a16 x⟩).comp c').tasks = (t.comp c').tasks :=
  w6_modComp_comp_tasks t c _ (by intro x; rfl) c'
/-- the row `c'` after `modComp c f` is the old row or `f` of the old row -/
theorem w6_modComp_comp_cases (c : Nat) (f : Comp → Comp) (c' : Nat) :
    (t.modComp c f).comp c' = t.comp c' ∨ (c' = c ∧ (t.modComp c f).comp c' = f (t.comp c')) := by
  by_cases h1 : c' = c
  · subst h1
    by_cases h2 : c' < t.comps.length
    · exact Or.inr ⟨rfl, w6_modComp_comp_lt _ _ _ h2⟩
    · exact Or.inl (w6_modComp_comp_ge _ _ _ _ (by omega))
  · exact Or.inl (w6_modComp_comp_ne _ _ _ _ h1)

/-! #### modTimer, logE, tick1 -/
@[simp] theorem w6_modTimer_evs (i : Nat) (f : TimerSt → TimerSt) : (t.modTimer i f).evs = t.evs := rfl
@[simp] theorem w6_modTimer_gens (i : Nat) (f : TimerSt → TimerSt) : (t.modTimer i f).gens = t.gens := rfl
@[simp] theorem w6_modTimer_hs (i : Nat) (f : TimerSt → TimerSt) : (t.modTimer i f).hs = t.hs := rfl
@[simp] theorem w6_modTimer_waits (i : Nat) (f : TimerSt → TimerSt) : (t.modTimer i f).waits = t.waits := rfl
@[simp] theorem w6_modTimer_comps (i : Nat) (f : TimerSt → TimerSt) : (t.modTimer i f).comps = t.comps := rfl
@[simp] theorem w6_modTimer_log (i : Nat) (f : TimerSt → TimerSt) : (t.modTimer i f).log = t.log := rfl
@[simp] theorem w6_modTimer_progs (i : Nat) (f : TimerSt → TimerSt) : (t.modTimer i f).progs = t.progs := rfl
@[simp] theorem w6_modTimer_ev (i : Nat) (f : TimerSt → TimerSt) (e : Nat) : (t.modTimer i f).ev e = t.ev e := rfl
@[simp] theorem w6_modTimer_gen (i : Nat) (f : TimerSt → TimerSt) (g : Nat) : (t.modTimer i f).gen g = t.gen g := rfl
@[simp] theorem w6_modTimer_handler (i : Nat) (f : TimerSt → TimerSt) (h : Nat) : (t.modTimer i f).handler h = t.handler h := rfl
@[simp] theorem w6_modTimer_wait (i : Nat) (f : TimerSt → TimerSt) (w : Nat) : (t.modTimer i f).wait w = t.wait w := rfl
@[simp] theorem w6_modTimer_comp (i : Nat) (f : TimerSt → TimerSt) (c : Nat) : (t.modTimer i f).comp c = t.comp c := rfl

@[simp] theorem w6_logE_evs (x : Entry) : (t.logE x).evs = t.evs := rfl
@[simp] theorem w6_logE_gens (x : Entry) : (t.logE x).gens = t.gens := rfl
@[simp] theorem w6_logE_hs (x : Entry) : (t.logE x).hs = t.hs := rfl
@[simp] theorem w6_logE_waits (x : Entry) : (t.logE x).waits = t.waits := rfl
@[simp] theorem w6_logE_comps (x : Entry) : (t.logE x).comps = t.comps := rfl
@[simp] theorem w6_logE_log (x : Entry) : (t.logE x).log = x :: t.log := rfl
@[simp] theorem w6_logE_progs (x : Entry) : (t.logE x).progs = t.progs := rfl
@[simp] theorem w6_logE_ev (x : Entry) (e : Nat) : (t.logE x).ev e = t.ev e := rfl
@[simp] theorem w6_logE_gen (x : Entry) (g : Nat) : (t.logE x).gen g = t.gen g := rfl
@[simp] theorem w6_logE_handler (x : Entry) (h : Nat) : (t.logE x).handler h = t.handler h := rfl
@[simp] theorem w6_logE_wait (x : Entry) (w : Nat) : (t.logE x).wait w = t.wait w := rfl
@[simp] theorem w6_logE_comp (x : Entry) (c : Nat) : (t.logE x).comp c = t.comp c := rfl

@[simp] theorem w6_tick1_evs (d : Int) : (t.tick1 d).evs = t.evs := rfl
@[simp] theorem w6_tick1_gens (d : Int) : (t.tick1 d).gens = t.gens := rfl
@[simp] theorem w6_tick1_hs (d : Int) : (t.tick1 d).hs = t.hs := rfl
@[simp] theorem w6_tick1_waits (d : Int) : (t.tick1 d).waits = t.waits := rfl
@[simp] theorem w6_tick1_comps (d : Int) : (t.tick1 d).comps = t.comps := rfl
@[simp] theorem w6_tick1_log (d : Int) : (t.tick1 d).log = t.log := rfl
@[simp] theorem w6_tick1_progs (d : Int) : (t.tick1 d).progs = t.progs := rfl
@[simp] theorem w6_tick1_ev (d : Int) (e : Nat) : (t.tick1 d).ev e = t.ev e := rfl
@[simp] theorem w6_tick1_gen (d : Int) (g : Nat) : (t.tick1 d).gen g = t.gen g := rfl
@[simp] theorem w6_tick1_handler (d : Int) (h : Nat) : (t.tick1 d).handler h = t.handler h := rfl
@[simp] theorem w6_tick1_wait (d : Int) (w : Nat) : (t.tick1 d).wait w = t.wait w := rfl
@[simp] theorem w6_tick1_comp (d : Int) (c : Nat) : (t.tick1 d).comp c = t.comp c := rfl

/-! #### setGen -/
@[simp] theorem w6_setGen_evs (g : Nat) (x : GenRec) : (t.setGen g x).evs = t.evs := rfl
@[simp] theorem w6_setGen_hs (g : Nat) (x : GenRec) : (t.setGen g x).hs = t.hs := rfl
@[simp] theorem w6_setGen_waits (g : Nat) (x : GenRec) : (t.setGen g x).waits = t.waits := rfl
@[simp] theorem w6_setGen_comps (g : Nat) (x : GenRec) : (t.setGen g x).comps = t.comps := rfl
@[simp] theorem w6_setGen_log (g : Nat) (x : GenRec) : (t.setGen g x).log = t.log := rfl
@[simp] theorem w6_setGen_progs (g : Nat) (x : GenRec) : (t.setGen g x).progs = t.progs := rfl
@[simp] theorem w6_setGen_gens_length (g : Nat) (x : GenRec) : (t.setGen g x).gens.length = t.gens.length := by
  simp [setGen]
@[simp] theorem w6_setGen_ev (g : Nat) (x : GenRec) (e : Nat) : (t.setGen g x).ev e = t.ev e := rfl
@[simp] theorem w6_setGen_handler (g : Nat) (x : GenRec) (h : Nat) : (t.setGen g x).handler h = t.handler h := rfl
@[simp] theorem w6_setGen_wait (g : Nat) (x : GenRec) (w : Nat) : (t.setGen g x).wait w = t.wait w := rfl
@[simp] theorem w6_setGen_comp (g : Nat) (x : GenRec) (c : Nat) : (t.setGen g x).comp c = t.comp c := rfl
theorem w6_setGen_gen_ne (g : Nat) (x : GenRec) (g' : Nat) (h : g' ≠ g) : (t.setGen g x).gen g' = t.gen g' := by
  simp only [gen, setGen, List.getD_eq_getElem?_getD, List.getElem?_set]
  have : ¬ g = g' := fun e => h e.symm
  simp [this]
theorem w6_setGen_gen_lt (g : Nat) (x : GenRec) (h : g < t.gens.length) : (t.setGen g x).gen g = x := by
  simp [gen, setGen, List.getD_eq_getElem?_getD, h]
theorem w6_setGen_gen_ge (g : Nat) (x : GenRec) (g' : Nat) (h : t.gens.length ≤ g) : (t.setGen g x).gen g' = t.gen g' := by
  simp only [gen, setGen, List.getD_eq_getElem?_getD, List.getElem?_set]
  by_cases hg : g = g'
  · subst hg
    have : ¬ g < t.gens.length := by omega
    simp [this]
  · simp [hg]
theorem w6_setGen_gen_cases (g : Nat) (x : GenRec) (g' : Nat) :
    (t.setGen g x).gen g' = t.gen g' ∨ (g' = g ∧ g < t.gens.length ∧ (t.setGen g x).gen g' = x) := by
  by_cases h1 : g' = g
  · subst h1
    by_cases h2 : g' < t.gens.length
    · exact Or.inr ⟨rfl, h2, w6_setGen_gen_lt _ _ _ h2⟩
    · exact Or.inl (w6_setGen_gen_ge _ _ _ _ (by omega))
  · exact Or.inl (w6_setGen_gen_ne _ _ _ _ h1)

/-! #### addEv / addH / addGen / addWait -/
@[simp] theorem w6_addEv_waits (e : Ev) : (t.addEv e).waits = t.waits := rfl
@[simp] theorem w6_addEv_gens (e : Ev) : (t.addEv e).gens = t.gens := rfl
@[simp] theorem w6_addEv_hs (e : Ev) : (t.addEv e).hs = t.hs := rfl
@[simp] theorem w6_addEv_comps (e : Ev) : (t.addEv e).comps = t.comps := rfl
@[simp] theorem w6_addEv_log (e : Ev) : (t.addEv e).log = t.log := rfl
@[simp] theorem w6_addEv_progs (e : Ev) : (t.addEv e).progs = t.progs := rfl
@[simp] theorem w6_addEv_evs_length (e : Ev) : (t.addEv e).evs.length = t.evs.length + 1 := by simp [addEv]
@[simp] theorem w6_addEv_wait (e : Ev) (w : Nat) : (t.addEv e).wait w = t.wait w := rfl
@[simp] theorem w6_addEv_gen (e : Ev) (g : Nat) : (t.addEv e).gen g = t.gen g := rfl
@[simp] theorem w6_addEv_handler (e : Ev) (h : Nat) : (t.addEv e).handler h = t.handler h := rfl
@[simp] theorem w6_addEv_comp (e : Ev) (c : Nat) : (t.addEv e).comp c = t.comp c := rfl
theorem w6_addEv_ev (x : Ev) (e : Nat) : (t.addEv x).ev e = if e = t.evs.length then x else t.ev e :=
  w6_getD_append_single _ _ _ _

@[simp] theorem w6_addH_waits (x : Handler) : (t.addH x).waits = t.waits := rfl
@[simp] theorem w6_addH_gens (x : Handler) : (t.addH x).gens = t.gens := rfl
@[simp] theorem w6_addH_evs (x : Handler) : (t.addH x).evs = t.evs := rfl
@[simp] theorem w6_addH_comps (x : Handler) : (t.addH x).comps = t.comps := rfl
@[simp] theorem w6_addH_log (x : Handler) : (t.addH x).log = t.log := rfl
@[simp] theorem w6_addH_progs (x : Handler) : (t.addH x).progs = t.progs := rfl
@[simp] theorem w6_addH_hs_length (x : Handler) : (t.addH x).hs.length = t.hs.length + 1 := by simp [addH]
@[simp] theorem w6_addH_wait (x : Handler) (w : Nat) : (t.addH x).wait w = t.wait w := rfl
@[simp] theorem w6_addH_gen (x : Handler) (g : Nat) : (t.addH x).gen g = t.gen g := rfl
@[simp] theorem w6_addH_ev (x : Handler) (e : Nat) : (t.addH x).ev e = t.ev e := rfl
@[simp] theorem w6_addH_comp (x : Handler) (c : Nat) : (t.addH x).comp c = t.comp c := rfl
theorem w6_addH_handler (x : Handler) (h : Nat) : (t.addH x).handler h = if h = t.hs.length then x else t.handler h :=
  w6_getD_append_single _ _ _ _

@[simp] theorem w6_addGen_waits (x : GenRec) : (t.addGen x).waits = t.waits := rfl
@[simp] theorem w6_addGen_hs (x : GenRec) : (t.addGen x).hs = t.hs := rfl
@[simp] theorem w6_addGen_evs (x : GenRec) : (t.addGen x).evs = t.evs := rfl
@[simp] theorem w6_addGen_comps (x : GenRec) : (t.addGen x).comps = t.comps := rfl
@[simp] theorem w6_addGen_log (x : GenRec) : (t.addGen x).log = t.log := rfl
@[simp] theorem w6_addGen_progs (x : GenRec) : (t.addGen x).progs = t.progs := rfl
@[simp] theorem w6_addGen_gens_length (x : GenRec) : (t.addGen x).gens.length = t.gens.length + 1 := by simp [addGen]
@[simp] theorem w6_addGen_wait (x : GenRec) (w : Nat) : (t.addGen x).wait w = t.wait w := rfl
@[simp] theorem w6_addGen_handler (x : GenRec) (h : Nat) : (t.addGen x).handler h = t.handler h := rfl
@[simp] theorem w6_addGen_ev (x : GenRec) (e : Nat) : (t.addGen x).ev e = t.ev e := rfl
@[simp] theorem w6_addGen_comp (x : GenRec) (c : Nat) : (t.addGen x).comp c = t.comp c := rfl
theorem w6_addGen_gen (x : GenRec) (g : Nat) : (t.addGen x).gen g = if g = t.gens.length then x else t.gen g :=
  w6_getD_append_single _ _ _ _

@[simp] theorem w6_addWait_gens (x : WaitSt) : (t.addWait x).gens = t.gens := rfl
@[simp] theorem w6_addWait_hs (x : WaitSt) : (t.addWait x).hs = t.hs := rfl
@[simp] theorem w6_addWait_evs (x : WaitSt) : (t.addWait x).evs = t.evs := rfl
@[simp] theorem w6_addWait_comps (x : WaitSt) : (t.addWait x).comps = t.comps := rfl
@[simp] theorem w6_addWait_log (x : WaitSt) : (t.addWait x).log = t.log := rfl
@[simp] theorem w6_addWait_progs (x : WaitSt) : (t.addWait x).progs = t.progs := rfl
@[simp] theorem w6_addWait_waits_length (x : WaitSt) : (t.addWait x).waits.length = t.waits.length + 1 := by simp [addWait]
@[simp] theorem w6_addWait_gen (x : WaitSt) (g : Nat) : (t.addWait x).gen g = t.gen g := rfl
@[simp] theorem w6_addWait_handler (x : WaitSt) (h : Nat) : (t.addWait x).handler h = t.handler h := rfl
@[simp] theorem w6_addWait_ev (x : WaitSt) (e : Nat) : (t.addWait x).ev e = t.ev e := rfl
@[simp] theorem w6_addWait_comp (x : WaitSt) (c : Nat) : (t.addWait x).comp c = t.comp c := rfl
theorem w6_addWait_wait (x : WaitSt) (w : Nat) : (t.addWait x).wait w = if w = t.waits.length then x else t.wait w :=
  w6_getD_append_single _ _ _ _

/-! #### defaults beyond the end of a table -/
theorem w6_gen_ge (g : Nat) (h : t.gens.length ≤ g) : t.gen g = dfltGen := by
  simp [gen, List.getD_eq_getElem?_getD, List.getElem?_eq_none h]
theorem w6_wait_ge (w : Nat) (h : t.waits.length ≤ w) : t.wait w = dfltWait := by
  simp [wait, List.getD_eq_getElem?_getD, List.getElem?_eq_none h]
theorem w6_ev_ge (e : Nat) (h : t.evs.length ≤ e) : t.ev e = dfltEv := by
  simp [ev, List.getD_eq_getElem?_getD, List.getElem?_eq_none h]
theorem w6_handler_ge (x : Nat) (h : t.hs.length ≤ x) : t.handler x = dfltHandler := by
  simp [handler, List.getD_eq_getElem?_getD, List.getElem?_eq_none h]
theorem w6_comp_ge (c : Nat) (h : t.comps.length ≤ c) : t.comp c = dfltComp := by
  simp [comp, List.getD_eq_getElem?_getD, List.getElem?_eq_none h]

end St
/-! ### helpers that only touch the component table -/

/-- `s'` differs from `s` at most in the component table -/
structure St.W6CompsOnly (s s' : St) : Prop where
  evs : s'.evs = s.evs
  waits : s'.waits = s.waits
  gens : s'.gens = s.gens
  hs : s'.hs = s.hs
  log : s'.log = s.log
  progs : s'.progs = s.progs
  tmpls : s'.tmpls = s.tmpls
  compsLen : s'.comps.length = s.comps.length

namespace St.W6CompsOnly
theorem refl (s : St) : St.W6CompsOnly s s := ⟨rfl, rfl, rfl, rfl, rfl, rfl, rfl, rfl⟩
theorem modComp {s t : St} (h : St.W6CompsOnly s t) (c : Nat) (f : Comp → Comp) : St.W6CompsOnly s (t.modComp c f) :=
  ⟨h.evs, h.waits, h.gens, h.hs, h.log, h.progs, h.tmpls, by rw [St.w6_modComp_comps_length, h.compsLen]⟩
theorem foldl {s t : St} {α} (g : St → α → St) (hg : ∀ a x, St.W6CompsOnly s a → St.W6CompsOnly s (g a x)) (l : List α)
    (h : St.W6CompsOnly s t) : St.W6CompsOnly s (l.foldl g t) := by
  induction l generalizing t with
  | nil => exact h
  | cons x l ih => exact ih (hg _ _ h)
theorem ev {s t : St} (h : St.W6CompsOnly s t) (e : Nat) : t.ev e = s.ev e := by simp [St.ev, h.evs]
theorem wait {s t : St} (h : St.W6CompsOnly s t) (w : Nat) : t.wait w = s.wait w := by simp [St.wait, h.waits]
theorem gen {s t : St} (h : St.W6CompsOnly s t) (g : Nat) : t.gen g = s.gen g := by simp [St.gen, h.gens]
theorem handler {s t : St} (h : St.W6CompsOnly s t) (x : Nat) : t.handler x = s.handler x := by simp [St.handler, h.hs]
end St.W6CompsOnly

theorem St.w6_addHandler_compsOnly (t : St) (x : Nat) : St.W6CompsOnly t (t.addHandler x) := by
  unfold St.addHandler
  dsimp only
  apply St.W6CompsOnly.modComp
  split
  · exact (St.W6CompsOnly.refl _).modComp _ _
  · split
    · exact (St.W6CompsOnly.refl _).modComp _ _
    · exact St.W6CompsOnly.foldl _ (fun a n ha => ha.modComp _ _) _ (St.W6CompsOnly.refl _)

theorem St.w6_removeHandler_compsOnly (t : St) (x : Nat) (n : Option Name) : St.W6CompsOnly t (t.removeHandler x n).2 := by
  unfold St.removeHandler
  dsimp only
  apply St.W6CompsOnly.modComp
  apply St.W6CompsOnly.modComp
  split
  · exact (St.W6CompsOnly.refl _).modComp _ _
  · exact St.W6CompsOnly.refl _

theorem St.w6_registerTask_compsOnly (t : St) (c : Nat) (x : Task) : St.W6CompsOnly t (t.registerTask c x) :=
  (St.W6CompsOnly.refl _).modComp _ _
theorem St.w6_unregisterTask_compsOnly (t : St) (c : Nat) (x : Task) : St.W6CompsOnly t (t.unregisterTask c x) :=
  (St.W6CompsOnly.refl _).modComp _ _

namespace St
variable (t : St)
@[simp] theorem w6_addHandler_ev (x e : Nat) : (t.addHandler x).ev e = t.ev e := (t.w6_addHandler_compsOnly x).ev e
@[simp] theorem w6_addHandler_wait (x w : Nat) : (t.addHandler x).wait w = t.wait w := (t.w6_addHandler_compsOnly x).wait w
@[simp] theorem w6_addHandler_gen (x g : Nat) : (t.addHandler x).gen g = t.gen g := (t.w6_addHandler_compsOnly x).gen g
@[simp] theorem w6_addHandler_handler (x h : Nat) : (t.addHandler x).handler h = t.handler h := (t.w6_addHandler_compsOnly x).handler h
@[simp] theorem w6_addHandler_evs (x : Nat) : (t.addHandler x).evs = t.evs := (t.w6_addHandler_compsOnly x).evs
@[simp] theorem w6_addHandler_waits (x : Nat) : (t.addHandler x).waits = t.waits := (t.w6_addHandler_compsOnly x).waits
@[simp] theorem w6_addHandler_gens (x : Nat) : (t.addHandler x).gens = t.gens := (t.w6_addHandler_compsOnly x).gens
@[simp] theorem w6_addHandler_hs (x : Nat) : (t.addHandler x).hs = t.hs := (t.w6_addHandler_compsOnly x).hs
@[simp] theorem w6_addHandler_log (x : Nat) : (t.addHandler x).log = t.log := (t.w6_addHandler_compsOnly x).log
@[simp] theorem w6_removeHandler_ev (x : Nat) (n : Option Name) (e : Nat) : (t.removeHandler x n).2.ev e = t.ev e := (t.w6_removeHandler_compsOnly x n).ev e
@[simp] theorem w6_removeHandler_wait (x : Nat) (n : Option Name) (w : Nat) : (t.removeHandler x n).2.wait w = t.wait w := (t.w6_removeHandler_compsOnly x n).wait w
@[simp] theorem w6_removeHandler_gen (x : Nat) (n : Option Name) (g : Nat) : (t.removeHandler x n).2.gen g = t.gen g := (t.w6_removeHandler_compsOnly x n).gen g
@[simp] theorem w6_removeHandler_handler (x : Nat) (n : Option Name) (h : Nat) : (t.removeHandler x n).2.handler h = t.handler h := (t.w6_removeHandler_compsOnly x n).handler h
@[simp] theorem w6_removeHandler_evs (x : Nat) (n : Option Name) : (t.removeHandler x n).2.evs = t.evs := (t.w6_removeHandler_compsOnly x n).evs
@[simp] theorem w6_removeHandler_waits (x : Nat) (n : Option Name) : (t.removeHandler x n).2.waits = t.waits := (t.w6_removeHandler_compsOnly x n).waits
@[simp] theorem w6_removeHandler_gens (x : Nat) (n : Option Name) : (t.removeHandler x n).2.gens = t.gens := (t.w6_removeHandler_compsOnly x n).gens
@[simp] theorem w6_removeHandler_hs (x : Nat) (n : Option Name) : (t.removeHandler x n).2.hs = t.hs := (t.w6_removeHandler_compsOnly x n).hs
@[simp] theorem w6_removeHandler_log (x : Nat) (n : Option Name) : (t.removeHandler x n).2.log = t.log := (t.w6_removeHandler_compsOnly x n).log
@[simp] theorem w6_registerTask_ev (c : Nat) (x : Task) (e : Nat) : (t.registerTask c x).ev e = t.ev e := rfl
@[simp] theorem w6_registerTask_wait (c : Nat) (x : Task) (w : Nat) : (t.registerTask c x).wait w = t.wait w := rfl
@[simp] theorem w6_registerTask_gen (c : Nat) (x : Task) (g : Nat) : (t.registerTask c x).gen g = t.gen g := rfl
@[simp] theorem w6_registerTask_handler (c : Nat) (x : Task) (h : Nat) : (t.registerTask c x).handler h = t.handler h := rfl
@[simp] theorem w6_registerTask_evs (c : Nat) (x : Task) : (t.registerTask c x).evs = t.evs := rfl
@[simp] theorem w6_registerTask_waits (c : Nat) (x : Task) : (t.registerTask c x).waits = t.waits := rfl
@[simp] theorem w6_registerTask_gens (c : Nat) (x : Task) : (t.registerTask c x).gens = t.gens := rfl
@[simp] theorem w6_registerTask_hs (c : Nat) (x : Task) : (t.registerTask c x).hs = t.hs := rfl
@[simp] theorem w6_registerTask_log (c : Nat) (x : Task) : (t.registerTask c x).log = t.log := rfl
@[simp] theorem w6_unregisterTask_ev (c : Nat) (x : Task) (e : Nat) : (t.unregisterTask c x).ev e = t.ev e := rfl
@[simp] theorem w6_unregisterTask_wait (c : Nat) (x : Task) (w : Nat) : (t.unregisterTask c x).wait w = t.wait w := rfl
@[simp] theorem w6_unregisterTask_gen (c : Nat) (x : Task) (g : Nat) : (t.unregisterTask c x).gen g = t.gen g := rfl
@[simp] theorem w6_unregisterTask_handler (c : Nat) (x : Task) (h : Nat) : (t.unregisterTask c x).handler h = t.handler h := rfl
@[simp] theorem w6_unregisterTask_evs (c : Nat) (x : Task) : (t.unregisterTask c x).evs = t.evs := rfl
@[simp] theorem w6_unregisterTask_waits (c : Nat) (x : Task) : (t.unregisterTask c x).waits = t.waits := rfl
@[simp] theorem w6_unregisterTask_gens (c : Nat) (x : Task) : (t.unregisterTask c x).gens = t.gens := rfl
@[simp] theorem w6_unregisterTask_hs (c : Nat) (x : Task) : (t.unregisterTask c x).hs = t.hs := rfl
@[simp] theorem w6_unregisterTask_log (c : Nat) (x : Task) : (t.unregisterTask c x).log = t.log := rfl
end St

end CV.Core

import CV.Proofs.InvRunSil
import CV.Proofs.InvRunStack
/-
Run/stop invariants of the small-step core machine (property C08), continued.
(Part 1, the silent-extension relation `St.Sil` and `step_sil`, is CV/Proofs/InvRunSil.lean.)

Part 2  counting fires of `started(x)` / `stopped(x)` in the log (`firesOf`), and the explicit
        effect of the loud pure functions `runBegin`, `stopBegin`, `stopSetCode`, `runEnd` and of
        the arms `.run`, `.stopMgr`, `.runFin`; `step_flags`: what ANY step does to the
        `running` flag and to the two counters.
Part 3  the shape of the stack during `run()`: `Phase`, `tailOf`, `Shape`, `shape_step`.
Part 4  the invariants over `Reach` and over `runN n c0` from the start of a run.
-/
namespace CV.Core

/-! ## Part 2: the loud functions -/

/-- is this log entry the fire of an event named `nm` whose first argument is component `x`? -/
def isFireOf (evs : List Ev) (nm : Name) (x : Nat) : Entry → Bool
  | .fire e n _ _ => n == nm && (evs.getD e dfltEv).arg == x
  | _ => false

/-- how many times `nm(x, …)` (e.g. `started(x)`) was fired so far -/
def firesOf (nm : Name) (x : Nat) (s : St) : Nat := (s.log.filter (isFireOf s.evs nm x)).length

theorem firesOf_congr {s t : St} (h1 : t.log = s.log) (h2 : t.evs = s.evs) (nm : Name) (x : Nat) :
    firesOf nm x t = firesOf nm x s := by
  unfold firesOf; rw [h1, h2]

theorem firesOf_logE (u : St) (en : Entry) (nm : Name) (x : Nat) :
    firesOf nm x (u.logE en) = firesOf nm x u + (if isFireOf u.evs nm x en = true then 1 else 0) := by
  unfold firesOf St.logE
  simp only [List.filter_cons]
  split <;> simp

/-- a silent extension fires neither `started` nor `stopped` -/
theorem St.Sil.firesOf {s t : St} (hws : WF s) (h : St.Sil s t) (nm : Name) (hnm : nm.quiet = false)
    (x : Nat) : firesOf nm x t = firesOf nm x s := by
  obtain ⟨es, h1, h2⟩ := h.log
  unfold CV.Core.firesOf
  rw [h1, List.filter_append]
  have he : es.filter (isFireOf t.evs nm x) = [] := by
    rw [List.filter_eq_nil_iff]
    intro en hen
    have hq := h2 en hen
    cases en with
    | fire e n ch p =>
      simp only [isFireOf, Entry.quiet] at hq ⊢
      intro hc
      simp only [Bool.and_eq_true, beq_iff_eq] at hc
      rw [hc.1, hnm] at hq
      cases hq
    | _ => simp [isFireOf]
  have hs : s.log.filter (isFireOf t.evs nm x) = s.log.filter (isFireOf s.evs nm x) := by
    apply List.filter_congr
    intro en hen
    cases en with
    | fire e n ch p =>
      have hlt := (hws.log e n ch p hen).1
      have := (h.evk e hlt).2
      unfold St.ev at this
      simp only [isFireOf, this]
    | _ => rfl
  rw [he, hs]; rfl

theorem St.comp_modComp (t : St) (c : Nat) (f : Comp → Comp) (x : Nat) :
    (t.modComp c f).comp x = if c = x ∧ x < t.comps.length then f (t.comp x) else t.comp x := by
  unfold St.comp St.modComp
  dsimp only
  rw [getD_modify]

theorem St.modComp_length (t : St) (c : Nat) (f : Comp → Comp) : (t.modComp c f).comps.length = t.comps.length := by
  simp [St.modComp]

theorem St.comp_ge {s : St} {x : Nat} (h : ¬ x < s.comps.length) : s.comp x = dfltComp := by
  unfold St.comp
  rw [List.getD_eq_getElem?_getD]
  have : s.comps[x]? = none := by simp; omega
  rw [this]; rfl

/-- `fireRaw` up to its log entry -/
def St.fireRawPre (s : St) (self e : Nat) (chans : List Chan) (prio : Int) : St :=
  let s1 := s.modEv e fun x => { x with chans := chans, val := {}, mgr := self }
  let r := s1.rootOf self
  let s2 := s1.fireContext r e
  s2.modComp r fun x => { x with eq := x.eq.append e prio }

theorem St.fireRaw_eq (s : St) (self e : Nat) (chans : List Chan) (prio : Int) :
    s.fireRaw self e chans prio =
      (s.fireRawPre self e chans prio).logE (.fire e ((s.fireRawPre self e chans prio).ev e).name chans prio) := rfl

theorem St.Sil.fireRawPre {s t : St} (h : St.Sil s t) (self e : Nat) (chans : List Chan) (prio : Int) :
    St.Sil s (t.fireRawPre self e chans prio) := by
  sil_unfold St.fireRawPre

/-- firing a fresh event with an arbitrary name (possibly `started` / `stopped`) -/
theorem fireNew_loud {s : St} (hwf : WF s) (self : Nat) (ev : Ev) (chans : List Chan) (prio : Int) :
    WF ((s.addEv ev).fireRaw self s.evs.length chans prio) ∧
    (∀ x, (((s.addEv ev).fireRaw self s.evs.length chans prio).comp x).running = (s.comp x).running ∧
          (((s.addEv ev).fireRaw self s.evs.length chans prio).comp x).exitCode = (s.comp x).exitCode) ∧
    (∀ nm x, nm.quiet = false →
      firesOf nm x ((s.addEv ev).fireRaw self s.evs.length chans prio) =
        firesOf nm x s + (if ev.name = nm ∧ ev.arg = x then 1 else 0)) := by
  rw [St.fireRaw_eq]
  have h1 : St.Sil s (s.addEv ev) := (St.Sil.refl hwf).addEv ev
  have hu : St.Sil s ((s.addEv ev).fireRawPre self s.evs.length chans prio) := h1.fireRawPre ..
  have hu1 : St.Sil (s.addEv ev) ((s.addEv ev).fireRawPre self s.evs.length chans prio) :=
    (St.Sil.refl h1.wf).fireRawPre ..
  have hlt : s.evs.length < (s.addEv ev).evs.length := by simp [St.addEv]
  have hnew := hu1.evk s.evs.length hlt
  rw [St.ev_addEv_new] at hnew
  generalize (s.addEv ev).fireRawPre self s.evs.length chans prio = u at *
  refine ⟨?_, ?_, ?_⟩
  · apply hu.wf.logE
    intro e n ch p heq
    cases heq
    exact ⟨Nat.lt_of_lt_of_le hlt hu1.evs, rfl⟩
  · intro x
    exact ⟨hu.run x, hu.code x⟩
  · intro nm x hnm
    rw [firesOf_logE, hu.firesOf hwf nm hnm x]
    congr 1
    have h2 : (u.evs.getD s.evs.length dfltEv) = u.ev s.evs.length := rfl
    simp only [isFireOf, h2, hnew.1, hnew.2, Bool.and_eq_true, beq_iff_eq]

theorem fireTmplEv_loud {s : St} (hwf : WF s) (self : Nat) (ev : Ev) (target : Option Chan) (prio : Int) :
    WF (s.fireTmplEv self ev target prio) ∧
    (∀ x, ((s.fireTmplEv self ev target prio).comp x).running = (s.comp x).running ∧
          ((s.fireTmplEv self ev target prio).comp x).exitCode = (s.comp x).exitCode) ∧
    (∀ nm x, nm.quiet = false →
      firesOf nm x (s.fireTmplEv self ev target prio) =
        firesOf nm x s + (if ev.name = nm ∧ ev.arg = x then 1 else 0)) := by
  unfold St.fireTmplEv
  exact fireNew_loud hwf ..

theorem WF.modComp {s : St} (h : WF s) (c : Nat) (f : Comp → Comp) : WF (s.modComp c f) :=
  h.of_eq rfl rfl rfl rfl

theorem runBegin_spec {s : St} (hwf : WF s) (c : Nat) :
    WF (s.runBegin c) ∧
    (∀ x, ((s.runBegin c).comp x).running =
        if c = x ∧ x < s.comps.length then true else (s.comp x).running) ∧
    (∀ x, ((s.runBegin c).comp x).exitCode = (s.comp x).exitCode) ∧
    (∀ x, firesOf Name.started x (s.runBegin c) = firesOf Name.started x s + (if c = x then 1 else 0)) ∧
    (∀ x, firesOf Name.stopped x (s.runBegin c) = firesOf Name.stopped x s) := by
  unfold St.runBegin
  dsimp only
  generalize hr : (s.modComp c fun x => { x with running := true }).rootOf c = r
  have hw2 : WF ((s.modComp c fun x => { x with running := true }).modComp r
      fun x => { x with executing := true }) := (hwf.modComp _ _).modComp _ _
  obtain ⟨w, rc, fo⟩ := fireTmplEv_loud hw2 c { name := Name.started, arg := c } none 0
  have e2 := fun x => St.comp_modComp_run (s.modComp c fun x => { x with running := true }) r
    (fun x => { x with executing := true }) (fun _ => ⟨rfl, rfl⟩) x
  refine ⟨w, ?_, ?_, ?_, ?_⟩
  · intro x
    rw [(rc x).1, (e2 x).1, St.comp_modComp]
    split <;> rfl
  · intro x
    rw [(rc x).2, (e2 x).2, St.comp_modComp]
    split <;> rfl
  · intro x
    rw [fo Name.started x rfl]
    simp only [true_and]
    rfl
  · intro x
    rw [fo Name.stopped x rfl]
    simp only [show ¬ (Name.started = Name.stopped) by decide, false_and, if_false, Nat.add_zero]
    rfl

theorem stopBegin_spec {s : St} (hwf : WF s) (c : Nat) :
    WF (s.stopBegin c) ∧
    (∀ x, ((s.stopBegin c).comp x).running =
        if c = x ∧ x < s.comps.length then false else (s.comp x).running) ∧
    (∀ x, ((s.stopBegin c).comp x).exitCode = (s.comp x).exitCode) ∧
    (∀ x, firesOf Name.stopped x (s.stopBegin c) = firesOf Name.stopped x s + (if c = x then 1 else 0)) ∧
    (∀ x, firesOf Name.started x (s.stopBegin c) = firesOf Name.started x s) := by
  unfold St.stopBegin
  have hw2 : WF (s.modComp c fun x => { x with running := false }) := hwf.modComp _ _
  obtain ⟨w, rc, fo⟩ := fireTmplEv_loud hw2 c { name := Name.stopped, arg := c } none 0
  refine ⟨w, ?_, ?_, ?_, ?_⟩
  · intro x
    rw [(rc x).1, St.comp_modComp]
    split <;> rfl
  · intro x
    rw [(rc x).2, St.comp_modComp]
    split <;> rfl
  · intro x
    rw [fo Name.stopped x rfl]
    simp only [true_and]
    rfl
  · intro x
    rw [fo Name.started x rfl]
    simp only [show ¬ (Name.stopped = Name.started) by decide, false_and, if_false, Nat.add_zero]
    rfl

/-- `stopSetCode` only writes `_exit_code` of `r` -/
theorem stopSetCode_spec {s : St} (hwf : WF s) (r : Nat) (code : Code) :
    WF (s.stopSetCode r code) ∧
    (∀ x, ((s.stopSetCode r code).comp x).running = (s.comp x).running) ∧
    (∀ nm x, firesOf nm x (s.stopSetCode r code) = firesOf nm x s) ∧
    (∀ x, ((s.stopSetCode r code).comp x).exitCode =
        if code.isSome ∧ r = x ∧ x < s.comps.length then code else (s.comp x).exitCode) := by
  unfold St.stopSetCode
  split
  · rename_i hc
    refine ⟨hwf.modComp _ _, ?_, fun _ _ => rfl, ?_⟩
    · intro x; rw [St.comp_modComp]; split <;> rfl
    · intro x; rw [St.comp_modComp]; simp only [hc, true_and]; split <;> rfl
  · rename_i hc
    exact ⟨hwf, fun _ => rfl, fun _ _ => rfl, fun x => by simp [hc]⟩

/-- `runEnd` clears `_executing_thread` and `_exit_code` of the root and returns the old code -/
theorem runEnd_spec {s : St} (hwf : WF s) (c : Nat) :
    (s.runEnd c).1 = (s.comp (s.rootOf c)).exitCode ∧
    WF (s.runEnd c).2 ∧
    (∀ x, ((s.runEnd c).2.comp x).running = (s.comp x).running) ∧
    (∀ nm x, firesOf nm x (s.runEnd c).2 = firesOf nm x s) ∧
    ((s.runEnd c).2.comp (s.rootOf c)).executing = false ∧
    ((s.runEnd c).2.comp (s.rootOf c)).exitCode = none ∧
    (∀ x, ((s.runEnd c).2.comp x).eq = (s.comp x).eq) ∧
    (∀ x, x ≠ s.rootOf c → ((s.runEnd c).2.comp x).exitCode = (s.comp x).exitCode) := by
  unfold St.runEnd
  dsimp only
  generalize s.rootOf c = r
  refine ⟨?_, (hwf.modComp _ _).modComp _ _, ?_, fun _ _ => rfl, ?_, ?_, ?_, ?_⟩
  · rw [St.comp_modComp]; split <;> rfl
  · intro x; rw [St.comp_modComp, St.comp_modComp]; split <;> split <;> rfl
  · by_cases h : r < s.comps.length
    · simp only [St.comp_modComp, St.modComp_length, h, and_self, if_true]
    · simp only [St.comp_modComp, St.modComp_length, h, and_false, if_false]
      rw [St.comp_ge h]; rfl
  · by_cases h : r < s.comps.length
    · simp only [St.comp_modComp, St.modComp_length, h, and_self, if_true]
    · simp only [St.comp_modComp, St.modComp_length, h, and_false, if_false]
      rw [St.comp_ge h]; rfl
  · intro x; rw [St.comp_modComp, St.comp_modComp]; split <;> split <;> rfl
  · intro x hx; rw [St.comp_modComp, St.comp_modComp]
    have : ¬ (r = x) := fun h => hx h.symm
    simp [this]

/-! ### the three loud arms -/

/-- what a step does to `running x` and to the counters of `started(x)` / `stopped(x)`:
    nothing, or (a `stop()` of the running `x`) the flag falls and exactly one `stopped(x)` is fired -/
structure Flags (x : Nat) (s t : St) : Prop where
  wf : WF t
  started : firesOf Name.started x t = firesOf Name.started x s
  stop : ((t.comp x).running = (s.comp x).running ∧ firesOf Name.stopped x t = firesOf Name.stopped x s) ∨
         ((s.comp x).running = true ∧ (t.comp x).running = false ∧
          firesOf Name.stopped x t = firesOf Name.stopped x s + 1)

theorem Flags.of_sil {x : Nat} {s t : St} (hwf : WF s) (h : St.Sil s t) : Flags x s t :=
  ⟨h.wf, h.firesOf hwf _ rfl x, Or.inl ⟨h.run x, h.firesOf hwf _ rfl x⟩⟩

theorem running_lt {s : St} {x : Nat} (h : (s.comp x).running = true) : x < s.comps.length := by
  apply Classical.byContradiction
  intro hn
  rw [St.comp_ge hn] at h
  cases h

theorem running_lt' {s : St} {x : Nat} (h : (s.comp x).executing = true) : x < s.comps.length := by
  apply Classical.byContradiction
  intro hn
  rw [St.comp_ge hn] at h
  cases h

theorem Cfg.stopMgr_flags {c : Cfg} (hwf : WF c.st) (k : List Frame) (y : Nat) (code : Code) (x : Nat) :
    Flags x c.st (c.stopMgr k y code).st := by
  unfold Cfg.stopMgr
  split
  · exact Flags.of_sil hwf (St.Sil.refl hwf)
  · rename_i hrun
    have hrun : (c.st.comp y).running = true := by simpa using hrun
    have hy := running_lt hrun
    obtain ⟨w, hr, _, hst, hsa⟩ := stopBegin_spec hwf y
    dsimp only
    have key : Flags x c.st (c.st.stopBegin y) := by
      refine ⟨w, hsa x, ?_⟩
      by_cases hxy : y = x
      · subst hxy
        right
        refine ⟨hrun, ?_, ?_⟩
        · rw [hr]; simp [hy]
        · rw [hst]; simp
      · left
        refine ⟨?_, ?_⟩
        · rw [hr]; simp [hxy]
        · rw [hst]; simp [hxy]
    split
    · exact key
    · obtain ⟨w2, hr2, hf2, _⟩ := stopSetCode_spec w ((c.st.stopBegin y).rootOf y) code
      refine ⟨w2, ?_, ?_⟩
      · show firesOf _ x (St.stopSetCode _ _ _) = _
        rw [hf2]; exact key.started
      · show (((St.stopSetCode _ _ _).comp x).running = _ ∧ firesOf _ x (St.stopSetCode _ _ _) = _) ∨
             (_ ∧ ((St.stopSetCode _ _ _).comp x).running = false ∧ firesOf _ x (St.stopSetCode _ _ _) = _)
        rw [hr2, hf2]; exact key.stop

theorem Cfg.runFin_flags {c : Cfg} (hwf : WF c.st) (k : List Frame) (y : Nat) (x : Nat) :
    Flags x c.st (c.runFin k y).st := by
  obtain ⟨_, w, hr, hf, _⟩ := runEnd_spec hwf y
  have key : Flags x c.st (c.st.runEnd y).2 := ⟨w, hf _ _, Or.inl ⟨hr x, hf _ _⟩⟩
  unfold Cfg.runFin
  split <;> exact key

/-- every step except the execution of a `.run` frame -/
theorem step_flags {c : Cfg} (hwf : WF c.st) (hnr : ∀ y k, c.stack = .run y :: k → c.exn ≠ none) (x : Nat) :
    Flags x c.st (step c).st := by
  cases hs : c.stack with
  | nil => rw [step_nil c hs]; exact Flags.of_sil hwf (St.Sil.refl hwf)
  | cons f k =>
    cases hx : c.exn with
    | some ex =>
      apply Flags.of_sil hwf
      apply step_sil hwf
      intro f' k' _ hx'
      rw [hx] at hx'; cases hx'
    | none =>
      rw [step_cons c f k hs hx]
      by_cases hl : f.loud = false
      · exact Flags.of_sil hwf (stepFrame_sil hwf k f hl)
      · cases f <;> first | (exact absurd rfl hl) | skip
        · exact Cfg.stopMgr_flags hwf ..
        · exact absurd hx (hnr _ _ hs)
        · exact Cfg.runFin_flags hwf ..

/-- the `.run x` arm: `running x` becomes true and exactly one `started(x)` is fired -/
theorem Cfg.run_flags {c : Cfg} (hwf : WF c.st) (k : List Frame) (y : Nat) :
    WF (c.run k y).st ∧
    (∀ x, ((c.run k y).st.comp x).running = if y = x ∧ x < c.st.comps.length then true else (c.st.comp x).running) ∧
    (∀ x, ((c.run k y).st.comp x).exitCode = (c.st.comp x).exitCode) ∧
    (∀ x, firesOf Name.started x (c.run k y).st = firesOf Name.started x c.st + (if y = x then 1 else 0)) ∧
    (∀ x, firesOf Name.stopped x (c.run k y).st = firesOf Name.stopped x c.st) :=
  runBegin_spec hwf y

/-- every step keeps the tables well-formed -/
theorem step_wf {c : Cfg} (hwf : WF c.st) : WF (step c).st := by
  by_cases h : ∃ y k, c.stack = .run y :: k ∧ c.exn = none
  · obtain ⟨y, k, hs, hx⟩ := h
    rw [step_cons c _ k hs hx]
    exact (Cfg.run_flags hwf k y).1
  · apply (step_flags hwf ?_ 0).wf
    intro y k hs hx
    exact h ⟨y, k, hs, hx⟩

/-- `_exit_code` is written only by `stop(code)` (code given, manager running, called while its
    root is executing `run()`) and cleared only by the end of `run()` -/
theorem step_exitCode {c : Cfg} (hwf : WF c.st) (r : Nat)
    (hne : ((step c).st.comp r).exitCode ≠ (c.st.comp r).exitCode) :
    c.exn = none ∧
    ((∃ y code k, c.stack = .stopMgr y code :: k ∧ (c.st.comp y).running = true ∧ code.isSome = true ∧
        r = (c.st.stopBegin y).rootOf y ∧ ((c.st.stopBegin y).comp r).executing = true ∧
        ((step c).st.comp r).exitCode = code) ∨
     (∃ y k, c.stack = .runFin y :: k ∧ r = c.st.rootOf y ∧ ((step c).st.comp r).exitCode = none)) := by
  cases hs : c.stack with
  | nil => rw [step_nil c hs] at hne; exact absurd rfl hne
  | cons f k =>
    cases hx : c.exn with
    | some ex =>
      have : St.Sil c.st (step c).st := by
        apply step_sil hwf
        intro f' k' _ hx'
        rw [hx] at hx'; cases hx'
      exact absurd (this.code r) hne
    | none =>
      refine ⟨rfl, ?_⟩
      rw [step_cons c f k hs hx] at hne ⊢
      by_cases hl : f.loud = false
      · exact absurd ((stepFrame_sil hwf k f hl).code r) hne
      · cases f <;> first | (exact absurd rfl hl) | skip
        · rename_i y code
          left
          dsimp only [stepFrame] at hne ⊢
          unfold Cfg.stopMgr at hne ⊢
          split at hne
          · exact absurd rfl hne
          · rename_i hrun
            have hrun : (c.st.comp y).running = true := by simpa using hrun
            obtain ⟨w, _, hc, _, _⟩ := stopBegin_spec hwf y
            dsimp only at hne ⊢
            split at hne
            · exact absurd (hc r) hne
            · rename_i hex
              have hex : ((c.st.stopBegin y).comp ((c.st.stopBegin y).rootOf y)).executing = true := by
                simpa using hex
              obtain ⟨_, _, _, hc2⟩ := stopSetCode_spec w ((c.st.stopBegin y).rootOf y) code
              simp only [Cfg.pop_st] at hne
              rw [hc2 r] at hne
              split at hne
              · rename_i h3
                obtain ⟨h4, h5, _⟩ := h3
                subst h5
                refine ⟨y, code, k, rfl, hrun, h4, rfl, hex, ?_⟩
                rw [if_neg (by simpa using hrun), if_neg (by simpa using hex)]
                simp only [Cfg.pop_st]
                rw [hc2]; simp [h4]
                intro hge
                exact absurd (running_lt' hex) (by omega)
              · exact absurd (hc r) hne
        · rename_i y
          dsimp only [stepFrame] at hne
          exact absurd ((Cfg.run_flags hwf k y).2.2.1 r) hne
        · rename_i y
          right
          dsimp only [stepFrame] at hne ⊢
          obtain ⟨_, _, _, _, _, hcn, _, hoth⟩ := runEnd_spec hwf y
          have hst : (c.runFin k y).st = (c.st.runEnd y).2 := by
            unfold Cfg.runFin; split <;> rfl
          rw [hst] at hne ⊢
          by_cases hr : r = c.st.rootOf y
          · subst hr; exact ⟨y, k, rfl, rfl, hcn⟩
          · exact absurd (hoth r hr) hne

/-! ## Part 3: the shape of the stack during `run()` -/

/-- where `run()` is: the frames of `run()` itself that are still on the stack -/
inductive Phase
  | start                  -- `.run x` not yet executed
  | loop                   -- `while self.running or len(self._queue)`
  | fade (n : Nat)         -- the `n` remaining fade-out ticks (3 + the `finally` tick)
  | drain                  -- `while len(self._queue): self.tick()` in the `finally`
  | catch_                 -- end of the `try`
  | fin                    -- the code after the `try`
  | drainE (ex : Exn)      -- `finally` after a `SystemExit`: tick + drain loop
  | rethrow (ex : Exn)     -- … then re-raise
  | over                   -- `run()` is not on the stack

def tailOf (x : Nat) : Phase → List Frame
  | .start => [.run x]
  | .loop => [.runLoop x, .ticks x 4, .drainQ x, .runCatch x, .runFin x]
  | .fade n => [.ticks x n, .drainQ x, .runCatch x, .runFin x]
  | .drain => [.drainQ x, .runCatch x, .runFin x]
  | .catch_ => [.runCatch x, .runFin x]
  | .fin => [.runFin x]
  | .drainE ex => [.drainQ x, .runRethrow ex, .runFin x]
  | .rethrow ex => [.runRethrow ex, .runFin x]
  | .over => []

/-- what is known in each phase (`P` = the frames above `run()`'s own) -/
def Good (x : Nat) (c : Cfg) (P : List Frame) : Phase → Prop
  | .start => P = [] ∧ c.exn = none
  | .loop => True
  | .fade _ => c.exn = none → (c.st.comp x).running = false
  | .drain => c.exn = none → (c.st.comp x).running = false
  | .catch_ => P = [] ∧ (c.exn = none → (c.st.comp x).running = false ∧ (c.st.comp x).eq.len = 0)
  | .fin => P = [] ∧ (c.exn = none → (c.st.comp x).running = false ∧ (c.st.comp x).eq.len = 0)
  | .drainE _ => True
  | .rethrow _ => P = [] ∧ (c.exn = none → (c.st.comp x).eq.len = 0)
  | .over => True

structure Shape (x : Nat) (c : Cfg) (ph : Phase) (P : List Frame) : Prop where
  stack : c.stack = P ++ tailOf x ph
  inner : ∀ f ∈ P, f.inner = true
  good : Good x c P ph

theorem Flags.running_false {x : Nat} {s t : St} (h : Flags x s t) (hr : (s.comp x).running = false) :
    (t.comp x).running = false := by
  rcases h.stop with ⟨h1, _⟩ | ⟨_, h1, _⟩
  · rw [h1, hr]
  · exact h1

/-- an inner frame on top: the phase does not change -/
theorem shape_step_inner {x : Nat} {c : Cfg} {ph : Phase} {f : Frame} {P' : List Frame}
    (hwf : WF c.st) (h : Shape x c ph (f :: P')) : ∃ P'', Shape x (step c) ph P'' := by
  have hs : c.stack = f :: (P' ++ tailOf x ph) := h.stack
  have hf : f.inner = true := h.inner f (by simp)
  have hP' : ∀ g ∈ P', g.inner = true := fun g hg => h.inner g (by simp [hg])
  have hnr : ∀ y k, c.stack = .run y :: k → c.exn ≠ none := by
    intro y k hy
    rw [hs] at hy
    injection hy with h1 _
    subst h1
    cases hf
  have hfl := step_flags hwf hnr x
  cases hx : c.exn with
  | none =>
    have hstep := step_cons c f _ hs hx
    obtain ⟨fs, hst, hin⟩ := stepFrame_ext c (P' ++ tailOf x ph) f hf
    refine ⟨fs ++ P', ⟨by rw [hstep, hst, List.append_assoc], ?_, ?_⟩⟩
    · intro g hg
      rcases List.mem_append.1 hg with h1 | h1
      · exact hin g h1
      · exact hP' g h1
    · have hg := h.good
      cases ph with
      | start => exact absurd hg.1 (by simp)
      | catch_ => exact absurd hg.1 (by simp)
      | fin => exact absurd hg.1 (by simp)
      | rethrow ex => exact absurd hg.1 (by simp)
      | loop => trivial
      | drainE ex => trivial
      | over => trivial
      | fade n => intro _; exact hfl.running_false (hg hx)
      | drain => intro _; exact hfl.running_false (hg hx)
  | some ex =>
    have hstep := step_cons_exn c f _ ex hs hx
    obtain ⟨hst, hex⟩ := unwind_inner c (P' ++ tailOf x ph) ex f hf hx
    refine ⟨P', ⟨by rw [hstep, hst], hP', ?_⟩⟩
    have hg := h.good
    have hne : (step c).exn = none → False := by
      intro h1; rw [hstep, hex] at h1; cases h1
    cases ph with
    | start => exact absurd hg.1 (by simp)
    | catch_ => exact absurd hg.1 (by simp)
    | fin => exact absurd hg.1 (by simp)
    | rethrow ex => exact absurd hg.1 (by simp)
    | loop => trivial
    | drainE ex => trivial
    | over => trivial
    | fade n => intro h1; exact absurd h1 hne
    | drain => intro h1; exact absurd h1 hne

/-- a frame of `run()` itself on top -/
theorem shape_step_tail {x : Nat} {c : Cfg} {ph : Phase} (h : Shape x c ph []) :
    ∃ ph' P', Shape x (step c) ph' P' ∧ ph' ≠ .start := by
  have hs : c.stack = tailOf x ph := by simpa using h.stack
  have hg := h.good
  cases ph with
  | start =>
    have hstep := step_cons c (.run x) [] hs hg.2
    refine ⟨.loop, [], ⟨by rw [hstep]; rfl, by simp, trivial⟩, by simp⟩
  | loop =>
    cases hx : c.exn with
    | none =>
      have hstep := step_cons c _ _ hs hx
      rw [hstep]
      dsimp only [stepFrame]
      unfold Cfg.runLoop
      dsimp only
      split
      · exact ⟨.loop, [.tick x], ⟨rfl, by simp [Frame.inner], trivial⟩, by simp⟩
      · rename_i hc
        refine ⟨.fade 4, [], ⟨rfl, by simp, ?_⟩, by simp⟩
        intro _
        simp only [Cfg.pop_st]
        simp only [Bool.or_eq_true, not_or, Bool.not_eq_true] at hc
        exact hc.1
    | some ex =>
      have hstep := step_cons_exn c _ _ ex hs hx
      rw [hstep]
      refine ⟨.fade 4, [], ⟨rfl, by simp, ?_⟩, by simp⟩
      intro h1
      have : (unwind c [.ticks x 4, .drainQ x, .runCatch x, .runFin x] ex (.runLoop x)).exn = some ex := hx
      rw [this] at h1; cases h1
  | fade n =>
    cases hx : c.exn with
    | none =>
      have hstep := step_cons c _ _ hs hx
      rw [hstep]
      dsimp only [stepFrame]
      unfold Cfg.ticks
      cases n with
      | zero =>
        refine ⟨.drain, [], ⟨rfl, by simp, ?_⟩, by simp⟩
        intro _
        exact hg hx
      | succ n =>
        refine ⟨.fade n, [.tick x], ⟨rfl, by simp [Frame.inner], ?_⟩, by simp⟩
        intro _
        exact hg hx
    | some ex =>
      have hstep := step_cons_exn c _ _ ex hs hx
      rw [hstep]
      refine ⟨.drain, [], ⟨rfl, by simp, ?_⟩, by simp⟩
      intro h1
      have : (unwind c [.drainQ x, .runCatch x, .runFin x] ex (.ticks x n)).exn = some ex := hx
      rw [this] at h1; cases h1
  | drain =>
    cases hx : c.exn with
    | none =>
      have hstep := step_cons c _ _ hs hx
      rw [hstep]
      dsimp only [stepFrame]
      unfold Cfg.drainQ
      split
      · refine ⟨.drain, [.tick x], ⟨rfl, by simp [Frame.inner], ?_⟩, by simp⟩
        intro _
        exact hg hx
      · rename_i hc
        refine ⟨.catch_, [], ⟨rfl, by simp, rfl, ?_⟩, by simp⟩
        intro _
        simp only [Cfg.pop_st]
        exact ⟨hg hx, by omega⟩
    | some ex =>
      have hstep := step_cons_exn c _ _ ex hs hx
      rw [hstep]
      refine ⟨.catch_, [], ⟨rfl, by simp, rfl, ?_⟩, by simp⟩
      intro h1
      have : (unwind c [.runCatch x, .runFin x] ex (.drainQ x)).exn = some ex := hx
      rw [this] at h1; cases h1
  | catch_ =>
    cases hx : c.exn with
    | none =>
      have hstep := step_cons c _ _ hs hx
      rw [hstep]
      refine ⟨.fin, [], ⟨rfl, by simp, rfl, ?_⟩, by simp⟩
      intro _
      exact hg.2 hx
    | some ex =>
      have hstep := step_cons_exn c _ _ ex hs hx
      rw [hstep]
      dsimp only [unwind]
      unfold Cfg.runCatchExn
      split
      · exact ⟨.drainE _, [.tick x], ⟨rfl, by simp [Frame.inner], trivial⟩, by simp⟩
      · refine ⟨.fin, [], ⟨rfl, by simp, rfl, ?_⟩, by simp⟩
        intro h1
        simp only [Cfg.pop_exn] at h1
        rw [hx] at h1; cases h1
  | fin =>
    cases hx : c.exn with
    | none =>
      have hstep := step_cons c _ _ hs hx
      rw [hstep]
      dsimp only [stepFrame]
      unfold Cfg.runFin
      split
      · exact ⟨.over, [], ⟨rfl, by simp, trivial⟩, by simp⟩
      · exact ⟨.over, [], ⟨rfl, by simp, trivial⟩, by simp⟩
    | some ex =>
      have hstep := step_cons_exn c _ _ ex hs hx
      rw [hstep]
      exact ⟨.over, [], ⟨rfl, by simp, trivial⟩, by simp⟩
  | drainE ex0 =>
    cases hx : c.exn with
    | none =>
      have hstep := step_cons c _ _ hs hx
      rw [hstep]
      dsimp only [stepFrame]
      unfold Cfg.drainQ
      split
      · exact ⟨.drainE ex0, [.tick x], ⟨rfl, by simp [Frame.inner], trivial⟩, by simp⟩
      · rename_i hc
        refine ⟨.rethrow ex0, [], ⟨rfl, by simp, rfl, ?_⟩, by simp⟩
        intro _
        simp only [Cfg.pop_st]
        omega
    | some ex =>
      have hstep := step_cons_exn c _ _ ex hs hx
      rw [hstep]
      refine ⟨.rethrow ex0, [], ⟨rfl, by simp, rfl, ?_⟩, by simp⟩
      intro h1
      have : (unwind c [.runRethrow ex0, .runFin x] ex (.drainQ x)).exn = some ex := hx
      rw [this] at h1; cases h1
  | rethrow ex0 =>
    cases hx : c.exn with
    | none =>
      have hstep := step_cons c _ _ hs hx
      rw [hstep]
      refine ⟨.fin, [], ⟨rfl, by simp, rfl, ?_⟩, by simp⟩
      intro h1
      cases h1
    | some ex =>
      have hstep := step_cons_exn c _ _ ex hs hx
      rw [hstep]
      refine ⟨.fin, [], ⟨rfl, by simp, rfl, ?_⟩, by simp⟩
      intro h1
      cases h1
  | over =>
    rw [step_nil c hs]
    exact ⟨.over, [], h, by simp⟩

theorem shape_step {x : Nat} {c : Cfg} {ph : Phase} {P : List Frame} (hwf : WF c.st) (h : Shape x c ph P) :
    ∃ ph' P', Shape x (step c) ph' P' ∧ ph' ≠ .start := by
  cases P with
  | nil => exact shape_step_tail h
  | cons f P' =>
    obtain ⟨P'', h2⟩ := shape_step_inner hwf h
    refine ⟨ph, P'', h2, ?_⟩
    intro he
    subst he
    exact absurd h.good.1 (by simp)

/-! ## Part 4: invariants of reachable configurations and of one `run()` -/

theorem WF.envChange {s : St} (h : WF s) (d : Nat) (tape : List Entry) : WF (envChange s d tape) :=
  h.of_eq rfl rfl rfl rfl

theorem startOf_st (s : St) (op : ExtOp) : (startOf s op).st = s := by
  cases op <;> rfl

theorem startOf_shape (s : St) (op : ExtOp) : ∃ x ph P, Shape x (startOf s op) ph P := by
  cases op with
  | doAct c a => exact ⟨0, .over, [.acts ⟨c, none⟩ [a], .doFin c], ⟨rfl, by simp [Frame.inner], trivial⟩⟩
  | tick c => exact ⟨0, .over, [.tick c], ⟨rfl, by simp [Frame.inner], trivial⟩⟩
  | flush c => exact ⟨0, .over, [.flush c], ⟨rfl, by simp [Frame.inner], trivial⟩⟩
  | run c => exact ⟨c, .start, [], ⟨rfl, by simp, rfl, rfl⟩⟩

/-- every reachable configuration is well-formed and its stack has the shape of (at most) one `run()` -/
theorem reach_inv {s0 : St} (h0 : WF s0) : ∀ c, Reach s0 c → WF c.st ∧ ∃ x ph P, Shape x c ph P := by
  apply Reach.inv
  · intro d tape op
    rw [startOf_st]
    exact ⟨h0.envChange d tape, startOf_shape ..⟩
  · intro c ⟨hwf, x, ph, P, hsh⟩
    obtain ⟨ph', P', h2, _⟩ := shape_step hwf hsh
    exact ⟨step_wf hwf, x, ph', P', h2⟩
  · intro c d tape op ⟨hwf, _⟩ _
    rw [startOf_st]
    exact ⟨hwf.envChange d tape, startOf_shape ..⟩

theorem Shape.at_runFin {x x' : Nat} {c : Cfg} {ph : Phase} {P k : List Frame} (h : Shape x c ph P)
    (hs : c.stack = .runFin x' :: k) : x' = x ∧ k = [] ∧ ph = .fin ∧ P = [] := by
  have h1 := h.stack
  rw [hs] at h1
  cases P with
  | cons f P' =>
    injection h1 with h2 _
    have := h.inner f (by simp)
    rw [← h2] at this
    cases this
  | nil =>
    cases ph <;> simp [tailOf] at h1
    exact ⟨h1.1, h1.2, rfl, rfl⟩

theorem Shape.at_runRethrow {x : Nat} {c : Cfg} {ph : Phase} {P k : List Frame} {ex : Exn} (h : Shape x c ph P)
    (hs : c.stack = .runRethrow ex :: k) : k = [.runFin x] ∧ ph = .rethrow ex ∧ P = [] := by
  have h1 := h.stack
  rw [hs] at h1
  cases P with
  | cons f P' =>
    injection h1 with h2 _
    have := h.inner f (by simp)
    rw [← h2] at this
    cases this
  | nil =>
    cases ph <;> simp [tailOf] at h1
    obtain ⟨h2, h3⟩ := h1
    subst h2
    exact ⟨h3, rfl, rfl⟩

theorem Shape.not_run {x : Nat} {c : Cfg} {ph : Phase} {P : List Frame} (h : Shape x c ph P)
    (hne : ph ≠ .start) (y : Nat) (k : List Frame) : c.stack ≠ .run y :: k := by
  intro hs
  have h1 := h.stack
  rw [hs] at h1
  cases P with
  | cons f P' =>
    injection h1 with h2 _
    have := h.inner f (by simp)
    rw [← h2] at this
    cases this
  | nil =>
    cases ph <;> simp [tailOf] at h1
    exact hne rfl

theorem runN_step (n : Nat) (c : Cfg) : runN n (step c) = step (runN n c) := by
  induction n generalizing c with
  | zero => rfl
  | succ n ih => rw [runN_succ, ih, ← runN_succ]

theorem runN_succ' (n : Nat) (c : Cfg) : runN (n + 1) c = step (runN n c) := by
  rw [runN_succ, runN_step]

/-- what holds at every point of `x.run()` after its first step, relative to its start `c0` -/
structure RunRel (x : Nat) (c0 c : Cfg) : Prop where
  wf : WF c.st
  shape : ∃ ph P, Shape x c ph P ∧ ph ≠ .start
  started : ∀ y, firesOf Name.started y c.st = firesOf Name.started y c0.st + (if x = y then 1 else 0)
  stopped : firesOf Name.stopped x c.st + (if (c.st.comp x).running = true then 1 else 0) =
      firesOf Name.stopped x c0.st + 1

theorem RunRel.step {x : Nat} {c0 c : Cfg} (h : RunRel x c0 c) : RunRel x c0 (step c) := by
  obtain ⟨ph, P, hsh, hne⟩ := h.shape
  have hnr : ∀ y k, c.stack = .run y :: k → c.exn ≠ none := fun y k hs => absurd hs (hsh.not_run hne y k)
  refine ⟨step_wf h.wf, ?_, ?_, ?_⟩
  · obtain ⟨ph', P', h2, hne'⟩ := shape_step h.wf hsh
    exact ⟨ph', P', h2, hne'⟩
  · intro y
    rw [(step_flags h.wf hnr y).started]
    exact h.started y
  · have := h.stopped
    rcases (step_flags h.wf hnr x).stop with ⟨h1, h2⟩ | ⟨h1, h2, h3⟩
    · rw [h1, h2]; exact this
    · rw [h2, h3]
      rw [h1] at this
      simp at this ⊢
      omega

theorem run_rel {x : Nat} {c0 : Cfg} (hwf : WF c0.st) (hs : c0.stack = [.run x]) (hx : c0.exn = none)
    (hlt : x < c0.st.comps.length) : ∀ n, RunRel x c0 (runN (n + 1) c0) := by
  intro n
  induction n with
  | zero =>
    rw [runN_succ']
    show RunRel x c0 (CV.Core.step c0)
    have hsh : Shape x c0 .start [] := ⟨hs, by simp, rfl, hx⟩
    obtain ⟨ph', P', h2, hne'⟩ := shape_step hwf hsh
    have hstep := step_cons c0 (.run x) [] hs hx
    obtain ⟨w, hr, _, hst, hsp⟩ := Cfg.run_flags hwf [] x
    refine ⟨step_wf hwf, ⟨ph', P', h2, hne'⟩, ?_, ?_⟩
    · intro y; rw [hstep]; exact hst y
    · rw [hstep]
      have h3 : ((stepFrame c0 [] (.run x)).st.comp x).running = true := by
        show ((c0.run [] x).st.comp x).running = true
        rw [hr x]; simp [hlt]
      have h4 : firesOf Name.stopped x (stepFrame c0 [] (.run x)).st = firesOf Name.stopped x c0.st := hsp x
      simp only [h3, h4, if_true]
  | succ n ih =>
    rw [runN_succ']
    exact ih.step

end CV.Core

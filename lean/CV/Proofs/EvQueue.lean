import CV.Model.EvQueue
/-
Invariants of the event queue under arbitrary interleavings of `qIncr / qApp / qSnap / qPop`
(helper lemmas for C03.exactly_once_fifo).
-/
namespace CV
namespace Wake

def sameTidLt (a b : Ev) : Prop := a.tid = b.tid → a.ctr < b.ctr

structure QInv (q : QS) : Prop where
  proj : ∀ t, (q.log ++ (q.batch ++ q.dq)).filter (fun e => e.tid == t)
              = q.fired.filter (fun e => e.tid == t)
  pw : (q.batch ++ q.dq).Pairwise sameTidLt
  le : ∀ e ∈ q.batch ++ q.dq, e.ctr ≤ q.ctr
  lt : ∀ t ∈ q.pend, ∀ e ∈ q.batch ++ q.dq, e.tid = t → e.ctr < q.ctr

theorem qIncr_inv {q : QS} (h : QInv q) (t : Nat) : QInv (qIncr q t) := by
  refine ⟨h.proj, h.pw, ?_, ?_⟩
  · intro e he
    have := h.le e he
    simp only [qIncr]; omega
  · intro t' ht' e he hte
    simp only [qIncr] at ht' ⊢
    rcases List.mem_cons.mp ht' with rfl | hm
    · have := h.le e he; omega
    · have := h.lt t' hm e he hte; omega

theorem qApp_inv {q q' : QS} (h : QInv q) {t seq : Nat} {g : Bool}
    (hq : qApp q t seq g = some q') : QInv q' := by
  unfold qApp at hq
  split at hq
  · rename_i hmem
    injection hq with hq
    subst hq
    refine ⟨?_, ?_, ?_, ?_⟩
    · intro t'
      have := h.proj t'
      simp only [← List.append_assoc, List.filter_append] at this ⊢
      rw [this]
    · show ((q.batch ++ (q.dq ++ [_])).Pairwise sameTidLt)
      rw [← List.append_assoc, List.pairwise_append]
      refine ⟨h.pw, List.pairwise_singleton _ _, ?_⟩
      intro a ha b hb
      rw [List.mem_singleton] at hb
      subst hb
      intro hab
      exact h.lt t hmem a ha hab
    · intro e he
      simp only [← List.append_assoc] at he
      rcases List.mem_append.mp he with he | he
      · exact h.le e he
      · rw [List.mem_singleton] at he; subst he; exact Nat.le_refl _
    · intro t' ht' e he hte
      simp only [List.mem_filter, decide_eq_true_eq] at ht'
      simp only [← List.append_assoc] at he
      rcases List.mem_append.mp he with he | he
      · exact h.lt t' ht'.1 e he hte
      · rw [List.mem_singleton] at he; subst he
        exact absurd hte.symm ht'.2
  · cases hq

theorem qSnap_inv {q q' : QS} (h : QInv q) {n : Nat} (hq : qSnap q n = some q') : QInv q' := by
  unfold qSnap at hq
  split at hq
  · rename_i hc
    injection hq with hq
    subst hq
    have hb := hc.1
    refine ⟨?_, ?_, ?_, ?_⟩
    · intro t; have := h.proj t; simpa [hb] using this
    · have := h.pw; simpa [hb] using this
    · have := h.le; simpa [hb] using this
    · have := h.lt; simpa [hb] using this
  · cases hq

theorem splitAtEv_spec {tid seq : Nat} : ∀ {l p x r}, splitAtEv tid seq l = some (p, x, r) →
    l = p ++ x :: r ∧ x.tid = tid ∧ x.seq = seq
  | [], _, _, _, h => by simp [splitAtEv] at h
  | e :: es, p, x, r, h => by
    unfold splitAtEv at h
    split at h
    · rename_i hc
      injection h with h
      simp only [Prod.mk.injEq] at h
      obtain ⟨rfl, rfl, rfl⟩ := h
      exact ⟨rfl, hc.1, hc.2⟩
    · split at h
      · rename_i p' x' r' heq
        injection h with h
        simp only [Prod.mk.injEq] at h
        obtain ⟨rfl, rfl, rfl⟩ := h
        have := splitAtEv_spec heq
        exact ⟨by rw [this.1]; rfl, this.2⟩
      · cases h

theorem qPop_inv {q q' : QS} (h : QInv q) {tid seq : Nat} {x : Ev}
    (hq : qPop q tid seq = some (q', x)) : QInv q' := by
  unfold qPop at hq
  split at hq
  · rename_i p x' r hs
    split at hq
    · rename_i hmin
      injection hq with hq
      simp only [Prod.mk.injEq] at hq
      obtain ⟨rfl, rfl⟩ := hq
      have hb := (splitAtEv_spec hs).1
      have hmin' : ∀ y ∈ q.batch, x'.ctr ≤ y.ctr := by
        intro y hy
        have := (List.all_eq_true.mp hmin) y hy
        simpa using this
      have hpw := h.pw
      rw [hb] at hpw
      refine ⟨?_, ?_, ?_, ?_⟩
      · intro t
        have hp := h.proj t
        rw [hb] at hp
        show ((q.log ++ [x']) ++ ((p ++ r) ++ q.dq)).filter _ = _
        rw [← hp]
        by_cases hx : x'.tid = t
        · -- no entry of thread t precedes x' in the batch
          have hnone : p.filter (fun e => e.tid == t) = [] := by
            rw [List.filter_eq_nil_iff]
            intro y hy hyt
            have hyt' : y.tid = t := by simpa using hyt
            have hyb : y ∈ q.batch := by rw [hb]; exact List.mem_append_left _ hy
            have h1 := hmin' y hyb
            have h2 : sameTidLt y x' := by
              have := (List.pairwise_append.mp hpw).1
              have := (List.pairwise_append.mp this).2.2 y hy x' (List.mem_cons_self)
              exact this
            have := h2 (by rw [hyt', hx])
            omega
          simp only [List.filter_append, List.append_assoc, hnone, List.nil_append]
          simp [hx]
        · have hx' : (x'.tid == t) = false := by simpa using hx
          simp only [List.filter_append, List.append_assoc, List.filter_cons, hx', List.filter_nil]
          simp
      · show ((p ++ r) ++ q.dq).Pairwise sameTidLt
        refine List.Pairwise.sublist ?_ hpw
        refine List.Sublist.append_right ?_ _
        exact List.Sublist.append_left (List.sublist_cons_self _ _) _
      · intro e he
        apply h.le e
        rw [hb]
        show e ∈ (p ++ x' :: r) ++ q.dq
        have he' : e ∈ (p ++ r) ++ q.dq := he
        simp only [List.mem_append, List.mem_cons] at he' ⊢
        rcases he' with (h1 | h1) | h1
        · exact Or.inl (Or.inl h1)
        · exact Or.inl (Or.inr (Or.inr h1))
        · exact Or.inr h1
      · intro t ht e he hte
        apply h.lt t ht e _ hte
        rw [hb]
        have he' : e ∈ (p ++ r) ++ q.dq := he
        simp only [List.mem_append, List.mem_cons] at he' ⊢
        rcases he' with (h1 | h1) | h1
        · exact Or.inl (Or.inl h1)
        · exact Or.inl (Or.inr (Or.inr h1))
        · exact Or.inr h1
    · cases hq
  · cases hq

theorem qInit_inv (e : Ev) (c : Nat) (hc : e.ctr ≤ c) :
    QInv { ctr := c, dq := [e], fired := [e] } := by
  refine ⟨?_, ?_, ?_, ?_⟩
  · intro t; simp
  · simp
  · intro x hx; simp at hx; subst hx; exact hc
  · intro t ht; simp at ht

end Wake
end CV

import CV.Model.Wake
import CV.Proofs.EvQueue
import CV.Model.WakeSpec
/-
The inductive invariant of the wake-up hand-shake (helper lemmas for CV/Props/C03.lean).
-/
namespace CV
namespace Wake

/-- program points at which the loop thread holds `_lock` -/
def LPc.locked : LPc → Bool
  | .armSet | .armChk | .armChkH | .armRel | .wChk | .wClr | .wRel
  | .redLower | .redChk | .redSig | .redRel | .tChk | .tRel => true
  | _ => false

/-- `_currently_handling` is the current generate_events -/
def LPc.geSet : LPc → Bool
  | .top | .appGe | .snap | .pops | .dSet | .dDone | .armAcq | .armSet => false
  | _ => true

/-- the arming block has looked at the queue (`remaining > 0 or len(self._queue)`) -/
def LPc.checked : LPc → Bool
  | .top | .appGe | .snap | .pops | .dSet | .dDone | .armAcq | .armSet | .armChk => false
  | _ => true

/-- `event.handler = <waiter handler>` has been executed -/
def LPc.afterH : LPc → Bool
  | .top | .appGe | .snap | .pops | .dSet | .dDone | .armAcq | .armSet | .armChk | .armChkH
  | .armRel | .setH | .tAcq | .tChk | .tRel => false
  | _ => true

/-- The inductive invariant.  `k1` ("once the arming block has looked at the queue, a queued event means
    time left 0 or a firer about to write 0") and `k2` ("blocked with time left 0 means signal set or a firer
    about to set it") carry the wake-up; the Timer's program points `tAcq`/`tChk`/`tRel` are `checked` and
    not `afterH`, its write `tlwOther` needs the lock (`mutex`: no firer at `lower`) and a non-zero time
    left, so by `k1` it happens only with nothing queued. -/
structure WInv (s : St) : Prop where
  lock : s.lockL = s.lpc.locked
  mutex : s.lockL = true → s.cs = none
  hge : s.handling = .ge ↔ s.lpc.geSet = true
  saw : s.lpc.geSet = true → ∀ f, s.cs = some f → f.pc = .read ∨ f.saw = .cur
  k1 : s.lpc.checked = true → s.q.pending ≠ [] →
        s.tl = .zero ∨ ∃ f, s.cs = some f ∧ f.pc = .lower
  hs : s.lpc.afterH = true → s.hset = true
  k2 : s.blocked = true → s.tl = .zero →
        s.sig > 0 ∨ ∃ f, s.cs = some f ∧ (f.pc = .checkH ∨ f.pc = .sig)
  ftid : ∀ f, s.cs = some f → f.tid ≠ 0
  /-- the handler slot holds a non-waiter (a Timer's handler, no `resume`): only between the arming block
      and the waiter's `event.handler = ...`, whatever the time left is (negative, 0, or the positive value
      a Timer wrote) - a firer that lowers the time left to 0 then finds nobody to resume, and `k1` (the
      loop will read 0) is what keeps the wake-up -/
  ho : s.hoth = true → s.hset = false ∧ s.lpc.afterH = false ∧ s.lpc.checked = true

theorem pending_qIncr (q : QS) (t : Nat) : (qIncr q t).pending = q.pending := rfl

theorem pending_qApp {q q' : QS} {t seq : Nat} {g : Bool} (h : qApp q t seq g = some q') :
    q'.pending ≠ [] := by
  unfold qApp at h
  split at h
  · injection h with h; subst h; simp [QS.pending]
  · cases h

theorem pending_qSnap {q q' : QS} {n : Nat} (h : qSnap q n = some q') :
    q'.pending = q.pending := by
  unfold qSnap at h
  split at h
  · rename_i hc; injection h with h; subst h; simp [QS.pending, hc.1]
  · cases h

theorem init_inv (m : Mode) : WInv (init m) := by
  refine ⟨rfl, ?_, ?_, ?_, ?_, ?_, ?_, ?_, ?_⟩ <;> simp [init, LPc.geSet, LPc.checked, LPc.afterH, St.blocked]

macro "wsimp" : tactic => `(tactic|
  simp_all [LPc.locked, LPc.geSet, LPc.checked, LPc.afterH, St.blocked, St.pendingNonempty])

theorem loop_simple {s s' : St} {l : Lab} (h : WInv s) (hs : stepLoop s l = some s')
    (hl : l = .hwOther ∨ l = .hwNone ∨ l = .lAcq ∨ l = .hwGe ∨ l = .tlwZero ∨ l = .lRel ∨ l = .hsetW
      ∨ l = .clr ∨ l = .wake ∨ l = .timeout ∨ l = .wait0 ∨ l = .sigSetL ∨ l = .pipeRd ∨ l = .lIncr
      ∨ l = .hsetWnoResume ∨ l = .tlwOther) :
    WInv s' := by
  obtain ⟨h1, h2, h3, h4, h5, h6, h7, h8, h9⟩ := h
  rcases hl with rfl | rfl | rfl | rfl | rfl | rfl | rfl | rfl | rfl | rfl | rfl | rfl | rfl | rfl | rfl | rfl <;>
  simp only [stepLoop] at hs <;>
  (repeat' (split at hs)) <;>
  first
  | (cases hs; done)
  | (injection hs with hs; subst hs; refine ⟨?_, ?_, ?_, ?_, ?_, ?_, ?_, ?_, ?_⟩ <;> wsimp <;> grind)

theorem loop_param {s s' : St} {l : Lab} (h : WInv s) (hs : stepLoop s l = some s')
    (hl : (∃ v, l = .lHsetR v) ∨ (∃ v, l = .tlr v) ∨ (∃ c, l = .selRet c) ∨ (∃ c, l = .selTimeout c)) :
    WInv s' := by
  obtain ⟨h1, h2, h3, h4, h5, h6, h7, h8, h9⟩ := h
  rcases hl with ⟨v, rfl⟩ | ⟨v, rfl⟩ | ⟨v, rfl⟩ | ⟨v, rfl⟩ <;>
  simp only [stepLoop] at hs <;>
  (repeat' (split at hs)) <;>
  first
  | (cases hs; done)
  | (injection hs with hs; subst hs; refine ⟨?_, ?_, ?_, ?_, ?_, ?_, ?_, ?_, ?_⟩ <;> wsimp <;> grind)

theorem ageSaw_tid (f : Firer) : (ageSaw f).tid = f.tid := by
  unfold ageSaw; split <;> rfl

theorem loop_queue {s s' : St} {l : Lab} (h : WInv s) (hs : stepLoop s l = some s')
    (hl : (∃ a b, l = .lAppGe a b) ∨ (∃ n, l = .snap n) ∨ (∃ a b, l = .pop a b)) : WInv s' := by
  obtain ⟨h1, h2, h3, h4, h5, h6, h7, h8, h9⟩ := h
  rcases hl with ⟨a, b, rfl⟩ | ⟨n, rfl⟩ | ⟨a, b, rfl⟩ <;>
  simp only [stepLoop] at hs <;>
  (repeat' (split at hs)) <;>
  first
  | (cases hs; done)
  | (injection hs with hs; subst hs; refine ⟨?_, ?_, ?_, ?_, ?_, ?_, ?_, ?_, ?_⟩ <;> wsimp <;> grind [ageSaw_tid])

macro "fsimp" : tactic => `(tactic|
  simp_all [LPc.locked, LPc.geSet, LPc.checked, LPc.afterH, St.blocked, St.pendingNonempty,
    St.tgtTl, St.tgtHset, St.lowerTgt, pending_qIncr])

macro "firer_case" hs:ident : tactic => `(tactic|
  (simp only [stepFirer] at $hs:ident <;>
   (repeat' (split at $hs:ident)) <;>
   first
   | (cases $hs:ident; done)
   | (injection $hs:ident with $hs:ident; subst $hs:ident; refine ⟨?_, ?_, ?_, ?_, ?_, ?_, ?_, ?_, ?_⟩ <;> fsimp <;> grind [pending_qApp])))

theorem firer_fAcq {s s' : St} {t : Nat} (h : WInv s) (hs : stepFirer s (.fAcq t) = some s') : WInv s' := by
  obtain ⟨h1, h2, h3, h4, h5, h6, h7, h8, h9⟩ := h
  firer_case hs
theorem firer_fHr {s s' : St} {t : Nat} {v : HK} (h : WInv s) (hs : stepFirer s (.fHr t v) = some s') : WInv s' := by
  obtain ⟨h1, h2, h3, h4, h5, h6, h7, h8, h9⟩ := h
  firer_case hs
theorem firer_fIncr {s s' : St} {t : Nat} (h : WInv s) (hs : stepFirer s (.fIncr t) = some s') : WInv s' := by
  obtain ⟨h1, h2, h3, h4, h5, h6, h7, h8, h9⟩ := h
  firer_case hs
theorem firer_fApp {s s' : St} {t n : Nat} (h : WInv s) (hs : stepFirer s (.fApp t n) = some s') : WInv s' := by
  obtain ⟨h1, h2, h3, h4, h5, h6, h7, h8, h9⟩ := h
  firer_case hs
theorem firer_fTlwZero {s s' : St} {t : Nat} (h : WInv s) (hs : stepFirer s (.fTlwZero t) = some s') : WInv s' := by
  obtain ⟨h1, h2, h3, h4, h5, h6, h7, h8, h9⟩ := h
  firer_case hs
theorem firer_fHsetR {s s' : St} {t : Nat} {v : Bool} (h : WInv s) (hs : stepFirer s (.fHsetR t v) = some s') : WInv s' := by
  obtain ⟨h1, h2, h3, h4, h5, h6, h7, h8, h9⟩ := h
  firer_case hs
theorem firer_fSig {s s' : St} {t : Nat} (h : WInv s) (hs : stepFirer s (.fSig t) = some s') : WInv s' := by
  obtain ⟨h1, h2, h3, h4, h5, h6, h7, h8, h9⟩ := h
  firer_case hs
theorem firer_fRel {s s' : St} {t : Nat} (h : WInv s) (hs : stepFirer s (.fRel t) = some s') : WInv s' := by
  obtain ⟨h1, h2, h3, h4, h5, h6, h7, h8, h9⟩ := h
  firer_case hs

theorem step_winv {s s' : St} {l : Lab} (h : WInv s) (hs : step s l = some s') : WInv s' := by
  unfold step at hs
  cases l <;> simp only [Lab.isFirer, if_true, if_false, Bool.false_eq_true] at hs
  case lIncr => exact loop_simple h hs (by simp)
  case lAppGe a b => exact loop_queue h hs (Or.inl ⟨a, b, rfl⟩)
  case snap n => exact loop_queue h hs (Or.inr (Or.inl ⟨n, rfl⟩))
  case pop a b => exact loop_queue h hs (Or.inr (Or.inr ⟨a, b, rfl⟩))
  case hwOther => exact loop_simple h hs (by simp)
  case hwNone => exact loop_simple h hs (by simp)
  case hwGe => exact loop_simple h hs (by simp)
  case lAcq => exact loop_simple h hs (by simp)
  case lRel => exact loop_simple h hs (by simp)
  case tlwZero => exact loop_simple h hs (by simp)
  case lHsetR v => exact loop_param h hs (Or.inl ⟨v, rfl⟩)
  case hsetW => exact loop_simple h hs (by simp)
  case clr => exact loop_simple h hs (by simp)
  case tlr v => exact loop_param h hs (Or.inr (Or.inl ⟨v, rfl⟩))
  case wake => exact loop_simple h hs (by simp)
  case timeout => exact loop_simple h hs (by simp)
  case wait0 => exact loop_simple h hs (by simp)
  case sigSetL => exact loop_simple h hs (by simp)
  case selRet c => exact loop_param h hs (Or.inr (Or.inr (Or.inl ⟨c, rfl⟩)))
  case selTimeout c => exact loop_param h hs (Or.inr (Or.inr (Or.inr ⟨c, rfl⟩)))
  case pipeRd => exact loop_simple h hs (by simp)
  case hsetWnoResume => exact loop_simple h hs (by simp)
  case tlwOther => exact loop_simple h hs (by simp)
  case fAcq t => exact firer_fAcq h hs
  case fHr t v => exact firer_fHr h hs
  case fIncr t => exact firer_fIncr h hs
  case fApp t n => exact firer_fApp h hs
  case fTlwZero t => exact firer_fTlwZero h hs
  case fHsetR t v => exact firer_fHsetR h hs
  case fSig t => exact firer_fSig h hs
  case fRel t => exact firer_fRel h hs

theorem lowerTgt_q (s : St) (f : Firer) : (s.lowerTgt f).q = s.q := by
  unfold St.lowerTgt; split <;> rfl

theorem step_qinv {s s' : St} {l : Lab} (h : QInv s.q) (hs : step s l = some s') : QInv s'.q := by
  unfold step at hs
  cases l <;> simp only [Lab.isFirer, if_true, if_false, Bool.false_eq_true, stepLoop, stepFirer] at hs <;>
  (repeat' (split at hs)) <;>
  first
  | (cases hs; done)
  | (injection hs with hs; subst hs
     first
     | exact h
     | exact qIncr_inv h _
     | exact qApp_inv h ‹_›
     | exact qSnap_inv h ‹_›
     | exact qPop_inv h ‹_›
     | (simp only [lowerTgt_q]; exact h))

/-- states reachable from the state after `run()` fired `started`, under any interleaving -/
inductive Reach : St → Prop
  | init (m : Mode) : Reach (init m)
  | step {s s' : St} {l : Lab} : Reach s → step s l = some s' → Reach s'

theorem reach_winv {s : St} (h : Reach s) : WInv s := by
  induction h with
  | init m => exact init_inv m
  | step _ hs ih => exact step_winv ih hs

theorem reach_qinv {s : St} (h : Reach s) : QInv s.q := by
  induction h with
  | init m => exact qInit_inv _ _ (Nat.le_refl _)
  | step _ hs ih => exact step_qinv ih hs

theorem reach_of_run {s s' : St} {ls : List Lab} (h : Reach s) (hr : run s ls = some s') : Reach s' := by
  induction ls generalizing s with
  | nil => simp [run] at hr; subst hr; exact h
  | cons l ls ih =>
    simp only [run] at hr
    split at hr
    · rename_i s1 hs1; exact ih (Reach.step h hs1) hr
    · cases hr

/-- the loop is in one of its idle waits with a non-zero time-out -/
theorem blocked_pc {s : St} (hb : s.blocked = true) :
    s.lpc = .waitNeg ∨ s.lpc = .waitPos ∨ s.lpc = .pSel := by
  simp [St.blocked] at hb
  rcases hb with (h | h) | h
  · exact Or.inl h
  · exact Or.inr (Or.inl h.1)
  · exact Or.inr (Or.inr h.1)

def key (e : Ev) : Nat × Nat := (e.tid, e.seq)

theorem proj_map_key (t : Nat) (l : List Ev) :
    WakeSpec.proj t (l.map key) = (l.filter (fun e => e.tid == t)).map key := by
  induction l with
  | nil => rfl
  | cons e es ih =>
    simp only [List.map_cons, WakeSpec.proj, List.filter_cons] at ih ⊢
    by_cases he : (e.tid == t) = true
    · simp [key, he, ih]
    · simp [key, he, ih]

end Wake
end CV

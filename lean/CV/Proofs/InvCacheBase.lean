import CV.Proofs.CoreMatch
import CV.Proofs.CoreStep
import CV.Proofs.ForestDefs
/-
C01, cache layer - definitions and the state-level lemmas.

The dispatcher memoises the sorted handler list per `(name, channels)` in the cache of the
component that dispatches (`r` with `(s.comp r).root = r`).  `K E s` is the state invariant:

  * `hid/gid`  every handler id in a handler table / global list is a *plain* handler
               (not one of the two framework fallback records, in particular in range);
  * `cid`      every id in a cached list is in range;
  * `live`     for every component `c` that is its own root and is not exempted by `E`:
               `dirty`, or every cache entry - minus fallback records - is `freshHandlers`.

`TreeOk s` is the one fact about the forest the proof uses (from `ForestInv`): everything
reachable from a self-root through child links has that self-root in its `root` field - so the
`dirty` flag set on `rootOf x` lands on the component whose cache can contain `x`'s handlers.
-/
namespace CV.Core.Live

/-! ## definitions -/

def _root_.CV.Core.HKind.isFallback : HKind → Bool
  | .fallbackGE => true
  | .fallbackExc => true
  | _ => false

/-- `h` is a declared handler record that is not a framework fallback handler -/
def _root_.CV.Core.St.plain (s : St) (h : Nat) : Prop := (s.handler h).kind.isFallback = false

/-- a handler list without the framework fallback handlers -/
def nonFallback (s : St) (l : List Nat) : List Nat :=
  l.filter (fun h => !(s.handler h).kind.isFallback)

/-- what `_dispatcher` computes on a cache miss, before the fallback handler is appended:
    `sorted(chain(getHandlers(event, ch) for ch in channels), key=priority, reverse=True)` -/
def freshHandlers (s : St) (r : Nat) (name : Name) (chans : List Chan) : List Nat :=
  (chans.flatMap (fun ch => collect s (s.comps.length + 1) r name ch)).mergeSort
    (fun a b => (s.hs.getD a dfltHandler).prio ≥ (s.hs.getD b dfltHandler).prio)

/-- cache liveness with a set `E` of exempted components -/
def CacheLive (E : Nat → Prop) (s : St) : Prop :=
  ∀ c, (s.comp c).root = c → ¬ E c →
    (s.comp c).dirty = true ∨
    ∀ key l, (key, l) ∈ (s.comp c).cache → nonFallback s l = freshHandlers s c key.1 key.2

structure K (E : Nat → Prop) (s : St) : Prop where
  hid : ∀ c k h, (k, h) ∈ (s.comp c).htab → s.plain h
  gid : ∀ c h, h ∈ (s.comp c).globals → s.plain h
  cid : ∀ c key l h, (key, l) ∈ (s.comp c).cache → h ∈ l → h < s.hs.length
  live : CacheLive E s

/-- everything below a self-root points to it -/
def TreeOk (s : St) : Prop :=
  ∀ c x n, (s.comp c).root = c → ReachIn s n c x → (s.comp x).root = c

structure J (E : Nat → Prop) (s : St) : Prop where
  tree : TreeOk s
  k : K E s

def noE : Nat → Prop := fun _ => False

/-! ## table access -/

theorem St.plain_lt {s : St} {h : Nat} (hp : s.plain h) : h < s.hs.length := by
  apply Classical.byContradiction
  intro hge
  have hd : s.handler h = dfltHandler := by
    unfold St.handler
    simp [List.getD_eq_getElem?_getD, List.getElem?_eq_none (Nat.le_of_not_lt hge)]
  unfold St.plain at hp
  rw [hd] at hp
  simp [dfltHandler, HKind.isFallback] at hp

theorem St.comp_modComp_if (t : St) (c : Nat) (f : Comp → Comp) (x : Nat) :
    (t.modComp c f).comp x = if x = c ∧ c < t.comps.length then f (t.comp x) else t.comp x := by
  unfold St.comp St.modComp
  simp only [List.getD_eq_getElem?_getD, List.getElem?_modify]
  by_cases hx : x = c
  · subst hx
    by_cases hl : x < t.comps.length
    · simp [hl]
    · simp [hl]
  · have : ¬ c = x := fun h => hx h.symm
    simp [hx, this]

theorem St.comp_modComp_other (t : St) (c : Nat) (f : Comp → Comp) (x : Nat) (h : x ≠ c) :
    (t.modComp c f).comp x = t.comp x := by
  rw [St.comp_modComp_if]; simp [h]

/-- a projection that `f` keeps is unchanged by `modComp` -/
theorem St.comp_modComp_proj {β} (π : Comp → β) (t : St) (c : Nat) (f : Comp → Comp)
    (hπ : ∀ y, π (f y) = π y) (x : Nat) : π ((t.modComp c f).comp x) = π (t.comp x) := by
  rw [St.comp_modComp_if]; split
  · exact hπ _
  · rfl

/-! ## what `collect` and `freshHandlers` depend on -/

theorem _root_.CV.Core.ReachIn.mono_children {t t' : St} (h : ∀ y d, d ∈ (t.comp y).children → d ∈ (t'.comp y).children)
    {n c x : Nat} (hr : ReachIn t n c x) : ReachIn t' n c x := by
  induction hr with
  | here n c => exact ReachIn.here n c
  | step n c d e hd _ ih => exact ReachIn.step n c d e (h c d hd) ih

theorem flatMap_congr' {α β} (l : List α) (f g : α → List β) (h : ∀ a ∈ l, f a = g a) :
    l.flatMap f = l.flatMap g := by
  induction l with
  | nil => rfl
  | cons a l ih =>
    rw [List.flatMap_cons, List.flatMap_cons, h a (List.mem_cons_self ..),
      ih (fun b hb => h b (List.mem_cons_of_mem _ hb))]

/-- the part of component `x` that `collect` reads agrees in `t` and `t'` -/
structure Agree (t t' : St) (x : Nat) : Prop where
  htab : (t'.comp x).htab = (t.comp x).htab
  globals : (t'.comp x).globals = (t.comp x).globals
  children : (t'.comp x).children = (t.comp x).children
  chan : (t'.comp x).chan = (t.comp x).chan

theorem collect_congr (t t' : St) (name : Name) (tgt : Chan)
    (hrec : ∀ c k h, (k, h) ∈ (t.comp c).htab → t'.hs.getD h dfltHandler = t.hs.getD h dfltHandler) :
    ∀ n c, (∀ x, ReachIn t n c x → Agree t t' x) →
      collect t' (n + 1) c name tgt = collect t (n + 1) c name tgt := by
  intro n
  induction n with
  | zero =>
    intro c h
    have ha := h c (ReachIn.here _ c)
    have h1 : (t'.comps.getD c dfltComp).htab = (t.comps.getD c dfltComp).htab := ha.htab
    have h2 : (t'.comps.getD c dfltComp).globals = (t.comps.getD c dfltComp).globals := ha.globals
    have h3 : (t'.comps.getD c dfltComp).children = (t.comps.getD c dfltComp).children := ha.children
    have h4 : (t'.comps.getD c dfltComp).chan = (t.comps.getD c dfltComp).chan := ha.chan
    rw [collect_succ, collect_succ, h1, h2, h3, h4]
    congr 3
    apply List.filter_congr
    intro x hx
    rw [List.mem_eraseDups, mem_own] at hx
    have : t'.hs.getD x dfltHandler = t.hs.getD x dfltHandler := by
      rcases hx with hx | hx
      · exact hrec c _ _ hx
      · exact hrec c _ _ hx
    rw [this]
  | succ n ih =>
    intro c h
    have ha := h c (ReachIn.here _ c)
    have h1 : (t'.comps.getD c dfltComp).htab = (t.comps.getD c dfltComp).htab := ha.htab
    have h2 : (t'.comps.getD c dfltComp).globals = (t.comps.getD c dfltComp).globals := ha.globals
    have h3 : (t'.comps.getD c dfltComp).children = (t.comps.getD c dfltComp).children := ha.children
    have h4 : (t'.comps.getD c dfltComp).chan = (t.comps.getD c dfltComp).chan := ha.chan
    rw [collect_succ t', collect_succ t, h1, h2, h3, h4]
    have hsub : (t.comps.getD c dfltComp).children.flatMap (fun d => collect t' (n + 1) d name tgt)
        = (t.comps.getD c dfltComp).children.flatMap (fun d => collect t (n + 1) d name tgt) := by
      apply flatMap_congr'
      intro d hd
      exact ih d (fun x hx => h x (ReachIn.step n c d x hd hx))
    rw [hsub]
    congr 3
    apply List.filter_congr
    intro x hx
    rw [List.mem_eraseDups, mem_own] at hx
    have : t'.hs.getD x dfltHandler = t.hs.getD x dfltHandler := by
      rcases hx with hx | hx
      · exact hrec c _ _ hx
      · exact hrec c _ _ hx
    rw [this]

theorem mergeSort_congr {α} (l : List α) (r s : α → α → Bool) (h : ∀ a ∈ l, ∀ b ∈ l, r a b = s a b) :
    l.mergeSort r = l.mergeSort s := by
  have := List.map_mergeSort (f := id) (r := r) (s := s) (l := l) (by simpa using h)
  simpa using this

/-- what `collect` returns comes from a handler table or a global list -/
theorem collect_plain (t : St)
    (hid : ∀ c k h, (k, h) ∈ (t.comp c).htab → t.plain h)
    (gid : ∀ c h, h ∈ (t.comp c).globals → t.plain h)
    (fuel c : Nat) (name : Name) (tgt : Chan) (h : Nat)
    (hm : h ∈ collect t fuel c name tgt) : t.plain h := by
  cases fuel with
  | zero => rw [collect_zero] at hm; cases hm
  | succ n =>
    obtain ⟨d, _, hmat⟩ := (mem_collect t name tgt h n c).mp hm
    rcases hmat with ⟨hi, _⟩ | hg
    · rcases hi with hi | hi
      · exact hid d _ _ hi
      · exact hid d _ _ hi
    · exact gid d _ hg

theorem fresh_congr (t t' : St) (c : Nat) (name : Name) (chans : List Chan)
    (hid : ∀ c k h, (k, h) ∈ (t.comp c).htab → t.plain h)
    (gid : ∀ c h, h ∈ (t.comp c).globals → t.plain h)
    (hlen : t'.comps.length = t.comps.length)
    (hrec : ∀ h, h < t.hs.length → t'.hs.getD h dfltHandler = t.hs.getD h dfltHandler)
    (hag : ∀ x, ReachIn t t.comps.length c x → Agree t t' x) :
    freshHandlers t' c name chans = freshHandlers t c name chans := by
  unfold freshHandlers
  rw [hlen]
  have hcol : ∀ ch, collect t' (t.comps.length + 1) c name ch = collect t (t.comps.length + 1) c name ch :=
    fun ch => collect_congr t t' name ch (fun c k h hm => hrec h (St.plain_lt (hid c k h hm))) _ c hag
  have hl : (chans.flatMap fun ch => collect t' (t.comps.length + 1) c name ch)
      = (chans.flatMap fun ch => collect t (t.comps.length + 1) c name ch) := by
    apply flatMap_congr'
    intro ch _
    exact hcol ch
  rw [hl]
  apply mergeSort_congr
  intro a ha b hb
  rw [List.mem_flatMap] at ha hb
  obtain ⟨_, _, ha⟩ := ha
  obtain ⟨_, _, hb⟩ := hb
  rw [hrec a (St.plain_lt (collect_plain t hid gid _ _ _ _ _ ha)),
      hrec b (St.plain_lt (collect_plain t hid gid _ _ _ _ _ hb))]

theorem nonFallback_congr (t t' : St) (l : List Nat)
    (hrec : ∀ h, h < t.hs.length → t'.hs.getD h dfltHandler = t.hs.getD h dfltHandler)
    (hl : ∀ h, h ∈ l → h < t.hs.length) : nonFallback t' l = nonFallback t l := by
  unfold nonFallback
  apply List.filter_congr
  intro h hh
  have : t'.handler h = t.handler h := hrec h (hl h hh)
  rw [this]

/-! ## transport along changes that keep the relevant fields -/

/-- `t'` has the same forest, tables, caches and flags as `t`; handler records were only appended -/
structure Same (t t' : St) : Prop where
  len : t'.comps.length = t.comps.length
  hsLen : t.hs.length ≤ t'.hs.length
  recs : ∀ h, h < t.hs.length → t'.hs.getD h dfltHandler = t.hs.getD h dfltHandler
  root : ∀ x, (t'.comp x).root = (t.comp x).root
  children : ∀ x, (t'.comp x).children = (t.comp x).children
  chan : ∀ x, (t'.comp x).chan = (t.comp x).chan
  htab : ∀ x, (t'.comp x).htab = (t.comp x).htab
  globals : ∀ x, (t'.comp x).globals = (t.comp x).globals
  cache : ∀ x, (t'.comp x).cache = (t.comp x).cache
  dirty : ∀ x, (t'.comp x).dirty = (t.comp x).dirty

theorem Same.plain {t t' : St} (hs : Same t t') {h : Nat} (hp : t.plain h) : t'.plain h := by
  have e : t'.handler h = t.handler h := hs.recs h (St.plain_lt hp)
  unfold St.plain; rw [e]; exact hp

theorem Same.agree {t t' : St} (hs : Same t t') (x : Nat) : Agree t t' x :=
  ⟨hs.htab x, hs.globals x, hs.children x, hs.chan x⟩

theorem TreeOk.of_same {t t' : St} (hT : TreeOk t) (hs : Same t t') : TreeOk t' := by
  intro c x n hr hreach
  rw [hs.root] at hr
  rw [hs.root]
  exact hT c x n hr (hreach.mono_children (fun y d hd => by rw [hs.children] at hd; exact hd))

theorem K.fresh_same {E} {t t' : St} (hK : K E t) (hs : Same t t') (c : Nat) (name : Name) (chans : List Chan) :
    freshHandlers t' c name chans = freshHandlers t c name chans :=
  fresh_congr t t' c name chans hK.hid hK.gid hs.len hs.recs (fun x _ => hs.agree x)

theorem K.of_same {E} {t t' : St} (hK : K E t) (hs : Same t t') : K E t' := by
  refine ⟨?_, ?_, ?_, ?_⟩
  · intro c k h hm
    rw [hs.htab] at hm
    exact hs.plain (hK.hid c k h hm)
  · intro c h hm
    rw [hs.globals] at hm
    exact hs.plain (hK.gid c h hm)
  · intro c key l h hm hh
    rw [hs.cache] at hm
    exact Nat.lt_of_lt_of_le (hK.cid c key l h hm hh) hs.hsLen
  · intro c hr hE
    rw [hs.root] at hr
    rcases hK.live c hr hE with hd | hc
    · left; rw [hs.dirty]; exact hd
    · right
      intro key l hm
      rw [hs.cache] at hm
      rw [nonFallback_congr t t' l hs.recs (fun h hh => hK.cid c key l h hm hh), hK.fresh_same hs]
      exact hc key l hm

theorem J.of_same {E} {t t' : St} (hJ : J E t) (hs : Same t t') : J E t' :=
  ⟨hJ.tree.of_same hs, hJ.k.of_same hs⟩

theorem K.weaken {E E' : Nat → Prop} {t : St} (hK : K E t) (h : ∀ y, E y → E' y) : K E' t :=
  ⟨hK.hid, hK.gid, hK.cid, fun c hr hE => hK.live c hr (fun he => hE (h c he))⟩

theorem J.weaken {E E' : Nat → Prop} {t : St} (hJ : J E t) (h : ∀ y, E y → E' y) : J E' t :=
  ⟨hJ.tree, hJ.k.weaken h⟩

/-- `f` keeps every field the invariant reads -/
structure Neutral (f : Comp → Comp) : Prop where
  root : ∀ y, (f y).root = y.root
  children : ∀ y, (f y).children = y.children
  chan : ∀ y, (f y).chan = y.chan
  htab : ∀ y, (f y).htab = y.htab
  globals : ∀ y, (f y).globals = y.globals
  cache : ∀ y, (f y).cache = y.cache
  dirty : ∀ y, (f y).dirty = y.dirty

theorem St.modComp_len (t : St) (c : Nat) (f : Comp → Comp) : (t.modComp c f).comps.length = t.comps.length := by
  simp [St.modComp]

theorem Same.modComp (t : St) (c : Nat) (f : Comp → Comp) (hf : Neutral f) : Same t (t.modComp c f) :=
  ⟨St.modComp_len t c f, Nat.le_refl _, fun _ _ => rfl,
   St.comp_modComp_proj (fun y => y.root) t c f hf.root,
   St.comp_modComp_proj (fun y => y.children) t c f hf.children,
   St.comp_modComp_proj (fun y => y.chan) t c f hf.chan,
   St.comp_modComp_proj (fun y => y.htab) t c f hf.htab,
   St.comp_modComp_proj (fun y => y.globals) t c f hf.globals,
   St.comp_modComp_proj (fun y => y.cache) t c f hf.cache,
   St.comp_modComp_proj (fun y => y.dirty) t c f hf.dirty⟩

theorem Same.refl (t : St) : Same t t :=
  ⟨rfl, Nat.le_refl _, fun _ _ => rfl, fun _ => rfl, fun _ => rfl, fun _ => rfl, fun _ => rfl, fun _ => rfl,
   fun _ => rfl, fun _ => rfl⟩

theorem Same.trans {a b c : St} (h1 : Same a b) (h2 : Same b c) : Same a c :=
  ⟨h2.len.trans h1.len, Nat.le_trans h1.hsLen h2.hsLen,
   fun h hh => (h2.recs h (Nat.lt_of_lt_of_le hh h1.hsLen)).trans (h1.recs h hh),
   fun x => (h2.root x).trans (h1.root x), fun x => (h2.children x).trans (h1.children x),
   fun x => (h2.chan x).trans (h1.chan x), fun x => (h2.htab x).trans (h1.htab x),
   fun x => (h2.globals x).trans (h1.globals x), fun x => (h2.cache x).trans (h1.cache x),
   fun x => (h2.dirty x).trans (h1.dirty x)⟩

/-- a change of `St` that does not touch `comps` and `hs` -/
theorem Same.of_eq {t t' : St} (hc : t'.comps = t.comps) (hh : t'.hs = t.hs) : Same t t' := by
  have e : ∀ x, t'.comp x = t.comp x := fun x => by unfold St.comp; rw [hc]
  refine ⟨by rw [hc], by rw [hh]; exact Nat.le_refl _, fun h _ => by rw [hh], ?_, ?_, ?_, ?_, ?_, ?_, ?_⟩ <;>
    (intro x; rw [e])

theorem Same.addH (t : St) (x : Handler) : Same t (t.addH x) := by
  have e : ∀ y, (t.addH x).comp y = t.comp y := fun y => rfl
  refine ⟨rfl, by simp [St.addH], ?_, ?_, ?_, ?_, ?_, ?_, ?_, ?_⟩
  · intro h hh
    simp only [St.addH, List.getD_eq_getElem?_getD, List.getElem?_append_left hh]
  all_goals (intro y; rw [e])

/-! ## changes of the handler tables / children of one component -/

/-- `f` may change tables, children, channel; it keeps root, cache and flag -/
structure Touch (f : Comp → Comp) : Prop where
  root : ∀ y, (f y).root = y.root
  cache : ∀ y, (f y).cache = y.cache
  dirty : ∀ y, (f y).dirty = y.dirty

/-- no unexempted self-root has `p` in its tree -/
def Unreach (E : Nat → Prop) (t : St) (p : Nat) : Prop :=
  ∀ c, (t.comp c).root = c → ¬ E c → ¬ ReachIn t t.comps.length c p

theorem TreeOk.unreach {t : St} (hT : TreeOk t) (E : Nat → Prop) (p : Nat) (hE : E (t.comp p).root) :
    Unreach E t p := by
  intro c hr hne hreach
  have := hT c p _ hr hreach
  rw [this] at hE
  exact hne hE

theorem K.touch {E} {t : St} (hK : K E t) (p : Nat) (f : Comp → Comp) (hf : Touch f)
    (hh : ∀ k h, (k, h) ∈ (f (t.comp p)).htab → t.plain h)
    (hg : ∀ h, h ∈ (f (t.comp p)).globals → t.plain h)
    (hun : Unreach E t p) : K E (t.modComp p f) := by
  have eroot := St.comp_modComp_proj (fun y => y.root) t p f hf.root
  have ecache := St.comp_modComp_proj (fun y => y.cache) t p f hf.cache
  have edirty := St.comp_modComp_proj (fun y => y.dirty) t p f hf.dirty
  refine ⟨?_, ?_, ?_, ?_⟩
  · intro c k h hm
    rw [St.comp_modComp_if] at hm
    split at hm
    · rename_i hc; obtain ⟨rfl, _⟩ := hc; exact hh k h hm
    · exact hK.hid c k h hm
  · intro c h hm
    rw [St.comp_modComp_if] at hm
    split at hm
    · rename_i hc; obtain ⟨rfl, _⟩ := hc; exact hg h hm
    · exact hK.gid c h hm
  · intro c key l h hm hh'
    rw [ecache] at hm
    exact hK.cid c key l h hm hh'
  · intro c hr hE
    rw [eroot] at hr
    rcases hK.live c hr hE with hd | hc
    · left; rw [edirty]; exact hd
    · right
      intro key l hm
      rw [ecache] at hm
      have hfr : freshHandlers (t.modComp p f) c key.1 key.2 = freshHandlers t c key.1 key.2 := by
        apply fresh_congr t _ c key.1 key.2 hK.hid hK.gid (St.modComp_len t p f) (fun _ _ => rfl)
        intro x hx
        have hne : x ≠ p := fun e => hun c hr hE (e ▸ hx)
        have e := St.comp_modComp_other t p f x hne
        exact ⟨by rw [e], by rw [e], by rw [e], by rw [e]⟩
      rw [hfr]
      exact hc key l hm

/-- `f` sets the flag and keeps everything else the invariant reads -/
structure Flag (f : Comp → Comp) : Prop where
  root : ∀ y, (f y).root = y.root
  children : ∀ y, (f y).children = y.children
  chan : ∀ y, (f y).chan = y.chan
  htab : ∀ y, (f y).htab = y.htab
  globals : ∀ y, (f y).globals = y.globals
  cache : ∀ y, (f y).cache = y.cache
  dirty : ∀ y, (f y).dirty = true

theorem St.comp_oob (t : St) (c : Nat) (h : ¬ c < t.comps.length) : t.comp c = dfltComp := by
  unfold St.comp
  simp [List.getD_eq_getElem?_getD, List.getElem?_eq_none (Nat.le_of_not_lt h)]

theorem K.flag {E E' : Nat → Prop} {t : St} (hK : K E' t) (r : Nat) (f : Comp → Comp) (hf : Flag f)
    (hE : ∀ y, E' y → E y ∨ y = r) : K E (t.modComp r f) := by
  have eroot := St.comp_modComp_proj (fun y => y.root) t r f hf.root
  have ecache := St.comp_modComp_proj (fun y => y.cache) t r f hf.cache
  have ehtab := St.comp_modComp_proj (fun y => y.htab) t r f hf.htab
  have eglob := St.comp_modComp_proj (fun y => y.globals) t r f hf.globals
  have echild := St.comp_modComp_proj (fun y => y.children) t r f hf.children
  have echan := St.comp_modComp_proj (fun y => y.chan) t r f hf.chan
  refine ⟨?_, ?_, ?_, ?_⟩
  · intro c k h hm; rw [ehtab] at hm; exact hK.hid c k h hm
  · intro c h hm; rw [eglob] at hm; exact hK.gid c h hm
  · intro c key l h hm hh'; rw [ecache] at hm; exact hK.cid c key l h hm hh'
  · intro c hr hEc
    rw [eroot] at hr
    have hfr : ∀ key : Name × List Chan,
        freshHandlers (t.modComp r f) c key.1 key.2 = freshHandlers t c key.1 key.2 := fun key =>
      fresh_congr t _ c key.1 key.2 hK.hid hK.gid (St.modComp_len t r f) (fun _ _ => rfl)
        (fun x _ => ⟨ehtab x, eglob x, echild x, echan x⟩)
    by_cases hcr : c = r ∧ r < t.comps.length
    · left
      rw [St.comp_modComp_if, if_pos hcr]
      exact hf.dirty _
    · have hdirty : ((t.modComp r f).comp c).dirty = (t.comp c).dirty := by
        rw [St.comp_modComp_if, if_neg hcr]
      by_cases hE' : E' c
      · -- exempted before: then `c = r`, which is out of range: its cache is empty
        rcases hE c hE' with h | h
        · exact absurd h hEc
        · right
          intro key l hm
          rw [ecache] at hm
          have hoob : ¬ c < t.comps.length := fun hlt => hcr ⟨h, h ▸ hlt⟩
          rw [St.comp_oob t c hoob] at hm
          cases hm
      · rcases hK.live c hr hE' with hd | hc
        · left; rw [hdirty]; exact hd
        · right
          intro key l hm
          rw [ecache] at hm
          rw [hfr]
          exact hc key l hm

/-- `f` empties the cache (whatever it does to the flag) and keeps the rest -/
structure Clear (f : Comp → Comp) : Prop where
  root : ∀ y, (f y).root = y.root
  children : ∀ y, (f y).children = y.children
  chan : ∀ y, (f y).chan = y.chan
  htab : ∀ y, (f y).htab = y.htab
  globals : ∀ y, (f y).globals = y.globals
  cache : ∀ y, (f y).cache = []

theorem K.clear {E : Nat → Prop} {t : St} (hK : K E t) (r : Nat) (f : Comp → Comp) (hf : Clear f) :
    K E (t.modComp r f) := by
  have eroot := St.comp_modComp_proj (fun y => y.root) t r f hf.root
  have ehtab := St.comp_modComp_proj (fun y => y.htab) t r f hf.htab
  have eglob := St.comp_modComp_proj (fun y => y.globals) t r f hf.globals
  have echild := St.comp_modComp_proj (fun y => y.children) t r f hf.children
  have echan := St.comp_modComp_proj (fun y => y.chan) t r f hf.chan
  refine ⟨?_, ?_, ?_, ?_⟩
  · intro c k h hm; rw [ehtab] at hm; exact hK.hid c k h hm
  · intro c h hm; rw [eglob] at hm; exact hK.gid c h hm
  · intro c key l h hm hh'
    rw [St.comp_modComp_if] at hm
    split at hm
    · rw [hf.cache] at hm; cases hm
    · exact hK.cid c key l h hm hh'
  · intro c hr hEc
    rw [eroot] at hr
    rw [St.comp_modComp_if]
    split
    · right; intro key l hm; rw [hf.cache] at hm; cases hm
    · rcases hK.live c hr hEc with hd | hc
      · left; exact hd
      · right
        intro key l hm
        rw [fresh_congr t _ c key.1 key.2 hK.hid hK.gid (St.modComp_len t r f) (fun _ _ => rfl)
          (fun x _ => ⟨ehtab x, eglob x, echild x, echan x⟩)]
        exact hc key l hm

/-- `f` overwrites `root` (and may change `parent` etc.) and keeps tables, children, cache, flag -/
structure SetRoot (root : Nat) (f : Comp → Comp) : Prop where
  root : ∀ y, (f y).root = root
  children : ∀ y, (f y).children = y.children
  chan : ∀ y, (f y).chan = y.chan
  htab : ∀ y, (f y).htab = y.htab
  globals : ∀ y, (f y).globals = y.globals
  cache : ∀ y, (f y).cache = y.cache
  dirty : ∀ y, (f y).dirty = y.dirty

/-- overwriting the `root` field of `x`: harmless unless `x` thereby becomes a self-root -/
theorem K.setRoot {E : Nat → Prop} {t : St} (hK : K E t) (x root : Nat) (f : Comp → Comp) (hf : SetRoot root f)
    (hx : x ≠ root ∨ (t.comp root).root = root ∨ E root) : K E (t.modComp x f) := by
  have ecache := St.comp_modComp_proj (fun y => y.cache) t x f hf.cache
  have edirty := St.comp_modComp_proj (fun y => y.dirty) t x f hf.dirty
  have ehtab := St.comp_modComp_proj (fun y => y.htab) t x f hf.htab
  have eglob := St.comp_modComp_proj (fun y => y.globals) t x f hf.globals
  have echild := St.comp_modComp_proj (fun y => y.children) t x f hf.children
  have echan := St.comp_modComp_proj (fun y => y.chan) t x f hf.chan
  refine ⟨?_, ?_, ?_, ?_⟩
  · intro c k h hm; rw [ehtab] at hm; exact hK.hid c k h hm
  · intro c h hm; rw [eglob] at hm; exact hK.gid c h hm
  · intro c key l h hm hh'; rw [ecache] at hm; exact hK.cid c key l h hm hh'
  · intro c hr hEc
    have hr' : (t.comp c).root = c := by
      rw [St.comp_modComp_if] at hr
      split at hr
      · rename_i hc
        obtain ⟨rfl, _⟩ := hc
        rw [hf.root] at hr
        subst hr
        rcases hx with h | h | h
        · exact absurd rfl h
        · exact h
        · exact absurd h hEc
      · exact hr
    rcases hK.live c hr' hEc with hd | hc
    · left; rw [edirty]; exact hd
    · right
      intro key l hm
      rw [ecache] at hm
      rw [fresh_congr t _ c key.1 key.2 hK.hid hK.gid (St.modComp_len t x f) (fun _ _ => rfl)
        (fun x _ => ⟨ehtab x, eglob x, echild x, echan x⟩)]
      exact hc key l hm

theorem K.updateRootAll {E : Nat → Prop} (root : Nat) : ∀ (fuel : Nat) (todo : List Nat) (t : St),
    K E t → ((t.comp root).root = root ∨ E root) → K E (St.updateRootAll fuel todo root t) := by
  intro fuel
  induction fuel with
  | zero => intro todo t hK _; simpa [St.updateRootAll] using hK
  | succ n ih =>
    intro todo t hK hr
    cases todo with
    | nil => simpa [St.updateRootAll] using hK
    | cons x rest =>
      simp only [St.updateRootAll]
      have hf : SetRoot root (fun y : Comp => { y with root := root }) :=
        ⟨fun _ => rfl, fun _ => rfl, fun _ => rfl, fun _ => rfl, fun _ => rfl, fun _ => rfl, fun _ => rfl⟩
      apply ih
      · exact hK.setRoot x root _ hf (Or.inr hr)
      · rcases hr with hr | hr
        · left
          rw [St.comp_modComp_if]
          split
          · rfl
          · exact hr
        · exact Or.inr hr

/-! ## the same for `J` (with the forest fact) -/

theorem TreeOk.modComp {t : St} (hT : TreeOk t) (c : Nat) (f : Comp → Comp)
    (hroot : ∀ y, (f y).root = y.root) (hch : ∀ y d, d ∈ (f y).children → d ∈ y.children) :
    TreeOk (t.modComp c f) := by
  have eroot := St.comp_modComp_proj (fun y => y.root) t c f hroot
  intro a x n hr hreach
  rw [eroot] at hr
  rw [eroot]
  refine hT a x n hr (hreach.mono_children (fun y d hd => ?_))
  rw [St.comp_modComp_if] at hd
  split at hd
  · exact hch _ d hd
  · exact hd

theorem J.touch {E} {t : St} (hJ : J E t) (p : Nat) (f : Comp → Comp) (hf : Touch f)
    (hch : ∀ y d, d ∈ (f y).children → d ∈ y.children)
    (hh : ∀ k h, (k, h) ∈ (f (t.comp p)).htab → t.plain h)
    (hg : ∀ h, h ∈ (f (t.comp p)).globals → t.plain h)
    (hE : E (t.comp p).root) : J E (t.modComp p f) :=
  ⟨hJ.tree.modComp p f hf.root hch, hJ.k.touch p f hf hh hg (hJ.tree.unreach E p hE)⟩

theorem J.flag {E E' : Nat → Prop} {t : St} (hJ : J E' t) (r : Nat) (f : Comp → Comp) (hf : Flag f)
    (hE : ∀ y, E' y → E y ∨ y = r) : J E (t.modComp r f) :=
  ⟨hJ.tree.modComp r f hf.root (fun y d hd => by rw [hf.children] at hd; exact hd), hJ.k.flag r f hf hE⟩

theorem J.clear {E : Nat → Prop} {t : St} (hJ : J E t) (r : Nat) (f : Comp → Comp) (hf : Clear f) :
    J E (t.modComp r f) :=
  ⟨hJ.tree.modComp r f hf.root (fun y d hd => by rw [hf.children] at hd; exact hd), hJ.k.clear r f hf⟩

theorem J.modComp {E : Nat → Prop} {t : St} (hJ : J E t) (c : Nat) (f : Comp → Comp) (hf : Neutral f) :
    J E (t.modComp c f) := hJ.of_same (Same.modComp t c f hf)

/-! ## `addHandler`, `removeHandler` -/

theorem mem_addUniq {α} [BEq α] (l : List α) (a x : α) (h : x ∈ addUniq l a) : x ∈ l ∨ x = a := by
  unfold addUniq at h
  split at h
  · exact Or.inl h
  · rcases List.mem_append.mp h with h | h
    · exact Or.inl h
    · exact Or.inr (by simpa using h)

theorem J.addHandler {E : Nat → Prop} {t : St} (hJ : J E t) (h : Nat) (hp : t.plain h) :
    J E (t.addHandler h) := by
  unfold St.addHandler
  dsimp only
  generalize hc : (t.handler h).owner = c
  let E' : Nat → Prop := fun y => E y ∨ y = (t.comp c).root
  have hJ' : J E' t := hJ.weaken (fun y hy => Or.inl hy)
  -- every intermediate state: invariant with the root of `c` exempted, root of `c` unchanged
  have key : ∀ (s1 : St), (J E' s1 ∧ (s1.comp c).root = (t.comp c).root) →
      J E (s1.modComp (s1.rootOf c) fun x => { x with dirty := true }) := by
    intro s1 ⟨h1, hr⟩
    refine h1.flag _ _ ?_ ?_
    · exact ⟨fun _ => rfl, fun _ => rfl, fun _ => rfl, fun _ => rfl, fun _ => rfl, fun _ => rfl, fun _ => rfl⟩
    intro y hy
    unfold St.rootOf
    rw [hr]
    exact hy
  have stepG : ∀ (s1 : St), (J E' s1 ∧ (s1.comp c).root = (t.comp c).root) →
      ∀ (g : Comp → Comp), Touch g → (∀ y d, d ∈ (g y).children → d ∈ y.children) →
        (∀ k h', (k, h') ∈ (g (s1.comp c)).htab → s1.plain h') →
        (∀ h', h' ∈ (g (s1.comp c)).globals → s1.plain h') →
        (J E' (s1.modComp c g) ∧ ((s1.modComp c g).comp c).root = (t.comp c).root) := by
    intro s1 ⟨h1, hr⟩ g hg hch hh hgl
    refine ⟨h1.touch c g hg hch hh hgl (by rw [hr]; exact Or.inr rfl), ?_⟩
    rw [St.comp_modComp_proj (fun y => y.root) s1 c g hg.root]
    exact hr
  apply key
  split
  · refine stepG t ⟨hJ', rfl⟩ _ ?_ ?_ ?_ ?_
    · exact ⟨fun _ => rfl, fun _ => rfl, fun _ => rfl⟩
    · exact fun _ _ hd => hd
    · intro k h' hm; exact hJ.k.hid c k h' hm
    · intro h' hm
      rcases mem_addUniq _ _ _ hm with hm | hm
      · exact hJ.k.gid c h' hm
      · exact hm ▸ hp
  · split
    · refine stepG t ⟨hJ', rfl⟩ _ ?_ ?_ ?_ ?_
      · exact ⟨fun _ => rfl, fun _ => rfl, fun _ => rfl⟩
      · exact fun _ _ hd => hd
      · intro k h' hm
        rcases mem_addUniq _ _ _ hm with hm | hm
        · exact hJ.k.hid c k h' hm
        · have : h' = h := by injection hm
          exact this ▸ hp
      · intro h' hm; exact hJ.k.gid c h' hm
    · generalize (t.handler h).names = names
      have : ∀ (s1 : St), (J E' s1 ∧ (s1.comp c).root = (t.comp c).root) → s1.plain h →
          (J E' (names.foldl (fun s n => s.modComp c fun x => { x with htab := addUniq x.htab (some n, h) }) s1) ∧
           ((names.foldl (fun s n => s.modComp c fun x => { x with htab := addUniq x.htab (some n, h) }) s1).comp c).root
              = (t.comp c).root) := by
        induction names with
        | nil => intro s1 h1 _; exact h1
        | cons n ns ih =>
          intro s1 h1 hp1
          simp only [List.foldl_cons]
          apply ih
          · refine stepG s1 h1 _ ?_ ?_ ?_ ?_
            · exact ⟨fun _ => rfl, fun _ => rfl, fun _ => rfl⟩
            · exact fun _ _ hd => hd
            · intro k h' hm
              rcases mem_addUniq _ _ _ hm with hm | hm
              · exact h1.1.k.hid c k h' hm
              · have : h' = h := by injection hm
                exact this ▸ hp1
            · intro h' hm; exact h1.1.k.gid c h' hm
          · exact hp1
      exact this t ⟨hJ', rfl⟩ hp

theorem rmKeys_sub (h : Nat) : ∀ (ks : List HKey) (htab : List (HKey × Nat)) (x : HKey × Nat),
    x ∈ (rmKeys h htab ks).2 → x ∈ htab := by
  intro ks
  induction ks with
  | nil => intro htab x hx; exact hx
  | cons k ks ih =>
    intro htab x hx
    unfold rmKeys at hx
    split at hx
    · exact List.mem_of_mem_erase (ih _ x hx)
    · exact hx

theorem J.removeHandler {E : Nat → Prop} {t : St} (hJ : J E t) (h : Nat) (byName : Option Name) :
    J E (t.removeHandler h byName).2 := by
  unfold St.removeHandler
  dsimp only
  generalize (t.handler h).owner = c
  let E' : Nat → Prop := fun y => E y ∨ y = (t.comp c).root
  have hJ' : J E' t := hJ.weaken (fun y hy => Or.inl hy)
  have stepG : ∀ (s1 : St), (J E' s1 ∧ (s1.comp c).root = (t.comp c).root) →
      ∀ (g : Comp → Comp), Touch g → (∀ y d, d ∈ (g y).children → d ∈ y.children) →
        (∀ k h', (k, h') ∈ (g (s1.comp c)).htab → s1.plain h') →
        (∀ h', h' ∈ (g (s1.comp c)).globals → s1.plain h') →
        (J E' (s1.modComp c g) ∧ ((s1.modComp c g).comp c).root = (t.comp c).root) := by
    intro s1 ⟨h1, hr⟩ g hg hch hh hgl
    refine ⟨h1.touch c g hg hch hh hgl (by rw [hr]; exact Or.inr rfl), ?_⟩
    rw [St.comp_modComp_proj (fun y => y.root) s1 c g hg.root]
    exact hr
  -- first the globals
  have h1 : ∀ b : Bool, (J E' (if b then t.modComp c fun x => { x with globals := x.globals.erase h } else t) ∧
      ((if b then t.modComp c fun x => { x with globals := x.globals.erase h } else t).comp c).root = (t.comp c).root) := by
    intro b
    cases b with
    | false => exact ⟨hJ', rfl⟩
    | true =>
      simp only [if_true]
      refine stepG t ⟨hJ', rfl⟩ _ ?_ ?_ ?_ ?_
      · exact ⟨fun _ => rfl, fun _ => rfl, fun _ => rfl⟩
      · exact fun _ _ hd => hd
      · intro k h' hm; exact hJ.k.hid c k h' hm
      · intro h' hm; exact hJ.k.gid c h' (List.mem_of_mem_erase hm)
  generalize hb : (byName.isNone && (t.handler h).names.isEmpty && (t.handler h).chan == some Chan.star) = b
  specialize h1 b
  generalize (if b = true then t.modComp c fun x => { x with globals := x.globals.erase h } else t) = s1 at h1 ⊢
  generalize hres : rmKeys h (s1.comp c).htab _ = res
  have hsub : ∀ x, x ∈ res.2 → x ∈ (s1.comp c).htab := by
    intro x hx; rw [← hres] at hx; exact rmKeys_sub _ _ _ _ hx
  have h2 := stepG s1 h1 (fun x => { x with htab := res.2 }) ⟨fun _ => rfl, fun _ => rfl, fun _ => rfl⟩
    (fun _ _ hd => hd) (fun k h' hm => h1.1.k.hid c k h' (hsub _ hm)) (fun h' hm => h1.1.k.gid c h' hm)
  refine h2.1.flag _ _ ?_ ?_
  · exact ⟨fun _ => rfl, fun _ => rfl, fun _ => rfl, fun _ => rfl, fun _ => rfl, fun _ => rfl, fun _ => rfl⟩
  · intro y hy
    unfold St.rootOf
    rw [h2.2]
    exact hy

/-! ## the cache: `computeHandlers`, `cacheRefresh`, `lookupHandlers` -/

theorem K.fresh_plain {E} {t : St} (hK : K E t) {r : Nat} {name : Name} {chans : List Chan} {h : Nat}
    (hm : h ∈ freshHandlers t r name chans) : t.plain h := by
  unfold freshHandlers at hm
  rw [List.mem_mergeSort, List.mem_flatMap] at hm
  obtain ⟨ch, _, hm⟩ := hm
  exact collect_plain t hK.hid hK.gid _ _ _ _ _ hm

theorem nonFallback_plain (t : St) (l : List Nat) (h : ∀ x ∈ l, t.plain x) : nonFallback t l = l := by
  unfold nonFallback
  rw [List.filter_eq_self]
  intro x hx
  have := h x hx
  unfold St.plain at this
  simp [this]

/-- the list and the state `computeHandlers` produces before it stores the list in the cache -/
def _root_.CV.Core.St.fbRes (s : St) (r : Nat) (name : Name) (chans : List Chan) : List Nat × St :=
  if name == Name.generateEvents then
    (freshHandlers s r name chans ++ [s.hs.length],
     s.addH { owner := r, names := [Name.generateEvents], chan := none, prio := -100, kind := .fallbackGE })
  else if name == Name.exception && (freshHandlers s r name chans).isEmpty then
    (freshHandlers s r name chans ++ [s.hs.length],
     s.addH { owner := r, names := [Name.exception], chan := some .star, kind := .fallbackExc })
  else (freshHandlers s r name chans, s)

theorem St.computeHandlers_eq (s : St) (r : Nat) (name : Name) (chans : List Chan) :
    s.computeHandlers r name chans =
      ((s.fbRes r name chans).1,
       (s.fbRes r name chans).2.modComp r fun x => { x with cache := ((name, chans), (s.fbRes r name chans).1) :: x.cache }) := rfl

theorem nonFallback_append_fb (t : St) (l : List Nat) (x : Handler) (hl : ∀ h ∈ l, t.plain h)
    (hx : x.kind.isFallback = true) : nonFallback (t.addH x) (l ++ [t.hs.length]) = l := by
  unfold nonFallback
  rw [List.filter_append]
  have h1 : List.filter (fun h => !((t.addH x).handler h).kind.isFallback) l = l := by
    rw [List.filter_eq_self]
    intro y hy
    have := (Same.addH t x).plain (hl y hy)
    unfold St.plain at this
    simp [this]
  have h2 : (t.addH x).handler t.hs.length = x := by
    simp [St.addH, St.handler, List.getD_eq_getElem?_getD]
  rw [h1]
  simp [h2, hx]

theorem K.fbRes {E} {t : St} (hK : K E t) (r : Nat) (name : Name) (chans : List Chan) :
    Same t (t.fbRes r name chans).2 ∧
    nonFallback (t.fbRes r name chans).2 (t.fbRes r name chans).1 = freshHandlers t r name chans ∧
    ∀ h ∈ (t.fbRes r name chans).1, h < (t.fbRes r name chans).2.hs.length := by
  have hpl : ∀ h ∈ freshHandlers t r name chans, t.plain h := fun h hm => hK.fresh_plain hm
  unfold St.fbRes
  split
  · refine ⟨Same.addH _ _, nonFallback_append_fb t _ _ hpl rfl, ?_⟩
    intro h hm
    rcases List.mem_append.mp hm with hm | hm
    · exact Nat.lt_of_lt_of_le (St.plain_lt (hpl h hm)) (Same.addH t _).hsLen
    · simp at hm; subst hm; simp [St.addH]
  · split
    · refine ⟨Same.addH _ _, nonFallback_append_fb t _ _ hpl rfl, ?_⟩
      intro h hm
      rcases List.mem_append.mp hm with hm | hm
      · exact Nat.lt_of_lt_of_le (St.plain_lt (hpl h hm)) (Same.addH t _).hsLen
      · simp at hm; subst hm; simp [St.addH]
    · exact ⟨Same.refl t, nonFallback_plain t _ hpl, fun h hm => St.plain_lt (hpl h hm)⟩

theorem K.fresh_modComp {E} {t : St} (hK : K E t) (r : Nat) (f : Comp → Comp)
    (h1 : ∀ y, (f y).htab = y.htab) (h2 : ∀ y, (f y).globals = y.globals)
    (h3 : ∀ y, (f y).children = y.children) (h4 : ∀ y, (f y).chan = y.chan)
    (c : Nat) (name : Name) (chans : List Chan) :
    freshHandlers (t.modComp r f) c name chans = freshHandlers t c name chans :=
  fresh_congr t _ c name chans hK.hid hK.gid (St.modComp_len t r f) (fun _ _ => rfl)
    (fun x _ => ⟨St.comp_modComp_proj (fun y => y.htab) t r f h1 x,
                 St.comp_modComp_proj (fun y => y.globals) t r f h2 x,
                 St.comp_modComp_proj (fun y => y.children) t r f h3 x,
                 St.comp_modComp_proj (fun y => y.chan) t r f h4 x⟩)

/-- storing a correct list in the cache -/
theorem K.addCache {E} {t : St} (hK : K E t) (r : Nat) (key : Name × List Chan) (l : List Nat)
    (hl : ∀ h ∈ l, h < t.hs.length) (hlive : nonFallback t l = freshHandlers t r key.1 key.2) :
    K E (t.modComp r fun x => { x with cache := (key, l) :: x.cache }) := by
  have eroot := St.comp_modComp_proj (fun y => y.root) t r (fun x => { x with cache := (key, l) :: x.cache }) (fun _ => rfl)
  have edirty := St.comp_modComp_proj (fun y => y.dirty) t r (fun x => { x with cache := (key, l) :: x.cache }) (fun _ => rfl)
  have ehtab := St.comp_modComp_proj (fun y => y.htab) t r (fun x => { x with cache := (key, l) :: x.cache }) (fun _ => rfl)
  have eglob := St.comp_modComp_proj (fun y => y.globals) t r (fun x => { x with cache := (key, l) :: x.cache }) (fun _ => rfl)
  have echild := St.comp_modComp_proj (fun y => y.children) t r (fun x => { x with cache := (key, l) :: x.cache }) (fun _ => rfl)
  have echan := St.comp_modComp_proj (fun y => y.chan) t r (fun x => { x with cache := (key, l) :: x.cache }) (fun _ => rfl)
  have hfr : ∀ (c : Nat) (key' : Name × List Chan),
      freshHandlers (t.modComp r fun x => { x with cache := (key, l) :: x.cache }) c key'.1 key'.2
        = freshHandlers t c key'.1 key'.2 := fun c key' =>
    fresh_congr t _ c key'.1 key'.2 hK.hid hK.gid (St.modComp_len t r _) (fun _ _ => rfl)
      (fun x _ => ⟨ehtab x, eglob x, echild x, echan x⟩)
  refine ⟨?_, ?_, ?_, ?_⟩
  · intro c k h hm; rw [ehtab] at hm; exact hK.hid c k h hm
  · intro c h hm; rw [eglob] at hm; exact hK.gid c h hm
  · intro c key' l' h hm hh'
    rw [St.comp_modComp_if] at hm
    split at hm
    · rcases List.mem_cons.mp hm with hm | hm
      · injection hm with _ e2
        subst e2
        exact hl h hh'
      · exact hK.cid c key' l' h hm hh'
    · exact hK.cid c key' l' h hm hh'
  · intro c hr hEc
    rw [eroot] at hr
    rcases hK.live c hr hEc with hd | hc
    · left; rw [edirty]; exact hd
    · right
      intro key' l' hm
      rw [hfr]
      rw [St.comp_modComp_if] at hm
      split at hm
      · rename_i hcr
        rcases List.mem_cons.mp hm with hm | hm
        · injection hm with e1 e2
          subst e1 e2
          rw [← hcr.1] at hlive
          exact hlive
        · exact hc key' l' hm
      · exact hc key' l' hm

theorem K.computeHandlers {E} {t : St} (hK : K E t) (r : Nat) (name : Name) (chans : List Chan) :
    K E (t.computeHandlers r name chans).2 ∧
    nonFallback (t.computeHandlers r name chans).2 (t.computeHandlers r name chans).1
      = freshHandlers (t.computeHandlers r name chans).2 r name chans ∧
    ∀ h ∈ (t.computeHandlers r name chans).1, h < (t.computeHandlers r name chans).2.hs.length := by
  rw [St.computeHandlers_eq]
  obtain ⟨hs, hnf, hlt⟩ := hK.fbRes r name chans
  have hK1 := hK.of_same hs
  have hlive : nonFallback (t.fbRes r name chans).2 (t.fbRes r name chans).1
      = freshHandlers (t.fbRes r name chans).2 r name chans := by
    rw [hnf, hK.fresh_same hs]
  have hK2 := hK1.addCache r (name, chans) _ hlt hlive
  refine ⟨hK2, ?_, fun h hh => hlt h hh⟩
  dsimp only
  refine Eq.trans ?_ (hK1.fresh_modComp r _ ?_ ?_ ?_ ?_ r name chans).symm
  · exact hlive
  all_goals exact fun _ => rfl

end CV.Core.Live

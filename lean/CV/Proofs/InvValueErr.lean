import CV.Proofs.InvValueBase
/-
C04, machine level, part 3: the `errors` flag of an event's Value is raised only by
`St.handlerRaised` (the `except BaseException` of the handler loop) and `St.errorBranch`
(the `except BaseException` of `processTask`).

`NE e s s'` ("no new error on `e`"): if `errors` of `e` is set in `s'` it was set in `s`.
Every primitive / helper / arm respects it except the two above (which respect it for every
*other* event); `step_ne` : a step that is not a raise-handling step of `e` (`RaiseStep`)
satisfies `NE e`.  Pattern and generation as in InvValue.lean.
-/
namespace CV.Core

/-- if `errors` of `e` is set after, it was set before -/
structure NE (e : Nat) (s s' : St) : Prop where
  imp : (s'.ev e).val.errors = true → (s.ev e).val.errors = true

namespace NE
variable {e : Nat} {s t u : St}

theorem refl (s : St) : NE e s s := ⟨id⟩
theorem trans (h1 : NE e s t) (h2 : NE e t u) : NE e s u := ⟨fun h => h1.imp (h2.imp h)⟩

theorem of_same (t t' : St) (h1 : t'.evs = t.evs) : NE e t t' := by
  have hev : ∀ x, t'.ev x = t.ev x := fun x => by unfold St.ev; rw [h1]
  exact ⟨fun h => by rw [hev] at h; exact h⟩

theorem modEv_self (t : St) (e' : Nat) (f : Ev → Ev)
    (hf : ∀ y : Ev, (f y).val.errors = true → y.val.errors = true) : NE e t (t.modEv e' f) := by
  refine ⟨fun h => ?_⟩
  rw [St.v4ev_modEv] at h
  split at h
  · exact hf _ h
  · exact h

theorem addEv_self (t : St) (a : Ev) (ha : a.val = {}) : NE e t (t.addEv a) := by
  refine ⟨fun h => ?_⟩
  rw [St.v4ev_addEv] at h
  split at h
  · rw [ha] at h; cases h
  · exact h

theorem modComp (h : NE e s t) (c : Nat) (f : Comp → Comp) : NE e s (t.modComp c f) := h.trans (of_same _ _ rfl)
theorem modWait (h : NE e s t) (w : Nat) (f : WaitSt → WaitSt) : NE e s (t.modWait w f) := h.trans (of_same _ _ rfl)
theorem modTimer (h : NE e s t) (i : Nat) (f : TimerSt → TimerSt) : NE e s (t.modTimer i f) := h.trans (of_same _ _ rfl)
theorem setGen (h : NE e s t) (g : Nat) (x : GenRec) : NE e s (t.setGen g x) := h.trans (of_same _ _ rfl)
theorem addH (h : NE e s t) (x : Handler) : NE e s (t.addH x) := h.trans (of_same _ _ rfl)
theorem addGen (h : NE e s t) (g : GenRec) : NE e s (t.addGen g) := h.trans (of_same _ _ rfl)
theorem addWait (h : NE e s t) (w : WaitSt) : NE e s (t.addWait w) := h.trans (of_same _ _ rfl)
theorem tick1 (h : NE e s t) (d : Int) : NE e s (t.tick1 d) := h.trans (of_same _ _ rfl)
theorem logE (h : NE e s t) (x : Entry) : NE e s (t.logE x) := h.trans (of_same _ _ rfl)

theorem modEv' {e' : Nat} {f : Ev → Ev}
    (hf : ∀ y : Ev, (f y).val.errors = true → y.val.errors = true) (h : NE e s t) : NE e s (t.modEv e' f) :=
  h.trans (modEv_self _ _ _ hf)
/-- any update of another event -/
theorem modEv_other {e' : Nat} {f : Ev → Ev} (hne : e' ≠ e) (h : NE e s t) : NE e s (t.modEv e' f) :=
  h.trans ⟨fun hh => by rw [St.v4ev_modEv_ne _ _ _ _ (Ne.symm hne)] at hh; exact hh⟩
theorem addEv' {a : Ev} (ha : a.val = {}) (h : NE e s t) : NE e s (t.addEv a) := h.trans (addEv_self _ _ ha)

end NE

/-- closes the side condition of `NE.modEv'` -/
syntax "ne_side" : tactic
macro_rules | `(tactic| ne_side) => `(tactic| first
  | exact fun _ h => h
  | exact fun _ h => Bool.noConfusion h
  | (intro y h; rw [Val.set_errors] at h; exact h)
  | (intro y; (try dsimp only); split <;> exact id))

/-- one step of `ne`; extended by `macro_rules` (later rules are tried first) -/
syntax "ne1" : tactic
macro_rules | `(tactic| ne1) => `(tactic| split)
macro_rules | `(tactic| ne1) => `(tactic| with_reducible apply NE.tick1)
macro_rules | `(tactic| ne1) => `(tactic| with_reducible apply NE.addWait)
macro_rules | `(tactic| ne1) => `(tactic| with_reducible apply NE.addGen)
macro_rules | `(tactic| ne1) => `(tactic| with_reducible apply NE.addH)
macro_rules | `(tactic| ne1) => `(tactic| ((with_reducible apply NE.addEv'); exact rfl))
macro_rules | `(tactic| ne1) => `(tactic| with_reducible apply NE.logE)
macro_rules | `(tactic| ne1) => `(tactic| with_reducible apply NE.setGen)
macro_rules | `(tactic| ne1) => `(tactic| with_reducible apply NE.modTimer)
macro_rules | `(tactic| ne1) => `(tactic| with_reducible apply NE.modWait)
macro_rules | `(tactic| ne1) => `(tactic| ((with_reducible apply NE.modEv_other); assumption))
macro_rules | `(tactic| ne1) => `(tactic| ((with_reducible apply NE.modEv'); ne_side))
macro_rules | `(tactic| ne1) => `(tactic| with_reducible apply NE.modComp)
macro_rules | `(tactic| ne1) => `(tactic| with_reducible assumption)
macro_rules | `(tactic| ne1) => `(tactic| with_reducible exact NE.refl _)

macro "ne" : tactic => `(tactic| repeat' ne1)
macro "ne_unfold" ids:ident+ : tactic => `(tactic| (unfold $[$ids]*; (try dsimp only); ne))

/-- the frames whose step handles an exception of a handler / task of event `ve` -/
def raiseFrame (ve : Nat) (c : Cfg) : Frame → Prop
  | .hAfter _ e _ _ _ => e = ve ∧ c.ret.outcome = .raised
  | .ptOwn _ t => t.e = ve ∧ c.ret.yield = .raised
  | .ptParent _ t _ _ => t.e = ve ∧ c.ret.yield = .raised
  | .ptBody _ t => t.e = ve ∧
      (match c.st.gen t.g with
       | .wait _ => True            -- KeyError out of the waitEvent generator
       | .exc _ fired => fired = false   -- the TimeoutError generator
       | _ => False)
  | _ => False

/-- `step c` is a raise-handling step for event `ve`: no exception is unwinding and the top
    frame is the `except BaseException` of the handler loop (`hAfter` reading `.raised`) or of
    `processTask` (`ptOwn`/`ptParent` reading `.raised`, `ptBody` of a framework generator)
    for that event -/
def RaiseStep (ve : Nat) (c : Cfg) : Prop :=
  c.exn = none ∧ ∃ f k, c.stack = f :: k ∧ raiseFrame ve c f

/-! ## helpers of `Pure.lean` -/

/-- a `foldl` of steps that each respect `Le` respects `Le` -/
theorem NE.foldl {ve : Nat} {s t : St} {α} (g : St → α → St) (hg : ∀ a x, NE ve s a → NE ve s (g a x)) (l : List α)
    (h : NE ve s t) : NE ve s (l.foldl g t) := by
  induction l generalizing t with
  | nil => exact h
  | cons x l ih => exact ih (hg _ _ h)

theorem NE.addHandler {ve : Nat} {s t : St} (h : NE ve s t) (x : Nat) : NE ve s (t.addHandler x) := by
  unfold St.addHandler
  dsimp only
  apply NE.modComp
  split
  · ne
  · split
    · ne
    · exact NE.foldl _ (fun a n ha => ha.modComp _ _) _ h
macro_rules | `(tactic| ne1) => `(tactic| with_reducible apply NE.addHandler)

theorem NE.removeHandler {ve : Nat} {s t : St} (h : NE ve s t) (x : Nat) (n : Option Name) :
    NE ve s ((t.removeHandler x n).2) := by
  ne_unfold St.removeHandler
macro_rules | `(tactic| ne1) => `(tactic| with_reducible apply NE.removeHandler)

theorem NE.fireContext {ve : Nat} {s t : St} (h : NE ve s t) (r e : Nat) :
    NE ve s (t.fireContext r e) := by
  ne_unfold St.fireContext
macro_rules | `(tactic| ne1) => `(tactic| with_reducible apply NE.fireContext)

theorem NE.fireRaw {ve : Nat} {s t : St} (h : NE ve s t) (self e : Nat) (chans : List Chan) (prio : Int) :
    NE ve s (t.fireRaw self e chans prio) := by
  ne_unfold St.fireRaw
macro_rules | `(tactic| ne1) => `(tactic| with_reducible apply NE.fireRaw)

theorem NE.childEv {ve : Nat} {s t : St} (h : NE ve s t) (p sfx : Nat) :
    NE ve s (t.childEv p sfx) := by
  ne_unfold St.childEv
macro_rules | `(tactic| ne1) => `(tactic| with_reducible apply NE.childEv)

theorem NE.fireChild {ve : Nat} {s t : St} (h : NE ve s t) (self p sfx : Nat) (chans : List Chan) :
    NE ve s (t.fireChild self p sfx chans) := by
  ne_unfold St.fireChild
macro_rules | `(tactic| ne1) => `(tactic| with_reducible apply NE.fireChild)

theorem NE.inform {ve : Nat} {s t : St} (h : NE ve s t) (e : Nat) (force : Bool) :
    NE ve s (t.inform e force) := by
  ne_unfold St.inform
macro_rules | `(tactic| ne1) => `(tactic| with_reducible apply NE.inform)

theorem NE.setValue {ve : Nat} {s t : St} (h : NE ve s t) (e : Nat) (x : VItem) :
    NE ve s (t.setValue e x) := by
  ne_unfold St.setValue
macro_rules | `(tactic| ne1) => `(tactic| with_reducible apply NE.setValue)

theorem NE.fireTmplEv {ve : Nat} {s t : St} (h : NE ve s t) (self : Nat) (ev : Ev) (target : Option Chan) (prio : Int) :
    NE ve s (t.fireTmplEv self ev target prio) := by
  unfold St.fireTmplEv
  dsimp only
  rw [St.v4_fireRaw_addEv]
  ne
macro_rules | `(tactic| ne1) => `(tactic| with_reducible apply NE.fireTmplEv)

theorem NE.effectDone1 {ve : Nat} {s t : St} (h : NE ve s t) (r e : Nat) (announce : Bool) :
    NE ve s ((t.effectDone1 r e announce).2) := by
  ne_unfold St.effectDone1
macro_rules | `(tactic| ne1) => `(tactic| with_reducible apply NE.effectDone1)

theorem NE.eventDonePre {ve : Nat} {s t : St} (h : NE ve s t) (r e : Nat) (err : Bool) :
    NE ve s ((t.eventDonePre r e err).2) := by
  ne_unfold St.eventDonePre
macro_rules | `(tactic| ne1) => `(tactic| with_reducible apply NE.eventDonePre)

theorem NE.registerTask {ve : Nat} {s t : St} (h : NE ve s t) (c : Nat) (x : Task) :
    NE ve s (t.registerTask c x) := by
  ne_unfold St.registerTask
macro_rules | `(tactic| ne1) => `(tactic| with_reducible apply NE.registerTask)

theorem NE.unregisterTask {ve : Nat} {s t : St} (h : NE ve s t) (c : Nat) (x : Task) :
    NE ve s (t.unregisterTask c x) := by
  ne_unfold St.unregisterTask
macro_rules | `(tactic| ne1) => `(tactic| with_reducible apply NE.unregisterTask)

theorem NE.reduceTimeLeft {ve : Nat} {s t : St} (h : NE ve s t) (e : Nat) (d : Int) :
    NE ve s (t.reduceTimeLeft e d) := by
  ne_unfold St.reduceTimeLeft
macro_rules | `(tactic| ne1) => `(tactic| with_reducible apply NE.reduceTimeLeft)

theorem NE.registerPre {ve : Nat} {s t : St} (h : NE ve s t) (c p : Nat) :
    NE ve s ((t.registerPre c p).2) := by
  ne_unfold St.registerPre
macro_rules | `(tactic| ne1) => `(tactic| with_reducible apply NE.registerPre)

theorem NE.registerFin {ve : Nat} {s t : St} (h : NE ve s t) (c : Nat) :
    NE ve s (t.registerFin c) := by
  ne_unfold St.registerFin
macro_rules | `(tactic| ne1) => `(tactic| with_reducible apply NE.registerFin)

theorem NE.unregister {ve : Nat} {s t : St} (h : NE ve s t) (c : Nat) :
    NE ve s (t.unregister c) := by
  ne_unfold St.unregister
macro_rules | `(tactic| ne1) => `(tactic| with_reducible apply NE.unregister)

theorem NE.prepUnregPre {ve : Nat} {s t : St} (h : NE ve s t) (c : Nat) :
    NE ve s (t.prepUnregPre c) := by
  ne_unfold St.prepUnregPre
macro_rules | `(tactic| ne1) => `(tactic| with_reducible apply NE.prepUnregPre)

theorem NE.prepUnregFin {ve : Nat} {s t : St} (h : NE ve s t) (c : Nat) :
    NE ve s (t.prepUnregFin c) := by
  ne_unfold St.prepUnregFin
macro_rules | `(tactic| ne1) => `(tactic| with_reducible apply NE.prepUnregFin)

theorem NE.actFire {ve : Nat} {s t : St} (h : NE ve s t) (self i : Nat) (target : Option Chan) (prio : Int) (cancel : Bool) :
    NE ve s (t.actFire self i target prio cancel) := by
  ne_unfold St.actFire
macro_rules | `(tactic| ne1) => `(tactic| with_reducible apply NE.actFire)

theorem NE.actStopEv {ve : Nat} {s t : St} (h : NE ve s t) (ev : Option Nat) :
    NE ve s (t.actStopEv ev) := by
  ne_unfold St.actStopEv
macro_rules | `(tactic| ne1) => `(tactic| with_reducible apply NE.actStopEv)

theorem NE.timerReset {ve : Nat} {s t : St} (h : NE ve s t) (i : Nat) :
    NE ve s (t.timerReset i) := by
  ne_unfold St.timerReset
macro_rules | `(tactic| ne1) => `(tactic| with_reducible apply NE.timerReset)

theorem NE.timerCreate {ve : Nat} {s t : St} (h : NE ve s t) (i : Nat) :
    NE ve s (t.timerCreate i) := by
  ne_unfold St.timerCreate
macro_rules | `(tactic| ne1) => `(tactic| with_reducible apply NE.timerCreate)

theorem NE.timerTick {ve : Nat} {s t : St} (h : NE ve s t) (i e : Nat) :
    NE ve s (t.timerTick i e) := by
  ne_unfold St.timerTick
macro_rules | `(tactic| ne1) => `(tactic| with_reducible apply NE.timerTick)

theorem NE.startWait {ve : Nat} {s t : St} (h : NE ve s t) (w : Nat) :
    NE ve s (t.startWait w) := by
  ne_unfold St.startWait
macro_rules | `(tactic| ne1) => `(tactic| with_reducible apply NE.startWait)

/-! ## pure pieces of `Step.lean` -/

theorem NE.stopBegin {ve : Nat} {s t : St} (h : NE ve s t) (c : Nat) :
    NE ve s (t.stopBegin c) := by
  ne_unfold St.stopBegin
macro_rules | `(tactic| ne1) => `(tactic| with_reducible apply NE.stopBegin)

theorem NE.stopSetCode {ve : Nat} {s t : St} (h : NE ve s t) (r : Nat) (code : Code) :
    NE ve s (t.stopSetCode r code) := by
  ne_unfold St.stopSetCode
macro_rules | `(tactic| ne1) => `(tactic| with_reducible apply NE.stopSetCode)

theorem NE.genCall {ve : Nat} {s t : St} (h : NE ve s t) (owner i : Nat) (target : Option Chan) (timeout : Option Nat) :
    NE ve s (t.genCall owner i target timeout) := by
  ne_unfold St.genCall
macro_rules | `(tactic| ne1) => `(tactic| with_reducible apply NE.genCall)

theorem NE.genWait {ve : Nat} {s t : St} (h : NE ve s t) (owner : Nat) (name : Name) (target : Option Chan) (timeout : Option Nat) :
    NE ve s (t.genWait owner name target timeout) := by
  ne_unfold St.genWait
macro_rules | `(tactic| ne1) => `(tactic| with_reducible apply NE.genWait)

theorem NE.resumeGenPre {ve : Nat} {s t : St} (h : NE ve s t) (g : Nat) (silent : Bool) :
    NE ve s (t.resumeGenPre g silent) := by
  ne_unfold St.resumeGenPre
macro_rules | `(tactic| ne1) => `(tactic| with_reducible apply NE.resumeGenPre)

theorem NE.stopIteration {ve : Nat} {s t : St} (h : NE ve s t) (r : Nat) (x : Task) :
    NE ve s ((t.stopIteration r x).2) := by
  ne_unfold St.stopIteration
macro_rules | `(tactic| ne1) => `(tactic| with_reducible apply NE.stopIteration)

theorem NE.fireException {ve : Nat} {s t : St} (h : NE ve s t) (r e : Nat) :
    NE ve s (t.fireException r e) := by
  ne_unfold St.fireException
macro_rules | `(tactic| ne1) => `(tactic| with_reducible apply NE.fireException)

/-- `errorBranch r x` raises `errors` of `x.e` only -/
theorem NE.errorBranch_other {ve : Nat} {s t : St} (r : Nat) (x : Task) (resumed : Bool) (hne : x.e ≠ ve) (h : NE ve s t) :
    NE ve s ((t.errorBranch r x resumed).2) := by
  ne_unfold St.errorBranch
macro_rules | `(tactic| ne1) => `(tactic| ((with_reducible apply NE.errorBranch_other); assumption))

theorem NE.ownSub {ve : Nat} {s t : St} (h : NE ve s t) (r : Nat) (x : Task) (w : Nat) :
    NE ve s (t.ownSub r x w) := by
  ne_unfold St.ownSub
macro_rules | `(tactic| ne1) => `(tactic| with_reducible apply NE.ownSub)

theorem NE.setValueOpt {ve : Nat} {s t : St} (h : NE ve s t) (e : Nat) (v : Option Nat) :
    NE ve s (t.setValueOpt e v) := by
  ne_unfold St.setValueOpt
macro_rules | `(tactic| ne1) => `(tactic| with_reducible apply NE.setValueOpt)

theorem NE.parentSub {ve : Nat} {s t : St} (h : NE ve s t) (r : Nat) (x : Task) (p w2 : Nat) (viaThrow : Bool) :
    NE ve s (t.parentSub r x p w2 viaThrow) := by
  ne_unfold St.parentSub
macro_rules | `(tactic| ne1) => `(tactic| with_reducible apply NE.parentSub)

theorem NE.parentPlain {ve : Nat} {s t : St} (h : NE ve s t) (r : Nat) (x : Task) (p : Nat) (v : Option Nat) (viaThrow : Bool) :
    NE ve s (t.parentPlain r x p v viaThrow) := by
  ne_unfold St.parentPlain
macro_rules | `(tactic| ne1) => `(tactic| with_reducible apply NE.parentPlain)

theorem NE.onWaitEvent {ve : Nat} {s t : St} (h : NE ve s t) (w e : Nat) :
    NE ve s ((t.onWaitEvent w e).2) := by
  ne_unfold St.onWaitEvent
macro_rules | `(tactic| ne1) => `(tactic| with_reducible apply NE.onWaitEvent)

theorem NE.onWaitDone {ve : Nat} {s t : St} (h : NE ve s t) (w e : Nat) :
    NE ve s ((t.onWaitDone w e).2) := by
  ne_unfold St.onWaitDone
macro_rules | `(tactic| ne1) => `(tactic| with_reducible apply NE.onWaitDone)

theorem NE.onWaitTick {ve : Nat} {s t : St} (h : NE ve s t) (w : Nat) :
    NE ve s ((t.onWaitTick w).2) := by
  ne_unfold St.onWaitTick
macro_rules | `(tactic| ne1) => `(tactic| with_reducible apply NE.onWaitTick)

theorem NE.onFallbackGE {ve : Nat} {s t : St} (h : NE ve s t) (e : Nat) :
    NE ve s ((t.onFallbackGE e).2) := by
  ne_unfold St.onFallbackGE
macro_rules | `(tactic| ne1) => `(tactic| with_reducible apply NE.onFallbackGE)

theorem NE.computeHandlers {ve : Nat} {s t : St} (h : NE ve s t) (r : Nat) (name : Name) (chans : List Chan) :
    NE ve s ((t.computeHandlers r name chans).2) := by
  ne_unfold St.computeHandlers
macro_rules | `(tactic| ne1) => `(tactic| with_reducible apply NE.computeHandlers)

theorem NE.dispComplete {ve : Nat} {s t : St} (h : NE ve s t) (e : Nat) (ev : Ev) :
    NE ve s (t.dispComplete e ev) := by
  ne_unfold St.dispComplete
macro_rules | `(tactic| ne1) => `(tactic| with_reducible apply NE.dispComplete)

theorem NE.cacheRefresh {ve : Nat} {s t : St} (h : NE ve s t) (r : Nat) :
    NE ve s (t.cacheRefresh r) := by
  ne_unfold St.cacheRefresh
macro_rules | `(tactic| ne1) => `(tactic| with_reducible apply NE.cacheRefresh)

theorem NE.lookupHandlers {ve : Nat} {s t : St} (h : NE ve s t) (r : Nat) (name : Name) (chans : List Chan) :
    NE ve s ((t.lookupHandlers r name chans).2) := by
  ne_unfold St.lookupHandlers
macro_rules | `(tactic| ne1) => `(tactic| with_reducible apply NE.lookupHandlers)

theorem NE.dispGE {ve : Nat} {s t : St} (h : NE ve s t) (r e remaining : Nat) (name : Name) :
    NE ve s (t.dispGE r e remaining name) := by
  ne_unfold St.dispGE
macro_rules | `(tactic| ne1) => `(tactic| with_reducible apply NE.dispGE)

theorem NE.dispatchPre {ve : Nat} {s t : St} (h : NE ve s t) (r e remaining : Nat) :
    NE ve s ((t.dispatchPre r e remaining).2) := by
  ne_unfold St.dispatchPre
macro_rules | `(tactic| ne1) => `(tactic| with_reducible apply NE.dispatchPre)

/-- `handlerRaised r e` raises `errors` of `e` only -/
theorem NE.handlerRaised_other {ve : Nat} {s t : St} (r e : Nat) (hne : e ≠ ve) (h : NE ve s t) :
    NE ve s (t.handlerRaised r e) := by
  ne_unfold St.handlerRaised
macro_rules | `(tactic| ne1) => `(tactic| ((with_reducible apply NE.handlerRaised_other); assumption))

theorem NE.applyValue {ve : Nat} {s t : St} (h : NE ve s t) (r e : Nat) (value : Outcome) :
    NE ve s (t.applyValue r e value) := by
  ne_unfold St.applyValue
macro_rules | `(tactic| ne1) => `(tactic| with_reducible apply NE.applyValue)

theorem NE.geTasksCheck {ve : Nat} {s t : St} (h : NE ve s t) (r e : Nat) :
    NE ve s (t.geTasksCheck r e) := by
  ne_unfold St.geTasksCheck
macro_rules | `(tactic| ne1) => `(tactic| with_reducible apply NE.geTasksCheck)

theorem NE.flushBegin {ve : Nat} {s t : St} (h : NE ve s t) (r : Nat) :
    NE ve s (t.flushBegin r) := by
  ne_unfold St.flushBegin
macro_rules | `(tactic| ne1) => `(tactic| with_reducible apply NE.flushBegin)

theorem NE.tickGenerate {ve : Nat} {s t : St} (h : NE ve s t) (c : Nat) :
    NE ve s (t.tickGenerate c) := by
  ne_unfold St.tickGenerate
macro_rules | `(tactic| ne1) => `(tactic| with_reducible apply NE.tickGenerate)

theorem NE.runBegin {ve : Nat} {s t : St} (h : NE ve s t) (c : Nat) :
    NE ve s (t.runBegin c) := by
  ne_unfold St.runBegin
macro_rules | `(tactic| ne1) => `(tactic| with_reducible apply NE.runBegin)

theorem NE.runEnd {ve : Nat} {s t : St} (h : NE ve s t) (c : Nat) :
    NE ve s ((t.runEnd c).2) := by
  ne_unfold St.runEnd
macro_rules | `(tactic| ne1) => `(tactic| with_reducible apply NE.runEnd)

theorem NE.actStep {ve : Nat} {s t : St} (h : NE ve s t) (ctx : HCtx) (a : Act) : NE ve s (actStep t ctx a).st := by
  cases a <;> (unfold CV.Core.actStep; (try dsimp only); ne)
macro_rules | `(tactic| ne1) => `(tactic| with_reducible apply NE.actStep)

/-! ## the arms of `step` -/

macro_rules
  | `(tactic| ne1) => `(tactic| simp only [Cfg.pop_st, Cfg.popRet_st, Cfg.raise_st, Cfg.goto_st])

theorem Cfg.effectDone_ne {ve : Nat} (c : Cfg) (k : List Frame) (r e : Nat) (announce : Bool) :
    NE ve c.st (c.effectDone k r e announce).st := by
  unfold Cfg.effectDone; (try dsimp only); ne
macro_rules | `(tactic| ne1) => `(tactic| with_reducible exact Cfg.effectDone_ne ..)

theorem Cfg.eventDone_ne {ve : Nat} (c : Cfg) (k : List Frame) (r e : Nat) (err : Bool) :
    NE ve c.st (c.eventDone k r e err).st := by
  unfold Cfg.eventDone; (try dsimp only); ne
macro_rules | `(tactic| ne1) => `(tactic| with_reducible exact Cfg.eventDone_ne ..)

theorem NE.updateRootAll {ve : Nat} (s : St) : ∀ (fuel : Nat) (todo : List Nat) (root : Nat) (t : St),
    NE ve s t → NE ve s (St.updateRootAll fuel todo root t) := by
  intro fuel
  induction fuel with
  | zero => intro todo root t h; simpa [St.updateRootAll] using h
  | succ n ih =>
    intro todo root t h
    cases todo with
    | nil => simpa [St.updateRootAll] using h
    | cons x rest =>
      simp only [St.updateRootAll]
      apply ih
      ne

macro_rules | `(tactic| ne1) => `(tactic| with_reducible apply NE.updateRootAll)

theorem Cfg.updateRoot_ne {ve : Nat} (c : Cfg) (k : List Frame) (todo : List Nat) (root : Nat) :
    NE ve c.st (c.updateRoot k todo root).st := by
  unfold Cfg.updateRoot; (try dsimp only)
  simp only [Cfg.pop_st]
  exact NE.updateRootAll _ _ _ _ _ (NE.refl _)
macro_rules | `(tactic| ne1) => `(tactic| with_reducible exact Cfg.updateRoot_ne ..)

theorem Cfg.register_ne {ve : Nat} (c : Cfg) (k : List Frame) (x p : Nat) :
    NE ve c.st (c.register k x p).st := by
  unfold Cfg.register; (try dsimp only); ne
macro_rules | `(tactic| ne1) => `(tactic| with_reducible exact Cfg.register_ne ..)

theorem Cfg.registerFin_ne {ve : Nat} (c : Cfg) (k : List Frame) (x : Nat) :
    NE ve c.st (c.registerFin k x).st := by
  unfold Cfg.registerFin; (try dsimp only); ne
macro_rules | `(tactic| ne1) => `(tactic| with_reducible exact Cfg.registerFin_ne ..)

theorem Cfg.prepUnregFin_ne {ve : Nat} (c : Cfg) (k : List Frame) (x : Nat) :
    NE ve c.st (c.prepUnregFin k x).st := by
  unfold Cfg.prepUnregFin; (try dsimp only); ne
macro_rules | `(tactic| ne1) => `(tactic| with_reducible exact Cfg.prepUnregFin_ne ..)

theorem Cfg.stopMgr_ne {ve : Nat} (c : Cfg) (k : List Frame) (x : Nat) (code : Code) :
    NE ve c.st (c.stopMgr k x code).st := by
  unfold Cfg.stopMgr; (try dsimp only); ne
macro_rules | `(tactic| ne1) => `(tactic| with_reducible exact Cfg.stopMgr_ne ..)

theorem Cfg.ticks_ne {ve : Nat} (c : Cfg) (k : List Frame) (x n : Nat) :
    NE ve c.st (c.ticks k x n).st := by
  unfold Cfg.ticks; (try dsimp only); ne
macro_rules | `(tactic| ne1) => `(tactic| with_reducible exact Cfg.ticks_ne ..)

theorem Cfg.stopFin_ne {ve : Nat} (c : Cfg) (k : List Frame) (code : Code) :
    NE ve c.st (c.stopFin k code).st := by
  unfold Cfg.stopFin; (try dsimp only); ne
macro_rules | `(tactic| ne1) => `(tactic| with_reducible exact Cfg.stopFin_ne ..)

theorem Cfg.timerNew_ne {ve : Nat} (c : Cfg) (k : List Frame) (i : Nat) :
    NE ve c.st (c.timerNew k i).st := by
  unfold Cfg.timerNew; (try dsimp only); ne
macro_rules | `(tactic| ne1) => `(tactic| with_reducible exact Cfg.timerNew_ne ..)

theorem Cfg.acts_ne {ve : Nat} (c : Cfg) (k : List Frame) (ctx : HCtx) (prog : Prog) :
    NE ve c.st (c.acts k ctx prog).st := by
  unfold Cfg.acts; (try dsimp only); ne
macro_rules | `(tactic| ne1) => `(tactic| with_reducible exact Cfg.acts_ne ..)

theorem Cfg.doFin_ne {ve : Nat} (c : Cfg) (k : List Frame) (x : Nat) :
    NE ve c.st (c.doFin k x).st := by
  unfold Cfg.doFin; (try dsimp only); ne
macro_rules | `(tactic| ne1) => `(tactic| with_reducible exact Cfg.doFin_ne ..)

theorem Cfg.drainQ_ne {ve : Nat} (c : Cfg) (k : List Frame) (x : Nat) :
    NE ve c.st (c.drainQ k x).st := by
  unfold Cfg.drainQ; (try dsimp only); ne
macro_rules | `(tactic| ne1) => `(tactic| with_reducible exact Cfg.drainQ_ne ..)

theorem Cfg.stepGen_ne {ve : Nat} (c : Cfg) (k : List Frame) (g : Nat) :
    NE ve c.st (c.stepGen k g).st := by
  unfold Cfg.stepGen; (try dsimp only); ne
macro_rules | `(tactic| ne1) => `(tactic| with_reducible exact Cfg.stepGen_ne ..)

theorem Cfg.processTask_ne {ve : Nat} (c : Cfg) (k : List Frame) (r : Nat) (x : Task) :
    NE ve c.st (c.processTask k r x).st := by
  unfold Cfg.processTask; (try dsimp only); ne
macro_rules | `(tactic| ne1) => `(tactic| with_reducible exact Cfg.processTask_ne ..)

theorem Cfg.contStop_ne {ve : Nat} {s0 : St} (c : Cfg) (k : List Frame) (s : St) (r : Nat) (x : Task) (hle : NE ve s0 s) :
    NE ve s0 (c.contStop k s r x).st := by
  unfold Cfg.contStop; (try dsimp only); ne
macro_rules | `(tactic| ne1) => `(tactic| with_reducible apply Cfg.contStop_ne)

theorem Cfg.contError_ne {ve : Nat} {s0 : St} (c : Cfg) (k : List Frame) (s : St) (r : Nat) (x : Task) (resumed : Bool)
    (hne : x.e ≠ ve) (hle : NE ve s0 s) :
    NE ve s0 (c.contError k s r x resumed).st := by
  unfold Cfg.contError; (try dsimp only); ne
macro_rules | `(tactic| ne1) => `(tactic| ((with_reducible apply Cfg.contError_ne); assumption))

theorem Cfg.ptBodyWait_ne {ve : Nat} (c : Cfg) (k : List Frame) (r : Nat) (x : Task) (w : Nat) (hne : x.e ≠ ve) :
    NE ve c.st (c.ptBodyWait k r x w).st := by
  unfold Cfg.ptBodyWait; (try dsimp only); ne
macro_rules | `(tactic| ne1) => `(tactic| ((with_reducible apply Cfg.ptBodyWait_ne); assumption))

theorem Cfg.ptBodyExc_ne {ve : Nat} (c : Cfg) (k : List Frame) (r : Nat) (x : Task) (w : Nat) (fired : Bool)
    (hne : x.e ≠ ve ∨ fired = true) :
    NE ve c.st (c.ptBodyExc k r x w fired).st := by
  cases hne with
  | inl hne => unfold Cfg.ptBodyExc; (try dsimp only); ne
  | inr hf => subst hf; unfold Cfg.ptBodyExc; (try dsimp only); rw [if_pos rfl]; ne
macro_rules | `(tactic| ne1) => `(tactic| ((with_reducible apply Cfg.ptBodyExc_ne); exact Or.inl (by assumption)))

theorem Cfg.ptBody_ne {ve : Nat} (c : Cfg) (k : List Frame) (r : Nat) (x : Task)
    (hne : ¬ raiseFrame ve c (.ptBody r x)) :
    NE ve c.st (c.ptBody k r x).st := by
  by_cases hx : x.e = ve
  · unfold Cfg.ptBody
    split
    · ne
    · rename_i w heq
      exact absurd (show raiseFrame ve c (.ptBody r x) from ⟨hx, by rw [heq]; trivial⟩) hne
    · rename_i w fired heq
      have hf : fired = true := by
        cases fired with
        | true => rfl
        | false => exact absurd (show raiseFrame ve c (.ptBody r x) from ⟨hx, by rw [heq]⟩) hne
      exact Cfg.ptBodyExc_ne c k r x w fired (Or.inr hf)
    · ne
    · ne
  · unfold Cfg.ptBody; (try dsimp only); ne
macro_rules | `(tactic| ne1) => `(tactic| ((with_reducible apply Cfg.ptBody_ne); assumption))

theorem Cfg.ptOwn_ne {ve : Nat} (c : Cfg) (k : List Frame) (r : Nat) (x : Task)
    (hne : ¬ raiseFrame ve c (.ptOwn r x)) :
    NE ve c.st (c.ptOwn k r x).st := by
  by_cases hx : x.e = ve
  · have hr : c.ret.yield ≠ .raised := fun h => hne ⟨hx, h⟩
    unfold Cfg.ptOwn
    split <;> first | (rename_i heq; exact absurd heq hr) | ne
  · unfold Cfg.ptOwn; (try dsimp only); ne
macro_rules | `(tactic| ne1) => `(tactic| ((with_reducible apply Cfg.ptOwn_ne); assumption))

theorem Cfg.ptParent_ne {ve : Nat} (c : Cfg) (k : List Frame) (r : Nat) (x : Task) (p : Nat) (viaThrow : Bool)
    (hne : ¬ raiseFrame ve c (.ptParent r x p viaThrow)) :
    NE ve c.st (c.ptParent k r x p viaThrow).st := by
  by_cases hx : x.e = ve
  · have hr : c.ret.yield ≠ .raised := fun h => hne ⟨hx, h⟩
    unfold Cfg.ptParent
    split <;> first | (rename_i heq; exact absurd heq hr) | ne
  · unfold Cfg.ptParent; (try dsimp only); ne
macro_rules | `(tactic| ne1) => `(tactic| ((with_reducible apply Cfg.ptParent_ne); assumption))

theorem Cfg.ptFin_ne {ve : Nat} (c : Cfg) (k : List Frame) (r : Nat) (handling : Option Nat) :
    NE ve c.st (c.ptFin k r handling).st := by
  unfold Cfg.ptFin; (try dsimp only); ne
macro_rules | `(tactic| ne1) => `(tactic| with_reducible exact Cfg.ptFin_ne ..)

theorem Cfg.dispatcher_ne {ve : Nat} (c : Cfg) (k : List Frame) (r e remaining : Nat) :
    NE ve c.st (c.dispatcher k r e remaining).st := by
  unfold Cfg.dispatcher; (try dsimp only); ne
macro_rules | `(tactic| ne1) => `(tactic| with_reducible exact Cfg.dispatcher_ne ..)

theorem Cfg.hLoop_ne {ve : Nat} (c : Cfg) (k : List Frame) (r e : Nat) (hs : List Nat) (err : Bool) (stale : Outcome) :
    NE ve c.st (c.hLoop k r e hs err stale).st := by
  unfold Cfg.hLoop; (try dsimp only); ne
macro_rules | `(tactic| ne1) => `(tactic| with_reducible exact Cfg.hLoop_ne ..)

theorem Cfg.invokeUser_ne {ve : Nat} {s0 : St} (c : Cfg) (k : List Frame) (s : St) (h e owner p : Nat) (hle : NE ve s0 s) :
    NE ve s0 (c.invokeUser k s h e owner p).st := by
  unfold Cfg.invokeUser; (try dsimp only); ne
macro_rules | `(tactic| ne1) => `(tactic| with_reducible apply Cfg.invokeUser_ne)

theorem Cfg.invoke_ne {ve : Nat} (c : Cfg) (k : List Frame) (r h e : Nat) :
    NE ve c.st (c.invoke k r h e).st := by
  unfold Cfg.invoke; (try dsimp only); ne
macro_rules | `(tactic| ne1) => `(tactic| with_reducible exact Cfg.invoke_ne ..)

theorem Cfg.invokeFin_ne {ve : Nat} (c : Cfg) (k : List Frame) (e h : Nat) :
    NE ve c.st (c.invokeFin k e h).st := by
  unfold Cfg.invokeFin; (try dsimp only); ne
macro_rules | `(tactic| ne1) => `(tactic| with_reducible exact Cfg.invokeFin_ne ..)

theorem Cfg.hAfter_ne {ve : Nat} (c : Cfg) (k : List Frame) (r e : Nat) (rest : List Nat) (err : Bool) (stale : Outcome)
    (hne : ¬ raiseFrame ve c (.hAfter r e rest err stale)) :
    NE ve c.st (c.hAfter k r e rest err stale).st := by
  by_cases hx : e = ve
  · have hr : c.ret.outcome ≠ .raised := fun h => hne ⟨hx, h⟩
    unfold Cfg.hAfter
    split <;> first | (rename_i heq; exact absurd heq hr) | ne
  · unfold Cfg.hAfter; (try dsimp only); ne
macro_rules | `(tactic| ne1) => `(tactic| ((with_reducible apply Cfg.hAfter_ne); assumption))

theorem Cfg.hApply_ne {ve : Nat} (c : Cfg) (k : List Frame) (r e : Nat) (rest : List Nat) (err : Bool) (value : Outcome) :
    NE ve c.st (c.hApply k r e rest err value).st := by
  unfold Cfg.hApply; (try dsimp only); ne
macro_rules | `(tactic| ne1) => `(tactic| with_reducible exact Cfg.hApply_ne ..)

theorem Cfg.dispFin_ne {ve : Nat} (c : Cfg) (k : List Frame) (r e : Nat) (err : Bool) :
    NE ve c.st (c.dispFin k r e err).st := by
  unfold Cfg.dispFin; (try dsimp only); ne
macro_rules | `(tactic| ne1) => `(tactic| with_reducible exact Cfg.dispFin_ne ..)

theorem Cfg.dispatchLoop_ne {ve : Nat} (c : Cfg) (k : List Frame) (r : Nat) :
    NE ve c.st (c.dispatchLoop k r).st := by
  unfold Cfg.dispatchLoop; (try dsimp only); ne
macro_rules | `(tactic| ne1) => `(tactic| with_reducible exact Cfg.dispatchLoop_ne ..)

theorem Cfg.flush_ne {ve : Nat} (c : Cfg) (k : List Frame) (x : Nat) :
    NE ve c.st (c.flush k x).st := by
  unfold Cfg.flush; (try dsimp only); ne
macro_rules | `(tactic| ne1) => `(tactic| with_reducible exact Cfg.flush_ne ..)

theorem Cfg.flushFin_ne {ve : Nat} (c : Cfg) (k : List Frame) (r : Nat) (old : Bool) :
    NE ve c.st (c.flushFin k r old).st := by
  unfold Cfg.flushFin; (try dsimp only); ne
macro_rules | `(tactic| ne1) => `(tactic| with_reducible exact Cfg.flushFin_ne ..)

theorem Cfg.tick_ne {ve : Nat} (c : Cfg) (k : List Frame) (x : Nat) :
    NE ve c.st (c.tick k x).st := by
  unfold Cfg.tick; (try dsimp only); ne
macro_rules | `(tactic| ne1) => `(tactic| with_reducible exact Cfg.tick_ne ..)

theorem Cfg.taskLoop_ne {ve : Nat} (c : Cfg) (k : List Frame) (x : Nat) (ts : List Task) :
    NE ve c.st (c.taskLoop k x ts).st := by
  unfold Cfg.taskLoop; (try dsimp only); ne
macro_rules | `(tactic| ne1) => `(tactic| with_reducible exact Cfg.taskLoop_ne ..)

theorem Cfg.tickFin_ne {ve : Nat} (c : Cfg) (k : List Frame) (x : Nat) (old : Bool) :
    NE ve c.st (c.tickFin k x old).st := by
  unfold Cfg.tickFin; (try dsimp only); ne
macro_rules | `(tactic| ne1) => `(tactic| with_reducible exact Cfg.tickFin_ne ..)

theorem Cfg.tickGen_ne {ve : Nat} (c : Cfg) (k : List Frame) (x : Nat) :
    NE ve c.st (c.tickGen k x).st := by
  unfold Cfg.tickGen; (try dsimp only); ne
macro_rules | `(tactic| ne1) => `(tactic| with_reducible exact Cfg.tickGen_ne ..)

theorem Cfg.run_ne {ve : Nat} (c : Cfg) (k : List Frame) (x : Nat) :
    NE ve c.st (c.run k x).st := by
  unfold Cfg.run; (try dsimp only); ne
macro_rules | `(tactic| ne1) => `(tactic| with_reducible exact Cfg.run_ne ..)

theorem Cfg.runLoop_ne {ve : Nat} (c : Cfg) (k : List Frame) (x : Nat) :
    NE ve c.st (c.runLoop k x).st := by
  unfold Cfg.runLoop; (try dsimp only); ne
macro_rules | `(tactic| ne1) => `(tactic| with_reducible exact Cfg.runLoop_ne ..)

theorem Cfg.runFin_ne {ve : Nat} (c : Cfg) (k : List Frame) (x : Nat) :
    NE ve c.st (c.runFin k x).st := by
  unfold Cfg.runFin; (try dsimp only); ne
macro_rules | `(tactic| ne1) => `(tactic| with_reducible exact Cfg.runFin_ne ..)

theorem Cfg.runCatchExn_ne {ve : Nat} (c : Cfg) (k : List Frame) (x : Nat) (ex : Exn) :
    NE ve c.st (c.runCatchExn k x ex).st := by
  unfold Cfg.runCatchExn; (try dsimp only); ne
macro_rules | `(tactic| ne1) => `(tactic| with_reducible exact Cfg.runCatchExn_ne ..)

theorem Cfg.runRethrow_ne {ve : Nat} (c : Cfg) (k : List Frame) (ex : Exn) :
    NE ve c.st (c.runRethrow k ex).st := by
  unfold Cfg.runRethrow; (try dsimp only); ne
macro_rules | `(tactic| ne1) => `(tactic| with_reducible exact Cfg.runRethrow_ne ..)

/-! ## the transition function -/

theorem stepFrame_ne {ve : Nat} (c : Cfg) (k : List Frame) (f : Frame) (hne : ¬ raiseFrame ve c f) :
    NE ve c.st (stepFrame c k f).st := by
  cases f <;> (dsimp only [stepFrame]; ne)

theorem unwind_ne {ve : Nat} (c : Cfg) (k : List Frame) (ex : Exn) (f : Frame) : NE ve c.st (unwind c k ex f).st := by
  cases f <;> (dsimp only [unwind]; ne)

/-- a step that is not a raise-handling step of `ve` sets no `errors` flag on `ve` -/
theorem step_ne (ve : Nat) (c : Cfg) (h : ¬ RaiseStep ve c) : NE ve c.st (step c).st := by
  cases hs : c.stack with
  | nil => rw [step_nil c hs]; exact NE.refl _
  | cons f k =>
    cases hx : c.exn with
    | some ex => rw [step_cons_exn c f k ex hs hx]; exact unwind_ne ..
    | none =>
      rw [step_cons c f k hs hx]
      exact stepFrame_ne c k f (fun hr => h ⟨hx, f, k, hs, hr⟩)

end CV.Core

import CV.Model.ClassTable
import CV.Proofs.CoreMatch
/-
Helper lemmas for the class layer of C01 (CV/Model/ClassTable.lean): association-list lookups,
the instance dict after `__new__`, attribute lookup through the MRO, membership in
`effectiveHandlers`, the MRO table, and the tables of `newComponent`.
-/
namespace CV.ClassTable
open CV.Core

/-! ### generic list facts -/

theorem nodup_eraseDups' {α} [BEq α] [LawfulBEq α] : ∀ (n : Nat) (l : List α), l.length ≤ n → l.eraseDups.Nodup := by
  intro n
  induction n with
  | zero =>
    intro l hl
    have : l = [] := List.length_eq_zero_iff.mp (Nat.le_zero.mp hl)
    subst this; simp
  | succ n ih =>
    intro l hl
    cases l with
    | nil => simp
    | cons a as =>
      rw [List.eraseDups_cons]
      have hlen : (as.filter fun b => !b == a).length ≤ n := by
        have := List.length_filter_le (fun b => !b == a) as
        simp only [List.length_cons] at hl; omega
      refine List.nodup_cons.mpr ⟨?_, ih _ hlen⟩
      intro hmem
      have := (List.mem_eraseDups.mp hmem)
      simp at this

theorem lookup_eq_some_iff {β} (k : Str) (v : β) : ∀ (l : List (Str × β)),
    l.lookup k = some v ↔ ∃ pre post, l = pre ++ (k, v) :: post ∧ ∀ p ∈ pre, p.1 ≠ k := by
  intro l
  induction l with
  | nil => simp
  | cons p l ih =>
    obtain ⟨a, b⟩ := p
    by_cases hk : k = a
    · subst hk
      simp only [List.lookup_cons_self]
      constructor
      · intro h
        cases h
        exact ⟨[], l, rfl, by simp⟩
      · rintro ⟨pre, post, heq, hpre⟩
        cases pre with
        | nil => simp at heq; rw [heq.1]
        | cons q pre =>
          simp only [List.cons_append, List.cons.injEq] at heq
          have := hpre q (by simp)
          rw [← heq.1] at this
          exact absurd rfl this
    · have hne : (k == a) = false := by simpa using hk
      rw [List.lookup_cons, hne, ih]
      constructor
      · rintro ⟨pre, post, heq, hpre⟩
        refine ⟨(a, b) :: pre, post, by simp [heq], ?_⟩
        intro p hp
        rcases List.mem_cons.mp hp with rfl | hp
        · exact fun h => hk h.symm
        · exact hpre p hp
      · rintro ⟨pre, post, heq, hpre⟩
        cases pre with
        | nil =>
          simp only [List.nil_append, List.cons.injEq, Prod.mk.injEq] at heq
          exact absurd heq.1.1.symm hk
        | cons q pre =>
          simp only [List.cons_append, List.cons.injEq] at heq
          exact ⟨pre, post, heq.2, fun p hp => hpre p (by simp [hp])⟩

theorem lookup_eq_none_iff {β} (k : Str) : ∀ (l : List (Str × β)),
    l.lookup k = none ↔ ∀ p ∈ l, p.1 ≠ k := by
  intro l
  induction l with
  | nil => simp
  | cons p l ih =>
    obtain ⟨a, b⟩ := p
    by_cases hk : k = a
    · subst hk; simp
    · have hne : (k == a) = false := by simpa using hk
      rw [List.lookup_cons, hne, ih]
      simp only [List.mem_cons, forall_eq_or_imp]
      exact ⟨fun h => ⟨fun e => hk e.symm, h⟩, fun h => h.2⟩

theorem lookup_mem {β} (k : Str) (v : β) (l : List (Str × β)) (h : l.lookup k = some v) : (k, v) ∈ l := by
  obtain ⟨pre, post, heq, _⟩ := (lookup_eq_some_iff k v l).mp h
  rw [heq]; simp

/-! ### the instance dict: last write wins -/

/-- `(k, f)` is the last `setattr` of name `k` in the sequence `w` -/
def LastWrite (w : List (Str × Fn)) (k : Str) (f : Fn) : Prop :=
  ∃ pre post, w = pre ++ (k, f) :: post ∧ ∀ p ∈ post, p.1 ≠ k

theorem instLookup_eq_some_iff (w : List (Str × Fn)) (k : Str) (f : Fn) :
    instLookup w k = some f ↔ LastWrite w k f := by
  unfold instLookup LastWrite
  rw [lookup_eq_some_iff]
  constructor
  · rintro ⟨pre, post, heq, hpre⟩
    refine ⟨post.reverse, pre.reverse, ?_, fun p hp => hpre p (List.mem_reverse.mp hp)⟩
    have := congrArg List.reverse heq
    simpa using this
  · rintro ⟨pre, post, heq, hpost⟩
    refine ⟨post.reverse, pre.reverse, ?_, fun p hp => hpost p (List.mem_reverse.mp hp)⟩
    rw [heq]; simp

theorem instLookup_eq_none_iff (w : List (Str × Fn)) (k : Str) :
    instLookup w k = none ↔ ∀ p ∈ w, p.1 ≠ k := by
  unfold instLookup
  rw [lookup_eq_none_iff]
  simp

theorem LastWrite.mem {w : List (Str × Fn)} {k : Str} {f : Fn} (h : LastWrite w k f) : (k, f) ∈ w := by
  obtain ⟨pre, post, heq, _⟩ := h
  rw [heq]; simp

/-- with pairwise different names every write is the last one of its name -/
theorem lastWrite_of_nodup {w : List (Str × Fn)} (hn : (w.map (·.1)).Nodup) {k : Str} {f : Fn}
    (h : (k, f) ∈ w) : LastWrite w k f := by
  obtain ⟨pre, post, heq⟩ := List.append_of_mem h
  refine ⟨pre, post, heq, ?_⟩
  intro p hp hk
  rw [heq] at hn
  simp only [List.map_append, List.map_cons] at hn
  have h2 := (List.nodup_append.mp hn).2.1
  have h3 := (List.nodup_cons.mp h2).1
  exact h3 (List.mem_map.mpr ⟨p, hp, hk⟩)

/-! ### lookup through the MRO -/

/-- `b` is the first class of `l` whose own dict has the name `k`, with value `a` -/
def VisibleIn (cs : Classes) (l : List Str) (b k : Str) (a : Attr) : Prop :=
  ∃ pre post, l = pre ++ b :: post ∧ (∀ x ∈ pre, ownLookup cs x k = none) ∧ ownLookup cs b k = some a

theorem classLookup_eq_some_iff (cs : Classes) (k : Str) (f : Fn) : ∀ (l : List Str),
    classLookup cs l k = some f ↔ ∃ b a, VisibleIn cs l b k a ∧ f = ⟨b, k, a⟩ := by
  intro l
  induction l with
  | nil =>
    simp only [classLookup, VisibleIn]
    constructor
    · intro h; cases h
    · rintro ⟨b, a, ⟨pre, post, heq, _⟩, _⟩
      cases pre <;> simp at heq
  | cons x l ih =>
    unfold classLookup
    cases hx : ownLookup cs x k with
    | some a =>
      simp only
      constructor
      · intro h
        cases h
        exact ⟨x, a, ⟨[], l, rfl, by simp, hx⟩, rfl⟩
      · rintro ⟨b, a', ⟨pre, post, heq, hpre, hb⟩, rfl⟩
        cases pre with
        | nil =>
          simp only [List.nil_append, List.cons.injEq] at heq
          obtain ⟨rfl, _⟩ := heq
          rw [hx] at hb; cases hb; rfl
        | cons q pre =>
          simp only [List.cons_append, List.cons.injEq] at heq
          have := hpre q (by simp)
          rw [← heq.1, hx] at this
          cases this
    | none =>
      simp only
      rw [ih]
      constructor
      · rintro ⟨b, a, ⟨pre, post, heq, hpre, hb⟩, rfl⟩
        refine ⟨b, a, ⟨x :: pre, post, by simp [heq], ?_, hb⟩, rfl⟩
        intro y hy
        rcases List.mem_cons.mp hy with rfl | hy
        · exact hx
        · exact hpre y hy
      · rintro ⟨b, a, ⟨pre, post, heq, hpre, hb⟩, rfl⟩
        cases pre with
        | nil =>
          simp only [List.nil_append, List.cons.injEq] at heq
          obtain ⟨rfl, _⟩ := heq
          rw [hx] at hb; cases hb
        | cons q pre =>
          simp only [List.cons_append, List.cons.injEq] at heq
          exact ⟨b, a, ⟨pre, post, heq.2, fun y hy => hpre y (by simp [hy]), hb⟩, rfl⟩

theorem VisibleIn.mem {cs : Classes} {l : List Str} {b k : Str} {a : Attr} (h : VisibleIn cs l b k a) :
    b ∈ l ∧ (k, a) ∈ ownDict cs b := by
  obtain ⟨pre, post, heq, _, hb⟩ := h
  exact ⟨by rw [heq]; simp, lookup_mem k a _ hb⟩

/-! ### `__new__` -/

/-- the base's own handler `k` is copied to the instance: `b` is a direct base, `k` is a handler in `b`'s own
    dict, and the instantiated class has no own handler `k` with `override=True` -/
def CopiedFrom (cs : Classes) (c b k : Str) (i : HInfo) : Prop :=
  b ∈ basesOf cs c ∧ (k, Attr.handler i) ∈ ownDict cs b ∧ overridden cs c k = false

theorem mem_copies_iff (cs : Classes) (c : Str) (n : Str) (f : Fn) :
    (n, f) ∈ copies cs c ↔ ∃ b k i, CopiedFrom cs c b k i ∧ n = copyName b k ∧ f = ⟨b, k, .handler i⟩ := by
  unfold copies CopiedFrom
  simp only [List.mem_flatMap, List.mem_filterMap]
  constructor
  · rintro ⟨b, hb, ⟨k, a⟩, hka, hc⟩
    unfold copyOf at hc
    cases a with
    | handler i =>
      simp only at hc
      by_cases ho : overridden cs c k = true
      · simp [ho] at hc
      · simp only [ho] at hc
        simp only [Bool.false_eq_true, ↓reduceIte, Option.some.injEq, Prod.mk.injEq] at hc
        exact ⟨b, k, i, ⟨hb, hka, by simpa using ho⟩, hc.1.symm, hc.2.symm⟩
    | callable => simp at hc
    | data => simp at hc
  · rintro ⟨b, k, i, ⟨hb, hka, ho⟩, rfl, rfl⟩
    exact ⟨b, hb, (k, .handler i), hka, by simp [copyOf, ho]⟩

/-! ### `getattr` and `effectiveHandlers` -/

theorem getAttr_eq_some_iff (cs : Classes) (c n : Str) (f : Fn) :
    getAttr cs c n = some f ↔
      LastWrite (copies cs c) n f ∨
      ((∀ p ∈ copies cs c, p.1 ≠ n) ∧ ∃ b a, VisibleIn cs (mro cs c) b n a ∧ f = ⟨b, n, a⟩) := by
  unfold getAttr
  cases h : instLookup (copies cs c) n with
  | some g =>
    simp only [Option.some.injEq]
    have hg := (instLookup_eq_some_iff _ _ _).mp h
    constructor
    · rintro rfl; exact Or.inl hg
    · rintro (hl | ⟨hno, _⟩)
      · have := (instLookup_eq_some_iff _ _ _).mpr hl
        rw [h] at this; cases this; rfl
      · exact absurd rfl (hno _ hg.mem)
  | none =>
    simp only
    have hno := (instLookup_eq_none_iff _ _).mp h
    rw [classLookup_eq_some_iff]
    constructor
    · intro hv; exact Or.inr ⟨hno, hv⟩
    · rintro (hl | ⟨_, hv⟩)
      · exact absurd rfl (hno _ hl.mem)
      · exact hv

theorem getAttr_name_mem (cs : Classes) (c n : Str) (f : Fn) (h : getAttr cs c n = some f) :
    n ∈ attrNames cs c := by
  unfold attrNames
  rcases (getAttr_eq_some_iff cs c n f).mp h with hl | ⟨_, b, a, hv, _⟩
  · exact List.mem_append_left _ (List.mem_map.mpr ⟨(n, f), hl.mem, rfl⟩)
  · have := hv.mem
    exact List.mem_append_right _ (List.mem_flatMap.mpr ⟨b, this.1, List.mem_map.mpr ⟨(n, a), this.2, rfl⟩⟩)

theorem mem_effective (cs : Classes) (c : Str) (r : HandlerRecord) :
    r ∈ effectiveHandlers cs c ↔ ∃ n f, getAttr cs c n = some f ∧ f.record? = some r := by
  unfold effectiveHandlers memberFns
  simp only [List.mem_eraseDups, List.mem_filterMap]
  constructor
  · rintro ⟨f, ⟨n, _, hn⟩, hr⟩; exact ⟨n, f, hn, hr⟩
  · rintro ⟨n, f, hn, hr⟩; exact ⟨f, ⟨n, getAttr_name_mem cs c n f hn, hn⟩, hr⟩

theorem record?_eq_some_iff (f : Fn) (r : HandlerRecord) :
    f.record? = some r ↔ ∃ i, f.attr = .handler i ∧ r = mkRecord f.cls f.meth i := by
  unfold Fn.record?
  cases f.attr with
  | handler i => simp [eq_comm]
  | callable => simp
  | data => simp

/-! ### the MRO table -/

theorem linearizeFrom_inv (P : Str × List Str → Prop)
    (hnew : ∀ acc d l, mroFor acc d = some l → P (d.name, l)) :
    ∀ (cs : Classes) (acc t : MroTable), linearizeFrom acc cs = some t → (∀ p ∈ acc, P p) → ∀ p ∈ t, P p := by
  intro cs
  induction cs with
  | nil => intro acc t h hacc; simp only [linearizeFrom, Option.some.injEq] at h; subst h; exact hacc
  | cons d ds ih =>
    intro acc t h hacc
    unfold linearizeFrom at h
    cases hm : mroFor acc d with
    | none => rw [hm] at h; cases h
    | some l =>
      rw [hm] at h
      refine ih _ t h ?_
      intro p hp
      rcases List.mem_append.mp hp with hp | hp
      · exact hacc p hp
      · simp only [List.mem_singleton] at hp; subst hp; exact hnew acc d l hm

theorem mroFor_head (acc : MroTable) (d : ClassDecl) (l : List Str) (h : mroFor acc d = some l) :
    ∃ rest, l = d.name :: rest := by
  unfold mroFor at h
  split at h
  · cases h
  · split at h
    · cases h
    · simp only [Option.map_eq_some_iff] at h
      obtain ⟨rest, _, rfl⟩ := h
      exact ⟨rest, rfl⟩

/-- a class is the head of its own MRO -/
theorem mro_head (cs : Classes) (c : Str) (h : mro cs c ≠ []) : ∃ rest, mro cs c = c :: rest := by
  unfold mro at h ⊢
  cases hl : linearize cs with
  | none => simp [hl] at h
  | some t =>
    simp only [Option.bind_some] at h ⊢
    cases hk : t.lookup c with
    | none => rw [hl] at h; simp [hk] at h
    | some l =>
      simp only [Option.getD_some]
      have hmem := lookup_mem c l t hk
      have := linearizeFrom_inv (fun p => ∃ rest, p.2 = p.1 :: rest)
        (fun acc d l hm => mroFor_head acc d l hm) cs builtinMros t hl
        (by intro p hp; simp only [builtinMros, List.mem_cons, List.not_mem_nil, or_false] at hp
            rcases hp with rfl | rfl
            · exact ⟨[], rfl⟩
            · exact ⟨[bcName], rfl⟩) (c, l) hmem
      exact this

/-! ### tables of `newComponent` -/

theorem mem_tableOf (E : Enc) (base : Nat) (key : HKey) (h : Nat) : ∀ (recs : List HandlerRecord) (j : Nat),
    (key, h) ∈ tableOf E base j recs ↔ ∃ i r, recs[i]? = some r ∧ h = base + (j + i) ∧ (key, h) ∈ htabRows E r h := by
  intro recs
  induction recs with
  | nil => intro j; simp [tableOf]
  | cons r rs ih =>
    intro j
    simp only [tableOf, List.mem_append, ih]
    constructor
    · rintro (hm | ⟨i, r', hi, rfl, hm⟩)
      · have hh : h = base + j := by
          unfold htabRows at hm
          split at hm
          · split at hm
            · cases hm
            · simp only [List.mem_singleton, Prod.mk.injEq] at hm; exact hm.2
          · simp only [List.mem_map, Prod.mk.injEq] at hm
            obtain ⟨_, _, _, rfl⟩ := hm; rfl
        subst hh
        exact ⟨0, r, by simp, by simp, hm⟩
      · exact ⟨i + 1, r', by simpa using hi, by omega, hm⟩
    · rintro ⟨i, r', hi, rfl, hm⟩
      cases i with
      | zero =>
        simp only [List.getElem?_cons_zero, Option.some.injEq] at hi
        subst hi
        left; simpa using hm
      | succ i =>
        right
        exact ⟨i, r', by simpa using hi, by omega, hm⟩

theorem mem_globalsOf (base : Nat) (h : Nat) : ∀ (recs : List HandlerRecord) (j : Nat),
    h ∈ globalsOf base j recs ↔ ∃ i r, recs[i]? = some r ∧ h = base + (j + i) ∧ r.names = [] ∧ r.chan = some star := by
  intro recs
  induction recs with
  | nil => intro j; simp [globalsOf]
  | cons r rs ih =>
    intro j
    simp only [globalsOf, List.mem_append, ih]
    constructor
    · rintro (hm | ⟨i, r', hi, rfl, hm⟩)
      · unfold globalRows at hm
        split at hm
        · rename_i hc
          simp only [List.mem_singleton] at hm
          simp only [Bool.and_eq_true, List.isEmpty_iff, beq_iff_eq] at hc
          exact ⟨0, r, by simp, by simpa using hm, hc.1, hc.2⟩
        · cases hm
      · exact ⟨i + 1, r', by simpa using hi, by omega, hm⟩
    · rintro ⟨i, r', hi, rfl, hm⟩
      cases i with
      | zero =>
        simp only [List.getElem?_cons_zero, Option.some.injEq] at hi
        subst hi
        left
        simp [globalRows, hm.1, hm.2]
      | succ i =>
        right
        exact ⟨i, r', by simpa using hi, by omega, hm⟩

end CV.ClassTable

namespace CV.ClassTable

/-! ### C3: every merged sequence is a subsequence of the result -/

theorem dropHead_sublist (h : Str) (s l : List Str) (hs : (dropHead h s).Sublist l) : s.Sublist (h :: l) := by
  cases s with
  | nil => exact List.nil_sublist _
  | cons x t =>
    unfold dropHead at hs
    by_cases hx : x = h
    · subst hx
      simp only [beq_self_eq_true, ↓reduceIte] at hs
      exact List.Sublist.cons_cons _ hs
    · have : (x == h) = false := by simpa using hx
      simp only [this, Bool.false_eq_true, ↓reduceIte] at hs
      exact List.Sublist.cons _ hs

theorem merge_sublist : ∀ (fuel : Nat) (seqs : List (List Str)) (l : List Str),
    merge fuel seqs = some l → ∀ s ∈ seqs, s.Sublist l := by
  intro fuel
  induction fuel with
  | zero =>
    intro seqs l h s hs
    unfold merge at h
    split at h
    · rename_i hall
      have := List.all_eq_true.mp hall s hs
      simp only [List.isEmpty_iff] at this
      subst this; exact List.nil_sublist _
    · cases h
  | succ fuel ih =>
    intro seqs l h s hs
    unfold merge at h
    split at h
    · rename_i hall
      have := List.all_eq_true.mp hall s hs
      simp only [List.isEmpty_iff] at this
      subst this; exact List.nil_sublist _
    · split at h
      · cases h
      · rename_i x hp
        simp only [Option.map_eq_some_iff] at h
        obtain ⟨l', hl', rfl⟩ := h
        exact dropHead_sublist x s l' (ih _ l' hl' _ (List.mem_map.mpr ⟨s, hs, rfl⟩))

theorem mapM_lookup {acc : MroTable} : ∀ (bs : List Str) (ms : List (List Str)),
    bs.mapM (acc.lookup ·) = some ms → ∀ b ∈ bs, ∃ m ∈ ms, acc.lookup b = some m := by
  intro bs
  induction bs with
  | nil => intro ms _ b hb; cases hb
  | cons a bs ih =>
    intro ms h b hb
    rw [List.mapM_cons] at h
    cases ha : acc.lookup a with
    | none => rw [ha] at h; cases h
    | some m0 =>
      rw [ha] at h
      cases hr : bs.mapM (acc.lookup ·) with
      | none => rw [hr] at h; cases h
      | some ms0 =>
        rw [hr] at h
        cases h
        rcases List.mem_cons.mp hb with rfl | hb
        · exact ⟨m0, by simp, ha⟩
        · obtain ⟨m, hm, hl⟩ := ih ms0 hr b hb
          exact ⟨m, by simp [hm], hl⟩

/-- what one class statement guarantees about the MRO it computes -/
theorem mroFor_spec (acc : MroTable) (d : ClassDecl) (l : List Str) (h : mroFor acc d = some l) :
    acc.lookup d.name = none ∧ ∃ rest, l = d.name :: rest ∧ d.bases.Sublist rest ∧
      ∀ b ∈ d.bases, ∃ m, acc.lookup b = some m ∧ m.Sublist rest := by
  unfold mroFor at h
  split at h
  · cases h
  · rename_i hc
    simp only [Bool.or_eq_true, Option.isSome_iff_ne_none, ne_eq, List.isEmpty_iff, not_or, Decidable.not_not] at hc
    split at h
    · cases h
    · rename_i ms hms
      simp only [Option.map_eq_some_iff] at h
      obtain ⟨rest, hmerge, rfl⟩ := h
      refine ⟨hc.1, rest, rfl, merge_sublist _ _ _ hmerge _ (by simp), ?_⟩
      intro b hb
      obtain ⟨m, hm, hl⟩ := mapM_lookup d.bases ms hms b hb
      exact ⟨m, hl, merge_sublist _ _ _ hmerge _ (by simp [hm])⟩

theorem lookup_append_some {β} (k : Str) (v : β) (l l' : List (Str × β)) (h : l.lookup k = some v) :
    (l ++ l').lookup k = some v := by
  obtain ⟨pre, post, heq, hpre⟩ := (lookup_eq_some_iff k v l).mp h
  exact (lookup_eq_some_iff k v _).mpr ⟨pre, post ++ l', by simp [heq], hpre⟩

theorem lookup_append_none {β} (k : Str) (v : β) (l : List (Str × β)) (h : l.lookup k = none) :
    (l ++ [(k, v)]).lookup k = some v :=
  (lookup_eq_some_iff k v _).mpr ⟨l, [], rfl, (lookup_eq_none_iff k l).mp h⟩

/-- later class statements do not change the MRO of an earlier class -/
theorem linearizeFrom_stable : ∀ (cs : Classes) (acc t : MroTable), linearizeFrom acc cs = some t →
    ∀ k v, acc.lookup k = some v → t.lookup k = some v := by
  intro cs
  induction cs with
  | nil => intro acc t h k v hk; simp only [linearizeFrom, Option.some.injEq] at h; subst h; exact hk
  | cons d ds ih =>
    intro acc t h k v hk
    unfold linearizeFrom at h
    cases hm : mroFor acc d with
    | none => rw [hm] at h; cases h
    | some l =>
      rw [hm] at h
      exact ih _ t h k v (lookup_append_some k v _ _ hk)

/-- the final table satisfies C3's guarantees for every executed class statement -/
theorem linearizeFrom_spec : ∀ (cs : Classes) (acc t : MroTable), linearizeFrom acc cs = some t →
    ∀ d ∈ cs, ∃ rest, t.lookup d.name = some (d.name :: rest) ∧ d.bases.Sublist rest ∧
      ∀ b ∈ d.bases, ∃ m, t.lookup b = some m ∧ m.Sublist rest := by
  intro cs
  induction cs with
  | nil => intro acc t _ d hd; cases hd
  | cons d0 ds ih =>
    intro acc t h d hd
    unfold linearizeFrom at h
    cases hm : mroFor acc d0 with
    | none => rw [hm] at h; cases h
    | some l =>
      rw [hm] at h
      rcases List.mem_cons.mp hd with rfl | hd
      · obtain ⟨hnone, rest, rfl, hb, hbs⟩ := mroFor_spec acc d l hm
        refine ⟨rest, linearizeFrom_stable ds _ t h _ _ (lookup_append_none _ _ _ hnone), hb, ?_⟩
        intro b hbm
        obtain ⟨m, hl, hs⟩ := hbs b hbm
        exact ⟨m, linearizeFrom_stable ds _ t h _ _ (lookup_append_some _ _ _ _ hl), hs⟩
      · exact ih _ t h d hd

end CV.ClassTable

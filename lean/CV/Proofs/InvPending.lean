import CV.Proofs.InvForest
import CV.Proofs.InvEffects
/-
Helper lemmas for C07 `pending_resolves_partial` / `complete_dispatch_detaches`:
  * the detach step clears `_unregister_pending` of the detached component;
  * the `_effectDone` iteration that reaches 0 logs the `fire` of the `_complete` child;
  * `guardB` (Bool version of C05's `Guard`) and `ReachG.runN` for concrete guarded runs.
-/
namespace CV.Core
open CV.Core.C05

theorem fireContext_comp (s : St) (r e d : Nat) : (s.fireContext r e).comp d = s.comp d := by
  unfold St.fireContext; dsimp only; repeat' split
  all_goals rfl

theorem fireRaw_pending (s : St) (self e : Nat) (chans : List Chan) (prio : Int) (d : Nat) :
    ((s.fireRaw self e chans prio).comp d).pending = (s.comp d).pending := by
  unfold St.fireRaw
  dsimp only
  show ((St.modComp _ _ _).comp d).pending = _
  rw [St.f7comp_modComp]
  split
  · show ((St.fireContext _ _ _).comp d).pending = _
    rw [fireContext_comp]; rfl
  · rw [fireContext_comp]; rfl

theorem fireTmplEv_pending (s : St) (self : Nat) (ev : Ev) (target : Option Chan) (prio : Int) (d : Nat) :
    ((s.fireTmplEv self ev target prio).comp d).pending = (s.comp d).pending := by
  unfold St.fireTmplEv
  dsimp only
  rw [fireRaw_pending]
  rfl

theorem updateRootAll_pending : ∀ (fuel : Nat) (todo : List Nat) (root : Nat) (s : St) (d : Nat),
    ((St.updateRootAll fuel todo root s).comp d).pending = (s.comp d).pending := by
  intro fuel
  induction fuel with
  | zero => intro todo root s d; rfl
  | succ n ih =>
    intro todo root s d
    cases todo with
    | nil => rfl
    | cons x rest =>
      rw [St.updateRootAll_cons, ih, St.f7comp_modComp]
      split <;> rfl

theorem puA_pending (s : St) (o : Nat) (ho : o < s.comps.length) : ((puA s o).comp o).pending = false := by
  unfold puA
  rw [fireTmplEv_pending, St.f7comp_modComp_self _ _ _ ho]

theorem prepUnregPre_pending (s : St) (o : Nat) (ho : o < s.comps.length) :
    ((s.prepUnregPre o).comp o).pending = false := by
  rw [St.prepUnregPre_eq]
  split
  · simp only [puB, St.f7comp_modComp]
    repeat' split
    all_goals exact puA_pending s o ho
  · exact puA_pending s o ho
/-- `_effectDone` reaching 0 for a complete-requesting event logs exactly the `fire` of its
    `_complete` child, on `complete_channels` -/
theorem effectDone1_complete_log (s : St) (r e P : Nat) (hc : (s.ev e).cause = some P)
    (hz : ¬ ((s.ev e).effects - 1 > 0)) (hcomp : (s.ev e).complete = true) :
    (s.effectDone1 r e true).2.log =
      Entry.fire s.evs.length ((s.ev e).name.child sfxComplete)
        ((s.ev e).completeChans.getD (s.ev e).chans) 0 :: s.log := by
  have hfc : ∀ (t : St) (self p sfx : Nat) (chans : List Chan),
      (t.fireChild self p sfx chans).log = Entry.fire t.evs.length ((t.ev p).name.child sfx) chans 0 :: t.log := by
    intro t self p sfx chans
    unfold St.fireChild St.childEv
    rw [St.fireRaw_log, St.f7ev_addEv_new]
    rfl
  unfold St.effectDone1
  simp only [hc, if_neg hz, hcomp, Bool.and_self, if_true]
  have key : ∀ (f g : Ev → Ev) (hf : ∀ x, (f x).name = x.name),
      (((s.modEv e f).fireChild r e sfxComplete ((s.ev e).completeChans.getD (s.ev e).chans)).modEv e g).log =
      Entry.fire s.evs.length ((s.ev e).name.child sfxComplete)
        ((s.ev e).completeChans.getD (s.ev e).chans) 0 :: s.log := by
    intro f g hf
    show ((s.modEv e f).fireChild r e sfxComplete _).log = _
    rw [hfc, St.ev_modEv_name s e e f hf]
    have hl : (s.modEv e f).evs.length = s.evs.length := by unfold St.modEv; simp
    rw [hl]
    rfl
  split
  · exact key _ _ (fun _ => rfl)
  · exact key _ _ (fun _ => rfl)


/-! ## concrete guarded runs -/

/-- Bool version of `Guard` (quantifier over the event table) -/
def guardB (c : Cfg) : Bool :=
  match c.exn, c.stack with
  | none, .dispatcher _ e _ :: _ =>
    !((c.st.ev e).cancelled || (c.st.ev e).complete) ||
      (!(c.st.ev e).selfDone && (List.range c.st.evs.length).all (fun x => x == e || (c.st.ev x).cause != some e))
  | none, .eventDone _ e _ :: _ =>
    !(decide ((c.st.ev e).waiting = 0) && (c.st.ev e).cause.isSome) || !(c.st.ev e).selfDone
  | _, _ => true

theorem guard_of_B (c : Cfg) (h : guardB c = true) : Guard c := by
  intro hx
  unfold guardB at h
  cases hst : c.stack with
  | nil => trivial
  | cons f k =>
    rw [hx, hst] at h
    cases f
    case dispatcher r e rem =>
      intro hcc
      simp only [Bool.or_eq_true, Bool.not_eq_true', Bool.or_eq_false_iff, Bool.and_eq_true,
        List.all_eq_true, List.mem_range, beq_iff_eq, bne_iff_ne, ne_eq] at h
      rcases h with ⟨h1, h2⟩ | ⟨h1, h2⟩
      · rcases hcc with hcc | hcc
        · rw [hcc] at h1; cases h1
        · rw [hcc] at h2; cases h2
      · refine ⟨h1, ?_⟩
        intro x hxe hcause
        by_cases hlt : x < c.st.evs.length
        · rcases h2 x hlt with h3 | h3
          · exact hxe h3
          · exact h3 hcause
        · have : c.st.ev x = dfltEv := by
            unfold St.ev
            simp [List.getD_eq_getElem?_getD, List.getElem?_eq_none (Nat.le_of_not_lt hlt)]
          rw [this] at hcause
          cases hcause
    case eventDone r e err =>
      intro hw hc
      simp only [Bool.or_eq_true, Bool.not_eq_true', Bool.and_eq_false_iff, decide_eq_false_iff_not] at h
      rcases h with (h1 | h1) | h1
      · exact absurd hw h1
      · cases hcs : (c.st.ev e).cause with
        | none => exact absurd hcs hc
        | some P => rw [hcs] at h1; cases h1
      · exact h1
    all_goals trivial

/-- `n` guarded steps -/
theorem ReachG.runN {s0 : St} (n : Nat) : ∀ {c : Cfg}, ReachG s0 c →
    (∀ i, i < n → guardB (CV.Core.runN i c) = true) → ReachG s0 (CV.Core.runN n c) := by
  induction n with
  | zero => intro c h _; exact h
  | succ n ih =>
    intro c h hall
    show ReachG s0 (if done c then c else CV.Core.runN n (CV.Core.step c))
    split
    · exact h
    · rename_i hd
      have hstep : ∀ i, CV.Core.runN (i + 1) c = CV.Core.runN i (CV.Core.step c) := by
        intro i; show (if done c then c else CV.Core.runN i (CV.Core.step c)) = _; rw [if_neg hd]
      refine ih (.step h (guard_of_B c (hall 0 (Nat.succ_pos _)))) ?_
      intro i hi
      have := hall (i + 1) (by omega)
      rw [hstep] at this
      exact this

end CV.Core

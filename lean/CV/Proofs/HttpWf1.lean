import CV.Proofs.HttpParse
import CV.Model.HttpSpec
/-
Helper lemmas for C13 `wellformed_*` (1/3): the declarative notions of the RFC-derived spec
(`occurs`, `splitLine`, `trailerExact`) against the parser model's `find`, `trailersDone`,
`trailerRest`.
-/
namespace CV
namespace Http

theorem wf13_find_here (pat rest : Bytes) (hp : pat ≠ []) : find pat (pat ++ rest) = some 0 := by
  cases hpr : pat ++ rest with
  | nil =>
    have := (List.append_eq_nil_iff.mp hpr).1
    exact absurd this hp
  | cons a r =>
    unfold find
    have : (a :: r).take pat.length = pat := by rw [← hpr]; simp
    simp [this]

/-- if `pat` does not occur in `a` followed by all but the last byte of `pat`, the first
    occurrence of `pat` in `a ++ pat ++ rest` is at `a.length` -/
theorem wf13_find_at (pat a rest : Bytes) (hp : pat ≠ [])
    (h : occurs pat (a ++ pat.dropLast) = false) :
    find pat (a ++ (pat ++ rest)) = some a.length := by
  induction a with
  | nil => simpa using wf13_find_here pat rest hp
  | cons b a' ih =>
    simp only [List.cons_append] at h ⊢
    unfold occurs at h
    simp only [Bool.or_eq_false_iff] at h
    obtain ⟨h1, h2⟩ := h
    have hlen : pat.length ≤ (b :: (a' ++ pat.dropLast)).length := by
      simp only [List.length_cons, List.length_append, List.length_dropLast]
      have : 0 < pat.length := List.length_pos_iff.mpr hp
      omega
    have hne : ¬ (b :: (a' ++ (pat ++ rest))).take pat.length = pat := by
      intro heq
      have e : b :: (a' ++ (pat ++ rest)) =
          (b :: (a' ++ pat.dropLast)) ++ (pat.getLast hp :: rest) := by
        have := List.dropLast_concat_getLast hp
        calc b :: (a' ++ (pat ++ rest))
            = b :: (a' ++ ((pat.dropLast ++ [pat.getLast hp]) ++ rest)) := by rw [this]
          _ = _ := by simp
      rw [e, List.take_append_of_le_length hlen] at heq
      rw [heq] at h1
      simp at h1
    unfold find
    simp [hne, ih h2]

theorem wf13_find_crlf (fl rest : Bytes) (h : occurs CRLF (fl ++ [13]) = false) :
    find CRLF (fl ++ (CRLF ++ rest)) = some fl.length :=
  wf13_find_at CRLF fl rest (by simp [CRLF]) h

theorem wf13_find_crlf2 (hb rest : Bytes) (h : occurs CRLF2 (hb ++ [13, 10, 13]) = false) :
    find CRLF2 (hb ++ (CRLF2 ++ rest)) = some hb.length :=
  wf13_find_at CRLF2 hb rest (by simp [CRLF2]) h

/-- `splitLine` cuts at the first CRLF that `find` reports -/
theorem wf13_splitLine {x l t : Bytes} (h : splitLine x = some (l, t)) :
    x = l ++ (CRLF ++ t) ∧ find CRLF x = some l.length := by
  induction x using splitLine.induct generalizing l t with
  | case1 => simp [splitLine] at h
  | case2 => simp [splitLine] at h
  | case3 a b r hab =>
    simp [splitLine, hab] at h
    obtain ⟨rfl, rfl⟩ := h
    obtain ⟨rfl, rfl⟩ := hab
    exact ⟨rfl, by simp [find, CRLF]⟩
  | case4 a b r hab l' t' hs ih =>
    simp [splitLine, hab, hs] at h
    obtain ⟨rfl, rfl⟩ := h
    obtain ⟨e, f⟩ := ih hs
    refine ⟨by rw [e]; rfl, ?_⟩
    have hne : ¬ (a :: b :: r).take CRLF.length = CRLF := by
      simp only [CRLF, List.length_cons, List.length_nil, List.take_succ_cons, List.take_zero]
      intro hh
      injection hh with h1 h2
      injection h2 with h2 _
      exact hab ⟨h1, h2⟩
    unfold find
    simp [hne, f]
  | case5 a b r hab hs => simp [splitLine, hab, hs] at h

theorem wf13_splitLine_take {x l t : Bytes} (h : splitLine x = some (l, t)) :
    x.take l.length = l ∧ x.drop (l.length + 2) = t := by
  obtain ⟨e, _⟩ := wf13_splitLine h
  subst e
  refine ⟨by simp, ?_⟩
  rw [← List.drop_drop]
  simp [CRLF]

/-- exactly one trailer section: the parser's test succeeds and nothing is left over -/
theorem wf13_trailer {t : Bytes} (h : trailerExact t = true) :
    trailersDone t = true ∧ trailerRest t = [] := by
  unfold trailerExact at h
  simp only [Bool.or_eq_true, Bool.and_eq_true, beq_iff_eq, bne_iff_ne, ne_eq, decide_eq_true_eq,
    Bool.not_eq_true'] at h
  rcases h with h | ⟨⟨⟨h1, h2⟩, h3⟩, h4⟩
  · subst h
    exact ⟨by decide, by decide⟩
  · have e : t = t.take (t.length - 4) ++ (CRLF2 ++ []) := by
      rw [List.append_nil, ← h2, List.take_append_drop]
    have hdl : t.dropLast = t.take (t.length - 4) ++ CRLF2.dropLast := by
      have := List.dropLast_append_of_ne_nil (l' := t.take (t.length - 4)) (l := CRLF2) (by simp [CRLF2])
      rw [← this, ← h2, List.take_append_drop]
    rw [hdl] at h4
    have hf := wf13_find_at CRLF2 (t.take (t.length - 4)) [] (by simp [CRLF2]) h4
    rw [← e] at hf
    have hl : (t.take (t.length - 4)).length = t.length - 4 := by
      rw [List.length_take]; omega
    rw [hl] at hf
    refine ⟨by simp [trailersDone, hf], ?_⟩
    simp only [trailerRest, h1, if_false, hf]
    apply List.drop_eq_nil_of_le
    omega

end Http
end CV

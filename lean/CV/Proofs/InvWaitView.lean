import CV.Proofs.InvWaitMono
/-
C06, global layer, part 2: the VIEW of a state (everything the wait-protocol invariant reads:
handler records, wait states, generators, per-component handler tables and task sets,
programs) and the relation `St.W6V s s'` = "same w6_view".  Most helpers and most arms of `step`
do not change the w6_view; the generated part of this file proves that once.
-/
namespace CV.Core

/-- the fields of a wait state the handler-table invariant reads -/
structure W6WH where
  owner : Nat
  evName : Name
  timeout : Int
  run : Bool
  flag : Bool
  event : Option Nat
  hEvent : Nat
  hDone : Nat
  hTick : Option Nat
  started : Bool

/-- the fields of a wait state the task / generator invariant reads -/
structure W6WG where
  task : Nat
  parentGen : Nat
  flag : Bool
  started : Bool

def WaitSt.w6h (x : WaitSt) : W6WH := ⟨x.owner, x.evName, x.timeout, x.run, x.flag, x.event, x.hEvent, x.hDone, x.hTick, x.started⟩
def WaitSt.w6g (x : WaitSt) : W6WG := ⟨x.task, x.parentGen, x.flag, x.started⟩

structure W6View where
  nh : Nat
  handler : Nat → Handler
  nw : Nat
  wh : Nat → W6WH
  wg : Nat → W6WG
  ng : Nat
  gen : Nat → GenRec
  htab : Nat → List (HKey × Nat)
  tasks : Nat → List Task
  progs : List Prog

def St.w6_view (s : St) : W6View :=
  ⟨s.hs.length, s.handler, s.waits.length, fun w => (s.wait w).w6h, fun w => (s.wait w).w6g, s.gens.length, s.gen,
   fun c => (s.comp c).htab, fun c => (s.comp c).tasks, s.progs⟩

/-- same w6_view -/
def St.W6V (s s' : St) : Prop := s'.w6_view = s.w6_view

namespace St.W6V
theorem refl (s : St) : St.W6V s s := rfl
theorem trans {a b c : St} (h1 : St.W6V a b) (h2 : St.W6V b c) : St.W6V a c := Eq.trans h2 h1

theorem modComp_self (t : St) (c : Nat) (f : Comp → Comp) (h1 : ∀ x, (f x).htab = x.htab)
    (h2 : ∀ x, (f x).tasks = x.tasks) : St.W6V t (t.modComp c f) := by
  unfold St.W6V St.w6_view
  congr 1
  · funext c'; exact St.w6_modComp_comp_pres t (·.htab) c f h1 c'
  · funext c'; exact St.w6_modComp_comp_pres t (·.tasks) c f h2 c'
theorem modEv_self (t : St) (c : Nat) (f : Ev → Ev) : St.W6V t (t.modEv c f) := rfl
theorem modTimer_self (t : St) (c : Nat) (f : TimerSt → TimerSt) : St.W6V t (t.modTimer c f) := rfl
theorem tick1_self (t : St) (d : Int) : St.W6V t (t.tick1 d) := rfl
theorem logE_self (t : St) (x : Entry) : St.W6V t (t.logE x) := rfl
theorem addEv_self (t : St) (x : Ev) : St.W6V t (t.addEv x) := rfl

variable {s t : St}
theorem modComp (h : St.W6V s t) (c : Nat) (f : Comp → Comp) (h1 : ∀ x, (f x).htab = x.htab)
    (h2 : ∀ x, (f x).tasks = x.tasks) : St.W6V s (t.modComp c f) := h.trans (modComp_self _ _ _ h1 h2)
theorem modEv (h : St.W6V s t) (c : Nat) (f : Ev → Ev) : St.W6V s (t.modEv c f) := h.trans (modEv_self ..)
theorem modTimer (h : St.W6V s t) (c : Nat) (f : TimerSt → TimerSt) : St.W6V s (t.modTimer c f) := h.trans (modTimer_self ..)
theorem tick1 (h : St.W6V s t) (d : Int) : St.W6V s (t.tick1 d) := h.trans (tick1_self ..)
theorem logE (h : St.W6V s t) (x : Entry) : St.W6V s (t.logE x) := h.trans (logE_self ..)
theorem addEv (h : St.W6V s t) (x : Ev) : St.W6V s (t.addEv x) := h.trans (addEv_self ..)
end St.W6V

syntax "w6st_v1" : tactic
macro_rules | `(tactic| w6st_v1) => `(tactic| split)
macro_rules | `(tactic| w6st_v1) => `(tactic| with_reducible apply St.W6V.tick1)
macro_rules | `(tactic| w6st_v1) => `(tactic| with_reducible apply St.W6V.addEv)
macro_rules | `(tactic| w6st_v1) => `(tactic| with_reducible apply St.W6V.logE)
macro_rules | `(tactic| w6st_v1) => `(tactic| with_reducible apply St.W6V.modTimer)
macro_rules | `(tactic| w6st_v1) => `(tactic| with_reducible apply St.W6V.modEv)
macro_rules | `(tactic| w6st_v1) => `(tactic| with_reducible apply St.W6V.modComp)
macro_rules | `(tactic| w6st_v1) => `(tactic| (intro _; rfl))
macro_rules | `(tactic| w6st_v1) => `(tactic| with_reducible assumption)
macro_rules | `(tactic| w6st_v1) => `(tactic| with_reducible exact St.W6V.refl _)

macro "w6st_v" : tactic => `(tactic| repeat' w6st_v1)
macro "w6st_v_unfold" ids:ident+ : tactic => `(tactic| (unfold $[$ids]*; (try dsimp only); w6st_v))

/-! ## helpers of `Pure.lean` -/

/-- a `foldl` of steps that each respect `Le` respects `Le` -/
theorem St.W6V.foldl {s t : St} {α} (g : St → α → St) (hg : ∀ a x, St.W6V s a → St.W6V s (g a x)) (l : List α)
    (h : St.W6V s t) : St.W6V s (l.foldl g t) := by
  induction l generalizing t with
  | nil => exact h
  | cons x l ih => exact ih (hg _ _ h)

theorem St.W6V.fireContext {s t : St} (h : St.W6V s t) (r e : Nat) :
    St.W6V s (t.fireContext r e) := by
  w6st_v_unfold St.fireContext
macro_rules | `(tactic| w6st_v1) => `(tactic| with_reducible apply St.W6V.fireContext)

theorem St.W6V.fireRaw {s t : St} (h : St.W6V s t) (self e : Nat) (chans : List Chan) (prio : Int) :
    St.W6V s (t.fireRaw self e chans prio) := by
  w6st_v_unfold St.fireRaw
macro_rules | `(tactic| w6st_v1) => `(tactic| with_reducible apply St.W6V.fireRaw)

theorem St.W6V.childEv {s t : St} (h : St.W6V s t) (p sfx : Nat) :
    St.W6V s (t.childEv p sfx) := by
  w6st_v_unfold St.childEv
macro_rules | `(tactic| w6st_v1) => `(tactic| with_reducible apply St.W6V.childEv)

theorem St.W6V.fireChild {s t : St} (h : St.W6V s t) (self p sfx : Nat) (chans : List Chan) :
    St.W6V s (t.fireChild self p sfx chans) := by
  w6st_v_unfold St.fireChild
macro_rules | `(tactic| w6st_v1) => `(tactic| with_reducible apply St.W6V.fireChild)

theorem St.W6V.inform {s t : St} (h : St.W6V s t) (e : Nat) (force : Bool) :
    St.W6V s (t.inform e force) := by
  w6st_v_unfold St.inform
macro_rules | `(tactic| w6st_v1) => `(tactic| with_reducible apply St.W6V.inform)

theorem St.W6V.setValue {s t : St} (h : St.W6V s t) (e : Nat) (x : VItem) :
    St.W6V s (t.setValue e x) := by
  w6st_v_unfold St.setValue
macro_rules | `(tactic| w6st_v1) => `(tactic| with_reducible apply St.W6V.setValue)

theorem St.W6V.fireTmplEv {s t : St} (h : St.W6V s t) (self : Nat) (ev : Ev) (target : Option Chan) (prio : Int) :
    St.W6V s (t.fireTmplEv self ev target prio) := by
  w6st_v_unfold St.fireTmplEv
macro_rules | `(tactic| w6st_v1) => `(tactic| with_reducible apply St.W6V.fireTmplEv)

theorem St.W6V.effectDone1 {s t : St} (h : St.W6V s t) (r e : Nat) (announce : Bool) :
    St.W6V s ((t.effectDone1 r e announce).2) := by
  w6st_v_unfold St.effectDone1
macro_rules | `(tactic| w6st_v1) => `(tactic| with_reducible apply St.W6V.effectDone1)

theorem St.W6V.eventDonePre {s t : St} (h : St.W6V s t) (r e : Nat) (err : Bool) :
    St.W6V s ((t.eventDonePre r e err).2) := by
  w6st_v_unfold St.eventDonePre
macro_rules | `(tactic| w6st_v1) => `(tactic| with_reducible apply St.W6V.eventDonePre)

theorem St.W6V.reduceTimeLeft {s t : St} (h : St.W6V s t) (e : Nat) (d : Int) :
    St.W6V s (t.reduceTimeLeft e d) := by
  w6st_v_unfold St.reduceTimeLeft
macro_rules | `(tactic| w6st_v1) => `(tactic| with_reducible apply St.W6V.reduceTimeLeft)

theorem St.W6V.registerPre {s t : St} (h : St.W6V s t) (c p : Nat) :
    St.W6V s ((t.registerPre c p).2) := by
  w6st_v_unfold St.registerPre
macro_rules | `(tactic| w6st_v1) => `(tactic| with_reducible apply St.W6V.registerPre)

theorem St.W6V.registerFin {s t : St} (h : St.W6V s t) (c : Nat) :
    St.W6V s (t.registerFin c) := by
  w6st_v_unfold St.registerFin
macro_rules | `(tactic| w6st_v1) => `(tactic| with_reducible apply St.W6V.registerFin)

theorem St.W6V.unregister {s t : St} (h : St.W6V s t) (c : Nat) :
    St.W6V s (t.unregister c) := by
  w6st_v_unfold St.unregister
macro_rules | `(tactic| w6st_v1) => `(tactic| with_reducible apply St.W6V.unregister)

theorem St.W6V.prepUnregPre {s t : St} (h : St.W6V s t) (c : Nat) :
    St.W6V s (t.prepUnregPre c) := by
  w6st_v_unfold St.prepUnregPre
macro_rules | `(tactic| w6st_v1) => `(tactic| with_reducible apply St.W6V.prepUnregPre)

theorem St.W6V.prepUnregFin {s t : St} (h : St.W6V s t) (c : Nat) :
    St.W6V s (t.prepUnregFin c) := by
  w6st_v_unfold St.prepUnregFin
macro_rules | `(tactic| w6st_v1) => `(tactic| with_reducible apply St.W6V.prepUnregFin)

theorem St.W6V.actFire {s t : St} (h : St.W6V s t) (self i : Nat) (target : Option Chan) (prio : Int) (cancel : Bool) :
    St.W6V s (t.actFire self i target prio cancel) := by
  w6st_v_unfold St.actFire
macro_rules | `(tactic| w6st_v1) => `(tactic| with_reducible apply St.W6V.actFire)

theorem St.W6V.actStopEv {s t : St} (h : St.W6V s t) (ev : Option Nat) :
    St.W6V s (t.actStopEv ev) := by
  w6st_v_unfold St.actStopEv
macro_rules | `(tactic| w6st_v1) => `(tactic| with_reducible apply St.W6V.actStopEv)

theorem St.W6V.timerReset {s t : St} (h : St.W6V s t) (i : Nat) :
    St.W6V s (t.timerReset i) := by
  w6st_v_unfold St.timerReset
macro_rules | `(tactic| w6st_v1) => `(tactic| with_reducible apply St.W6V.timerReset)

theorem St.W6V.timerCreate {s t : St} (h : St.W6V s t) (i : Nat) :
    St.W6V s (t.timerCreate i) := by
  w6st_v_unfold St.timerCreate
macro_rules | `(tactic| w6st_v1) => `(tactic| with_reducible apply St.W6V.timerCreate)

theorem St.W6V.timerTick {s t : St} (h : St.W6V s t) (i e : Nat) :
    St.W6V s (t.timerTick i e) := by
  w6st_v_unfold St.timerTick
macro_rules | `(tactic| w6st_v1) => `(tactic| with_reducible apply St.W6V.timerTick)

/-! ## pure pieces of `Step.lean` -/

theorem St.W6V.stopBegin {s t : St} (h : St.W6V s t) (c : Nat) :
    St.W6V s (t.stopBegin c) := by
  w6st_v_unfold St.stopBegin
macro_rules | `(tactic| w6st_v1) => `(tactic| with_reducible apply St.W6V.stopBegin)

theorem St.W6V.stopSetCode {s t : St} (h : St.W6V s t) (r : Nat) (code : Code) :
    St.W6V s (t.stopSetCode r code) := by
  w6st_v_unfold St.stopSetCode
macro_rules | `(tactic| w6st_v1) => `(tactic| with_reducible apply St.W6V.stopSetCode)

theorem St.W6V.fireException {s t : St} (h : St.W6V s t) (r e : Nat) :
    St.W6V s (t.fireException r e) := by
  w6st_v_unfold St.fireException
macro_rules | `(tactic| w6st_v1) => `(tactic| with_reducible apply St.W6V.fireException)

theorem St.W6V.setValueOpt {s t : St} (h : St.W6V s t) (e : Nat) (v : Option Nat) :
    St.W6V s (t.setValueOpt e v) := by
  w6st_v_unfold St.setValueOpt
macro_rules | `(tactic| w6st_v1) => `(tactic| with_reducible apply St.W6V.setValueOpt)

theorem St.W6V.onFallbackGE {s t : St} (h : St.W6V s t) (e : Nat) :
    St.W6V s ((t.onFallbackGE e).2) := by
  w6st_v_unfold St.onFallbackGE
macro_rules | `(tactic| w6st_v1) => `(tactic| with_reducible apply St.W6V.onFallbackGE)

theorem St.W6V.dispComplete {s t : St} (h : St.W6V s t) (e : Nat) (ev : Ev) :
    St.W6V s (t.dispComplete e ev) := by
  w6st_v_unfold St.dispComplete
macro_rules | `(tactic| w6st_v1) => `(tactic| with_reducible apply St.W6V.dispComplete)

theorem St.W6V.cacheRefresh {s t : St} (h : St.W6V s t) (r : Nat) :
    St.W6V s (t.cacheRefresh r) := by
  w6st_v_unfold St.cacheRefresh
macro_rules | `(tactic| w6st_v1) => `(tactic| with_reducible apply St.W6V.cacheRefresh)

theorem St.W6V.dispGE {s t : St} (h : St.W6V s t) (r e remaining : Nat) (name : Name) :
    St.W6V s (t.dispGE r e remaining name) := by
  w6st_v_unfold St.dispGE
macro_rules | `(tactic| w6st_v1) => `(tactic| with_reducible apply St.W6V.dispGE)

theorem St.W6V.handlerRaised {s t : St} (h : St.W6V s t) (r e : Nat) :
    St.W6V s (t.handlerRaised r e) := by
  w6st_v_unfold St.handlerRaised
macro_rules | `(tactic| w6st_v1) => `(tactic| with_reducible apply St.W6V.handlerRaised)

theorem St.W6V.geTasksCheck {s t : St} (h : St.W6V s t) (r e : Nat) :
    St.W6V s (t.geTasksCheck r e) := by
  w6st_v_unfold St.geTasksCheck
macro_rules | `(tactic| w6st_v1) => `(tactic| with_reducible apply St.W6V.geTasksCheck)

theorem St.W6V.flushBegin {s t : St} (h : St.W6V s t) (r : Nat) :
    St.W6V s (t.flushBegin r) := by
  w6st_v_unfold St.flushBegin
macro_rules | `(tactic| w6st_v1) => `(tactic| with_reducible apply St.W6V.flushBegin)

theorem St.W6V.tickGenerate {s t : St} (h : St.W6V s t) (c : Nat) :
    St.W6V s (t.tickGenerate c) := by
  w6st_v_unfold St.tickGenerate
macro_rules | `(tactic| w6st_v1) => `(tactic| with_reducible apply St.W6V.tickGenerate)

theorem St.W6V.runBegin {s t : St} (h : St.W6V s t) (c : Nat) :
    St.W6V s (t.runBegin c) := by
  w6st_v_unfold St.runBegin
macro_rules | `(tactic| w6st_v1) => `(tactic| with_reducible apply St.W6V.runBegin)

theorem St.W6V.runEnd {s t : St} (h : St.W6V s t) (c : Nat) :
    St.W6V s ((t.runEnd c).2) := by
  w6st_v_unfold St.runEnd
macro_rules | `(tactic| w6st_v1) => `(tactic| with_reducible apply St.W6V.runEnd)

/-! ## the arms of `step` -/

macro_rules
  | `(tactic| w6st_v1) => `(tactic| simp only [Cfg.pop_st, Cfg.popRet_st, Cfg.raise_st, Cfg.goto_st])
macro_rules | `(tactic| w6st_v1) => `(tactic| (intro _; first | rfl | trivial))

theorem Cfg.w6_effectDone_v (c : Cfg) (k : List Frame) (r e : Nat) (announce : Bool) :
    St.W6V c.st (c.effectDone k r e announce).st := by
  unfold Cfg.effectDone; (try dsimp only); w6st_v
macro_rules | `(tactic| w6st_v1) => `(tactic| with_reducible exact Cfg.w6_effectDone_v ..)

theorem Cfg.w6_eventDone_v (c : Cfg) (k : List Frame) (r e : Nat) (err : Bool) :
    St.W6V c.st (c.eventDone k r e err).st := by
  unfold Cfg.eventDone; (try dsimp only); w6st_v
macro_rules | `(tactic| w6st_v1) => `(tactic| with_reducible exact Cfg.w6_eventDone_v ..)

theorem St.W6V.updateRootAll (s : St) : ∀ (fuel : Nat) (todo : List Nat) (root : Nat) (t : St),
    St.W6V s t → St.W6V s (St.updateRootAll fuel todo root t) := by
  intro fuel
  induction fuel with
  | zero => intro todo root t h; simpa [St.updateRootAll] using h
  | succ n ih =>
    intro todo root t h
    cases todo with
    | nil => simpa [St.updateRootAll] using h
    | cons x rest =>
      simp only [St.updateRootAll]
      apply ih
      w6st_v

macro_rules | `(tactic| w6st_v1) => `(tactic| with_reducible apply St.W6V.updateRootAll)

theorem Cfg.w6_updateRoot_v (c : Cfg) (k : List Frame) (todo : List Nat) (root : Nat) :
    St.W6V c.st (c.updateRoot k todo root).st := by
  unfold Cfg.updateRoot; (try dsimp only)
  simp only [Cfg.pop_st]
  exact St.W6V.updateRootAll _ _ _ _ _ (St.W6V.refl _)
macro_rules | `(tactic| w6st_v1) => `(tactic| with_reducible exact Cfg.w6_updateRoot_v ..)

theorem Cfg.w6_register_v (c : Cfg) (k : List Frame) (x p : Nat) :
    St.W6V c.st (c.register k x p).st := by
  unfold Cfg.register; (try dsimp only); w6st_v
macro_rules | `(tactic| w6st_v1) => `(tactic| with_reducible exact Cfg.w6_register_v ..)

theorem Cfg.w6_registerFin_v (c : Cfg) (k : List Frame) (x : Nat) :
    St.W6V c.st (c.registerFin k x).st := by
  unfold Cfg.registerFin; (try dsimp only); w6st_v
macro_rules | `(tactic| w6st_v1) => `(tactic| with_reducible exact Cfg.w6_registerFin_v ..)

theorem Cfg.w6_prepUnregFin_v (c : Cfg) (k : List Frame) (x : Nat) :
    St.W6V c.st (c.prepUnregFin k x).st := by
  unfold Cfg.prepUnregFin; (try dsimp only); w6st_v
macro_rules | `(tactic| w6st_v1) => `(tactic| with_reducible exact Cfg.w6_prepUnregFin_v ..)

theorem Cfg.w6_stopMgr_v (c : Cfg) (k : List Frame) (x : Nat) (code : Code) :
    St.W6V c.st (c.stopMgr k x code).st := by
  unfold Cfg.stopMgr; (try dsimp only); w6st_v
macro_rules | `(tactic| w6st_v1) => `(tactic| with_reducible exact Cfg.w6_stopMgr_v ..)

theorem Cfg.w6_ticks_v (c : Cfg) (k : List Frame) (x n : Nat) :
    St.W6V c.st (c.ticks k x n).st := by
  unfold Cfg.ticks; (try dsimp only); w6st_v
macro_rules | `(tactic| w6st_v1) => `(tactic| with_reducible exact Cfg.w6_ticks_v ..)

theorem Cfg.w6_stopFin_v (c : Cfg) (k : List Frame) (code : Code) :
    St.W6V c.st (c.stopFin k code).st := by
  unfold Cfg.stopFin; (try dsimp only); w6st_v
macro_rules | `(tactic| w6st_v1) => `(tactic| with_reducible exact Cfg.w6_stopFin_v ..)

theorem Cfg.w6_timerNew_v (c : Cfg) (k : List Frame) (i : Nat) :
    St.W6V c.st (c.timerNew k i).st := by
  unfold Cfg.timerNew; (try dsimp only); w6st_v
macro_rules | `(tactic| w6st_v1) => `(tactic| with_reducible exact Cfg.w6_timerNew_v ..)

theorem Cfg.w6_doFin_v (c : Cfg) (k : List Frame) (x : Nat) :
    St.W6V c.st (c.doFin k x).st := by
  unfold Cfg.doFin; (try dsimp only); w6st_v
macro_rules | `(tactic| w6st_v1) => `(tactic| with_reducible exact Cfg.w6_doFin_v ..)

theorem Cfg.w6_drainQ_v (c : Cfg) (k : List Frame) (x : Nat) :
    St.W6V c.st (c.drainQ k x).st := by
  unfold Cfg.drainQ; (try dsimp only); w6st_v
macro_rules | `(tactic| w6st_v1) => `(tactic| with_reducible exact Cfg.w6_drainQ_v ..)

theorem Cfg.w6_processTask_v (c : Cfg) (k : List Frame) (r : Nat) (x : Task) :
    St.W6V c.st (c.processTask k r x).st := by
  unfold Cfg.processTask; (try dsimp only); w6st_v
macro_rules | `(tactic| w6st_v1) => `(tactic| with_reducible exact Cfg.w6_processTask_v ..)

theorem Cfg.w6_ptFin_v (c : Cfg) (k : List Frame) (r : Nat) (handling : Option Nat) :
    St.W6V c.st (c.ptFin k r handling).st := by
  unfold Cfg.ptFin; (try dsimp only); w6st_v
macro_rules | `(tactic| w6st_v1) => `(tactic| with_reducible exact Cfg.w6_ptFin_v ..)

theorem Cfg.w6_hLoop_v (c : Cfg) (k : List Frame) (r e : Nat) (hs : List Nat) (err : Bool) (stale : Outcome) :
    St.W6V c.st (c.hLoop k r e hs err stale).st := by
  unfold Cfg.hLoop; (try dsimp only); w6st_v
macro_rules | `(tactic| w6st_v1) => `(tactic| with_reducible exact Cfg.w6_hLoop_v ..)

theorem Cfg.w6_invokeFin_v (c : Cfg) (k : List Frame) (e h : Nat) :
    St.W6V c.st (c.invokeFin k e h).st := by
  unfold Cfg.invokeFin; (try dsimp only); w6st_v
macro_rules | `(tactic| w6st_v1) => `(tactic| with_reducible exact Cfg.w6_invokeFin_v ..)

theorem Cfg.w6_hAfter_v (c : Cfg) (k : List Frame) (r e : Nat) (rest : List Nat) (err : Bool) (stale : Outcome) :
    St.W6V c.st (c.hAfter k r e rest err stale).st := by
  unfold Cfg.hAfter; (try dsimp only); w6st_v
macro_rules | `(tactic| w6st_v1) => `(tactic| with_reducible exact Cfg.w6_hAfter_v ..)

theorem Cfg.w6_dispFin_v (c : Cfg) (k : List Frame) (r e : Nat) (err : Bool) :
    St.W6V c.st (c.dispFin k r e err).st := by
  unfold Cfg.dispFin; (try dsimp only); w6st_v
macro_rules | `(tactic| w6st_v1) => `(tactic| with_reducible exact Cfg.w6_dispFin_v ..)

theorem Cfg.w6_dispatchLoop_v (c : Cfg) (k : List Frame) (r : Nat) :
    St.W6V c.st (c.dispatchLoop k r).st := by
  unfold Cfg.dispatchLoop; (try dsimp only); w6st_v
macro_rules | `(tactic| w6st_v1) => `(tactic| with_reducible exact Cfg.w6_dispatchLoop_v ..)

theorem Cfg.w6_flush_v (c : Cfg) (k : List Frame) (x : Nat) :
    St.W6V c.st (c.flush k x).st := by
  unfold Cfg.flush; (try dsimp only); w6st_v
macro_rules | `(tactic| w6st_v1) => `(tactic| with_reducible exact Cfg.w6_flush_v ..)

theorem Cfg.w6_flushFin_v (c : Cfg) (k : List Frame) (r : Nat) (old : Bool) :
    St.W6V c.st (c.flushFin k r old).st := by
  unfold Cfg.flushFin; (try dsimp only); w6st_v
macro_rules | `(tactic| w6st_v1) => `(tactic| with_reducible exact Cfg.w6_flushFin_v ..)

theorem Cfg.w6_tick_v (c : Cfg) (k : List Frame) (x : Nat) :
    St.W6V c.st (c.tick k x).st := by
  unfold Cfg.tick; (try dsimp only); w6st_v
macro_rules | `(tactic| w6st_v1) => `(tactic| with_reducible exact Cfg.w6_tick_v ..)

theorem Cfg.w6_taskLoop_v (c : Cfg) (k : List Frame) (x : Nat) (ts : List Task) :
    St.W6V c.st (c.taskLoop k x ts).st := by
  unfold Cfg.taskLoop; (try dsimp only); w6st_v
macro_rules | `(tactic| w6st_v1) => `(tactic| with_reducible exact Cfg.w6_taskLoop_v ..)

theorem Cfg.w6_tickFin_v (c : Cfg) (k : List Frame) (x : Nat) (old : Bool) :
    St.W6V c.st (c.tickFin k x old).st := by
  unfold Cfg.tickFin; (try dsimp only); w6st_v
macro_rules | `(tactic| w6st_v1) => `(tactic| with_reducible exact Cfg.w6_tickFin_v ..)

theorem Cfg.w6_tickGen_v (c : Cfg) (k : List Frame) (x : Nat) :
    St.W6V c.st (c.tickGen k x).st := by
  unfold Cfg.tickGen; (try dsimp only); w6st_v
macro_rules | `(tactic| w6st_v1) => `(tactic| with_reducible exact Cfg.w6_tickGen_v ..)

theorem Cfg.w6_run_v (c : Cfg) (k : List Frame) (x : Nat) :
    St.W6V c.st (c.run k x).st := by
  unfold Cfg.run; (try dsimp only); w6st_v
macro_rules | `(tactic| w6st_v1) => `(tactic| with_reducible exact Cfg.w6_run_v ..)

theorem Cfg.w6_runLoop_v (c : Cfg) (k : List Frame) (x : Nat) :
    St.W6V c.st (c.runLoop k x).st := by
  unfold Cfg.runLoop; (try dsimp only); w6st_v
macro_rules | `(tactic| w6st_v1) => `(tactic| with_reducible exact Cfg.w6_runLoop_v ..)

theorem Cfg.w6_runFin_v (c : Cfg) (k : List Frame) (x : Nat) :
    St.W6V c.st (c.runFin k x).st := by
  unfold Cfg.runFin; (try dsimp only); w6st_v
macro_rules | `(tactic| w6st_v1) => `(tactic| with_reducible exact Cfg.w6_runFin_v ..)

theorem Cfg.w6_runCatchExn_v (c : Cfg) (k : List Frame) (x : Nat) (ex : Exn) :
    St.W6V c.st (c.runCatchExn k x ex).st := by
  unfold Cfg.runCatchExn; (try dsimp only); w6st_v
macro_rules | `(tactic| w6st_v1) => `(tactic| with_reducible exact Cfg.w6_runCatchExn_v ..)

theorem Cfg.w6_runRethrow_v (c : Cfg) (k : List Frame) (ex : Exn) :
    St.W6V c.st (c.runRethrow k ex).st := by
  unfold Cfg.runRethrow; (try dsimp only); w6st_v
macro_rules | `(tactic| w6st_v1) => `(tactic| with_reducible exact Cfg.w6_runRethrow_v ..)

/-! ## the transition function -/

theorem w6_unwind_v (c : Cfg) (k : List Frame) (ex : Exn) (f : Frame) : St.W6V c.st (unwind c k ex f).st := by
  cases f <;> (dsimp only [unwind]; w6st_v)

end CV.Core

import CV.Proofs.InvWaitMain
/-
C06, second round, clause "timeout_not_early" COUNTED ACROSS STEPS.

A wait/call with timeout `n` throws `TimeoutError` into its caller no earlier than after `n + 1`
invocations of ITS OWN `_on_tick` closure.  The model logs every framework-handler invocation
(`Cfg.invoke` prepends `Entry.hinv e code key`; for `_on_tick` of wait state `w` the code is 3 and
the key is `(wait w).task`, the id of `w`'s waitEvent generator, unique per `w`).  The number of
such entries in the log is `w6b_tickCount s w`; no ghost field is added to the model.

Layers of this file
  1. `St.W6BL s s'`: a universal step relation: "the log grows by entries none of which is an
     `.hinv`, and a `GenRec.exc w _` record stays a `GenRec.exc w _` record".  Every helper and
     every arm of `step` respects it, except the first log entry of `Cfg.invoke`
     (`Cfg.w6b_invoke_l` starts from `c.w6_invokeSt h e`).
  2. how `w6b_tickCount` changes in one step (`w6b_tickCount_tick`, `w6b_tickCount_other`).
  3. the potentials: `w6b_psi = tickCount + timeout` and `w6b_phi = psi - [an exc generator of w
     exists]` never decrease (`w6b_psi_mono`, `w6b_phi_mono`), also along `W6Later`.
  4. invariants `W6BLogInv` (every `.hinv _ 3 key` entry has `key < gens.length`) and `W6BExcInv`
     (an `.exc w _` generator exists only when `w` is a wait state whose countdown is 0).
  5. `w6b_timeout_not_early` and its corollary for the step that logs `.timeout`.
-/
namespace CV.Core

def Entry.w6b_isHinv : Entry → Bool
  | .hinv .. => true
  | _ => false

/-- the log grows by non-`.hinv` entries; an `exc w` generator record stays an `exc w` record -/
structure St.W6BL (s s' : St) : Prop where
  log : ∃ es, s'.log = es ++ s.log ∧ ∀ x ∈ es, Entry.w6b_isHinv x = false
  exc : ∀ g w b, s.gen g = .exc w b → ∃ b', s'.gen g = .exc w b'

namespace St.W6BL

theorem refl (s : St) : St.W6BL s s := ⟨⟨[], rfl, by simp⟩, fun _ _ b h => ⟨b, h⟩⟩

theorem trans {a b c : St} (h1 : St.W6BL a b) (h2 : St.W6BL b c) : St.W6BL a c := by
  refine ⟨?_, ?_⟩
  · obtain ⟨es1, e1, p1⟩ := h1.log
    obtain ⟨es2, e2, p2⟩ := h2.log
    refine ⟨es2 ++ es1, by rw [e2, e1, List.append_assoc], ?_⟩
    intro x hx
    rcases List.mem_append.1 hx with hx | hx
    · exact p2 x hx
    · exact p1 x hx
  · intro g w b hg
    obtain ⟨b1, hb1⟩ := h1.exc g w b hg
    exact h2.exc g w b1 hb1

theorem of_eq {s t t' : St} (h : St.W6BL s t) (hl : t'.log = t.log) (hg : t'.gens = t.gens) : St.W6BL s t' := by
  refine ⟨?_, ?_⟩
  · rw [hl]; exact h.log
  · intro g w b hgw
    have : t'.gen g = t.gen g := by simp only [St.gen, hg]
    rw [this]; exact h.exc g w b hgw

variable {s t : St}

theorem modComp (h : St.W6BL s t) (c : Nat) (f : Comp → Comp) : St.W6BL s (t.modComp c f) := h.of_eq rfl rfl
theorem modTimer (h : St.W6BL s t) (c : Nat) (f : TimerSt → TimerSt) : St.W6BL s (t.modTimer c f) := h.of_eq rfl rfl
theorem tick1 (h : St.W6BL s t) (d : Int) : St.W6BL s (t.tick1 d) := h.of_eq rfl rfl
theorem addH (h : St.W6BL s t) (x : Handler) : St.W6BL s (t.addH x) := h.of_eq rfl rfl
theorem modEv (h : St.W6BL s t) (e : Nat) (f : Ev → Ev) : St.W6BL s (t.modEv e f) := h.of_eq rfl rfl
theorem modWait (h : St.W6BL s t) (w : Nat) (f : WaitSt → WaitSt) : St.W6BL s (t.modWait w f) := h.of_eq rfl rfl
theorem addEv (h : St.W6BL s t) (x : Ev) : St.W6BL s (t.addEv x) := h.of_eq rfl rfl
theorem addWait (h : St.W6BL s t) (x : WaitSt) : St.W6BL s (t.addWait x) := h.of_eq rfl rfl

theorem logE (h : St.W6BL s t) (x : Entry) (hx : x.w6b_isHinv = false) : St.W6BL s (t.logE x) := by
  refine h.trans ⟨⟨[x], rfl, ?_⟩, fun _ _ b hg => ⟨b, hg⟩⟩
  intro y hy
  simp only [List.mem_singleton] at hy
  rw [hy]; exact hx

theorem addGen (h : St.W6BL s t) (x : GenRec) : St.W6BL s (t.addGen x) := by
  refine h.trans ⟨⟨[], rfl, by simp⟩, ?_⟩
  intro g w b hg
  refine ⟨b, ?_⟩
  rw [St.w6_addGen_gen]
  split
  · rename_i hlen
    rw [hlen, St.w6_gen_ge _ _ (Nat.le_refl _)] at hg; cases hg
  · exact hg

/-- overwriting a record that is not an `exc` record -/
theorem setGen (h : St.W6BL s t) (g : Nat) (x : GenRec) (hx : (t.gen g).w6_isExc = false) :
    St.W6BL s (t.setGen g x) := by
  refine h.trans ⟨⟨[], rfl, by simp⟩, ?_⟩
  intro g' w b hg
  refine ⟨b, ?_⟩
  rcases St.w6_setGen_gen_cases t g x g' with h1 | ⟨h1, _, _⟩
  · rw [h1]; exact hg
  · subst h1; rw [hg] at hx; cases hx

/-- marking an `exc w` record as fired -/
theorem setGenExc (h : St.W6BL s t) (g w : Nat) (b b' : Bool) (hx : t.gen g = .exc w b) :
    St.W6BL s (t.setGen g (.exc w b')) := by
  refine h.trans ⟨⟨[], rfl, by simp⟩, ?_⟩
  intro g' w0 b0 hg
  rcases St.w6_setGen_gen_cases t g (.exc w b') g' with h1 | ⟨h1, _, h2⟩
  · exact ⟨b0, by rw [h1]; exact hg⟩
  · subst h1
    rw [hx] at hg
    injection hg with a1 a2
    subst a1
    exact ⟨b', h2⟩

end St.W6BL

/-- a state reached without touching `exc` records (first-round relation `W6Q`, all bits set) has no
    `exc` record where the start state had none -/
theorem St.W6Q.w6b_notExc {t0 t : St} (hq : St.W6Q W6Mask.all t0 t) {g : Nat} (hx : (t0.gen g).w6_isExc = false) :
    (t.gen g).w6_isExc = false := by
  cases hh : (t.gen g).w6_isExc
  · rfl
  · have := hq.exc rfl g hh
    rw [this, hx] at hh; cases hh

/-! ## the tactic -/

syntax "w6bst_l1" : tactic
macro_rules | `(tactic| w6bst_l1) => `(tactic| split)
macro_rules | `(tactic| w6bst_l1) => `(tactic| with_reducible apply St.W6BL.tick1)
macro_rules | `(tactic| w6bst_l1) => `(tactic| with_reducible apply St.W6BL.addWait)
macro_rules | `(tactic| w6bst_l1) => `(tactic| with_reducible apply St.W6BL.addGen)
macro_rules | `(tactic| w6bst_l1) => `(tactic| with_reducible apply St.W6BL.addH)
macro_rules | `(tactic| w6bst_l1) => `(tactic| with_reducible apply St.W6BL.addEv)
macro_rules | `(tactic| w6bst_l1) => `(tactic| with_reducible apply St.W6BL.logE)
macro_rules | `(tactic| w6bst_l1) => `(tactic| with_reducible apply St.W6BL.modTimer)
macro_rules | `(tactic| w6bst_l1) => `(tactic| with_reducible apply St.W6BL.modWait)
macro_rules | `(tactic| w6bst_l1) => `(tactic| with_reducible apply St.W6BL.modEv)
macro_rules | `(tactic| w6bst_l1) => `(tactic| with_reducible apply St.W6BL.modComp)
-- side conditions
macro_rules | `(tactic| w6bst_l1) => `(tactic| exact rfl)
macro_rules | `(tactic| w6bst_l1) => `(tactic| with_reducible assumption)
macro_rules | `(tactic| w6bst_l1) => `(tactic| with_reducible exact St.W6BL.refl _)

macro "w6bst_l" : tactic => `(tactic| repeat' w6bst_l1)
macro "w6bst_l_unfold" ids:ident+ : tactic => `(tactic| (unfold $[$ids]*; (try dsimp only); w6bst_l))

/-! ## helpers of `Pure.lean` -/

/-- a `foldl` of steps that each respect `Le` respects `Le` -/
theorem St.W6BL.foldl {s t : St} {α} (g : St → α → St) (hg : ∀ a x, St.W6BL s a → St.W6BL s (g a x)) (l : List α)
    (h : St.W6BL s t) : St.W6BL s (l.foldl g t) := by
  induction l generalizing t with
  | nil => exact h
  | cons x l ih => exact ih (hg _ _ h)

theorem St.W6BL.addHandler {s t : St} (h : St.W6BL s t) (x : Nat) : St.W6BL s (t.addHandler x) := by
  unfold St.addHandler
  dsimp only
  apply St.W6BL.modComp
  split
  · w6bst_l
  · split
    · w6bst_l
    · exact St.W6BL.foldl _ (fun a n ha => ha.modComp _ _) _ h
macro_rules | `(tactic| w6bst_l1) => `(tactic| with_reducible apply St.W6BL.addHandler)

theorem St.W6BL.removeHandler {s t : St} (h : St.W6BL s t) (x : Nat) (n : Option Name) :
    St.W6BL s ((t.removeHandler x n).2) := by
  w6bst_l_unfold St.removeHandler
macro_rules | `(tactic| w6bst_l1) => `(tactic| with_reducible apply St.W6BL.removeHandler)

theorem St.W6BL.fireContext {s t : St} (h : St.W6BL s t) (r e : Nat) :
    St.W6BL s (t.fireContext r e) := by
  w6bst_l_unfold St.fireContext
macro_rules | `(tactic| w6bst_l1) => `(tactic| with_reducible apply St.W6BL.fireContext)

theorem St.W6BL.fireRaw {s t : St} (h : St.W6BL s t) (self e : Nat) (chans : List Chan) (prio : Int) :
    St.W6BL s (t.fireRaw self e chans prio) := by
  w6bst_l_unfold St.fireRaw
macro_rules | `(tactic| w6bst_l1) => `(tactic| with_reducible apply St.W6BL.fireRaw)

theorem St.W6BL.childEv {s t : St} (h : St.W6BL s t) (p sfx : Nat) :
    St.W6BL s (t.childEv p sfx) := by
  w6bst_l_unfold St.childEv
macro_rules | `(tactic| w6bst_l1) => `(tactic| with_reducible apply St.W6BL.childEv)

theorem St.W6BL.fireChild {s t : St} (h : St.W6BL s t) (self p sfx : Nat) (chans : List Chan) :
    St.W6BL s (t.fireChild self p sfx chans) := by
  w6bst_l_unfold St.fireChild
macro_rules | `(tactic| w6bst_l1) => `(tactic| with_reducible apply St.W6BL.fireChild)

theorem St.W6BL.inform {s t : St} (h : St.W6BL s t) (e : Nat) (force : Bool) :
    St.W6BL s (t.inform e force) := by
  w6bst_l_unfold St.inform
macro_rules | `(tactic| w6bst_l1) => `(tactic| with_reducible apply St.W6BL.inform)

theorem St.W6BL.setValue {s t : St} (h : St.W6BL s t) (e : Nat) (x : VItem) :
    St.W6BL s (t.setValue e x) := by
  w6bst_l_unfold St.setValue
macro_rules | `(tactic| w6bst_l1) => `(tactic| with_reducible apply St.W6BL.setValue)

theorem St.W6BL.fireTmplEv {s t : St} (h : St.W6BL s t) (self : Nat) (ev : Ev) (target : Option Chan) (prio : Int) :
    St.W6BL s (t.fireTmplEv self ev target prio) := by
  w6bst_l_unfold St.fireTmplEv
macro_rules | `(tactic| w6bst_l1) => `(tactic| with_reducible apply St.W6BL.fireTmplEv)

theorem St.W6BL.effectDone1 {s t : St} (h : St.W6BL s t) (r e : Nat) (announce : Bool) :
    St.W6BL s ((t.effectDone1 r e announce).2) := by
  w6bst_l_unfold St.effectDone1
macro_rules | `(tactic| w6bst_l1) => `(tactic| with_reducible apply St.W6BL.effectDone1)

theorem St.W6BL.eventDonePre {s t : St} (h : St.W6BL s t) (r e : Nat) (err : Bool) :
    St.W6BL s ((t.eventDonePre r e err).2) := by
  w6bst_l_unfold St.eventDonePre
macro_rules | `(tactic| w6bst_l1) => `(tactic| with_reducible apply St.W6BL.eventDonePre)

theorem St.W6BL.registerTask {s t : St} (h : St.W6BL s t) (c : Nat) (x : Task) :
    St.W6BL s (t.registerTask c x) := by
  w6bst_l_unfold St.registerTask
macro_rules | `(tactic| w6bst_l1) => `(tactic| with_reducible apply St.W6BL.registerTask)

theorem St.W6BL.unregisterTask {s t : St} (h : St.W6BL s t) (c : Nat) (x : Task) :
    St.W6BL s (t.unregisterTask c x) := by
  w6bst_l_unfold St.unregisterTask
macro_rules | `(tactic| w6bst_l1) => `(tactic| with_reducible apply St.W6BL.unregisterTask)

theorem St.W6BL.reduceTimeLeft {s t : St} (h : St.W6BL s t) (e : Nat) (d : Int) :
    St.W6BL s (t.reduceTimeLeft e d) := by
  unfold St.reduceTimeLeft
  apply St.W6BL.modEv h <;> intro x <;> split <;> rfl
macro_rules | `(tactic| w6bst_l1) => `(tactic| with_reducible apply St.W6BL.reduceTimeLeft)

theorem St.W6BL.registerPre {s t : St} (h : St.W6BL s t) (c p : Nat) :
    St.W6BL s ((t.registerPre c p).2) := by
  w6bst_l_unfold St.registerPre
macro_rules | `(tactic| w6bst_l1) => `(tactic| with_reducible apply St.W6BL.registerPre)

theorem St.W6BL.registerFin {s t : St} (h : St.W6BL s t) (c : Nat) :
    St.W6BL s (t.registerFin c) := by
  w6bst_l_unfold St.registerFin
macro_rules | `(tactic| w6bst_l1) => `(tactic| with_reducible apply St.W6BL.registerFin)

theorem St.W6BL.unregister {s t : St} (h : St.W6BL s t) (c : Nat) :
    St.W6BL s (t.unregister c) := by
  w6bst_l_unfold St.unregister
macro_rules | `(tactic| w6bst_l1) => `(tactic| with_reducible apply St.W6BL.unregister)

theorem St.W6BL.prepUnregPre {s t : St} (h : St.W6BL s t) (c : Nat) :
    St.W6BL s (t.prepUnregPre c) := by
  w6bst_l_unfold St.prepUnregPre
macro_rules | `(tactic| w6bst_l1) => `(tactic| with_reducible apply St.W6BL.prepUnregPre)

theorem St.W6BL.prepUnregFin {s t : St} (h : St.W6BL s t) (c : Nat) :
    St.W6BL s (t.prepUnregFin c) := by
  w6bst_l_unfold St.prepUnregFin
macro_rules | `(tactic| w6bst_l1) => `(tactic| with_reducible apply St.W6BL.prepUnregFin)

theorem St.W6BL.actFire {s t : St} (h : St.W6BL s t) (self i : Nat) (target : Option Chan) (prio : Int) (cancel : Bool) :
    St.W6BL s (t.actFire self i target prio cancel) := by
  w6bst_l_unfold St.actFire
macro_rules | `(tactic| w6bst_l1) => `(tactic| with_reducible apply St.W6BL.actFire)

theorem St.W6BL.actStopEv {s t : St} (h : St.W6BL s t) (ev : Option Nat) :
    St.W6BL s (t.actStopEv ev) := by
  w6bst_l_unfold St.actStopEv
macro_rules | `(tactic| w6bst_l1) => `(tactic| with_reducible apply St.W6BL.actStopEv)

theorem St.W6BL.timerReset {s t : St} (h : St.W6BL s t) (i : Nat) :
    St.W6BL s (t.timerReset i) := by
  w6bst_l_unfold St.timerReset
macro_rules | `(tactic| w6bst_l1) => `(tactic| with_reducible apply St.W6BL.timerReset)

theorem St.W6BL.timerCreate {s t : St} (h : St.W6BL s t) (i : Nat) :
    St.W6BL s (t.timerCreate i) := by
  w6bst_l_unfold St.timerCreate
macro_rules | `(tactic| w6bst_l1) => `(tactic| with_reducible apply St.W6BL.timerCreate)

theorem St.W6BL.timerTick {s t : St} (h : St.W6BL s t) (i e : Nat) :
    St.W6BL s (t.timerTick i e) := by
  w6bst_l_unfold St.timerTick
macro_rules | `(tactic| w6bst_l1) => `(tactic| with_reducible apply St.W6BL.timerTick)

theorem St.W6BL.startWait {s t : St} (h : St.W6BL s t) (w : Nat) :
    St.W6BL s (t.startWait w) := by
  w6bst_l_unfold St.startWait
macro_rules | `(tactic| w6bst_l1) => `(tactic| with_reducible apply St.W6BL.startWait)

/-! ## pure pieces of `Step.lean` -/

theorem St.W6BL.stopBegin {s t : St} (h : St.W6BL s t) (c : Nat) :
    St.W6BL s (t.stopBegin c) := by
  w6bst_l_unfold St.stopBegin
macro_rules | `(tactic| w6bst_l1) => `(tactic| with_reducible apply St.W6BL.stopBegin)

theorem St.W6BL.stopSetCode {s t : St} (h : St.W6BL s t) (r : Nat) (code : Code) :
    St.W6BL s (t.stopSetCode r code) := by
  w6bst_l_unfold St.stopSetCode
macro_rules | `(tactic| w6bst_l1) => `(tactic| with_reducible apply St.W6BL.stopSetCode)

theorem St.W6BL.genCall {s t : St} (h : St.W6BL s t) (owner i : Nat) (target : Option Chan) (timeout : Option Nat) :
    St.W6BL s (t.genCall owner i target timeout) := by
  w6bst_l_unfold St.genCall
macro_rules | `(tactic| w6bst_l1) => `(tactic| with_reducible apply St.W6BL.genCall)

theorem St.W6BL.genWait {s t : St} (h : St.W6BL s t) (owner : Nat) (name : Name) (target : Option Chan) (timeout : Option Nat) :
    St.W6BL s (t.genWait owner name target timeout) := by
  w6bst_l_unfold St.genWait
macro_rules | `(tactic| w6bst_l1) => `(tactic| with_reducible apply St.W6BL.genWait)

theorem St.W6BL.resumeGenPre {s t : St} (h : St.W6BL s t) (g : Nat) (silent : Bool) :
    St.W6BL s (t.resumeGenPre g silent) := by
  unfold St.resumeGenPre
  split
  · rename_i e hh owner rest step pc sd heq
    have hx : (t.gen g).w6_isExc = false := by rw [heq]; rfl
    split
    · exact h.setGen _ _ hx
    · split
      · exact (h.setGen _ _ hx).logE _ rfl
      · exact h.setGen _ _ hx
  · exact h
macro_rules | `(tactic| w6bst_l1) => `(tactic| with_reducible apply St.W6BL.resumeGenPre)

theorem St.W6BL.stopIteration {s t : St} (h : St.W6BL s t) (r : Nat) (x : Task) :
    St.W6BL s ((t.stopIteration r x).2) := by
  w6bst_l_unfold St.stopIteration
macro_rules | `(tactic| w6bst_l1) => `(tactic| with_reducible apply St.W6BL.stopIteration)

theorem St.W6BL.fireException {s t : St} (h : St.W6BL s t) (r e : Nat) :
    St.W6BL s (t.fireException r e) := by
  w6bst_l_unfold St.fireException
macro_rules | `(tactic| w6bst_l1) => `(tactic| with_reducible apply St.W6BL.fireException)

theorem St.W6BL.errorBranch {s t : St} (h : St.W6BL s t) (r : Nat) (x : Task) (resumed : Bool) :
    St.W6BL s ((t.errorBranch r x resumed).2) := by
  w6bst_l_unfold St.errorBranch
macro_rules | `(tactic| w6bst_l1) => `(tactic| with_reducible apply St.W6BL.errorBranch)

theorem St.W6BL.ownSub {s t : St} (h : St.W6BL s t) (r : Nat) (x : Task) (w : Nat) :
    St.W6BL s (t.ownSub r x w) := by
  w6bst_l_unfold St.ownSub
macro_rules | `(tactic| w6bst_l1) => `(tactic| with_reducible apply St.W6BL.ownSub)

theorem St.W6BL.setValueOpt {s t : St} (h : St.W6BL s t) (e : Nat) (v : Option Nat) :
    St.W6BL s (t.setValueOpt e v) := by
  w6bst_l_unfold St.setValueOpt
macro_rules | `(tactic| w6bst_l1) => `(tactic| with_reducible apply St.W6BL.setValueOpt)

theorem St.W6BL.parentSub {s t : St} (h : St.W6BL s t) (r : Nat) (x : Task) (p w2 : Nat) (viaThrow : Bool) :
    St.W6BL s (t.parentSub r x p w2 viaThrow) := by
  w6bst_l_unfold St.parentSub
macro_rules | `(tactic| w6bst_l1) => `(tactic| with_reducible apply St.W6BL.parentSub)

theorem St.W6BL.parentPlain {s t : St} (h : St.W6BL s t) (r : Nat) (x : Task) (p : Nat) (v : Option Nat) (viaThrow : Bool) :
    St.W6BL s (t.parentPlain r x p v viaThrow) := by
  w6bst_l_unfold St.parentPlain
macro_rules | `(tactic| w6bst_l1) => `(tactic| with_reducible apply St.W6BL.parentPlain)

theorem St.W6BL.onWaitEvent {s t : St} (h : St.W6BL s t) (w e : Nat) :
    St.W6BL s ((t.onWaitEvent w e).2) := by
  w6bst_l_unfold St.onWaitEvent
macro_rules | `(tactic| w6bst_l1) => `(tactic| with_reducible apply St.W6BL.onWaitEvent)

theorem St.W6BL.onWaitDone {s t : St} (h : St.W6BL s t) (w e : Nat) :
    St.W6BL s ((t.onWaitDone w e).2) := by
  w6bst_l_unfold St.onWaitDone
macro_rules | `(tactic| w6bst_l1) => `(tactic| with_reducible apply St.W6BL.onWaitDone)

theorem St.W6BL.onWaitTick {s t : St} (h : St.W6BL s t) (w : Nat) :
    St.W6BL s ((t.onWaitTick w).2) := by
  w6bst_l_unfold St.onWaitTick
macro_rules | `(tactic| w6bst_l1) => `(tactic| with_reducible apply St.W6BL.onWaitTick)

theorem St.W6BL.onFallbackGE {s t : St} (h : St.W6BL s t) (e : Nat) :
    St.W6BL s ((t.onFallbackGE e).2) := by
  w6bst_l_unfold St.onFallbackGE
macro_rules | `(tactic| w6bst_l1) => `(tactic| with_reducible apply St.W6BL.onFallbackGE)

theorem St.W6BL.computeHandlers {s t : St} (h : St.W6BL s t) (r : Nat) (name : Name) (chans : List Chan) :
    St.W6BL s ((t.computeHandlers r name chans).2) := by
  w6bst_l_unfold St.computeHandlers
macro_rules | `(tactic| w6bst_l1) => `(tactic| with_reducible apply St.W6BL.computeHandlers)

theorem St.W6BL.dispComplete {s t : St} (h : St.W6BL s t) (e : Nat) (ev : Ev) :
    St.W6BL s (t.dispComplete e ev) := by
  w6bst_l_unfold St.dispComplete
macro_rules | `(tactic| w6bst_l1) => `(tactic| with_reducible apply St.W6BL.dispComplete)

theorem St.W6BL.cacheRefresh {s t : St} (h : St.W6BL s t) (r : Nat) :
    St.W6BL s (t.cacheRefresh r) := by
  w6bst_l_unfold St.cacheRefresh
macro_rules | `(tactic| w6bst_l1) => `(tactic| with_reducible apply St.W6BL.cacheRefresh)

theorem St.W6BL.lookupHandlers {s t : St} (h : St.W6BL s t) (r : Nat) (name : Name) (chans : List Chan) :
    St.W6BL s ((t.lookupHandlers r name chans).2) := by
  w6bst_l_unfold St.lookupHandlers
macro_rules | `(tactic| w6bst_l1) => `(tactic| with_reducible apply St.W6BL.lookupHandlers)

theorem St.W6BL.dispGE {s t : St} (h : St.W6BL s t) (r e remaining : Nat) (name : Name) :
    St.W6BL s (t.dispGE r e remaining name) := by
  w6bst_l_unfold St.dispGE
macro_rules | `(tactic| w6bst_l1) => `(tactic| with_reducible apply St.W6BL.dispGE)

theorem St.W6BL.dispatchPre {s t : St} (h : St.W6BL s t) (r e remaining : Nat) :
    St.W6BL s ((t.dispatchPre r e remaining).2) := by
  w6bst_l_unfold St.dispatchPre
macro_rules | `(tactic| w6bst_l1) => `(tactic| with_reducible apply St.W6BL.dispatchPre)

theorem St.W6BL.handlerRaised {s t : St} (h : St.W6BL s t) (r e : Nat) :
    St.W6BL s (t.handlerRaised r e) := by
  w6bst_l_unfold St.handlerRaised
macro_rules | `(tactic| w6bst_l1) => `(tactic| with_reducible apply St.W6BL.handlerRaised)

theorem St.W6BL.applyValue {s t : St} (h : St.W6BL s t) (r e : Nat) (value : Outcome) :
    St.W6BL s (t.applyValue r e value) := by
  w6bst_l_unfold St.applyValue
macro_rules | `(tactic| w6bst_l1) => `(tactic| with_reducible apply St.W6BL.applyValue)

theorem St.W6BL.geTasksCheck {s t : St} (h : St.W6BL s t) (r e : Nat) :
    St.W6BL s (t.geTasksCheck r e) := by
  w6bst_l_unfold St.geTasksCheck
macro_rules | `(tactic| w6bst_l1) => `(tactic| with_reducible apply St.W6BL.geTasksCheck)

theorem St.W6BL.flushBegin {s t : St} (h : St.W6BL s t) (r : Nat) :
    St.W6BL s (t.flushBegin r) := by
  w6bst_l_unfold St.flushBegin
macro_rules | `(tactic| w6bst_l1) => `(tactic| with_reducible apply St.W6BL.flushBegin)

theorem St.W6BL.tickGenerate {s t : St} (h : St.W6BL s t) (c : Nat) :
    St.W6BL s (t.tickGenerate c) := by
  w6bst_l_unfold St.tickGenerate
macro_rules | `(tactic| w6bst_l1) => `(tactic| with_reducible apply St.W6BL.tickGenerate)

theorem St.W6BL.runBegin {s t : St} (h : St.W6BL s t) (c : Nat) :
    St.W6BL s (t.runBegin c) := by
  w6bst_l_unfold St.runBegin
macro_rules | `(tactic| w6bst_l1) => `(tactic| with_reducible apply St.W6BL.runBegin)

theorem St.W6BL.runEnd {s t : St} (h : St.W6BL s t) (c : Nat) :
    St.W6BL s ((t.runEnd c).2) := by
  w6bst_l_unfold St.runEnd
macro_rules | `(tactic| w6bst_l1) => `(tactic| with_reducible apply St.W6BL.runEnd)

theorem St.W6BL.actStep {s t : St} (h : St.W6BL s t) (ctx : HCtx) (a : Act) : St.W6BL s (actStep t ctx a).st := by
  cases a <;> (unfold CV.Core.actStep; (try dsimp only); w6bst_l)
macro_rules | `(tactic| w6bst_l1) => `(tactic| with_reducible apply St.W6BL.actStep)

/-! ## the arms of `step` -/

macro_rules
  | `(tactic| w6bst_l1) => `(tactic| simp only [Cfg.pop_st, Cfg.popRet_st, Cfg.raise_st, Cfg.goto_st])

theorem Cfg.w6b_effectDone_l (c : Cfg) (k : List Frame) (r e : Nat) (announce : Bool) :
    St.W6BL c.st (c.effectDone k r e announce).st := by
  unfold Cfg.effectDone; (try dsimp only); w6bst_l
macro_rules | `(tactic| w6bst_l1) => `(tactic| with_reducible exact Cfg.w6b_effectDone_l ..)

theorem Cfg.w6b_eventDone_l (c : Cfg) (k : List Frame) (r e : Nat) (err : Bool) :
    St.W6BL c.st (c.eventDone k r e err).st := by
  unfold Cfg.eventDone; (try dsimp only); w6bst_l
macro_rules | `(tactic| w6bst_l1) => `(tactic| with_reducible exact Cfg.w6b_eventDone_l ..)

theorem St.W6BL.updateRootAll (s : St) : ∀ (fuel : Nat) (todo : List Nat) (root : Nat) (t : St),
    St.W6BL s t → St.W6BL s (St.updateRootAll fuel todo root t) := by
  intro fuel
  induction fuel with
  | zero => intro todo root t h; simpa [St.updateRootAll] using h
  | succ n ih =>
    intro todo root t h
    cases todo with
    | nil => simpa [St.updateRootAll] using h
    | cons x rest =>
      simp only [St.updateRootAll]
      apply ih
      w6bst_l

macro_rules | `(tactic| w6bst_l1) => `(tactic| with_reducible apply St.W6BL.updateRootAll)

theorem Cfg.w6b_updateRoot_l (c : Cfg) (k : List Frame) (todo : List Nat) (root : Nat) :
    St.W6BL c.st (c.updateRoot k todo root).st := by
  unfold Cfg.updateRoot; (try dsimp only)
  simp only [Cfg.pop_st]
  exact St.W6BL.updateRootAll _ _ _ _ _ (St.W6BL.refl _)
macro_rules | `(tactic| w6bst_l1) => `(tactic| with_reducible exact Cfg.w6b_updateRoot_l ..)

theorem Cfg.w6b_register_l (c : Cfg) (k : List Frame) (x p : Nat) :
    St.W6BL c.st (c.register k x p).st := by
  unfold Cfg.register; (try dsimp only); w6bst_l
macro_rules | `(tactic| w6bst_l1) => `(tactic| with_reducible exact Cfg.w6b_register_l ..)

theorem Cfg.w6b_registerFin_l (c : Cfg) (k : List Frame) (x : Nat) :
    St.W6BL c.st (c.registerFin k x).st := by
  unfold Cfg.registerFin; (try dsimp only); w6bst_l
macro_rules | `(tactic| w6bst_l1) => `(tactic| with_reducible exact Cfg.w6b_registerFin_l ..)

theorem Cfg.w6b_prepUnregFin_l (c : Cfg) (k : List Frame) (x : Nat) :
    St.W6BL c.st (c.prepUnregFin k x).st := by
  unfold Cfg.prepUnregFin; (try dsimp only); w6bst_l
macro_rules | `(tactic| w6bst_l1) => `(tactic| with_reducible exact Cfg.w6b_prepUnregFin_l ..)

theorem Cfg.w6b_stopMgr_l (c : Cfg) (k : List Frame) (x : Nat) (code : Code) :
    St.W6BL c.st (c.stopMgr k x code).st := by
  unfold Cfg.stopMgr; (try dsimp only); w6bst_l
macro_rules | `(tactic| w6bst_l1) => `(tactic| with_reducible exact Cfg.w6b_stopMgr_l ..)

theorem Cfg.w6b_ticks_l (c : Cfg) (k : List Frame) (x n : Nat) :
    St.W6BL c.st (c.ticks k x n).st := by
  unfold Cfg.ticks; (try dsimp only); w6bst_l
macro_rules | `(tactic| w6bst_l1) => `(tactic| with_reducible exact Cfg.w6b_ticks_l ..)

theorem Cfg.w6b_stopFin_l (c : Cfg) (k : List Frame) (code : Code) :
    St.W6BL c.st (c.stopFin k code).st := by
  unfold Cfg.stopFin; (try dsimp only); w6bst_l
macro_rules | `(tactic| w6bst_l1) => `(tactic| with_reducible exact Cfg.w6b_stopFin_l ..)

theorem Cfg.w6b_timerNew_l (c : Cfg) (k : List Frame) (i : Nat) :
    St.W6BL c.st (c.timerNew k i).st := by
  unfold Cfg.timerNew; (try dsimp only); w6bst_l
macro_rules | `(tactic| w6bst_l1) => `(tactic| with_reducible exact Cfg.w6b_timerNew_l ..)

theorem Cfg.w6b_acts_l (c : Cfg) (k : List Frame) (ctx : HCtx) (prog : Prog) :
    St.W6BL c.st (c.acts k ctx prog).st := by
  unfold Cfg.acts; (try dsimp only); w6bst_l
macro_rules | `(tactic| w6bst_l1) => `(tactic| with_reducible exact Cfg.w6b_acts_l ..)

theorem Cfg.w6b_doFin_l (c : Cfg) (k : List Frame) (x : Nat) :
    St.W6BL c.st (c.doFin k x).st := by
  unfold Cfg.doFin; (try dsimp only); w6bst_l
macro_rules | `(tactic| w6bst_l1) => `(tactic| with_reducible exact Cfg.w6b_doFin_l ..)

theorem Cfg.w6b_drainQ_l (c : Cfg) (k : List Frame) (x : Nat) :
    St.W6BL c.st (c.drainQ k x).st := by
  unfold Cfg.drainQ; (try dsimp only); w6bst_l
macro_rules | `(tactic| w6bst_l1) => `(tactic| with_reducible exact Cfg.w6b_drainQ_l ..)

theorem Cfg.w6b_stepGen_act_l (c : Cfg) (k : List Frame) (g : Nat) (x : GenRec) (ctx : HCtx) (a : Act)
    (hx : (c.st.gen g).w6_isExc = false) (hx' : x.w6_isExc = false) :
    St.W6BL c.st (match (actStep (c.st.setGen g x) ctx a).kind with
      | .next => c.goto k (actStep (c.st.setGen g x) ctx a).st [.stepGen g]
      | .out o => c.popRet k ((actStep (c.st.setGen g x) ctx a).st.setGen g .dead) (.yld o.toYield)
      | .call f => c.goto k (actStep (c.st.setGen g x) ctx a).st [f, .stepGen g]).st := by
  have h1 : St.W6BL c.st (actStep (c.st.setGen g x) ctx a).st :=
    St.W6BL.actStep ((St.W6BL.refl _).setGen _ _ hx) _ _
  have hq : St.W6Q W6Mask.all c.st (actStep (c.st.setGen g x) ctx a).st :=
    St.W6Q.actStep (St.W6Q.setGen (St.W6Q.refl _) _ _ (fun _ => hx')) _ _
  split
  · exact h1
  · exact h1.setGen _ _ (hq.w6b_notExc hx)
  · exact h1

theorem Cfg.w6b_stepGen_l (c : Cfg) (k : List Frame) (g : Nat) :
    St.W6BL c.st (c.stepGen k g).st := by
  unfold Cfg.stepGen; dsimp only
  split
  · rename_i e hh owner rest step pc sd heq
    have hx : (c.st.gen g).w6_isExc = false := by rw [heq]; rfl
    split
    · exact (St.W6BL.refl _).setGen _ _ hx
    · split
      · exact (St.W6BL.refl _).setGen _ _ hx
      · exact (St.W6BL.genCall (St.W6BL.refl _) _ _ _ _).setGen _ _
          ((St.W6Q.genCall (St.W6Q.refl _) _ _ _ _).w6b_notExc hx)
      · exact (St.W6BL.genWait (St.W6BL.refl _) _ _ _ _).setGen _ _
          ((St.W6Q.genWait (St.W6Q.refl _) _ _ _ _).w6b_notExc hx)
      · exact (St.W6BL.refl _).setGen _ _ hx
      · exact Cfg.w6b_stepGen_act_l c k g _ _ _ hx rfl
  · exact St.W6BL.refl _
macro_rules | `(tactic| w6bst_l1) => `(tactic| with_reducible exact Cfg.w6b_stepGen_l ..)

theorem Cfg.w6b_processTask_l (c : Cfg) (k : List Frame) (r : Nat) (x : Task) :
    St.W6BL c.st (c.processTask k r x).st := by
  unfold Cfg.processTask; (try dsimp only); w6bst_l
macro_rules | `(tactic| w6bst_l1) => `(tactic| with_reducible exact Cfg.w6b_processTask_l ..)

theorem Cfg.w6b_contStop_l {s0 : St} (c : Cfg) (k : List Frame) (s : St) (r : Nat) (x : Task) (hle : St.W6BL s0 s) :
    St.W6BL s0 (c.contStop k s r x).st := by
  unfold Cfg.contStop; (try dsimp only); w6bst_l
macro_rules | `(tactic| w6bst_l1) => `(tactic| with_reducible apply Cfg.w6b_contStop_l)

theorem Cfg.w6b_contError_l {s0 : St} (c : Cfg) (k : List Frame) (s : St) (r : Nat) (x : Task) (resumed : Bool) (hle : St.W6BL s0 s) :
    St.W6BL s0 (c.contError k s r x resumed).st := by
  unfold Cfg.contError; (try dsimp only); w6bst_l
macro_rules | `(tactic| w6bst_l1) => `(tactic| with_reducible apply Cfg.w6b_contError_l)

theorem Cfg.w6b_ptBodyWait_l (c : Cfg) (k : List Frame) (r : Nat) (x : Task) (w : Nat) :
    St.W6BL c.st (c.ptBodyWait k r x w).st := by
  unfold Cfg.ptBodyWait; (try dsimp only); w6bst_l

theorem Cfg.w6b_ptBodyExc_l (c : Cfg) (k : List Frame) (r : Nat) (x : Task) (w : Nat) (fired : Bool)
    (hg : c.st.gen x.g = .exc w fired) :
    St.W6BL c.st (c.ptBodyExc k r x w fired).st := by
  have hs1 : St.W6BL c.st ((c.st.setGen x.g (.exc w true)).unregisterTask r x) :=
    St.W6BL.unregisterTask (St.W6BL.setGenExc (St.W6BL.refl _) _ _ _ _ hg) _ _
  unfold Cfg.ptBodyExc; dsimp only
  split
  · w6bst_l
  · split
    · rename_i p hpar
      split
      · rename_i pe ph o rest st pc sd hgen
        split
        · simp only [Cfg.goto_st]; exact St.W6BL.resumeGenPre (hs1.logE _ rfl) _ _
        · apply Cfg.w6b_contError_l
          exact (hs1.logE _ rfl).setGen _ _ (by rw [St.w6_logE_gen, hgen]; rfl)
      · exact hs1
    · exact Cfg.w6b_contError_l _ _ _ _ _ _ hs1

theorem Cfg.w6b_ptBody_l (c : Cfg) (k : List Frame) (r : Nat) (x : Task) :
    St.W6BL c.st (c.ptBody k r x).st := by
  unfold Cfg.ptBody; (try dsimp only)
  split
  · w6bst_l
  · rename_i w heq; exact Cfg.w6b_ptBodyWait_l c k r x w
  · rename_i w b heq; exact Cfg.w6b_ptBodyExc_l c k r x w b heq
  · w6bst_l
  · rename_i v consumed heq
    split
    · w6bst_l
    · simp only [Cfg.pop_st]
      exact St.W6BL.setValueOpt ((St.W6BL.refl _).setGen _ _ (by rw [heq]; rfl)) _ _

theorem Cfg.w6b_ptOwn_l (c : Cfg) (k : List Frame) (r : Nat) (x : Task) :
    St.W6BL c.st (c.ptOwn k r x).st := by
  unfold Cfg.ptOwn; (try dsimp only); w6bst_l
macro_rules | `(tactic| w6bst_l1) => `(tactic| with_reducible exact Cfg.w6b_ptOwn_l ..)

theorem Cfg.w6b_ptParent_l (c : Cfg) (k : List Frame) (r : Nat) (x : Task) (p : Nat) (viaThrow : Bool) :
    St.W6BL c.st (c.ptParent k r x p viaThrow).st := by
  unfold Cfg.ptParent; (try dsimp only); w6bst_l
macro_rules | `(tactic| w6bst_l1) => `(tactic| with_reducible exact Cfg.w6b_ptParent_l ..)

theorem Cfg.w6b_ptFin_l (c : Cfg) (k : List Frame) (r : Nat) (handling : Option Nat) :
    St.W6BL c.st (c.ptFin k r handling).st := by
  unfold Cfg.ptFin; (try dsimp only); w6bst_l
macro_rules | `(tactic| w6bst_l1) => `(tactic| with_reducible exact Cfg.w6b_ptFin_l ..)

theorem Cfg.w6b_dispatcher_l (c : Cfg) (k : List Frame) (r e remaining : Nat) :
    St.W6BL c.st (c.dispatcher k r e remaining).st := by
  unfold Cfg.dispatcher; (try dsimp only); w6bst_l
macro_rules | `(tactic| w6bst_l1) => `(tactic| with_reducible exact Cfg.w6b_dispatcher_l ..)

theorem Cfg.w6b_hLoop_l (c : Cfg) (k : List Frame) (r e : Nat) (hs : List Nat) (err : Bool) (stale : Outcome) :
    St.W6BL c.st (c.hLoop k r e hs err stale).st := by
  unfold Cfg.hLoop; (try dsimp only); w6bst_l
macro_rules | `(tactic| w6bst_l1) => `(tactic| with_reducible exact Cfg.w6b_hLoop_l ..)

theorem Cfg.w6b_invokeUser_l {s0 : St} (c : Cfg) (k : List Frame) (s : St) (h e owner p : Nat) (hle : St.W6BL s0 s) :
    St.W6BL s0 (c.invokeUser k s h e owner p).st := by
  unfold Cfg.invokeUser; (try dsimp only); w6bst_l
macro_rules | `(tactic| w6bst_l1) => `(tactic| with_reducible apply Cfg.w6b_invokeUser_l)

/-- `invoke` after its own `.hinv` log entry (`Cfg.w6_invokeSt`) logs no further `.hinv` entry -/
theorem Cfg.w6b_invoke_l (c : Cfg) (k : List Frame) (r h e : Nat) :
    St.W6BL (c.w6_invokeSt h e) (c.invoke k r h e).st := by
  unfold Cfg.invoke Cfg.w6_invokeSt; (try dsimp only)
  generalize (if ((c.st.handler h).kind.code != 0) = true
    then c.st.logE (.hinv e (c.st.handler h).kind.code (hkey c.st (c.st.handler h))) else c.st) = s
  split <;> w6bst_l

theorem Cfg.w6b_invokeFin_l (c : Cfg) (k : List Frame) (e h : Nat) :
    St.W6BL c.st (c.invokeFin k e h).st := by
  unfold Cfg.invokeFin; (try dsimp only); w6bst_l
macro_rules | `(tactic| w6bst_l1) => `(tactic| with_reducible exact Cfg.w6b_invokeFin_l ..)

theorem Cfg.w6b_hAfter_l (c : Cfg) (k : List Frame) (r e : Nat) (rest : List Nat) (err : Bool) (stale : Outcome) :
    St.W6BL c.st (c.hAfter k r e rest err stale).st := by
  unfold Cfg.hAfter; (try dsimp only); w6bst_l
macro_rules | `(tactic| w6bst_l1) => `(tactic| with_reducible exact Cfg.w6b_hAfter_l ..)

theorem Cfg.w6b_hApply_l (c : Cfg) (k : List Frame) (r e : Nat) (rest : List Nat) (err : Bool) (value : Outcome) :
    St.W6BL c.st (c.hApply k r e rest err value).st := by
  unfold Cfg.hApply; (try dsimp only); w6bst_l
macro_rules | `(tactic| w6bst_l1) => `(tactic| with_reducible exact Cfg.w6b_hApply_l ..)

theorem Cfg.w6b_dispFin_l (c : Cfg) (k : List Frame) (r e : Nat) (err : Bool) :
    St.W6BL c.st (c.dispFin k r e err).st := by
  unfold Cfg.dispFin; (try dsimp only); w6bst_l
macro_rules | `(tactic| w6bst_l1) => `(tactic| with_reducible exact Cfg.w6b_dispFin_l ..)

theorem Cfg.w6b_dispatchLoop_l (c : Cfg) (k : List Frame) (r : Nat) :
    St.W6BL c.st (c.dispatchLoop k r).st := by
  unfold Cfg.dispatchLoop; (try dsimp only); w6bst_l
macro_rules | `(tactic| w6bst_l1) => `(tactic| with_reducible exact Cfg.w6b_dispatchLoop_l ..)

theorem Cfg.w6b_flush_l (c : Cfg) (k : List Frame) (x : Nat) :
    St.W6BL c.st (c.flush k x).st := by
  unfold Cfg.flush; (try dsimp only); w6bst_l
macro_rules | `(tactic| w6bst_l1) => `(tactic| with_reducible exact Cfg.w6b_flush_l ..)

theorem Cfg.w6b_flushFin_l (c : Cfg) (k : List Frame) (r : Nat) (old : Bool) :
    St.W6BL c.st (c.flushFin k r old).st := by
  unfold Cfg.flushFin; (try dsimp only); w6bst_l
macro_rules | `(tactic| w6bst_l1) => `(tactic| with_reducible exact Cfg.w6b_flushFin_l ..)

theorem Cfg.w6b_tick_l (c : Cfg) (k : List Frame) (x : Nat) :
    St.W6BL c.st (c.tick k x).st := by
  unfold Cfg.tick; (try dsimp only); w6bst_l
macro_rules | `(tactic| w6bst_l1) => `(tactic| with_reducible exact Cfg.w6b_tick_l ..)

theorem Cfg.w6b_taskLoop_l (c : Cfg) (k : List Frame) (x : Nat) (ts : List Task) :
    St.W6BL c.st (c.taskLoop k x ts).st := by
  unfold Cfg.taskLoop; (try dsimp only); w6bst_l
macro_rules | `(tactic| w6bst_l1) => `(tactic| with_reducible exact Cfg.w6b_taskLoop_l ..)

theorem Cfg.w6b_tickFin_l (c : Cfg) (k : List Frame) (x : Nat) (old : Bool) :
    St.W6BL c.st (c.tickFin k x old).st := by
  unfold Cfg.tickFin; (try dsimp only); w6bst_l
macro_rules | `(tactic| w6bst_l1) => `(tactic| with_reducible exact Cfg.w6b_tickFin_l ..)

theorem Cfg.w6b_tickGen_l (c : Cfg) (k : List Frame) (x : Nat) :
    St.W6BL c.st (c.tickGen k x).st := by
  unfold Cfg.tickGen; (try dsimp only); w6bst_l
macro_rules | `(tactic| w6bst_l1) => `(tactic| with_reducible exact Cfg.w6b_tickGen_l ..)

theorem Cfg.w6b_run_l (c : Cfg) (k : List Frame) (x : Nat) :
    St.W6BL c.st (c.run k x).st := by
  unfold Cfg.run; (try dsimp only); w6bst_l
macro_rules | `(tactic| w6bst_l1) => `(tactic| with_reducible exact Cfg.w6b_run_l ..)

theorem Cfg.w6b_runLoop_l (c : Cfg) (k : List Frame) (x : Nat) :
    St.W6BL c.st (c.runLoop k x).st := by
  unfold Cfg.runLoop; (try dsimp only); w6bst_l
macro_rules | `(tactic| w6bst_l1) => `(tactic| with_reducible exact Cfg.w6b_runLoop_l ..)

theorem Cfg.w6b_runFin_l (c : Cfg) (k : List Frame) (x : Nat) :
    St.W6BL c.st (c.runFin k x).st := by
  unfold Cfg.runFin; (try dsimp only); w6bst_l
macro_rules | `(tactic| w6bst_l1) => `(tactic| with_reducible exact Cfg.w6b_runFin_l ..)

theorem Cfg.w6b_runCatchExn_l (c : Cfg) (k : List Frame) (x : Nat) (ex : Exn) :
    St.W6BL c.st (c.runCatchExn k x ex).st := by
  unfold Cfg.runCatchExn; (try dsimp only); w6bst_l
macro_rules | `(tactic| w6bst_l1) => `(tactic| with_reducible exact Cfg.w6b_runCatchExn_l ..)

theorem Cfg.w6b_runRethrow_l (c : Cfg) (k : List Frame) (ex : Exn) :
    St.W6BL c.st (c.runRethrow k ex).st := by
  unfold Cfg.runRethrow; (try dsimp only); w6bst_l
macro_rules | `(tactic| w6bst_l1) => `(tactic| with_reducible exact Cfg.w6b_runRethrow_l ..)


/-! ## the transition function -/

theorem w6b_stepFrame_l (c : Cfg) (k : List Frame) (f : Frame) (hf : ∀ r h e, f ≠ .invoke r h e) :
    St.W6BL c.st (stepFrame c k f).st := by
  cases f
  case invoke r h e => exact absurd rfl (hf r h e)
  case ptBody r x => exact Cfg.w6b_ptBody_l c k r x
  all_goals (dsimp only [stepFrame]; w6bst_l)

theorem w6b_unwind_l (c : Cfg) (k : List Frame) (ex : Exn) (f : Frame) : St.W6BL c.st (unwind c k ex f).st := by
  cases f <;> (dsimp only [unwind]; w6bst_l)

/-- every step that is not the call of a handler logs no `.hinv` entry and keeps `exc` records -/
theorem w6b_step_l (c : Cfg) (hno : ¬ ∃ r h e k, c.stack = .invoke r h e :: k ∧ c.exn = none) :
    St.W6BL c.st (step c).st := by
  unfold step
  split
  · exact St.W6BL.refl _
  · rename_i f k hs
    split
    · exact w6b_unwind_l ..
    · rename_i hx
      apply w6b_stepFrame_l
      intro r h e hf
      subst hf
      exact hno ⟨r, h, e, k, hs, hx⟩

/-- the call of a handler: after the `.hinv` entry of `invoke` itself, no further one -/
theorem w6b_step_invoke_l (c : Cfg) (r h e : Nat) (k : List Frame) (hs : c.stack = .invoke r h e :: k)
    (hx : c.exn = none) : St.W6BL (c.w6_invokeSt h e) (step c).st := by
  rw [w6_step_invoke c r h e k hs hx]; exact Cfg.w6b_invoke_l c k r h e

/-! ## counting `_on_tick` invocations in the log -/

/-- the log entry of an invocation of the `_on_tick` closure (kind code 3) of the wait state whose
    waitEvent generator has id `key` -/
def Entry.w6b_isTick (key : Nat) : Entry → Bool
  | .hinv _ k o => k == 3 && o == key
  | _ => false

/-- how often the `_on_tick` closure of wait state `w` has been invoked so far (read off the log) -/
def w6b_tickCount (s : St) (w : Nat) : Nat := s.log.countP (Entry.w6b_isTick (s.wait w).task)

theorem Entry.w6b_isTick_of_not_hinv {x : Entry} (key : Nat) (h : x.w6b_isHinv = false) : x.w6b_isTick key = false := by
  cases x <;> first | rfl | cases h

theorem St.W6BL.w6b_countP {s s' : St} (h : St.W6BL s s') (key : Nat) :
    s'.log.countP (Entry.w6b_isTick key) = s.log.countP (Entry.w6b_isTick key) := by
  obtain ⟨es, e1, p1⟩ := h.log
  have : es.countP (Entry.w6b_isTick key) = 0 := by
    rw [List.countP_eq_zero]
    intro x hx
    rw [Entry.w6b_isTick_of_not_hinv key (p1 x hx)]; exact Bool.false_ne_true
  rw [e1, List.countP_append, this, Nat.zero_add]

theorem St.W6BL.w6b_hinv_mem {s s' : St} (h : St.W6BL s s') {e k o : Nat} (hm : Entry.hinv e k o ∈ s'.log) :
    Entry.hinv e k o ∈ s.log := by
  obtain ⟨es, e1, p1⟩ := h.log
  rw [e1] at hm
  rcases List.mem_append.1 hm with hm | hm
  · have := p1 _ hm; cases this
  · exact hm

/-- the generator id identifies the wait state -/
theorem W6CInv.w6b_task_inj {n0 : Nat} {c : Cfg} (h : W6CInv n0 c) {w w' : Nat} (hw : w < c.st.waits.length)
    (hw' : w' < c.st.waits.length) (e : (c.st.wait w).task = (c.st.wait w').task) : w = w' := by
  have h1 := (h.w.2.taskGen w hw).2
  have h2 := (h.w.2.taskGen w' hw').2
  simp only [St.w6_view_wg, St.w6_view_gen, WaitSt.w6g] at h1 h2
  rw [e, h2] at h1
  injection h1 with h1
  exact h1.symm

theorem Cfg.w6b_invokeSt_log_tick (c : Cfg) (hh e w : Nat) (hk : (c.st.handler hh).kind = .waitTick w) :
    (c.w6_invokeSt hh e).log = .hinv e 3 (c.st.wait w).task :: c.st.log := by
  unfold Cfg.w6_invokeSt hkey; rw [hk]; rfl

/-- the `.hinv` entry `invoke` writes counts for `w` only if the handler is `w`'s own `_on_tick` -/
theorem Cfg.w6b_invokeSt_count {n0 : Nat} {c : Cfg} (h : W6CInv n0 c) (hh e w : Nat) (hw : w < c.st.waits.length)
    (hno : (c.st.handler hh).kind ≠ .waitTick w) :
    (c.w6_invokeSt hh e).log.countP (Entry.w6b_isTick (c.st.wait w).task) =
      c.st.log.countP (Entry.w6b_isTick (c.st.wait w).task) := by
  cases hk : (c.st.handler hh).kind
  case waitTick w' =>
    rw [Cfg.w6b_invokeSt_log_tick c hh e w' hk, List.countP_cons_of_neg]
    intro ht
    simp only [Entry.w6b_isTick, Bool.and_eq_true, beq_iff_eq] at ht
    have hlt := c.st.w6_handler_lt_of_wait hh (by rw [hk]; rfl)
    obtain ⟨hw', _, _⟩ := h.w.1.kindTick hh w' hlt hk
    have := h.w6b_task_inj hw hw' ht.2.symm
    subst this
    exact hno hk
  all_goals
    unfold Cfg.w6_invokeSt; rw [hk]
    first
      | rfl
      | (show (c.st.logE _).log.countP _ = _
         rw [St.w6_logE_log, List.countP_cons_of_neg]
         simp [Entry.w6b_isTick, HKind.code])

/-- the step that invokes `w`'s own `_on_tick` closure -/
def W6BTicks (c : Cfg) (w : Nat) : Prop :=
  ∃ r hh e k, c.stack = .invoke r hh e :: k ∧ c.exn = none ∧ (c.st.handler hh).kind = .waitTick w

/-- **w6b_tickCount_tick**: the step that invokes `w`'s `_on_tick` closure adds exactly one to the count -/
theorem w6b_tickCount_tick {n0 : Nat} {c : Cfg} (h : W6CInv n0 c) (w : Nat) (ht : W6BTicks c w) :
    w6b_tickCount (step c).st w = w6b_tickCount c.st w + 1 := by
  obtain ⟨r, hh, e, k, hs, hx, hk⟩ := ht
  have hlt := c.st.w6_handler_lt_of_wait hh (by rw [hk]; rfl)
  obtain ⟨hw, _, _⟩ := h.w.1.kindTick hh w hlt hk
  have htask := ((w6_step_s c).ident w hw).2.2
  unfold w6b_tickCount
  rw [htask, (w6b_step_invoke_l c r hh e k hs hx).w6b_countP, Cfg.w6b_invokeSt_log_tick c hh e w hk,
    List.countP_cons_of_pos]
  simp [Entry.w6b_isTick]

/-- **w6b_tickCount_other**: no other step changes the count of an existing wait state -/
theorem w6b_tickCount_other {n0 : Nat} {c : Cfg} (h : W6CInv n0 c) (w : Nat) (hw : w < c.st.waits.length)
    (hno : ¬ W6BTicks c w) : w6b_tickCount (step c).st w = w6b_tickCount c.st w := by
  have htask := ((w6_step_s c).ident w hw).2.2
  unfold w6b_tickCount
  rw [htask]
  by_cases hinv : ∃ r hh e k, c.stack = .invoke r hh e :: k ∧ c.exn = none
  · obtain ⟨r, hh, e, k, hs, hx⟩ := hinv
    rw [(w6b_step_invoke_l c r hh e k hs hx).w6b_countP]
    exact Cfg.w6b_invokeSt_count h hh e w hw (fun hk => hno ⟨r, hh, e, k, hs, hx, hk⟩)
  · exact (w6b_step_l c hinv).w6b_countP _

theorem w6b_tickCount_le {n0 : Nat} {c : Cfg} (h : W6CInv n0 c) (w : Nat) (hw : w < c.st.waits.length) :
    w6b_tickCount c.st w ≤ w6b_tickCount (step c).st w := by
  by_cases ht : W6BTicks c w
  · rw [w6b_tickCount_tick h w ht]; exact Nat.le_succ _
  · rw [w6b_tickCount_other h w hw ht]; exact Nat.le_refl _

/-! ## the potentials -/

/-- invocations so far + invocations still to come before the countdown reaches 0 -/
def w6b_psi (s : St) (w : Nat) : Int := (w6b_tickCount s w : Int) + (s.wait w).timeout

/-- a `TimeoutError` carrier of `w` exists -/
def St.w6b_hasExc (s : St) (w : Nat) : Prop := ∃ g b, s.gen g = .exc w b

open Classical in
/-- `psi`, minus one once the `TimeoutError` carrier of `w` exists -/
noncomputable def w6b_phi (s : St) (w : Nat) : Int := w6b_psi s w - (if s.w6b_hasExc w then 1 else 0)

theorem w6b_timeout_step {c : Cfg} (w : Nat) (hw : w < c.st.waits.length) :
    (¬ W6BTicks c w ∨ (c.st.wait w).timeout ≤ 0 → ((step c).st.wait w).timeout = (c.st.wait w).timeout) ∧
    (((step c).st.wait w).timeout = (c.st.wait w).timeout ∨
      ((c.st.wait w).timeout > 0 ∧ ((step c).st.wait w).timeout = (c.st.wait w).timeout - 1)) := by
  by_cases hne : ((step c).st.wait w).timeout = (c.st.wait w).timeout
  · exact ⟨fun _ => hne, Or.inl hne⟩
  · obtain ⟨r, hh, e, k, hs, hx, hk, hpos, hdec⟩ := w6_timeout_counts_down c w hw hne
    refine ⟨fun hor => ?_, Or.inr ⟨hpos, hdec⟩⟩
    rcases hor with hor | hor
    · exact absurd ⟨r, hh, e, k, hs, hx, hk⟩ hor
    · omega

/-- **w6b_psi_mono**: `tickCount + timeout` of an existing wait state never decreases in a step -/
theorem w6b_psi_mono {n0 : Nat} {c : Cfg} (h : W6CInv n0 c) (w : Nat) (hw : w < c.st.waits.length) :
    w6b_psi c.st w ≤ w6b_psi (step c).st w := by
  obtain ⟨t1, t2⟩ := w6b_timeout_step (c := c) w hw
  unfold w6b_psi
  by_cases ht : W6BTicks c w
  · rw [w6b_tickCount_tick h w ht]
    rcases t2 with t2 | ⟨_, t2⟩ <;> rw [t2] <;> omega
  · rw [w6b_tickCount_other h w hw ht, t1 (Or.inl ht)]
    exact Int.le_refl _

/-- an `exc w` record stays an `exc w` record in every step -/
theorem w6b_step_exc_keep (c : Cfg) (g w : Nat) (b : Bool) (hg : c.st.gen g = .exc w b) :
    ∃ b', (step c).st.gen g = .exc w b' := by
  by_cases hinv : ∃ r hh e k, c.stack = .invoke r hh e :: k ∧ c.exn = none
  · obtain ⟨r, hh, e, k, hs, hx⟩ := hinv
    exact (w6b_step_invoke_l c r hh e k hs hx).exc g w b (by rw [Cfg.w6_invokeSt_gen]; exact hg)
  · exact (w6b_step_l c hinv).exc g w b hg

/-- where an `exc w` record of the next state comes from: it was an `exc w` record already, or this
    step is `w`'s `_on_tick` invocation at countdown 0 -/
theorem w6b_step_exc_back (c : Cfg) (g w : Nat) (b : Bool) (hg : (step c).st.gen g = .exc w b) :
    (∃ b0, c.st.gen g = .exc w b0) ∨ (W6BTicks c w ∧ (c.st.wait w).timeout = 0) := by
  cases hh : (c.st.gen g).w6_isExc
  · obtain ⟨r, h, e, k, hs, hx, hk, h0, _, _⟩ := w6_exc_needs_timeout0 c g w b hg hh
    exact Or.inr ⟨⟨r, h, e, k, hs, hx, hk⟩, h0⟩
  · cases hgen : c.st.gen g
    case exc w0 b0 =>
      obtain ⟨b', hb'⟩ := w6b_step_exc_keep c g w0 b0 hgen
      rw [hg] at hb'
      injection hb' with a1 a2
      subst a1
      exact Or.inl ⟨b0, rfl⟩
    all_goals (rw [hgen] at hh; cases hh)

/-- **w6b_phi_mono**: the potential `tickCount + timeout − [an exc generator of w exists]` of an existing
    wait state never decreases in a step -/
theorem w6b_phi_mono {n0 : Nat} {c : Cfg} (h : W6CInv n0 c) (w : Nat) (hw : w < c.st.waits.length) :
    w6b_phi c.st w ≤ w6b_phi (step c).st w := by
  have hpsi := w6b_psi_mono h w hw
  unfold w6b_phi
  by_cases h1 : c.st.w6b_hasExc w
  · have h2 : (step c).st.w6b_hasExc w := by
      obtain ⟨g, b, hg⟩ := h1
      obtain ⟨b', hb'⟩ := w6b_step_exc_keep c g w b hg
      exact ⟨g, b', hb'⟩
    rw [if_pos h1, if_pos h2]; omega
  · by_cases h2 : (step c).st.w6b_hasExc w
    · rw [if_neg h1, if_pos h2]
      obtain ⟨g, b, hg⟩ := h2
      rcases w6b_step_exc_back c g w b hg with ⟨b0, hb0⟩ | ⟨ht, h0⟩
      · exact absurd ⟨g, b0, hb0⟩ h1
      · have hc := w6b_tickCount_tick h w ht
        have htm := (w6b_timeout_step (c := c) w hw).1 (Or.inr (by omega))
        unfold w6b_psi
        rw [hc, htm]; omega
    · rw [if_neg h1, if_neg h2]; omega

/-! ## external operations and later configurations -/

theorem w6b_start_log (s : St) (d : Nat) (tape : List Entry) (op : ExtOp) :
    (startOf (envChange s d tape) op).st.log = s.log := by cases op <;> rfl
theorem w6b_start_gens (s : St) (d : Nat) (tape : List Entry) (op : ExtOp) :
    (startOf (envChange s d tape) op).st.gens = s.gens := by cases op <;> rfl
theorem w6b_start_waits (s : St) (d : Nat) (tape : List Entry) (op : ExtOp) :
    (startOf (envChange s d tape) op).st.waits = s.waits := by cases op <;> rfl
theorem w6b_start_gen (s : St) (d : Nat) (tape : List Entry) (op : ExtOp) (g : Nat) :
    (startOf (envChange s d tape) op).st.gen g = s.gen g := by cases op <;> rfl
theorem w6b_start_wait (s : St) (d : Nat) (tape : List Entry) (op : ExtOp) (w : Nat) :
    (startOf (envChange s d tape) op).st.wait w = s.wait w := by cases op <;> rfl

theorem w6b_tickCount_start (s : St) (d : Nat) (tape : List Entry) (op : ExtOp) (w : Nat) :
    w6b_tickCount (startOf (envChange s d tape) op).st w = w6b_tickCount s w := by
  unfold w6b_tickCount; rw [w6b_start_log, w6b_start_wait]

theorem w6b_psi_start (s : St) (d : Nat) (tape : List Entry) (op : ExtOp) (w : Nat) :
    w6b_psi (startOf (envChange s d tape) op).st w = w6b_psi s w := by
  unfold w6b_psi; rw [w6b_tickCount_start, w6b_start_wait]

theorem w6b_hasExc_start (s : St) (d : Nat) (tape : List Entry) (op : ExtOp) (w : Nat) :
    (startOf (envChange s d tape) op).st.w6b_hasExc w ↔ s.w6b_hasExc w := by
  unfold St.w6b_hasExc; simp only [w6b_start_gen]

theorem w6b_phi_start (s : St) (d : Nat) (tape : List Entry) (op : ExtOp) (w : Nat) :
    w6b_phi (startOf (envChange s d tape) op).st w = w6b_phi s w := by
  unfold w6b_phi; rw [w6b_psi_start]
  by_cases h : s.w6b_hasExc w
  · rw [if_pos h, if_pos ((w6b_hasExc_start s d tape op w).2 h)]
  · rw [if_neg h, if_neg (fun h' => h ((w6b_hasExc_start s d tape op w).1 h'))]

theorem W6Later.w6b_waitsLen {n0 : Nat} {c c' : Cfg} (hl : W6Later n0 c c') :
    c.st.waits.length ≤ c'.st.waits.length := by
  induction hl with
  | refl => exact Nat.le_refl _
  | step _ ih => exact Nat.le_trans ih (w6_step_s _).waitsLen
  | next d tape op hop _ _ ih => rw [w6b_start_waits]; exact ih

/-- `tickCount`, `psi`, `phi` of an existing wait state never decrease along a session -/
theorem W6Later.w6b_mono {n0 : Nat} {c c' : Cfg} (h : W6CInv n0 c) (hl : W6Later n0 c c') (w : Nat)
    (hw : w < c.st.waits.length) :
    w6b_tickCount c.st w ≤ w6b_tickCount c'.st w ∧ w6b_psi c.st w ≤ w6b_psi c'.st w ∧
      w6b_phi c.st w ≤ w6b_phi c'.st w := by
  induction hl with
  | refl => exact ⟨Nat.le_refl _, Int.le_refl _, Int.le_refl _⟩
  | step hl' ih =>
    have hc := W6Later.cinv h hl'
    have hw' := Nat.lt_of_lt_of_le hw hl'.w6b_waitsLen
    exact ⟨Nat.le_trans ih.1 (w6b_tickCount_le hc w hw'), Int.le_trans ih.2.1 (w6b_psi_mono hc w hw'),
      Int.le_trans ih.2.2 (w6b_phi_mono hc w hw')⟩
  | next d tape op hop _ _ ih => rw [w6b_tickCount_start, w6b_psi_start, w6b_phi_start]; exact ih

/-! ## invariants of sessions -/

/-- every logged `_on_tick` invocation (`.hinv _ 3 key`) names an existing generator -/
def W6BLogInv (s : St) : Prop := ∀ e key, Entry.hinv e 3 key ∈ s.log → key < s.gens.length

theorem Cfg.w6b_invokeSt_logInv {n0 : Nat} {c : Cfg} (h : W6CInv n0 c) (hi : W6BLogInv c.st) (hh e : Nat) :
    ∀ e' key, Entry.hinv e' 3 key ∈ (c.w6_invokeSt hh e).log → key < c.st.gens.length := by
  intro e' key hm
  have hm' : Entry.hinv e' 3 key ∈ c.st.log ∨
      Entry.hinv e' 3 key = .hinv e (c.st.handler hh).kind.code (hkey c.st (c.st.handler hh)) := by
    unfold Cfg.w6_invokeSt at hm
    split at hm
    · simp only [St.w6_logE_log, List.mem_cons] at hm
      rcases hm with hm | hm
      · exact Or.inr hm
      · exact Or.inl hm
    · exact Or.inl hm
  rcases hm' with hm' | hm'
  · exact hi e' key hm'
  · injection hm' with _ hcode hkeq
    cases hk : (c.st.handler hh).kind
    case waitTick w' =>
      have hlt := c.st.w6_handler_lt_of_wait hh (by rw [hk]; rfl)
      obtain ⟨hw', _, _⟩ := h.w.1.kindTick hh w' hlt hk
      have h1 := (h.w.2.taskGen w' hw').1
      simp only [St.w6_view_wg, St.w6_view_ng, WaitSt.w6g] at h1
      unfold hkey at hkeq
      rw [hk] at hkeq
      rw [hkeq]; exact h1
    all_goals (rw [hk] at hcode; simp [HKind.code] at hcode)

theorem w6b_step_logInv {n0 : Nat} {c : Cfg} (h : W6CInv n0 c) (hi : W6BLogInv c.st) : W6BLogInv (step c).st := by
  intro e' key hm
  have hlen := (w6_step_s c).gensLen
  by_cases hinv : ∃ r hh e k, c.stack = .invoke r hh e :: k ∧ c.exn = none
  · obtain ⟨r, hh, e, k, hs, hx⟩ := hinv
    have hm1 := (w6b_step_invoke_l c r hh e k hs hx).w6b_hinv_mem hm
    exact Nat.lt_of_lt_of_le (Cfg.w6b_invokeSt_logInv h hi hh e e' key hm1) hlen
  · exact Nat.lt_of_lt_of_le (hi e' key ((w6b_step_l c hinv).w6b_hinv_mem hm)) hlen

/-- an `exc w` generator (the carrier of `TimeoutError`) exists only for a wait state whose countdown is 0 -/
def W6BExcInv (s : St) : Prop := ∀ g w b, s.gen g = .exc w b → w < s.waits.length ∧ (s.wait w).timeout = 0

theorem w6b_step_excInv {n0 : Nat} {c : Cfg} (h : W6CInv n0 c) (hi : W6BExcInv c.st) : W6BExcInv (step c).st := by
  intro g w b hg
  have hwl := (w6_step_s c).waitsLen
  have key : w < c.st.waits.length ∧ (c.st.wait w).timeout = 0 := by
    rcases w6b_step_exc_back c g w b hg with ⟨b0, hb0⟩ | ⟨ht, h0⟩
    · exact hi g w b0 hb0
    · obtain ⟨r, hh, e, k, hs, hx, hk⟩ := ht
      have hlt := c.st.w6_handler_lt_of_wait hh (by rw [hk]; rfl)
      obtain ⟨hw, _, _⟩ := h.w.1.kindTick hh w hlt hk
      exact ⟨hw, h0⟩
  obtain ⟨hw, h0⟩ := key
  refine ⟨Nat.lt_of_lt_of_le hw hwl, ?_⟩
  rw [(w6b_timeout_step (c := c) w hw).1 (Or.inr (by omega))]; exact h0

/-- the observation log starts empty -/
def W6BInitLog (s0 : St) : Prop := s0.log = []

theorem W6ReachW.w6b_logInv {s0 : St} (hi : W6InitWait s0) (hl0 : W6BInitLog s0) {c : Cfg}
    (h : W6ReachW s0.hs.length s0 c) : W6BLogInv c.st := by
  induction h with
  | init d tape op hop => intro e key hm; rw [w6b_start_log, hl0] at hm; cases hm
  | step hr ih => exact w6b_step_logInv (W6ReachW.cinv hi hr) ih
  | next d tape op hop _ _ ih =>
    intro e key hm; rw [w6b_start_log] at hm; rw [w6b_start_gens]; exact ih e key hm

theorem W6ReachW.w6b_excInv {s0 : St} (hi : W6InitWait s0) {c : Cfg}
    (h : W6ReachW s0.hs.length s0 c) : W6BExcInv c.st := by
  induction h with
  | init d tape op hop =>
    intro g w b hg
    rw [w6b_start_gen] at hg
    have : s0.gen g = dfltGen := by simp [St.gen, hi.gens]
    rw [this] at hg; cases hg
  | step hr ih => exact w6b_step_excInv (W6ReachW.cinv hi hr) ih
  | next d tape op hop _ _ ih =>
    intro g w b hg; rw [w6b_start_gen] at hg; rw [w6b_start_waits, w6b_start_wait]; exact ih g w b hg

theorem W6Later.w6b_reachW {n0 : Nat} {s0 : St} {c c' : Cfg} (h : W6ReachW n0 s0 c) (hl : W6Later n0 c c') :
    W6ReachW n0 s0 c' := by
  induction hl with
  | refl => exact h
  | step _ ih => exact W6ReachW.step ih
  | next d tape op hop _ hd ih => exact W6ReachW.next d tape op hop ih hd

/-! ## birth of a wait state with a timeout -/

/-- `c` is about to execute `yield self.call(…, timeout=n)` / `yield self.wait(…, timeout=n)` in a user
    generator; the wait state this step creates is `c.st.waits.length` -/
def W6BBirth (c : Cfg) (n : Nat) : Prop :=
  ∃ g k e h owner a rest st pc sd, c.exn = none ∧ c.stack = .stepGen g :: k ∧
    c.st.gen g = .user e h owner (a :: rest) st pc sd ∧
    ((∃ t target catch_, a = .call t target (some n) catch_) ∨
     (∃ name target catch_, a = .wait name target (some n) catch_))

theorem w6b_birth_state {c : Cfg} {n : Nat} (hb : W6BBirth c n) :
    (step c).st.waits.length = c.st.waits.length + 1 ∧
    ((step c).st.wait c.st.waits.length).timeout = n ∧
    ((step c).st.wait c.st.waits.length).task = c.st.gens.length ∧
    (step c).st.log = c.st.log := by
  obtain ⟨g, k, e, h, owner, a, rest, st, pc, sd, hx, hs, hg, ha⟩ := hb
  rcases ha with ⟨t, target, catch_, rfl⟩ | ⟨name, target, catch_, rfl⟩
  · have hst : (step c).st = (c.st.genCall owner t target (some n)).setGen g (.user e h owner rest st (some catch_) sd) := by
      rw [step_cons c _ k hs hx]
      show (c.stepGen k g).st = _
      unfold Cfg.stepGen
      simp only [hg]
      rfl
    rw [hst]
    refine ⟨?_, ?_, ?_, rfl⟩
    · simp [St.genCall, St.addWait, St.addGen]
    · rw [St.w6_setGen_wait]; unfold St.genCall; rw [St.w6_addWait_wait]; simp [St.addGen]
    · rw [St.w6_setGen_wait]; unfold St.genCall; rw [St.w6_addWait_wait]; simp [St.addGen]
  · have hst : (step c).st = (c.st.genWait owner name target (some n)).setGen g (.user e h owner rest st (some catch_) sd) := by
      rw [step_cons c _ k hs hx]
      show (c.stepGen k g).st = _
      unfold Cfg.stepGen
      simp only [hg]
      rfl
    rw [hst]
    refine ⟨?_, ?_, ?_, rfl⟩
    · simp [St.genWait, St.addWait, St.addGen]
    · rw [St.w6_setGen_wait]; unfold St.genWait; rw [St.w6_addWait_wait]; simp [St.addGen]
    · rw [St.w6_setGen_wait]; unfold St.genWait; rw [St.w6_addWait_wait]; simp [St.addGen]

/-- right after its birth the new wait state has tick count 0, no `TimeoutError` carrier, and potential `n` -/
theorem w6b_birth_phi {s0 : St} (hi : W6InitWait s0) (hl0 : W6BInitLog s0) {c : Cfg}
    (hr : W6ReachW s0.hs.length s0 c) {n : Nat} (hb : W6BBirth c n) :
    w6b_tickCount (step c).st c.st.waits.length = 0 ∧ ¬ (step c).st.w6b_hasExc c.st.waits.length ∧
    w6b_psi (step c).st c.st.waits.length = n ∧ w6b_phi (step c).st c.st.waits.length = n := by
  obtain ⟨b1, b2, b3, b4⟩ := w6b_birth_state hb
  have hlog := hr.w6b_logInv hi hl0
  have hexc := hr.w6b_excInv hi
  have count0 : w6b_tickCount (step c).st c.st.waits.length = 0 := by
    unfold w6b_tickCount
    rw [b4, b3, List.countP_eq_zero]
    intro x hx ht
    cases x <;> simp only [Entry.w6b_isTick, Bool.and_eq_true, beq_iff_eq, Bool.false_eq_true] at ht
    obtain ⟨h1, h2⟩ := ht
    subst h1; subst h2
    exact Nat.lt_irrefl _ (hlog _ _ hx)
  have noexc : ¬ (step c).st.w6b_hasExc c.st.waits.length := by
    intro ⟨g, b, hg⟩
    rcases w6b_step_exc_back c g _ b hg with ⟨b0, hb0⟩ | ⟨ht, _⟩
    · exact Nat.lt_irrefl _ (hexc g _ b0 hb0).1
    · obtain ⟨r, hh, e, k, hs, _, _⟩ := ht
      obtain ⟨g1, k1, _, _, _, _, _, _, _, _, _, hs1, _⟩ := hb
      rw [hs1] at hs; cases hs
  have psi0 : w6b_psi (step c).st c.st.waits.length = n := by
    unfold w6b_psi; rw [count0, b2]; simp
  refine ⟨count0, noexc, psi0, ?_⟩
  unfold w6b_phi; rw [psi0, if_neg noexc]; simp

/-! ## the theorems -/

/-- **w6b_timeout_not_early** (counted across steps).  Let `c` be a configuration of an admissible session that is
    about to execute `yield self.call/wait(…, timeout=n)`, and `w` the wait state this step creates.  In every
    later configuration `c'` of the session in which a `TimeoutError` carrier (`GenRec.exc w _`) of `w` exists,
    the log contains at least `n + 1` invocations of `w`'s own `_on_tick` closure. -/
theorem w6b_timeout_not_early {s0 : St} (hi : W6InitWait s0) (hl0 : W6BInitLog s0) {c : Cfg}
    (hr : W6ReachW s0.hs.length s0 c) {n : Nat} (hb : W6BBirth c n) {c' : Cfg}
    (hl : W6Later s0.hs.length (step c) c') {g' : Nat} {b : Bool}
    (hexc : c'.st.gen g' = .exc c.st.waits.length b) :
    n + 1 ≤ w6b_tickCount c'.st c.st.waits.length := by
  obtain ⟨_, _, _, phi0⟩ := w6b_birth_phi hi hl0 hr hb
  obtain ⟨b1, _, _, _⟩ := w6b_birth_state hb
  have hc1 := w6_step_cinv c (hr.cinv hi)
  have mono := (W6Later.w6b_mono hc1 hl c.st.waits.length (by omega)).2.2
  have hex' := (W6Later.w6b_reachW (W6ReachW.step hr) hl).w6b_excInv hi g' _ b hexc
  have hhas : c'.st.w6b_hasExc c.st.waits.length := ⟨g', b, hexc⟩
  rw [phi0] at mono
  unfold w6b_phi w6b_psi at mono
  rw [if_pos hhas, hex'.2] at mono
  omega

/-- the same bound for the step that actually throws: a step that logs `.timeout …` is the task step of a
    `GenRec.exc w' false` generator, and if `w'` is the wait state born in `c` then at least `n + 1` `_on_tick`
    invocations of it have been logged before -/
theorem w6b_timeout_entry_not_early {s0 : St} (hi : W6InitWait s0) (hl0 : W6BInitLog s0) {c : Cfg}
    (hr : W6ReachW s0.hs.length s0 c) {n : Nat} (hb : W6BBirth c n) {c' : Cfg}
    (hl : W6Later s0.hs.length (step c) c') {es : List Entry} (hes : (step c').st.log = es ++ c'.st.log)
    {pe ph : Nat} {caught : Bool} (hx : Entry.timeout pe ph caught ∈ es) :
    ∃ r t k w', c'.stack = .ptBody r t :: k ∧ c'.exn = none ∧ c'.st.gen t.g = .exc w' false ∧
      (w' = c.st.waits.length → n + 1 ≤ w6b_tickCount c'.st w') := by
  obtain ⟨r, t, k, w', hs, hxn, hg⟩ := w6_timeout_needs_exc c' hes hx
  refine ⟨r, t, k, w', hs, hxn, hg, ?_⟩
  intro hw
  subst hw
  exact w6b_timeout_not_early hi hl0 hr hb hl hg

/-- **w6b_tick_at_zero** (the step-side reading): when `w`'s `_on_tick` closure is invoked and finds the countdown
    at 0 (the invocation that creates the `TimeoutError` carrier), at least `n` earlier invocations have been
    logged: this one is at least the `(n+1)`-th -/
theorem w6b_tick_at_zero {s0 : St} (hi : W6InitWait s0) (hl0 : W6BInitLog s0) {c : Cfg}
    (hr : W6ReachW s0.hs.length s0 c) {n : Nat} (hb : W6BBirth c n) {c' : Cfg}
    (hl : W6Later s0.hs.length (step c) c')
    (h0 : (c'.st.wait c.st.waits.length).timeout = 0) :
    n ≤ w6b_tickCount c'.st c.st.waits.length ∧
    (W6BTicks c' c.st.waits.length → n + 1 ≤ w6b_tickCount (step c').st c.st.waits.length) := by
  obtain ⟨_, _, psi0, _⟩ := w6b_birth_phi hi hl0 hr hb
  obtain ⟨b1, _, _, _⟩ := w6b_birth_state hb
  have hc1 := w6_step_cinv c (hr.cinv hi)
  have mono := (W6Later.w6b_mono hc1 hl c.st.waits.length (by omega)).2.1
  rw [psi0] at mono
  unfold w6b_psi at mono
  rw [h0] at mono
  refine ⟨by omega, fun ht => ?_⟩
  rw [w6b_tickCount_tick (W6Later.cinv hc1 hl) _ ht]
  omega

end CV.Core

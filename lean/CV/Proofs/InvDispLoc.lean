import CV.Proofs.InvDisp
/-
C08, machine level: WHERE the queued copies of an event are, and that an event object is fired once.

`DLoc K cx nb fc s` for a class `K` of EXISTING event ids (`K e → e < nb ≤ |evs|`) none of which is a
`Timer`'s re-fired event object, and a component `cx`:
  * no component other than `cx` holds a `K` item in its deque or heap;
  * the log has exactly `fc` `F` entries of class `K`.
It is preserved by every step except `cx.register(p)` (which drains `cx`'s deque into another
manager's): every `fire` of the machine either creates a fresh event object (id `|evs|`, not in `K`)
or re-fires a `Timer`'s object (not in `K`).  4-layer pattern of CoreStep.lean, tactic `l8t`.
Every top-level name carries the prefix `l8` / `DLoc`.
-/
namespace CV.Core

structure DLoc (K : Nat → Bool) (cx nb fc : Nat) (s : St) : Prop where
  hK : ∀ e, K e = true → e < nb
  evs : nb ≤ s.evs.length
  timers : ∀ tm ∈ s.timers, ∀ e, tm.ev = some e → K e = false
  other : ∀ y, y ≠ cx → (s.comp y).eq.cntK K = 0
  fired : firedCnt K s.log = fc

theorem l8_mem_modify {α} (f : α → α) : ∀ (l : List α) (i : Nat) (a : α), a ∈ l.modify i f → ∃ b ∈ l, a = b ∨ a = f b := by
  intro l
  induction l with
  | nil => intro i a h; simp at h
  | cons b l ih =>
    intro i a h
    cases i with
    | zero =>
      simp only [List.modify_zero_cons, List.mem_cons] at h
      rcases h with h | h
      · exact ⟨b, List.mem_cons_self, .inr h⟩
      · exact ⟨a, List.mem_cons_of_mem _ h, .inl rfl⟩
    | succ i =>
      simp only [List.modify_succ_cons, List.mem_cons] at h
      rcases h with h | h
      · exact ⟨b, List.mem_cons_self, .inl h⟩
      · obtain ⟨b', hb, hab⟩ := ih i a h
        exact ⟨b', List.mem_cons_of_mem _ hb, hab⟩

namespace DLoc
variable {K : Nat → Bool} {cx nb fc : Nat} {t : St}

theorem of_eq {t' : St} (h : DLoc K cx nb fc t) (he : t.evs.length ≤ t'.evs.length) (ht : t'.timers = t.timers)
    (hc : t'.comps = t.comps) (hl : t'.log = t.log) : DLoc K cx nb fc t' := by
  refine ⟨h.hK, Nat.le_trans h.evs he, ?_, ?_, ?_⟩
  · rw [ht]; exact h.timers
  · intro y hy; have := h.other y hy; unfold St.comp at this ⊢; rw [hc]; exact this
  · rw [hl]; exact h.fired

theorem modEv (h : DLoc K cx nb fc t) (e : Nat) (f : Ev → Ev) : DLoc K cx nb fc (t.modEv e f) :=
  h.of_eq (by simp [St.modEv]) rfl rfl rfl
theorem modWait (h : DLoc K cx nb fc t) (w : Nat) (f : WaitSt → WaitSt) : DLoc K cx nb fc (t.modWait w f) :=
  h.of_eq (Nat.le_refl _) rfl rfl rfl
theorem setGen (h : DLoc K cx nb fc t) (g : Nat) (y : GenRec) : DLoc K cx nb fc (t.setGen g y) :=
  h.of_eq (Nat.le_refl _) rfl rfl rfl
theorem addEv (h : DLoc K cx nb fc t) (e : Ev) : DLoc K cx nb fc (t.addEv e) :=
  h.of_eq (by simp [St.addEv]) rfl rfl rfl
theorem addH (h : DLoc K cx nb fc t) (y : Handler) : DLoc K cx nb fc (t.addH y) := h.of_eq (Nat.le_refl _) rfl rfl rfl
theorem addGen (h : DLoc K cx nb fc t) (g : GenRec) : DLoc K cx nb fc (t.addGen g) := h.of_eq (Nat.le_refl _) rfl rfl rfl
theorem addWait (h : DLoc K cx nb fc t) (w : WaitSt) : DLoc K cx nb fc (t.addWait w) := h.of_eq (Nat.le_refl _) rfl rfl rfl
theorem tick1 (h : DLoc K cx nb fc t) (d : Int) : DLoc K cx nb fc (t.tick1 d) := h.of_eq (Nat.le_refl _) rfl rfl rfl

/-- `modTimer` with a function that keeps the timer's event object -/
theorem modTimer (h : DLoc K cx nb fc t) (i : Nat) (f : TimerSt → TimerSt) (hf : ∀ y : TimerSt, (f y).ev = y.ev) :
    DLoc K cx nb fc (t.modTimer i f) := by
  refine ⟨h.hK, h.evs, ?_, h.other, h.fired⟩
  intro tm htm e he
  obtain ⟨b, hb, hab⟩ := l8_mem_modify f _ _ _ htm
  rcases hab with rfl | rfl
  · exact h.timers _ hb e he
  · rw [hf] at he; exact h.timers _ hb e he

/-- a log entry that is not an `F` of class `K` -/
theorem logE (h : DLoc K cx nb fc t) (y : Entry) (hy : d8isFire K y = false) : DLoc K cx nb fc (t.logE y) := by
  refine ⟨h.hK, h.evs, h.timers, h.other, ?_⟩
  have := h.fired
  unfold St.logE firedCnt at *
  simp only [List.countP_cons, hy]
  simpa using this

/-- `modComp` with a function that does not add `K` items -/
theorem modCompLe (h : DLoc K cx nb fc t) (c : Nat) (f : Comp → Comp) (hf : ∀ y : Comp, (f y).eq.cntK K ≤ y.eq.cntK K) :
    DLoc K cx nb fc (t.modComp c f) := by
  refine ⟨h.hK, h.evs, h.timers, ?_, h.fired⟩
  intro y hy
  rw [St.q2_comp_modComp]
  split
  · have := hf (t.comp y); have := h.other y hy; omega
  · exact h.other y hy

theorem modCompAt (h : DLoc K cx nb fc t) (c : Nat) (f : Comp → Comp)
    (hf : (f (t.comp c)).eq.cntK K ≤ (t.comp c).eq.cntK K) : DLoc K cx nb fc (t.modComp c f) := by
  refine ⟨h.hK, h.evs, h.timers, ?_, h.fired⟩
  intro y hy
  rw [St.q2_comp_modComp]
  split
  · rename_i hh; have := h.other y hy; rw [← hh.1] at this ⊢; omega
  · exact h.other y hy

theorem modComp (h : DLoc K cx nb fc t) (c : Nat) (f : Comp → Comp) (hf : ∀ y : Comp, (f y).eq = y.eq) :
    DLoc K cx nb fc (t.modComp c f) :=
  h.modCompLe c f (fun y => by rw [hf]; exact Nat.le_refl _)

/-- `modTimer` that may install a fresh (non-`K`) event object -/
theorem modTimer' (h : DLoc K cx nb fc t) (i : Nat) (f : TimerSt → TimerSt)
    (hf : ∀ (y : TimerSt) (e : Nat), (f y).ev = some e → y.ev = some e ∨ K e = false) :
    DLoc K cx nb fc (t.modTimer i f) := by
  refine ⟨h.hK, h.evs, ?_, h.other, h.fired⟩
  intro tm htm e he
  obtain ⟨b, hb, hab⟩ := l8_mem_modify f _ _ _ htm
  rcases hab with rfl | rfl
  · exact h.timers _ hb e he
  · rcases hf b e he with h1 | h1
    · exact h.timers _ hb e h1
    · exact h1

/-- the fresh id is not in `K` -/
theorem fresh (h : DLoc K cx nb fc t) : K t.evs.length = false := by
  cases hk : K t.evs.length with
  | false => rfl
  | true => have := h.hK _ hk; have := h.evs; omega

end DLoc

/-! ## the tactic -/

syntax "l8t1" : tactic
macro_rules | `(tactic| l8t1) => `(tactic| split)
macro_rules | `(tactic| l8t1) => `(tactic| with_reducible apply DLoc.tick1)
macro_rules | `(tactic| l8t1) => `(tactic| with_reducible apply DLoc.addWait)
macro_rules | `(tactic| l8t1) => `(tactic| with_reducible apply DLoc.addGen)
macro_rules | `(tactic| l8t1) => `(tactic| with_reducible apply DLoc.addH)
macro_rules | `(tactic| l8t1) => `(tactic| with_reducible apply DLoc.addEv)
macro_rules | `(tactic| l8t1) => `(tactic| ((with_reducible apply DLoc.logE); case hy => exact rfl))
macro_rules | `(tactic| l8t1) => `(tactic| with_reducible apply DLoc.setGen)
macro_rules | `(tactic| l8t1) => `(tactic| ((with_reducible apply DLoc.modTimer); case hf => first | exact fun _ => rfl | (intro y; split <;> rfl)))
macro_rules | `(tactic| l8t1) => `(tactic| with_reducible apply DLoc.modWait)
macro_rules | `(tactic| l8t1) => `(tactic| with_reducible apply DLoc.modEv)
macro_rules | `(tactic| l8t1) => `(tactic| ((with_reducible apply DLoc.modComp); case hf => exact fun _ => rfl))
macro_rules | `(tactic| l8t1) => `(tactic| with_reducible assumption)

macro "l8t" : tactic => `(tactic| repeat' l8t1)
macro "l8t_unfold" ids:ident+ : tactic => `(tactic| (unfold $[$ids]*; (try dsimp only); l8t))

variable {K : Nat → Bool} {cx nb fc : Nat}

theorem l8_fireContext_evs (s : St) (r e : Nat) : (s.fireContext r e).evs.length = s.evs.length := by
  unfold St.fireContext
  dsimp only
  repeat' split
  all_goals simp [St.modEv]

/-! ## helpers of `Pure.lean` -/

/-- a `foldl` of steps that each respect `DLoc` respects `DLoc` -/
theorem DLoc.foldl {t : St} {α} (g : St → α → St) (hg : ∀ a y, DLoc K cx nb fc a → DLoc K cx nb fc (g a y)) (l : List α)
    (h : DLoc K cx nb fc t) : DLoc K cx nb fc (l.foldl g t) := by
  induction l generalizing t with
  | nil => exact h
  | cons y l ih => exact ih (hg _ _ h)

theorem DLoc.addHandler {t : St} (h : DLoc K cx nb fc t) (y : Nat) : DLoc K cx nb fc (t.addHandler y) := by
  unfold St.addHandler
  dsimp only
  l8t1
  split
  · l8t
  · split
    · l8t
    · exact DLoc.foldl _ (fun a n ha => by l8t) _ h
macro_rules | `(tactic| l8t1) => `(tactic| with_reducible apply DLoc.addHandler)

theorem DLoc.removeHandler {t : St} (h : DLoc K cx nb fc t) (y : Nat) (n : Option Name) :
    DLoc K cx nb fc ((t.removeHandler y n).2) := by
  l8t_unfold St.removeHandler
macro_rules | `(tactic| l8t1) => `(tactic| with_reducible apply DLoc.removeHandler)

theorem DLoc.fireContext {t : St} (h : DLoc K cx nb fc t) (r e : Nat) :
    DLoc K cx nb fc (t.fireContext r e) := by
  l8t_unfold St.fireContext
macro_rules | `(tactic| l8t1) => `(tactic| with_reducible apply DLoc.fireContext)

/-- `fire` of an event object that is not in `K`: the item it queues and the `F` it logs are not `K` -/
theorem DLoc.fireRaw {t : St} (h : DLoc K cx nb fc t) (self e : Nat) (chans : List Chan) (prio : Int)
    (he : K e = false) : DLoc K cx nb fc (t.fireRaw self e chans prio) := by
  unfold St.fireRaw
  dsimp only
  apply DLoc.logE
  · apply DLoc.modCompLe
    · l8t
    · intro y
      simp [EQ.cntK, EQ.dequeCnt, EQ.heapCnt, EQ.append, List.countP_append, he]
  · exact he

theorem DLoc.childEv {t : St} (h : DLoc K cx nb fc t) (p sfx : Nat) : DLoc K cx nb fc (t.childEv p sfx) := by
  l8t_unfold St.childEv
macro_rules | `(tactic| l8t1) => `(tactic| with_reducible apply DLoc.childEv)

theorem DLoc.fireChild {t : St} (h : DLoc K cx nb fc t) (self p sfx : Nat) (chans : List Chan) :
    DLoc K cx nb fc (t.fireChild self p sfx chans) := by
  unfold St.fireChild
  exact (h.childEv p sfx).fireRaw _ _ _ _ h.fresh
macro_rules | `(tactic| l8t1) => `(tactic| with_reducible apply DLoc.fireChild)

theorem DLoc.fireTmplEv {t : St} (h : DLoc K cx nb fc t) (self : Nat) (ev : Ev) (target : Option Chan) (prio : Int) :
    DLoc K cx nb fc (t.fireTmplEv self ev target prio) := by
  unfold St.fireTmplEv
  exact (h.addEv ev).fireRaw _ _ _ _ h.fresh
macro_rules | `(tactic| l8t1) => `(tactic| with_reducible apply DLoc.fireTmplEv)

theorem DLoc.tickGenerate {t : St} (h : DLoc K cx nb fc t) (c : Nat) : DLoc K cx nb fc (t.tickGenerate c) := by
  unfold St.tickGenerate
  split
  · exact ((h.tick1 1).addEv _).fireRaw _ _ _ _ (h.tick1 1).fresh
  · exact h
macro_rules | `(tactic| l8t1) => `(tactic| with_reducible apply DLoc.tickGenerate)

theorem DLoc.inform {t : St} (h : DLoc K cx nb fc t) (e : Nat) (force : Bool) :
    DLoc K cx nb fc (t.inform e force) := by
  l8t_unfold St.inform
macro_rules | `(tactic| l8t1) => `(tactic| with_reducible apply DLoc.inform)

theorem DLoc.setValue {t : St} (h : DLoc K cx nb fc t) (e : Nat) (x : VItem) :
    DLoc K cx nb fc (t.setValue e x) := by
  l8t_unfold St.setValue
macro_rules | `(tactic| l8t1) => `(tactic| with_reducible apply DLoc.setValue)

theorem DLoc.effectDone1 {t : St} (h : DLoc K cx nb fc t) (r e : Nat) (announce : Bool) :
    DLoc K cx nb fc ((t.effectDone1 r e announce).2) := by
  l8t_unfold St.effectDone1
macro_rules | `(tactic| l8t1) => `(tactic| with_reducible apply DLoc.effectDone1)

theorem DLoc.eventDonePre {t : St} (h : DLoc K cx nb fc t) (r e : Nat) (err : Bool) :
    DLoc K cx nb fc ((t.eventDonePre r e err).2) := by
  l8t_unfold St.eventDonePre
macro_rules | `(tactic| l8t1) => `(tactic| with_reducible apply DLoc.eventDonePre)

theorem DLoc.registerTask {t : St} (h : DLoc K cx nb fc t) (c : Nat) (x : Task) :
    DLoc K cx nb fc (t.registerTask c x) := by
  l8t_unfold St.registerTask
macro_rules | `(tactic| l8t1) => `(tactic| with_reducible apply DLoc.registerTask)

theorem DLoc.unregisterTask {t : St} (h : DLoc K cx nb fc t) (c : Nat) (x : Task) :
    DLoc K cx nb fc (t.unregisterTask c x) := by
  l8t_unfold St.unregisterTask
macro_rules | `(tactic| l8t1) => `(tactic| with_reducible apply DLoc.unregisterTask)

theorem DLoc.reduceTimeLeft {t : St} (h : DLoc K cx nb fc t) (e : Nat) (d : Int) :
    DLoc K cx nb fc (t.reduceTimeLeft e d) := by
  l8t_unfold St.reduceTimeLeft
macro_rules | `(tactic| l8t1) => `(tactic| with_reducible apply DLoc.reduceTimeLeft)

theorem DLoc.registerFin {t : St} (h : DLoc K cx nb fc t) (c : Nat) :
    DLoc K cx nb fc (t.registerFin c) := by
  l8t_unfold St.registerFin
macro_rules | `(tactic| l8t1) => `(tactic| with_reducible apply DLoc.registerFin)

theorem DLoc.unregister {t : St} (h : DLoc K cx nb fc t) (c : Nat) :
    DLoc K cx nb fc (t.unregister c) := by
  l8t_unfold St.unregister
macro_rules | `(tactic| l8t1) => `(tactic| with_reducible apply DLoc.unregister)

theorem DLoc.prepUnregPre {t : St} (h : DLoc K cx nb fc t) (c : Nat) :
    DLoc K cx nb fc (t.prepUnregPre c) := by
  l8t_unfold St.prepUnregPre
macro_rules | `(tactic| l8t1) => `(tactic| with_reducible apply DLoc.prepUnregPre)

theorem DLoc.prepUnregFin {t : St} (h : DLoc K cx nb fc t) (c : Nat) :
    DLoc K cx nb fc (t.prepUnregFin c) := by
  l8t_unfold St.prepUnregFin
macro_rules | `(tactic| l8t1) => `(tactic| with_reducible apply DLoc.prepUnregFin)

theorem DLoc.actFire {t : St} (h : DLoc K cx nb fc t) (self i : Nat) (target : Option Chan) (prio : Int) (cancel : Bool) :
    DLoc K cx nb fc (t.actFire self i target prio cancel) := by
  l8t_unfold St.actFire
macro_rules | `(tactic| l8t1) => `(tactic| with_reducible apply DLoc.actFire)

theorem DLoc.actStopEv {t : St} (h : DLoc K cx nb fc t) (ev : Option Nat) :
    DLoc K cx nb fc (t.actStopEv ev) := by
  l8t_unfold St.actStopEv
macro_rules | `(tactic| l8t1) => `(tactic| with_reducible apply DLoc.actStopEv)

theorem DLoc.timerReset {t : St} (h : DLoc K cx nb fc t) (i : Nat) :
    DLoc K cx nb fc (t.timerReset i) := by
  l8t_unfold St.timerReset
macro_rules | `(tactic| l8t1) => `(tactic| with_reducible apply DLoc.timerReset)

theorem DLoc.timerCreate {t : St} (h : DLoc K cx nb fc t) (i : Nat) :
    DLoc K cx nb fc (t.timerCreate i) := by
  l8t_unfold St.timerCreate
macro_rules | `(tactic| l8t1) => `(tactic| with_reducible apply DLoc.timerCreate)

theorem DLoc.timerTick {t : St} (h : DLoc K cx nb fc t) (i e : Nat) : DLoc K cx nb fc (t.timerTick i e) := by
  unfold St.timerTick
  split
  · exact h
  · rename_i tm htm
    have hmem : tm ∈ t.timers := List.mem_of_getElem? htm
    dsimp only
    split
    · exact h
    · split
      · split
        · exact h
        · cases hev : tm.ev with
          | some e0 =>
            have hk : K e0 = false := h.timers tm hmem e0 hev
            simp only [Option.getD_some]
            have hf := fun chans => h.fireRaw tm.comp e0 chans 0 hk
            l8t
            all_goals exact hf _
          | none =>
            simp only [Option.getD_none]
            have h1 : DLoc K cx nb fc ((t.addEv (mkEvOfTmpl t tm.tmpl)).modTimer i fun x => { x with ev := some t.evs.length }) := by
              apply DLoc.modTimer'
              · exact h.addEv _
              · intro y e' he'
                right
                simp only [Option.some.injEq] at he'
                subst he'
                exact h.fresh
            have hf := fun chans => h1.fireRaw tm.comp t.evs.length chans 0 h.fresh
            l8t
            all_goals exact hf _
      · l8t
macro_rules | `(tactic| l8t1) => `(tactic| with_reducible apply DLoc.timerTick)

theorem DLoc.startWait {t : St} (h : DLoc K cx nb fc t) (w : Nat) :
    DLoc K cx nb fc (t.startWait w) := by
  l8t_unfold St.startWait
macro_rules | `(tactic| l8t1) => `(tactic| with_reducible apply DLoc.startWait)

/-! ## pure pieces of `Step.lean` -/

theorem DLoc.stopBegin {t : St} (h : DLoc K cx nb fc t) (c : Nat) :
    DLoc K cx nb fc (t.stopBegin c) := by
  l8t_unfold St.stopBegin
macro_rules | `(tactic| l8t1) => `(tactic| with_reducible apply DLoc.stopBegin)

theorem DLoc.stopSetCode {t : St} (h : DLoc K cx nb fc t) (r : Nat) (code : Code) :
    DLoc K cx nb fc (t.stopSetCode r code) := by
  l8t_unfold St.stopSetCode
macro_rules | `(tactic| l8t1) => `(tactic| with_reducible apply DLoc.stopSetCode)

theorem DLoc.genCall {t : St} (h : DLoc K cx nb fc t) (owner i : Nat) (target : Option Chan) (timeout : Option Nat) :
    DLoc K cx nb fc (t.genCall owner i target timeout) := by
  l8t_unfold St.genCall
macro_rules | `(tactic| l8t1) => `(tactic| with_reducible apply DLoc.genCall)

theorem DLoc.genWait {t : St} (h : DLoc K cx nb fc t) (owner : Nat) (name : Name) (target : Option Chan) (timeout : Option Nat) :
    DLoc K cx nb fc (t.genWait owner name target timeout) := by
  l8t_unfold St.genWait
macro_rules | `(tactic| l8t1) => `(tactic| with_reducible apply DLoc.genWait)

theorem DLoc.resumeGenPre {t : St} (h : DLoc K cx nb fc t) (g : Nat) (silent : Bool) :
    DLoc K cx nb fc (t.resumeGenPre g silent) := by
  l8t_unfold St.resumeGenPre
macro_rules | `(tactic| l8t1) => `(tactic| with_reducible apply DLoc.resumeGenPre)

theorem DLoc.stopIteration {t : St} (h : DLoc K cx nb fc t) (r : Nat) (x : Task) :
    DLoc K cx nb fc ((t.stopIteration r x).2) := by
  l8t_unfold St.stopIteration
macro_rules | `(tactic| l8t1) => `(tactic| with_reducible apply DLoc.stopIteration)

theorem DLoc.fireException {t : St} (h : DLoc K cx nb fc t) (r e : Nat) :
    DLoc K cx nb fc (t.fireException r e) := by
  l8t_unfold St.fireException
macro_rules | `(tactic| l8t1) => `(tactic| with_reducible apply DLoc.fireException)

theorem DLoc.errorBranch {t : St} (h : DLoc K cx nb fc t) (r : Nat) (x : Task) (resumed : Bool) :
    DLoc K cx nb fc ((t.errorBranch r x resumed).2) := by
  l8t_unfold St.errorBranch
macro_rules | `(tactic| l8t1) => `(tactic| with_reducible apply DLoc.errorBranch)

theorem DLoc.ownSub {t : St} (h : DLoc K cx nb fc t) (r : Nat) (x : Task) (w : Nat) :
    DLoc K cx nb fc (t.ownSub r x w) := by
  l8t_unfold St.ownSub
macro_rules | `(tactic| l8t1) => `(tactic| with_reducible apply DLoc.ownSub)

theorem DLoc.setValueOpt {t : St} (h : DLoc K cx nb fc t) (e : Nat) (v : Option Nat) :
    DLoc K cx nb fc (t.setValueOpt e v) := by
  l8t_unfold St.setValueOpt
macro_rules | `(tactic| l8t1) => `(tactic| with_reducible apply DLoc.setValueOpt)

theorem DLoc.parentSub {t : St} (h : DLoc K cx nb fc t) (r : Nat) (x : Task) (p w2 : Nat) (viaThrow : Bool) :
    DLoc K cx nb fc (t.parentSub r x p w2 viaThrow) := by
  l8t_unfold St.parentSub
macro_rules | `(tactic| l8t1) => `(tactic| with_reducible apply DLoc.parentSub)

theorem DLoc.parentPlain {t : St} (h : DLoc K cx nb fc t) (r : Nat) (x : Task) (p : Nat) (v : Option Nat) (viaThrow : Bool) :
    DLoc K cx nb fc (t.parentPlain r x p v viaThrow) := by
  l8t_unfold St.parentPlain
macro_rules | `(tactic| l8t1) => `(tactic| with_reducible apply DLoc.parentPlain)

theorem DLoc.onWaitEvent {t : St} (h : DLoc K cx nb fc t) (w e : Nat) :
    DLoc K cx nb fc ((t.onWaitEvent w e).2) := by
  l8t_unfold St.onWaitEvent
macro_rules | `(tactic| l8t1) => `(tactic| with_reducible apply DLoc.onWaitEvent)

theorem DLoc.onWaitDone {t : St} (h : DLoc K cx nb fc t) (w e : Nat) :
    DLoc K cx nb fc ((t.onWaitDone w e).2) := by
  l8t_unfold St.onWaitDone
macro_rules | `(tactic| l8t1) => `(tactic| with_reducible apply DLoc.onWaitDone)

theorem DLoc.onWaitTick {t : St} (h : DLoc K cx nb fc t) (w : Nat) :
    DLoc K cx nb fc ((t.onWaitTick w).2) := by
  l8t_unfold St.onWaitTick
macro_rules | `(tactic| l8t1) => `(tactic| with_reducible apply DLoc.onWaitTick)

theorem DLoc.onFallbackGE {t : St} (h : DLoc K cx nb fc t) (e : Nat) :
    DLoc K cx nb fc ((t.onFallbackGE e).2) := by
  l8t_unfold St.onFallbackGE
macro_rules | `(tactic| l8t1) => `(tactic| with_reducible apply DLoc.onFallbackGE)

theorem DLoc.computeHandlers {t : St} (h : DLoc K cx nb fc t) (r : Nat) (name : Name) (chans : List Chan) :
    DLoc K cx nb fc ((t.computeHandlers r name chans).2) := by
  l8t_unfold St.computeHandlers
macro_rules | `(tactic| l8t1) => `(tactic| with_reducible apply DLoc.computeHandlers)

theorem DLoc.dispComplete {t : St} (h : DLoc K cx nb fc t) (e : Nat) (ev : Ev) :
    DLoc K cx nb fc (t.dispComplete e ev) := by
  l8t_unfold St.dispComplete
macro_rules | `(tactic| l8t1) => `(tactic| with_reducible apply DLoc.dispComplete)

theorem DLoc.cacheRefresh {t : St} (h : DLoc K cx nb fc t) (r : Nat) :
    DLoc K cx nb fc (t.cacheRefresh r) := by
  l8t_unfold St.cacheRefresh
macro_rules | `(tactic| l8t1) => `(tactic| with_reducible apply DLoc.cacheRefresh)

theorem DLoc.lookupHandlers {t : St} (h : DLoc K cx nb fc t) (r : Nat) (name : Name) (chans : List Chan) :
    DLoc K cx nb fc ((t.lookupHandlers r name chans).2) := by
  l8t_unfold St.lookupHandlers
macro_rules | `(tactic| l8t1) => `(tactic| with_reducible apply DLoc.lookupHandlers)

theorem DLoc.dispGE {t : St} (h : DLoc K cx nb fc t) (r e remaining : Nat) (name : Name) :
    DLoc K cx nb fc (t.dispGE r e remaining name) := by
  l8t_unfold St.dispGE
macro_rules | `(tactic| l8t1) => `(tactic| with_reducible apply DLoc.dispGE)

theorem DLoc.dispatchPre {t : St} (h : DLoc K cx nb fc t) (r e remaining : Nat) :
    DLoc K cx nb fc ((t.dispatchPre r e remaining).2) := by
  l8t_unfold St.dispatchPre
macro_rules | `(tactic| l8t1) => `(tactic| with_reducible apply DLoc.dispatchPre)

theorem DLoc.handlerRaised {t : St} (h : DLoc K cx nb fc t) (r e : Nat) :
    DLoc K cx nb fc (t.handlerRaised r e) := by
  l8t_unfold St.handlerRaised
macro_rules | `(tactic| l8t1) => `(tactic| with_reducible apply DLoc.handlerRaised)

theorem DLoc.applyValue {t : St} (h : DLoc K cx nb fc t) (r e : Nat) (value : Outcome) :
    DLoc K cx nb fc (t.applyValue r e value) := by
  l8t_unfold St.applyValue
macro_rules | `(tactic| l8t1) => `(tactic| with_reducible apply DLoc.applyValue)

theorem DLoc.geTasksCheck {t : St} (h : DLoc K cx nb fc t) (r e : Nat) :
    DLoc K cx nb fc (t.geTasksCheck r e) := by
  l8t_unfold St.geTasksCheck
macro_rules | `(tactic| l8t1) => `(tactic| with_reducible apply DLoc.geTasksCheck)

theorem DLoc.runBegin {t : St} (h : DLoc K cx nb fc t) (c : Nat) :
    DLoc K cx nb fc (t.runBegin c) := by
  l8t_unfold St.runBegin
macro_rules | `(tactic| l8t1) => `(tactic| with_reducible apply DLoc.runBegin)

theorem DLoc.runEnd {t : St} (h : DLoc K cx nb fc t) (c : Nat) :
    DLoc K cx nb fc ((t.runEnd c).2) := by
  l8t_unfold St.runEnd
macro_rules | `(tactic| l8t1) => `(tactic| with_reducible apply DLoc.runEnd)

theorem DLoc.actStep {t : St} (h : DLoc K cx nb fc t) (ctx : HCtx) (a : Act) : DLoc K cx nb fc (actStep t ctx a).st := by
  cases a <;> (unfold CV.Core.actStep; (try dsimp only); l8t)
macro_rules | `(tactic| l8t1) => `(tactic| with_reducible apply DLoc.actStep)

theorem DLoc.flushBegin {t : St} (h : DLoc K cx nb fc t) (r : Nat) : DLoc K cx nb fc (t.flushBegin r) := by
  unfold St.flushBegin
  dsimp only
  apply DLoc.modCompLe
  · l8t
  · intro y; rw [d8_begin_cnt]; exact Nat.le_refl _
macro_rules | `(tactic| l8t1) => `(tactic| with_reducible apply DLoc.flushBegin)

theorem DLoc.updateRootAll : ∀ (fuel : Nat) (todo : List Nat) (root : Nat) (t : St),
    DLoc K cx nb fc t → DLoc K cx nb fc (St.updateRootAll fuel todo root t) := by
  intro fuel
  induction fuel with
  | zero => intro todo root t h; simpa [St.updateRootAll] using h
  | succ n ih =>
    intro todo root t h
    cases todo with
    | nil => simpa [St.updateRootAll] using h
    | cons x rest =>
      simp only [St.updateRootAll]
      apply ih
      l8t
macro_rules | `(tactic| l8t1) => `(tactic| with_reducible apply DLoc.updateRootAll)

/-- the drain of `register(c, p)` for `c ≠ cx`: `c`'s deque holds no `K` item, so none moves -/
theorem DLoc.drain {t : St} (h : DLoc K cx nb fc t) (r c : Nat) (hc : c ≠ cx) :
    DLoc K cx nb fc ((t.modComp r fun x => { x with eq := ((t.comp r).eq.drainFrom (t.comp c).eq).1, dirty := true }).modComp c
      fun x => { x with eq := ((t.comp r).eq.drainFrom (t.comp c).eq).2 }) := by
  have h0 : (t.comp c).eq.dequeCnt K = 0 ∧ (t.comp c).eq.heapCnt K = 0 := by
    have := h.other c hc
    simp only [EQ.cntK] at this
    omega
  apply DLoc.modCompAt
  · apply DLoc.modCompAt
    · exact h
    · simp only [EQ.drainFrom, EQ.cntK, EQ.dequeCnt, EQ.heapCnt, List.countP_append] at h0 ⊢
      omega
  · simp only [EQ.drainFrom, EQ.cntK, EQ.dequeCnt, EQ.heapCnt, List.countP_nil] at h0 ⊢
    omega

/-- `register(c, p)` of a component other than `cx` -/
theorem DLoc.registerPre {t : St} (h : DLoc K cx nb fc t) (c p : Nat) (hc : c ≠ cx) :
    DLoc K cx nb fc ((t.registerPre c p).2) := by
  unfold St.registerPre
  dsimp only
  split
  · split
    · l8t
    · dsimp only
      split
      · apply DLoc.drain _ _ _ hc
        l8t
      · l8t
  · l8t

/-! ## the arms of `step` -/

macro_rules
  | `(tactic| l8t1) => `(tactic| simp only [Cfg.pop_st, Cfg.popRet_st, Cfg.raise_st, Cfg.goto_st])

theorem Cfg.effectDone_l8 (c : Cfg) (k : List Frame) (r e : Nat) (announce : Bool) (hb : DLoc K cx nb fc c.st) :
    DLoc K cx nb fc (c.effectDone k r e announce).st := by
  unfold Cfg.effectDone; (try dsimp only); l8t
macro_rules | `(tactic| l8t1) => `(tactic| with_reducible apply Cfg.effectDone_l8)

theorem Cfg.eventDone_l8 (c : Cfg) (k : List Frame) (r e : Nat) (err : Bool) (hb : DLoc K cx nb fc c.st) :
    DLoc K cx nb fc (c.eventDone k r e err).st := by
  unfold Cfg.eventDone; (try dsimp only); l8t
macro_rules | `(tactic| l8t1) => `(tactic| with_reducible apply Cfg.eventDone_l8)

theorem Cfg.registerFin_l8 (c : Cfg) (k : List Frame) (x : Nat) (hb : DLoc K cx nb fc c.st) :
    DLoc K cx nb fc (c.registerFin k x).st := by
  unfold Cfg.registerFin; (try dsimp only); l8t
macro_rules | `(tactic| l8t1) => `(tactic| with_reducible apply Cfg.registerFin_l8)

theorem Cfg.prepUnregFin_l8 (c : Cfg) (k : List Frame) (x : Nat) (hb : DLoc K cx nb fc c.st) :
    DLoc K cx nb fc (c.prepUnregFin k x).st := by
  unfold Cfg.prepUnregFin; (try dsimp only); l8t
macro_rules | `(tactic| l8t1) => `(tactic| with_reducible apply Cfg.prepUnregFin_l8)

theorem Cfg.stopMgr_l8 (c : Cfg) (k : List Frame) (x : Nat) (code : Code) (hb : DLoc K cx nb fc c.st) :
    DLoc K cx nb fc (c.stopMgr k x code).st := by
  unfold Cfg.stopMgr; (try dsimp only); l8t
macro_rules | `(tactic| l8t1) => `(tactic| with_reducible apply Cfg.stopMgr_l8)

theorem Cfg.ticks_l8 (c : Cfg) (k : List Frame) (x n : Nat) (hb : DLoc K cx nb fc c.st) :
    DLoc K cx nb fc (c.ticks k x n).st := by
  unfold Cfg.ticks; (try dsimp only); l8t
macro_rules | `(tactic| l8t1) => `(tactic| with_reducible apply Cfg.ticks_l8)

theorem Cfg.stopFin_l8 (c : Cfg) (k : List Frame) (code : Code) (hb : DLoc K cx nb fc c.st) :
    DLoc K cx nb fc (c.stopFin k code).st := by
  unfold Cfg.stopFin; (try dsimp only); l8t
macro_rules | `(tactic| l8t1) => `(tactic| with_reducible apply Cfg.stopFin_l8)

theorem Cfg.timerNew_l8 (c : Cfg) (k : List Frame) (i : Nat) (hb : DLoc K cx nb fc c.st) :
    DLoc K cx nb fc (c.timerNew k i).st := by
  unfold Cfg.timerNew; (try dsimp only); l8t
macro_rules | `(tactic| l8t1) => `(tactic| with_reducible apply Cfg.timerNew_l8)

theorem Cfg.acts_l8 (c : Cfg) (k : List Frame) (ctx : HCtx) (prog : Prog) (hb : DLoc K cx nb fc c.st) :
    DLoc K cx nb fc (c.acts k ctx prog).st := by
  unfold Cfg.acts; (try dsimp only); l8t
macro_rules | `(tactic| l8t1) => `(tactic| with_reducible apply Cfg.acts_l8)

theorem Cfg.doFin_l8 (c : Cfg) (k : List Frame) (x : Nat) (hb : DLoc K cx nb fc c.st) :
    DLoc K cx nb fc (c.doFin k x).st := by
  unfold Cfg.doFin; (try dsimp only); l8t
macro_rules | `(tactic| l8t1) => `(tactic| with_reducible apply Cfg.doFin_l8)

theorem Cfg.drainQ_l8 (c : Cfg) (k : List Frame) (x : Nat) (hb : DLoc K cx nb fc c.st) :
    DLoc K cx nb fc (c.drainQ k x).st := by
  unfold Cfg.drainQ; (try dsimp only); l8t
macro_rules | `(tactic| l8t1) => `(tactic| with_reducible apply Cfg.drainQ_l8)

theorem Cfg.stepGen_l8 (c : Cfg) (k : List Frame) (g : Nat) (hb : DLoc K cx nb fc c.st) :
    DLoc K cx nb fc (c.stepGen k g).st := by
  unfold Cfg.stepGen; (try dsimp only); l8t
macro_rules | `(tactic| l8t1) => `(tactic| with_reducible apply Cfg.stepGen_l8)

theorem Cfg.processTask_l8 (c : Cfg) (k : List Frame) (r : Nat) (x : Task) (hb : DLoc K cx nb fc c.st) :
    DLoc K cx nb fc (c.processTask k r x).st := by
  unfold Cfg.processTask; (try dsimp only); l8t
macro_rules | `(tactic| l8t1) => `(tactic| with_reducible apply Cfg.processTask_l8)

theorem Cfg.contStop_l8 (c : Cfg) (k : List Frame) (s : St) (r : Nat) (x : Task) (hle : DLoc K cx nb fc s) :
    DLoc K cx nb fc (c.contStop k s r x).st := by
  unfold Cfg.contStop; (try dsimp only); l8t
macro_rules | `(tactic| l8t1) => `(tactic| with_reducible apply Cfg.contStop_l8)

theorem Cfg.contError_l8 (c : Cfg) (k : List Frame) (s : St) (r : Nat) (x : Task) (resumed : Bool) (hle : DLoc K cx nb fc s) :
    DLoc K cx nb fc (c.contError k s r x resumed).st := by
  unfold Cfg.contError; (try dsimp only); l8t
macro_rules | `(tactic| l8t1) => `(tactic| with_reducible apply Cfg.contError_l8)

theorem Cfg.ptBodyWait_l8 (c : Cfg) (k : List Frame) (r : Nat) (x : Task) (w : Nat) (hb : DLoc K cx nb fc c.st) :
    DLoc K cx nb fc (c.ptBodyWait k r x w).st := by
  unfold Cfg.ptBodyWait; (try dsimp only); l8t
macro_rules | `(tactic| l8t1) => `(tactic| with_reducible apply Cfg.ptBodyWait_l8)

theorem Cfg.ptBodyExc_l8 (c : Cfg) (k : List Frame) (r : Nat) (x : Task) (w : Nat) (fired : Bool) (hb : DLoc K cx nb fc c.st) :
    DLoc K cx nb fc (c.ptBodyExc k r x w fired).st := by
  unfold Cfg.ptBodyExc; (try dsimp only); l8t
macro_rules | `(tactic| l8t1) => `(tactic| with_reducible apply Cfg.ptBodyExc_l8)

theorem Cfg.ptBody_l8 (c : Cfg) (k : List Frame) (r : Nat) (x : Task) (hb : DLoc K cx nb fc c.st) :
    DLoc K cx nb fc (c.ptBody k r x).st := by
  unfold Cfg.ptBody; (try dsimp only); l8t
macro_rules | `(tactic| l8t1) => `(tactic| with_reducible apply Cfg.ptBody_l8)

theorem Cfg.ptOwn_l8 (c : Cfg) (k : List Frame) (r : Nat) (x : Task) (hb : DLoc K cx nb fc c.st) :
    DLoc K cx nb fc (c.ptOwn k r x).st := by
  unfold Cfg.ptOwn; (try dsimp only); l8t
macro_rules | `(tactic| l8t1) => `(tactic| with_reducible apply Cfg.ptOwn_l8)

theorem Cfg.ptParent_l8 (c : Cfg) (k : List Frame) (r : Nat) (x : Task) (p : Nat) (viaThrow : Bool) (hb : DLoc K cx nb fc c.st) :
    DLoc K cx nb fc (c.ptParent k r x p viaThrow).st := by
  unfold Cfg.ptParent; (try dsimp only); l8t
macro_rules | `(tactic| l8t1) => `(tactic| with_reducible apply Cfg.ptParent_l8)

theorem Cfg.ptFin_l8 (c : Cfg) (k : List Frame) (r : Nat) (handling : Option Nat) (hb : DLoc K cx nb fc c.st) :
    DLoc K cx nb fc (c.ptFin k r handling).st := by
  unfold Cfg.ptFin; (try dsimp only); l8t
macro_rules | `(tactic| l8t1) => `(tactic| with_reducible apply Cfg.ptFin_l8)

theorem Cfg.dispatcher_l8 (c : Cfg) (k : List Frame) (r e remaining : Nat) (hb : DLoc K cx nb fc c.st) :
    DLoc K cx nb fc (c.dispatcher k r e remaining).st := by
  unfold Cfg.dispatcher; (try dsimp only); l8t
macro_rules | `(tactic| l8t1) => `(tactic| with_reducible apply Cfg.dispatcher_l8)

theorem Cfg.hLoop_l8 (c : Cfg) (k : List Frame) (r e : Nat) (hs : List Nat) (err : Bool) (stale : Outcome) (hb : DLoc K cx nb fc c.st) :
    DLoc K cx nb fc (c.hLoop k r e hs err stale).st := by
  unfold Cfg.hLoop; (try dsimp only); l8t
macro_rules | `(tactic| l8t1) => `(tactic| with_reducible apply Cfg.hLoop_l8)

theorem Cfg.invokeUser_l8 (c : Cfg) (k : List Frame) (s : St) (h e owner p : Nat) (hle : DLoc K cx nb fc s) :
    DLoc K cx nb fc (c.invokeUser k s h e owner p).st := by
  unfold Cfg.invokeUser; (try dsimp only); l8t
macro_rules | `(tactic| l8t1) => `(tactic| with_reducible apply Cfg.invokeUser_l8)

theorem Cfg.invoke_l8 (c : Cfg) (k : List Frame) (r h e : Nat) (hb : DLoc K cx nb fc c.st) :
    DLoc K cx nb fc (c.invoke k r h e).st := by
  unfold Cfg.invoke; (try dsimp only); l8t
macro_rules | `(tactic| l8t1) => `(tactic| with_reducible apply Cfg.invoke_l8)

theorem Cfg.invokeFin_l8 (c : Cfg) (k : List Frame) (e h : Nat) (hb : DLoc K cx nb fc c.st) :
    DLoc K cx nb fc (c.invokeFin k e h).st := by
  unfold Cfg.invokeFin; (try dsimp only); l8t
macro_rules | `(tactic| l8t1) => `(tactic| with_reducible apply Cfg.invokeFin_l8)

theorem Cfg.hAfter_l8 (c : Cfg) (k : List Frame) (r e : Nat) (rest : List Nat) (err : Bool) (stale : Outcome) (hb : DLoc K cx nb fc c.st) :
    DLoc K cx nb fc (c.hAfter k r e rest err stale).st := by
  unfold Cfg.hAfter; (try dsimp only); l8t
macro_rules | `(tactic| l8t1) => `(tactic| with_reducible apply Cfg.hAfter_l8)

theorem Cfg.hApply_l8 (c : Cfg) (k : List Frame) (r e : Nat) (rest : List Nat) (err : Bool) (value : Outcome) (hb : DLoc K cx nb fc c.st) :
    DLoc K cx nb fc (c.hApply k r e rest err value).st := by
  unfold Cfg.hApply; (try dsimp only); l8t
macro_rules | `(tactic| l8t1) => `(tactic| with_reducible apply Cfg.hApply_l8)

theorem Cfg.dispFin_l8 (c : Cfg) (k : List Frame) (r e : Nat) (err : Bool) (hb : DLoc K cx nb fc c.st) :
    DLoc K cx nb fc (c.dispFin k r e err).st := by
  unfold Cfg.dispFin; (try dsimp only); l8t
macro_rules | `(tactic| l8t1) => `(tactic| with_reducible apply Cfg.dispFin_l8)

theorem Cfg.flushFin_l8 (c : Cfg) (k : List Frame) (r : Nat) (old : Bool) (hb : DLoc K cx nb fc c.st) :
    DLoc K cx nb fc (c.flushFin k r old).st := by
  unfold Cfg.flushFin; (try dsimp only); l8t
macro_rules | `(tactic| l8t1) => `(tactic| with_reducible apply Cfg.flushFin_l8)

theorem Cfg.tick_l8 (c : Cfg) (k : List Frame) (x : Nat) (hb : DLoc K cx nb fc c.st) :
    DLoc K cx nb fc (c.tick k x).st := by
  unfold Cfg.tick; (try dsimp only); l8t
macro_rules | `(tactic| l8t1) => `(tactic| with_reducible apply Cfg.tick_l8)

theorem Cfg.taskLoop_l8 (c : Cfg) (k : List Frame) (x : Nat) (ts : List Task) (hb : DLoc K cx nb fc c.st) :
    DLoc K cx nb fc (c.taskLoop k x ts).st := by
  unfold Cfg.taskLoop; (try dsimp only); l8t
macro_rules | `(tactic| l8t1) => `(tactic| with_reducible apply Cfg.taskLoop_l8)

theorem Cfg.tickFin_l8 (c : Cfg) (k : List Frame) (x : Nat) (old : Bool) (hb : DLoc K cx nb fc c.st) :
    DLoc K cx nb fc (c.tickFin k x old).st := by
  unfold Cfg.tickFin; (try dsimp only); l8t
macro_rules | `(tactic| l8t1) => `(tactic| with_reducible apply Cfg.tickFin_l8)

theorem Cfg.tickGen_l8 (c : Cfg) (k : List Frame) (x : Nat) (hb : DLoc K cx nb fc c.st) :
    DLoc K cx nb fc (c.tickGen k x).st := by
  unfold Cfg.tickGen; (try dsimp only); l8t
macro_rules | `(tactic| l8t1) => `(tactic| with_reducible apply Cfg.tickGen_l8)

theorem Cfg.run_l8 (c : Cfg) (k : List Frame) (x : Nat) (hb : DLoc K cx nb fc c.st) :
    DLoc K cx nb fc (c.run k x).st := by
  unfold Cfg.run; (try dsimp only); l8t
macro_rules | `(tactic| l8t1) => `(tactic| with_reducible apply Cfg.run_l8)

theorem Cfg.runLoop_l8 (c : Cfg) (k : List Frame) (x : Nat) (hb : DLoc K cx nb fc c.st) :
    DLoc K cx nb fc (c.runLoop k x).st := by
  unfold Cfg.runLoop; (try dsimp only); l8t
macro_rules | `(tactic| l8t1) => `(tactic| with_reducible apply Cfg.runLoop_l8)

theorem Cfg.runFin_l8 (c : Cfg) (k : List Frame) (x : Nat) (hb : DLoc K cx nb fc c.st) :
    DLoc K cx nb fc (c.runFin k x).st := by
  unfold Cfg.runFin; (try dsimp only); l8t
macro_rules | `(tactic| l8t1) => `(tactic| with_reducible apply Cfg.runFin_l8)

theorem Cfg.runCatchExn_l8 (c : Cfg) (k : List Frame) (x : Nat) (ex : Exn) (hb : DLoc K cx nb fc c.st) :
    DLoc K cx nb fc (c.runCatchExn k x ex).st := by
  unfold Cfg.runCatchExn; (try dsimp only); l8t
macro_rules | `(tactic| l8t1) => `(tactic| with_reducible apply Cfg.runCatchExn_l8)

theorem Cfg.runRethrow_l8 (c : Cfg) (k : List Frame) (ex : Exn) (hb : DLoc K cx nb fc c.st) :
    DLoc K cx nb fc (c.runRethrow k ex).st := by
  unfold Cfg.runRethrow; (try dsimp only); l8t
macro_rules | `(tactic| l8t1) => `(tactic| with_reducible apply Cfg.runRethrow_l8)


/-! ### arms with a manual proof -/

theorem Cfg.updateRoot_l8 (c : Cfg) (k : List Frame) (todo : List Nat) (root : Nat) (hb : DLoc K cx nb fc c.st) :
    DLoc K cx nb fc (c.updateRoot k todo root).st := by
  unfold Cfg.updateRoot; (try dsimp only); l8t
macro_rules | `(tactic| l8t1) => `(tactic| with_reducible apply Cfg.updateRoot_l8)

theorem Cfg.flush_l8 (c : Cfg) (k : List Frame) (x : Nat) (hb : DLoc K cx nb fc c.st) :
    DLoc K cx nb fc (c.flush k x).st := by
  unfold Cfg.flush; (try dsimp only); l8t
macro_rules | `(tactic| l8t1) => `(tactic| with_reducible apply Cfg.flush_l8)

theorem Cfg.dispatchLoop_l8 (c : Cfg) (k : List Frame) (r : Nat) (hb : DLoc K cx nb fc c.st) :
    DLoc K cx nb fc (c.dispatchLoop k r).st := by
  rcases Cfg.q2_dispatchLoop c k r with ⟨_, h2⟩ | ⟨it, q', h1, _, _, _, h5, _⟩
  · rw [h2]; exact hb
  · rw [h5]
    obtain ⟨_, hit, hq⟩ := pop_spec h1
    apply DLoc.modCompAt
    · exact hb
    · rw [hq]
      simp only [EQ.cntK, EQ.dequeCnt, EQ.heapCnt]
      have := d8_countP_erase (fun i => K i.ev) it _ (mem_minCands hit).1
      omega
macro_rules | `(tactic| l8t1) => `(tactic| with_reducible apply Cfg.dispatchLoop_l8)

theorem Cfg.register_l8 (c : Cfg) (k : List Frame) (x p : Nat) (hb : DLoc K cx nb fc c.st) (hx : x ≠ cx) :
    DLoc K cx nb fc (c.register k x p).st := by
  have h1 := hb.registerPre x p hx
  unfold Cfg.register; (try dsimp only); l8t


/-! ## the transition function -/

theorem unwind_l8 (c : Cfg) (k : List Frame) (ex : Exn) (f : Frame) (hb : DLoc K cx nb fc c.st) :
    DLoc K cx nb fc (unwind c k ex f).st := by
  cases f <;> (dsimp only [unwind]; l8t)

/-- one step, unless it executes `cx.register(p)` -/
theorem l8_step {c : Cfg} (hb : DLoc K cx nb fc c.st)
    (hreg : ∀ p k, c.stack = .register cx p :: k → c.exn ≠ none) : DLoc K cx nb fc (step c).st := by
  cases hs : c.stack with
  | nil => rw [step_nil c hs]; exact hb
  | cons f k =>
    cases hx : c.exn with
    | some ex => rw [step_cons_exn c f k ex hs hx]; exact unwind_l8 c k ex f hb
    | none =>
      rw [step_cons c f k hs hx]
      cases f
      case register x p =>
        have hne : x ≠ cx := by
          intro h; subst h
          exact hreg p k hs hx
        exact Cfg.register_l8 c k x p hb hne
      all_goals (dsimp only [stepFrame]; l8t)

/-! ## the first fire of a fresh event object on a root -/

theorem l8_fireContext_timers (s : St) (r e : Nat) : (s.fireContext r e).timers = s.timers := by
  unfold St.fireContext
  dsimp only
  repeat' split
  all_goals rfl

theorem l8_fireContext_log (s : St) (r e : Nat) : (s.fireContext r e).log = s.log := by
  unfold St.fireContext
  dsimp only
  repeat' split
  all_goals rfl

theorem l8_fireRaw_eq (s : St) (self e : Nat) (chans : List Chan) (prio : Int) :
    ∃ (s2 : St) (nm : Name), s2.comps = s.comps ∧ s2.timers = s.timers ∧ s2.log = s.log ∧
      s2.evs.length = s.evs.length ∧
      s.fireRaw self e chans prio =
        (s2.modComp (s.rootOf self) fun y => { y with eq := y.eq.append e prio }).logE (.fire e nm chans prio) := by
  unfold St.fireRaw
  dsimp only
  refine ⟨_, _, ?_, ?_, ?_, ?_, rfl⟩
  · rw [d8_fireContext_comps]; rfl
  · rw [l8_fireContext_timers]; rfl
  · rw [l8_fireContext_log]; rfl
  · rw [l8_fireContext_evs]; simp [St.modEv]

/-- the first `fire` of the event object `e` on a component `x` that is its own root, for the class
    `K = {e}`: afterwards the only queued copy is in `x`'s queue and the log has one `F` for it -/
theorem l8_fireRaw_fresh (s : St) (x e : Nat) (chans : List Chan) (prio : Int)
    (hroot : (s.comp x).root = x) (he : e < s.evs.length)
    (hq : ∀ y, (s.comp y).eq.cntK (· == e) = 0)
    (hf : firedCnt (· == e) s.log = 0)
    (ht : ∀ tm ∈ s.timers, ∀ e', tm.ev = some e' → e' ≠ e) :
    DLoc (· == e) x (e + 1) 1 (s.fireRaw x e chans prio) := by
  obtain ⟨s2, nm, hc, htm, hl, hev, heq⟩ := l8_fireRaw_eq s x e chans prio
  rw [heq]
  refine ⟨?_, ?_, ?_, ?_, ?_⟩
  · intro e' he'; simp only [beq_iff_eq] at he'; omega
  · show e + 1 ≤ s2.evs.length
    omega
  · intro tm htm' e' he'
    have : tm ∈ s.timers := by rw [← htm]; exact htm'
    have := ht tm this e' he'
    simpa using this
  · intro y hy
    show ((s2.modComp _ _).comp y).eq.cntK _ = 0
    rw [St.q2_comp_modComp]
    have hr : s.rootOf x = x := hroot
    rw [hr, if_neg (by intro hh; exact hy hh.1.symm)]
    have : s2.comp y = s.comp y := by unfold St.comp; rw [hc]
    rw [this]; exact hq y
  · show firedCnt _ (Entry.fire e nm chans prio :: (s2.modComp _ _).log) = 1
    have : (s2.modComp (s.rootOf x) fun y => { y with eq := y.eq.append e prio }).log = s.log := hl
    rw [this]
    simp only [firedCnt, List.countP_cons, d8isFire, beq_self_eq_true, if_true] at hf ⊢
    omega

/-- `self.fire(Ev(...))` of a new event object on a root `x` -/
theorem l8_fresh_fire (s : St) (x : Nat) (ev : Ev) (target : Option Chan) (prio : Int)
    (hroot : (s.comp x).root = x)
    (hq : ∀ y, (s.comp y).eq.cntK (· == s.evs.length) = 0)
    (hf : firedCnt (· == s.evs.length) s.log = 0)
    (ht : ∀ tm ∈ s.timers, ∀ e, tm.ev = some e → e < s.evs.length) :
    DLoc (· == s.evs.length) x (s.evs.length + 1) 1 (s.fireTmplEv x ev target prio) := by
  unfold St.fireTmplEv
  dsimp only
  apply l8_fireRaw_fresh
  · exact hroot
  · simp [St.addEv]
  · exact hq
  · exact hf
  · intro tm htm e he; have := ht tm htm e he; omega

end CV.Core

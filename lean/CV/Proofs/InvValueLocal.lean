import CV.Proofs.InvValueBase
/-
C04, machine level, part 4: local facts about the pure pieces the property talks about
(`fireRaw`, `fireChild`, `fireTmplEv`, `inform`, `setValue`, `handlerRaised`, `errorBranch`,
`eventDonePre`): which log entries they append, which events they create, what they do to the
event they are about.  `EvSame a b`: the two event records agree on every field the property
reads (everything except the completion bookkeeping `cause/effects/selfDone`, `timeLeft`,
`geHandler`, `cancelled`, `complete…`).
-/
namespace CV.Core

structure EvSame (a b : Ev) : Prop where
  name : a.name = b.name
  chans : a.chans = b.chans
  parentEv : a.parentEv = b.parentEv
  success : a.success = b.success
  failure : a.failure = b.failure
  notify : a.notify = b.notify
  successChans : a.successChans = b.successChans
  alertDone : a.alertDone = b.alertDone
  waiting : a.waiting = b.waiting
  stopped : a.stopped = b.stopped
  val : a.val = b.val
  mgr : a.mgr = b.mgr
  arg : a.arg = b.arg

theorem EvSame.refl (a : Ev) : EvSame a a := ⟨rfl, rfl, rfl, rfl, rfl, rfl, rfl, rfl, rfl, rfl, rfl, rfl, rfl⟩
theorem EvSame.of_eq {a b : Ev} (h : a = b) : EvSame a b := h ▸ EvSame.refl a
theorem EvSame.trans {a b c : Ev} (h1 : EvSame a b) (h2 : EvSame b c) : EvSame a c :=
  ⟨h1.name.trans h2.name, h1.chans.trans h2.chans, h1.parentEv.trans h2.parentEv, h1.success.trans h2.success,
   h1.failure.trans h2.failure, h1.notify.trans h2.notify, h1.successChans.trans h2.successChans,
   h1.alertDone.trans h2.alertDone, h1.waiting.trans h2.waiting, h1.stopped.trans h2.stopped,
   h1.val.trans h2.val, h1.mgr.trans h2.mgr, h1.arg.trans h2.arg⟩

/-- closes `∀ y, EvSame (f y) y` for an update `f` of other fields -/
macro "evsame" : tactic =>
  `(tactic| exact fun _ => ⟨rfl, rfl, rfl, rfl, rfl, rfl, rfl, rfl, rfl, rfl, rfl, rfl, rfl⟩)

theorem St.v4_modEv_same (t : St) (e : Nat) (f : Ev → Ev) (hf : ∀ y, EvSame (f y) y) (x : Nat) :
    EvSame ((t.modEv e f).ev x) (t.ev x) := by
  rw [St.v4ev_modEv]; split
  · exact hf _
  · exact EvSame.refl _

theorem St.v4_modEv_name (t : St) (e : Nat) (f : Ev → Ev) (hf : ∀ y, (f y).name = y.name) (x : Nat) :
    ((t.modEv e f).ev x).name = (t.ev x).name := by
  rw [St.v4ev_modEv]; split
  · exact hf _
  · rfl

/-! ### fireContext, fireRaw -/

theorem St.v4_fireContext_same (s : St) (r x y : Nat) : EvSame ((s.fireContext r x).ev y) (s.ev y) := by
  unfold St.fireContext
  dsimp only
  repeat' split
  all_goals first
    | exact EvSame.refl _
    | exact St.v4_modEv_same _ _ _ (by evsame) _
    | exact (St.v4_modEv_same _ _ _ (by evsame) _).trans (St.v4_modEv_same _ _ _ (by evsame) _)

theorem St.v4_fireContext_evs_length (s : St) (r x : Nat) : (s.fireContext r x).evs.length = s.evs.length := by
  unfold St.fireContext
  dsimp only
  repeat' split
  all_goals simp

theorem St.v4_fireContext_log (s : St) (r x : Nat) : (s.fireContext r x).log = s.log := by
  unfold St.fireContext
  dsimp only
  repeat' split
  all_goals rfl

theorem St.v4_fireRaw_log (s : St) (self x : Nat) (ch : List Chan) (p : Int) :
    (s.fireRaw self x ch p).log = .fire x (s.ev x).name ch p :: s.log := by
  unfold St.fireRaw
  dsimp only
  rw [St.v4log_logE, St.v4log_modComp, St.v4_fireContext_log, St.v4log_modEv, St.v4ev_modComp,
    (St.v4_fireContext_same _ _ _ _).name, St.v4_modEv_name]
  intro y; rfl

theorem St.v4_fireRaw_evs_length (s : St) (self x : Nat) (ch : List Chan) (p : Int) :
    (s.fireRaw self x ch p).evs.length = s.evs.length := by
  unfold St.fireRaw
  dsimp only
  show ((s.modEv x _).fireContext _ x).evs.length = _
  rw [St.v4_fireContext_evs_length, St.v4evs_modEv_length]

/-- `fireRaw` of `x` leaves every other event as it was (up to completion bookkeeping) -/
theorem St.v4_fireRaw_same (s : St) (self x : Nat) (ch : List Chan) (p : Int) (y : Nat) (hy : y ≠ x) :
    EvSame ((s.fireRaw self x ch p).ev y) (s.ev y) := by
  unfold St.fireRaw
  dsimp only
  rw [St.v4ev_logE, St.v4ev_modComp]
  refine (St.v4_fireContext_same _ _ _ _).trans ?_
  rw [St.v4ev_modEv_ne _ _ _ _ hy]
  exact EvSame.refl _

/-- the fired event itself: fresh Value, the given channels -/
theorem St.v4_fireRaw_self (s : St) (self x : Nat) (ch : List Chan) (p : Int) (hx : x < s.evs.length) :
    ((s.fireRaw self x ch p).ev x).val = {} ∧ ((s.fireRaw self x ch p).ev x).chans = ch := by
  unfold St.fireRaw
  dsimp only
  rw [St.v4ev_logE, St.v4ev_modComp]
  have h := St.v4_fireContext_same (s.modEv x fun y => { y with chans := ch, val := {}, mgr := self })
    ((s.modEv x fun y => { y with chans := ch, val := {}, mgr := self }).rootOf self) x x
  rw [h.val, h.chans, St.v4ev_modEv_same _ _ _ hx]
  exact ⟨rfl, rfl⟩

/-! ### fireChild, fireTmplEv, fireException -/

theorem St.v4_fireChild_log (s : St) (self p sfx : Nat) (ch : List Chan) :
    (s.fireChild self p sfx ch).log = .fire s.evs.length ((s.ev p).name.child sfx) ch 0 :: s.log := by
  unfold St.fireChild St.childEv
  rw [St.v4_fireRaw_log, St.v4ev_addEv, if_pos rfl]
  rfl

theorem St.v4_fireChild_evs_length (s : St) (self p sfx : Nat) (ch : List Chan) :
    (s.fireChild self p sfx ch).evs.length = s.evs.length + 1 := by
  unfold St.fireChild St.childEv
  rw [St.v4_fireRaw_evs_length, St.v4evs_addEv_length]

theorem St.v4_fireChild_same (s : St) (self p sfx : Nat) (ch : List Chan) (y : Nat) (hy : y < s.evs.length) :
    EvSame ((s.fireChild self p sfx ch).ev y) (s.ev y) := by
  unfold St.fireChild St.childEv
  refine (St.v4_fireRaw_same _ _ _ _ _ _ (by omega)).trans ?_
  rw [St.v4ev_addEv, if_neg (by omega)]
  exact EvSame.refl _

/-- the child event: named after the parent, linked to it -/
theorem St.v4_fireChild_new (s : St) (self p sfx : Nat) (ch : List Chan) :
    ((s.fireChild self p sfx ch).ev s.evs.length).name = (s.ev p).name.child sfx ∧
    ((s.fireChild self p sfx ch).ev s.evs.length).parentEv = some p := by
  unfold St.fireChild St.childEv St.fireRaw
  dsimp only
  rw [St.v4ev_logE, St.v4ev_modComp]
  have h := St.v4_fireContext_same ((s.addEv { name := (s.ev p).name.child sfx, parentEv := some p }).modEv s.evs.length
      fun y => { y with chans := ch, val := {}, mgr := self })
    (((s.addEv { name := (s.ev p).name.child sfx, parentEv := some p }).modEv s.evs.length
      fun y => { y with chans := ch, val := {}, mgr := self }).rootOf self) s.evs.length s.evs.length
  rw [h.name, h.parentEv, St.v4ev_modEv_same _ _ _ (by simp), St.v4ev_addEv, if_pos rfl]
  exact ⟨rfl, rfl⟩

theorem St.v4_fireTmplEv_log (s : St) (self : Nat) (a : Ev) (target : Option Chan) (p : Int) :
    ∃ ch, (s.fireTmplEv self a target p).log = .fire s.evs.length a.name ch p :: s.log := by
  unfold St.fireTmplEv
  dsimp only
  refine ⟨(match target with | some t => [t] | none => [((s.addEv a).comp self).chan]), ?_⟩
  rw [St.v4_fireRaw_log, St.v4ev_addEv, if_pos rfl]
  rfl

theorem St.v4_fireTmplEv_evs_length (s : St) (self : Nat) (a : Ev) (target : Option Chan) (p : Int) :
    (s.fireTmplEv self a target p).evs.length = s.evs.length + 1 := by
  unfold St.fireTmplEv
  dsimp only
  rw [St.v4_fireRaw_evs_length, St.v4evs_addEv_length]

theorem St.v4_fireTmplEv_same (s : St) (self : Nat) (a : Ev) (target : Option Chan) (p : Int) (y : Nat)
    (hy : y < s.evs.length) : EvSame ((s.fireTmplEv self a target p).ev y) (s.ev y) := by
  unfold St.fireTmplEv
  dsimp only
  refine (St.v4_fireRaw_same _ _ _ _ _ _ (by omega)).trans ?_
  rw [St.v4ev_addEv, if_neg (by omega)]
  exact EvSame.refl _


theorem St.v4_modEv_proj {α} (π : Ev → α) (t : St) (e : Nat) (f : Ev → Ev) (hf : ∀ y, π (f y) = π y) (x : Nat) :
    π ((t.modEv e f).ev x) = π (t.ev x) := by
  rw [St.v4ev_modEv]; split
  · exact hf _
  · rfl

/-! ### handlerRaised (the `except BaseException` of the handler loop) -/

/-- `event.value.errors = True` -/
def errF : Ev → Ev := fun x => { x with val := { x.val with errors := true } }

theorem St.v4_handlerRaised_eq (s : St) (r e : Nat) :
    s.handlerRaised r e =
      (if ((s.modEv e errF).ev e).failure then
        (s.modEv e errF).fireChild r e sfxFailure ((s.modEv e errF).ev e).chans
       else s.modEv e errF).fireException r e := rfl

/-- the log entries of `handlerRaised`: exactly one `exception` event, preceded by one
    `<name>_failure` event iff the event requested failure feedback -/
theorem St.v4_handlerRaised_log (s : St) (r e : Nat) : ∃ ch,
    (s.handlerRaised r e).log =
      if (s.ev e).failure then
        .fire (s.evs.length + 1) Name.exception ch 0 ::
          .fire s.evs.length ((s.ev e).name.child sfxFailure) (s.ev e).chans 0 :: s.log
      else .fire s.evs.length Name.exception ch 0 :: s.log := by
  rw [St.v4_handlerRaised_eq]
  have hF : ((s.modEv e errF).ev e).failure = (s.ev e).failure := St.v4_modEv_proj (·.failure) s e errF (fun _ => rfl) e
  have hN : ((s.modEv e errF).ev e).name = (s.ev e).name := St.v4_modEv_proj (·.name) s e errF (fun _ => rfl) e
  have hC : ((s.modEv e errF).ev e).chans = (s.ev e).chans := St.v4_modEv_proj (·.chans) s e errF (fun _ => rfl) e
  rw [hF, hC]
  by_cases hf : (s.ev e).failure = true
  · rw [if_pos hf]
    unfold St.fireException
    obtain ⟨ch, hlog⟩ := St.v4_fireTmplEv_log ((s.modEv e errF).fireChild r e sfxFailure (s.ev e).chans) r
      { name := Name.exception, arg := e } none 0
    refine ⟨ch, ?_⟩
    rw [if_pos hf, hlog, St.v4_fireChild_log, St.v4_fireChild_evs_length, St.v4evs_modEv_length, St.v4log_modEv, hN]
  · rw [if_neg hf]
    unfold St.fireException
    obtain ⟨ch, hlog⟩ := St.v4_fireTmplEv_log (s.modEv e errF) r { name := Name.exception, arg := e } none 0
    refine ⟨ch, ?_⟩
    rw [if_neg hf, hlog, St.v4evs_modEv_length, St.v4log_modEv]

/-- `handlerRaised` sets the errors flag of the event and leaves the rest of its Value alone -/
theorem St.v4_handlerRaised_val (s : St) (r e : Nat) (he : e < s.evs.length) :
    ((s.handlerRaised r e).ev e).val = { (s.ev e).val with errors := true } := by
  rw [St.v4_handlerRaised_eq]
  unfold St.fireException
  by_cases hf : ((s.modEv e errF).ev e).failure = true
  · rw [if_pos hf, (St.v4_fireTmplEv_same _ _ _ _ _ e (by rw [St.v4_fireChild_evs_length, St.v4evs_modEv_length]; omega)).val,
      (St.v4_fireChild_same _ _ _ _ _ e (by rw [St.v4evs_modEv_length]; exact he)).val, St.v4ev_modEv_same _ _ _ he]
    rfl
  · rw [if_neg hf, (St.v4_fireTmplEv_same _ _ _ _ _ e (by rw [St.v4evs_modEv_length]; exact he)).val,
      St.v4ev_modEv_same _ _ _ he]
    rfl

theorem St.v4_handlerRaised_errors (s : St) (r e : Nat) (he : e < s.evs.length) :
    ((s.handlerRaised r e).ev e).val.errors = true := by
  rw [St.v4_handlerRaised_val s r e he]

/-- the events `handlerRaised` creates -/
theorem St.v4_handlerRaised_evs_length (s : St) (r e : Nat) :
    (s.handlerRaised r e).evs.length = s.evs.length + (if (s.ev e).failure then 2 else 1) := by
  rw [St.v4_handlerRaised_eq]
  have hF : ((s.modEv e errF).ev e).failure = (s.ev e).failure := St.v4_modEv_proj (·.failure) s e errF (fun _ => rfl) e
  rw [hF]
  unfold St.fireException
  by_cases hf : (s.ev e).failure = true
  · rw [if_pos hf, if_pos hf, St.v4_fireTmplEv_evs_length, St.v4_fireChild_evs_length, St.v4evs_modEv_length]
  · rw [if_neg hf, if_neg hf, St.v4_fireTmplEv_evs_length, St.v4evs_modEv_length]


/-! ### eventDonePre (`_eventDone` up to `_effectDone`) -/

theorem St.v4_alertDone_lt (s : St) (e : Nat) (h : (s.ev e).alertDone = true) : e < s.evs.length := by
  apply Classical.byContradiction
  intro hn
  rw [St.v4ev_dflt s e (by omega)] at h
  exact absurd h (by decide)

/-- while handlers of the event are still waiting, `_eventDone` does nothing at all -/
theorem St.v4_eventDonePre_waiting (s : St) (r e : Nat) (err : Bool) (h : (s.ev e).waiting ≠ 0) :
    s.eventDonePre r e err = (false, s) := by
  unfold St.eventDonePre
  simp [h]

theorem St.v4_eventDonePre_fst (s : St) (r e : Nat) (err : Bool) :
    (s.eventDonePre r e err).1 = true ↔ (s.ev e).waiting = 0 := by
  unfold St.eventDonePre
  dsimp only
  by_cases h : (s.ev e).waiting = 0
  · simp [h]
  · simp [h]

/-- the success condition of `_eventDone`, read off the state before -/
def St.successCond (s : St) (e : Nat) (err : Bool) : Bool :=
  !err && !(s.ev e).val.errors && (s.ev e).success

/-- the feedback of `_eventDone` when no handler is waiting any more: `<name>_done` iff a
    `wait`/`call` asked for it, then `<name>_success` (on the success channels) iff the
    dispatcher saw no error, the Value has no error and the event requested it -/
theorem St.v4_eventDonePre_log (s : St) (r e : Nat) (err : Bool) (h : (s.ev e).waiting = 0) :
    (s.eventDonePre r e err).2.log =
      (if s.successCond e err then
        [Entry.fire (s.evs.length + (if (s.ev e).alertDone then 1 else 0)) ((s.ev e).name.child sfxSuccess)
          ((s.ev e).successChans.getD (s.ev e).chans) 0] else []) ++
      (if (s.ev e).alertDone then [Entry.fire s.evs.length ((s.ev e).name.child sfxDone) (s.ev e).chans 0] else []) ++
      s.log := by
  unfold St.eventDonePre St.successCond
  dsimp only
  have hw : ((s.ev e).waiting != 0) = false := by simp [h]
  rw [hw]
  simp only [Bool.false_eq_true, if_false, St.v4log_modEv]
  by_cases ha : (s.ev e).alertDone = true
  · have he := St.v4_alertDone_lt s e ha
    have hs := St.v4_fireChild_same s r e sfxDone (s.ev e).chans e he
    simp only [ha, if_true, hs.val, hs.success, hs.successChans, hs.chans]
    split
    · rw [St.v4_fireChild_log, St.v4_fireChild_log, St.v4_fireChild_evs_length, hs.name]; rfl
    · rw [St.v4_fireChild_log]; rfl
  · simp only [ha, Bool.false_eq_true, if_false]
    split
    · rw [St.v4_fireChild_log]; rfl
    · rfl


/-! ### inform, setValue -/

/-- number of `fire` entries with name `n` -/
def isFire (n : Name) : Entry → Bool
  | .fire _ m _ _ => m == n
  | _ => false
def fires (n : Name) (es : List Entry) : Nat := es.countP (isFire n)

theorem fires_append (n : Name) (a b : List Entry) : fires n (a ++ b) = fires n a + fires n b := by
  simp [fires, List.countP_append]

/-- later states: the event table only grew and old events kept every field the property reads -/
def Grow (s s' : St) : Prop :=
  s.evs.length ≤ s'.evs.length ∧ ∀ y, y < s.evs.length → EvSame (s'.ev y) (s.ev y)

theorem Grow.refl (s : St) : Grow s s := ⟨Nat.le_refl _, fun _ _ => EvSame.refl _⟩
theorem Grow.trans {a b c : St} (h1 : Grow a b) (h2 : Grow b c) : Grow a c :=
  ⟨Nat.le_trans h1.1 h2.1, fun y hy => (h2.2 y (Nat.lt_of_lt_of_le hy h1.1)).trans (h1.2 y hy)⟩

theorem Grow.fireChild {a b : St} (h : Grow a b) (self p sfx : Nat) (ch : List Chan) :
    Grow a (b.fireChild self p sfx ch) :=
  h.trans ⟨by rw [St.v4_fireChild_evs_length]; omega, fun y hy => St.v4_fireChild_same _ _ _ _ _ y hy⟩

theorem Grow.fireTmplEv {a b : St} (h : Grow a b) (self : Nat) (x : Ev) (target : Option Chan) (p : Int) :
    Grow a (b.fireTmplEv self x target p) :=
  h.trans ⟨by rw [St.v4_fireTmplEv_evs_length]; omega, fun y hy => St.v4_fireTmplEv_same _ _ _ _ _ y hy⟩

theorem St.v4_inform_cases (s : St) (e : Nat) (force : Bool) :
    s.inform e force = s ∨
    s.inform e force = s.fireChild (s.ev e).mgr e sfxValueChanged [.inst (s.ev e).mgr] := by
  unfold St.inform
  dsimp only
  split
  · exact Or.inl rfl
  · split
    · exact Or.inr rfl
    · exact Or.inl rfl

theorem Grow.inform {a b : St} (h : Grow a b) (e : Nat) (force : Bool) : Grow a (b.inform e force) := by
  cases St.v4_inform_cases b e force with
  | inl h1 => rw [h1]; exact h
  | inr h1 => rw [h1]; exact h.fireChild ..

/-- `inform` appends at most one entry, a `<name>_value_changed` fire -/
theorem St.v4_inform_log (s : St) (e : Nat) (force : Bool) :
    ∃ es, (s.inform e force).log = es ++ s.log ∧
      ∀ m, m ≠ (s.ev e).name.child sfxValueChanged → fires m es = 0 := by
  cases St.v4_inform_cases s e force with
  | inl h1 => exact ⟨[], by rw [h1]; rfl, fun _ _ => rfl⟩
  | inr h1 =>
    refine ⟨[.fire s.evs.length ((s.ev e).name.child sfxValueChanged) [.inst (s.ev e).mgr] 0], ?_, ?_⟩
    · rw [h1, St.v4_fireChild_log]; rfl
    · intro m hm
      have : ((s.ev e).name.child sfxValueChanged == m) = false := by
        simp only [beq_eq_false_iff_ne, ne_eq]; exact fun h => hm h.symm
      simp [fires, isFire, this]

/-- `event.value.value = x` on an existing event: exactly `Val.set` -/
theorem St.v4_setValue_val (s : St) (e : Nat) (x : VItem) (he : e < s.evs.length) :
    ((s.setValue e x).ev e).val = (s.ev e).val.set x := by
  unfold St.setValue
  have g : Grow (s.modEv e fun ev => { ev with val := ev.val.set x })
      ((s.modEv e fun ev => { ev with val := ev.val.set x }).inform e false) := (Grow.refl _).inform e false
  rw [(g.2 e (by simpa using he)).val, St.v4ev_modEv_same _ _ _ he]

/-- … and it touches no other existing event -/
theorem St.v4_setValue_other (s : St) (e : Nat) (x : VItem) (y : Nat) (hy : y < s.evs.length) (hne : y ≠ e) :
    EvSame ((s.setValue e x).ev y) (s.ev y) := by
  unfold St.setValue
  have g : Grow (s.modEv e fun ev => { ev with val := ev.val.set x })
      ((s.modEv e fun ev => { ev with val := ev.val.set x }).inform e false) := (Grow.refl _).inform e false
  refine (g.2 y (by simpa using hy)).trans ?_
  rw [St.v4ev_modEv_ne _ _ _ _ hne]
  exact EvSame.refl _


/-! ### errorBranch (the `except BaseException` of `processTask`) -/

theorem St.v4_modEv_val_keep (t : St) (e : Nat) (f : Ev → Ev) (hf : ∀ y, (f y).val = y.val) (x : Nat) :
    ((t.modEv e f).ev x).val = (t.ev x).val := St.v4_modEv_proj (·.val) t e f hf x

/-- name, failure flag and channels agree -/
def EvNF (a b : Ev) : Prop := a.name = b.name ∧ a.failure = b.failure ∧ a.chans = b.chans
theorem EvNF.trans {a b c : Ev} (h1 : EvNF a b) (h2 : EvNF b c) : EvNF a c :=
  ⟨h1.1.trans h2.1, h1.2.1.trans h2.2.1, h1.2.2.trans h2.2.2⟩
theorem EvSame.toNF {a b : Ev} (h : EvSame a b) : EvNF a b := ⟨h.name, h.failure, h.chans⟩
theorem St.v4_modEv_nf (t : St) (e : Nat) (f : Ev → Ev) (hf : ∀ y, EvNF (f y) y) (x : Nat) :
    EvNF ((t.modEv e f).ev x) (t.ev x) := by
  rw [St.v4ev_modEv]; split
  · exact hf _
  · exact ⟨rfl, rfl, rfl⟩

/-- `event.value.value = err` -/
def setErrF : Ev → Ev := fun x => { x with val := x.val.set .err }

/-- `unregisterTask; event.value.value = err` (with its `inform()`) -/
def St.errMid (s : St) (r : Nat) (t : Task) : St :=
  ((s.unregisterTask r t).modEv t.e setErrF).inform t.e false

/-- `inform(True)`; failure feedback; the `exception` event -/
def St.errTail (b : St) (r E : Nat) : St :=
  (if ((b.inform E true).ev E).failure
    then (b.inform E true).fireChild r E sfxFailure ((b.inform E true).ev E).chans
    else b.inform E true).fireException r E

theorem St.v4_errorBranch_snd (s : St) (r : Nat) (t : Task) (resumed : Bool) :
    (s.errorBranch r t resumed).2 =
      if t.parent.isNone || resumed then
        (((s.errMid r t).modEv t.e errF).errTail r t.e).modEv t.e
          fun x => { x with waiting := x.waiting - (if resumed then 2 else 1) }
      else ((s.errMid r t).modEv t.e errF).errTail r t.e := by
  unfold St.errorBranch St.errMid St.errTail
  dsimp only
  split <;> rfl

theorem St.errMid_grow (s : St) (r : Nat) (t : Task) :
    Grow ((s.unregisterTask r t).modEv t.e setErrF) (s.errMid r t) := (Grow.refl _).inform _ _

theorem St.errTail_grow (b : St) (r E : Nat) : Grow b (b.errTail r E) := by
  unfold St.errTail St.fireException
  apply Grow.fireTmplEv
  split
  · exact ((Grow.refl b).inform _ _).fireChild ..
  · exact (Grow.refl b).inform _ _

/-- the task error branch stores the error triple as one more result and sets `errors` -/
theorem St.v4_errorBranch_val (s : St) (r : Nat) (t : Task) (resumed : Bool) (he : t.e < s.evs.length) :
    (((s.errorBranch r t resumed).2).ev t.e).val = { (s.ev t.e).val.set .err with errors := true } := by
  have heA : t.e < ((s.unregisterTask r t).modEv t.e setErrF).evs.length := by
    rw [St.v4evs_modEv_length]; exact he
  have hA : (((s.unregisterTask r t).modEv t.e setErrF).ev t.e).val = (s.ev t.e).val.set .err := by
    rw [St.v4ev_modEv_same (s.unregisterTask r t) t.e setErrF he]; rfl
  have gM := St.errMid_grow s r t
  have hM : ((s.errMid r t).ev t.e).val = (s.ev t.e).val.set .err := (gM.2 _ heA).val.trans hA
  have heM : t.e < (s.errMid r t).evs.length := Nat.lt_of_lt_of_le heA gM.1
  have hB : (((s.errMid r t).modEv t.e errF).ev t.e).val = { (s.ev t.e).val.set .err with errors := true } := by
    rw [St.v4ev_modEv_same _ _ _ heM]; unfold errF; dsimp only; rw [hM]
  have gT := St.errTail_grow ((s.errMid r t).modEv t.e errF) r t.e
  have hT : ((((s.errMid r t).modEv t.e errF).errTail r t.e).ev t.e).val
      = { (s.ev t.e).val.set .err with errors := true } :=
    (gT.2 _ (by rw [St.v4evs_modEv_length]; exact heM)).val.trans hB
  rw [St.v4_errorBranch_snd]
  split
  · refine (St.v4_modEv_val_keep _ _ _ ?_ _).trans hT
    intro y; rfl
  · exact hT

theorem St.v4_errorBranch_errors (s : St) (r : Nat) (t : Task) (resumed : Bool) (he : t.e < s.evs.length) :
    (((s.errorBranch r t resumed).2).ev t.e).val.errors = true := by
  rw [St.v4_errorBranch_val s r t resumed he]

theorem Name.exception_ne_child (n : Name) (k : Nat) : Name.exception ≠ n.child k := by
  intro h
  have := congrArg Name.sfx h
  simp [Name.child, Name.exception] at this

theorem Name.child_ne_child (n m : Name) (j k : Nat) (hjk : j ≠ k) : n.child j ≠ m.child k := by
  intro h
  have h1 := congrArg (fun x => x.sfx.getLast?) h
  simp [Name.child] at h1
  exact hjk h1

theorem fires_cons_fire (n m : Name) (i : Nat) (ch : List Chan) (p : Int) (es : List Entry) :
    fires n (.fire i m ch p :: es) = (if m == n then 1 else 0) + fires n es := by
  by_cases hm : (m == n) = true <;> simp [fires, isFire, hm] <;> omega

/-- the log entries of the task error branch: exactly one `exception` event, one
    `<name>_failure` event iff the event requested failure feedback (and at most two
    `<name>_value_changed` events) -/
theorem St.v4_errorBranch_log (s : St) (r : Nat) (t : Task) (resumed : Bool) (he : t.e < s.evs.length) :
    ∃ es, (s.errorBranch r t resumed).2.log = es ++ s.log ∧ fires Name.exception es = 1 ∧
      fires ((s.ev t.e).name.child sfxFailure) es = if (s.ev t.e).failure then 1 else 0 := by
  -- the pieces
  have heA : t.e < ((s.unregisterTask r t).modEv t.e setErrF).evs.length := by
    rw [St.v4evs_modEv_length]; exact he
  have nA : EvNF (((s.unregisterTask r t).modEv t.e setErrF).ev t.e) (s.ev t.e) :=
    St.v4_modEv_nf (s.unregisterTask r t) t.e setErrF (fun _ => ⟨rfl, rfl, rfl⟩) t.e
  have gM := St.errMid_grow s r t
  have nM : EvNF ((s.errMid r t).ev t.e) (s.ev t.e) := (gM.2 _ heA).toNF.trans nA
  have heM : t.e < (s.errMid r t).evs.length := Nat.lt_of_lt_of_le heA gM.1
  have nB : EvNF (((s.errMid r t).modEv t.e errF).ev t.e) (s.ev t.e) :=
    (St.v4_modEv_nf (s.errMid r t) t.e errF (fun _ => ⟨rfl, rfl, rfl⟩) t.e).trans nM
  have heB : t.e < ((s.errMid r t).modEv t.e errF).evs.length := by rw [St.v4evs_modEv_length]; exact heM
  have gI : Grow ((s.errMid r t).modEv t.e errF) (((s.errMid r t).modEv t.e errF).inform t.e true) :=
    (Grow.refl _).inform _ _
  have nI : EvNF ((((s.errMid r t).modEv t.e errF).inform t.e true).ev t.e) (s.ev t.e) :=
    (gI.2 _ heB).toNF.trans nB
  -- the logs
  obtain ⟨es1, hl1, hf1⟩ := St.v4_inform_log ((s.unregisterTask r t).modEv t.e setErrF) t.e false
  obtain ⟨es2, hl2, hf2⟩ := St.v4_inform_log ((s.errMid r t).modEv t.e errF) t.e true
  rw [nA.1] at hf1
  rw [nB.1] at hf2
  have hlM : (s.errMid r t).log = es1 ++ s.log := hl1
  have hlI : (((s.errMid r t).modEv t.e errF).inform t.e true).log = (es2 ++ es1) ++ s.log := by
    rw [hl2, St.v4log_modEv, hlM, List.append_assoc]
  have hx5 : Name.exception ≠ (s.ev t.e).name.child sfxValueChanged := Name.exception_ne_child _ _
  have hx3 : ((s.ev t.e).name.child sfxFailure == Name.exception) = false := by
    simp only [beq_eq_false_iff_ne, ne_eq]; exact fun h => Name.exception_ne_child _ _ h.symm
  have h35 : (s.ev t.e).name.child sfxFailure ≠ (s.ev t.e).name.child sfxValueChanged :=
    Name.child_ne_child _ _ _ _ (by decide)
  have hxx : (Name.exception == (s.ev t.e).name.child sfxFailure) = false := by
    simp only [beq_eq_false_iff_ne, ne_eq]; exact Name.exception_ne_child _ _
  have hlT : ∃ es, (((s.errMid r t).modEv t.e errF).errTail r t.e).log = es ++ s.log ∧
      fires Name.exception es = 1 ∧
      fires ((s.ev t.e).name.child sfxFailure) es = if (s.ev t.e).failure then 1 else 0 := by
    unfold St.errTail St.fireException
    rw [nI.2.1, nI.2.2]
    by_cases hF : (s.ev t.e).failure = true
    · rw [if_pos hF, if_pos hF]
      obtain ⟨ch, hlog⟩ := St.v4_fireTmplEv_log
        ((((s.errMid r t).modEv t.e errF).inform t.e true).fireChild r t.e sfxFailure (s.ev t.e).chans) r
        { name := Name.exception, arg := t.e } none 0
      obtain ⟨i, j, hl⟩ : ∃ i j, (((((s.errMid r t).modEv t.e errF).inform t.e true).fireChild r t.e sfxFailure
            (s.ev t.e).chans).fireTmplEv r { name := Name.exception, arg := t.e } none 0).log =
          (Entry.fire i Name.exception ch 0 ::
            Entry.fire j ((s.ev t.e).name.child sfxFailure) (s.ev t.e).chans 0 :: (es2 ++ es1)) ++ s.log :=
        ⟨_, _, by rw [hlog, St.v4_fireChild_log, hlI, nI.1]; rfl⟩
      refine ⟨_, hl, ?_, ?_⟩
      · rw [fires_cons_fire, fires_cons_fire, fires_append, hf1 _ hx5, hf2 _ hx5, hx3]; simp
      · rw [fires_cons_fire, fires_cons_fire, fires_append, hf1 _ h35, hf2 _ h35, hxx]; simp
    · rw [if_neg hF, if_neg hF]
      obtain ⟨ch, hlog⟩ := St.v4_fireTmplEv_log (((s.errMid r t).modEv t.e errF).inform t.e true) r
        { name := Name.exception, arg := t.e } none 0
      obtain ⟨i, hl⟩ : ∃ i, ((((s.errMid r t).modEv t.e errF).inform t.e true).fireTmplEv r
            { name := Name.exception, arg := t.e } none 0).log =
          (Entry.fire i Name.exception ch 0 :: (es2 ++ es1)) ++ s.log :=
        ⟨_, by rw [hlog, hlI]; rfl⟩
      refine ⟨_, hl, ?_, ?_⟩
      · rw [fires_cons_fire, fires_append, hf1 _ hx5, hf2 _ hx5]; simp
      · rw [fires_cons_fire, fires_append, hf1 _ h35, hf2 _ h35, hxx]; rfl
  rw [St.v4_errorBranch_snd]
  split
  · rw [St.v4log_modEv]; exact hlT
  · exact hlT

end CV.Core
